(** C01/C02 — the TypeScript type emitted for a selection tree denotes exactly the tree.

    [tree_den] reads a SelectionTree directly as a set of values (one exact record per branch: the
    unaliased fields whose key the object's declaration has, plus the aliased fields; [Empty] = key
    absent; [Leaf] = the named type under the wrappers of its GraphQL type, [__typename] = the branch's
    type name; [Object] = recursively; [| null] unless under NonNull).
    [tree_type_den]: for every tree, [In_type E (tree_type ns t nn) v <-> tree_den t nn v = true],
    i.e. to_ts.rs ([generate_selection_tree_type], [field_to_type], [map_to_tstype]) loses and adds
    nothing under the reading of Ts/TsDen.v — unbounded in the tree. *)
From V Require Import Base.Util Gql.Ast Writer.Wop Ts.TsType Ts.TsDen C01.Model C01.TsLemmas.

(** * induction principle for the nested mutual type of selection trees *)
Section StreeInd.
  Variables (P : stree -> Prop) (Q : sbranch -> Prop) (R : sfield -> Prop).
  Hypothesis HN : forall a, P a -> P (STNonNull a).
  Hypothesis HL : forall a, P a -> P (STList a).
  Hypothesis HO : forall bs, Forall Q bs -> P (STObject bs).
  Hypothesis HB : forall tn un al, Forall R un -> Forall R al -> Q (mkBranch tn un al).
  Hypothesis HE : forall n, R (SFEmpty n).
  Hypothesis HLf : forall n t, R (SFLeaf n t).
  Hypothesis HOb : forall n t, P t -> R (SFObject n t).

  Fixpoint stree_ind' (t : stree) : P t :=
    match t with
    | STNonNull a => HN a (stree_ind' a)
    | STList a => HL a (stree_ind' a)
    | STObject bs =>
        HO bs ((fix go (l : list sbranch) : Forall Q l :=
                  match l with
                  | [] => Forall_nil Q
                  | b :: r => Forall_cons b (sbranch_ind' b) (go r)
                  end) bs)
    end
  with sbranch_ind' (b : sbranch) : Q b :=
    match b with
    | mkBranch tn un al =>
        HB tn un al
           ((fix go (l : list sfield) : Forall R l :=
               match l with
               | [] => Forall_nil R
               | f :: r => Forall_cons f (sfield_ind' f) (go r)
               end) un)
           ((fix go (l : list sfield) : Forall R l :=
               match l with
               | [] => Forall_nil R
               | f :: r => Forall_cons f (sfield_ind' f) (go r)
               end) al)
    end
  with sfield_ind' (f : sfield) : R f :=
    match f with
    | SFEmpty n => HE n
    | SFLeaf n t => HLf n t
    | SFObject n t => HOb n t (stree_ind' t)
    end.
End StreeInd.

(** * direct denotation of selection trees *)

Definition vis_null (v : val) : bool := match v with VNull => true | _ => false end.
Definition vis_undef (v : val) : bool := match v with VUndef => true | _ => false end.

Section GDen.
  Variable named : str -> val -> bool.

  (** mirrors map_to_tstype_impl: (denotation, nullable) *)
  Fixpoint gden_impl (t : gty) : (val -> bool) * bool :=
    match t with
    | GNamed n => (named n, true)
    | GList t' =>
        let '(d, nullable) := gden_impl t' in
        ((fun v => match v with
                   | VList l => forallb (fun x => (nullable && vis_null x) || d x) l
                   | _ => false
                   end), true)
    | GNonNull t' => (fst (gden_impl t'), false)
    end.
  Definition gden (t : gty) (v : val) : bool :=
    let '(d, nullable) := gden_impl t in (nullable && vis_null v) || d v.
End GDen.

Section TreeDen.
  Variable named : str -> val -> bool.          (* denotation of Schema.__OperationOutput.<leaf type> *)
  Variable obj_keys : str -> option (list str). (* keys of the declaration of an object type *)

  Definition key_in (ks : list str) (f : sfield) : bool := existsb (fun k => str_eqb k (sf_name f)) ks.

  Fixpoint tree_den (t : stree) (nn : bool) (v : val) {struct t} : bool :=
    match t with
    | STNonNull a => tree_den a true v
    | STList a =>
        (negb nn && vis_null v)
        || match v with VList l => forallb (tree_den a false) l | _ => false end
    | STObject bs =>
        (negb nn && vis_null v)
        || (fix go (l : list sbranch) : bool :=
              match l with [] => false | b :: r => branch_den b v || go r end) bs
    end
  with branch_den (b : sbranch) (v : val) {struct b} : bool :=
    match b with
    | mkBranch tn un al =>
        match obj_keys tn, v with
        | Some ks, VObj kvs =>
            nodup_keys (map fst kvs)
            && forallb (fun k => existsb (fun f => key_in ks f && str_eqb (sf_name f) k) un
                                 || existsb (fun f => str_eqb (sf_name f) k) al) (map fst kvs)
            && (fix go (l : list sfield) : bool :=
                  match l with [] => true | f :: r => (negb (key_in ks f) || field_den tn f kvs) && go r end) un
            && (fix go (l : list sfield) : bool :=
                  match l with [] => true | f :: r => field_den tn f kvs && go r end) al
        | _, _ => false
        end
    end
  with field_den (tn : str) (f : sfield) (kvs : list (str * val)) {struct f} : bool :=
    match f with
    | SFEmpty n => match assoc n kvs with None => true | Some x => vis_undef x end
    | SFLeaf n ty =>
        match assoc n kvs with
        | Some x => if str_eqb n TYPENAME then match x with VStr y => str_eqb tn y | _ => false end
                    else gden named ty x
        | None => false
        end
    | SFObject n sel =>
        match assoc n kvs with
        | Some x => tree_den sel false x
        | None => false
        end
    end.
End TreeDen.

Fixpoint gty_named (t : gty) : str :=
  match t with GNamed n => n | GList t' | GNonNull t' => gty_named t' end.

(** every leaf of the tree (other than a field keyed [__typename]) has a named type accepted by [leaf_ok] *)
Section LeavesOk.
  Variable leaf_ok : str -> bool.
  Variable obj_ok : str -> bool.       (* the branch's type name is a declared object type *)
  Fixpoint leaves_ok (t : stree) : bool :=
    match t with
    | STNonNull a | STList a => leaves_ok a
    | STObject bs =>
        (fix go (l : list sbranch) : bool :=
           match l with [] => true | b :: r => branch_leaves_ok b && go r end) bs
    end
  with branch_leaves_ok (b : sbranch) : bool :=
    match b with
    | mkBranch tn un al =>
        obj_ok tn
        && (fix go (l : list sfield) : bool :=
           match l with [] => true | f :: r => field_leaves_ok f && go r end) un
        && (fix go (l : list sfield) : bool :=
              match l with [] => true | f :: r => field_leaves_ok f && go r end) al
    end
  with field_leaves_ok (f : sfield) : bool :=
    match f with
    | SFEmpty _ => true
    | SFLeaf n ty => str_eqb n TYPENAME || leaf_ok (gty_named ty)
    | SFObject _ t => leaves_ok t
    end.
End LeavesOk.

(** * In_type over the constructors the generator emits *)
Section InType.
  Variable E : tsenv.

  Lemma in_type_le f t v : has_type_b E f t v = Some true -> forall f', f <= f' -> has_type_b E f' t v = Some true.
  Proof. intros H f' Hle. eapply has_type_b_le; eauto. Qed.

  Lemma in_type_null v : In_type E TNull v <-> v = VNull.
  Proof.
    split.
    - intros [[|f] H]; [discriminate|]. cbn in H. destruct v; try discriminate. reflexivity.
    - intros ->. exists 1. reflexivity.
  Qed.

  Lemma in_type_never v : ~ In_type E TNever v.
  Proof. intros [[|f] H]; discriminate. Qed.

  Lemma in_type_strlit x v : In_type E (TStrLit x) v <-> exists y, v = VStr y /\ str_eqb x y = true.
  Proof.
    split.
    - intros [[|f] H]; [discriminate|]. cbn in H. destruct v; try discriminate.
      exists v. split; [reflexivity|]. inversion H. reflexivity.
    - intros [y [-> Hy]]. exists 1. cbn. rewrite Hy. reflexivity.
  Qed.

  Lemma fold_or_true (r : tstype -> option bool) ts :
    fold_right (fun x acc => obool_or (r x) acc) (Some false) ts = Some true <->
    exists t, In t ts /\ r t = Some true.
  Proof.
    induction ts as [|t ts IH]; cbn [fold_right].
    - split; [discriminate | intros [t [[] _]]].
    - split.
      + intros H. destruct (r t) as [[]|] eqn:Hr.
        * exists t. split; [left; reflexivity | exact Hr].
        * destruct (fold_right (fun x acc => obool_or (r x) acc) (Some false) ts) as [[]|] eqn:Hf; try discriminate.
          destruct (proj1 IH eq_refl) as [t' [Hin Ht']]. exists t'. split; [right; exact Hin | exact Ht'].
        * destruct (fold_right (fun x acc => obool_or (r x) acc) (Some false) ts) as [[]|] eqn:Hf; try discriminate.
          destruct (proj1 IH eq_refl) as [t' [Hin Ht']]. exists t'. split; [right; exact Hin | exact Ht'].
      + intros [t' [[<-|Hin] Ht']].
        * rewrite Ht'. reflexivity.
        * assert (Hf : fold_right (fun x acc => obool_or (r x) acc) (Some false) ts = Some true).
          { apply IH. exists t'. split; assumption. }
          rewrite Hf. destruct (r t) as [[]|]; reflexivity.
  Qed.

  Lemma in_type_union ts v : In_type E (TUnion ts) v <-> exists t, In t ts /\ In_type E t v.
  Proof.
    split.
    - intros [[|f] H]; [discriminate|]. rewrite has_type_b_S in H. cbn [ht_step] in H.
      apply fold_or_true in H. destruct H as [t [Hin Ht]]. exists t. split; [exact Hin | exists f; exact Ht].
    - intros [t [Hin [f Ht]]]. exists (S f). rewrite has_type_b_S. cbn [ht_step].
      apply fold_or_true. exists t. split; assumption.
  Qed.

  Lemma in_type_ts_union ts v : In_type E (ts_union ts) v <-> exists t, In t ts /\ In_type E t v.
  Proof.
    destruct ts as [|t [|t' r]]; cbn [ts_union].
    - split; [intros H; destruct (in_type_never _ H) | intros [t [[] _]]].
    - split; [intros H; exists t; split; [left; reflexivity | exact H] | intros [t0 [[<-|[]] H]]; exact H].
    - apply in_type_union.
  Qed.

  Lemma in_type_or_null t v : In_type E (ts_union [t; TNull]) v <-> (In_type E t v \/ v = VNull).
  Proof.
    rewrite in_type_ts_union. split.
    - intros [t0 [[<-|[<-|[]]] H]]; [left; exact H | right; apply in_type_null; exact H].
    - intros [H | ->]; [exists t; split; [left; reflexivity | exact H]|].
      exists TNull. split; [right; left; reflexivity | apply in_type_null; reflexivity].
  Qed.

  Lemma fold_and_true {A} (r : A -> option bool) l :
    fold_right (fun x acc => obool_and (r x) acc) (Some true) l = Some true <-> forall x, In x l -> r x = Some true.
  Proof.
    induction l as [|x l IH]; cbn [fold_right].
    - split; [intros _ x [] | reflexivity].
    - split.
      + intros H. destruct (r x) as [[]|] eqn:Hr;
          destruct (fold_right (fun x acc => obool_and (r x) acc) (Some true) l) as [[]|] eqn:Hf; try discriminate.
        intros y [<-|Hy]; [exact Hr | apply IH; [reflexivity | exact Hy]].
      + intros H. rewrite (H x (or_introl eq_refl)).
        rewrite (proj2 IH (fun y Hy => H y (or_intror Hy))). reflexivity.
  Qed.

  (** finitely many memberships can be decided with one fuel *)
  Lemma uniform_fuel {A} (P : nat -> A -> Prop) (l : list A) :
    (forall f f' x, f <= f' -> P f x -> P f' x) ->
    (forall x, In x l -> exists f, P f x) -> exists f, forall x, In x l -> P f x.
  Proof.
    intros Hm. induction l as [|x l IH]; intros H.
    - exists 0. intros x [].
    - destruct (H x (or_introl eq_refl)) as [f1 H1].
      destruct (IH (fun y Hy => H y (or_intror Hy))) as [f2 H2].
      exists (Nat.max f1 f2). intros y [<-|Hy].
      + eapply Hm; [|exact H1]. apply Nat.le_max_l.
      + eapply Hm; [|apply H2; exact Hy]. apply Nat.le_max_r.
  Qed.

  Lemma in_type_array x v : In_type E (TArray x) v <-> exists l, v = VList l /\ forall e, In e l -> In_type E x e.
  Proof.
    split.
    - intros [[|f] H]; [discriminate|]. rewrite has_type_b_S in H. cbn [ht_step] in H.
      destruct v; try discriminate. exists l. split; [reflexivity|].
      intros e He. exists f. exact (proj1 (fold_and_true _ _) H e He).
    - intros [l [-> H]].
      destruct (uniform_fuel (fun f e => has_type_b E f x e = Some true) l) as [f Hf].
      { intros f f' e Hle He. eapply has_type_b_le; eauto. }
      { exact H. }
      exists (S f). rewrite has_type_b_S. cbn [ht_step]. apply fold_and_true. exact Hf.
  Qed.

  Lemma in_type_ns3 a b c t v : env_ns3 E a b c = Some t -> (In_type E (TNs3 a b c) v <-> In_type E t v).
  Proof.
    intros He. split.
    - intros [[|f] H]; [discriminate|]. rewrite has_type_b_S in H. cbn [ht_step] in H. rewrite He in H.
      exists f. exact H.
    - intros [f H]. exists (S f). rewrite has_type_b_S. cbn [ht_step]. rewrite He. exact H.
  Qed.

  (** one field of an exact record *)
  Definition field_ok (P : tstype -> val -> Prop) (fl : tsfield) (kvs : list (str * val)) : Prop :=
    match assoc (f_key fl) kvs with
    | Some x => if f_optional fl then P (f_ty fl) x \/ x = VUndef else P (f_ty fl) x
    | None => f_optional fl = true
    end.

  Lemma fields_ok_true (rec : tstype -> val -> option bool) fs kvs :
    (forall x, rec TNever x = Some false \/ rec TNever x = None \/ True) ->
    fields_ok_with rec fs kvs = Some true <->
    forall fl, In fl fs -> field_ok (fun t x => rec t x = Some true) fl kvs.
  Proof.
    intros _. unfold fields_ok_with. rewrite fold_and_true. split.
    - intros H fl Hfl. specialize (H fl Hfl). unfold field_ok.
      destruct (assoc (f_key fl) kvs) as [x|].
      + destruct (f_optional fl); [|exact H].
        destruct (rec (f_ty fl) x) as [[]|]; [left; reflexivity| |];
          destruct x; cbn in H; try discriminate; right; reflexivity.
      + inversion H. reflexivity.
    - intros H fl Hfl. specialize (H fl Hfl). unfold field_ok in H.
      destruct (assoc (f_key fl) kvs) as [x|].
      + destruct (f_optional fl); [|exact H].
        destruct H as [H| ->]; [rewrite H; reflexivity|].
        destruct (rec (f_ty fl) VUndef) as [[]|]; reflexivity.
      + rewrite H. reflexivity.
  Qed.

  Lemma as_object_le f f' t fs : f <= f' -> TsDen.as_object E f t = Some fs -> TsDen.as_object E f' t = Some fs.
  Proof.
    induction 1 as [|f' Hle IH]; intros H; [exact H|]. apply as_object_mono. apply IH. exact H.
  Qed.

  Lemma in_type_selset ns orig obj others v ofs f0 :
    TsDen.as_object E f0 orig = Some ofs ->
    (In_type E (TFunc (TNs ns SELSET) [orig; TObject obj; TObject others]) v <->
     exists kvs, v = VObj kvs /\
       let all := filter (fun f => existsb (fun g => str_eqb (f_key g) (f_key f)) ofs) obj ++ others in
       nodup_keys (map fst kvs) = true /\
       forallb (fun k => existsb (fun f => str_eqb (f_key f) k) all) (map fst kvs) = true /\
       forall fl, In fl all -> field_ok (In_type E) fl kvs).
  Proof.
    intros Ho. split.
    - intros [[|f] H]; [discriminate|]. rewrite has_type_b_S in H. cbn [ht_step] in H.
      rewrite str_eqb_refl in H.
      destruct (TsDen.as_object E f orig) as [ofs'|] eqn:Ho'; [|destruct v; discriminate].
      assert (ofs' = ofs).
      { pose proof (as_object_le _ (Nat.max f f0) _ _ (Nat.le_max_l f f0) Ho') as H1.
        pose proof (as_object_le _ (Nat.max f f0) _ _ (Nat.le_max_r f f0) Ho) as H2. congruence. }
      subst ofs'. destruct v as [| | | | | | |kvs]; try discriminate.
      exists kvs. split; [reflexivity|]. cbv zeta in *.
      set (all := filter (fun f1 => existsb (fun g => str_eqb (f_key g) (f_key f1)) ofs) obj ++ others) in *.
      destruct (nodup_keys (map fst kvs)) eqn:Hnd; [|discriminate].
      destruct (forallb (fun k => existsb (fun f1 => str_eqb (f_key f1) k) all) (map fst kvs)) eqn:Hk; [|discriminate].
      cbn [andb] in H. split; [reflexivity|]. split; [reflexivity|].
      intros fl Hfl. pose proof (proj1 (fields_ok_true _ _ _ (fun _ => or_intror (or_intror I))) H fl Hfl) as Hf.
      unfold field_ok in *. destruct (assoc (f_key fl) kvs) as [x|]; [|exact Hf].
      destruct (f_optional fl); [destruct Hf as [Hf|Hf]; [left; exists f; exact Hf | right; exact Hf] | exists f; exact Hf].
    - intros [kvs [-> H]]. cbv zeta in H.
      set (all := filter (fun f1 => existsb (fun g => str_eqb (f_key g) (f_key f1)) ofs) obj ++ others) in *.
      destruct H as [Hnd [Hk Hf]].
      destruct (uniform_fuel (fun f fl => field_ok (fun t x => has_type_b E f t x = Some true) fl kvs) all) as [f1 Hf1].
      { intros f f' fl Hle. unfold field_ok. destruct (assoc (f_key fl) kvs) as [x|]; [|auto].
        destruct (f_optional fl); [intros [Hx|Hx]; [left; eapply has_type_b_le; eauto | right; exact Hx]
                                  | intros Hx; eapply has_type_b_le; eauto]. }
      { intros fl Hfl. specialize (Hf fl Hfl). unfold field_ok in *.
        destruct (assoc (f_key fl) kvs) as [x|]; [|exists 0; exact Hf].
        destruct (f_optional fl).
        - destruct Hf as [[f Hx]|Hx]; [exists f; left; exact Hx | exists 0; right; exact Hx].
        - destruct Hf as [f Hx]. exists f. exact Hx. }
      exists (S (Nat.max f0 f1)). rewrite has_type_b_S. cbn [ht_step]. rewrite str_eqb_refl.
      rewrite (as_object_le _ _ _ _ (Nat.le_max_l f0 f1) Ho). cbv zeta. fold all. rewrite Hnd, Hk. cbn [andb].
      apply fields_ok_true; [intros; right; right; exact I|].
      intros fl Hfl. specialize (Hf1 fl Hfl). unfold field_ok in *.
      destruct (assoc (f_key fl) kvs) as [x|]; [|exact Hf1].
      destruct (f_optional fl).
      + destruct Hf1 as [Hx|Hx]; [left; eapply has_type_b_le; [apply Nat.le_max_r | exact Hx] | right; exact Hx].
      + eapply has_type_b_le; [apply Nat.le_max_r | exact Hf1].
  Qed.

  Lemma in_type_selset_none ns orig obj others v :
    (forall f, TsDen.as_object E f orig = None) ->
    ~ In_type E (TFunc (TNs ns SELSET) [orig; TObject obj; TObject others]) v.
  Proof.
    intros Ho [[|f] H]; [discriminate|]. rewrite has_type_b_S in H. cbn [ht_step] in H.
    rewrite str_eqb_refl, Ho in H. destruct v; discriminate.
  Qed.
End InType.

(** * to_ts.rs is denotation-preserving *)
Section ToTsDen.
  Variable ns : str.
  Variable E : tsenv.
  Variable named : str -> val -> bool.
  Variable obj_keys : str -> option (list str).
  Variable leaf_ok : str -> bool.
  Hypothesis Hnamed : forall n v, leaf_ok n = true ->
    (In_type E (TNs3 ns OPERATION_OUTPUT n) v <-> named n v = true).
  Variable obj_ok : str -> bool.
  Hypothesis Hobj : forall tn, obj_ok tn = true ->
    exists ks f fs, obj_keys tn = Some ks /\
                    TsDen.as_object E f (TNs3 ns OPERATION_OUTPUT tn) = Some fs /\ map f_key fs = ks.

  Lemma gden_impl_type : forall t, leaf_ok (gty_named t) = true ->
    snd (map_to_tstype_impl ns t) = snd (gden_impl named t) /\
    forall v, In_type E (fst (map_to_tstype_impl ns t)) v <-> fst (gden_impl named t) v = true.
  Proof.
    induction t as [n | t' IHt | t' IHt]; intros Hok; cbn [gty_named] in Hok;
      [| destruct (IHt Hok) as [IHn IH] | destruct (IHt Hok) as [IHn IH]]; cbn [map_to_tstype_impl gden_impl].
    - split; [reflexivity | intros v; apply Hnamed; exact Hok].
    - destruct (map_to_tstype_impl ns t') as [x nl] eqn:Hx. destruct (gden_impl named t') as [d nl'] eqn:Hd.
      cbn [fst snd] in *. subst nl'. split; [reflexivity|].
      intros v. rewrite in_type_array. split.
      + intros [l [-> Hl]]. apply forallb_forall. intros e He. specialize (Hl e He).
        destruct nl; cbn [andb orb].
        * apply in_type_or_null in Hl. destruct Hl as [Hl | ->]; [|reflexivity].
          apply orb_true_iff. right. apply IH. exact Hl.
        * apply IH. exact Hl.
      + intros H. destruct v as [| | | | | |l|]; try discriminate. exists l. split; [reflexivity|].
        intros e He. rewrite forallb_forall in H. specialize (H e He).
        destruct nl; cbn [andb orb] in H.
        * apply in_type_or_null. apply orb_true_iff in H. destruct H as [H|H].
          -- right. destruct e; try discriminate. reflexivity.
          -- left. apply IH. exact H.
        * apply IH. exact H.
    - split; [reflexivity | exact IH].
  Qed.

  Lemma gden_type t v : leaf_ok (gty_named t) = true ->
    (In_type E (map_to_tstype ns t) v <-> gden named t v = true).
  Proof.
    intros Hok. unfold map_to_tstype, gden. destruct (gden_impl_type t Hok) as [Hn H].
    destruct (map_to_tstype_impl ns t) as [x nl]. destruct (gden_impl named t) as [d nl'].
    cbn [fst snd] in *. subst nl'. destruct nl; cbn [andb orb].
    - rewrite in_type_or_null, orb_true_iff, H. split.
      + intros [Hd | ->]; [right; exact Hd | left; reflexivity].
      + intros [Hd | Hd]; [right; destruct v; try discriminate; reflexivity | left; exact Hd].
    - apply H.
  Qed.

  Definition field_ts (tn : str) (f : sfield) : tsfield :=
    match f with
    | SFEmpty n => mkField n pos0 TNever false true None
    | SFLeaf n ty =>
        mkField n pos0 (if str_eqb n TYPENAME then TStrLit tn else map_to_tstype ns ty) false false None
    | SFObject n sel => mkField n pos0 (tree_type ns sel false) false false None
    end.
  Definition branch_ts (b : sbranch) : tstype :=
    match b with
    | mkBranch tn un al =>
        TFunc (TNs ns (s "__SelectionSet"))
              [TNs3 ns OPERATION_OUTPUT tn; TObject (map (field_ts tn) un); TObject (map (field_ts tn) al)]
    end.

  Lemma tree_type_object bs nn :
    tree_type ns (STObject bs) nn =
    let bt := ts_union (map branch_ts bs) in if nn then bt else ts_union [bt; TNull].
  Proof.
    cbn [tree_type]. cbv zeta.
    match goal with |- context [map ?F bs] =>
      match F with branch_ts => fail 1 | _ =>
        assert (Hm : map F bs = map branch_ts bs) by (apply map_ext; intros [tn un al]; reflexivity);
        rewrite Hm
      end
    end.
    reflexivity.
  Qed.

  Lemma field_ts_key tn f : f_key (field_ts tn f) = sf_name f.
  Proof. destruct f; reflexivity. Qed.

  Lemma forallb_ext' {A} (f g : A -> bool) l : (forall x, f x = g x) -> forallb f l = forallb g l.
  Proof. intros H. induction l as [|x l IH]; cbn [forallb]; [reflexivity | rewrite H, IH; reflexivity]. Qed.

  Lemma existsb_map_key (fs : list tsfield) n :
    existsb (fun g => str_eqb (f_key g) n) fs = existsb (fun k => str_eqb k n) (map f_key fs).
  Proof. induction fs as [|g fs IH]; cbn [existsb map]; [reflexivity | rewrite IH; reflexivity]. Qed.

  Lemma tree_type_den : forall t, leaves_ok leaf_ok obj_ok t = true -> forall nn v,
    In_type E (tree_type ns t nn) v <-> tree_den named obj_keys t nn v = true.
  Proof.
    intros t.
    apply (stree_ind'
      (fun t => leaves_ok leaf_ok obj_ok t = true -> forall nn v,
                In_type E (tree_type ns t nn) v <-> tree_den named obj_keys t nn v = true)
      (fun b => branch_leaves_ok leaf_ok obj_ok b = true -> forall v,
                In_type E (branch_ts b) v <-> branch_den named obj_keys b v = true)
      (fun f => field_leaves_ok leaf_ok obj_ok f = true -> forall tn kvs,
                field_ok (In_type E) (field_ts tn f) kvs <-> field_den named obj_keys tn f kvs = true)).
    - (* NonNull *) intros a IH Hok nn v. cbn [tree_type tree_den]. apply IH. exact Hok.
    - (* List *)
      intros a IH0 Hok nn v. cbn [leaves_ok] in Hok. pose proof (IH0 Hok) as IH. cbn [tree_type tree_den].
      assert (Hl : In_type E (TArray (tree_type ns a false)) v <->
                   match v with VList l => forallb (tree_den named obj_keys a false) l | _ => false end = true).
      { rewrite in_type_array. split.
        - intros [l [-> Hl]]. apply forallb_forall. intros e He. apply IH. apply Hl. exact He.
        - intros H. destruct v as [| | | | | |l|]; try discriminate. exists l. split; [reflexivity|].
          intros e He. apply IH. rewrite forallb_forall in H. apply H. exact He. }
      destruct nn; cbn [negb andb orb]; [exact Hl|].
      rewrite in_type_or_null, orb_true_iff, Hl. split.
      + intros [H | ->]; [right; exact H | left; reflexivity].
      + intros [H | H]; [right; destruct v; try discriminate; reflexivity | left; exact H].
    - (* Object *)
      intros bs IH0 Hok nn v. rewrite tree_type_object. cbv zeta. cbn [tree_den].
      assert (IH : Forall (fun b => forall v, In_type E (branch_ts b) v <-> branch_den named obj_keys b v = true) bs).
      { cbn [leaves_ok] in Hok. induction IH0 as [|b r Hb _ IHr]; [constructor|].
        apply andb_true_iff in Hok. destruct Hok as [H1 H2]. constructor; [apply Hb; exact H1 | apply IHr; exact H2]. }
      clear IH0 Hok.
      assert (Hb : In_type E (ts_union (map branch_ts bs)) v <->
                   (fix go (l : list sbranch) : bool :=
                      match l with [] => false | b :: r => branch_den named obj_keys b v || go r end) bs = true).
      { rewrite in_type_ts_union. induction IH as [|b r Hb _ IHr].
        - split; [intros [t0 [[] _]] | discriminate].
        - cbn [map]. rewrite orb_true_iff, <- IHr, <- Hb. split.
          + intros [t0 [[<-|Hin] Ht]]; [left; exact Ht | right; exists t0; split; assumption].
          + intros [H | [t0 [Hin Ht]]]; [exists (branch_ts b); split; [left; reflexivity | exact H]
                                        | exists t0; split; [right; exact Hin | exact Ht]]. }
      destruct nn; cbn [negb andb orb]; [exact Hb|].
      rewrite in_type_or_null, orb_true_iff, Hb. split.
      + intros [H | ->]; [right; exact H | left; reflexivity].
      + intros [H | H]; [right; destruct v; try discriminate; reflexivity | left; exact H].
    - (* Branch *)
      intros tn un al Hun0 Hal0 Hok v. cbn [branch_ts branch_den].
      cbn [branch_leaves_ok] in Hok. apply andb_true_iff in Hok. destruct Hok as [Hok1 Hok2].
      apply andb_true_iff in Hok1. destruct Hok1 as [Hobjok Hok1].
      assert (Hun : Forall (fun f => forall tn kvs, field_ok (In_type E) (field_ts tn f) kvs <-> field_den named obj_keys tn f kvs = true) un).
      { clear Hok2 Hal0. induction Hun0 as [|f r Hf _ IHr]; [constructor|].
        apply andb_true_iff in Hok1. destruct Hok1 as [H1 H2]. constructor; [apply Hf; exact H1 | apply IHr; exact H2]. }
      assert (Hal : Forall (fun f => forall tn kvs, field_ok (In_type E) (field_ts tn f) kvs <-> field_den named obj_keys tn f kvs = true) al).
      { clear Hok1 Hun0 Hun. induction Hal0 as [|f r Hf _ IHr]; [constructor|].
        apply andb_true_iff in Hok2. destruct Hok2 as [H1 H2]. constructor; [apply Hf; exact H1 | apply IHr; exact H2]. }
      clear Hun0 Hal0 Hok1 Hok2.
      destruct (Hobj tn Hobjok) as [ks [f0 [fs [Hk [Ho Hks]]]]]. rewrite Hk.
      change (s "__SelectionSet") with SELSET.
      rewrite (in_type_selset E ns _ _ _ v fs f0 Ho). cbv zeta.
      assert (Hpick : forall f, existsb (fun g => str_eqb (f_key g) (f_key (field_ts tn f))) fs = key_in ks f).
      { intros f. rewrite field_ts_key, existsb_map_key, Hks. reflexivity. }
      assert (Hfilter : forall l, filter (fun f => existsb (fun g => str_eqb (f_key g) (f_key f)) fs) (map (field_ts tn) l)
                                  = map (field_ts tn) (filter (key_in ks) l)).
      { induction l as [|f l IHl]; cbn [map filter]; [reflexivity|].
        rewrite Hpick. destruct (key_in ks f); cbn [map]; rewrite IHl; reflexivity. }
      rewrite Hfilter.
      assert (Hex : forall k l, existsb (fun f => str_eqb (f_key f) k) (map (field_ts tn) l)
                               = existsb (fun f => str_eqb (sf_name f) k) l).
      { intros k l. induction l as [|f l IHl]; cbn [map existsb]; [reflexivity|].
        rewrite field_ts_key, IHl. reflexivity. }
      assert (Hexf : forall k l, existsb (fun f => str_eqb (sf_name f) k) (filter (key_in ks) l)
                                = existsb (fun f => key_in ks f && str_eqb (sf_name f) k) l).
      { intros k l. induction l as [|f l IHl]; cbn [filter existsb]; [reflexivity|].
        destruct (key_in ks f); cbn [existsb andb]; rewrite IHl; reflexivity. }
      assert (Hkeys : forall kvs : list (str * val),
        forallb (fun k => existsb (fun f => str_eqb (f_key f) k)
                            (map (field_ts tn) (filter (key_in ks) un) ++ map (field_ts tn) al)) (map fst kvs)
        = forallb (fun k => existsb (fun f => key_in ks f && str_eqb (sf_name f) k) un
                            || existsb (fun f => str_eqb (sf_name f) k) al) (map fst kvs)).
      { intros kvs. apply forallb_ext'. intros k. rewrite existsb_app, !Hex, Hexf. reflexivity. }
      assert (Hgo_un : forall kvs,
        (forall fl, In fl (map (field_ts tn) (filter (key_in ks) un)) -> field_ok (In_type E) fl kvs) <->
        (fix go (l : list sfield) : bool :=
           match l with [] => true | f :: r => (negb (key_in ks f) || field_den named obj_keys tn f kvs) && go r end) un = true).
      { clear Hkeys. intros kvs. induction Hun as [|f r Hf _ IHr].
        - split; [reflexivity | intros _ fl []].
        - cbn [filter]. rewrite andb_true_iff, <- IHr. destruct (key_in ks f); cbn [negb orb map].
          + rewrite <- (Hf tn kvs). split.
            * intros H. split; [apply H; left; reflexivity | intros fl Hfl; apply H; right; exact Hfl].
            * intros [H1 H2] fl [<-|Hfl]; [exact H1 | apply H2; exact Hfl].
          + split; [intros H; split; [reflexivity | exact H] | intros [_ H]; exact H]. }
      assert (Hgo_al : forall kvs,
        (forall fl, In fl (map (field_ts tn) al) -> field_ok (In_type E) fl kvs) <->
        (fix go (l : list sfield) : bool :=
           match l with [] => true | f :: r => field_den named obj_keys tn f kvs && go r end) al = true).
      { clear Hkeys. intros kvs. induction Hal as [|f r Hf _ IHr].
        - split; [reflexivity | intros _ fl []].
        - cbn [map]. rewrite andb_true_iff, <- IHr, <- (Hf tn kvs). split.
          + intros H. split; [apply H; left; reflexivity | intros fl Hfl; apply H; right; exact Hfl].
          + intros [H1 H2] fl [<-|Hfl]; [exact H1 | apply H2; exact Hfl]. }
      split.
      + intros [kvs [-> [Hnd [Hkk Hf]]]]. rewrite Hnd. rewrite Hkeys in Hkk. rewrite Hkk. cbn [andb].
        apply andb_true_iff. split.
        * apply Hgo_un. intros fl Hfl. apply Hf. apply in_or_app. left. exact Hfl.
        * apply Hgo_al. intros fl Hfl. apply Hf. apply in_or_app. right. exact Hfl.
      + intros H. destruct v as [| | | | | | |kvs]; try discriminate.
        apply andb_true_iff in H. destruct H as [H Hal']. apply andb_true_iff in H. destruct H as [H Hun'].
        apply andb_true_iff in H. destruct H as [Hnd Hkk].
        exists kvs. split; [reflexivity|]. split; [exact Hnd|]. split; [rewrite Hkeys; exact Hkk|].
        intros fl Hfl. apply in_app_or in Hfl. destruct Hfl as [Hfl|Hfl].
        * apply (proj2 (Hgo_un kvs) Hun'). exact Hfl.
        * apply (proj2 (Hgo_al kvs) Hal'). exact Hfl.
    - (* Empty *)
      intros n _ tn kvs. unfold field_ok. cbn [field_ts f_key f_optional f_ty field_den].
      destruct (assoc n kvs) as [x|]; [|split; reflexivity].
      split.
      + intros [H | ->]; [destruct (in_type_never E x H) | reflexivity].
      + intros H. right. destruct x; try discriminate. reflexivity.
    - (* Leaf *)
      intros n ty Hok tn kvs. unfold field_ok. cbn [field_ts f_key f_optional f_ty field_den].
      cbn [field_leaves_ok] in Hok.
      destruct (assoc n kvs) as [x|]; [|split; discriminate].
      destruct (str_eqb n TYPENAME); cbn [orb] in Hok.
      + rewrite in_type_strlit. split.
        * intros [y [-> Hy]]. exact Hy.
        * intros H. destruct x; try discriminate. eexists. split; [reflexivity | exact H].
      + apply gden_type. exact Hok.
    - (* Object *)
      intros n sel IH0 Hok tn kvs. pose proof (IH0 Hok) as IH. unfold field_ok. cbn [field_ts f_key f_optional f_ty field_den].
      destruct (assoc n kvs) as [x|]; [apply IH | split; discriminate].
  Qed.

  (** generate_selection_tree_type *)
  Theorem generate_selection_tree_type_den t v : leaves_ok leaf_ok obj_ok t = true ->
    (In_type E (generate_selection_tree_type ns t) v <-> tree_den named obj_keys t false v = true).
  Proof. intros H. apply tree_type_den. exact H. Qed.
End ToTsDen.
