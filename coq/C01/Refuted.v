(** C01/C02 — the behaviour of the current code that violates the properties, shown on the model by
    computation on explicit witnesses (the same documents are in the harness corpus, where the real
    code produces exactly the model's output: correspondence cases 0-15), and non-vacuity examples. *)
From V Require Import Base.Util Gql.Ast Writer.Wop Ts.TsType Ts.TsDen C01.Model C01.Spec C01.Corr C01.Witness.

Definition first_def (D : opdoc) : execdef :=
  match od_defs D with d :: _ => d | [] => DImport (mkImport pos0 [] [] pos0) end.
Definition sels_of (D : opdoc) : list selection :=
  match def_target [] (first_def D) with Some (_, l) => l | None => [] end.
Definition type_of (D : opdoc) : tstype :=
  match emit_type default_options w_schema D (first_def D) with Ok t => t | Err _ => TNever end.

(** ** the merge defect: `a { x @skip(if:$v) } a { y @skip(if:$v) }` *)

(** the response for v = true, in which [a] has no field left *)
Definition v_a_empty : val := VObj [(s "a", VObj [])].
(** a value no execution produces ([x] and [y] are skipped together) *)
Definition v_a_only_y : val := VObj [(s "a", VObj [(s "y", VStr (s "str"))])].

Lemma merge_witness_emits :
  exists t, emit_type default_options w_schema w_merge (first_def w_merge) = Ok t /\ t = type_of w_merge.
Proof. eexists. split; vm_compute; reflexivity. Qed.

(** C01 fails: a spec response is not admitted by the emitted type *)
Lemma merge_unsafe_refuted_C01 :
  guard_safe w_schema w_merge (first_def w_merge) = false /\
  exec_b w_schema [] 8 [(s "v", true)] 8 (s "Query") (sels_of w_merge) v_a_empty = true /\
  has_type_b (schema_env w_schema) 40 (type_of w_merge) v_a_empty = Some false.
Proof. repeat split; vm_compute; reflexivity. Qed.

(** C02 fails: the emitted type admits a value outside Ref_local *)
Lemma merge_unsafe_refuted_C02 :
  guard_safe w_schema w_merge (first_def w_merge) = false /\
  has_type_b (schema_env w_schema) 40 (type_of w_merge) v_a_only_y = Some true /\
  ref_local_b w_schema [] 8 8 (s "Query") (sels_of w_merge) v_a_only_y = false.
Proof. repeat split; vm_compute; reflexivity. Qed.


(** ** aliased __typename is typed [String | null] (C02 only) *)
Definition v_alias_null : val := VObj [(s "a", VObj [(s "__typename", VStr (s "A")); (s "t", VNull)])].
Definition v_alias_good : val := VObj [(s "a", VObj [(s "__typename", VStr (s "A")); (s "t", VStr (s "A"))])].

Lemma aliased_typename_refuted_C02 :
  guard_alias_free w_schema w_alias (first_def w_alias) = false /\
  has_type_b (schema_env w_schema) 40 (type_of w_alias) v_alias_null = Some true /\
  ref_local_b w_schema [] 8 8 (s "Query") (sels_of w_alias) v_alias_null = false /\
  ref_local_b w_schema [] 8 8 (s "Query") (sels_of w_alias) v_alias_good = true /\
  has_type_b (schema_env w_schema) 40 (type_of w_alias) v_alias_good = Some true.
Proof. repeat split; vm_compute; reflexivity. Qed.

(** ** non-vacuity: documents that satisfy the guards and on which both properties hold for the
       model's output (all enumerated responses / inhabitants) *)
Example safe_merge_example :
  guard_safe w_schema w_safe (first_def w_safe) = true /\
  guard_alias_free w_schema w_safe (first_def w_safe) = true /\
  c01_on (schema_env w_schema) w_schema w_safe (first_def w_safe) (type_of w_safe) = true /\
  c02_on (schema_env w_schema) w_schema w_safe (first_def w_safe) (type_of w_safe) = true.
Proof. repeat split; vm_compute; reflexivity. Qed.

Example fragments_example :
  guard_safe w_schema w_frag (first_def w_frag) = true /\
  c01_on (schema_env w_schema) w_schema w_frag (first_def w_frag) (type_of w_frag) = true /\
  c02_on (schema_env w_schema) w_schema w_frag (first_def w_frag) (type_of w_frag) = true.
Proof. repeat split; vm_compute; reflexivity. Qed.

Example literal_conditions_example :
  c01_on (schema_env w_schema) w_schema w_lit (first_def w_lit) (type_of w_lit) = true /\
  c02_on (schema_env w_schema) w_schema w_lit (first_def w_lit) (type_of w_lit) = true.
Proof. repeat split; vm_compute; reflexivity. Qed.

(** Execute_spec is inhabited on the witness documents (so [exec_in_ref_local] is not vacuous) *)
Example exec_inhabited :
  exec_b w_schema (sp_frags w_frag) 8 [(s "v", true); (s "w", false)] 8 (s "Query") (sels_of w_frag)
         (VObj [(s "u", VObj [(s "__typename", VStr (s "A")); (s "x", VNull); (s "a", VNull); (s "id", VStr (s "i"))])]) = true.
Proof. vm_compute. reflexivity. Qed.

(** ** the unguarded statement C01_response_admitted (Spec.v) is false for the current code *)
From V Require Import C01.TsLemmas.
Lemma C01_full_statement_refuted :
  ~ C01_response_admitted w_schema w_merge (first_def w_merge) (type_of w_merge).
Proof.
  intros H.
  specialize (H (s "Query") (sels_of w_merge) eq_refl 8 [(s "v", true)] 8 v_a_empty).
  assert (He : exec_b w_schema (sp_frags w_merge) 8 [(s "v", true)] 8 (s "Query") (sels_of w_merge) v_a_empty = true)
    by (vm_compute; reflexivity).
  specialize (H He).
  assert (Hn : has_type_b (schema_env w_schema) 40 (type_of w_merge) v_a_empty = Some false) by (vm_compute; reflexivity).
  exact (not_in_type _ _ _ _ Hn H).
Qed.
