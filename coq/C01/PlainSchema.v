(** C01/C02 — the model's view of the schema (parent_objects, interface_implementers, iter_types)
    agrees with the specification's ([sp_possible]) when type names are unique; boolean variables of a
    plain selection set. *)
From V Require Import Base.Util Gql.Ast Writer.Wop Ts.TsType Ts.TsDen
     C01.Model C01.Spec C01.Guards C01.TsLemmas C01.TreeDen C01.Proofs C01.EnvDen C01.PlainBase C01.PlainCore.

Definition typedefs (S : tsdoc) : list typedef :=
  flat_map (fun d => match d with TSType t => [t] | _ => [] end) S.
Definition nodup_types (S : tsdoc) : bool := nodup_keys (map tname (typedefs S)).

Lemma iter_types_from_nodup : forall S seen,
  NoDup (map tname (typedefs S)) -> (forall k, In k seen -> ~ In k (map tname (typedefs S))) ->
  iter_types_from seen S = typedefs S.
Proof.
  induction S as [|d r IH]; intros seen Hnd Hs; [reflexivity|].
  destruct d; cbn [iter_types_from typedefs flat_map app] in *; try (apply IH; assumption).
  cbn [map] in Hnd. inversion Hnd as [|? ? Hn Hr]; subst.
  destruct (mem (tname t) seen) eqn:Hm.
  - exfalso. apply mem_In in Hm. apply (Hs _ Hm). left. reflexivity.
  - f_equal. apply IH; [exact Hr|]. intros k [<-|Hk]; [exact Hn|]. intros Hin. apply (Hs k Hk). right. exact Hin.
Qed.

Lemma iter_types_nodup S : nodup_types S = true -> iter_types S = typedefs S.
Proof.
  intros H. apply nodup_keys_NoDup in H. apply iter_types_from_nodup; [exact H | intros k []].
Qed.

Lemma get_type_in S d : NoDup (map tname (typedefs S)) -> In d (typedefs S) -> get_type S (tname d) = Some d.
Proof.
  induction S as [|x r IH]; intros Hnd Hin; [destruct Hin|].
  destruct x; cbn [get_type typedefs flat_map app] in *; try (apply IH; assumption).
  cbn [map] in Hnd. inversion Hnd as [|? ? Hn Hr]; subst.
  destruct Hin as [->|Hin]; [rewrite str_eqb_refl; reflexivity|].
  destruct (str_eqb_spec (tname t) (tname d)) as [He|_]; [|apply IH; assumption].
  exfalso. apply Hn. rewrite He. apply in_map. exact Hin.
Qed.

Definition is_object_named (S : tsdoc) (n : str) : Prop :=
  exists dd dp dn di ddirs dfs dkw, sp_lookup S n = Some (TDObject dd dp dn di ddirs dfs dkw).

Lemma implementers_spec S i : nodup_types S = true ->
  map o_name (interface_implementers S i) = sp_objects_implementing S i /\
  forall ob, In ob (interface_implementers S i) -> is_object_named S (o_name ob).
Proof.
  intros Hnd. unfold interface_implementers. rewrite (iter_types_nodup S Hnd).
  apply nodup_keys_NoDup in Hnd. split.
  - unfold sp_objects_implementing, typedefs. clear Hnd. induction S as [|d r IH]; [reflexivity|].
    cbn [flat_map]. destruct d; cbn [app flat_map]; try exact IH.
    rewrite map_app, IH. f_equal.
    destruct t; cbn [as_object]; try reflexivity.
    cbn [o_impls o_name]. change (mem i (map iname impls)) with (smem i (map iname impls)).
    destruct (smem i (map iname impls)); reflexivity.
  - intros ob Hin. apply in_flat_map in Hin. destruct Hin as [d [Hd Hob]].
    destruct d; cbn [as_object] in Hob; try destruct Hob.
    cbn [o_impls] in Hob. destruct (mem i (map iname impls)); [|destruct Hob].
    destruct Hob as [<-|[]]. cbn [o_name].
    pose proof (get_type_in S _ Hnd Hd) as Hg. unfold tname in Hg. cbn [typedef_name] in Hg.
    rewrite get_type_sp_lookup in Hg. repeat eexists. exact Hg.
Qed.

Lemma parent_objects_spec S T objs : nodup_types S = true ->
  parent_objects S T = Ok objs ->
  map o_name objs = sp_possible S T /\ (forall ob, In ob objs -> is_object_named S (o_name ob)) /\
  sp_kind S T = LComposite.
Proof.
  intros Hnd H. unfold parent_objects in H. rewrite get_type_sp_lookup in H. unfold sp_possible, sp_kind.
  destruct (sp_lookup S T) as [d|] eqn:Hl; [|discriminate].
  pose proof (sp_lookup_name S T d Hl) as Hn. unfold sp_name in Hn.
  destruct d; try discriminate; cbn [typedef_name] in Hn.
  - (* object *)
    cbn [as_object] in H. inversion H. cbn [map o_name]. rewrite Hn. split; [reflexivity|]. split; [|reflexivity].
    intros ob [<-|[]]. cbn [o_name]. repeat eexists. exact Hl.
  - (* interface *)
    inversion H. rewrite Hn. destruct (implementers_spec S T Hnd) as [Hi1 Hi2]. split; [exact Hi1|]. split; [exact Hi2 | reflexivity].
  - (* union *)
    split; [|split; [|reflexivity]].
    + clear Hl. revert objs H. induction members as [|m r IH]; intros objs H; cbn [mapM] in H.
      * inversion H. reflexivity.
      * destruct (get_type S (iname m)) as [d'|] eqn:Hg; cbn [bind] in H; [|discriminate].
        destruct (as_object d') as [ob|] eqn:Ha; cbn [bind] in H; [|discriminate].
        destruct (mapM _ r) as [objs'|e] eqn:Hm; cbn [bind] in H; [|discriminate].
        inversion H. cbn [map]. rewrite (IH objs' eq_refl). f_equal.
        rewrite get_type_sp_lookup in Hg. pose proof (sp_lookup_name S _ d' Hg) as Hn'.
        destruct d'; try discriminate. inversion Ha. cbn [o_name]. exact Hn'.
    + clear Hl. revert objs H. induction members as [|m r IH]; intros objs H; cbn [mapM] in H.
      * inversion H. intros ob [].
      * destruct (get_type S (iname m)) as [d'|] eqn:Hg; cbn [bind] in H; [|discriminate].
        destruct (as_object d') as [ob|] eqn:Ha; cbn [bind] in H; [|discriminate].
        destruct (mapM _ r) as [objs'|e] eqn:Hm; cbn [bind] in H; [|discriminate].
        inversion H. intros ob' [<-|Hin]; [|apply (IH objs' eq_refl); exact Hin].
        rewrite get_type_sp_lookup in Hg. pose proof (sp_lookup_name S _ d' Hg) as Hn'.
        destruct d'; try discriminate. inversion Ha. cbn [o_name]. unfold sp_name in Hn'. cbn [typedef_name] in Hn'.
        rewrite Hn'. repeat eexists. exact Hg.
Qed.

(** * boolean variables of a plain selection set *)
Lemma visit_vars_plain F f : forall sels st,
  forallb plain_sel sels = true ->
  visit_vars (Datatypes.S f) F sels st = Ok (fst st ++ flat_map (fun x => dirs_variables (sel_ds x)) sels, snd st).
Proof.
  cbn [visit_vars]. induction sels as [|x r IH]; intros st Hp; cbn [fold_left flat_map].
  - rewrite app_nil_r. destruct st; reflexivity.
  - cbn [forallb] in Hp. apply andb_true_iff in Hp. destruct Hp as [Hx Hr].
    destruct x as [alias name args ds sub | |]; try discriminate.
    cbn [bind sel_dirs sel_ds fst snd]. rewrite (IH _ Hr). cbn [fst snd]. rewrite <- app_assoc. reflexivity.
Qed.

Lemma local_vars_plain F cf : forall sels, forallb plain_sel sels = true ->
  local_vars (Datatypes.S cf) F sels = flat_map (fun x => dir_vars (sel_ds x)) sels.
Proof.
  cbn [local_vars]. induction sels as [|x r IH]; intros Hp; [reflexivity|].
  cbn [forallb] in Hp. apply andb_true_iff in Hp. destruct Hp as [Hx Hr].
  destruct x as [alias name args ds sub | |]; try discriminate.
  cbn [flat_map sel_ds]. rewrite (IH Hr). reflexivity.
Qed.
