(** C01/C02 — repeated LEAF response keys, part 2: one branch of the model's tree (after deep_merge)
    denotes exactly the body of the specification's denotation, for a flattened scope in which a
    repeated response key only belongs to leaf selections of one field (generalises
    FlatMain.flat_branch_eq: the item list may repeat keys, the field list is the MERGED one). *)
From V Require Import Base.Util Gql.Ast Writer.Wop Ts.TsType Ts.TsDen
     C01.Model C01.Spec C01.Guards C01.TsLemmas C01.TreeDen C01.Proofs C01.EnvDen C01.PlainBase C01.PlainCore
     C01.PlainMain C01.FlatCore C01.FlatSpec C01.FlatMain.

Lemma keys_of_In es k : In k (keys_of es) <-> In k (map ce_key es).
Proof.
  unfold keys_of.
  assert (H : forall seen,
    In k ((fix go (seen : list str) (l : list centry) : list str :=
            match l with
            | [] => []
            | e :: r => if smem (ce_key e) seen then go seen r else ce_key e :: go (ce_key e :: seen) r
            end) seen es) <-> In k (map ce_key es) /\ ~ In k seen).
  { induction es as [|e r IH]; intros seen; cbn [map In]; [tauto|].
    destruct (smem (ce_key e) seen) eqn:Hm.
    - rewrite IH. apply smem_In in Hm. split; [tauto|]. intros [[<-|H] Hn]; tauto.
    - assert (Hn : ~ In (ce_key e) seen) by (intros H; apply smem_In in H; congruence).
      cbn [In]. rewrite IH. cbn [In]. split.
      + intros [<-|[H1 H2]]; [tauto|]. split; [tauto|]. intros H; apply H2; right; exact H.
      + intros [[<-|H] H2]; [tauto|]. destruct (str_eqb_spec (ce_key e) k) as [->|Hne]; [tauto|].
        right. split; [exact H|]. intros [He|Hs]; [congruence | tauto]. }
  rewrite H. cbn [In]. tauto.
Qed.

Lemma group_filter (P : fitem -> bool) k : forall l,
  filter (fun e => str_eqb (ce_key e) k) (map entry_it (filter P l)) =
  map entry_it (filter (fun it => str_eqb (sel_key (fi_sel it)) k && P it) l).
Proof.
  induction l as [|it r IH]; [reflexivity|]. cbn [filter].
  destruct (P it) eqn:Hi; cbn [map filter].
  - change (ce_key (entry_it it)) with (sel_key (fi_sel it)).
    destruct (str_eqb (sel_key (fi_sel it)) k); cbn [andb map]; rewrite IH; reflexivity.
  - rewrite andb_false_r. exact IH.
Qed.

Section DupBranchEq.
  Variable S : tsdoc.
  Variable F : list fragdef.
  Variable cf : nat.
  Let named := sp_named S.
  Let okeys := sp_obj_keys S.
  Let choose := local_choices (Datatypes.S cf) F.
  Let DEN (f : nat) := den S F (Datatypes.S cf) choose false f.

  Variable R : list selection -> gty -> stree -> Prop.
  Variable b : branch.
  Let o := o_name (b_obj b).
  Variables (dd : option desc) (dp : pos) (dn : ident) (dimpls : list ident) (ddirs : list directive)
            (dfs : list fielddef) (dkw : keyword).
  Hypothesis Hlookup : sp_lookup S o = Some (TDObject dd dp dn dimpls ddirs dfs dkw).
  Let pf := fields_of dfs ++ [typename_meta].
  Let ks := SP_TYPENAME :: map (fun f => iname (fd_name f)) dfs.

  Variable sels : list selection.
  Variable L : list fitem.              (* flattened scope, response keys may repeat *)
  Let ikey (it : fitem) : str := sel_key (fi_sel it).
  Hypothesis Halias : forall it, In it L -> alias_ok (fi_sel it) = true.
  (** a key is either carried by exactly one item, or only by leaf selections of one field *)
  Hypothesis Hgrp : forall it, In it L ->
    filter (fun it' => str_eqb (ikey it') (ikey it)) L = [it] \/
    (forall it', In it' L -> ikey it' = ikey it ->
       sel_has_sub (fi_sel it') = false /\ sel_name (fi_sel it') = sel_name (fi_sel it)).
  Hypothesis Hes : fst (collect S F (included (b_vars b)) o (Datatypes.S cf) sels []) = map entry_it (filter (einc b) L).

  (** some item with this key is included *)
  Definition ginc (k : str) : bool := existsb (fun it => str_eqb (ikey it) k && einc b it) L.

  (** the field of a selection that is not skipped *)
  Inductive nsfld (x : selection) : sfield -> Prop :=
  | ns_typename : str_eqb (sel_name x) TYPENAME = true -> nsfld x (SFLeaf (sel_key x) STRING_T)
  | ns_leaf i fty : str_eqb (sel_name x) TYPENAME = false ->
                    find (fun p => str_eqb (fst p) (sel_name x)) pf = Some (i, fty) -> sel_has_sub x = false ->
                    nsfld x (SFLeaf (sel_key x) fty)
  | ns_obj i fty t : str_eqb (sel_name x) TYPENAME = false ->
                    find (fun p => str_eqb (fst p) (sel_name x)) pf = Some (i, fty) -> sel_has_sub x = true ->
                    R (sel_sub x) fty t ->
                    nsfld x (SFObject (sel_key x) t).

  Definition prel (it : fitem) (p : bool * sfield) : Prop :=
    sf_name (snd p) = ikey it /\ fst p = sel_aliased (fi_sel it) /\
    (if ginc (ikey it) then nsfld (fi_sel it) (snd p) else snd p = SFEmpty (ikey it)).

  Variable fs : list (bool * sfield).   (* the merged fields *)
  Hypothesis HndF : NoDup (map (fun p => sf_name (snd p)) fs).
  Hypothesis Hfs_l : forall it, In it L -> exists p, In p fs /\ prel it p.
  Hypothesis Hfs_r : forall p, In p fs -> exists it, In it L /\ prel it p.
  Hypothesis Hfl : forall p, In p fs -> field_leaves_ok (sp_leaf_ok S) (sp_obj_ok S) (snd p) = true.

  Hypothesis Hsub : forall it fd tree', In it L -> sel_has_sub (fi_sel it) = true ->
    str_eqb (sel_name (fi_sel it)) TYPENAME = false ->
    find (fun f => str_eqb (iname (fd_name f)) (sel_name (fi_sel it))) dfs = Some fd ->
    R (sel_sub (fi_sel it)) (gty_of (fd_type fd)) tree' ->
    leaves_ok (sp_leaf_ok S) (sp_obj_ok S) tree' = true ->
    sp_kind S (iname (ty_unwrapped (fd_type fd))) = LComposite /\
    forall v, json v = true ->
      (tree_den named okeys tree' false v = true <->
       exists f, complete (fun nm y => DEN f nm (sel_sub (fi_sel it)) y) (fd_type fd) v = true).

  Let es := map entry_it (filter (einc b) L).

  Lemma ginc_spec k : ginc k = true <-> exists it, In it L /\ ikey it = k /\ einc b it = true.
  Proof.
    unfold ginc. rewrite existsb_exists. split.
    - intros [it [Hin H]]. apply andb_true_iff in H. destruct H as [Hk Hi]. exists it.
      split; [exact Hin|]. split; [destruct (str_eqb_spec (ikey it) k); [assumption | discriminate] | exact Hi].
    - intros [it [Hin [Hk Hi]]]. exists it. split; [exact Hin|]. rewrite Hk, str_eqb_refl, Hi. reflexivity.
  Qed.

  Lemma d_keys k : In k (keys_of es) <-> ginc k = true.
  Proof.
    rewrite keys_of_In, ginc_spec. unfold es. rewrite map_map, in_map_iff. split.
    - intros [it [Hk Hin]]. apply filter_In in Hin. destruct Hin as [Hin Hi]. exists it. auto.
    - intros [it [Hin [Hk Hi]]]. exists it. split; [exact Hk | apply filter_In; split; assumption].
  Qed.

  Lemma group_es k : group es k = map entry_it (filter (fun it => str_eqb (ikey it) k && einc b it) L).
  Proof. unfold group, es. apply group_filter. Qed.

  Lemma d_entry it : In it L -> einc b it = true ->
    name_of es (ikey it) = sel_name (fi_sel it) /\ sub_of es (ikey it) = sel_sub (fi_sel it).
  Proof.
    intros Hin Hi. unfold name_of, sub_of. rewrite group_es.
    destruct (Hgrp it Hin) as [Hone | Hall].
    - assert (Hf : filter (fun it' => str_eqb (ikey it') (ikey it) && einc b it') L = [it]).
      { assert (Hg : forall l, filter (fun it' => str_eqb (ikey it') (ikey it) && einc b it') l
                             = filter (einc b) (filter (fun it' => str_eqb (ikey it') (ikey it)) l)).
        { induction l as [|a l IHl]; [reflexivity|]. cbn [filter].
          destruct (str_eqb (ikey a) (ikey it)); cbn [andb filter]; [destruct (einc b a); rewrite IHl; reflexivity | exact IHl]. }
        rewrite Hg, Hone. cbn [filter]. rewrite Hi. reflexivity. }
      rewrite Hf. cbn [map flat_map entry_it entry_of ce_name ce_sub]. rewrite app_nil_r. split; reflexivity.
    - assert (Hm : In it (filter (fun it' => str_eqb (ikey it') (ikey it) && einc b it') L)).
      { apply filter_In. split; [exact Hin|]. rewrite str_eqb_refl, Hi. reflexivity. }
      assert (Hprop : forall it', In it' (filter (fun it' => str_eqb (ikey it') (ikey it) && einc b it') L) ->
                        sel_has_sub (fi_sel it') = false /\ sel_name (fi_sel it') = sel_name (fi_sel it)).
      { intros it' H'. apply filter_In in H'. destruct H' as [Hin' Hc]. apply andb_true_iff in Hc. destruct Hc as [Hk _].
        apply Hall; [exact Hin'|]. destruct (str_eqb_spec (ikey it') (ikey it)); [assumption | discriminate]. }
      destruct (Hprop it Hm) as [Hleaf _].
      assert (Hsubnil : forall x, sel_has_sub x = false -> sel_sub x = []).
      { intros x. destruct x as [al nm ar ds [ss|] | |]; cbn; try reflexivity; discriminate. }
      destruct (filter (fun it' => str_eqb (ikey it') (ikey it) && einc b it') L) as [|h t] eqn:Hfl0; [destruct Hm|].
      cbn [map]. split.
      + cbn [entry_it entry_of ce_name]. destruct (Hprop h (or_introl eq_refl)) as [_ Hn]. exact Hn.
      + rewrite (Hsubnil _ Hleaf).
        assert (Hz : forall l, (forall it', In it' l -> sel_has_sub (fi_sel it') = false) -> flat_map ce_sub (map entry_it l) = []).
        { induction l as [|a l IHl]; intros Hl; [reflexivity|]. cbn [map flat_map entry_it entry_of ce_sub].
          rewrite (Hsubnil _ (Hl a (or_introl eq_refl))). cbn [app]. apply IHl. intros x Hx. apply Hl. right. exact Hx. }
        change (entry_it h :: map entry_it t) with (map entry_it (h :: t)).
        apply Hz. intros it' H'. apply (Hprop it' H').
  Qed.

  Lemma fs_unique p p' : In p fs -> In p' fs -> sf_name (snd p) = sf_name (snd p') -> p = p'.
  Proof. intros H H' He. eapply (NoDup_map_inj (fun q : bool * sfield => sf_name (snd q))); eauto. Qed.

  (** an included item and the merged field of its key *)
  Lemma inc_pair it : In it L -> einc b it = true ->
    exists p, In p fs /\ sf_name (snd p) = ikey it /\ fst p = sel_aliased (fi_sel it) /\ nsfld (fi_sel it) (snd p).
  Proof.
    intros Hin Hi. destruct (Hfs_l it Hin) as [p [Hp [Hn [Ha Hf]]]].
    assert (Hg : ginc (ikey it) = true) by (apply ginc_spec; exists it; auto).
    rewrite Hg in Hf. exists p. auto.
  Qed.

  Lemma nsfld_name x f : nsfld x f -> sf_name f = sel_key x.
  Proof. destruct 1; reflexivity. Qed.

  Lemma d_inc_vis it (p : bool * sfield) : In it L -> fst p = sel_aliased (fi_sel it) -> nsfld (fi_sel it) (snd p) ->
    vis ks p = true.
  Proof.
    intros Hx Ha Hf. unfold vis. rewrite Ha. destruct (sel_aliased (fi_sel it)) eqn:Hal; [reflexivity|]. cbn [orb].
    apply key_in_In. rewrite (nsfld_name _ _ Hf), (sel_key_unal _ Hal).
    inversion Hf as [Htn | i fty Htn Hfind Hs | i fty t Htn Hfind Hs Hr]; subst.
    - left. destruct (str_eqb_spec (sel_name (fi_sel it)) TYPENAME) as [->|]; [reflexivity | discriminate].
    - right. destruct (find_fields_of dfs _ _ _ Hfind Htn) as [fd [_ [_ [Hin He]]]]. rewrite <- He. exact Hin.
    - right. destruct (find_fields_of dfs _ _ _ Hfind Htn) as [fd [_ [_ [Hin He]]]]. rewrite <- He. exact Hin.
  Qed.

  Definition dvok (f : nat) (kv : str * val) : bool :=
    let fname := name_of es (fst kv) in
    match sp_field_type S o fname with
    | None => false
    | Some t =>
        complete (fun n x =>
          if str_eqb fname SP_TYPENAME then match x with VStr y => str_eqb y o | _ => false end
          else match sp_kind S n with
               | LComposite => DEN f n (sub_of es (fst kv)) x
               | k => scalar_den k x
               end) t (snd kv)
    end.

  Lemma dvok_mono f f' kv : f <= f' -> dvok f kv = true -> dvok f' kv = true.
  Proof.
    intros Hle. unfold dvok. cbv zeta.
    destruct (sp_field_type S o (name_of es (fst kv))); [|discriminate].
    apply complete_mono. intros n x Hx.
    destruct (str_eqb (name_of es (fst kv)) SP_TYPENAME); [exact Hx|].
    destruct (sp_kind S n); try exact Hx. eapply den_fuel_le; eauto.
  Qed.

  Lemma d_sp_field_type_found x fd :
    str_eqb (sel_name x) TYPENAME = false ->
    find (fun f => str_eqb (iname (fd_name f)) (sel_name x)) dfs = Some fd ->
    sp_field_type S o (sel_name x) = Some (fd_type fd).
  Proof.
    intros Htn Hf. unfold sp_field_type. change SP_TYPENAME with TYPENAME. rewrite Htn, Hlookup, Hf. reflexivity.
  Qed.

  Lemma d_field_value it (p : bool * sfield) kvs v :
    In it L -> In p fs -> einc b it = true -> nsfld (fi_sel it) (snd p) ->
    assoc (ikey it) kvs = Some v -> json v = true ->
    (field_den named okeys o (snd p) kvs = true <-> exists f, dvok f (ikey it, v) = true).
  Proof.
    intros Hx Hp Hi Hf Ha Hj.
    pose proof (Halias it Hx) as Hal0. pose proof (Hfl p Hp) as Hlv.
    destruct (d_entry it Hx Hi) as [Hname Hsubs].
    unfold dvok. cbv zeta. cbn [fst snd]. rewrite Hname, Hsubs.
    unfold ikey in Ha.
    inversion Hf as [Htn | i fty Htn Hfind Hs | i fty t Htn Hfind Hs Hr]; subst.
    - cbn [field_den]. rewrite Ha.
      rewrite (sel_key_unal _ (alias_ok_typename _ Hal0 Htn)), Htn.
      unfold sp_field_type. change SP_TYPENAME with TYPENAME. rewrite Htn.
      unfold complete. cbn [complete_nn iname].
      split.
      + intros Hv. exists 0. destruct v; try discriminate. cbn [is_null negb andb]. rewrite str_eqb_sym. exact Hv.
      + intros [_ Hv]. destruct v; try discriminate. cbn [is_null negb andb] in Hv. rewrite str_eqb_sym. exact Hv.
    - cbn [field_den]. rewrite Ha.
      rewrite (alias_ok_key _ Hal0 Htn).
      destruct (find_fields_of dfs _ _ _ Hfind Htn) as [fd [Hfd [-> _]]].
      rewrite (d_sp_field_type_found _ fd Htn Hfd).
      change SP_TYPENAME with TYPENAME. rewrite Htn.
      assert (Hok : sp_leaf_ok S (iname (ty_unwrapped (fd_type fd))) = true).
      { match goal with He : _ = snd p |- _ => rewrite <- He in Hlv end. cbn [field_leaves_ok] in Hlv.
        rewrite (alias_ok_key _ Hal0 Htn) in Hlv. cbn [orb] in Hlv. rewrite gty_named_of in Hlv. exact Hlv. }
      destruct (gden_complete named (sp_named_null S) (fd_type fd) v) as [_ Hg]. rewrite Hg.
      split.
      + intros Hv. exists 0. rewrite complete_named in Hv. rewrite complete_named.
        revert Hv. apply complete_mono. intros _ y Hy.
        unfold named, sp_named in Hy. unfold sp_leaf_ok in Hok.
        destruct (sp_kind S (iname (ty_unwrapped (fd_type fd)))); try discriminate; exact Hy.
      + intros [f Hv]. rewrite complete_named in Hv. rewrite complete_named.
        revert Hv. apply complete_mono. intros _ y Hy.
        unfold named, sp_named. unfold sp_leaf_ok in Hok.
        destruct (sp_kind S (iname (ty_unwrapped (fd_type fd)))); try discriminate; exact Hy.
    - cbn [field_den]. rewrite Ha.
      destruct (find_fields_of dfs _ _ _ Hfind Htn) as [fd [Hfd [-> _]]].
      rewrite (d_sp_field_type_found _ fd Htn Hfd).
      change SP_TYPENAME with TYPENAME. rewrite Htn.
      assert (Hlt : leaves_ok (sp_leaf_ok S) (sp_obj_ok S) t = true).
      { match goal with He : _ = snd p |- _ => rewrite <- He in Hlv end. exact Hlv. }
      destruct (Hsub it fd t Hx Hs Htn Hfd Hr Hlt) as [Hkind Hiff].
      rewrite (Hiff v Hj).
      split.
      + intros [f Hv]. exists f. rewrite complete_named. rewrite complete_named in Hv.
        revert Hv. apply complete_mono. intros _ y Hy. rewrite Hkind. exact Hy.
      + intros [f Hv]. exists f. rewrite complete_named. rewrite complete_named in Hv.
        revert Hv. apply complete_mono. intros _ y Hy. rewrite Hkind in Hy. exact Hy.
  Qed.

  Theorem dup_branch_eq kvs : json (VObj kvs) = true ->
    (branch_den named okeys (mkBranch o (un_of fs) (al_of fs)) (VObj kvs) = true <->
     exists f, nodup_keys (map fst kvs) = true /\ den_body S F cf f o (b_vars b) sels kvs = true).
  Proof.
    intros Hj.
    assert (Hok : okeys o = Some ks) by (unfold okeys, sp_obj_keys; rewrite Hlookup; reflexivity).
    rewrite (branch_den_char named okeys o fs ks kvs Hok).
    assert (Hbody : forall f, den_body S F cf f o (b_vars b) sels kvs = true <->
              ((forall k, In k (map fst kvs) -> ginc k = true) /\
               (forall k, ginc k = true -> In k (map fst kvs))) /\
              (forall kv, In kv kvs -> dvok f kv = true)).
    { intros f. unfold den_body. cbv zeta. rewrite Hes. fold es. rewrite andb_true_iff, same_keys_spec, forallb_forall.
      split.
      - intros [[H1 H2] H3]. split; [split|exact H3]; intros k Hk; [apply d_keys; apply H1; exact Hk | apply H2; apply d_keys; exact Hk].
      - intros [[H1 H2] H3]. split; [split|exact H3]; intros k Hk; [apply d_keys; apply H1; exact Hk | apply H2; apply d_keys; exact Hk]. }
    (* the merged field of a key some item of which is included *)
    assert (Hinc : forall p, In p fs -> ginc (sf_name (snd p)) = true ->
              exists it, In it L /\ einc b it = true /\ ikey it = sf_name (snd p) /\
                         fst p = sel_aliased (fi_sel it) /\ nsfld (fi_sel it) (snd p)).
    { intros p Hp Hg. apply ginc_spec in Hg. destruct Hg as [it [Hin [Hk Hi]]].
      destruct (inc_pair it Hin Hi) as [p' [Hp' [Hn' [Ha' Hf']]]].
      assert (p' = p) by (apply fs_unique; [assumption | assumption | congruence]). subst p'.
      exists it. auto. }
    split.
    - intros [Hnd1 [Hcov Hfd]].
      assert (Hndp : NoDup (map fst kvs)) by (apply nodup_keys_NoDup; exact Hnd1).
      assert (Hkey : forall k v, In (k, v) kvs -> exists it p, In it L /\ In p fs /\ einc b it = true /\ ikey it = k /\
                                   fst p = sel_aliased (fi_sel it) /\ nsfld (fi_sel it) (snd p) /\ vis ks p = true).
      { intros k v Hin.
        assert (Hk : In k (map fst kvs)) by (apply in_map_iff; exists (k, v); split; [reflexivity | exact Hin]).
        destruct (Hcov k Hk) as [p [Hp [Hv Hn]]].
        destruct (ginc (sf_name (snd p))) eqn:Hg.
        - destruct (Hinc p Hp Hg) as [it [Hx [Hi [Hkx [Ha Hf]]]]]. exists it, p. repeat split; try assumption. congruence.
        - exfalso. destruct (Hfs_r p Hp) as [it0 [Hx0 [Hn0 [Ha0 Hf0]]]].
          rewrite Hn0 in Hg. rewrite Hg in Hf0.
          pose proof (Hfd p Hp Hv) as Hd. rewrite Hf0 in Hd. cbn [field_den] in Hd.
          rewrite <- Hn0, Hn, (in_assoc_nodup k v kvs Hndp Hin) in Hd.
          pose proof (json_obj_in kvs Hj (k, v) Hin) as Hjv. cbn [snd] in Hjv. destruct v; discriminate. }
      destruct (uniform_fuel (fun f kv => dvok f kv = true) kvs) as [f Hf].
      { intros f f' kv Hle. apply dvok_mono. exact Hle. }
      { intros [k v] Hin. destruct (Hkey k v Hin) as [it [p [Hx [Hp [Hi [Hk [Ha [Hfl' Hv]]]]]]]].
        pose proof (Hfd p Hp Hv) as Hd.
        pose proof (in_assoc_nodup k v kvs Hndp Hin) as Hak. rewrite <- Hk in Hak.
        pose proof (json_obj_in kvs Hj (k, v) Hin) as Hjv. cbn [snd] in Hjv.
        destruct (proj1 (d_field_value it p kvs v Hx Hp Hi Hfl' Hak Hjv) Hd) as [f Hf]. exists f. rewrite <- Hk. exact Hf. }
      exists f. split; [exact Hnd1|]. apply Hbody. split; [split|].
      + intros k Hk. apply assoc_in_keys in Hk. destruct Hk as [v Hk]. apply assoc_in in Hk.
        destruct (Hkey k v Hk) as [it [p [Hx [_ [Hi [Hkx _]]]]]]. apply ginc_spec. exists it. auto.
      + intros k Hk. apply ginc_spec in Hk. destruct Hk as [it [Hx [Hkx Hi]]].
        destruct (inc_pair it Hx Hi) as [p [Hp [Hn [Ha Hfl']]]].
        pose proof (Hfd p Hp (d_inc_vis it p Hx Ha Hfl')) as Hd.
        apply assoc_in_keys. rewrite <- Hkx. unfold ikey.
        inversion Hfl' as [Htn | i fty Htn Hfind Hs | i fty t Htn Hfind Hs Hr]; subst;
          match goal with He : _ = snd p |- _ => rewrite <- He in Hd end; cbn [field_den] in Hd;
          destruct (assoc (sel_key (fi_sel it)) kvs) as [v|]; try discriminate; exists v; reflexivity.
      + exact Hf.
    - intros [f [Hnd1 Hb]]. apply Hbody in Hb. destruct Hb as [[Hk1 Hk2] Hv].
      assert (Hndp : NoDup (map fst kvs)) by (apply nodup_keys_NoDup; exact Hnd1).
      split; [exact Hnd1|]. split.
      + intros k Hk. apply Hk1 in Hk. apply ginc_spec in Hk. destruct Hk as [it [Hx [Hkx Hi]]].
        destruct (inc_pair it Hx Hi) as [p [Hp [Hn [Ha Hfl']]]].
        exists p. split; [exact Hp|]. split; [exact (d_inc_vis it p Hx Ha Hfl') | congruence].
      + intros p Hp Hvis.
        destruct (ginc (sf_name (snd p))) eqn:Hg.
        * destruct (Hinc p Hp Hg) as [it [Hx [Hi [Hkx [Ha Hfl']]]]].
          assert (Hk : In (ikey it) (map fst kvs)) by (apply Hk2; rewrite Hkx; exact Hg).
          apply assoc_in_keys in Hk. destruct Hk as [v Hak].
          pose proof (assoc_in _ _ _ Hak) as Hin.
          pose proof (json_obj_in kvs Hj _ Hin) as Hjv. cbn [snd] in Hjv.
          apply (proj2 (d_field_value it p kvs v Hx Hp Hi Hfl' Hak Hjv)). exists f. apply Hv. exact Hin.
        * destruct (Hfs_r p Hp) as [it0 [Hx0 [Hn0 [Ha0 Hf0]]]].
          rewrite Hn0 in Hg. rewrite Hg in Hf0. rewrite Hf0. cbn [field_den].
          destruct (assoc (ikey it0) kvs) as [v|] eqn:Hak; [|reflexivity]. exfalso.
          assert (Hk : In (ikey it0) (map fst kvs)) by (apply assoc_in_keys; exists v; exact Hak).
          apply Hk1 in Hk. congruence.
  Qed.
End DupBranchEq.
