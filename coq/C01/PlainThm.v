(** C01/C02 — plain selection sets, part 3: the model's selection tree denotes exactly Ref_local, and
    with TreeDen/EnvDen the emitted TypeScript type admits exactly Ref_local (hence every Execute_spec
    response, by Proofs.exec_in_ref_local). *)
From V Require Import Base.Util Gql.Ast Writer.Wop Ts.TsType Ts.TsDen
     C01.Model C01.Spec C01.Guards C01.TsLemmas C01.TreeDen C01.Proofs C01.EnvDen C01.PlainBase C01.PlainCore
     C01.PlainMain C01.PlainSchema.
From Coq Require Import Wf_nat.

(** * CompleteValue with an existentially quantified fuel *)
Section CompleteExists.
  Variable l1 : val -> bool.
  Variable l2 : nat -> val -> bool.
  Hypothesis Hmono : forall f f' x, f <= f' -> l2 f x = true -> l2 f' x = true.
  Hypothesis Hl : forall x, json x = true -> l1 x = true -> exists f, l2 f x = true.

  Lemma complete_nn_le f f' t v : f <= f' ->
    complete_nn (fun _ => l2 f) t v = true -> complete_nn (fun _ => l2 f') t v = true.
  Proof. intros Hle. apply complete_nn_mono. intros _ x. apply Hmono. exact Hle. Qed.

  Lemma complete_nn_exists : forall t v, json v = true ->
    complete_nn (fun _ => l1) t v = true -> exists f, complete_nn (fun _ => l2 f) t v = true.
  Proof.
    induction t as [n | t' IH | p t' IH]; intros v Hj H; cbn [complete_nn] in *.
    - apply Hl; assumption.
    - apply IH; assumption.
    - destruct v as [| | | | | |l|]; try discriminate.
      rewrite forallb_forall in H.
      destruct (uniform_fuel (fun f x =>
                  match t' with
                  | TNonNull t'' => negb (is_null x) && complete_nn (fun _ => l2 f) t'' x
                  | _ => is_null x || complete_nn (fun _ => l2 f) t' x
                  end = true) l) as [f Hf].
      + intros f f' x Hle. destruct t' as [n | t'' | p' t''].
        * rewrite !orb_true_iff. intros [Hx|Hx]; [left; exact Hx | right; eapply complete_nn_le; eauto].
        * rewrite !andb_true_iff. intros [H1 H2]. split; [exact H1 | eapply complete_nn_le; eauto].
        * rewrite !orb_true_iff. intros [Hx|Hx]; [left; exact Hx | right; eapply complete_nn_le; eauto].
      + intros x Hx. specialize (H x Hx). pose proof (json_list l Hj x Hx) as Hjx.
        destruct t' as [n | t'' | p' t''].
        * apply orb_true_iff in H. destruct H as [H|H]; [exists 0; rewrite H; reflexivity|].
          destruct (IH x Hjx H) as [f Hf]. exists f. rewrite Hf. apply orb_true_r.
        * apply andb_true_iff in H. destruct H as [H1 H2].
          destruct (IH x Hjx H2) as [f Hf]. exists f. rewrite H1. exact Hf.
        * apply orb_true_iff in H. destruct H as [H|H]; [exists 0; rewrite H; reflexivity|].
          destruct (IH x Hjx H) as [f Hf]. exists f. rewrite Hf. apply orb_true_r.
      + exists f. apply forallb_forall. exact Hf.
  Qed.

  Lemma complete_exists t v : json v = true ->
    complete (fun _ => l1) t v = true -> exists f, complete (fun _ => l2 f) t v = true.
  Proof.
    intros Hj. unfold complete. destruct t as [n | t' | p t'].
    - rewrite orb_true_iff. intros [H|H]; [exists 0; rewrite H; reflexivity|].
      destruct (complete_nn_exists _ v Hj H) as [f Hf]. exists f. rewrite Hf. apply orb_true_r.
    - rewrite andb_true_iff. intros [H1 H2]. destruct (complete_nn_exists _ v Hj H2) as [f Hf]. exists f. rewrite H1. exact Hf.
    - rewrite orb_true_iff. intros [H|H]; [exists 0; rewrite H; reflexivity|].
      destruct (complete_nn_exists _ v Hj H) as [f Hf]. exists f. rewrite Hf. apply orb_true_r.
  Qed.
End CompleteExists.

(** monotonicity of CompleteValue in the leaf test, on JSON values *)
Lemma complete_nn_mono_json (l1 l2 : str -> val -> bool) :
  (forall n x, json x = true -> l1 n x = true -> l2 n x = true) ->
  forall t v, json v = true -> complete_nn l1 t v = true -> complete_nn l2 t v = true.
Proof.
  intros Hl. induction t as [n | t' IH | p t' IH]; intros v Hj H; cbn [complete_nn] in *.
  - apply Hl; assumption.
  - apply IH; assumption.
  - destruct v as [| | | | | |l|]; try discriminate.
    rewrite forallb_forall in *. intros x Hx. specialize (H x Hx). pose proof (json_list l Hj x Hx) as Hjx.
    destruct t' as [n | t'' | p' t'']; cbn [complete_nn] in *.
    + apply orb_true_iff in H. apply orb_true_iff. destruct H as [H|H]; [left; exact H | right; apply Hl; assumption].
    + apply andb_true_iff in H. destruct H as [H1 H2]. apply andb_true_iff. split; [exact H1|]. apply (IH x Hjx). exact H2.
    + apply orb_true_iff in H. apply orb_true_iff. destruct H as [H|H]; [left; exact H | right]. apply (IH x Hjx). exact H.
Qed.

Lemma complete_mono_json (l1 l2 : str -> val -> bool) :
  (forall n x, json x = true -> l1 n x = true -> l2 n x = true) ->
  forall t v, json v = true -> complete l1 t v = true -> complete l2 t v = true.
Proof.
  intros Hl t v Hj H. unfold complete in *. destruct t as [n | t' | p t'].
  - apply orb_true_iff in H. apply orb_true_iff. destruct H as [H|H]; [left; exact H | right].
    eapply complete_nn_mono_json; eauto.
  - apply andb_true_iff in H. destruct H as [H1 H2]. apply andb_true_iff. split; [exact H1|].
    eapply complete_nn_mono_json; eauto.
  - apply orb_true_iff in H. apply orb_true_iff. destruct H as [H|H]; [left; exact H | right].
    eapply complete_nn_mono_json; eauto.
Qed.

(** * pieces of the tree *)
Lemma leaves_ok_wrap lo oo g core : leaves_ok lo oo (wrap_tree g core) = leaves_ok lo oo core.
Proof. induction g; cbn [wrap_tree leaves_ok]; auto. Qed.

Lemma leaves_ok_branches lo oo bs : leaves_ok lo oo (STObject bs) = true ->
  forall br, In br bs -> branch_leaves_ok lo oo br = true.
Proof.
  cbn [leaves_ok]. induction bs as [|b r IH]; intros H br Hin; [destruct Hin|].
  apply andb_true_iff in H. destruct H as [H1 H2]. destruct Hin as [<-|Hin]; [exact H1 | apply IH; assumption].
Qed.

Lemma branch_leaves_fields lo oo tn un al : branch_leaves_ok lo oo (mkBranch tn un al) = true ->
  oo tn = true /\ forall f, In f (un ++ al) -> field_leaves_ok lo oo f = true.
Proof.
  cbn [branch_leaves_ok]. rewrite !andb_true_iff. intros [[H0 H1] H2]. split; [exact H0|].
  assert (Hl : forall l, (fix go (l : list sfield) : bool :=
                 match l with [] => true | f :: r => field_leaves_ok lo oo f && go r end) l = true ->
               forall f, In f l -> field_leaves_ok lo oo f = true).
  { induction l as [|g r IH]; intros H f Hin; [destruct Hin|].
    apply andb_true_iff in H. destruct H as [Ha Hb]. destruct Hin as [<-|Hin]; [exact Ha | apply IH; assumption]. }
  intros f Hin. apply in_app_or in Hin. destruct Hin as [Hin|Hin]; [apply (Hl un H1) | apply (Hl al H2)]; exact Hin.
Qed.

Lemma go_branches named okeys bs v :
  (fix go (l : list sbranch) : bool :=
     match l with [] => false | b :: r => branch_den named okeys b v || go r end) bs = true
  <-> exists br, In br bs /\ branch_den named okeys br v = true.
Proof.
  induction bs as [|b r IH].
  - split; [discriminate | intros [br [[] _]]].
  - rewrite orb_true_iff, IH. split.
    + intros [H|[br [Hin H]]]; [exists b; split; [left; reflexivity | exact H] | exists br; split; [right; exact Hin | exact H]].
    + intros [br [[<-|Hin] H]]; [left; exact H | right; exists br; split; assumption].
Qed.

Lemma tree_den_object named okeys bs v :
  tree_den named okeys (STObject bs) true v = true <-> exists br, In br bs /\ branch_den named okeys br v = true.
Proof.
  change (tree_den named okeys (STObject bs) true v) with
    ((negb true && vis_null v)
     || (fix go (l : list sbranch) : bool :=
           match l with [] => false | b :: r => branch_den named okeys b v || go r end) bs).
  cbn [negb andb orb]. apply go_branches.
Qed.

Lemma in_un_al fs p : In p fs -> In (snd p) (un_of fs ++ al_of fs).
Proof.
  intros Hp. apply in_or_app. destruct (fst p) eqn:Hb.
  - right. apply in_al_of. exists p. auto.
  - left. apply in_un_of. exists p. auto.
Qed.

(** * the theorem on selection trees *)
Section PlainTree.
  Variable S : tsdoc.
  Variable F : list fragdef.
  Variable cf : nat.
  Hypothesis Hnodup : nodup_types S = true.
  Let named := sp_named S.
  Let okeys := sp_obj_keys S.
  Let choose := local_choices (Datatypes.S cf) F.
  Let DEN (f : nat) := den S F (Datatypes.S cf) choose false f.

  Lemma DEN_le f f' T sels v : f <= f' -> DEN f T sels v = true -> DEN f' T sels v = true.
  Proof. apply den_fuel_le. Qed.

  (** collect depends on the assignment only through the variables of the selection set *)
  Lemma den_body_ext f o sg sg' sels kvs :
    (forall x, In x (local_vars (Datatypes.S cf) F sels) -> lookup_var sg x = lookup_var sg' x) ->
    den_body S F cf f o sg sels kvs = den_body S F cf f o sg' sels kvs.
  Proof. intros H. unfold den_body. rewrite (collect_ext S F o sg sg' _ sels [] H). reflexivity. Qed.

  Definition Q (n : nat) : Prop :=
    forall sels t tree,
      plain_list sels = true ->
      type_for_selection_set S F n sels (gty_of t) = Ok tree ->
      leaves_ok (sp_leaf_ok S) (sp_obj_ok S) tree = true ->
      sp_kind S (iname (ty_unwrapped t)) = LComposite /\
      forall v, json v = true ->
        (tree_den named okeys tree false v = true <->
         exists f, complete (fun nm y => DEN f nm sels y) t v = true).

  Lemma plain_tree_den_all : forall n, Q n.
  Proof.
    induction n as [n IHn] using lt_wf_ind. unfold Q. intros sels t tree Hplain Htree Hleaves.
    destruct n as [|n']; [discriminate|].
    rewrite type_for_S in Htree. unfold type_body in Htree.
    destruct (type_to_selection_tree_wrap _ _ _ Htree) as [bs [Hmap ->]].
    rewrite gty_named_of in Hmap. set (T := iname (ty_unwrapped t)) in *.
    rewrite leaves_ok_wrap in Hleaves.
    unfold plain_list in Hplain. apply andb_true_iff in Hplain. destruct Hplain as [Hpl Hndk].
    apply nodup_keys_NoDup in Hndk.
    (* branching conditions *)
    unfold generate_branching_conditions in Hmap.
    destruct (parent_objects S T) as [objs|e] eqn:Hobjs; cbn [bind] in Hmap; [|discriminate].
    destruct (parent_objects_spec S T objs Hnodup Hobjs) as [Hnames [Hobjnamed Hkind]].
    unfold get_boolean_variables in Hmap. rewrite (visit_vars_plain F n' sels ([], []) Hpl) in Hmap.
    cbn [bind fst app] in Hmap.
    set (mvars := flat_map (fun x => dirs_variables (sel_ds x)) sels) in *.
    set (asgs := match mvars with [] => [[]] | _ => assignments (unique mvars) end) in *.
    assert (Hasgs : asgs = all_asg (unique mvars)).
    { assert (Hg : forall l : list str, match l with [] => [[]] | _ => assignments (unique l) end = all_asg (unique l))
        by (intros [|a l]; [reflexivity | apply assignments_all_asg]).
      apply Hg. }
    pose proof (mapM_Forall2 _ _ _ Hmap) as Hbs.
    split; [exact Hkind|].
    (* every branch of the tree *)
    assert (Hbranch : forall b br, In b (flat_map (fun o => map (fun a => mkBr o a) asgs) objs) ->
              branch_step (fields_for_selection_set S F n') sels b = Ok br ->
              In br bs ->
              forall kvs, json (VObj kvs) = true ->
                (branch_den named okeys br (VObj kvs) = true <->
                 exists f, nodup_keys (map fst kvs) = true /\ den_body S F cf f (o_name (b_obj b)) (b_vars b) sels kvs = true)).
    { intros b br Hb Hstep Hbr kvs Hj.
      apply in_flat_map in Hb. destruct Hb as [ob [Hob Hb]]. apply in_map_iff in Hb. destruct Hb as [beta [<- Hbeta]].
      destruct (Hobjnamed ob Hob) as [dd [dp [dn [di [ddirs [dfs [dkw Hlook]]]]]]].
      pose proof Hstep as Hstep0. unfold branch_step in Hstep.
      destruct (fields_for_selection_set S F n' sels (mkBr ob beta)) as [fs|e] eqn:Hfields; cbn [bind] in Hstep; [|discriminate].
      destruct n' as [|n'']; [discriminate|].
      rewrite fields_for_S in Hfields.
      destruct (fields_body_plain S F _ _ sels _ fs Hpl Hfields) as [pdef [pf [Hg [Hd Hfs]]]].
      cbn [b_obj] in Hg. rewrite get_type_sp_lookup, Hlook in Hg. inversion Hg. subst pdef. cbn [direct_fields] in Hd.
      inversion Hd. subst pf.
      assert (Hnames_fs : map (fun p => sf_name (snd p)) fs = map sel_key sels).
      { clear -Hfs. induction Hfs as [|x p l l' [_ Hf] _ IH]; [reflexivity|]. cbn [map].
        rewrite (fld_of_name _ _ _ _ _ Hf), IH. reflexivity. }
      pose proof (branch_step_plain _ sels _ br Hstep0 fs Hfields) as Hbr_eq.
      rewrite Hnames_fs in Hbr_eq. specialize (Hbr_eq Hndk). cbn [b_obj] in Hbr_eq. subst br.
      pose proof (leaves_ok_branches _ _ bs Hleaves _ Hbr) as Hbl.
      destruct (branch_leaves_fields _ _ _ _ _ Hbl) as [_ Hfl].
      apply (branch_eq S F cf (type_for_selection_set S F n'') (mkBr ob beta) dd dp dn di ddirs dfs dkw Hlook
                       sels Hpl Hndk fs Hfs).
      - (* sub-selections: induction hypothesis *)
        intros x fd tree' Hx Hs Hi Htn0 Hfind Hrec.
        assert (Hlt : n'' < Datatypes.S (Datatypes.S n'')) by lia.
        assert (Hpx : plain_sel x = true) by (rewrite forallb_forall in Hpl; apply Hpl; exact Hx).
        apply (IHn n'' Hlt (sel_sub x) (fd_type fd) tree' (plain_sel_sub x Hpx Hs) Hrec).
        (* the subtree is a field of this branch *)
        destruct (Forall2_in_l _ _ _ _ Hfs Hx) as [p [Hp [_ Hf]]].
        pose proof (Hfl _ (in_un_al fs p Hp)) as Hok.
        inversion Hf as [Hn | Hi' Htn Hal | i fty Hi' Htn Hfind' Hs' | i fty t0 Hi' Htn Hfind' Hs' Hr]; subst; try congruence.
        destruct (find_fields_of dfs _ _ _ Hfind' Htn) as [fd' [Hfd' [-> _]]].
        assert (fd' = fd) by congruence. subst fd'.
        rewrite Hrec in Hr. inversion Hr. subst t0.
        match goal with He : _ = snd p |- _ => rewrite <- He in Hok end. exact Hok.
      - (* leaves *)
        intros x fd Hx Hs Hi Htn Hfind.
        assert (Hpx : plain_sel x = true) by (rewrite forallb_forall in Hpl; apply Hpl; exact Hx).
        destruct (Forall2_in_l _ _ _ _ Hfs Hx) as [p [Hp [_ Hf]]].
        pose proof (Hfl _ (in_un_al fs p Hp)) as Hok.
        inversion Hf as [Hn | Hi' Htn' Hal | i fty Hi' Htn' Hfind' Hs' | i fty t0 Hi' Htn' Hfind' Hs' Hr]; subst; try congruence.
        destruct (find_fields_of dfs _ _ _ Hfind' Htn) as [fd' [Hfd' [-> _]]].
        assert (fd' = fd) by congruence. subst fd'.
        match goal with He : _ = snd p |- _ => rewrite <- He in Hok end.
        cbn [field_leaves_ok] in Hok.
        rewrite (sel_key_not_typename x Hpx Htn) in Hok. cbn [orb] in Hok.
        rewrite gty_named_of in Hok. exact Hok.
      - exact Hj. }
    (* the object level *)
    assert (Hobj : forall x, json x = true ->
              (tree_den named okeys (STObject bs) true x = true <-> exists f, DEN f T sels x = true)).
    { intros x Hj. rewrite tree_den_object.
      destruct x as [| | | | | | |kvs].
      1-7: (split; [intros [br [_ H]]; destruct br as [tn un al]; cbn [branch_den] in H; destruct (okeys tn); discriminate
                   | intros [[|f] H]; discriminate]).
      split.
      - intros [br [Hbr Hden]].
        destruct (Forall2_in_r _ _ _ _ Hbs Hbr) as [b [Hb Hstep]].
        destruct (proj1 (Hbranch b br Hb Hstep Hbr kvs Hj) Hden) as [f [Hnd Hbody]].
        exists (Datatypes.S f). unfold DEN. rewrite (den_S S F cf). rewrite Hnd. cbn [andb].
        apply in_flat_map in Hb. destruct Hb as [ob [Hob Hb]]. apply in_map_iff in Hb. destruct Hb as [beta [<- Hbeta]].
        cbn [b_obj b_vars] in Hbody.
        apply existsb_exists. exists (o_name ob). split; [rewrite <- Hnames; apply in_map; exact Hob|].
        apply existsb_exists. exists (restrict beta (dedup (local_vars (Datatypes.S cf) F sels))).
        split; [apply restrict_in_all_asg|].
        rewrite <- Hbody. apply den_body_ext. intros y Hy. apply lookup_restrict. apply dedup_In. exact Hy.
      - intros [[|f] H]; [discriminate|]. unfold DEN in H. rewrite (den_S S F cf) in H.
        apply andb_true_iff in H. destruct H as [Hnd H].
        apply existsb_exists in H. destruct H as [o [Ho H]].
        apply existsb_exists in H. destruct H as [sg [Hsg Hbody]].
        rewrite <- Hnames in Ho. apply in_map_iff in Ho. destruct Ho as [ob [<- Hob]].
        set (beta := restrict sg (unique mvars)).
        assert (Hb : In (mkBr ob beta) (flat_map (fun o => map (fun a => mkBr o a) asgs) objs)).
        { apply in_flat_map. exists ob. split; [exact Hob|]. apply in_map. rewrite Hasgs. apply restrict_in_all_asg. }
        destruct (Forall2_in_l _ _ _ _ Hbs Hb) as [br [Hbr Hstep]].
        exists br. split; [exact Hbr|].
        apply (proj2 (Hbranch _ br Hb Hstep Hbr kvs Hj)). exists f. split; [exact Hnd|].
        cbn [b_obj b_vars]. rewrite <- Hbody. apply den_body_ext. intros y Hy. unfold beta.
        apply lookup_restrict. apply unique_In. unfold mvars.
        rewrite (local_vars_plain F cf sels Hpl) in Hy. apply in_flat_map in Hy. destruct Hy as [z [Hz Hy]].
        apply in_flat_map. exists z. split; [exact Hz | apply dir_vars_subset; exact Hy]. }
    (* wrappers *)
    intros v Hj.
    assert (Hcore : forall nn x, tree_den named okeys (STObject bs) nn x =
                                 (negb nn && vis_null x) || tree_den named okeys (STObject bs) true x).
    { intros nn x. cbn [tree_den negb andb orb]. reflexivity. }
    assert (Hnull : tree_den named okeys (STObject bs) true VNull = false).
    { destruct (tree_den named okeys (STObject bs) true VNull) eqn:Hx; [|reflexivity].
      apply (Hobj VNull eq_refl) in Hx. destruct Hx as [[|f] Hx]; discriminate. }
    destruct (wrap_den named okeys (STObject bs) Hcore Hnull t v) as [_ Hw]. rewrite Hw.
    split.
    - intros H.
      destruct (complete_exists (fun x => tree_den named okeys (STObject bs) true x) (fun f x => DEN f T sels x)) with (t := t) (v := v) as [f Hf].
      + intros f f' x Hle. apply DEN_le. exact Hle.
      + intros x Hjx Hx. apply Hobj; assumption.
      + exact Hj.
      + exact H.
      + exists f. rewrite complete_named. exact Hf.
    - intros [f H]. rewrite complete_named in H. revert H. apply complete_mono_json; [|exact Hj].
      intros _ x Hjx Hx. apply (Hobj x Hjx). exists f. exact Hx.
  Qed.
End PlainTree.
