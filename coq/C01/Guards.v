(** C01/C02 — the computable guards of the partial equivalence theorems (definitions only, so that
    Corr.v can evaluate them on every case without depending on a proof file):
    [plain_list]  fields only, pairwise distinct response keys, recursively;
    [flatS]       the flattened scope of a selection set for an object type (CollectFields order): the
                  fields it contributes, each with the directive lists of the fragments around it;
    [spread_names] all fragment spreads of a scope;
    [merge_free]  fragments allowed; per object type the flattened scope has pairwise distinct response
                  keys, no fragment is spread twice, recursively in sub-selections. *)
From V Require Import Base.Util Gql.Ast Writer.Wop Ts.TsType Ts.TsDen C01.Model C01.Spec.

Definition sel_key (x : selection) : str :=
  match x with
  | SField (Some a) _ _ _ _ => iname a
  | SField None n _ _ _ => iname n
  | _ => []
  end.
Definition sel_aliased (x : selection) : bool :=
  match x with SField (Some _) _ _ _ _ => true | _ => false end.
Definition sel_name (x : selection) : str := match x with SField _ n _ _ _ => iname n | _ => [] end.
Definition sel_ds (x : selection) : list directive := match x with SField _ _ _ ds _ => ds | _ => [] end.
Definition sel_sub (x : selection) : list selection :=
  match x with SField _ _ _ _ (Some ss) => selset_sels ss | _ => [] end.
Definition sel_has_sub (x : selection) : bool := match x with SField _ _ _ _ (Some _) => true | _ => false end.

(** fields only; an alias is neither [__typename] nor an alias OF [__typename]; response keys pairwise
    distinct; recursively *)
Fixpoint plain_sel (x : selection) : bool :=
  match x with
  | SField alias name _ _ sub =>
      match alias with
      | Some a => negb (str_eqb (iname a) TYPENAME) && negb (str_eqb (iname name) TYPENAME)
      | None => true
      end
      && match sub with
         | Some (SelSet _ l) =>
             (fix go (l : list selection) : bool :=
                match l with [] => true | y :: r => plain_sel y && go r end) l
             && nodup_keys (map sel_key l)
         | None => true
         end
  | _ => false
  end.
Definition plain_list (l : list selection) : bool := forallb plain_sel l && nodup_keys (map sel_key l).

Record fitem := mkFI { fi_sel : selection; fi_guards : list (list directive) }.
Definition add_guard (ds : list directive) (it : fitem) : fitem := mkFI (fi_sel it) (ds :: fi_guards it).
Definition is_field (x : selection) : bool := match x with SField _ _ _ _ _ => true | _ => false end.
Definition cond_applies (S : tsdoc) (o : str) (cond : option ident) : bool :=
  match cond with Some c => sp_applies S o (iname c) | None => true end.

Definition oapp {A} (a b : option (list A)) : option (list A) :=
  match a, b with Some x, Some y => Some (x ++ y) | _, _ => None end.

Fixpoint flatS (S : tsdoc) (F : list fragdef) (o : str) (fuel : nat) (sels : list selection) {struct fuel} : option (list fitem) :=
    match fuel with
    | O => None
    | Datatypes.S f =>
        (fix go (l : list selection) : option (list fitem) :=
           match l with
           | [] => Some []
           | x :: r =>
               oapp (match x with
                     | SField _ _ _ _ _ => Some [mkFI x []]
                     | SSpread _ n ds =>
                         match sp_frag F (iname n) with
                         | None => None
                         | Some fd =>
                             if sp_applies S o (iname (fr_cond fd))
                             then option_map (map (add_guard ds)) (flatS S F o f (selset_sels (fr_sel fd)))
                             else Some []
                         end
                     | SInline _ cond ds ss =>
                         if cond_applies S o cond
                         then option_map (map (add_guard ds)) (flatS S F o f (selset_sels ss))
                         else Some []
                     end) (go r)
           end) sels
    end.


Definition alias_ok (x : selection) : bool :=
  match x with
  | SField (Some a) name _ _ _ => negb (str_eqb (iname a) TYPENAME) && negb (str_eqb (iname name) TYPENAME)
  | _ => true
  end.

(** the names of all fragment spreads in a scope (through fragments and inline fragments, whatever their
    conditions; not through field sub-selections); [None]: out of fuel or undefined fragment *)
Fixpoint spread_names (F : list fragdef) (fuel : nat) (sels : list selection) {struct fuel} : option (list str) :=
  match fuel with
  | O => None
  | Datatypes.S f =>
      (fix go (l : list selection) : option (list str) :=
         match l with
         | [] => Some []
         | x :: r =>
             oapp (match x with
                   | SField _ _ _ _ _ => Some []
                   | SSpread _ n _ =>
                       match sp_frag F (iname n) with
                       | None => None
                       | Some fd => option_map (cons (iname n)) (spread_names F f (selset_sels (fr_sel fd)))
                       end
                   | SInline _ _ _ ss => spread_names F f (selset_sels ss)
                   end) (go r)
         end) sels
  end.

Definition nodup_frags (F : list fragdef) : bool := nodup_keys (map (fun f => iname (fr_name f)) F).

Fixpoint merge_free (S : tsdoc) (F : list fragdef) (cf : nat) (fuel : nat) (T : str) (sels : list selection)
  {struct fuel} : bool :=
  match fuel with
  | O => false
  | Datatypes.S g =>
      match spread_names F cf sels with None => false | Some ns => nodup_keys ns end
      && forallb (fun o =>
           match flatS S F o cf sels with
           | None => false
           | Some L =>
               nodup_keys (map (fun it => sel_key (fi_sel it)) L)
               && forallb (fun it =>
                    alias_ok (fi_sel it)
                    && (if sel_has_sub (fi_sel it) then
                          match sp_field_type S o (sel_name (fi_sel it)) with
                          | Some t => merge_free S F cf g (iname (ty_unwrapped t)) (sel_sub (fi_sel it))
                          | None => true
                          end
                        else true)) L
           end) (sp_possible S T)
  end.


(** [keys_ok]: a response key of the flattened scope is carried by exactly one item, or only by leaf
    selections (no sub-selection) of one field with one aliasing (so deep_merge only ever merges
    Leaf/Empty fields of one type) *)
Definition keys_ok (L : list fitem) : bool :=
  forallb (fun it =>
    let same := filter (fun it' => str_eqb (sel_key (fi_sel it')) (sel_key (fi_sel it))) L in
    Nat.eqb (length same) 1
    || forallb (fun it' => negb (sel_has_sub (fi_sel it'))
                           && str_eqb (sel_name (fi_sel it')) (sel_name (fi_sel it))
                           && Bool.eqb (sel_aliased (fi_sel it')) (sel_aliased (fi_sel it))) same) L.

(** [merge_free_ld]: like [merge_free], with [keys_ok] in place of "pairwise distinct keys": repeated
    LEAF keys are allowed *)
Fixpoint merge_free_ld (S : tsdoc) (F : list fragdef) (cf : nat) (fuel : nat) (T : str) (sels : list selection)
  {struct fuel} : bool :=
  match fuel with
  | O => false
  | Datatypes.S g =>
      match spread_names F cf sels with None => false | Some ns => nodup_keys ns end
      && forallb (fun o =>
           match flatS S F o cf sels with
           | None => false
           | Some L =>
               keys_ok L
               && forallb (fun it =>
                    alias_ok (fi_sel it)
                    && (if sel_has_sub (fi_sel it) then
                          match sp_field_type S o (sel_name (fi_sel it)) with
                          | Some t => merge_free_ld S F cf g (iname (ty_unwrapped t)) (sel_sub (fi_sel it))
                          | None => true
                          end
                        else true)) L
           end) (sp_possible S T)
  end.



(** the guards of a definition *)
Definition guard_plain (S : tsdoc) (d : execdef) : bool :=
  match def_target S d with Some (_, sels) => plain_list sels | None => false end.
Definition guard_merge_free (S : tsdoc) (D : opdoc) (d : execdef) : bool :=
  nodup_frags (sp_frags D)
  && match def_target S d with
     | Some (T, sels) => merge_free S (sp_frags D) (doc_fuel D) (doc_fuel D) T sels
     | None => false
     end.
Definition guard_merge_free_ld (S : tsdoc) (D : opdoc) (d : execdef) : bool :=
  nodup_frags (sp_frags D)
  && match def_target S d with
     | Some (T, sels) => merge_free_ld S (sp_frags D) (doc_fuel D) (doc_fuel D) T sels
     | None => false
     end.
