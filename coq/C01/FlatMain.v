(** C01/C02 — fragments, part 3: one branch of the model's tree denotes exactly the body of the
    specification's denotation for that (object, assignment), for a scope given by its flattened item
    list (generalises PlainMain.branch_eq from fields to items with fragment guards). *)
From V Require Import Base.Util Gql.Ast Writer.Wop Ts.TsType Ts.TsDen
     C01.Model C01.Spec C01.Guards C01.TsLemmas C01.TreeDen C01.Proofs C01.EnvDen C01.PlainBase C01.PlainCore
     C01.PlainMain C01.FlatCore C01.FlatSpec.

Lemma sel_key_unal x : sel_aliased x = false -> sel_key x = sel_name x.
Proof. destruct x as [[a|] name args ds sub | |]; try discriminate; reflexivity. Qed.

Lemma alias_ok_key x : alias_ok x = true -> str_eqb (sel_name x) TYPENAME = false -> str_eqb (sel_key x) TYPENAME = false.
Proof.
  destruct x as [[a|] name args ds sub | |]; cbn [alias_ok sel_key sel_name]; intros Hp Hn; try exact Hn.
  apply andb_true_iff in Hp. destruct Hp as [Hp _]. destruct (str_eqb (iname a) TYPENAME); [discriminate | reflexivity].
Qed.

Lemma alias_ok_typename x : alias_ok x = true -> str_eqb (sel_name x) TYPENAME = true -> sel_aliased x = false.
Proof.
  destruct x as [[a|] name args ds sub | |]; cbn [alias_ok sel_aliased sel_name]; intros Hp Hn; try reflexivity.
  rewrite Hn in Hp. cbn [negb] in Hp. rewrite andb_false_r in Hp. discriminate.
Qed.

Section FlatBranchEq.
  Variable S : tsdoc.
  Variable F : list fragdef.
  Variable cf : nat.
  Let named := sp_named S.
  Let okeys := sp_obj_keys S.
  Let choose := local_choices (Datatypes.S cf) F.
  Let DEN (f : nat) := den S F (Datatypes.S cf) choose false f.

  Variable R : list selection -> gty -> stree -> Prop.
  Variable b : branch.
  Let o := o_name (b_obj b).
  Variables (dd : option desc) (dp : pos) (dn : ident) (dimpls : list ident) (ddirs : list directive)
            (dfs : list fielddef) (dkw : keyword).
  Hypothesis Hlookup : sp_lookup S o = Some (TDObject dd dp dn dimpls ddirs dfs dkw).
  Let pf := fields_of dfs ++ [typename_meta].
  Let ks := SP_TYPENAME :: map (fun f => iname (fd_name f)) dfs.

  Variable sels : list selection.       (* the selection set *)
  Variable L : list fitem.              (* its flattened scope for [o] *)
  Let ikey (it : fitem) : str := sel_key (fi_sel it).
  Hypothesis Halias : forall it, In it L -> alias_ok (fi_sel it) = true.
  Hypothesis Hnd : NoDup (map ikey L).
  Hypothesis Hes : fst (collect S F (included (b_vars b)) o (Datatypes.S cf) sels []) = map entry_it (filter (einc b) L).

  Variable fs : list (bool * sfield).
  Hypothesis Hfs_l : forall it, In it L -> exists p, In p fs /\ fst p = sel_aliased (fi_sel it) /\ ifld_of R b pf it (snd p).
  Hypothesis Hfs_r : forall p, In p fs -> exists it, In it L /\ fst p = sel_aliased (fi_sel it) /\ ifld_of R b pf it (snd p).
  Hypothesis Hfl : forall p, In p fs -> field_leaves_ok (sp_leaf_ok S) (sp_obj_ok S) (snd p) = true.

  Hypothesis Hsub : forall it fd tree', In it L -> sel_has_sub (fi_sel it) = true -> einc b it = true ->
    str_eqb (sel_name (fi_sel it)) TYPENAME = false ->
    find (fun f => str_eqb (iname (fd_name f)) (sel_name (fi_sel it))) dfs = Some fd ->
    R (sel_sub (fi_sel it)) (gty_of (fd_type fd)) tree' ->
    leaves_ok (sp_leaf_ok S) (sp_obj_ok S) tree' = true ->
    sp_kind S (iname (ty_unwrapped (fd_type fd))) = LComposite /\
    forall v, json v = true ->
      (tree_den named okeys tree' false v = true <->
       exists f, complete (fun nm y => DEN f nm (sel_sub (fi_sel it)) y) (fd_type fd) v = true).

  Let es := map entry_it (filter (einc b) L).

  Lemma f_es_nodup : NoDup (map ce_key es).
  Proof. unfold es. rewrite map_map. apply (NoDup_map_filter ikey). exact Hnd. Qed.

  Lemma f_es_keys : keys_of es = map ikey (filter (einc b) L).
  Proof. rewrite keys_of_nodup by exact f_es_nodup. unfold es. rewrite map_map. reflexivity. Qed.

  Lemma f_es_entry it : In it L -> einc b it = true ->
    name_of es (ikey it) = sel_name (fi_sel it) /\ sub_of es (ikey it) = sel_sub (fi_sel it).
  Proof.
    intros Hx Hi.
    assert (Hin : In (entry_it it) es) by (unfold es; apply in_map; apply filter_In; split; assumption).
    pose proof (group_unique es (entry_it it) f_es_nodup Hin) as Hg.
    unfold name_of, sub_of. change (ce_key (entry_it it)) with (ikey it) in Hg. rewrite Hg.
    cbn [flat_map entry_it entry_of ce_name ce_sub]. rewrite app_nil_r. split; reflexivity.
  Qed.

  Lemma f_key_inc k : In k (map ikey (filter (einc b) L)) <-> exists it, In it L /\ einc b it = true /\ ikey it = k.
  Proof.
    rewrite in_map_iff. split.
    - intros [x [Hk Hx]]. apply filter_In in Hx. destruct Hx as [Hx Hi]. exists x. auto.
    - intros [x [Hx [Hi Hk]]]. exists x. split; [exact Hk | apply filter_In; split; assumption].
  Qed.

  Lemma einc_inc it : einc b it = true -> inc b (fi_sel it) = true.
  Proof. unfold einc. intros H. apply andb_true_iff in H. tauto. Qed.

  Lemma ifld_inc it f : einc b it = true -> ifld_of R b pf it f -> gfld_of R b pf (fi_sel it) f.
  Proof. intros Hi H. inversion H; [congruence | assumption]. Qed.

  Lemma ifld_skip it f : einc b it = false -> ifld_of R b pf it f -> f = SFEmpty (ikey it).
  Proof. intros Hi H. inversion H; [reflexivity | congruence]. Qed.

  Lemma f_inc_vis it (p : bool * sfield) : In it L -> einc b it = true -> fst p = sel_aliased (fi_sel it) ->
    ifld_of R b pf it (snd p) -> vis ks p = true.
  Proof.
    intros Hx Hi Ha Hf0. pose proof (ifld_inc it _ Hi Hf0) as Hf.
    unfold vis. rewrite Ha. destruct (sel_aliased (fi_sel it)) eqn:Hal; [reflexivity|]. cbn [orb].
    apply key_in_In. rewrite (gfld_of_name _ _ _ _ _ Hf), (sel_key_unal _ Hal).
    inversion Hf as [Hn | Hi' Htn | i fty Hi' Htn Hfind Hs | i fty t Hi' Htn Hfind Hs Hr]; subst.
    - pose proof (einc_inc it Hi). congruence.
    - left. destruct (str_eqb_spec (sel_name (fi_sel it)) TYPENAME) as [->|]; [reflexivity | discriminate].
    - right. destruct (find_fields_of dfs _ _ _ Hfind Htn) as [fd [_ [_ [Hin He]]]]. rewrite <- He. exact Hin.
    - right. destruct (find_fields_of dfs _ _ _ Hfind Htn) as [fd [_ [_ [Hin He]]]]. rewrite <- He. exact Hin.
  Qed.

  Lemma f_sp_field_type_found x fd :
    str_eqb (sel_name x) TYPENAME = false ->
    find (fun f => str_eqb (iname (fd_name f)) (sel_name x)) dfs = Some fd ->
    sp_field_type S o (sel_name x) = Some (fd_type fd).
  Proof.
    intros Htn Hf. unfold sp_field_type. change SP_TYPENAME with TYPENAME. rewrite Htn, Hlookup, Hf. reflexivity.
  Qed.

  Definition fvok (f : nat) (kv : str * val) : bool :=
    let fname := name_of es (fst kv) in
    match sp_field_type S o fname with
    | None => false
    | Some t =>
        complete (fun n x =>
          if str_eqb fname SP_TYPENAME then match x with VStr y => str_eqb y o | _ => false end
          else match sp_kind S n with
               | LComposite => DEN f n (sub_of es (fst kv)) x
               | k => scalar_den k x
               end) t (snd kv)
    end.

  Lemma fvok_mono f f' kv : f <= f' -> fvok f kv = true -> fvok f' kv = true.
  Proof.
    intros Hle. unfold fvok. cbv zeta.
    destruct (sp_field_type S o (name_of es (fst kv))); [|discriminate].
    apply complete_mono. intros n x Hx.
    destruct (str_eqb (name_of es (fst kv)) SP_TYPENAME); [exact Hx|].
    destruct (sp_kind S n); try exact Hx. eapply den_fuel_le; eauto.
  Qed.

  Lemma f_field_value it (p : bool * sfield) kvs v :
    In it L -> In p fs -> einc b it = true -> ifld_of R b pf it (snd p) ->
    assoc (ikey it) kvs = Some v -> json v = true ->
    (field_den named okeys o (snd p) kvs = true <-> exists f, fvok f (ikey it, v) = true).
  Proof.
    intros Hx Hp Hi Hf0 Ha Hj. pose proof (ifld_inc it _ Hi Hf0) as Hf.
    pose proof (Halias it Hx) as Hal0. pose proof (Hfl p Hp) as Hlv.
    destruct (f_es_entry it Hx Hi) as [Hname Hsubs].
    unfold fvok. cbv zeta. cbn [fst snd]. rewrite Hname, Hsubs.
    unfold ikey in Ha.
    inversion Hf as [Hn | Hi' Htn | i fty Hi' Htn Hfind Hs | i fty t Hi' Htn Hfind Hs Hr]; subst.
    - pose proof (einc_inc it Hi). congruence.
    - (* __typename *)
      cbn [field_den]. rewrite Ha.
      rewrite (sel_key_unal _ (alias_ok_typename _ Hal0 Htn)), Htn.
      unfold sp_field_type. change SP_TYPENAME with TYPENAME. rewrite Htn.
      unfold complete. cbn [complete_nn iname].
      split.
      + intros Hv. exists 0. destruct v; try discriminate. cbn [is_null negb andb]. rewrite str_eqb_sym. exact Hv.
      + intros [_ Hv]. destruct v; try discriminate. cbn [is_null negb andb] in Hv. rewrite str_eqb_sym. exact Hv.
    - (* leaf *)
      cbn [field_den]. rewrite Ha.
      rewrite (alias_ok_key _ Hal0 Htn).
      destruct (find_fields_of dfs _ _ _ Hfind Htn) as [fd [Hfd [-> _]]].
      rewrite (f_sp_field_type_found _ fd Htn Hfd).
      change SP_TYPENAME with TYPENAME. rewrite Htn.
      assert (Hok : sp_leaf_ok S (iname (ty_unwrapped (fd_type fd))) = true).
      { match goal with He : _ = snd p |- _ => rewrite <- He in Hlv end. cbn [field_leaves_ok] in Hlv.
        rewrite (alias_ok_key _ Hal0 Htn) in Hlv. cbn [orb] in Hlv. rewrite gty_named_of in Hlv. exact Hlv. }
      destruct (gden_complete named (sp_named_null S) (fd_type fd) v) as [_ Hg]. rewrite Hg.
      split.
      + intros Hv. exists 0. rewrite complete_named in Hv. rewrite complete_named.
        revert Hv. apply complete_mono. intros _ y Hy.
        unfold named, sp_named in Hy. unfold sp_leaf_ok in Hok.
        destruct (sp_kind S (iname (ty_unwrapped (fd_type fd)))); try discriminate; exact Hy.
      + intros [f Hv]. rewrite complete_named in Hv. rewrite complete_named.
        revert Hv. apply complete_mono. intros _ y Hy.
        unfold named, sp_named. unfold sp_leaf_ok in Hok.
        destruct (sp_kind S (iname (ty_unwrapped (fd_type fd)))); try discriminate; exact Hy.
    - (* object *)
      cbn [field_den]. rewrite Ha.
      destruct (find_fields_of dfs _ _ _ Hfind Htn) as [fd [Hfd [-> _]]].
      rewrite (f_sp_field_type_found _ fd Htn Hfd).
      change SP_TYPENAME with TYPENAME. rewrite Htn.
      assert (Hlt : leaves_ok (sp_leaf_ok S) (sp_obj_ok S) t = true).
      { match goal with He : _ = snd p |- _ => rewrite <- He in Hlv end. exact Hlv. }
      destruct (Hsub it fd t Hx Hs Hi Htn Hfd Hr Hlt) as [Hkind Hiff].
      rewrite (Hiff v Hj).
      split.
      + intros [f Hv]. exists f. rewrite complete_named. rewrite complete_named in Hv.
        revert Hv. apply complete_mono. intros _ y Hy. rewrite Hkind. exact Hy.
      + intros [f Hv]. exists f. rewrite complete_named. rewrite complete_named in Hv.
        revert Hv. apply complete_mono. intros _ y Hy. rewrite Hkind in Hy. exact Hy.
  Qed.

  Theorem flat_branch_eq kvs : json (VObj kvs) = true ->
    (branch_den named okeys (mkBranch o (un_of fs) (al_of fs)) (VObj kvs) = true <->
     exists f, nodup_keys (map fst kvs) = true /\ den_body S F cf f o (b_vars b) sels kvs = true).
  Proof.
    intros Hj.
    assert (Hok : okeys o = Some ks) by (unfold okeys, sp_obj_keys; rewrite Hlookup; reflexivity).
    rewrite (branch_den_char named okeys o fs ks kvs Hok).
    assert (Hbody : forall f, den_body S F cf f o (b_vars b) sels kvs = true <->
              ((forall k, In k (map fst kvs) -> In k (map ikey (filter (einc b) L))) /\
               (forall k, In k (map ikey (filter (einc b) L)) -> In k (map fst kvs))) /\
              (forall kv, In kv kvs -> fvok f kv = true)).
    { intros f. unfold den_body. cbv zeta. rewrite Hes. fold es. rewrite andb_true_iff, same_keys_spec, f_es_keys, forallb_forall.
      reflexivity. }
    split.
    - intros [Hnd1 [Hcov Hfd]].
      assert (Hndp : NoDup (map fst kvs)) by (apply nodup_keys_NoDup; exact Hnd1).
      assert (Hkey : forall k v, In (k, v) kvs -> exists it p, In it L /\ In p fs /\ einc b it = true /\ ikey it = k /\
                                   fst p = sel_aliased (fi_sel it) /\ ifld_of R b pf it (snd p) /\ vis ks p = true).
      { intros k v Hin.
        assert (Hk : In k (map fst kvs)) by (apply in_map_iff; exists (k, v); split; [reflexivity | exact Hin]).
        destruct (Hcov k Hk) as [p [Hp [Hv Hn]]].
        destruct (Hfs_r p Hp) as [it [Hx [Ha Hf]]].
        assert (Hkx : ikey it = k) by (unfold ikey; rewrite <- (ifld_of_name _ _ _ _ _ Hf); exact Hn).
        exists it, p. repeat split; try assumption.
        destruct (einc b it) eqn:Hi; [reflexivity|]. exfalso.
        pose proof (Hfd p Hp Hv) as Hd. rewrite (ifld_skip it _ Hi Hf) in Hd. cbn [field_den] in Hd.
        rewrite Hkx, (in_assoc_nodup k v kvs Hndp Hin) in Hd.
        pose proof (json_obj_in kvs Hj (k, v) Hin) as Hjv. cbn [snd] in Hjv. destruct v; discriminate. }
      destruct (uniform_fuel (fun f kv => fvok f kv = true) kvs) as [f Hf].
      { intros f f' kv Hle. apply fvok_mono. exact Hle. }
      { intros [k v] Hin. destruct (Hkey k v Hin) as [it [p [Hx [Hp [Hi [Hk [Ha [Hfl' Hv]]]]]]]].
        pose proof (Hfd p Hp Hv) as Hd.
        pose proof (in_assoc_nodup k v kvs Hndp Hin) as Hak. rewrite <- Hk in Hak.
        pose proof (json_obj_in kvs Hj (k, v) Hin) as Hjv. cbn [snd] in Hjv.
        destruct (proj1 (f_field_value it p kvs v Hx Hp Hi Hfl' Hak Hjv) Hd) as [f Hf]. exists f. rewrite <- Hk. exact Hf. }
      exists f. split; [exact Hnd1|]. apply Hbody. split; [split|].
      + intros k Hk. apply assoc_in_keys in Hk. destruct Hk as [v Hk]. apply assoc_in in Hk.
        destruct (Hkey k v Hk) as [it [p [Hx [_ [Hi [Hkx _]]]]]]. apply f_key_inc. exists it. auto.
      + intros k Hk. apply f_key_inc in Hk. destruct Hk as [it [Hx [Hi Hkx]]].
        destruct (Hfs_l it Hx) as [p [Hp [Ha Hfl']]].
        pose proof (Hfd p Hp (f_inc_vis it p Hx Hi Ha Hfl')) as Hd.
        apply assoc_in_keys. rewrite <- Hkx. unfold ikey.
        pose proof (ifld_inc it _ Hi Hfl') as Hg.
        inversion Hg as [Hn | Hi' Htn | i fty Hi' Htn Hfind Hs | i fty t Hi' Htn Hfind Hs Hr]; subst;
          [pose proof (einc_inc it Hi); congruence | | |];
          match goal with He : _ = snd p |- _ => rewrite <- He in Hd end; cbn [field_den] in Hd;
          destruct (assoc (sel_key (fi_sel it)) kvs) as [v|]; try discriminate; exists v; reflexivity.
      + exact Hf.
    - intros [f [Hnd1 Hb]]. apply Hbody in Hb. destruct Hb as [[Hk1 Hk2] Hv].
      assert (Hndp : NoDup (map fst kvs)) by (apply nodup_keys_NoDup; exact Hnd1).
      split; [exact Hnd1|]. split.
      + intros k Hk. apply Hk1 in Hk. apply f_key_inc in Hk. destruct Hk as [it [Hx [Hi Hkx]]].
        destruct (Hfs_l it Hx) as [p [Hp [Ha Hfl']]].
        exists p. split; [exact Hp|]. split; [exact (f_inc_vis it p Hx Hi Ha Hfl')|].
        rewrite (ifld_of_name _ _ _ _ _ Hfl'). exact Hkx.
      + intros p Hp Hvis. destruct (Hfs_r p Hp) as [it [Hx [Ha Hfl']]].
        destruct (einc b it) eqn:Hi.
        * assert (Hk : In (ikey it) (map fst kvs)) by (apply Hk2; apply f_key_inc; exists it; auto).
          apply assoc_in_keys in Hk. destruct Hk as [v Hak].
          pose proof (assoc_in _ _ _ Hak) as Hin.
          pose proof (json_obj_in kvs Hj _ Hin) as Hjv. cbn [snd] in Hjv.
          apply (proj2 (f_field_value it p kvs v Hx Hp Hi Hfl' Hak Hjv)). exists f. apply Hv. exact Hin.
        * rewrite (ifld_skip it _ Hi Hfl'). cbn [field_den].
          destruct (assoc (ikey it) kvs) as [v|] eqn:Hak; [|reflexivity]. exfalso.
          assert (Hk : In (ikey it) (map fst kvs)) by (apply assoc_in_keys; exists v; exact Hak).
          apply Hk1 in Hk. apply f_key_inc in Hk. destruct Hk as [it' [Hx' [Hi' Hkx']]].
          assert (it' = it) by (eapply (NoDup_map_inj ikey); eauto). subst it'. congruence.
  Qed.
End FlatBranchEq.
