(** C01/C02 — fragments, part 2: the specification side.  When no fragment is spread twice in a scope,
    CollectFields returns exactly the included items of the flattened scope, and the model's boolean
    variables contain the specification's local variables. *)
From V Require Import Base.Util Gql.Ast Writer.Wop Ts.TsType Ts.TsDen
     C01.Model C01.Spec C01.Guards C01.TsLemmas C01.TreeDen C01.Proofs C01.EnvDen C01.PlainBase C01.PlainCore C01.FlatCore.

Lemma NoDup_app_l {A} (l l' : list A) : NoDup (l ++ l') -> NoDup l.
Proof.
  induction l as [|a l IH]; cbn [app]; intros H; [constructor|].
  inversion H as [|? ? Hn Hr]; subst. constructor; [|apply IH; exact Hr].
  intros Hin. apply Hn. apply in_or_app. left. exact Hin.
Qed.
Lemma NoDup_app_r {A} (l l' : list A) : NoDup (l ++ l') -> NoDup l'.
Proof. induction l as [|a l IH]; cbn [app]; intros H; [exact H|]. inversion H; subst. apply IH. assumption. Qed.
Lemma NoDup_app_disj {A} (l l' : list A) : NoDup (l ++ l') -> forall x, In x l -> In x l' -> False.
Proof.
  induction l as [|a l IH]; cbn [app]; intros H x Hx Hx'; [destruct Hx|].
  inversion H as [|? ? Hn Hr]; subst. destruct Hx as [<-|Hx]; [apply Hn; apply in_or_app; right; exact Hx' | eapply IH; eauto].
Qed.

Definition names_sel (F : list fragdef) (f : nat) (x : selection) : option (list str) :=
  match x with
  | SField _ _ _ _ _ => Some []
  | SSpread _ n _ =>
      match sp_frag F (iname n) with
      | None => None
      | Some fd => option_map (cons (iname n)) (spread_names F f (selset_sels (fr_sel fd)))
      end
  | SInline _ _ _ ss => spread_names F f (selset_sels ss)
  end.

Lemma spread_names_cons F f x r :
  spread_names F (Datatypes.S f) (x :: r) = oapp (names_sel F f x) (spread_names F (Datatypes.S f) r).
Proof. reflexivity. Qed.

Definition einc_sg (sg : asg) (it : fitem) : bool :=
  included sg (sel_ds (fi_sel it)) && forallb (included sg) (fi_guards it).
Definition entry_it (it : fitem) : centry := entry_of (fi_sel it).

Lemma filter_guard sg ds L :
  map entry_it (filter (einc_sg sg) (map (add_guard ds) L)) =
  if included sg ds then map entry_it (filter (einc_sg sg) L) else [].
Proof.
  induction L as [|it L IH]; cbn [map filter]; [destruct (included sg ds); reflexivity|].
  unfold einc_sg at 1. cbn [add_guard fi_sel fi_guards forallb].
  destruct (included sg ds) eqn:Hd; cbn [andb].
  - fold (einc_sg sg it). destruct (einc_sg sg it); cbn [map]; rewrite IH; reflexivity.
  - rewrite andb_false_r. exact IH.
Qed.

Section CollectFlat.
  Variable S : tsdoc.
  Variable F : list fragdef.
  Variable o : str.
  Variable sg : asg.

  Lemma collect_flat : forall fuel sels vis L g ns,
    flatS S F o fuel sels = Some L -> spread_names F g sels = Some ns -> NoDup ns ->
    (forall n, In n ns -> ~ In n vis) ->
    exists vis', collect S F (included sg) o fuel sels vis = (map entry_it (filter (einc_sg sg) L), vis') /\
                 (forall m, In m vis' -> In m vis \/ In m ns).
  Proof.
    induction fuel as [|f IH]; intros sels vis L g ns HL Hns Hnd Hdis; [discriminate|].
    destruct g as [|g]; [discriminate|].
    revert vis L ns HL Hns Hnd Hdis. induction sels as [|x r IHr]; intros vis L ns HL Hns Hnd Hdis.
    - inversion HL. subst L. exists vis. split; [reflexivity | intros m Hm; left; exact Hm].
    - rewrite flatS_cons in HL. rewrite spread_names_cons in Hns. rewrite collect_cons.
      destruct (flat_sel S F o f x) as [a|] eqn:Ha; [|discriminate].
      destruct (flatS S F o (Datatypes.S f) r) as [Lr|] eqn:HLr; [|discriminate].
      destruct (names_sel F g x) as [nx|] eqn:Hnx; [|discriminate].
      destruct (spread_names F (Datatypes.S g) r) as [nr|] eqn:Hnr; [|discriminate].
      cbn [oapp] in HL, Hns. inversion HL. inversion Hns. subst L ns.
      assert (Hndx : NoDup nx) by (eapply NoDup_app_l; exact Hnd).
      assert (Hndr : NoDup nr) by (eapply NoDup_app_r; exact Hnd).
      assert (Hx : exists vis1, collect_sel S F o (included sg) f x vis = (map entry_it (filter (einc_sg sg) a), vis1) /\
                     (forall m, In m vis1 -> In m vis \/ In m nx)).
      { destruct x as [al nm ar ds sub | p nm ds | p cond ds ss]; cbn [collect_sel flat_sel names_sel] in *.
        - inversion Ha. subst a. cbn [filter]. unfold einc_sg at 1. cbn [fi_sel fi_guards forallb sel_ds]. rewrite andb_true_r.
          exists vis. destruct (included sg ds); cbn [map]; (split; [|intros m Hm; left; exact Hm]); [|reflexivity].
          unfold entry_it, entry_of. cbn [fi_sel]. destruct al; destruct sub; reflexivity.
        - destruct (sp_frag F (iname nm)) as [fd|]; [|discriminate].
          destruct (spread_names F g (selset_sels (fr_sel fd))) as [n0|] eqn:Hn0; [|discriminate].
          inversion Hnx. subst nx.
          assert (Hnv : ~ In (iname nm) vis) by (apply Hdis; left; reflexivity).
          assert (Hsm : smem (iname nm) vis = false).
          { destruct (smem (iname nm) vis) eqn:Hq; [|reflexivity]. exfalso. apply Hnv. apply smem_In. exact Hq. }
          destruct (sp_applies S o (iname (fr_cond fd))).
          + destruct (flatS S F o f (selset_sels (fr_sel fd))) as [L0|] eqn:HL0; [|discriminate].
            inversion Ha. subst a. rewrite filter_guard.
            destruct (included sg ds).
            * rewrite Hsm. inversion Hndx as [|? ? Hn1 Hn2]; subst.
              destruct (IH _ (iname nm :: vis) _ _ _ HL0 Hn0 Hn2) as [vis1 [Hc Hv]].
              { intros m Hm [<-|Hin]; [exact (Hn1 Hm)|]. apply (Hdis m); [right; apply in_or_app; left; exact Hm | exact Hin]. }
              exists vis1. split; [exact Hc|]. intros m Hm. destruct (Hv m Hm) as [[<-|H1]|H1];
                [right; left; reflexivity | left; exact H1 | right; right; exact H1].
            * exists vis. split; [reflexivity | intros m Hm; left; exact Hm].
          + inversion Ha. subst a. cbn [filter map].
            destruct (included sg ds).
            * rewrite Hsm. exists (iname nm :: vis). split; [reflexivity|].
              intros m [<-|Hm]; [right; left; reflexivity | left; exact Hm].
            * exists vis. split; [reflexivity | intros m Hm; left; exact Hm].
        - destruct (cond_applies S o cond) eqn:Hap.
          + destruct (flatS S F o f (selset_sels ss)) as [L0|] eqn:HL0; [|discriminate].
            inversion Ha. subst a. rewrite filter_guard.
            unfold cond_applies in Hap.
            destruct (included sg ds).
            * rewrite Hap.
              destruct (IH _ vis _ _ _ HL0 Hnx Hndx) as [vis1 [Hc Hv]].
              { intros m Hm. apply Hdis. apply in_or_app. left. exact Hm. }
              exists vis1. split; [exact Hc | exact Hv].
            * exists vis. split; [reflexivity | intros m Hm; left; exact Hm].
          + inversion Ha. subst a. cbn [filter map]. unfold cond_applies in Hap.
            exists vis. split; [|intros m Hm; left; exact Hm].
            destruct (included sg ds); [rewrite Hap|]; reflexivity. }
      destruct Hx as [vis1 [Hc1 Hv1]]. rewrite Hc1.
      destruct (IHr vis1 Lr nr eq_refl eq_refl Hndr) as [vis2 [Hc2 Hv2]].
      { intros m Hm Hin. destruct (Hv1 m Hin) as [H1|H1].
        - apply (Hdis m); [apply in_or_app; right; exact Hm | exact H1].
        - apply (NoDup_app_disj _ _ Hnd m H1 Hm). }
      rewrite Hc2. exists vis2. split.
      + rewrite filter_app, map_app. reflexivity.
      + intros m Hm. destruct (Hv2 m Hm) as [H1|H1]; [|right; apply in_or_app; right; exact H1].
        destruct (Hv1 m H1) as [H2|H2]; [left; exact H2 | right; apply in_or_app; left; exact H2].
  Qed.
End CollectFlat.

(** * the model's boolean variables contain the specification's local variables *)
Definition vstep (F : list fragdef) (f : nat) (x : selection) (st : list str * list str) : res (list str * list str) :=
  let st := (fst st ++ dirs_variables (sel_dirs x), snd st) in
  match x with
  | SField _ _ _ _ _ => Ok st
  | SSpread _ n _ =>
      if mem (iname n) (snd st) then Ok st
      else
        let st := (fst st, snd st ++ [iname n]) in
        match frag_get F (iname n) with
        | None => Err ETypeSystem
        | Some fd => visit_vars f F (selset_sels (fr_sel fd)) st
        end
  | SInline _ _ _ ss => visit_vars f F (selset_sels ss) st
  end.

Lemma visit_vars_cons F f x r st :
  visit_vars (Datatypes.S f) F (x :: r) st =
  match vstep F f x st with Ok st1 => visit_vars (Datatypes.S f) F r st1 | Err e => Err e end.
Proof.
  cbn [visit_vars fold_left bind]. fold (vstep F f x st).
  destruct (vstep F f x st) as [st1|e]; [reflexivity|].
  induction r as [|y r IH]; [reflexivity | cbn [fold_left bind]; exact IH].
Qed.

Lemma visit_vars_nil F f st : visit_vars (Datatypes.S f) F [] st = Ok st.
Proof. reflexivity. Qed.

Lemma local_vars_cons' F cf x r :
  local_vars (Datatypes.S cf) F (x :: r) = local_vars_sel F cf x ++ local_vars (Datatypes.S cf) F r.
Proof. reflexivity. Qed.

Lemma visit_vars_flat F : nodup_frags F = true -> forall n sels st st' g ns,
  visit_vars n F sels st = Ok st' -> spread_names F g sels = Some ns -> NoDup ns ->
  (forall m, In m ns -> ~ In m (snd st)) ->
  (forall x, In x (fst st) -> In x (fst st')) /\
  (forall cf x, In x (local_vars cf F sels) -> In x (fst st')) /\
  (forall m, In m (snd st') -> In m (snd st) \/ In m ns).
Proof.
  intros HF. induction n as [|f IH]; intros sels st st' g ns H Hns Hnd Hdis; [discriminate|].
  destruct g as [|g]; [discriminate|].
  revert st st' ns H Hns Hnd Hdis. induction sels as [|x r IHr]; intros st st' ns H Hns Hnd Hdis.
  - rewrite visit_vars_nil in H. inversion H. subst st'. split; [auto|]. split; [|auto].
    intros [|cf] y Hy; destruct Hy.
  - rewrite visit_vars_cons in H. rewrite spread_names_cons in Hns.
    destruct (vstep F f x st) as [st1|e] eqn:Hst1; [|discriminate].
    destruct (names_sel F g x) as [nx|] eqn:Hnx; [|discriminate].
    destruct (spread_names F (Datatypes.S g) r) as [nr|] eqn:Hnr; [|discriminate].
    cbn [oapp] in Hns. inversion Hns. subst ns.
    assert (Hndx : NoDup nx) by (eapply NoDup_app_l; exact Hnd).
    assert (Hndr : NoDup nr) by (eapply NoDup_app_r; exact Hnd).
    assert (Hx : (forall y, In y (fst st) -> In y (fst st1)) /\
                 (forall cf y, In y (local_vars_sel F cf x) -> In y (fst st1)) /\
                 (forall m, In m (snd st1) -> In m (snd st) \/ In m nx)).
    { unfold vstep in Hst1. cbv zeta in Hst1.
      destruct x as [al nm ar ds sub | p nm ds | p cond ds ss]; cbn [sel_dirs fst snd local_vars_sel names_sel] in *.
      - inversion Hst1. subst st1. cbn [fst snd]. split; [intros y Hy; apply in_or_app; left; exact Hy|].
        split; [intros cf y Hy; apply in_or_app; right; apply dir_vars_subset; exact Hy | intros m Hm; left; exact Hm].
      - rewrite (frag_get_sp_frag F _ HF) in Hst1.
        destruct (sp_frag F (iname nm)) as [fd|]; [|discriminate].
        destruct (spread_names F g (selset_sels (fr_sel fd))) as [n0|] eqn:Hn0; [|discriminate].
        inversion Hnx. subst nx.
        assert (Hnv : mem (iname nm) (snd st) = false).
        { destruct (mem (iname nm) (snd st)) eqn:Hq; [|reflexivity]. exfalso.
          apply (Hdis (iname nm)); [left; reflexivity | apply mem_In; exact Hq]. }
        rewrite Hnv in Hst1. inversion Hndx as [|? ? Hn1 Hn2]; subst.
        destruct (IH _ _ _ _ _ Hst1 Hn0 Hn2) as [Ha [Hb Hc]].
        { cbn [snd]. intros m Hm Hin. apply in_app_or in Hin. destruct Hin as [Hin|[<-|[]]].
          - apply (Hdis m); [right; apply in_or_app; left; exact Hm | exact Hin].
          - exact (Hn1 Hm). }
        cbn [fst snd] in *. split; [intros y Hy; apply Ha; apply in_or_app; left; exact Hy|]. split.
        + intros cf y Hy. apply in_app_or in Hy. destruct Hy as [Hy|Hy].
          * apply Ha. apply in_or_app. right. apply dir_vars_subset. exact Hy.
          * apply (Hb cf). exact Hy.
        + intros m Hm. destruct (Hc m Hm) as [H1|H1]; [|right; right; exact H1].
          apply in_app_or in H1. destruct H1 as [H1|[<-|[]]]; [left; exact H1 | right; left; reflexivity].
      - destruct (IH _ _ _ _ _ Hst1 Hnx Hndx) as [Ha [Hb Hc]].
        { cbn [snd]. intros m Hm. apply Hdis. apply in_or_app. left. exact Hm. }
        cbn [fst snd] in *. split; [intros y Hy; apply Ha; apply in_or_app; left; exact Hy|]. split.
        + intros cf y Hy. apply in_app_or in Hy. destruct Hy as [Hy|Hy].
          * apply Ha. apply in_or_app. right. apply dir_vars_subset. exact Hy.
          * apply (Hb cf). exact Hy.
        + exact Hc. }
    destruct Hx as [Hx1 [Hx2 Hx3]].
    destruct (IHr st1 st' nr H eq_refl Hndr) as [Hr1 [Hr2 Hr3]].
    { intros m Hm Hin. destruct (Hx3 m Hin) as [H1|H1].
      - apply (Hdis m); [apply in_or_app; right; exact Hm | exact H1].
      - apply (NoDup_app_disj _ _ Hnd m H1 Hm). }
    split; [intros y Hy; apply Hr1; apply Hx1; exact Hy|]. split.
    + intros [|cf] y Hy; [destruct Hy|]. rewrite local_vars_cons' in Hy. apply in_app_or in Hy.
      destruct Hy as [Hy|Hy]; [apply Hr1; apply (Hx2 cf); exact Hy | apply (Hr2 (Datatypes.S cf)); exact Hy].
    + intros m Hm. destruct (Hr3 m Hm) as [H1|H1]; [|right; apply in_or_app; right; exact H1].
      destruct (Hx3 m H1) as [H2|H2]; [left; exact H2 | right; apply in_or_app; left; exact H2].
Qed.
