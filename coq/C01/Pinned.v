(** Pinned statements of the C01 property theorems: compiled on every check. *)
From V Require Import Base.Util Gql.Ast Writer.Wop Ts.TsType Ts.TsDen
     C01.Model C01.Spec C01.Guards C01.Corr C01.Witness C01.Refuted C01.TreeDen C01.EnvDen
     C01.PlainBase C01.PlainCore C01.PlainSchema C01.PlainFinal C01.FlatCore C01.FlatThm C01.FlatFinal C01.DupThm C01.DupFinal C01.Properties.

Check (C01_exec_in_ref_local : forall S F cf sg fuel T sels v,
  exec_b S F cf sg fuel T sels v = true -> ref_local_b S F cf fuel T sels v = true).
Print Assumptions C01_exec_in_ref_local.
Check (C01_merge_unsafe_refuted :
  guard_safe w_schema w_merge (first_def w_merge) = false /\
  exec_b w_schema [] 8 [(s "v", true)] 8 (s "Query") (sels_of w_merge) v_a_empty = true /\
  has_type_b (schema_env w_schema) 40 (type_of w_merge) v_a_empty = Some false).
Print Assumptions C01_merge_unsafe_refuted.
Check (C01_full_statement_refuted :
  ~ C01_response_admitted w_schema w_merge (first_def w_merge) (type_of w_merge)).
Print Assumptions C01_full_statement_refuted.
Check (C01_emitted_type_denotes_tree : forall S t v,
  leaves_ok (sp_leaf_ok S) (sp_obj_ok S) t = true ->
  (In_type (schema_env S) (generate_selection_tree_type NS t) v
   <-> tree_den (sp_named S) (sp_obj_keys S) t false v = true)).
Print Assumptions C01_emitted_type_denotes_tree.
Check (C01_has_type_fuel_monotone : forall E f f' t v b,
  f <= f' -> has_type_b E f t v = Some b -> has_type_b E f' t v = Some b).
Print Assumptions C01_has_type_fuel_monotone.
Check (C01_emit_eq_ref_local_partial : forall S D d T sels t v,
  nodup_types S = true ->
  def_target S d = Some (T, sels) ->
  plain_list sels = true ->
  emit_type default_options S D d = Ok t ->
  (forall tree, def_tree S D d = Ok tree -> tree_ok S tree = true) ->
  json v = true ->
  (In_type (schema_env S) t v <-> exists f, ref_local_b S (sp_frags D) (doc_fuel D) f T sels v = true)).
Print Assumptions C01_emit_eq_ref_local_partial.
Check (C01_response_admitted_partial : forall S D d T sels t sg f v,
  nodup_types S = true -> def_target S d = Some (T, sels) -> plain_list sels = true ->
  emit_type default_options S D d = Ok t ->
  (forall tree, def_tree S D d = Ok tree -> tree_ok S tree = true) ->
  json v = true ->
  exec_b S (sp_frags D) (doc_fuel D) sg f T sels v = true ->
  In_type (schema_env S) t v).
Print Assumptions C01_response_admitted_partial.
Check (C01_partial_guards_satisfiable :
  nodup_types w_schema = true /\
  plain_list (sels_of w_plain) = true /\
  (exists tree, def_tree w_schema w_plain (first_def w_plain) = Ok tree /\ tree_ok w_schema tree = true) /\
  def_target w_schema (first_def w_plain) = Some (s "Query", sels_of w_plain) /\
  exists v, json v = true /\
            exec_b w_schema [] 8 [(s "v", false); (s "w", false)] 8 (s "Query") (sels_of w_plain) v = true).
Print Assumptions C01_partial_guards_satisfiable.
Check (C01_emit_eq_ref_local_merge_free : forall S D d T sels t v,
  nodup_types S = true ->
  def_target S d = Some (T, sels) ->
  guard_merge_free S D d = true ->
  emit_type default_options S D d = Ok t ->
  (forall tree, def_tree S D d = Ok tree -> tree_ok S tree = true) ->
  json v = true ->
  (In_type (schema_env S) t v <-> exists f, ref_local_b S (sp_frags D) (doc_fuel D) f T sels v = true)).
Print Assumptions C01_emit_eq_ref_local_merge_free.
Check (C01_response_admitted_merge_free : forall S D d T sels t sg f v,
  nodup_types S = true -> def_target S d = Some (T, sels) -> guard_merge_free S D d = true ->
  emit_type default_options S D d = Ok t ->
  (forall tree, def_tree S D d = Ok tree -> tree_ok S tree = true) ->
  json v = true ->
  exec_b S (sp_frags D) (doc_fuel D) sg f T sels v = true ->
  In_type (schema_env S) t v).
Print Assumptions C01_response_admitted_merge_free.
Check (C01_merge_free_guards_satisfiable :
  nodup_types w_schema = true /\
  guard_merge_free w_schema w_frag (first_def w_frag) = true /\
  plain_list (sels_of w_frag) = false /\
  (exists tree, def_tree w_schema w_frag (first_def w_frag) = Ok tree /\ tree_ok w_schema tree = true) /\
  exists v, json v = true /\
            exec_b w_schema (sp_frags w_frag) 8 [(s "v", true); (s "w", false)] 8 (s "Query") (sels_of w_frag) v = true).
Print Assumptions C01_merge_free_guards_satisfiable.
Check (C01_emit_eq_ref_local_merge_free_ld : forall S D d T sels t v,
  nodup_types S = true ->
  def_target S d = Some (T, sels) ->
  guard_merge_free_ld S D d = true ->
  emit_type default_options S D d = Ok t ->
  (forall tree, def_tree S D d = Ok tree -> tree_ok S tree = true) ->
  json v = true ->
  (In_type (schema_env S) t v <-> exists f, ref_local_b S (sp_frags D) (doc_fuel D) f T sels v = true)).
Print Assumptions C01_emit_eq_ref_local_merge_free_ld.
Check (C01_response_admitted_merge_free_ld : forall S D d T sels t sg f v,
  nodup_types S = true -> def_target S d = Some (T, sels) -> guard_merge_free_ld S D d = true ->
  emit_type default_options S D d = Ok t ->
  (forall tree, def_tree S D d = Ok tree -> tree_ok S tree = true) ->
  json v = true ->
  exec_b S (sp_frags D) (doc_fuel D) sg f T sels v = true ->
  In_type (schema_env S) t v).
Print Assumptions C01_response_admitted_merge_free_ld.
Check (C01_merge_free_ld_guards_satisfiable :
  nodup_types w_schema = true /\
  guard_merge_free_ld w_schema w_lit (first_def w_lit) = true /\
  guard_merge_free w_schema w_lit (first_def w_lit) = false /\
  (exists tree, def_tree w_schema w_lit (first_def w_lit) = Ok tree /\ tree_ok w_schema tree = true) /\
  exists v, json v = true /\
            exec_b w_schema (sp_frags w_lit) 8 [] 8 (s "Query") (sels_of w_lit) v = true).
Print Assumptions C01_merge_free_ld_guards_satisfiable.
