(** C01/C02 — the partial theorems on emitted types: for a PLAIN selection set, the TypeScript type the
    model emits (read with the schema declaration file) admits exactly Ref_local; so it admits every
    Execute_spec response (C01) and nothing outside Ref_local (C02).  Plus the root-type lemma that
    carries the statement to operation definitions, and non-vacuity examples. *)
From V Require Import Base.Util Gql.Ast Writer.Wop Ts.TsType Ts.TsDen
     C01.Model C01.Spec C01.Guards C01.Corr C01.Witness C01.TsLemmas C01.TreeDen C01.Proofs C01.EnvDen C01.PlainBase C01.PlainCore
     C01.PlainMain C01.PlainSchema C01.PlainThm C01.Refuted.

(** the computable guard on the model's output: branch names are declared object types and leaves
    have scalar/enum types (true for every document check accepts; evaluated, not assumed) *)
Definition tree_ok (S : tsdoc) (t : stree) : bool := leaves_ok (sp_leaf_ok S) (sp_obj_ok S) t.

Section Final.
  Variable S : tsdoc.
  Variable F : list fragdef.
  Hypothesis Hnodup : nodup_types S = true.

  (** emit_eq_ref_local_partial *)
  Theorem emit_eq_ref_local_plain : forall n cf T sels tree v,
    plain_list sels = true ->
    type_for_selection_set S F n sels (GNonNull (GNamed T)) = Ok tree ->
    tree_ok S tree = true ->
    json v = true ->
    (In_type (schema_env S) (generate_selection_tree_type NS tree) v
     <-> exists f, ref_local_b S F (Datatypes.S cf) f T sels v = true).
  Proof.
    intros n cf T sels tree v Hp Ht Hok Hj.
    rewrite (emitted_type_den S tree v Hok).
    destruct (plain_tree_den_all S F cf Hnodup n sels (TNonNull (TNamed (mkId T pos0))) tree Hp Ht Hok) as [_ H].
    rewrite (H v Hj). unfold ref_local_b. split.
    - intros [f Hf]. exists f. unfold complete in Hf. cbn [complete_nn iname] in Hf.
      apply andb_true_iff in Hf. destruct Hf as [_ Hf]. exact Hf.
    - intros [f Hf]. exists f. unfold complete. cbn [complete_nn iname]. rewrite Hf.
      destruct v; try reflexivity. destruct f; discriminate.
  Qed.

  (** C01 for plain selection sets: every Execute_spec response is admitted *)
  Theorem response_admitted_plain : forall n cf T sels tree sg f v,
    plain_list sels = true ->
    type_for_selection_set S F n sels (GNonNull (GNamed T)) = Ok tree ->
    tree_ok S tree = true ->
    json v = true ->
    exec_b S F (Datatypes.S cf) sg f T sels v = true ->
    In_type (schema_env S) (generate_selection_tree_type NS tree) v.
  Proof.
    intros n cf T sels tree sg f v Hp Ht Hok Hj He.
    apply (emit_eq_ref_local_plain n cf T sels tree v Hp Ht Hok Hj).
    exists f. apply exec_in_ref_local with (sg := sg). exact He.
  Qed.

  (** C02 for plain selection sets: nothing outside Ref_local is admitted *)
  Theorem not_looser_plain : forall n cf T sels tree v,
    plain_list sels = true ->
    type_for_selection_set S F n sels (GNonNull (GNamed T)) = Ok tree ->
    tree_ok S tree = true ->
    json v = true ->
    In_type (schema_env S) (generate_selection_tree_type NS tree) v ->
    exists f, ref_local_b S F (Datatypes.S cf) f T sels v = true.
  Proof.
    intros n cf T sels tree v Hp Ht Hok Hj H.
    apply (emit_eq_ref_local_plain n cf T sels tree v Hp Ht Hok Hj). exact H.
  Qed.
End Final.

(** * root types: the model's [root_type] is the specification's [sp_root] *)
Lemma set_roots_last ops : forall q m sb,
  set_roots (q, m, sb) ops =
  (match find (fun p => optype_eqb (fst p) Query) (rev ops) with Some p => Some (iname (snd p)) | None => q end,
   match find (fun p => optype_eqb (fst p) Mutation) (rev ops) with Some p => Some (iname (snd p)) | None => m end,
   match find (fun p => optype_eqb (fst p) Subscription) (rev ops) with Some p => Some (iname (snd p)) | None => sb end).
Proof.
  unfold set_roots. induction ops as [|p r IH] using rev_ind; intros q m sb; [reflexivity|].
  rewrite fold_left_app. cbn [fold_left]. rewrite IH. rewrite rev_app_distr. cbn [rev app find].
  destruct p as [[] i]; cbn [fst snd optype_eqb]; reflexivity.
Qed.

Lemma root_types_last S : forall q m sb,
  fold_left (fun c d => match d with TSSchema sd => set_roots c (sd_ops sd) | _ => c end) S (q, m, sb) =
  let ex := flat_map (fun d => match d with TSSchema sd => sd_ops sd | _ => [] end) S in
  (match find (fun p => optype_eqb (fst p) Query) (rev ex) with Some p => Some (iname (snd p)) | None => q end,
   match find (fun p => optype_eqb (fst p) Mutation) (rev ex) with Some p => Some (iname (snd p)) | None => m end,
   match find (fun p => optype_eqb (fst p) Subscription) (rev ex) with Some p => Some (iname (snd p)) | None => sb end).
Proof.
  induction S as [|d r IH]; intros q m sb; [reflexivity|].
  cbn [fold_left flat_map]. destruct d; try (rewrite IH; reflexivity).
  rewrite set_roots_last, IH. cbv zeta. rewrite rev_app_distr.
  assert (Hf : forall (P : optype * ident -> bool) (l1 l2 : list (optype * ident)) (dflt : option str),
    match find P (l1 ++ l2) with Some p => Some (iname (snd p)) | None => dflt end =
    match find P l1 with Some p => Some (iname (snd p))
                       | None => match find P l2 with Some p => Some (iname (snd p)) | None => dflt end end).
  { intros P l1 l2 dflt. induction l1 as [|a l1 IHl]; [reflexivity|]. cbn [app find]. destruct (P a); [reflexivity | exact IHl]. }
  rewrite !Hf. reflexivity.
Qed.

Lemma root_type_sp_root S op : root_type S op = sp_root S op.
Proof.
  unfold root_type, root_types, sp_root. rewrite root_types_last. cbv zeta.
  destruct op; destruct (find _ _); reflexivity.
Qed.

(** the statement for the type the model emits for a definition *)
Theorem emit_eq_ref_local_partial : forall S D d T sels t v,
  nodup_types S = true ->
  def_target S d = Some (T, sels) ->
  plain_list sels = true ->
  emit_type default_options S D d = Ok t ->
  (forall tree, def_tree S D d = Ok tree -> tree_ok S tree = true) ->
  json v = true ->
  (In_type (schema_env S) t v <-> exists f, ref_local_b S (sp_frags D) (doc_fuel D) f T sels v = true).
Proof.
  intros S D d T sels t v Hnd Htgt Hp Hemit Hok Hj.
  unfold emit_type in Hemit. destruct (def_tree S D d) as [tree|e] eqn:Htree; cbn [bind] in Hemit; [|discriminate].
  inversion Hemit. subst t. specialize (Hok tree eq_refl).
  assert (Hcf : exists cf, doc_fuel D = Datatypes.S cf).
  { unfold doc_fuel. rewrite Nat.add_comm. eexists. reflexivity. }
  destruct Hcf as [cf Hcf]. rewrite Hcf.
  destruct d as [o | fd | i]; cbn [def_target] in Htgt; [| |discriminate]; inversion Htgt; subst T sels;
    cbn [def_tree] in Htree.
  - unfold operation_tree in Htree. rewrite root_type_sp_root in Htree.
    exact (emit_eq_ref_local_plain S (frag_defs D) Hnd _ cf _ _ tree v Hp Htree Hok Hj).
  - unfold fragment_tree in Htree.
    exact (emit_eq_ref_local_plain S (frag_defs D) Hnd _ cf _ _ tree v Hp Htree Hok Hj).
Qed.

(** * non-vacuity: a document with variables, aliases, __typename, lists, an interface and a union
      satisfies every guard *)
Example plain_guards_satisfiable :
  nodup_types w_schema = true /\
  plain_list (sels_of w_plain) = true /\
  (exists tree, def_tree w_schema w_plain (first_def w_plain) = Ok tree /\ tree_ok w_schema tree = true) /\
  def_target w_schema (first_def w_plain) = Some (s "Query", sels_of w_plain) /\
  exists v, json v = true /\
            exec_b w_schema [] 8 [(s "v", false); (s "w", false)] 8 (s "Query") (sels_of w_plain) v = true.
Proof.
  split; [vm_compute; reflexivity|]. split; [vm_compute; reflexivity|].
  split; [eexists; split; vm_compute; reflexivity|]. split; [vm_compute; reflexivity|].
  exists (VObj [(s "a", VObj [(s "x", VNull); (s "id", VStr (s "1"))]);
                (s "b", VList [VNull; VObj [(s "__typename", VStr (s "A")); (s "x", VNum)]]);
                (s "i", VObj [(s "id", VStr (s "2"))]);
                (s "u", VObj [(s "__typename", VStr (s "B"))])]).
  split; vm_compute; reflexivity.
Qed.

(** C01 / C02 for the type the model emits for a definition whose selection set is plain *)
Theorem response_admitted_partial : forall S D d T sels t sg f v,
  nodup_types S = true -> def_target S d = Some (T, sels) -> plain_list sels = true ->
  emit_type default_options S D d = Ok t ->
  (forall tree, def_tree S D d = Ok tree -> tree_ok S tree = true) ->
  json v = true ->
  exec_b S (sp_frags D) (doc_fuel D) sg f T sels v = true ->
  In_type (schema_env S) t v.
Proof.
  intros S D d T sels t sg f v Hnd Htgt Hp Hemit Hok Hj He.
  apply (emit_eq_ref_local_partial S D d T sels t v Hnd Htgt Hp Hemit Hok Hj).
  exists f. apply exec_in_ref_local with (sg := sg). exact He.
Qed.

Theorem not_looser_partial : forall S D d T sels t v,
  nodup_types S = true -> def_target S d = Some (T, sels) -> plain_list sels = true ->
  emit_type default_options S D d = Ok t ->
  (forall tree, def_tree S D d = Ok tree -> tree_ok S tree = true) ->
  json v = true ->
  In_type (schema_env S) t v ->
  exists f, ref_local_b S (sp_frags D) (doc_fuel D) f T sels v = true.
Proof.
  intros S D d T sels t v Hnd Htgt Hp Hemit Hok Hj H.
  apply (emit_eq_ref_local_partial S D d T sels t v Hnd Htgt Hp Hemit Hok Hj). exact H.
Qed.
