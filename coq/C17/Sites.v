(** C17 — the type of scanned iteration sites (used by the generated file Gen/C17_sites_gen.v). *)
From V Require Import Base.Util.

Record site := mk_site {
  s_file : str;    (* path below /repo *)
  s_fn : str;      (* enclosing function *)
  s_bind : str;    (* binding / field that is iterated *)
  s_op : str;      (* iter, values, for, ... *)
  s_count : N      (* number of syntactic occurrences of this (file, fn, binding, op) *)
}.

Definition site_eqb (a b : site) : bool :=
  str_eqb (s_file a) (s_file b) && str_eqb (s_fn a) (s_fn b) && str_eqb (s_bind a) (s_bind b)
  && str_eqb (s_op a) (s_op b) && N.eqb (s_count a) (s_count b).
