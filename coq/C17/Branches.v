(** C17 — the order of the branches (hence of the emitted union members) of an operation result type.

    operation_type_printer/type_printer.rs [generate_branching_conditions] enumerates
        parent objects (schema order)  x  assignments of the @skip/@include variables,
    the variables being collected by [get_boolean_variables] into a Vec in traversal order and
    de-duplicated with itertools [unique] (first occurrences).  No hash container is involved, so C01's
    model [Y.generate_branching_conditions] (coq/C01/Model.v, imported read-only) has no oracle.

    This file (1) pins down that order — first occurrences in document traversal order —, (2) models the
    variant in which the variables are collected into a HashSet and iterated (oracle order) and shows that
    with the identity oracle it is C01's function and that its result DOES depend on the oracle
    ([branching_hashset_refuted]): the seeded HashSet changes the order of union members between runs. *)
From V Require Import Base.Util Gql.Ast Writer.Wop Ts.TsType.
From V Require C01.Model.
From V Require Import C17.Model C17.Proofs.
From Coq Require Import Permutation.

Module Y := C01.Model.

(* ------------------------------------------------------------------------------------------- *)
(** * [unique] = first occurrences, in order *)

Lemma mem_in x l : Y.mem x l = true <-> In x l.
Proof.
  unfold Y.mem. rewrite existsb_exists. split.
  - intros (y & Hin & E). apply str_eqb_eq in E. now subst.
  - intros H. exists x. split; [exact H|apply str_eqb_refl].
Qed.

Lemma unique_from_in seen l x : In x (Y.unique_from seen l) <-> In x l /\ ~ In x seen.
Proof.
  revert seen. induction l as [|y r IH]; intros seen; cbn [Y.unique_from].
  - split; [intros []|intros [[] _]].
  - destruct (Y.mem y seen) eqn:Em.
    + apply mem_in in Em. rewrite IH. split.
      * intros [H1 H2]. split; [now right|exact H2].
      * intros [[->|H1] H2]; [contradiction|now split].
    + assert (Hn : ~ In y seen) by (intros H; apply mem_in in H; congruence).
      cbn [In]. rewrite IH. cbn [In]. split.
      * intros [->|[H1 H2]]; [split; [now left|exact Hn]|]. split; [now right|]. intros H; apply H2; now right.
      * intros [[->|H1] H2]; [now left|].
        destruct (str_eqb_spec y x) as [->|Hne]; [now left|right]. split; [exact H1|]. intros [E|H]; [congruence|contradiction].
Qed.

Lemma unique_from_nodup seen l : NoDup (Y.unique_from seen l).
Proof.
  revert seen. induction l as [|y r IH]; intros seen; cbn [Y.unique_from]; [constructor|].
  destruct (Y.mem y seen); [apply IH|]. constructor; [|apply IH].
  intros H. apply unique_from_in in H. destruct H as [_ H]. apply H. now left.
Qed.

Lemma unique_in l x : In x (Y.unique l) <-> In x l.
Proof. unfold Y.unique. rewrite unique_from_in. cbn. tauto. Qed.

Lemma unique_nodup l : NoDup (Y.unique l).
Proof. apply unique_from_nodup. Qed.

(** appending an element: it is added at the END iff it is new — the order is that of first occurrence *)
Lemma unique_from_snoc l : forall seen x,
  Y.unique_from seen (l ++ [x])
  = if Y.mem x seen || Y.mem x l then Y.unique_from seen l else Y.unique_from seen l ++ [x].
Proof.
  induction l as [|y r IH]; intros seen x; cbn [app Y.unique_from].
  - rewrite orb_false_r. destruct (Y.mem x seen); reflexivity.
  - destruct (Y.mem y seen) eqn:Ey.
    + rewrite IH. change (Y.mem x (y :: r)) with (str_eqb x y || Y.mem x r).
      destruct (str_eqb_spec x y) as [->|Hne]; [now rewrite Ey|reflexivity].
    + rewrite IH. change (Y.mem x (y :: seen)) with (str_eqb x y || Y.mem x seen).
      change (Y.mem x (y :: r)) with (str_eqb x y || Y.mem x r).
      destruct (str_eqb x y), (Y.mem x seen), (Y.mem x r); reflexivity.
Qed.

Lemma unique_snoc l x : Y.unique (l ++ [x]) = if Y.mem x l then Y.unique l else Y.unique l ++ [x].
Proof. unfold Y.unique. now rewrite unique_from_snoc. Qed.

(* ------------------------------------------------------------------------------------------- *)
(** * the HashSet variant *)

(** the variables put into a HashSet<&str> and iterated: any order of the distinct variables *)
Definition set_iter (pi : oracle) (vars : list str) : list str :=
  map fst (pi unit (map (fun v => (v, tt)) (Y.unique vars))).

Definition branching_hashset (pi : oracle) (fuel : nat) (S : tsdoc) (F : list fragdef)
           (sels : list selection) (parent : str) : Y.res (list Y.branch) :=
  Y.bind (Y.parent_objects S parent) (fun objs =>
  Y.bind (Y.get_boolean_variables fuel F sels) (fun vars =>
  let asg := match vars with [] => [[]] | _ => Y.assignments (set_iter pi vars) end in
  Y.Ok (flat_map (fun o => map (fun a => Y.mkBr o a) asg) objs))).

Lemma set_iter_id vars : set_iter o_id vars = Y.unique vars.
Proof. unfold set_iter, o_id. rewrite map_map. cbn [fst]. apply map_id. Qed.

(** with the identity oracle the variant is C01's function: the real code is the Vec + [unique] instance *)
Lemma branching_hashset_id fuel S F sels parent :
  branching_hashset o_id fuel S F sels parent = Y.generate_branching_conditions fuel S F sels parent.
Proof.
  unfold branching_hashset, Y.generate_branching_conditions.
  destruct (Y.parent_objects S parent) as [objs|e]; [|reflexivity]. cbn [Y.bind].
  destruct (Y.get_boolean_variables fuel F sels) as [vars|e]; [|reflexivity]. cbn [Y.bind].
  now rewrite set_iter_id.
Qed.

Lemma set_iter_perm (pi : oracle) vars : is_oracle pi -> Permutation (set_iter pi vars) (Y.unique vars).
Proof.
  intros H. unfold set_iter.
  eapply Permutation_trans; [apply Permutation_map, H|]. rewrite map_map. cbn [fst]. rewrite map_id. apply Permutation_refl.
Qed.

(** the variant enumerates the same (object, assignment-as-a-set) combinations: only orders change *)
Lemma assignments_in vs a :
  In a (Y.assignments vs) <-> map fst a = vs.
Proof.
  revert a. induction vs as [|v r IH]; intros a; cbn [Y.assignments].
  - split; [intros [<-|[]]; reflexivity|]. destruct a; [now left|discriminate].
  - rewrite in_app_iff, !in_map_iff. split.
    + intros [(a' & <- & H)|(a' & <- & H)]; apply IH in H; cbn [map fst]; now rewrite H.
    + destruct a as [|[v' b] a']; [discriminate|]. cbn [map fst]. intros E. inversion E; subst.
      destruct b; [right|left]; exists a'; (split; [reflexivity|now apply IH]).
Qed.

(* ------------------------------------------------------------------------------------------- *)
(** * the variant is order-dependent: a seeded HashSet there violates C17 *)

Definition ex_id (x : str) : ident := mkId x pos0.
Definition ex_kw : keyword := mkKw (s "type") pos0.
Definition ex_field (n : str) : fielddef :=
  mkFieldDef None (ex_id n) None (TNamed (ex_id (s "Int"))) [].
Definition ex_schema : tsdoc :=
  [TSType (TDObject None pos0 (ex_id (s "Query")) [] [] [ex_field (s "a"); ex_field (s "b")] ex_kw)].
Definition ex_skip (v : str) : directive :=
  mkDir pos0 (ex_id (s "skip")) (Some (mkArgs pos0 [(ex_id (s "if"), VVar v pos0)])).
(** { a @skip(if: $x)  b @skip(if: $y) } *)
Definition ex_sels : list selection :=
  [SField None (ex_id (s "a")) None [ex_skip (s "x")] None; SField None (ex_id (s "b")) None [ex_skip (s "y")] None].

Lemma branching_hashset_refuted :
  exists (pi pi' : oracle), is_oracle pi /\ is_oracle pi' /\
    branching_hashset pi 5 ex_schema [] ex_sels (s "Query") <> branching_hashset pi' 5 ex_schema [] ex_sels (s "Query")
    /\ exists l, branching_hashset pi 5 ex_schema [] ex_sels (s "Query") = Y.Ok l /\ List.length l = 4%nat.
Proof.
  exists o_id, o_rev. split; [apply o_id_is_oracle|]. split; [apply o_rev_is_oracle|]. split.
  - vm_compute. discriminate.
  - eexists. split; [vm_compute; reflexivity|reflexivity].
Qed.

(** the real function on the same input: variables in document order x, y; last variable varies fastest *)
Example branching_real_order :
  option_map (map Y.b_vars)
    (match Y.generate_branching_conditions 5 ex_schema [] ex_sels (s "Query") with Y.Ok l => Some l | Y.Err _ => None end)
  = Some [ [(s "x", false); (s "y", false)]; [(s "x", false); (s "y", true)];
           [(s "x", true); (s "y", false)]; [(s "x", true); (s "y", true)] ].
Proof. vm_compute. reflexivity. Qed.

(** what C01's function enumerates, spelled out: the order is a function of the document alone —
    parent objects in the order [parent_objects] lists them (a type's own definition, the interface
    implementers in schema order, the union members in declaration order), and for each the assignments of the
    distinct directive variables in the order of their first occurrence in the traversal *)
Lemma branching_order_spec fuel S F sels parent objs vars :
  Y.parent_objects S parent = Y.Ok objs -> Y.get_boolean_variables fuel F sels = Y.Ok vars ->
  Y.generate_branching_conditions fuel S F sels parent
  = Y.Ok (flat_map (fun o => map (fun a => Y.mkBr o a)
                                 (match vars with [] => [[]] | _ => Y.assignments (Y.unique vars) end)) objs)
  /\ NoDup (Y.unique vars) /\ (forall x, In x (Y.unique vars) <-> In x vars).
Proof.
  intros Ho Hv. unfold Y.generate_branching_conditions. rewrite Ho, Hv. cbn [Y.bind].
  split; [reflexivity|]. split; [apply unique_nodup|apply unique_in].
Qed.

