(** C17 — property theorems only.  Each is closed by [exact] of a lemma in Proofs.v and followed by
    [Print Assumptions]. *)
From V Require Import Base.Util Gql.Ast Writer.Wop Ts.TsType Ts.TsDen C17.Sites C17.Model C17.Spec C17.Proofs C17.PluginProofs C17.Table C17.Full C17.Branches.
From V Require C10.Model C10.Spec C01.Model C05.Model C03.Model C17.Denot C17.CheckPerm C17.OpPerm.
From V Require Gen.C17_sites_gen.
From Coq Require Import Permutation Sorting.Sorted.

(** T3: every syntactic HashMap/HashSet iteration site found in /repo is in the table of known sites
    (and the table has no stale entry; every file that mentions a hash container is listed) *)
Theorem C17_all_sites_accounted : forallb site_known Gen.C17_sites_gen.scanned_sites = true.
Proof. exact all_sites_accounted. Qed.
Print Assumptions C17_all_sites_accounted.

Theorem C17_known_sites_all_scanned : forallb (fun kc => site_scanned (fst kc)) known_sites = true.
Proof. exact known_sites_all_scanned. Qed.
Print Assumptions C17_known_sites_all_scanned.

Theorem C17_all_hash_files_accounted :
  forallb (fun f => existsb (fun kf => str_eqb f (fst kf)) known_hash_files) Gen.C17_sites_gen.hash_mention_files = true.
Proof. exact all_hash_files_accounted. Qed.
Print Assumptions C17_all_hash_files_accounted.

(** order_oracle_irrelevant: the abstract generation result (resolve error / printer error / the whole
    declaration skeleton with scalar, interface and union bodies) is the same for every iteration order of
    the two hash maps that are iterated raw on the way *)
Theorem C17_order_oracle_irrelevant : forall (p1 p2 p1' p2' : oracle) cfg files builtins,
  is_oracle p1 -> is_oracle p2 -> is_oracle p1' -> is_oracle p2' -> NoDup (keys cfg) ->
  gen p1 p2 cfg files builtins = gen p1' p2' cfg files builtins.
Proof. exact gen_oracle_irrelevant. Qed.
Print Assumptions C17_order_oracle_irrelevant.

Theorem C17_from_config_spec : forall (pi : oracle) (cfg : hmap scfg) k,
  is_oracle pi -> NoDup (keys cfg) ->
  hm_get (from_config pi cfg) k =
  match hm_get cfg k with Some c => Some c | None => hm_get builtin_scalar_types k end.
Proof. exact from_config_spec. Qed.
Print Assumptions C17_from_config_spec.

Theorem C17_local_names_oracle_irrelevant : forall (pi pi' : oracle) doc st,
  is_oracle pi -> is_oracle pi' -> make_local_type_names pi doc st = make_local_type_names pi' doc st.
Proof. exact make_local_type_names_oracle_irrelevant. Qed.
Print Assumptions C17_local_names_oracle_irrelevant.

(** mechanism 1: insertion-order vectors kept next to the hash maps *)
Theorem C17_iter_types_insertion_order : forall D (items : list (str * D)),
  map fst (iter_types (build items)) = dedup [] (keys items)
  /\ (NoDup (keys items) -> iter_types (build items) = items).
Proof. intros D. exact (@iter_types_insertion_order D). Qed.
Print Assumptions C17_iter_types_insertion_order.

Theorem C17_map_str_oracle_irrelevant : forall D D' (pi pi' : oracle) (f : str -> str) (g : D -> D') (sc : schema D),
  is_oracle pi -> is_oracle pi' -> wf sc -> NoDup (map f (sc_names sc)) ->
  iter_types (map_str pi f g sc) = iter_types (map_str pi' f g sc)
  /\ forall k, get_type (map_str pi f g sc) k = get_type (map_str pi' f g sc) k.
Proof. intros D D'. exact (@map_str_oracle_irrelevant D D'). Qed.
Print Assumptions C17_map_str_oracle_irrelevant.

(** the injectivity guard of the previous theorem is necessary *)
Theorem C17_map_str_refuted :
  exists (sc : schema N) (f : str -> str) (pi pi' : oracle),
    is_oracle pi /\ is_oracle pi' /\ wf sc /\
    get_type (map_str pi f (fun x => x) sc) (s "K") <> get_type (map_str pi' f (fun x => x) sc) (s "K").
Proof. exact map_str_refuted. Qed.
Print Assumptions C17_map_str_refuted.

(** def_permutation (type-system level): reordering definitions changes only the order of iteration;
    lookups, the member set of every interface's union and the checker's "implements both" verdict stay *)
Theorem C17_def_permutation : forall doc doc',
  Permutation doc doc' -> NoDup (map d_name (type_defs doc)) ->
  (forall k, get_type (ast_to_type_system doc) k = get_type (ast_to_type_system doc') k)
  /\ Permutation (iter_types (ast_to_type_system doc)) (iter_types (ast_to_type_system doc'))
  /\ (forall i, Permutation (interface_implementers (ast_to_type_system doc) i)
                            (interface_implementers (ast_to_type_system doc') i))
  /\ (forall i1 i2, any_object_implements_both (ast_to_type_system doc) i1 i2
                    = any_object_implements_both (ast_to_type_system doc') i1 i2).
Proof. exact ast_to_type_system_permutation. Qed.
Print Assumptions C17_def_permutation.

(** mechanism 2: the stable sort by position fixes the order of merged definitions *)
Theorem C17_extension_list_order_irrelevant : forall elem (l l' : xlist) t,
  Permutation l l' ->
  into_original_and_extensions elem l = Ok t ->
  (forall x y, In x t -> In y t ->
     pos_leb (d_pos (fst x)) (d_pos (fst y)) = true -> pos_leb (d_pos (fst y)) (d_pos (fst x)) = true -> x = y) ->
  into_original_and_extensions elem l' = Ok t.
Proof. exact into_original_and_extensions_order_irrelevant. Qed.
Print Assumptions C17_extension_list_order_irrelevant.

Theorem C17_extension_list_sorted : forall elem l t,
  into_original_and_extensions elem l = Ok t ->
  StronglySorted (fun a b => pos_leb (d_pos (fst a)) (d_pos (fst b)) = true) t.
Proof. exact into_original_and_extensions_sorted. Qed.
Print Assumptions C17_extension_list_sorted.

(** the verdict of the resolver (resolves / duplicate original / extension without original) is a function of
    the multiset of definitions, hence invariant under any reordering inside or across files *)
Theorem C17_resolve_verdict : forall its,
  vclass (resolve_schema_extensions its) = expected_class its.
Proof. exact resolve_verdict. Qed.
Print Assumptions C17_resolve_verdict.

Theorem C17_resolve_verdict_permutation : forall its its',
  Permutation its its' ->
  vclass (resolve_schema_extensions its) = vclass (resolve_schema_extensions its').
Proof. exact resolve_verdict_permutation. Qed.
Print Assumptions C17_resolve_verdict_permutation.

(** def_permutation at the level of the emitted declarations: a permuted document yields the same
    declarations up to their order and the order of union members (and fails iff the original fails) *)
Theorem C17_skeleton_def_permutation : forall (pi : oracle) (o : hmap scfg) (doc doc' : list item),
  is_oracle pi -> Permutation doc doc' -> NoDup (map d_name (type_defs doc)) ->
  forall l, print_skeleton pi o doc = Ok l ->
  exists l', print_skeleton pi o doc' = Ok l' /\ decls_equiv l l'.
Proof. exact print_skeleton_permutation. Qed.
Print Assumptions C17_skeleton_def_permutation.

(* ------------------------------------------------------------------------------------------- *)
(** * second pass: composition with the printer models of C10 and C01 (imported read-only) *)

(** order_oracle_irrelevant for the FULL schema / resolver declaration output: C10's [print_schema] with the
    option table (from_config) and the context's scalar table and identifier bag in oracle order, paired with
    C10's [print_resolvers]; the writer-operation lists (text and source-map entries) do not depend on the
    oracles *)
Theorem C17_full_output_oracle_irrelevant :
  forall (p1 p2 p1' p2' : oracle) cfg meta optional runtime ro plugins doc,
  is_oracle p1 -> is_oracle p2 -> is_oracle p1' -> is_oracle p2' -> NoDup (keys cfg) ->
  full_gen p1 p2 cfg meta optional runtime ro plugins doc = full_gen p1' p2' cfg meta optional runtime ro plugins doc.
Proof. exact full_gen_oracle_irrelevant. Qed.
Print Assumptions C17_full_output_oracle_irrelevant.

(** … and for every oracle it is C10's own model of SchemaTypePrinter::print_document *)
Theorem C17_full_schema_is_C10_print_schema : forall (p1 p2 : oracle) cfg meta optional runtime doc,
  is_oracle p1 -> is_oracle p2 -> NoDup (keys cfg) ->
  full_schema p1 p2 cfg meta optional runtime doc
  = C10.Model.print_schema
      (C10.Model.mkSOpts (x_scalars (hm_extend builtin_scalar_types cfg)) meta optional runtime) doc.
Proof. exact full_schema_is_print_schema. Qed.
Print Assumptions C17_full_schema_is_C10_print_schema.

(** the resolver printer reads its [ts_types] map by key only: any map with the same lookups (any layout of
    the HashMap) yields the same declarations *)
Theorem C17_resolver_map_lookup_only : forall o plugins doc (m : C10.Model.tymap),
  (forall k, assoc k m = assoc k (fold_left (fun acc t => (C10.Model.tname t, C10.Model.resolver_output_type o doc t) :: acc)
                                            (C10.Model.typedefs doc) [])) ->
  C10.Model.bind (resolver_map_from o plugins doc m) (resolver_tail o plugins doc)
  = C10.Model.resolver_structure o plugins doc.
Proof. exact resolver_structure_lookup_only. Qed.
Print Assumptions C17_resolver_map_lookup_only.

(** def_permutation for the DENOTATION of every exported alias (via C10_alias_exact_iff): a permuted
    well-formed document exports the alias too and it admits / rejects exactly the same values *)
Theorem C17_alias_denotation_permutation : forall o doc doc' nss t T body,
  Permutation doc doc' -> C10.Spec.wf_schema o doc = true ->
  C10.Model.schema_decls o doc = C10.Model.Ok nss -> C10.Spec.applicable doc t T = true ->
  C10.Spec.alias_of (C10.Spec.namespace_of nss t) T = Some body ->
  exists nss' body',
    C10.Model.schema_decls o doc' = C10.Model.Ok nss'
    /\ C10.Spec.alias_of (C10.Spec.namespace_of nss' t) T = Some body'
    /\ forall v,
         (In_type (C10.Spec.ns_env (C10.Spec.namespace_of nss t)) body v
          <-> In_type (C10.Spec.ns_env (C10.Spec.namespace_of nss' t)) body' v)
         /\ (NotIn_type (C10.Spec.ns_env (C10.Spec.namespace_of nss t)) body v
             <-> NotIn_type (C10.Spec.ns_env (C10.Spec.namespace_of nss' t)) body' v).
Proof. exact C17.Denot.alias_denotation_permutation_total. Qed.
Print Assumptions C17_alias_denotation_permutation.

(** the reference denotation and the well-formedness guard themselves are order-free *)
Theorem C17_Ref_permutation : forall doc doc', Permutation doc doc' ->
  nodup_keys (map C10.Model.tname (C10.Model.typedefs doc)) = true ->
  forall o t T v, C10.Spec.Ref o doc t T v = C10.Spec.Ref o doc' t T v.
Proof. exact C17.Denot.Ref_perm. Qed.
Print Assumptions C17_Ref_permutation.

(** the branches of an operation result type (= the members of the emitted union, in order): parent objects
    in schema order x assignments of the distinct @skip/@include variables in first-occurrence order *)
Theorem C17_branch_order_spec : forall fuel S F sels parent objs vars,
  C01.Model.parent_objects S parent = C01.Model.Ok objs ->
  C01.Model.get_boolean_variables fuel F sels = C01.Model.Ok vars ->
  C01.Model.generate_branching_conditions fuel S F sels parent
  = C01.Model.Ok (flat_map (fun o => map (fun a => C01.Model.mkBr o a)
                      (match vars with [] => [[]] | _ => C01.Model.assignments (C01.Model.unique vars) end)) objs)
  /\ NoDup (C01.Model.unique vars) /\ (forall x, In x (C01.Model.unique vars) <-> In x vars).
Proof. exact branching_order_spec. Qed.
Print Assumptions C17_branch_order_spec.

Theorem C17_unique_first_occurrence : forall l x,
  C01.Model.unique (l ++ [x]) = if C01.Model.mem x l then C01.Model.unique l else C01.Model.unique l ++ [x].
Proof. exact unique_snoc. Qed.
Print Assumptions C17_unique_first_occurrence.

(** collecting the variables into a HashSet instead: identity order = the real function, but the result
    depends on the iteration order *)
Theorem C17_branching_hashset_id : forall fuel S F sels parent,
  branching_hashset o_id fuel S F sels parent = C01.Model.generate_branching_conditions fuel S F sels parent.
Proof. exact branching_hashset_id. Qed.
Print Assumptions C17_branching_hashset_id.

Theorem C17_branching_hashset_refuted :
  exists (pi pi' : oracle), is_oracle pi /\ is_oracle pi' /\
    branching_hashset pi 5 ex_schema [] ex_sels (s "Query") <> branching_hashset pi' 5 ex_schema [] ex_sels (s "Query")
    /\ exists l, branching_hashset pi 5 ex_schema [] ex_sels (s "Query") = C01.Model.Ok l /\ List.length l = 4%nat.
Proof. exact branching_hashset_refuted. Qed.
Print Assumptions C17_branching_hashset_refuted.

(* ------------------------------------------------------------------------------------------- *)
(** * third pass: every remaining raw-iteration site has a theorem about its modelled consumer *)

(** "sorted afterwards": sorting map entries by key yields the same list for every iteration order *)
Theorem C17_sort_by_key_order_irrelevant : forall V (l l' : hmap V),
  Permutation l l' -> NoDup (keys l) -> sort_leb key_leb l = sort_leb key_leb l'.
Proof. intros V. exact (@sort_by_key_order_irrelevant V). Qed.
Print Assumptions C17_sort_by_key_order_irrelevant.

(** graphql-scalars plugin: the schema text it contributes does not depend on the iteration order of
    `type_extensions` (load_schema_extensions) nor of its own `scalar_extensions` (schema_addition) *)
Theorem C17_plugin_schema_addition_oracle_irrelevant : forall (p1 p2 p1' p2' : oracle) (exts : hmap xext),
  is_oracle p1 -> is_oracle p2 -> is_oracle p1' -> is_oracle p2' -> NoDup (keys exts) ->
  plugin_schema_addition p1 p2 exts = plugin_schema_addition p1' p2' exts.
Proof. exact plugin_schema_addition_oracle_irrelevant. Qed.
Print Assumptions C17_plugin_schema_addition_oracle_irrelevant.

Theorem C17_load_schema_extensions_lookup : forall (pi : oracle) (exts : hmap xext) k,
  is_oracle pi -> NoDup (keys exts) ->
  hm_get (load_schema_extensions pi [] exts) k =
  match hm_get exts k with Some e => scalar_extension_of e | None => None end.
Proof. exact load_schema_extensions_lookup. Qed.
Print Assumptions C17_load_schema_extensions_lookup.

(** loader: the files asked for are the not-yet-loaded import targets, each once, for every iteration order of
    `loaded_files` — as a set; the ORDER of the answer does follow the hash order (refuted as a list) *)
Theorem C17_get_required_files_spec : forall (pi : oracle) (loaded : hmap (list str)) x,
  is_oracle pi ->
  In x (get_required_files pi loaded) <->
  (exists from imports, In (from, imports) loaded /\ In x imports) /\ hm_mem loaded x = false.
Proof. exact get_required_files_spec. Qed.
Print Assumptions C17_get_required_files_spec.

Theorem C17_get_required_files_oracle_irrelevant : forall (pi pi' : oracle) (loaded : hmap (list str)),
  is_oracle pi -> is_oracle pi' ->
  Permutation (get_required_files pi loaded) (get_required_files pi' loaded)
  /\ NoDup (get_required_files pi loaded).
Proof. exact get_required_files_oracle_irrelevant_nodup. Qed.
Print Assumptions C17_get_required_files_oracle_irrelevant.

Theorem C17_get_required_files_order_refuted :
  exists (loaded : hmap (list str)) (pi pi' : oracle), is_oracle pi /\ is_oracle pi' /\
    get_required_files pi loaded <> get_required_files pi' loaded.
Proof. exact get_required_files_order_refuted. Qed.
Print Assumptions C17_get_required_files_order_refuted.

(** verdict(pi(P)) = verdict(P) for check_type_system_document (C05's model [check_doc], read-only): a permuted
    resolved document with unique type names and unique directive names gets the same diagnostics (messages,
    positions, notes) up to their order — in particular the same pass/fail verdict *)
Theorem C17_check_verdict_permutation : forall doc doc',
  Permutation doc doc' ->
  NoDup (map C05.Model.tname (C17.CheckPerm.tdefs doc)) -> NoDup (map C05.Model.dname (C17.CheckPerm.ddefs doc)) ->
  Permutation (C05.Model.check_doc doc) (C05.Model.check_doc doc')
  /\ (C05.Model.check_doc doc = [] <-> C05.Model.check_doc doc' = []).
Proof. exact C17.CheckPerm.check_verdict_permutation. Qed.
Print Assumptions C17_check_verdict_permutation.

(** for ARBITRARY permutations the guard on directive names is still necessary in the model: a permutation that
    moves a built-in-positioned definition across a user definition of the same name changes the lookups (model
    only — nitrogql appends the built-ins after the user document; see C17_check_verdict_source_permutation) *)
Theorem C17_check_verdict_permutation_refuted :
  exists doc doc', Permutation doc doc' /\ NoDup (map C05.Model.tname (C17.CheckPerm.tdefs doc))
                   /\ C05.Model.check_doc doc = [] /\ C05.Model.check_doc doc' <> [].
Proof. exact C17.CheckPerm.check_doc_permutation_refuted. Qed.
Print Assumptions C17_check_verdict_permutation_refuted.

(** what [holds] checks on the implementation's resolver / skeleton outputs, proved of the model *)
Theorem C17_resolve_no_extension_left : forall its out,
  resolve_schema_extensions its = Ok out -> Forall (fun d => d_ext d = false) (idefs out).
Proof. exact resolve_no_extension_left. Qed.
Print Assumptions C17_resolve_no_extension_left.

Theorem C17_skeleton_shape : forall (pi : oracle) (o : hmap scfg) (doc : list item) a,
  print_skeleton pi o doc = Ok a ->
  Forall (fun d => hm_get (ctx_local_names pi o doc) (dc_schema d) = Some (dc_local d)) a
  /\ map dc_schema (filter (fun d => N.eqb (dc_section d) 4) a) = map d_name (type_defs doc)
  /\ Forall (fun d => dc_local d = dc_schema d \/ dc_local d = tmp_prefix ++ dc_schema d) a.
Proof. exact print_skeleton_shape. Qed.
Print Assumptions C17_skeleton_shape.

(** the general statement under the computable guard [unique_names], and the refutation of the unguarded general
    statement (arbitrary permutations incl. built-in-positioned definitions; model only) *)
Theorem C17_check_verdict_permutation_partial : forall doc doc',
  C17.CheckPerm.unique_names doc = true -> Permutation doc doc' ->
  Permutation (C05.Model.check_doc doc) (C05.Model.check_doc doc')
  /\ (C05.Model.check_doc doc = [] <-> C05.Model.check_doc doc' = []).
Proof. exact C17.CheckPerm.check_verdict_permutation_partial. Qed.
Print Assumptions C17_check_verdict_permutation_partial.

Theorem C17_check_verdict_permutation_full_refuted : ~ C17.CheckPerm.check_verdict_permutation_full.
Proof. exact C17.CheckPerm.check_verdict_permutation_full_refuted. Qed.
Print Assumptions C17_check_verdict_permutation_full_refuted.

(** verdict(pi(P)) = verdict(P) for check_operation_document (C03's model, read-only): permuting the definitions
    of a resolved schema (unique type names, unique directive names, at most one schema definition) leaves the
    diagnostics of every operation document unchanged — the same list, in the same order *)
Theorem C17_operation_check_schema_permutation : forall S S',
  Permutation S S' ->
  NoDup (map C03.Model.tname (C17.OpPerm.tdefs S)) -> NoDup (map C17.OpPerm.dname (C17.OpPerm.ddefs S)) ->
  (List.length (C17.OpPerm.sdefs S) <= 1)%nat ->
  forall D, C03.Model.check_operation_document S D = C03.Model.check_operation_document S' D.
Proof. exact C17.OpPerm.check_operation_document_schema_permutation. Qed.
Print Assumptions C17_operation_check_schema_permutation.

(** verdict(pi(P)) = verdict(P) for the schema check AS NITROGQL RUNS IT (since 451006c): the user's definitions in
    any order, the built-in definitions appended unchanged, unique type names — and NO guard on directive names:
    a directive the user defines twice is rejected in every order, a user directive that redefines a built-in one
    precedes it in every order *)
Theorem C17_check_verdict_source_permutation : forall user user' builtins,
  Permutation user user' ->
  NoDup (map C05.Model.tname (C17.CheckPerm.tdefs (user ++ builtins))) -> C17.CheckPerm.user_positioned user ->
  (C05.Model.check_doc (user ++ builtins) = [] <-> C05.Model.check_doc (user' ++ builtins) = []).
Proof. exact C17.CheckPerm.check_verdict_source_permutation. Qed.
Print Assumptions C17_check_verdict_source_permutation.

(** … and the diagnostics are the same up to their order as soon as no user directive is defined twice *)
Theorem C17_check_diagnostics_source_permutation : forall user user' builtins,
  Permutation user user' ->
  NoDup (map C05.Model.tname (C17.CheckPerm.tdefs (user ++ builtins))) -> C17.CheckPerm.user_positioned user ->
  C17.CheckPerm.user_dup [] (user ++ builtins) = false ->
  Permutation (C05.Model.check_doc (user ++ builtins)) (C05.Model.check_doc (user' ++ builtins)).
Proof. exact C17.CheckPerm.check_doc_source_permutation. Qed.
Print Assumptions C17_check_diagnostics_source_permutation.

(** a directive defined twice by the user is reported in every arrangement *)
Theorem C17_duplicate_user_directive_rejected : forall doc defs seen,
  C17.CheckPerm.user_dup seen defs = true -> C05.Model.check_defs doc seen defs <> [].
Proof. exact C17.CheckPerm.user_dup_nonempty. Qed.
Print Assumptions C17_duplicate_user_directive_rejected.
