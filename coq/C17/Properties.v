(** C17 — property theorems only.  Each is closed by [exact] of a lemma in Proofs.v and followed by
    [Print Assumptions]. *)
From V Require Import Base.Util C17.Sites C17.Model C17.Spec C17.Proofs.
From V Require Gen.C17_sites_gen.
From Coq Require Import Permutation Sorting.Sorted.

(** T3: every syntactic HashMap/HashSet iteration site found in /repo is in the table of known sites
    (and the table has no stale entry; every file that mentions a hash container is listed) *)
Theorem C17_all_sites_accounted : forallb site_known Gen.C17_sites_gen.scanned_sites = true.
Proof. exact all_sites_accounted. Qed.
Print Assumptions C17_all_sites_accounted.

Theorem C17_known_sites_all_scanned : forallb (fun kc => site_scanned (fst kc)) known_sites = true.
Proof. exact known_sites_all_scanned. Qed.
Print Assumptions C17_known_sites_all_scanned.

Theorem C17_all_hash_files_accounted :
  forallb (fun f => existsb (fun kf => str_eqb f (fst kf)) known_hash_files) Gen.C17_sites_gen.hash_mention_files = true.
Proof. exact all_hash_files_accounted. Qed.
Print Assumptions C17_all_hash_files_accounted.

(** order_oracle_irrelevant: the abstract generation result (resolve error / printer error / the whole
    declaration skeleton with scalar, interface and union bodies) is the same for every iteration order of
    the two hash maps that are iterated raw on the way *)
Theorem C17_order_oracle_irrelevant : forall (p1 p2 p1' p2' : oracle) cfg files builtins,
  is_oracle p1 -> is_oracle p2 -> is_oracle p1' -> is_oracle p2' -> NoDup (keys cfg) ->
  gen p1 p2 cfg files builtins = gen p1' p2' cfg files builtins.
Proof. exact gen_oracle_irrelevant. Qed.
Print Assumptions C17_order_oracle_irrelevant.

Theorem C17_from_config_spec : forall (pi : oracle) (cfg : hmap scfg) k,
  is_oracle pi -> NoDup (keys cfg) ->
  hm_get (from_config pi cfg) k =
  match hm_get cfg k with Some c => Some c | None => hm_get builtin_scalar_types k end.
Proof. exact from_config_spec. Qed.
Print Assumptions C17_from_config_spec.

Theorem C17_local_names_oracle_irrelevant : forall (pi pi' : oracle) doc st,
  is_oracle pi -> is_oracle pi' -> make_local_type_names pi doc st = make_local_type_names pi' doc st.
Proof. exact make_local_type_names_oracle_irrelevant. Qed.
Print Assumptions C17_local_names_oracle_irrelevant.

(** mechanism 1: insertion-order vectors kept next to the hash maps *)
Theorem C17_iter_types_insertion_order : forall D (items : list (str * D)),
  map fst (iter_types (build items)) = dedup [] (keys items)
  /\ (NoDup (keys items) -> iter_types (build items) = items).
Proof. intros D items. split; [apply iter_types_names_build|apply iter_types_build_nodup]. Qed.
Print Assumptions C17_iter_types_insertion_order.

Theorem C17_map_str_oracle_irrelevant : forall D D' (pi pi' : oracle) (f : str -> str) (g : D -> D') (sc : schema D),
  is_oracle pi -> is_oracle pi' -> wf sc -> NoDup (map f (sc_names sc)) ->
  iter_types (map_str pi f g sc) = iter_types (map_str pi' f g sc)
  /\ forall k, get_type (map_str pi f g sc) k = get_type (map_str pi' f g sc) k.
Proof. intros D D'. exact (@map_str_oracle_irrelevant D D'). Qed.
Print Assumptions C17_map_str_oracle_irrelevant.

(** the injectivity guard of the previous theorem is necessary *)
Theorem C17_map_str_refuted :
  exists (sc : schema N) (f : str -> str) (pi pi' : oracle),
    is_oracle pi /\ is_oracle pi' /\ wf sc /\
    get_type (map_str pi f (fun x => x) sc) (s "K") <> get_type (map_str pi' f (fun x => x) sc) (s "K").
Proof. exact map_str_refuted. Qed.
Print Assumptions C17_map_str_refuted.

(** def_permutation (type-system level): reordering definitions changes only the order of iteration;
    lookups, the member set of every interface's union and the checker's "implements both" verdict stay *)
Theorem C17_def_permutation : forall doc doc',
  Permutation doc doc' -> NoDup (map d_name (type_defs doc)) ->
  (forall k, get_type (ast_to_type_system doc) k = get_type (ast_to_type_system doc') k)
  /\ Permutation (iter_types (ast_to_type_system doc)) (iter_types (ast_to_type_system doc'))
  /\ (forall i, Permutation (interface_implementers (ast_to_type_system doc) i)
                            (interface_implementers (ast_to_type_system doc') i))
  /\ (forall i1 i2, any_object_implements_both (ast_to_type_system doc) i1 i2
                    = any_object_implements_both (ast_to_type_system doc') i1 i2).
Proof. exact ast_to_type_system_permutation. Qed.
Print Assumptions C17_def_permutation.

(** mechanism 2: the stable sort by position fixes the order of merged definitions *)
Theorem C17_extension_list_order_irrelevant : forall elem (l l' : xlist) t,
  Permutation l l' ->
  into_original_and_extensions elem l = Ok t ->
  (forall x y, In x t -> In y t ->
     pos_leb (d_pos (fst x)) (d_pos (fst y)) = true -> pos_leb (d_pos (fst y)) (d_pos (fst x)) = true -> x = y) ->
  into_original_and_extensions elem l' = Ok t.
Proof. exact into_original_and_extensions_order_irrelevant. Qed.
Print Assumptions C17_extension_list_order_irrelevant.

Theorem C17_extension_list_sorted : forall elem l t,
  into_original_and_extensions elem l = Ok t ->
  StronglySorted (fun a b => pos_leb (d_pos (fst a)) (d_pos (fst b)) = true) t.
Proof. exact into_original_and_extensions_sorted. Qed.
Print Assumptions C17_extension_list_sorted.

(** the verdict of the resolver (resolves / duplicate original / extension without original) is a function of
    the multiset of definitions, hence invariant under any reordering inside or across files *)
Theorem C17_resolve_verdict : forall its,
  vclass (resolve_schema_extensions its) = expected_class its.
Proof. exact resolve_verdict. Qed.
Print Assumptions C17_resolve_verdict.

Theorem C17_resolve_verdict_permutation : forall its its',
  Permutation its its' ->
  vclass (resolve_schema_extensions its) = vclass (resolve_schema_extensions its').
Proof. exact resolve_verdict_permutation. Qed.
Print Assumptions C17_resolve_verdict_permutation.

(** def_permutation at the level of the emitted declarations: a permuted document yields the same
    declarations up to their order and the order of union members (and fails iff the original fails) *)
Theorem C17_skeleton_def_permutation : forall (pi : oracle) (o : hmap scfg) (doc doc' : list item),
  is_oracle pi -> Permutation doc doc' -> NoDup (map d_name (type_defs doc)) ->
  forall l, print_skeleton pi o doc = Ok l ->
  exists l', print_skeleton pi o doc' = Ok l' /\ decls_equiv l l'.
Proof. exact print_skeleton_permutation. Qed.
Print Assumptions C17_skeleton_def_permutation.
