(** C17 — lifting [order_oracle_irrelevant] from the declaration skeleton to the FULL schema / resolver
    declaration output, by composing the iteration-order oracle of C17/Model.v with C10's model of the
    printers (coq/C10/Model.v, imported read-only as [X]).

    C10 represents the three hash maps the printers consult as association lists:
      [so_scalars] (SchemaTypePrinterOptions.scalar_types), [c_scalars] (context.scalar_types) and
      [c_bag] (the identifier bag behind context.local_type_names); the resolver printer's [ts_types] is
      the list [tymap].
    Here the lists are put in ORACLE order ([full_schema pi_cfg pi_ctx …]) and the whole writer-operation
    list — every byte the schema d.ts consists of, and every source-map entry — is proved independent of the
    oracles.  The proof is exactly the lemma the site table needs: C10's functions only look keys up
    ([assoc], [mem]); they never iterate (they are invariant under any change of the lists that preserves
    lookups). *)
From V Require Import Base.Util Gql.Ast Writer.Wop Ts.TsType Ts.TsDen.
From V Require C10.Model.
From V Require Import C17.Model C17.Proofs.
From Coq Require Import Permutation.

Module X := C10.Model.

(* ------------------------------------------------------------------------------------------- *)
(** * definitions: C10's printer with the maps in oracle order *)

Definition to_x (c : scfg) : X.scalar_cfg :=
  match c with
  | Single t => X.ScSingle t
  | SendReceive send receive => X.ScSendRecv send receive
  | Separate ro ri oo oi => X.ScSeparate ro ri oo oi
  end.

Definition x_scalars (m : hmap scfg) : list (str * X.scalar_cfg) := map (fun kv => (fst kv, to_x (snd kv))) m.

(** [SchemaTypePrinterOptions::from_config] (C17's model, raw iteration of the config map) feeding C10's options *)
Definition sopts_pi (pi : oracle) (cfg : hmap scfg) (meta : str) (optional runtime : bool) : X.sopts :=
  X.mkSOpts (x_scalars (from_config pi cfg)) meta optional runtime.

(** [SchemaTypePrinterContext::new] with [scalar_types] stored — and its [values()] iterated by
    [get_bag_of_identifiers] — in oracle order *)
Definition make_ctx_pi (pi : oracle) (o : X.sopts) (doc : tsdoc) (t : X.target) : X.ctx :=
  let sc := pi X.scalar_cfg (X.get_scalar_types o doc) in
  X.mkCtx o doc t sc (X.get_bag_of_identifiers sc).

Definition namespace_members_pi (pi : oracle) (o : X.sopts) (doc : tsdoc) (t : X.target) :=
  X.mapM (X.def_member (make_ctx_pi pi o doc t)) doc.

Definition schema_decls_pi (pi : oracle) (o : X.sopts) (doc : tsdoc) :=
  X.mapM (fun t => X.bind (namespace_members_pi pi o doc t) (fun ms => X.Ok (t, ms))) X.all_targets.

Definition print_representatives_pi (pi : oracle) (o : X.sopts) (doc : tsdoc) : X.res (list wop) :=
  let c := make_ctx_pi pi o doc X.OpOut in
  X.bind (X.mapM (fun d => match d with
                           | TSType t => X.bind (X.print_representative c t) (fun ops => X.Ok (ops ++ [W X.nl]))
                           | _ => X.Ok [W X.nl]
                           end) doc) (fun l => X.Ok (concat l)).

Definition print_schema_pi (pi : oracle) (o : X.sopts) (doc : tsdoc) : X.res (list wop) :=
  X.bind (schema_decls_pi pi o doc) (fun nss =>
  X.bind (print_representatives_pi pi o doc) (fun reps =>
  X.Ok (X.print_prelude o doc ++ flat_map X.print_namespace nss ++ reps))).

(** the full schema declaration file, as writer operations, with both raw-iteration sites under an oracle *)
Definition full_schema (pi_cfg pi_ctx : oracle) (cfg : hmap scfg) (meta : str) (optional runtime : bool)
           (doc : tsdoc) : X.res (list wop) :=
  print_schema_pi pi_ctx (sopts_pi pi_cfg cfg meta optional runtime) doc.

(** schema file and resolvers file together ([plugins] = number of model-plugin instances) *)
Definition full_gen (pi_cfg pi_ctx : oracle) (cfg : hmap scfg) (meta : str) (optional runtime : bool)
           (ro : X.ropts) (plugins : nat) (doc : tsdoc) : X.res (list wop) * X.res (list wop) :=
  (full_schema pi_cfg pi_ctx cfg meta optional runtime doc, X.print_resolvers ro plugins doc).

(* ------------------------------------------------------------------------------------------- *)
(** * with the identity oracle this IS C10's model *)

Lemma print_schema_pi_id o doc : print_schema_pi o_id o doc = X.print_schema o doc.
Proof. reflexivity. Qed.

Lemma full_schema_id cfg meta optional runtime doc :
  full_schema o_id o_id cfg meta optional runtime doc
  = X.print_schema (X.mkSOpts (x_scalars (hm_extend builtin_scalar_types cfg)) meta optional runtime) doc.
Proof. reflexivity. Qed.

(* ------------------------------------------------------------------------------------------- *)
(** * C10's functions only look up *)

Lemma bind_ext {A B} (a a' : X.res A) (f f' : A -> X.res B) :
  a = a' -> (forall x, f x = f' x) -> X.bind a f = X.bind a' f'.
Proof. intros -> H. destruct a'; cbn; [apply H|reflexivity|reflexivity]. Qed.

Lemma mapM_ext {A B} (f f' : A -> X.res B) l : (forall x, f x = f' x) -> X.mapM f l = X.mapM f' l.
Proof.
  intros H. induction l as [|x r IH]; [reflexivity|]. cbn [X.mapM].
  apply bind_ext; [apply H|]. intros y. apply bind_ext; [exact IH|reflexivity].
Qed.

(** two contexts that agree on everything the printer can observe by lookups *)
Record ctx_eq (c c' : X.ctx) : Prop := mk_ctx_eq {
  ce_doc : X.c_doc c = X.c_doc c';
  ce_target : X.c_target c = X.c_target c';
  ce_optional : X.so_optional (X.c_opts c) = X.so_optional (X.c_opts c');
  ce_runtime : X.so_runtime (X.c_opts c) = X.so_runtime (X.c_opts c');
  ce_scalars : forall k, assoc k (X.c_scalars c) = assoc k (X.c_scalars c');
  ce_bag : forall n, X.mem n (X.c_bag c) = X.mem n (X.c_bag c') }.

Section CtxEq.
  Variables c c' : X.ctx.
  Hypothesis E : ctx_eq c c'.

  Lemma local_type_name_eq n : X.local_type_name c n = X.local_type_name c' n.
  Proof. unfold X.local_type_name, X.local_name. now rewrite (ce_doc _ _ E), (ce_bag _ _ E). Qed.

  Lemma local_or_panic_eq n : X.local_type_name_or_panic c n = X.local_type_name_or_panic c' n.
  Proof. unfold X.local_type_name_or_panic. now rewrite local_type_name_eq. Qed.

  Lemma ts_of_type_local_eq t : X.ts_of_type_local c t = X.ts_of_type_local c' t.
  Proof. unfold X.ts_of_type_local. now rewrite local_or_panic_eq. Qed.

  Lemma type_member_eq t : X.type_member c t = X.type_member c' t.
  Proof.
    destruct t as [d p n dirs kw|d p n impls dirs fields kw|d p n impls dirs fields kw
                  |d p n dirs members kw|d p n dirs vals kw|d p n dirs fields kw]; cbn [X.type_member].
    - rewrite (ce_scalars _ _ E). destruct (assoc (iname n) (X.c_scalars c')); [|reflexivity].
      rewrite (ce_target _ _ E). apply bind_ext; [apply local_or_panic_eq|reflexivity].
    - unfold X.is_input. rewrite (ce_target _ _ E). destruct (negb (X.is_output (X.c_target c'))); [reflexivity|].
      apply bind_ext.
      + apply mapM_ext. intros fd. rewrite (ce_doc _ _ E). apply bind_ext; [apply ts_of_type_local_eq|reflexivity].
      + intros fs. apply bind_ext; [apply local_or_panic_eq|reflexivity].
    - unfold X.is_input. rewrite (ce_target _ _ E). destruct (negb (X.is_output (X.c_target c'))); [reflexivity|].
      rewrite (ce_doc _ _ E).
      rewrite (map_ext (fun o => TVar (match X.local_type_name c (iname o) with Some l => l | None => iname o end) pos0)
                       (fun o => TVar (match X.local_type_name c' (iname o) with Some l => l | None => iname o end) pos0))
        by (intros; now rewrite local_type_name_eq).
      apply bind_ext; [apply local_or_panic_eq|reflexivity].
    - unfold X.is_input. rewrite (ce_target _ _ E). destruct (negb (X.is_output (X.c_target c'))); [reflexivity|].
      rewrite (map_ext (fun m => match X.local_type_name c (iname m) with
                                 | Some l => if str_eqb l (iname m) then TVar (iname m) (ipos m) else TVar l pos0
                                 | None => TVar (iname m) (ipos m) end)
                       (fun m => match X.local_type_name c' (iname m) with
                                 | Some l => if str_eqb l (iname m) then TVar (iname m) (ipos m) else TVar l pos0
                                 | None => TVar (iname m) (ipos m) end))
        by (intros; now rewrite local_type_name_eq).
      apply bind_ext; [apply local_or_panic_eq|reflexivity].
    - apply bind_ext; [apply local_or_panic_eq|reflexivity].
    - rewrite (ce_target _ _ E). destruct (X.is_output (X.c_target c')); [reflexivity|].
      apply bind_ext.
      + apply mapM_ext. intros iv. rewrite (ce_doc _ _ E), (ce_optional _ _ E).
        destruct (X.schema_input_field_deprecation (X.c_doc c') (iname n) (iname (iv_name iv))); [|reflexivity].
        apply bind_ext; [apply ts_of_type_local_eq|reflexivity].
      + intros fs. apply bind_ext; [apply local_or_panic_eq|reflexivity].
  Qed.

  Lemma def_member_eq d : X.def_member c d = X.def_member c' d.
  Proof. destruct d; cbn [X.def_member]; try reflexivity. apply type_member_eq. Qed.

  Lemma print_representative_eq t : X.print_representative c t = X.print_representative c' t.
  Proof.
    unfold X.print_representative. apply bind_ext; [apply local_or_panic_eq|].
    intros l. now rewrite (ce_runtime _ _ E).
  Qed.
End CtxEq.

(* ------------------------------------------------------------------------------------------- *)
(** * lookups in the oracle-ordered maps *)

Lemma assoc_hm_get {V} (m : list (str * V)) k : assoc k m = hm_get m k.
Proof.
  induction m as [|[k' v] r IH]; [reflexivity|]. cbn [assoc hm_get]. rewrite (str_eqb_sym k k').
  destruct (str_eqb k' k); [reflexivity|exact IH].
Qed.

Lemma assoc_x_scalars (m : hmap scfg) k : assoc k (x_scalars m) = option_map to_x (hm_get m k).
Proof.
  induction m as [|[k' v] r IH]; [reflexivity|]. cbn [x_scalars map assoc hm_get fst snd].
  rewrite (str_eqb_sym k k'). destruct (str_eqb k' k); [reflexivity|exact IH].
Qed.

Lemma so_scalars_lookup (pi pi' : oracle) cfg meta optional runtime k :
  is_oracle pi -> is_oracle pi' -> NoDup (keys cfg) ->
  assoc k (X.so_scalars (sopts_pi pi cfg meta optional runtime))
  = assoc k (X.so_scalars (sopts_pi pi' cfg meta optional runtime)).
Proof.
  intros H H' Hnd. cbn [sopts_pi X.so_scalars]. rewrite !assoc_x_scalars.
  now rewrite (from_config_oracle_irrelevant pi pi' cfg k H H' Hnd).
Qed.

(** [get_scalar_types] reads the option table by key only *)
Lemma get_scalar_types_lookup_only (o o' : X.sopts) doc :
  (forall k, assoc k (X.so_scalars o) = assoc k (X.so_scalars o')) ->
  X.get_scalar_types o doc = X.get_scalar_types o' doc.
Proof.
  intros H. unfold X.get_scalar_types, X.scalar_entries. f_equal. apply flat_map_ext.
  intros [d p n dirs kw| | | | |]; try reflexivity. now rewrite H.
Qed.

Lemma mem_existsb x l : X.mem x l = existsb (str_eqb x) l.
Proof. reflexivity. Qed.

Lemma dedup_last_keys_nodup {A} (l : list (str * A)) : NoDup (keys (X.dedup_last l)).
Proof.
  induction l as [|[k v] r IH]; [constructor|]. cbn [X.dedup_last].
  destruct (X.mem k (map fst r)) eqn:Em; [exact IH|].
  cbn [keys map fst]. constructor; [|exact IH].
  intros Hin. assert (Hin' : In k (map fst r)).
  { clear - Hin. induction r as [|[k' v'] r IH]; [destruct Hin|]. cbn [X.dedup_last] in Hin.
    destruct (X.mem k' (map fst r)); cbn [map fst]; [right; now apply IH|].
    cbn [keys map fst] in Hin. destruct Hin as [->|Hin]; [now left|right; now apply IH]. }
  rewrite mem_existsb in Em. apply existsb_str_in in Hin'. congruence.
Qed.

Lemma make_ctx_pi_eq (pi pi' : oracle) (o o' : X.sopts) doc t :
  is_oracle pi -> is_oracle pi' ->
  (forall k, assoc k (X.so_scalars o) = assoc k (X.so_scalars o')) ->
  X.so_optional o = X.so_optional o' -> X.so_runtime o = X.so_runtime o' ->
  ctx_eq (make_ctx_pi pi o doc t) (make_ctx_pi pi' o' doc t).
Proof.
  intros H H' Hs Ho Hr. unfold make_ctx_pi. cbv zeta.
  rewrite <- (get_scalar_types_lookup_only o o' doc Hs).
  set (g := X.get_scalar_types o doc).
  assert (Hp : Permutation (pi X.scalar_cfg g) (pi' X.scalar_cfg g))
    by (eapply Permutation_trans; [apply H|apply Permutation_sym, H']).
  constructor; cbn [X.c_doc X.c_target X.c_opts X.c_scalars X.c_bag]; try reflexivity; try assumption.
  - intros k. rewrite !assoc_hm_get. apply hm_get_perm; [exact Hp|].
    apply oracle_keys_nodup; [exact H|]. unfold g, X.get_scalar_types. apply dedup_last_keys_nodup.
  - intros n. rewrite !mem_existsb. apply existsb_perm. unfold X.get_bag_of_identifiers.
    now apply Permutation_flat_map.
Qed.

(* ------------------------------------------------------------------------------------------- *)
(** * the full output does not depend on the oracles *)

Lemma print_schema_pi_irrelevant (pi pi' : oracle) (o o' : X.sopts) doc :
  is_oracle pi -> is_oracle pi' ->
  (forall k, assoc k (X.so_scalars o) = assoc k (X.so_scalars o')) ->
  X.so_meta o = X.so_meta o' -> X.so_optional o = X.so_optional o' -> X.so_runtime o = X.so_runtime o' ->
  print_schema_pi pi o doc = print_schema_pi pi' o' doc.
Proof.
  intros H H' Hs Hm Ho Hr. unfold print_schema_pi.
  apply bind_ext.
  - unfold schema_decls_pi. apply mapM_ext. intros t. apply bind_ext; [|reflexivity].
    unfold namespace_members_pi. apply mapM_ext. intros d.
    apply def_member_eq. now apply make_ctx_pi_eq.
  - intros nss. apply bind_ext.
    + unfold print_representatives_pi. cbv zeta. apply bind_ext; [|reflexivity].
      apply mapM_ext. intros [sd|t|dd|se|te]; try reflexivity.
      apply bind_ext; [|reflexivity]. apply print_representative_eq. now apply make_ctx_pi_eq.
    + intros reps. unfold X.print_prelude. now rewrite Hm.
Qed.

(** the whole schema declaration file (text AND source-map entries: the writer-operation list determines
    both, C06) is the same for every iteration order of [config.scalar_types] and of the context's
    [scalar_types] *)
Lemma full_schema_oracle_irrelevant (p1 p2 p1' p2' : oracle) cfg meta optional runtime doc :
  is_oracle p1 -> is_oracle p2 -> is_oracle p1' -> is_oracle p2' -> NoDup (keys cfg) ->
  full_schema p1 p2 cfg meta optional runtime doc = full_schema p1' p2' cfg meta optional runtime doc.
Proof.
  intros H1 H2 H1' H2' Hnd. unfold full_schema.
  apply print_schema_pi_irrelevant; try assumption; try reflexivity.
  intros k. now apply so_scalars_lookup.
Qed.

Lemma full_gen_oracle_irrelevant (p1 p2 p1' p2' : oracle) cfg meta optional runtime ro plugins doc :
  is_oracle p1 -> is_oracle p2 -> is_oracle p1' -> is_oracle p2' -> NoDup (keys cfg) ->
  full_gen p1 p2 cfg meta optional runtime ro plugins doc = full_gen p1' p2' cfg meta optional runtime ro plugins doc.
Proof.
  intros H1 H2 H1' H2' Hnd. unfold full_gen. f_equal. now apply full_schema_oracle_irrelevant.
Qed.

(** in particular every oracle gives C10's own [print_schema] *)
Lemma full_schema_is_print_schema (p1 p2 : oracle) cfg meta optional runtime doc :
  is_oracle p1 -> is_oracle p2 -> NoDup (keys cfg) ->
  full_schema p1 p2 cfg meta optional runtime doc
  = X.print_schema (X.mkSOpts (x_scalars (hm_extend builtin_scalar_types cfg)) meta optional runtime) doc.
Proof.
  intros H1 H2 Hnd. rewrite <- full_schema_id.
  apply full_schema_oracle_irrelevant; try assumption; apply o_id_is_oracle.
Qed.

(* ------------------------------------------------------------------------------------------- *)
(** * the resolver printer's [ts_types] map is read by key only *)

(** everything [resolver_structure] does after the map has been built *)
Definition resolver_tail (o : X.ropts) (plugins : nat) (doc : tsdoc) (ts_types : X.tymap) : X.res X.resolver_decls :=
  let doc' := nat_rect (fun _ => tsdoc) doc (fun _ d => X.model_transform_doc d) plugins in
  let defs := X.typedefs doc' in
  let out_defs := filter (fun t => negb (X.is_input_def t)) defs in
  X.bind (X.mapM (fun t => match assoc (X.tname t) ts_types with
                           | Some ty => X.Ok (typedef_name t, ty)
                           | None => X.Panic 4
                           end) out_defs) (fun aliases =>
  X.Ok (X.mkRDecls aliases
        (TObject (flat_map (fun t => match X.get_resolver_type o doc t with
                                     | Some rt => [mkField (X.tname t) (ipos (typedef_name t)) rt false (X.is_empty_object rt) None]
                                     | None => []
                                     end) defs))
        (ts_union (map (fun t => TStrLit (X.tname t)) out_defs))
        (TObject (map (fun t => mkField (X.tname t) (ipos (typedef_name t)) (X.tvar_id (typedef_name t)) false false None)
                      out_defs)))).

Definition resolver_map (o : X.ropts) (plugins : nat) (doc : tsdoc) : X.res X.tymap :=
  let base : X.tymap := fold_left (fun acc t => (X.tname t, X.resolver_output_type o doc t) :: acc) (X.typedefs doc) [] in
  nat_rect (fun _ => X.res X.tymap) (X.Ok base)
           (fun _ acc => X.bind acc (X.model_transform_types o (X.typedefs doc))) plugins.

Lemma resolver_structure_split o plugins doc :
  X.resolver_structure o plugins doc = X.bind (resolver_map o plugins doc) (resolver_tail o plugins doc).
Proof. reflexivity. Qed.

(** any map with the same lookups (in particular any reordering that keeps them) gives the same file *)
Lemma resolver_tail_lookup_only o plugins doc (m m' : X.tymap) :
  (forall k, assoc k m = assoc k m') -> resolver_tail o plugins doc m = resolver_tail o plugins doc m'.
Proof.
  intros H. unfold resolver_tail. cbv zeta. apply bind_ext; [|reflexivity].
  apply mapM_ext. intros t. now rewrite H.
Qed.

(** the plugin's transform of the map ([get_mut]/[insert]) preserves lookup-equivalence *)
Lemma model_transform_types_lookup_only o defs : forall (m m' : X.tymap),
  (forall k, assoc k m = assoc k m') ->
  match X.model_transform_types o defs m, X.model_transform_types o defs m' with
  | X.Ok r, X.Ok r' => forall k, assoc k r = assoc k r'
  | X.ErrScalar n p, X.ErrScalar n' p' => n = n' /\ p = p'
  | X.Panic a, X.Panic b => a = b
  | _, _ => False
  end.
Proof.
  induction defs as [|t r IH]; intros m m' H; cbn [X.model_transform_types]; [exact H|].
  assert (Hcons : forall (k0 : str) (v0 : tstype) k, assoc k ((k0, v0) :: m) = assoc k ((k0, v0) :: m')).
  { intros k0 v0 k. cbn [assoc]. now rewrite H. }
  destruct t as [d p n dirs kw|d p n impls dirs fields kw| | | |]; try (apply IH; exact H).
  destruct (find (fun d0 => str_eqb (iname (dir_name d0)) X.MODEL) dirs) as [dm|].
  - destruct (find (fun kv => str_eqb (iname (fst kv)) (s "type"))
                   (match dir_args dm with Some a => args_list a | None => [] end)) as [[i v]|]; [|reflexivity].
    destruct v; try (apply IH; exact H). apply IH. apply Hcons.
  - apply IH. apply Hcons.
Qed.

Definition tymap_res_eq (a b : X.res X.tymap) : Prop :=
  match a, b with
  | X.Ok r, X.Ok r' => forall k, assoc k r = assoc k r'
  | X.ErrScalar n p, X.ErrScalar n' p' => n = n' /\ p = p'
  | X.Panic x, X.Panic y => x = y
  | _, _ => False
  end.

Definition resolver_map_from (o : X.ropts) (plugins : nat) (doc : tsdoc) (base : X.tymap) : X.res X.tymap :=
  nat_rect (fun _ => X.res X.tymap) (X.Ok base)
           (fun _ acc => X.bind acc (X.model_transform_types o (X.typedefs doc))) plugins.

Lemma resolver_map_from_lookup_only o plugins doc (m m' : X.tymap) :
  (forall k, assoc k m = assoc k m') ->
  tymap_res_eq (resolver_map_from o plugins doc m) (resolver_map_from o plugins doc m').
Proof.
  intros H. induction plugins as [|n IH]; [exact H|].
  unfold resolver_map_from in *. cbn [nat_rect].
  destruct (nat_rect (fun _ => X.res X.tymap) (X.Ok m) _ n) as [r|a b|a];
    destruct (nat_rect (fun _ => X.res X.tymap) (X.Ok m') _ n) as [r'|a' b'|a']; cbn [tymap_res_eq X.bind] in *;
    try contradiction; try assumption.
  apply (model_transform_types_lookup_only o (X.typedefs doc) r r' IH).
Qed.

(** the resolvers file does not depend on how the [ts_types] map is laid out: starting from ANY map with the
    lookups of the collected one (e.g. the same entries in another order, duplicates resolved the same way)
    the printer produces the same declarations *)
Lemma resolver_structure_lookup_only o plugins doc (m : X.tymap) :
  (forall k, assoc k m = assoc k (fold_left (fun acc t => (X.tname t, X.resolver_output_type o doc t) :: acc) (X.typedefs doc) [])) ->
  X.bind (resolver_map_from o plugins doc m) (resolver_tail o plugins doc) = X.resolver_structure o plugins doc.
Proof.
  intros H. rewrite resolver_structure_split. unfold resolver_map.
  fold (resolver_map_from o plugins doc (fold_left (fun acc t => (X.tname t, X.resolver_output_type o doc t) :: acc) (X.typedefs doc) [])).
  pose proof (resolver_map_from_lookup_only o plugins doc _ _ H) as R.
  destruct (resolver_map_from o plugins doc m) as [r|a b|a];
    destruct (resolver_map_from o plugins doc _) as [r'|a' b'|a']; cbn [tymap_res_eq X.bind] in *; try contradiction.
  - now apply resolver_tail_lookup_only.
  - destruct R; now subst.
  - now subst.
Qed.
