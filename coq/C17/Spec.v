(** C17 — specification-side definitions (no proofs): what the verdict of the schema-extension resolver must
    be, read off the multiset of definitions.  Used by Proofs.v (theorem [resolve_verdict]) and by Corr.v
    ([holds], evaluated on the implementation's output). *)
From V Require Import Base.Util C17.Model.

Definition idefs (its : list item) : list adef :=
  flat_map (fun it => match it with IDef d => [d] | _ => [] end) its.

Definition slot_eqb (a b : adef) : bool := kind_eqb (d_kind a) (d_kind b) && str_eqb (d_name a) (d_name b).
Definition originals (l : list adef) : list adef := filter (fun d => negb (d_ext d)) l.

(** no two definitions of the list occupy the same (kind, name) slot *)
Fixpoint snodup (l : list adef) : bool :=
  match l with [] => true | d :: r => negb (existsb (slot_eqb d) r) && snodup r end.

Definition has_orphan (l : list adef) : bool :=
  existsb (fun e => d_ext e && negb (existsb (fun o => negb (d_ext o) && slot_eqb e o) l)) l.

Definition eclass (e : xerr) : N := match e with DuplicateOriginal _ _ _ _ => 1%N | NoOriginal _ _ => 2%N end.

Definition vclass (r : res xerr (list item)) : N := match r with Ok _ => 0%N | Err e => eclass e end.

(** 0 = resolves, 1 = two originals share a (kind, name) slot, 2 = an extension has no original *)
Definition expected_class (its : list item) : N :=
  if negb (snodup (originals (idefs its))) then 1%N else if has_orphan (idefs its) then 2%N else 0%N.

(** first insertion wins in general: the names are the first occurrences, in order *)
Fixpoint dedup (seen l : list str) : list str :=
  match l with
  | [] => []
  | x :: r => if existsb (str_eqb x) seen then dedup seen r else x :: dedup (seen ++ [x]) r
  end.

