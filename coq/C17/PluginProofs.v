(** C17 — order-independence theorems for the remaining raw-iteration sites:
    the graphql-scalars plugin ([load_schema_extensions]: re-inserted under the own keys; [schema_addition]:
    "sorted afterwards") and the loader's [get_required_files] over [iter_loaded_files] (order-insensitive
    consumer: the answer is a set). *)
From V Require Import Base.Util C17.Model C17.Proofs.
From Coq Require Import Permutation Sorting.Sorted.

(* ------------------------------------------------------------------------------------------- *)
(** * sorting by a total preorder: the result of a sort does not depend on the order of its input
      when no two distinct elements are equivalent *)

Section GSort.
  Context {A : Type} (leb : A -> A -> bool).
  Hypothesis leb_total : forall a b, leb a b = true \/ leb b a = true.
  Hypothesis leb_trans : forall a b c, leb a b = true -> leb b c = true -> leb a c = true.
  Definition gle (a b : A) : Prop := leb a b = true.

  Lemma ins_leb_perm x l : Permutation (ins_leb leb x l) (x :: l).
  Proof.
    induction l as [|y r IH]; cbn [ins_leb]; [apply Permutation_refl|].
    destruct (leb x y); [apply Permutation_refl|].
    eapply Permutation_trans; [apply perm_skip, IH|apply perm_swap].
  Qed.

  Lemma sort_leb_perm l : Permutation (sort_leb leb l) l.
  Proof.
    unfold sort_leb. induction l as [|x r IH]; cbn [fold_right]; [constructor|].
    eapply Permutation_trans; [apply ins_leb_perm|now apply perm_skip].
  Qed.

  Lemma ins_leb_sorted x l : StronglySorted gle l -> StronglySorted gle (ins_leb leb x l).
  Proof.
    induction l as [|y r IH]; intros Hs; cbn [ins_leb].
    - repeat constructor.
    - inversion Hs as [|? ? Hr Hall]; subst.
      destruct (leb x y) eqn:E.
      + constructor; [exact Hs|]. constructor; [exact E|].
        rewrite Forall_forall in *. intros z Hz. eapply leb_trans; [exact E|]. now apply Hall.
      + constructor; [now apply IH|].
        rewrite Forall_forall in *. intros z Hz.
        apply (Permutation_in _ (ins_leb_perm x r)) in Hz. destruct Hz as [<-|Hz]; [|now apply Hall].
        unfold gle. destruct (leb_total x y); congruence.
  Qed.

  Lemma sort_leb_sorted l : StronglySorted gle (sort_leb leb l).
  Proof.
    unfold sort_leb. induction l as [|x r IH]; cbn [fold_right]; [constructor|now apply ins_leb_sorted].
  Qed.

  Lemma gsorted_unique l1 : forall l2,
    StronglySorted gle l1 -> StronglySorted gle l2 -> Permutation l1 l2 ->
    (forall x y, In x l1 -> In y l1 -> gle x y -> gle y x -> x = y) -> l1 = l2.
  Proof.
    induction l1 as [|a r1 IH]; intros l2 H1 H2 Hp Hanti.
    - apply Permutation_nil in Hp. now subst.
    - destruct l2 as [|b r2]; [apply Permutation_sym, Permutation_nil in Hp; discriminate|].
      inversion H1 as [|? ? Hs1 Ha]; subst. inversion H2 as [|? ? Hs2 Hb]; subst.
      rewrite Forall_forall in Ha, Hb.
      assert (Eab : a = b).
      { assert (Hain : In a (b :: r2)) by (eapply Permutation_in; [exact Hp|now left]).
        assert (Hbin : In b (a :: r1)) by (eapply Permutation_in; [apply Permutation_sym, Hp|now left]).
        destruct Hain as [->|Hain]; [reflexivity|]. destruct Hbin as [->|Hbin]; [reflexivity|].
        apply Hanti; [now left|now right|now apply Ha|now apply Hb]. }
      subst b. f_equal. apply IH; try assumption.
      + eapply Permutation_cons_inv; exact Hp.
      + intros x y Hx Hy. apply Hanti; now right.
  Qed.

  Lemma sort_leb_order_irrelevant l l' :
    Permutation l l' ->
    (forall x y, In x l -> In y l -> gle x y -> gle y x -> x = y) ->
    sort_leb leb l = sort_leb leb l'.
  Proof.
    intros Hp Hanti. apply gsorted_unique; try apply sort_leb_sorted.
    - eapply Permutation_trans; [apply sort_leb_perm|].
      eapply Permutation_trans; [exact Hp|apply Permutation_sym, sort_leb_perm].
    - intros x y Hx Hy. apply Hanti; eapply Permutation_in; try apply sort_leb_perm; assumption.
  Qed.
End GSort.

(* ------------------------------------------------------------------------------------------- *)
(** * the order of strings *)

Lemma str_leb_total a : forall b, str_leb a b = true \/ str_leb b a = true.
Proof.
  induction a as [|x a IH]; intros [|y b]; cbn [str_leb]; try (now left); try (now right).
  destruct (N.ltb_spec x y) as [H|H]; [now left|].
  destruct (N.ltb_spec y x) as [H'|H']; [now right|].
  assert (E : x = y) by lia. subst y. rewrite N.eqb_refl. cbn [orb andb]. apply IH.
Qed.

Lemma str_leb_trans a : forall b c, str_leb a b = true -> str_leb b c = true -> str_leb a c = true.
Proof.
  induction a as [|x a IH]; intros [|y b] [|z c]; cbn [str_leb]; try reflexivity; try discriminate.
  intros H1 H2. apply orb_true_iff in H1. apply orb_true_iff in H2. apply orb_true_iff.
  rewrite !andb_true_iff, !N.ltb_lt, !N.eqb_eq in *.
  destruct H1 as [H1|[E1 L1]], H2 as [H2|[E2 L2]]; [left; lia|left; lia|left; lia|].
  right. split; [lia|]. eapply IH; eassumption.
Qed.

Lemma str_leb_antisym a : forall b, str_leb a b = true -> str_leb b a = true -> a = b.
Proof.
  induction a as [|x a IH]; intros [|y b]; cbn [str_leb]; try reflexivity; try discriminate.
  intros H1 H2. apply orb_true_iff in H1. apply orb_true_iff in H2.
  rewrite !andb_true_iff, !N.ltb_lt, !N.eqb_eq in *.
  destruct H1 as [H1|[E1 L1]], H2 as [H2|[E2 L2]]; try lia.
  subst y. f_equal. now apply IH.
Qed.

(* ------------------------------------------------------------------------------------------- *)
(** * graphql-scalars plugin *)

Definition key_leb {V} (a b : str * V) : bool := str_leb (fst a) (fst b).

Lemma NoDup_keys_inj {V} (l : hmap V) x y : NoDup (keys l) -> In x l -> In y l -> fst x = fst y -> x = y.
Proof.
  induction l as [|a r IH]; intros Hnd Hx Hy E; [destruct Hx|].
  cbn [keys map] in Hnd. inversion Hnd as [|? ? Hn Hr]; subst.
  destruct Hx as [->|Hx], Hy as [->|Hy]; try reflexivity.
  - exfalso. apply Hn. rewrite E. now apply in_map.
  - exfalso. apply Hn. rewrite <- E. now apply in_map.
  - now apply IH.
Qed.

(** "sorted afterwards": sorting the entries of a map by key gives the same list for every iteration order *)
Lemma sort_by_key_order_irrelevant {V} (l l' : hmap V) :
  Permutation l l' -> NoDup (keys l) -> sort_leb key_leb l = sort_leb key_leb l'.
Proof.
  intros Hp Hnd. apply sort_leb_order_irrelevant.
  - intros a b. apply str_leb_total.
  - intros a b c. apply str_leb_trans.
  - exact Hp.
  - intros x y Hx Hy H1 H2. apply (NoDup_keys_inj l); try assumption.
    now apply str_leb_antisym.
Qed.

(** site: plugin/src/graphql_scalars_plugin/mod.rs schema_addition, scalar_extensions.iter() *)
Lemma schema_addition_perm (pi pi' : oracle) (m m' : hmap scfg) :
  is_oracle pi -> is_oracle pi' -> Permutation m m' -> NoDup (keys m) ->
  schema_addition pi m = schema_addition pi' m'.
Proof.
  intros H H' Hp Hnd. unfold schema_addition. cbv zeta.
  fold (@key_leb scfg).
  rewrite (sort_by_key_order_irrelevant (pi scfg m) (pi' scfg m')); [reflexivity| |].
  - eapply Permutation_trans; [apply H|]. eapply Permutation_trans; [exact Hp|apply Permutation_sym, H'].
  - now apply oracle_keys_nodup.
Qed.

Lemma schema_addition_oracle_irrelevant (pi pi' : oracle) (m : hmap scfg) :
  is_oracle pi -> is_oracle pi' -> NoDup (keys m) -> schema_addition pi m = schema_addition pi' m.
Proof. intros H H' Hnd. apply schema_addition_perm; try assumption. apply Permutation_refl. Qed.

Definition ext_sel (kv : str * xext) : list (str * scfg) :=
  match scalar_extension_of (snd kv) with Some c => [(fst kv, c)] | None => [] end.

Lemma ext_sel_keys_nodup (l : hmap xext) : NoDup (keys l) -> NoDup (keys (flat_map ext_sel l)).
Proof.
  induction l as [|[k0 v0] r IH]; intros Hl; [constructor|].
  cbn [keys map fst] in Hl. inversion Hl as [|? ? Hn Hr]; subst.
  cbn [flat_map]. unfold ext_sel at 1. cbn [fst snd]. destruct (scalar_extension_of v0); cbn [app]; [|now apply IH].
  cbn [keys map fst]. constructor; [|now apply IH].
  intros Hin. apply Hn. unfold keys in Hin. apply in_map_iff in Hin. destruct Hin as ([k1 v1] & E & Hin).
  cbn [fst] in E. subst k1. apply in_flat_map in Hin. destruct Hin as ([k2 v2] & Hin2 & Hs).
  unfold ext_sel in Hs. cbn [fst snd] in Hs. destruct (scalar_extension_of v2); [|destruct Hs].
  destruct Hs as [E|[]]. inversion E; subst. apply in_map_iff. now exists (k0, v2).
Qed.

(** site: load_schema_extensions, `for … in extensions.type_extensions`: the plugin's map afterwards is, as a
    list, the selected entries in iteration order — a permutation for any two orders, with unique keys *)
Lemma load_schema_extensions_list (pi : oracle) (exts : hmap xext) :
  is_oracle pi -> NoDup (keys exts) ->
  load_schema_extensions pi [] exts = flat_map ext_sel (pi xext exts).
Proof.
  intros H Hnd. unfold load_schema_extensions. fold ext_sel.
  change (hm_extend [] (flat_map ext_sel (pi xext exts))) with (hm_collect (flat_map ext_sel (pi xext exts))).
  apply hm_collect_nodup. apply ext_sel_keys_nodup. now apply oracle_keys_nodup.
Qed.

Lemma load_schema_extensions_lookup (pi : oracle) (exts : hmap xext) k :
  is_oracle pi -> NoDup (keys exts) ->
  hm_get (load_schema_extensions pi [] exts) k =
  match hm_get exts k with Some e => scalar_extension_of e | None => None end.
Proof.
  intros H Hnd. rewrite load_schema_extensions_list by assumption.
  rewrite (hm_get_perm (flat_map ext_sel (pi xext exts)) (flat_map ext_sel exts) k).
  - clear H. induction exts as [|[k0 v0] r IH]; [reflexivity|].
    cbn [keys map fst] in Hnd. inversion Hnd as [|? ? Hn Hr]; subst.
    cbn [flat_map hm_get]. unfold ext_sel at 1. cbn [fst snd].
    destruct (str_eqb_spec k0 k) as [->|Hne].
    + destruct (scalar_extension_of v0); cbn [app hm_get]; [now rewrite str_eqb_refl|].
      rewrite (IH Hr). assert (E : hm_get r k = None) by (now apply hm_get_None_not_in). now rewrite E.
    + destruct (scalar_extension_of v0); cbn [app hm_get]; [|now apply IH].
      destruct (str_eqb_spec k0 k); [contradiction|now apply IH].
  - apply Permutation_flat_map, H.
  - apply ext_sel_keys_nodup. now apply oracle_keys_nodup.
Qed.

(** the text the plugin adds to the schema is the same for every iteration order of both maps *)
Lemma plugin_schema_addition_oracle_irrelevant (p1 p2 p1' p2' : oracle) (exts : hmap xext) :
  is_oracle p1 -> is_oracle p2 -> is_oracle p1' -> is_oracle p2' -> NoDup (keys exts) ->
  plugin_schema_addition p1 p2 exts = plugin_schema_addition p1' p2' exts.
Proof.
  intros H1 H2 H1' H2' Hnd. unfold plugin_schema_addition.
  rewrite !load_schema_extensions_list by assumption.
  apply schema_addition_perm; try assumption.
  - apply Permutation_flat_map. eapply Permutation_trans; [apply H1|apply Permutation_sym, H1'].
  - apply ext_sel_keys_nodup. now apply oracle_keys_nodup.
Qed.

(* ------------------------------------------------------------------------------------------- *)
(** * loader: get_required_files *)

Lemma required_step_fold loaded paths : forall acc x,
  In x (fold_left (required_step loaded) paths acc) <->
  In x acc \/ (In x paths /\ hm_mem loaded x = false).
Proof.
  induction paths as [|p r IH]; intros acc x; cbn [fold_left].
  - split; [now left|intros [H|[[] _]]; exact H].
  - rewrite IH. unfold required_step.
    destruct (hm_mem loaded p) eqn:Em; cbn [orb].
    + split.
      * intros [H|[H1 H2]]; [now left|right; split; [now right|exact H2]].
      * intros [H|[[->|H1] H2]]; [now left|congruence|right; now split].
    + destruct (existsb (str_eqb p) acc) eqn:Ex.
      * apply existsb_str_in in Ex. split.
        -- intros [H|[H1 H2]]; [now left|right; split; [now right|exact H2]].
        -- intros [H|[[->|H1] H2]]; [now left|now left|right; now split].
      * rewrite in_app_iff. cbn [In]. split.
        -- intros [[H|[->|[]]]|[H1 H2]]; [now left|right; split; [now left|exact Em]|right; split; [now right|exact H2]].
        -- intros [H|[[->|H1] H2]]; [left; now left|left; right; now left|right; now split].
Qed.

Lemma required_step_nodup loaded paths : forall acc, NoDup acc -> NoDup (fold_left (required_step loaded) paths acc).
Proof.
  induction paths as [|p r IH]; intros acc Hnd; cbn [fold_left]; [exact Hnd|]. apply IH.
  unfold required_step. destruct (hm_mem loaded p || existsb (str_eqb p) acc) eqn:E; [exact Hnd|].
  apply orb_false_iff in E. destruct E as [_ Ex]. apply NoDup_snoc; [exact Hnd|].
  intros Hin. apply existsb_str_in in Hin. congruence.
Qed.

Lemma required_outer_in loaded (l : hmap (list str)) : forall acc x,
  In x (fold_left (fun acc kv => fold_left (required_step loaded) (snd kv) acc) l acc) <->
  In x acc \/ (exists kv, In kv l /\ In x (snd kv)) /\ hm_mem loaded x = false.
Proof.
  induction l as [|kv r IH]; intros acc x; cbn [fold_left].
  - split; [now left|intros [H|[(kv & [] & _) _]]; exact H].
  - rewrite IH, required_step_fold. split.
    + intros [[H|[H1 H2]]|[(kv' & Hin & Hx) H2]].
      * now left.
      * right. split; [exists kv; split; [now left|exact H1]|exact H2].
      * right. split; [exists kv'; split; [now right|exact Hx]|exact H2].
    + intros [H|[(kv' & [->|Hin] & Hx) H2]].
      * left. now left.
      * left. right. now split.
      * right. split; [now exists kv'|exact H2].
Qed.

(** what the loader asks for: the import targets that are not loaded yet — as a set *)
Lemma get_required_files_spec (pi : oracle) (loaded : hmap (list str)) x :
  is_oracle pi ->
  In x (get_required_files pi loaded) <->
  (exists from imports, In (from, imports) loaded /\ In x imports) /\ hm_mem loaded x = false.
Proof.
  intros H. unfold get_required_files. rewrite required_outer_in. cbn [In]. split.
  - intros [[]|[(kv & Hin & Hx) H2]]. split; [|exact H2]. destruct kv as [f i].
    exists f, i. split; [eapply Permutation_in; [apply H|exact Hin]|exact Hx].
  - intros [(f & i & Hin & Hx) H2]. right. split; [|exact H2].
    exists (f, i). split; [eapply Permutation_in; [apply Permutation_sym, H|exact Hin]|exact Hx].
Qed.

Lemma get_required_files_nodup (pi : oracle) (loaded : hmap (list str)) : NoDup (get_required_files pi loaded).
Proof.
  unfold get_required_files. generalize (pi (list str) loaded). intros l.
  assert (G : forall acc, NoDup acc -> NoDup (fold_left (fun acc kv => fold_left (required_step loaded) (snd kv) acc) l acc)).
  { induction l as [|kv r IH]; intros acc Hnd; cbn [fold_left]; [exact Hnd|]. apply IH. now apply required_step_nodup. }
  apply G. constructor.
Qed.

(** site: graphql-loader/src/tasks.rs iter_loaded_files (consumer: loader.rs get_required_files):
    the answer for two iteration orders is the same set of paths, each listed once — only its order differs *)
Lemma get_required_files_oracle_irrelevant (pi pi' : oracle) (loaded : hmap (list str)) :
  is_oracle pi -> is_oracle pi' ->
  Permutation (get_required_files pi loaded) (get_required_files pi' loaded).
Proof.
  intros H H'. apply NoDup_Permutation; try apply get_required_files_nodup.
  intros x. now rewrite !get_required_files_spec.
Qed.

(** … and its order does depend on the iteration order (the contract of the loader is a set) *)
Lemma get_required_files_order_refuted :
  exists (loaded : hmap (list str)) (pi pi' : oracle), is_oracle pi /\ is_oracle pi' /\
    get_required_files pi loaded <> get_required_files pi' loaded.
Proof.
  exists [(s "a", [s "x"]); (s "b", [s "y"])], o_id, o_rev.
  split; [apply o_id_is_oracle|]. split; [apply o_rev_is_oracle|]. vm_compute. discriminate.
Qed.

Lemma get_required_files_oracle_irrelevant_nodup (pi pi' : oracle) (loaded : hmap (list str)) :
  is_oracle pi -> is_oracle pi' ->
  Permutation (get_required_files pi loaded) (get_required_files pi' loaded)
  /\ NoDup (get_required_files pi loaded).
Proof. intros H H'. split; [now apply get_required_files_oracle_irrelevant|apply get_required_files_nodup]. Qed.

(* ------------------------------------------------------------------------------------------- *)
(** * examples *)

Definition ex_exts : hmap xext :=
  [ (s "Zed", mk_xext (Some (s "scalar")) (Some (YStr (s "string"))));
    (s "Obj", mk_xext (Some (s "object")) (Some (YStr (s "never"))));
    (s "Date", mk_xext (Some (s "scalar")) (Some (YMap [(s "input", Some (s "Date | string")); (s "output", Some (s "string"))])));
    (s "Any", mk_xext (Some (s "scalar")) None) ].

Example ex_plugin_sorted :
  exists t, plugin_schema_addition o_rev o_rot ex_exts = Some t
            /\ plugin_schema_addition o_id o_id ex_exts = Some t
            /\ firstn 19 t = s "extend scalar Date ".
Proof. eexists. split; [vm_compute; reflexivity|]. split; [vm_compute; reflexivity|vm_compute; reflexivity]. Qed.
