(** C17 — [def_permutation] for the DENOTATION of the exported aliases.

    C10 proves [C10_alias_exact_iff]: the TypeScript reading of the alias exported for a type [T] in the
    namespace of target [t] is exactly the reference denotation [Ref o doc t T].  Here: [Ref] (and the
    guard [wf_schema], and [applicable]) do not depend on the order of the definitions of the document.
    Hence for a document and any permutation of it, the aliases exported for [T] admit exactly the same
    values:  forall exported alias a, [[a]]_pi(P) = [[a]]_P.

    C10's files are imported read-only. *)
From V Require Import Base.Util Gql.Ast Writer.Wop Ts.TsType Ts.TsDen
  C10.Model C10.Spec C10.Properties.
From V Require C17.Proofs.
From Coq Require Import Permutation.

Module P := C17.Proofs.

(* ------------------------------------------------------------------------------------------- *)
(** * lists with unique keys *)

Lemma nodup_keys_perm l l' : Permutation l l' -> nodup_keys l = nodup_keys l'.
Proof.
  induction 1 as [|x l l' Hp IH|x y l|l l' l'' _ IH1 _ IH2]; cbn [nodup_keys existsb].
  - reflexivity.
  - now rewrite IH, (P.existsb_perm _ l l' Hp).
  - rewrite (P.str_eqb_sym y x).
    destruct (str_eqb x y), (existsb (str_eqb x) l), (existsb (str_eqb y) l), (nodup_keys l); reflexivity.
  - congruence.
Qed.

Lemma nodup_keys_NoDup l : nodup_keys l = true -> NoDup l.
Proof.
  induction l as [|x r IH]; cbn [nodup_keys]; [constructor|].
  intros H. apply andb_true_iff in H. destruct H as [H1 H2]. constructor; [|now apply IH].
  intros Hin. apply P.existsb_str_in in Hin. rewrite Hin in H1. discriminate.
Qed.

Lemma NoDup_map_inj {A B} (f : A -> B) l x y :
  NoDup (map f l) -> In x l -> In y l -> f x = f y -> x = y.
Proof.
  induction l as [|a r IH]; intros Hnd Hx Hy E; [destruct Hx|].
  cbn [map] in Hnd. inversion Hnd as [|? ? Hn Hr]; subst.
  destruct Hx as [->|Hx], Hy as [->|Hy]; try reflexivity.
  - exfalso. apply Hn. rewrite E. now apply in_map.
  - exfalso. apply Hn. rewrite <- E. now apply in_map.
  - now apply IH.
Qed.

Lemma find_perm_unique {A} (p : A -> bool) l l' :
  Permutation l l' ->
  (forall x y, In x l -> In y l -> p x = true -> p y = true -> x = y) ->
  find p l = find p l'.
Proof.
  induction 1 as [|x l l' Hp IH|x y l|l l' l'' Hp1 IH1 Hp2 IH2]; intros U; cbn [find].
  - reflexivity.
  - destruct (p x); [reflexivity|]. apply IH. intros a b Ha Hb. apply U; now right.
  - destruct (p y) eqn:Ey, (p x) eqn:Ex; try reflexivity.
    f_equal. apply U; [now left|right; now left|assumption|assumption].
  - rewrite IH1 by exact U. apply IH2.
    intros a b Ha Hb. apply U; eapply Permutation_in; try (apply Permutation_sym; exact Hp1); assumption.
Qed.

(* ------------------------------------------------------------------------------------------- *)
(** * what the reference denotation reads from the document is order-free *)

Section Perm.
  Variables doc doc' : tsdoc.
  Hypothesis Hperm : Permutation doc doc'.
  Hypothesis Hnd : nodup_keys (map tname (typedefs doc)) = true.

  Lemma typedefs_perm : Permutation (typedefs doc) (typedefs doc').
  Proof. unfold typedefs. now apply Permutation_flat_map. Qed.

  Lemma get_type_perm n : get_type doc n = get_type doc' n.
  Proof.
    unfold get_type. apply find_perm_unique; [apply typedefs_perm|].
    intros x y Hx Hy Ex Ey. apply P.str_eqb_eq in Ex. apply P.str_eqb_eq in Ey.
    apply (NoDup_map_inj tname (typedefs doc)); [now apply nodup_keys_NoDup|assumption|assumption|congruence].
  Qed.

  Lemma kind_of_perm n : kind_of doc n = kind_of doc' n.
  Proof. unfold kind_of. now rewrite get_type_perm. Qed.

  Lemma possible_perm n : Permutation (possible_of_interface doc n) (possible_of_interface doc' n).
  Proof. unfold possible_of_interface. apply Permutation_flat_map, typedefs_perm. Qed.

  Lemma applicable_perm t T : applicable doc t T = applicable doc' t T.
  Proof. unfold applicable. now rewrite get_type_perm. Qed.

  Lemma forallb_ext' {A} (f g : A -> bool) l : (forall x, f x = g x) -> forallb f l = forallb g l.
  Proof. intros E. induction l as [|x r IH]; [reflexivity|]. cbn [forallb]. now rewrite E, IH. Qed.

  Lemma wf_typedef_perm o td : wf_typedef o doc td = wf_typedef o doc' td.
  Proof.
    unfold wf_typedef. f_equal.
    destruct td; try reflexivity; apply forallb_ext'; intros x; now rewrite kind_of_perm.
  Qed.

  Lemma wf_schema_perm o : wf_schema o doc = wf_schema o doc'.
  Proof.
    unfold wf_schema.
    rewrite (nodup_keys_perm _ _ (Permutation_map tname typedefs_perm)).
    rewrite (P.forallb_perm _ _ _ typedefs_perm). f_equal.
    apply forallb_ext'. intros td. apply wf_typedef_perm.
  Qed.

  (** ** the checkers of the immediate sub-values, compared pointwise (no functional extensionality) *)
  Definition chk_eq (a b : str * checker) : Prop :=
    fst a = fst b /\ forall nn ty, snd a nn ty = snd b nn ty.

  Lemma assoc_cks k cks cks' : Forall2 chk_eq cks cks' ->
    match assoc k cks, assoc k cks' with
    | Some c, Some c' => forall nn ty, c nn ty = c' nn ty
    | None, None => True
    | _, _ => False
    end.
  Proof.
    induction 1 as [|[k1 c1] [k2 c2] r r' [Ek Ec] _ IH]; cbn [assoc]; [exact I|].
    cbn [fst snd] in *. subst k2. destruct (str_eqb k k1); [exact Ec|exact IH].
  Qed.

  Section Den.
    Variables (o : sopts) (t : target).

    Lemma object_den_cks n fields v cks cks' : Forall2 chk_eq cks cks' ->
      object_den n fields v cks = object_den n fields v cks'.
    Proof.
      intros H. unfold object_den. destruct v; try reflexivity. f_equal.
      apply forallb_ext'. intros fd. pose proof (assoc_cks (iname (fd_name fd)) cks cks' H) as A.
      destruct (assoc (iname (fd_name fd)) cks), (assoc (iname (fd_name fd)) cks'); try contradiction; [apply A|reflexivity].
    Qed.

    Lemma input_den_cks fields v cks cks' : Forall2 chk_eq cks cks' ->
      input_den o fields v cks = input_den o fields v cks'.
    Proof.
      intros H. unfold input_den. destruct v; try reflexivity. f_equal.
      apply forallb_ext'. intros iv. pose proof (assoc_cks (iname (iv_name iv)) cks cks' H) as A.
      destruct (assoc (iname (iv_name iv)) fs); [|reflexivity].
      destruct (assoc (iname (iv_name iv)) cks), (assoc (iname (iv_name iv)) cks'); try contradiction; [now rewrite A|reflexivity].
    Qed.

    Lemma object_named_perm n v cks cks' : Forall2 chk_eq cks cks' ->
      object_named doc n v cks = object_named doc' n v cks'.
    Proof.
      intros H. unfold object_named. rewrite <- get_type_perm.
      destruct (get_type doc n) as [[| | | | |]|]; try reflexivity. now apply object_den_cks.
    Qed.

    Lemma named_den_perm v cks cks' n : Forall2 chk_eq cks cks' ->
      named_den o doc t v cks n = named_den o doc' t v cks' n.
    Proof.
      intros H. unfold named_den. rewrite <- get_type_perm.
      destruct (get_type doc n) as [[d p nm dirs kw|d p nm impls dirs fields kw|d p nm impls dirs fields kw
                                    |d p nm dirs members kw|d p nm dirs vals kw|d p nm dirs fields kw]|];
        try reflexivity.
      - f_equal. now apply object_den_cks.
      - f_equal. rewrite (P.existsb_perm _ _ _ (possible_perm n)).
        apply P.existsb_ext'. intros q. now apply object_named_perm.
      - f_equal. apply P.existsb_ext'. intros m. now apply object_named_perm.
      - f_equal. now apply input_den_cks.
    Qed.

    (** induction over values with the nested lists *)
    Section ValInd.
      Variable Q : val -> Prop.
      Hypotheses (HNull : Q VNull) (HUndef : Q VUndef) (HBool : forall b, Q (VBool b)) (HNum : Q VNum)
                 (HStr : forall x, Q (VStr x)) (HAtom : forall x, Q (VAtom x))
                 (HList : forall l, Forall Q l -> Q (VList l))
                 (HObj : forall fs, Forall (fun kv => Q (snd kv)) fs -> Q (VObj fs)).
      Fixpoint val_ind' (v : val) : Q v :=
        match v with
        | VNull => HNull | VUndef => HUndef | VBool b => HBool b | VNum => HNum
        | VStr x => HStr x | VAtom x => HAtom x
        | VList l => HList l ((fix go (l : list val) : Forall Q l :=
                                 match l with [] => Forall_nil _ | x :: r => Forall_cons x (val_ind' x) (go r) end) l)
        | VObj fs => HObj fs ((fix go (l : list (str * val)) : Forall (fun kv => Q (snd kv)) l :=
                                 match l with [] => Forall_nil _ | x :: r => Forall_cons x (val_ind' (snd x)) (go r) end) fs)
        end.
    End ValInd.

    Lemma ref_val_perm v : forall nn ty, ref_val o doc t v nn ty = ref_val o doc' t v nn ty.
    Proof.
      induction v using val_ind'; intros nn ty; cbn [ref_val]; try reflexivity;
        try (destruct ty as [n|en et]; [apply named_den_perm; constructor|reflexivity]).
      - (* list *)
        destruct ty as [n|en et]; [apply named_den_perm; constructor|].
        induction H as [|x r Hx _ IH]; [reflexivity|]. cbn [forallb]. now rewrite Hx, IH.
      - (* record *)
        destruct ty as [n|en et]; [|reflexivity]. apply named_den_perm.
        induction H as [|[k x] r Hx _ IH]; [constructor|]. cbn [map]. constructor; [|exact IH].
        split; [reflexivity|]. cbn [snd] in *. exact Hx.
    Qed.

    (** Ref_t(T) does not depend on the order of the definitions *)
    Lemma Ref_perm T v : Ref o doc t T v = Ref o doc' t T v.
    Proof. unfold Ref. apply ref_val_perm. Qed.
  End Den.
End Perm.

(* ------------------------------------------------------------------------------------------- *)
(** * the exported aliases of a permuted document denote the same sets of values *)

Lemma alias_denotation_permutation o doc doc' nss nss' t T body body' v :
  Permutation doc doc' -> wf_schema o doc = true ->
  schema_decls o doc = Ok nss -> schema_decls o doc' = Ok nss' ->
  applicable doc t T = true ->
  alias_of (namespace_of nss t) T = Some body -> alias_of (namespace_of nss' t) T = Some body' ->
  (In_type (ns_env (namespace_of nss t)) body v <-> In_type (ns_env (namespace_of nss' t)) body' v)
  /\ (NotIn_type (ns_env (namespace_of nss t)) body v <-> NotIn_type (ns_env (namespace_of nss' t)) body' v).
Proof.
  intros Hp Hwf Hs Hs' Happ Ha Ha'.
  assert (Hnd : nodup_keys (map tname (typedefs doc)) = true).
  { unfold wf_schema in Hwf. apply andb_true_iff in Hwf. tauto. }
  assert (Hwf' : wf_schema o doc' = true) by (rewrite <- (wf_schema_perm doc doc' Hp Hnd o); exact Hwf).
  assert (Happ' : applicable doc' t T = true) by (rewrite <- (applicable_perm doc doc' Hp Hnd t T); exact Happ).
  destruct (C10_alias_exact_iff o doc nss t T body v Hwf Hs Happ Ha) as [I1 N1].
  destruct (C10_alias_exact_iff o doc' nss' t T body' v Hwf' Hs' Happ' Ha') as [I2 N2].
  rewrite (Ref_perm doc doc' Hp Hnd o t T v) in I1, N1.
  split; [rewrite I1, I2|rewrite N1, N2]; reflexivity.
Qed.

(** … and the permuted document does export the alias (nothing is assumed about it) *)
Lemma alias_denotation_permutation_total o doc doc' nss t T body :
  Permutation doc doc' -> wf_schema o doc = true ->
  schema_decls o doc = Ok nss -> applicable doc t T = true ->
  alias_of (namespace_of nss t) T = Some body ->
  exists nss' body',
    schema_decls o doc' = Ok nss' /\ alias_of (namespace_of nss' t) T = Some body'
    /\ forall v,
         (In_type (ns_env (namespace_of nss t)) body v <-> In_type (ns_env (namespace_of nss' t)) body' v)
         /\ (NotIn_type (ns_env (namespace_of nss t)) body v <-> NotIn_type (ns_env (namespace_of nss' t)) body' v).
Proof.
  intros Hp Hwf Hs Happ Ha.
  assert (Hnd : nodup_keys (map tname (typedefs doc)) = true).
  { unfold wf_schema in Hwf. apply andb_true_iff in Hwf. tauto. }
  assert (Hwf' : wf_schema o doc' = true) by (rewrite <- (wf_schema_perm doc doc' Hp Hnd o); exact Hwf).
  assert (Happ' : applicable doc' t T = true) by (rewrite <- (applicable_perm doc doc' Hp Hnd t T); exact Happ).
  destruct (C10_schema_decls_total o doc' Hwf') as (nss' & Hs').
  assert (Hg : exists td, get_type doc' T = Some td).
  { unfold applicable in Happ'. destruct (get_type doc' T) as [td|]; [now exists td|discriminate]. }
  destruct Hg as (td & Hg).
  destruct (proj1 (C10_alias_present o doc' nss' t T td Hwf' Hs' Hg) Happ') as (body' & Ha').
  exists nss', body'. repeat split; try assumption;
    apply (alias_denotation_permutation o doc doc' nss nss' t T body body' v); assumption.
Qed.
