(** C17 — the table of known iteration sites and the T3 obligations (every scanned site is accounted for). *)
From V Require Import Base.Util C17.Sites C17.Model C17.Proofs C17.PluginProofs.
From V Require Gen.C17_sites_gen.
From Coq Require Import Permutation String.
Import ListNotations.
Open Scope list_scope.

(* ------------------------------------------------------------------------------------------- *)
(** * §F every scanned iteration site is accounted for *)

Import Gen.C17_sites_gen.
Local Open Scope string_scope.

Inductive cover :=
| NotHash (why : string)                        (* over-report of the scanner: the binding is a Vec of AST nodes *)
| ByLemma (name : string) (P : Prop) (pf : P)   (* the order-insensitivity lemma covering the site *)
| Argued (why : string).                        (* outside the models: argument in words, see design/C17.md *)

Definition ast_directives : string := "the receiver is the `directives: Vec<Directive>` field of an AST node (same name as DefinitionMap.directives)".

Definition known_sites : list (site * cover) := [
  (mk_site (s "crates/checker/src/type_system_checker/check_directive_recursion.rs") (s "check_directive_recursion") (s "directives") (s "iter") 1, NotHash ast_directives);
  (mk_site (s "crates/checker/src/type_system_checker/check_directive_recursion.rs") (s "directives_in_type") (s "directives") (s "iter") 10, NotHash ast_directives);
  (mk_site (s "crates/graphql-loader/src/tasks.rs") (s "iter_loaded_files") (s "loaded_files") (s "iter") 1,
     ByLemma "get_required_files_oracle_irrelevant (consumer loader.rs get_required_files: the answer is a set)" _ get_required_files_oracle_irrelevant);
  (mk_site (s "crates/plugin/src/graphql_scalars_plugin/mod.rs") (s "load_schema_extensions") (s "type_extensions") (s "for") 1,
     ByLemma "load_schema_extensions_lookup" _ load_schema_extensions_lookup);
  (mk_site (s "crates/plugin/src/graphql_scalars_plugin/mod.rs") (s "schema_addition") (s "scalar_extensions") (s "iter") 1,
     ByLemma "schema_addition_oracle_irrelevant (sorted afterwards)" _ schema_addition_oracle_irrelevant);
  (mk_site (s "crates/plugin/src/model_plugin/mod.rs") (s "check_schema") (s "directives") (s "iter") 3, NotHash ast_directives);
  (mk_site (s "crates/plugin/src/model_plugin/mod.rs") (s "transform_document_for_resolvers") (s "directives") (s "iter") 2, NotHash ast_directives);
  (mk_site (s "crates/plugin/src/model_plugin/mod.rs") (s "transform_document_for_runtime_server") (s "directives") (s "iter") 2, NotHash ast_directives);
  (mk_site (s "crates/plugin/src/model_plugin/mod.rs") (s "transform_resolver_output_types") (s "directives") (s "iter") 2, NotHash ast_directives);
  (mk_site (s "crates/printer/src/operation_type_printer/type_printer.rs") (s "check_skip_directive") (s "directives") (s "for") 1, NotHash ast_directives);
  (mk_site (s "crates/printer/src/operation_type_printer/type_printer.rs") (s "get_boolean_variables") (s "directives") (s "for") 1, NotHash ast_directives);
  (mk_site (s "crates/printer/src/schema_type_printer/context.rs") (s "get_bag_of_identifiers") (s "scalar_types") (s "values") 1,
     ByLemma "bag_mem_oracle_irrelevant" _ bag_mem_oracle_irrelevant);
  (mk_site (s "crates/printer/src/schema_type_printer/context.rs") (s "get_scalar_types") (s "directives") (s "iter") 1, NotHash ast_directives);
  (mk_site (s "crates/printer/src/schema_type_printer/printer.rs") (s "from_config") (s "scalar_types") (s "iter") 1,
     ByLemma "from_config_oracle_irrelevant" _ from_config_oracle_irrelevant);
  (mk_site (s "crates/type-system/src/schema.rs") (s "map_str") (s "directive_definitions") (s "iter") 1,
     ByLemma "map_str_oracle_irrelevant" _ (@map_str_oracle_irrelevant));
  (mk_site (s "crates/type-system/src/schema.rs") (s "map_str") (s "type_definitions") (s "iter") 1,
     ByLemma "map_str_oracle_irrelevant" _ (@map_str_oracle_irrelevant))
].

Definition site_known (x : site) : bool := existsb (fun kc => site_eqb x (fst kc)) known_sites.
Definition site_scanned (x : site) : bool := existsb (site_eqb x) scanned_sites.

(** T3 obligation: a new (or duplicated, or moved) hash-iteration site in /repo makes this fail *)
Lemma all_sites_accounted : forallb site_known scanned_sites = true.
Proof. vm_compute. reflexivity. Qed.

(** and the table carries no stale entries *)
Lemma known_sites_all_scanned : forallb (fun kc => site_scanned (fst kc)) known_sites = true.
Proof. vm_compute. reflexivity. Qed.

(** files that mention a hash container at all; how each uses it.  "key" = get/insert/contains/remove only. *)
Definition known_hash_files : list (str * string) := [
  (s "crates/async-runtime/src/ticket.rs", "string_tickets: key");
  (s "crates/checker/src/operation_checker/count_selection_set_fields.rs", "FragmentMap: key");
  (s "crates/checker/src/operation_checker/fragment_map.rs", "FragmentMap built by collect from a Vec: key");
  (s "crates/checker/src/operation_checker/mod.rs", "FragmentMap: key");
  (s "crates/checker/src/type_system_checker/check_directive_recursion.rs", "seen_directives, seen_types: insert/contains only; DefinitionMap: key");
  (s "crates/cli/src/check.rs", "file_by_path built by collect from a Vec: key");
  (s "crates/cli/src/schema_loader.rs", "type_extensions: deserialised, handed to plugins (site load_schema_extensions)");
  (s "crates/config-file/src/config.rs", "scalar_types: deserialised, iterated at site from_config");
  (s "crates/graphql-loader/src/tasks.rs", "tasks: key; loaded_files: key + site iter_loaded_files");
  (s "crates/plugin/src/graphql_scalars_plugin/mod.rs", "sites load_schema_extensions, schema_addition");
  (s "crates/plugin/src/model_plugin/mod.rs", "base (resolver output types): key");
  (s "crates/plugin/src/plugin/mod.rs", "passes maps through");
  (s "crates/plugin/src/plugin_v1/mod.rs", "trait signatures");
  (s "crates/printer/src/operation_base_printer/visitor.rs", "fragments: key");
  (s "crates/printer/src/operation_js_printer/printers.rs", "fragments: key");
  (s "crates/printer/src/operation_type_printer/deep_merge.rs", "seen_fields: key");
  (s "crates/printer/src/operation_type_printer/type_printer.rs", "fragment_definitions: key");
  (s "crates/printer/src/operation_type_printer/visitor.rs", "fragment_definitions built by collect from a Vec: key");
  (s "crates/printer/src/resolver_type_printer/plugin.rs", "trait signature");
  (s "crates/printer/src/resolver_type_printer/printer.rs", "ts_types built by collect from a Vec: key");
  (s "crates/printer/src/schema.rs", "builtin scalar table built by collect from a Vec");
  (s "crates/printer/src/schema_type_printer/context.rs", "scalar_types: key + site get_bag_of_identifiers; local_type_names: key");
  (s "crates/printer/src/schema_type_printer/printer.rs", "scalar_types: site from_config");
  (s "crates/semantics/src/definition_map.rs", "types, directives: key");
  (s "crates/semantics/src/operation_import_resolver/mod.rs", "visited: key");
  (s "crates/type-system/src/builder.rs", "type_definitions, directive_definitions: key (entry); order kept in type_names / directive_names");
  (s "crates/type-system/src/schema.rs", "key; sites map_str; iter_types / iter_directives go through the name vectors")
].

Lemma all_hash_files_accounted :
  forallb (fun f => existsb (fun kf => str_eqb f (fst kf)) known_hash_files) hash_mention_files = true.
Proof. vm_compute. reflexivity. Qed.

