(** C17 — executable model (definitions only) of the parts of nitrogql whose output could depend on the
    iteration order of a hash container or on the order of definitions:

      §1  std HashMap as an association list + an explicit *iteration-order oracle*
      §2  graphql_type_system::{SchemaBuilder, Schema}       (type-system/src/builder.rs, schema.rs)
      §3  nitrogql_printer::utils::interface_implementers and the checker's "implements both" test
      §4  semantics::schema_extension_resolver (ExtensionList: IndexMap + stable sort by Pos)
      §5  semantics::ast_to_type_system (the part that feeds the builder)
      §6  printer::schema_type_printer::{from_config, get_scalar_types, get_bag_of_identifiers,
          make_local_type_names} and the declaration skeleton that SchemaTypePrinter::print_document emits
      §7  the abstract pipeline  files -> merged document -> resolved document -> skeleton

    Every raw iteration over a hash map takes the oracle [pi]; key lookups take none. *)
From V Require Import Base.Util.
From Coq Require Import Permutation.

Set Implicit Arguments.

(* ------------------------------------------------------------------------------------------- *)
(** * §1 hash maps *)

Definition hmap (V : Type) := list (str * V).

Fixpoint hm_get {V} (m : hmap V) (k : str) : option V :=
  match m with
  | [] => None
  | (k', v) :: r => if str_eqb k' k then Some v else hm_get r k
  end.

Definition hm_mem {V} (m : hmap V) (k : str) : bool :=
  match hm_get m k with Some _ => true | None => false end.

(** [HashMap::insert]: replaces the value of an existing key, otherwise adds the entry. *)
Fixpoint hm_insert {V} (m : hmap V) (k : str) (v : V) : hmap V :=
  match m with
  | [] => [(k, v)]
  | (k', v') :: r => if str_eqb k' k then (k', v) :: r else (k', v') :: hm_insert r k v
  end.

(** [Extend::extend] / [FromIterator::from_iter] for HashMap: insert one by one, later wins. *)
Definition hm_extend {V} (m : hmap V) (l : list (str * V)) : hmap V :=
  fold_left (fun acc kv => hm_insert acc (fst kv) (snd kv)) l m.
Definition hm_collect {V} (l : list (str * V)) : hmap V := hm_extend [] l.

(** The iteration order of a HashMap is unspecified and differs between processes (RandomState):
    every raw iteration goes through an oracle that may return any permutation of the entries. *)
Definition oracle := forall V : Type, list (str * V) -> list (str * V).
Definition is_oracle (pi : oracle) : Prop := forall V (m : list (str * V)), Permutation (pi V m) m.
Definition o_id : oracle := fun _ m => m.
Definition o_rev : oracle := fun _ m => rev m.
Definition o_rot : oracle := fun _ m => match m with [] => [] | x :: r => r ++ [x] end.

(* ------------------------------------------------------------------------------------------- *)
(** * §2 SchemaBuilder / Schema *)

Record schema (D : Type) := mk_schema {
  sc_types : hmap D;        (* type_definitions : HashMap<Str, Node<TypeDefinition>> *)
  sc_names : list str       (* type_names : Vec<Str>  "keeps insertion order" *)
}.

Definition sb_empty {D} : schema D := mk_schema [] [].

(** one step of [impl Extend for SchemaBuilder]:
      let entry = self.type_definitions.entry(key);
      if matches!(entry, Entry::Vacant(_)) { self.type_names.push(entry.key().clone()); }
      entry.or_insert(def);                                                                 *)
Definition sb_add {D} (b : schema D) (k : str) (d : D) : schema D :=
  if hm_mem (sc_types b) k then b
  else mk_schema (sc_types b ++ [(k, d)]) (sc_names b ++ [k]).

Definition sb_extend {D} (b : schema D) (items : list (str * D)) : schema D :=
  fold_left (fun b kd => sb_add b (fst kd) (snd kd)) items b.

Definition build {D} (items : list (str * D)) : schema D := sb_extend sb_empty items.

(** [Schema::iter_types]: type_names.iter().filter_map(|n| type_definitions.get(n).map(|t| (n, t))) *)
Definition iter_types {D} (s : schema D) : list (str * D) :=
  flat_map (fun n => match hm_get (sc_types s) n with Some d => [(n, d)] | None => [] end) (sc_names s).

Definition get_type {D} (s : schema D) (n : str) : option D := hm_get (sc_types s) n.

(** [Schema::map_str]: the hash map is iterated (oracle) and re-collected; the name vector is mapped. *)
Definition map_str (pi : oracle) {D D'} (f : str -> str) (g : D -> D') (s : schema D) : schema D' :=
  mk_schema (hm_collect (map (fun kv => (f (fst kv), g (snd kv))) (pi D (sc_types s))))
            (map f (sc_names s)).

(* ------------------------------------------------------------------------------------------- *)
(** * abstract syntax shared by §3–§7 *)

Inductive kind := KSchema | KScalar | KObject | KInterface | KUnion | KEnum | KInput.
Definition kind_eqb (a b : kind) : bool :=
  match a, b with
  | KSchema, KSchema | KScalar, KScalar | KObject, KObject | KInterface, KInterface
  | KUnion, KUnion | KEnum, KEnum | KInput, KInput => true
  | _, _ => false
  end.

Record pos := mk_pos { p_line : N; p_col : N; p_file : N; p_builtin : bool }.
(** [impl Ord for Pos] compares line, then column — the file index is ignored. *)
Definition pos_leb (a b : pos) : bool :=
  (p_line a <? p_line b)%N || ((p_line a =? p_line b)%N && (p_col a <=? p_col b)%N).
Definition pos_eqb (a b : pos) : bool :=
  (p_line a =? p_line b)%N && (p_col a =? p_col b)%N && (p_file a =? p_file b)%N
  && Bool.eqb (p_builtin a) (p_builtin b).

(** a directive use: name, and its arguments ([None] = no argument list); an argument value is
    [Some s] when it is a string literal and [None] for any other kind of value *)
Record adir := mk_adir { ad_name : str; ad_args : option (list (str * option str)) }.

(** a type-system definition or extension, abstracted to what ordering can influence:
    [d_items] = field / member / enum-value names (for [KSchema]: "operation:Type" strings) *)
Record adef := mk_adef {
  d_ext : bool; d_kind : kind; d_name : str; d_pos : pos;
  d_ifaces : list str; d_items : list str; d_dirs : list adir
}.

Inductive item := IDef (d : adef) | IDirective (name : str) (p : pos).

(* ------------------------------------------------------------------------------------------- *)
(** * §3 interface implementers *)

Definition implements (iname : str) (d : adef) : bool :=
  match d_kind d with
  | KObject => existsb (str_eqb iname) (d_ifaces d)
  | _ => false
  end.

(** printer/src/utils.rs [interface_implementers]: schema.iter_types().filter_map(object listing the interface) *)
Definition interface_implementers (s : schema adef) (iname : str) : list adef :=
  filter (implements iname) (map snd (iter_types s)).

(** checker/src/operation_checker/mod.rs, interface-vs-interface fragment spread:
    iter_types().any(|obj| implements both) *)
Definition any_object_implements_both (s : schema adef) (i1 i2 : str) : bool :=
  existsb (fun d => implements i1 d && implements i2 d) (map snd (iter_types s)).

(* ------------------------------------------------------------------------------------------- *)
(** * §4 schema extension resolver *)

Inductive res (E A : Type) := Ok (a : A) | Err (e : E).
Arguments Ok {E A} a.
Arguments Err {E A} e.

Inductive xerr :=
| DuplicateOriginal (elem name : str) (first second : pos)
| NoOriginal (elem : str) (first_extension : pos).

Record xitem := mk_xitem { x_orig : option adef; x_exts : list adef }.
(** IndexMap<Option<String>, ExtensionItem>: iteration = insertion order, no oracle *)
Definition xlist := list (str * xitem).

Fixpoint xl_update (l : xlist) (k : str) (f : xitem -> xitem) : xlist :=
  match l with
  | [] => [(k, f (mk_xitem None []))]                       (* entry(k).or_default() *)
  | (k', it) :: r => if str_eqb k' k then (k', f it) :: r else (k', it) :: xl_update r k f
  end.

Fixpoint xl_get (l : xlist) (k : str) : option xitem :=
  match l with
  | [] => None
  | (k', it) :: r => if str_eqb k' k then Some it else xl_get r k
  end.

(** [set_original]: note that the entry is created (or_default) before the duplicate test *)
Definition set_original (elem : str) (l : xlist) (d : adef) : res xerr xlist :=
  match xl_get l (d_name d) with
  | Some (mk_xitem (Some first) _) =>
      Err (DuplicateOriginal elem (d_name d) (d_pos first) (d_pos d))
  | _ => Ok (xl_update l (d_name d) (fun it => mk_xitem (Some d) (x_exts it)))
  end.

Definition add_extension (l : xlist) (d : adef) : xlist :=
  xl_update l (d_name d) (fun it => mk_xitem (x_orig it) (x_exts it ++ [d])).

(** stable insertion sort by [Pos] ([sort_by_key] is a stable sort) *)
Fixpoint ins_by {A} (key : A -> pos) (x : A) (l : list A) : list A :=
  match l with
  | [] => [x]
  | y :: r => if pos_leb (key x) (key y) then x :: y :: r else y :: ins_by key x r
  end.
Definition sort_by {A} (key : A -> pos) (l : list A) : list A := fold_right (ins_by key) [] l.

(** the [filter_map … collect::<Result<Vec<_>,_>>()] of [into_original_and_extensions]:
    the first erroneous entry in IndexMap order wins *)
Fixpoint collect_items (elem : str) (l : xlist) : res xerr (list (adef * list adef)) :=
  match l with
  | [] => Ok []
  | (_, mk_xitem None []) :: r => collect_items elem r
  | (_, mk_xitem None (e :: _)) :: _ => Err (NoOriginal elem (d_pos e))
  | (_, mk_xitem (Some o) exts) :: r =>
      match collect_items elem r with
      | Ok t => Ok ((o, exts) :: t)
      | Err e => Err e
      end
  end.

Definition into_original_and_extensions (elem : str) (l : xlist) : res xerr (list (adef * list adef)) :=
  match collect_items elem l with
  | Ok t => Ok (sort_by (fun oe => d_pos (fst oe)) t)
  | Err e => Err e
  end.

(** merge_*_definition: original first, then the extensions in the order they were met *)
Definition merge_def (oe : adef * list adef) : adef :=
  let (o, exts) := oe in
  mk_adef false (d_kind o) (d_name o) (d_pos o)
          (d_ifaces o ++ flat_map d_ifaces exts)
          (d_items o ++ flat_map d_items exts)
          (d_dirs o ++ flat_map d_dirs exts).

Definition kind_index (k : kind) : nat :=
  match k with KSchema => 0 | KScalar => 1 | KObject => 2 | KInterface => 3 | KUnion => 4 | KEnum => 5 | KInput => 6 end.
Definition all_kinds : list kind := [KSchema; KScalar; KObject; KInterface; KUnion; KEnum; KInput].
Definition elem_name (k : kind) : str :=
  match k with
  | KSchema => s "schema" | KScalar => s "scalar" | KObject => s "type" | KInterface => s "interface"
  | KUnion => s "union" | KEnum => s "enum" | KInput => s "input object"
  end.

(** the seven ExtensionLists, indexed by kind *)
Definition xlists := kind -> xlist.
Definition xs_set (xs : xlists) (k : kind) (l : xlist) : xlists :=
  fun k' => if kind_eqb k' k then l else xs k'.

(** the scanning loop of [resolve_schema_extensions]; a duplicate original aborts at once *)
Fixpoint scan_items (its : list item) (xs : xlists) (dirs : list item) : res xerr (xlists * list item) :=
  match its with
  | [] => Ok (xs, dirs)
  | IDirective n p :: r => scan_items r xs (dirs ++ [IDirective n p])
  | IDef d :: r =>
      if d_ext d then scan_items r (xs_set xs (d_kind d) (add_extension (xs (d_kind d)) d)) dirs
      else match set_original (elem_name (d_kind d)) (xs (d_kind d)) d with
           | Ok l => scan_items r (xs_set xs (d_kind d) l) dirs
           | Err e => Err e
           end
  end.

Fixpoint finish_kinds (ks : list kind) (xs : xlists) : res xerr (list item) :=
  match ks with
  | [] => Ok []
  | k :: r =>
      match into_original_and_extensions (elem_name k) (xs k) with
      | Err e => Err e
      | Ok l => match finish_kinds r xs with
                | Ok t => Ok (map (fun oe => IDef (merge_def oe)) l ++ t)
                | Err e => Err e
                end
      end
  end.

Definition resolve_schema_extensions (its : list item) : res xerr (list item) :=
  match scan_items its (fun _ => []) [] with
  | Err e => Err e
  | Ok (xs, dirs) =>
      match finish_kinds all_kinds xs with
      | Ok t => Ok (dirs ++ t)
      | Err e => Err e
      end
  end.

(* ------------------------------------------------------------------------------------------- *)
(** * §5 ast_to_type_system (what reaches the builder) *)

Definition type_defs (doc : list item) : list adef :=
  flat_map (fun it => match it with
                      | IDef d => match d_kind d with KSchema => [] | _ => [d] end
                      | _ => [] end) doc.

Definition ast_to_type_system (doc : list item) : schema adef :=
  build (map (fun d => (d_name d, d)) (type_defs doc)).

Definition directive_defs (doc : list item) : list (str * pos) :=
  flat_map (fun it => match it with IDirective n p => [(n, p)] | _ => [] end) doc.
Definition ast_to_directives (doc : list item) : schema pos := build (directive_defs doc).

(* ------------------------------------------------------------------------------------------- *)
(** * §6 schema type printer: scalar table, local names, declaration skeleton *)

Inductive scfg :=
| Single (t : str)
| SendReceive (send receive : str)
| Separate (resolver_output resolver_input operation_output operation_input : str).

Inductive target := OperationInput | OperationOutput | ResolverInput | ResolverOutput.
Definition is_input (t : target) : bool :=
  match t with OperationInput | ResolverInput => true | _ => false end.

Definition get_ts_type (c : scfg) (t : target) : str :=
  match c with
  | Single x => x
  | SendReceive send receive =>
      match t with ResolverOutput => send | ResolverInput => receive | OperationOutput => receive | OperationInput => send end
  | Separate ro ri oo oi =>
      match t with ResolverOutput => ro | ResolverInput => ri | OperationOutput => oo | OperationInput => oi end
  end.

Definition type_names (c : scfg) : list str :=
  match c with
  | Single x => [x]
  | SendReceive send receive => [send; receive]
  | Separate ro ri oo oi => [ro; ri; oo; oi]
  end.

(** printer/src/schema.rs [get_builtin_scalar_types] *)
Definition builtin_scalar_types : hmap scfg :=
  hm_collect [ (s "ID", SendReceive (s "string | number") (s "string"));
               (s "String", Single (s "string"));
               (s "Int", Single (s "number"));
               (s "Float", Single (s "number"));
               (s "Boolean", Single (s "boolean")) ].

(** [SchemaTypePrinterOptions::from_config]: builtin table, then
    result.scalar_types.extend(config.generate.type.scalar_types.iter().map(clone))   — raw iteration *)
Definition from_config (pi : oracle) (cfg : hmap scfg) : hmap scfg :=
  hm_extend builtin_scalar_types (pi scfg cfg).

Definition is_alpha (c : N) : bool := ((65 <=? c) && (c <=? 90) || (97 <=? c) && (c <=? 122))%N.
Definition is_digit (c : N) : bool := ((48 <=? c) && (c <=? 57))%N.
Definition is_ident_start (c : N) : bool := is_alpha c || (c =? 95)%N.
Definition is_ident_char (c : N) : bool := is_alpha c || is_digit c || (c =? 95)%N.

(** the identifier scanner of [get_bag_of_identifiers]; [cur] = the identifier being read (reversed) *)
Fixpoint idents_go (v : str) (cur : option str) : list str :=
  match v with
  | [] => match cur with Some c => [rev c] | None => [] end
  | ch :: r =>
      match cur with
      | None => if is_ident_start ch then idents_go r (Some [ch]) else idents_go r None
      | Some c => if is_ident_char ch then idents_go r (Some (ch :: c)) else rev c :: idents_go r None
      end
  end.
Definition identifiers_of (v : str) : list str := idents_go v None.

(** [get_bag_of_identifiers]: scalar_types.values() — raw iteration; the result is a HashSet used
    for [contains] only, modelled as a list with a membership test *)
Definition bag_of_identifiers (pi : oracle) (st : hmap scfg) : list str :=
  flat_map identifiers_of (flat_map type_names (map snd (pi scfg st))).
Definition bag_mem (b : list str) (x : str) : bool := existsb (str_eqb x) b.

Definition ts_type_directive : str := s "nitrogql_ts_type".

Fixpoint last_arg (args : list (str * option str)) (k : str) (acc : option (option str)) : option (option str) :=
  match args with
  | [] => acc
  | (k', v) :: r => if str_eqb k' k then last_arg r k (Some v) else last_arg r k acc
  end.
Definition string_arg (args : list (str * option str)) (k : str) : option str :=
  match last_arg args k None with Some (Some v) => Some v | _ => None end.

Definition directive_ts_type (d : adef) : option scfg :=
  match find (fun a => str_eqb (ad_name a) ts_type_directive) (d_dirs d) with
  | Some (mk_adir _ (Some args)) =>
      match string_arg args (s "resolverInput"), string_arg args (s "resolverOutput"),
            string_arg args (s "operationInput"), string_arg args (s "operationOutput") with
      | Some ri, Some ro, Some oi, Some oo => Some (Separate ro ri oo oi)
      | _, _, _, _ => None
      end
  | _ => None
  end.

(** [get_scalar_types]: document order, config takes precedence over the directive; collected into a map *)
Definition get_scalar_types (doc : list item) (opts : hmap scfg) : hmap scfg :=
  hm_collect (flat_map (fun d =>
    match d_kind d with
    | KScalar =>
        match (match hm_get opts (d_name d) with Some c => Some c | None => directive_ts_type d end) with
        | Some c => [(d_name d, c)]
        | None => []
        end
    | _ => []
    end) (type_defs doc)).

Definition tmp_prefix : str := s "__tmp_".

Definition make_local_type_names (pi : oracle) (doc : list item) (st : hmap scfg) : hmap str :=
  let bag := bag_of_identifiers pi st in
  hm_collect (map (fun d => (d_name d, if bag_mem bag (d_name d) then tmp_prefix ++ d_name d else d_name d))
                  (type_defs doc)).

(** one declaration the printer emits: section 0–3 = the four namespaces, 4 = representatives *)
(** right-hand side of a declaration, where it is modelled *)
Inductive body :=
| BNone                       (* not modelled (objects, enums, inputs, representatives) *)
| BText (t : str)             (* scalars: the configured TypeScript type, verbatim *)
| BUnion (members : list str). (* interfaces and unions: ts_union of type variables *)

Record decl := mk_decl { dc_section : N; dc_local : str; dc_schema : str; dc_body : body }.

Inductive perr := ScalarTypeNotProvided (name : str) | LocalNameMissing (name : str).

Fixpoint join_bar (l : list str) : str :=
  match l with
  | [] => []
  | [x] => x
  | x :: r => x ++ s " | " ++ join_bar r
  end.
(** ts_union + TSType::print_type *)
Definition union_text (members : list str) : str :=
  match members with [] => s "never" | _ => join_bar members end.

Section Printer.
  Variable pi : oracle.
  Variable options_scalar_types : hmap scfg.
  Variable doc : list item.

  Definition ctx_scalar_types := get_scalar_types doc options_scalar_types.
  Definition ctx_local_names := make_local_type_names pi doc ctx_scalar_types.
  Definition ctx_schema := ast_to_type_system doc.

  (** the name of a type inside the namespace ([local_type_names.get(n)], falling back to [n]) *)
  Definition local_of (n : str) : str :=
    match hm_get ctx_local_names n with Some l => l | None => n end.

  (** [.expect("Local type name not generated")] *)
  Definition with_local (d : adef) (k : str -> list decl) : res perr (list decl) :=
    match hm_get ctx_local_names (d_name d) with
    | None => Err (LocalNameMissing (d_name d))
    | Some local => Ok (k local)
    end.

  Definition print_type_decl (sec : N) (t : target) (d : adef) : res perr (list decl) :=
    match d_kind d with
    | KSchema => Ok []
    | KScalar =>
        match hm_get ctx_scalar_types (d_name d) with
        | None => Err (ScalarTypeNotProvided (d_name d))
        | Some c => with_local d (fun local => [mk_decl sec local (d_name d) (BText (get_ts_type c t))])
        end
    | KObject => if is_input t then Ok [] else with_local d (fun local => [mk_decl sec local (d_name d) BNone])
    | KInterface =>
        if is_input t then Ok []
        else with_local d (fun local =>
               [mk_decl sec local (d_name d)
                  (BUnion (map (fun o => local_of (d_name o)) (interface_implementers ctx_schema (d_name d))))])
    | KUnion =>
        if is_input t then Ok []
        else with_local d (fun local => [mk_decl sec local (d_name d) (BUnion (map local_of (d_items d)))])
    | KEnum => with_local d (fun local => [mk_decl sec local (d_name d) BNone])
    | KInput => if is_input t then with_local d (fun local => [mk_decl sec local (d_name d) BNone]) else Ok []
    end.

  Fixpoint print_defs (sec : N) (t : target) (ds : list adef) : res perr (list decl) :=
    match ds with
    | [] => Ok []
    | d :: r =>
        match print_type_decl sec t d with
        | Err e => Err e
        | Ok l => match print_defs sec t r with Ok l' => Ok (l ++ l') | Err e => Err e end
        end
    end.

  Fixpoint print_representatives (ds : list adef) : res perr (list decl) :=
    match ds with
    | [] => Ok []
    | d :: r =>
        match with_local d (fun local => [mk_decl 4 local (d_name d) BNone]) with
        | Err e => Err e
        | Ok l => match print_representatives r with Ok l' => Ok (l ++ l') | Err e => Err e end
        end
    end.

  Definition targets : list (N * target) :=
    [(0%N, OperationInput); (1%N, OperationOutput); (2%N, ResolverInput); (3%N, ResolverOutput)].

  Fixpoint print_targets (ts : list (N * target)) : res perr (list decl) :=
    match ts with
    | [] => print_representatives (type_defs doc)
    | (sec, t) :: r =>
        match print_defs sec t (type_defs doc) with
        | Err e => Err e
        | Ok l => match print_targets r with Ok l' => Ok (l ++ l') | Err e => Err e end
        end
    end.

  (** the skeleton of [SchemaTypePrinter::print_document] *)
  Definition print_skeleton : res perr (list decl) := print_targets targets.
End Printer.

(* ------------------------------------------------------------------------------------------- *)
(** * §7 abstract pipeline *)

(** cli/src/main.rs: documents merged in file order ([TypeSystemOrExtensionDocument::merge] concatenates),
    then the built-in definitions are appended *)
Definition merge_files (files : list (list item)) (builtins : list item) : list item :=
  concat files ++ builtins.

Inductive gen_result :=
| GResolveError (e : xerr)
| GPrintError (e : perr)
| GOk (decls : list decl).

(** [pi_cfg] = order of config.scalar_types.iter() in from_config, [pi_bag] = order of scalar_types.values() *)
Definition gen (pi_cfg pi_bag : oracle) (cfg : hmap scfg) (files : list (list item)) (builtins : list item) : gen_result :=
  match resolve_schema_extensions (merge_files files builtins) with
  | Err e => GResolveError e
  | Ok doc =>
      match print_skeleton pi_bag (from_config pi_cfg cfg) doc with
      | Err e => GPrintError e
      | Ok l => GOk l
      end
  end.

(* ------------------------------------------------------------------------------------------- *)
(** * §8 graphql-scalars plugin (plugin/src/graphql_scalars_plugin/mod.rs) *)

(** lexicographic order of strings = [Ord for String] (byte order of UTF-8 = order of scalar values) *)
Fixpoint str_leb (a b : str) : bool :=
  match a, b with
  | [], _ => true
  | _ :: _, [] => false
  | x :: a', y :: b' => (x <? y)%N || ((x =? y)%N && str_leb a' b')
  end.

(** stable insertion sort by a boolean order ([sort_by_key] on the map keys) *)
Fixpoint ins_leb {A} (leb : A -> A -> bool) (x : A) (l : list A) : list A :=
  match l with
  | [] => [x]
  | y :: r => if leb x y then x :: y :: r else y :: ins_leb leb x r
  end.
Definition sort_leb {A} (leb : A -> A -> bool) (l : list A) : list A := fold_right (ins_leb leb) [] l.

(** the `codegenScalarType` extension value: a string, a mapping (string keys; [Some s] = string value), other *)
Inductive ycodegen := YStr (v : str) | YMap (m : list (str * option str)) | YOther.
(** one entry of `type_extensions`: `nitrogql:kind` as a string (if it is one) and `codegenScalarType` (if present) *)
Record xext := mk_xext { xe_kind : option str; xe_codegen : option ycodegen }.

Definition ymap_get (m : list (str * option str)) (k : str) : option (option str) := hm_get m k.
(** `.get(a).or(.get(b)).and_then(|v| v.as_str())` *)
Definition yget2 (m : list (str * option str)) (a b : str) : option str :=
  match (match ymap_get m a with Some v => Some v | None => ymap_get m b end) with
  | Some (Some x) => Some x
  | _ => None
  end.
Definition yget (m : list (str * option str)) (a : str) : option str :=
  match ymap_get m a with Some (Some x) => Some x | _ => None end.

(** what one loop iteration of [load_schema_extensions] inserts for a type, if anything *)
Definition scalar_extension_of (e : xext) : option scfg :=
  match xe_kind e with
  | Some k =>
      if str_eqb k (s "scalar") then
        match xe_codegen e with
        | None => None
        | Some (YStr v) => Some (Single v)
        | Some YOther => None
        | Some (YMap m) =>
            match yget2 m (s "send") (s "input"), yget2 m (s "receive") (s "output") with
            | Some send, Some receive => Some (SendReceive send receive)
            | _, _ =>
                match yget m (s "resolverInput"), yget m (s "resolverOutput"),
                      yget m (s "operationInput"), yget m (s "operationOutput") with
                | Some ri, Some ro, Some oi, Some oo => Some (Separate ro ri oo oi)
                | _, _, _, _ => None
                end
            end
        end
      else None
  | None => None
  end.

(** [load_schema_extensions]: `for (type_name, extensions) in extensions.type_extensions` — raw iteration;
    inserts into the plugin's own map *)
Definition load_schema_extensions (pi : oracle) (base : hmap scfg) (exts : hmap xext) : hmap scfg :=
  hm_extend base (flat_map (fun kv => match scalar_extension_of (snd kv) with
                                      | Some c => [(fst kv, c)]
                                      | None => []
                                      end) (pi xext exts)).

(** [separate_ref] as (resolver_input, resolver_output, operation_input, operation_output) *)
Definition separate4 (c : scfg) : str * str * str * str :=
  match c with
  | Single t => (t, t, t, t)
  | SendReceive send receive => (receive, send, send, receive)
  | Separate ro ri oo oi => (ri, ro, oi, oo)
  end.

Definition nl1 : str := [10%N].
Definition dq : str := [34%N].
Definition format_extension (kv : str * scfg) : str :=
  let '(ri, ro, oi, oo) := separate4 (snd kv) in
  s "extend scalar " ++ fst kv ++ s " @nitrogql_ts_type(" ++ nl1
  ++ s "        resolverInput: " ++ dq ++ ri ++ dq ++ nl1
  ++ s "        resolverOutput: " ++ dq ++ ro ++ dq ++ nl1
  ++ s "        operationInput: " ++ dq ++ oi ++ dq ++ nl1
  ++ s "        operationOutput: " ++ dq ++ oo ++ dq ++ nl1
  ++ s "    )" ++ nl1.

(** [schema_addition]: `self.scalar_extensions.iter().collect()` — raw iteration — then
    `sort_by_key(|(type_name, _)| *type_name)` "to make the output deterministic" *)
Definition schema_addition (pi : oracle) (exts : hmap scfg) : option str :=
  let sorted := sort_leb (fun a b : str * scfg => str_leb (fst a) (fst b)) (pi scfg exts) in
  match flat_map format_extension sorted with
  | [] => None
  | t => Some t
  end.

Definition plugin_schema_addition (pi_load pi_add : oracle) (exts : hmap xext) : option str :=
  schema_addition pi_add (load_schema_extensions pi_load [] exts).

(* ------------------------------------------------------------------------------------------- *)
(** * §9 graphql-loader: get_required_files (loader.rs) over Task::iter_loaded_files (tasks.rs) *)

(** [loaded] : file name -> the import paths of that file, already resolved against it;
    `for (from_file, (_, extensions)) in task.iter_loaded_files()` — raw iteration of the HashMap *)
Definition required_step (loaded : hmap (list str)) (acc : list str) (path : str) : list str :=
  if hm_mem loaded path || existsb (str_eqb path) acc then acc else acc ++ [path].

Definition get_required_files (pi : oracle) (loaded : hmap (list str)) : list str :=
  fold_left (fun acc kv => fold_left (required_step loaded) (snd kv) acc) (pi (list str) loaded) [].
