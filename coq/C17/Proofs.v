(** C17 — proofs.  §A hash maps; §B printer context (from_config, bag, local names, skeleton, gen);
    §C SchemaBuilder / Schema / map_str; §D definition permutations; §E ExtensionList sorting;
    §F the table of known iteration sites. *)
From V Require Import Base.Util C17.Sites C17.Model.
From V Require Gen.C17_sites_gen.
From Coq Require Import Permutation Sorting.Sorted String.
Import ListNotations.
Open Scope list_scope.


(* ------------------------------------------------------------------------------------------- *)
(** * §A association lists as hash maps *)

Lemma str_eqb_sym a b : str_eqb a b = str_eqb b a.
Proof.
  destruct (str_eqb_spec a b) as [E|Hn]; destruct (str_eqb_spec b a) as [E'|Hn']; try reflexivity; congruence.
Qed.

Lemma str_eqb_eq a b : str_eqb a b = true <-> a = b.
Proof. destruct (str_eqb_spec a b); split; congruence. Qed.

Lemma str_eqb_neq a b : str_eqb a b = false <-> a <> b.
Proof. destruct (str_eqb_spec a b); split; congruence. Qed.

Definition keys {V} (m : hmap V) : list str := map fst m.

Lemma hm_get_app {V} (m1 m2 : hmap V) k :
  hm_get (m1 ++ m2) k = match hm_get m1 k with Some v => Some v | None => hm_get m2 k end.
Proof.
  induction m1 as [|[k' v'] r IH]; cbn [hm_get app]; [reflexivity|].
  destruct (str_eqb k' k); [reflexivity|exact IH].
Qed.

Lemma hm_get_None_not_in {V} (m : hmap V) k : hm_get m k = None <-> ~ In k (keys m).
Proof.
  induction m as [|[k' v'] r IH]; cbn [hm_get keys map fst In].
  - split; [intros _ []|reflexivity].
  - destruct (str_eqb_spec k' k) as [->|Hn].
    + split; [discriminate|intros H; exfalso; apply H; now left].
    + rewrite IH. unfold keys. split; [intros H [E|Hin]; [congruence|auto]|intros H Hin; apply H; now right].
Qed.

Lemma hm_get_in {V} (m : hmap V) k v : NoDup (keys m) -> In (k, v) m -> hm_get m k = Some v.
Proof.
  induction m as [|[k' v'] r IH]; intros Hnd Hin; [destruct Hin|].
  cbn [keys map fst] in Hnd. inversion Hnd as [|? ? Hnotin Hnd']; subst.
  cbn [hm_get]. destruct Hin as [E|Hin].
  - inversion E; subst. now rewrite str_eqb_refl.
  - destruct (str_eqb_spec k' k) as [->|Hn].
    + exfalso. apply Hnotin. change (In k (map fst r)). apply in_map_iff. now exists (k, v).
    + now apply IH.
Qed.

Lemma hm_get_some_in {V} (m : hmap V) k v : hm_get m k = Some v -> In (k, v) m.
Proof.
  induction m as [|[k' v'] r IH]; cbn [hm_get]; [discriminate|].
  destruct (str_eqb_spec k' k) as [->|Hn]; intros H.
  - inversion H; subst. now left.
  - right. now apply IH.
Qed.

(** lookups in a map with unique keys do not depend on the order of its entries *)
Lemma hm_get_perm {V} (m m' : hmap V) k :
  Permutation m m' -> NoDup (keys m) -> hm_get m k = hm_get m' k.
Proof.
  intros Hp Hnd.
  assert (Hnd' : NoDup (keys m')) by (eapply Permutation_NoDup; [apply Permutation_map; exact Hp|exact Hnd]).
  destruct (hm_get m k) as [v|] eqn:E.
  - symmetry. apply hm_get_in; [exact Hnd'|]. eapply Permutation_in; [exact Hp|]. now apply hm_get_some_in.
  - symmetry. apply hm_get_None_not_in. intros Hin. apply hm_get_None_not_in in E. apply E.
    eapply Permutation_in; [apply Permutation_sym; apply Permutation_map; exact Hp|exact Hin].
Qed.

Lemma keys_insert_in {V} (m : hmap V) k v : In k (keys m) -> keys (hm_insert m k v) = keys m.
Proof.
  induction m as [|[k' v'] r IH]; intros Hin; [destruct Hin|].
  cbn [hm_insert]. destruct (str_eqb_spec k' k) as [->|Hn]; [reflexivity|].
  cbn [keys map fst] in *. f_equal. apply IH. destruct Hin; [congruence|assumption].
Qed.

Lemma hm_insert_not_in {V} (m : hmap V) k v : ~ In k (keys m) -> hm_insert m k v = m ++ [(k, v)].
Proof.
  induction m as [|[k' v'] r IH]; intros Hn; [reflexivity|].
  cbn [hm_insert]. cbn [keys map fst In] in Hn.
  destruct (str_eqb_spec k' k) as [->|Hne]; [exfalso; apply Hn; now left|].
  cbn [app]. f_equal. apply IH. intros H; apply Hn; now right.
Qed.

Lemma hm_get_insert {V} (m : hmap V) k v k' :
  hm_get (hm_insert m k v) k' = if str_eqb k k' then Some v else hm_get m k'.
Proof.
  induction m as [|[k0 v0] r IH]; cbn [hm_insert hm_get].
  - reflexivity.
  - destruct (str_eqb_spec k0 k) as [->|Hn]; cbn [hm_get].
    + destruct (str_eqb k k'); reflexivity.
    + rewrite IH. destruct (str_eqb_spec k0 k') as [->|Hn'].
      * destruct (str_eqb_spec k k') as [->|]; [congruence|reflexivity].
      * reflexivity.
Qed.

(** extending: the last binding of a key in [l] wins, otherwise the old map is consulted *)
Lemma hm_get_extend {V} (l : list (str * V)) : forall (m : hmap V) k,
  hm_get (hm_extend m l) k = match hm_get (rev l) k with Some v => Some v | None => hm_get m k end.
Proof.
  unfold hm_extend. induction l as [|[k0 v0] r IH]; intros m k; cbn [fold_left rev fst snd].
  - reflexivity.
  - rewrite IH, hm_get_app, hm_get_insert. cbn [hm_get].
    destruct (hm_get (rev r) k); [reflexivity|]. destruct (str_eqb k0 k); reflexivity.
Qed.

Lemma hm_get_extend_nodup {V} (l : list (str * V)) (m : hmap V) k :
  NoDup (keys l) ->
  hm_get (hm_extend m l) k = match hm_get l k with Some v => Some v | None => hm_get m k end.
Proof.
  intros Hnd. rewrite hm_get_extend.
  rewrite <- (@hm_get_perm V l (rev l) k (Permutation_rev l) Hnd). reflexivity.
Qed.

(** collecting a list whose keys are distinct gives that very list *)
Lemma hm_extend_nodup_list {V} (l : list (str * V)) : forall m : hmap V,
  NoDup (keys m ++ keys l) -> hm_extend m l = m ++ l.
Proof.
  unfold hm_extend. induction l as [|[k v] r IH]; intros m Hnd; cbn [fold_left fst snd].
  - now rewrite app_nil_r.
  - cbn [keys map fst] in Hnd.
    assert (Hnotin : ~ In k (keys m)).
    { intros Hin. apply NoDup_remove_2 in Hnd. apply Hnd. apply in_or_app. now left. }
    rewrite hm_insert_not_in by exact Hnotin.
    rewrite IH.
    + now rewrite <- app_assoc.
    + unfold keys. rewrite map_app. cbn [map fst]. rewrite <- app_assoc. cbn [app].
      exact Hnd.
Qed.

Lemma hm_collect_nodup {V} (l : list (str * V)) : NoDup (keys l) -> hm_collect l = l.
Proof. intros H. unfold hm_collect. rewrite hm_extend_nodup_list; [reflexivity|exact H]. Qed.

Lemma existsb_perm {A} (f : A -> bool) l l' : Permutation l l' -> existsb f l = existsb f l'.
Proof.
  induction 1 as [|x l l' _ IH|x y l|l l' l'' _ IH1 _ IH2]; cbn [existsb].
  - reflexivity.
  - now rewrite IH.
  - destruct (f x), (f y); reflexivity.
  - congruence.
Qed.

Lemma oracle_keys_nodup (pi : oracle) V (m : hmap V) : is_oracle pi -> NoDup (keys m) -> NoDup (keys (pi V m)).
Proof.
  intros Ho Hnd. eapply Permutation_NoDup; [|exact Hnd].
  apply Permutation_sym. apply Permutation_map. apply Ho.
Qed.

Lemma o_id_is_oracle : is_oracle o_id.
Proof. intros V m. apply Permutation_refl. Qed.
Lemma o_rev_is_oracle : is_oracle o_rev.
Proof. intros V m. apply Permutation_sym, Permutation_rev. Qed.
Lemma o_rot_is_oracle : is_oracle o_rot.
Proof.
  intros V [|x r]; [constructor|]. cbn [o_rot].
  apply Permutation_sym. change (x :: r) with ([x] ++ r). apply Permutation_app_comm.
Qed.

(* ------------------------------------------------------------------------------------------- *)
(** * §B printer context *)

(** site: printer/src/schema_type_printer/printer.rs from_config, scalar_types.iter() *)
Lemma from_config_spec (pi : oracle) (cfg : hmap scfg) k :
  is_oracle pi -> NoDup (keys cfg) ->
  hm_get (from_config pi cfg) k =
  match hm_get cfg k with Some c => Some c | None => hm_get builtin_scalar_types k end.
Proof.
  intros Ho Hnd. unfold from_config.
  rewrite hm_get_extend_nodup by (apply oracle_keys_nodup; assumption).
  rewrite (@hm_get_perm _ (pi scfg cfg) cfg k (Ho _ cfg)) by (apply oracle_keys_nodup; assumption).
  reflexivity.
Qed.

Lemma from_config_oracle_irrelevant (pi pi' : oracle) (cfg : hmap scfg) k :
  is_oracle pi -> is_oracle pi' -> NoDup (keys cfg) ->
  hm_get (from_config pi cfg) k = hm_get (from_config pi' cfg) k.
Proof. intros H H' Hnd. now rewrite !from_config_spec. Qed.

(** site: printer/src/schema_type_printer/context.rs get_bag_of_identifiers, scalar_types.values() *)
Lemma bag_mem_oracle_irrelevant (pi pi' : oracle) (st : hmap scfg) x :
  is_oracle pi -> is_oracle pi' ->
  bag_mem (bag_of_identifiers pi st) x = bag_mem (bag_of_identifiers pi' st) x.
Proof.
  intros H H'. unfold bag_mem, bag_of_identifiers. apply existsb_perm.
  apply Permutation_flat_map, Permutation_flat_map, Permutation_map.
  eapply Permutation_trans; [apply H|apply Permutation_sym, H'].
Qed.

Lemma bag_mem_spec (pi : oracle) (st : hmap scfg) x :
  is_oracle pi ->
  bag_mem (bag_of_identifiers pi st) x = true <->
  exists k c t, In (k, c) st /\ In t (type_names c) /\ In x (identifiers_of t).
Proof.
  intros H. rewrite (bag_mem_oracle_irrelevant pi o_id st x H o_id_is_oracle).
  unfold bag_mem, bag_of_identifiers, o_id. rewrite existsb_exists. split.
  - intros (y & Hin & E). apply str_eqb_eq in E. subst y.
    apply in_flat_map in Hin. destruct Hin as (t & Hint & Hx).
    apply in_flat_map in Hint. destruct Hint as (c & Hc & Ht).
    apply in_map_iff in Hc. destruct Hc as ([k c'] & Ec & Hkc). cbn [snd] in Ec. subst c'.
    now exists k, c, t.
  - intros (k & c & t & Hkc & Ht & Hx). exists x. split; [|apply str_eqb_refl].
    apply in_flat_map. exists t. split; [|exact Hx].
    apply in_flat_map. exists c. split; [|exact Ht].
    apply in_map_iff. now exists (k, c).
Qed.

(** the map of local names is the same *list*, whatever order the bag was filled in *)
Lemma make_local_type_names_oracle_irrelevant (pi pi' : oracle) doc st :
  is_oracle pi -> is_oracle pi' ->
  make_local_type_names pi doc st = make_local_type_names pi' doc st.
Proof.
  intros H H'. unfold make_local_type_names. f_equal. apply map_ext. intros d.
  now rewrite (bag_mem_oracle_irrelevant pi pi' st (d_name d) H H').
Qed.

(** a type gets the [__tmp_] prefix iff its name occurs as an identifier in some scalar's TS type *)
Lemma local_name_spec (pi : oracle) doc st d :
  is_oracle pi -> NoDup (map d_name (type_defs doc)) -> In d (type_defs doc) ->
  hm_get (make_local_type_names pi doc st) (d_name d) =
  Some (if bag_mem (bag_of_identifiers o_id st) (d_name d) then tmp_prefix ++ d_name d else d_name d).
Proof.
  intros H Hnd Hin. unfold make_local_type_names. cbv zeta.
  assert (Hk : keys (map (fun d0 => (d_name d0,
               if bag_mem (bag_of_identifiers pi st) (d_name d0) then tmp_prefix ++ d_name d0 else d_name d0))
               (type_defs doc)) = map d_name (type_defs doc)).
  { unfold keys. rewrite map_map. reflexivity. }
  rewrite hm_collect_nodup by (rewrite Hk; exact Hnd).
  rewrite <- (bag_mem_oracle_irrelevant pi o_id st (d_name d) H o_id_is_oracle).
  apply hm_get_in; [unfold keys; rewrite map_map; exact Hnd|].
  apply in_map_iff. exists d. split; [reflexivity|exact Hin].
Qed.

Lemma get_scalar_types_ext doc (o o' : hmap scfg) :
  (forall k, hm_get o k = hm_get o' k) -> get_scalar_types doc o = get_scalar_types doc o'.
Proof.
  intros E. unfold get_scalar_types. f_equal. apply flat_map_ext. intros d. now rewrite E.
Qed.

(** the printer reads its options only through key lookups and the oracle only through the bag *)
Lemma ctx_local_names_irrelevant (pi pi' : oracle) (o o' : hmap scfg) doc :
  is_oracle pi -> is_oracle pi' -> (forall k, hm_get o k = hm_get o' k) ->
  ctx_local_names pi o doc = ctx_local_names pi' o' doc.
Proof.
  intros H H' E. unfold ctx_local_names, ctx_scalar_types.
  rewrite (get_scalar_types_ext doc o o' E). now apply make_local_type_names_oracle_irrelevant.
Qed.

Lemma print_skeleton_irrelevant (pi pi' : oracle) (o o' : hmap scfg) doc :
  is_oracle pi -> is_oracle pi' -> (forall k, hm_get o k = hm_get o' k) ->
  print_skeleton pi o doc = print_skeleton pi' o' doc.
Proof.
  intros H H' E.
  pose proof (ctx_local_names_irrelevant pi pi' o o' doc H H' E) as EL.
  pose proof (get_scalar_types_ext doc o o' E) as ES.
  assert (EW : forall d k, with_local pi o doc d k = with_local pi' o' doc d k).
  { intros d k. unfold with_local. now rewrite EL. }
  assert (ELO : forall n, local_of pi o doc n = local_of pi' o' doc n).
  { intros n. unfold local_of. now rewrite EL. }
  assert (ED : forall sec t d, print_type_decl pi o doc sec t d = print_type_decl pi' o' doc sec t d).
  { intros sec t d. unfold print_type_decl, ctx_scalar_types. rewrite ES.
    destruct (d_kind d); try reflexivity.
    - destruct (hm_get (get_scalar_types doc o') (d_name d)); [apply EW|reflexivity].
    - destruct (is_input t); [reflexivity|apply EW].
    - destruct (is_input t); [reflexivity|]. rewrite EW.
      rewrite (map_ext (fun o0 => local_of pi o doc (d_name o0)) (fun o0 => local_of pi' o' doc (d_name o0))
                       (fun a => ELO (d_name a))).
      reflexivity.
    - destruct (is_input t); [reflexivity|]. rewrite EW.
      rewrite (map_ext (local_of pi o doc) (local_of pi' o' doc) ELO). reflexivity.
    - apply EW.
    - destruct (is_input t); [apply EW|reflexivity]. }
  assert (EP : forall sec t ds, print_defs pi o doc sec t ds = print_defs pi' o' doc sec t ds).
  { intros sec t ds. induction ds as [|d r IH]; cbn [print_defs]; [reflexivity|]. now rewrite ED, IH. }
  assert (ER : forall ds, print_representatives pi o doc ds = print_representatives pi' o' doc ds).
  { induction ds as [|d r IH]; cbn [print_representatives]; [reflexivity|]. now rewrite EW, IH. }
  unfold print_skeleton. generalize targets. intros ts.
  induction ts as [|[sec t] r IH]; cbn [print_targets]; [apply ER|]. now rewrite EP, IH.
Qed.

(** DESIGN §4 C17 [order_oracle_irrelevant]: the whole abstract generation result does not depend on
    the iteration order of either hash map *)
Lemma gen_oracle_irrelevant (p1 p2 p1' p2' : oracle) cfg files builtins :
  is_oracle p1 -> is_oracle p2 -> is_oracle p1' -> is_oracle p2' -> NoDup (keys cfg) ->
  gen p1 p2 cfg files builtins = gen p1' p2' cfg files builtins.
Proof.
  intros H1 H2 H1' H2' Hnd. unfold gen.
  destruct (resolve_schema_extensions (merge_files files builtins)) as [doc|e]; [|reflexivity].
  rewrite (print_skeleton_irrelevant p2 p2' (from_config p1 cfg) (from_config p1' cfg) doc H2 H2').
  - reflexivity.
  - intros k. now apply from_config_oracle_irrelevant.
Qed.

(* ------------------------------------------------------------------------------------------- *)
(** * §C SchemaBuilder / Schema *)

(** the builder's invariant: the name vector lists the keys of the map, in order, without repetition *)
Definition wf {D} (sc : schema D) : Prop := sc_names sc = keys (sc_types sc) /\ NoDup (sc_names sc).

Lemma wf_empty {D} : wf (@sb_empty D).
Proof. split; [reflexivity|constructor]. Qed.

Lemma hm_mem_true_iff {V} (m : hmap V) k : hm_mem m k = true <-> In k (keys m).
Proof.
  unfold hm_mem. destruct (hm_get m k) eqn:E.
  - split; [intros _|reflexivity]. apply hm_get_some_in in E.
    apply in_map_iff. now exists (k, v).
  - split; [discriminate|]. intros Hin. apply hm_get_None_not_in in E. contradiction.
Qed.

Lemma NoDup_snoc {A} (l : list A) (k : A) : NoDup l -> ~ In k l -> NoDup (l ++ [k]).
Proof.
  intros Hnd Hn. eapply Permutation_NoDup; [apply Permutation_cons_append|]. now constructor.
Qed.

Lemma wf_add {D} (b : schema D) k d : wf b -> wf (sb_add b k d).
Proof.
  intros [Hn Hnd]. unfold sb_add. destruct (hm_mem (sc_types b) k) eqn:E; [now split|].
  split; cbn.
  - unfold keys in *. rewrite map_app, Hn. reflexivity.
  - assert (Hnotin : ~ In k (sc_names b)).
    { rewrite Hn. intros Hin. apply hm_mem_true_iff in Hin. congruence. }
    apply NoDup_snoc; assumption.
Qed.

Lemma wf_extend {D} (items : list (str * D)) : forall b : schema D, wf b -> wf (sb_extend b items).
Proof.
  unfold sb_extend. induction items as [|[k d] r IH]; intros b Hb; cbn [fold_left fst snd]; [exact Hb|].
  apply IH. now apply wf_add.
Qed.

Lemma wf_build {D} (items : list (str * D)) : wf (build items).
Proof. apply wf_extend, wf_empty. Qed.

(** [iter_types] of a well-formed schema is the entry list itself: insertion order, no oracle *)
Lemma iter_types_wf {D} (sc : schema D) : wf sc -> iter_types sc = sc_types sc.
Proof.
  intros [Hn Hnd]. unfold iter_types. rewrite Hn in *.
  assert (G : forall l : hmap D, (forall k v, In (k, v) l -> hm_get (sc_types sc) k = Some v) ->
              flat_map (fun n => match hm_get (sc_types sc) n with Some d => [(n, d)] | None => [] end) (keys l) = l).
  { induction l as [|[k v] r IH]; intros Hl; [reflexivity|].
    cbn [keys map fst flat_map]. rewrite (Hl k v) by now left. cbn [app]. f_equal.
    apply IH. intros k' v' Hin. apply Hl. now right. }
  apply G. intros k v Hin. now apply hm_get_in.
Qed.

(** with distinct names, the builder stores exactly the definitions it was given, in the given order *)
Lemma build_nodup_gen {D} (items : list (str * D)) : forall b : schema D,
  wf b -> NoDup (sc_names b ++ keys items) ->
  sc_types (sb_extend b items) = sc_types b ++ items /\ sc_names (sb_extend b items) = sc_names b ++ keys items.
Proof.
  unfold sb_extend. induction items as [|[k d] r IH]; intros b Hb Hnd; cbn [fold_left fst snd].
  - cbn [keys map]. now rewrite !app_nil_r.
  - cbn [keys map fst] in Hnd.
    assert (Hnotin : ~ In k (sc_names b)).
    { intros Hin. apply NoDup_remove_2 in Hnd. apply Hnd. apply in_or_app. now left. }
    assert (E : sb_add b k d = mk_schema (sc_types b ++ [(k, d)]) (sc_names b ++ [k])).
    { unfold sb_add. destruct (hm_mem (sc_types b) k) eqn:Em; [|reflexivity].
      apply hm_mem_true_iff in Em. destruct Hb as [Hn _]. rewrite <- Hn in Em. contradiction. }
    rewrite E. specialize (IH (mk_schema (sc_types b ++ [(k, d)]) (sc_names b ++ [k]))).
    cbn [sc_types sc_names] in IH. rewrite <- !app_assoc in IH. cbn [app] in IH.
    apply IH.
    + rewrite <- E. now apply wf_add.
    + exact Hnd.
Qed.

Lemma build_nodup {D} (items : list (str * D)) :
  NoDup (keys items) -> sc_types (build items) = items /\ sc_names (build items) = keys items.
Proof. intros Hnd. apply (build_nodup_gen items sb_empty wf_empty). exact Hnd. Qed.

Lemma iter_types_build_nodup {D} (items : list (str * D)) :
  NoDup (keys items) -> iter_types (build items) = items.
Proof. intros Hnd. rewrite iter_types_wf by apply wf_build. now apply build_nodup. Qed.

Lemma get_type_build_nodup {D} (items : list (str * D)) k :
  NoDup (keys items) -> get_type (build items) k = hm_get items k.
Proof. intros Hnd. unfold get_type. now destruct (build_nodup items Hnd) as [-> _]. Qed.

(** first insertion wins in general: the names are the first occurrences, in order *)
Fixpoint dedup (seen l : list str) : list str :=
  match l with
  | [] => []
  | x :: r => if existsb (str_eqb x) seen then dedup seen r else x :: dedup (seen ++ [x]) r
  end.

Lemma existsb_str_in x l : existsb (str_eqb x) l = true <-> In x l.
Proof.
  rewrite existsb_exists. split.
  - intros (y & Hin & E). apply str_eqb_eq in E. now subst.
  - intros Hin. exists x. split; [exact Hin|apply str_eqb_refl].
Qed.

Lemma names_extend {D} (items : list (str * D)) : forall b : schema D,
  wf b -> sc_names (sb_extend b items) = sc_names b ++ dedup (sc_names b) (keys items).
Proof.
  unfold sb_extend. induction items as [|[k d] r IH]; intros b Hb; cbn [fold_left fst snd keys map dedup].
  - now rewrite app_nil_r.
  - pose proof Hb as [Hn _].
    destruct (hm_mem (sc_types b) k) eqn:Em.
    + assert (Eadd : sb_add b k d = b) by (unfold sb_add; now rewrite Em).
      rewrite Eadd.
      assert (Hin : existsb (str_eqb k) (sc_names b) = true).
      { apply existsb_str_in. rewrite Hn. now apply hm_mem_true_iff. }
      rewrite Hin. now apply IH.
    + assert (Eadd : sb_add b k d = mk_schema (sc_types b ++ [(k, d)]) (sc_names b ++ [k]))
        by (unfold sb_add; now rewrite Em).
      assert (Hin : existsb (str_eqb k) (sc_names b) = false).
      { destruct (existsb (str_eqb k) (sc_names b)) eqn:Ex; [|reflexivity].
        apply existsb_str_in in Ex. rewrite Hn in Ex. apply hm_mem_true_iff in Ex. congruence. }
      rewrite Hin.
      assert (Hw : wf (mk_schema (sc_types b ++ [(k, d)]) (sc_names b ++ [k]))).
      { rewrite <- Eadd. now apply wf_add. }
      rewrite Eadd, (IH _ Hw). cbn. now rewrite <- app_assoc.
Qed.

Lemma iter_types_names_build {D} (items : list (str * D)) :
  map fst (iter_types (build items)) = dedup [] (keys items).
Proof.
  rewrite iter_types_wf by apply wf_build.
  destruct (wf_build items) as [Hn _]. unfold keys in Hn. rewrite <- Hn.
  unfold build. now rewrite names_extend by apply wf_empty.
Qed.

(** ** map_str *)

Definition fg {D D'} (f : str -> str) (g : D -> D') (kv : str * D) : str * D' := (f (fst kv), g (snd kv)).

Lemma keys_map_fg {D D'} (f : str -> str) (g : D -> D') (m : hmap D) : keys (map (fg f g) m) = map f (keys m).
Proof. unfold keys. rewrite !map_map. reflexivity. Qed.

(** site: type-system/src/schema.rs map_str, type_definitions.iter() / directive_definitions.iter() *)
Lemma map_str_spec {D D'} (pi : oracle) (f : str -> str) (g : D -> D') (sc : schema D) :
  is_oracle pi -> wf sc -> NoDup (map f (sc_names sc)) ->
  iter_types (map_str pi f g sc) = map (fg f g) (iter_types sc)
  /\ forall k, get_type (map_str pi f g sc) k = hm_get (map (fg f g) (sc_types sc)) k.
Proof.
  intros Ho Hw Hinj. pose proof Hw as [Hn Hnd].
  set (m' := map (fg f g) (pi D (sc_types sc))).
  assert (Hperm : Permutation m' (map (fg f g) (sc_types sc))).
  { unfold m'. apply Permutation_map, Ho. }
  assert (Hk : NoDup (keys (map (fg f g) (sc_types sc)))).
  { rewrite keys_map_fg. rewrite <- Hn. exact Hinj. }
  assert (Hk' : NoDup (keys m')).
  { eapply Permutation_NoDup; [apply Permutation_sym, Permutation_map, Hperm|exact Hk]. }
  assert (Et : sc_types (map_str pi f g sc) = m').
  { unfold map_str. cbn [sc_types]. fold (fg f g). apply hm_collect_nodup. exact Hk'. }
  split.
  - rewrite (iter_types_wf sc Hw). unfold iter_types. rewrite Et. unfold map_str. cbn [sc_names].
    rewrite Hn.
    assert (G : forall l : hmap D, (forall kv, In kv l -> In kv (sc_types sc)) ->
                flat_map (fun n => match hm_get m' n with Some d => [(n, d)] | None => [] end) (map f (keys l))
                = map (fg f g) l).
    { induction l as [|[k v] r IH]; intros Hl; [reflexivity|].
      cbn [keys map fst flat_map].
      assert (Hg : hm_get m' (f k) = Some (g v)).
      { apply hm_get_in; [exact Hk'|]. eapply Permutation_in; [apply Permutation_sym, Hperm|].
        apply in_map_iff. exists (k, v). split; [reflexivity|]. apply Hl. now left. }
      rewrite Hg. cbn [app]. f_equal. apply IH. intros kv Hin. apply Hl. now right. }
    apply G. auto.
  - intros k. unfold get_type. rewrite Et. apply hm_get_perm; assumption.
Qed.

Lemma map_str_oracle_irrelevant {D D'} (pi pi' : oracle) (f : str -> str) (g : D -> D') (sc : schema D) :
  is_oracle pi -> is_oracle pi' -> wf sc -> NoDup (map f (sc_names sc)) ->
  iter_types (map_str pi f g sc) = iter_types (map_str pi' f g sc)
  /\ forall k, get_type (map_str pi f g sc) k = get_type (map_str pi' f g sc) k.
Proof.
  intros H H' Hw Hinj.
  destruct (map_str_spec pi f g sc H Hw Hinj) as [E1 E2].
  destruct (map_str_spec pi' f g sc H' Hw Hinj) as [E1' E2'].
  split; [congruence|]. intros k. now rewrite E2, E2'.
Qed.

(** without injectivity of the renaming the result does depend on the iteration order *)
Lemma map_str_refuted :
  exists (sc : schema N) (f : str -> str) (pi pi' : oracle),
    is_oracle pi /\ is_oracle pi' /\ wf sc /\
    get_type (map_str pi f (fun x => x) sc) (s "K") <> get_type (map_str pi' f (fun x => x) sc) (s "K").
Proof.
  exists (build [(s "A", 1%N); (s "B", 2%N)]), (fun _ => s "K"), o_id, o_rev.
  split; [apply o_id_is_oracle|]. split; [apply o_rev_is_oracle|]. split; [apply wf_build|].
  vm_compute. discriminate.
Qed.

(* ------------------------------------------------------------------------------------------- *)
(** * §D permuting definitions *)

Lemma filter_perm {A} (p : A -> bool) l l' : Permutation l l' -> Permutation (filter p l) (filter p l').
Proof.
  induction 1 as [|x l l' _ IH|x y l|l l' l'' _ IH1 _ IH2]; cbn [filter].
  - constructor.
  - destruct (p x); [now constructor|exact IH].
  - destruct (p x), (p y); try apply Permutation_refl. apply perm_swap.
  - eapply Permutation_trans; eassumption.
Qed.

(** reordering definitions with distinct names: same lookups, iteration order permuted accordingly *)
Lemma build_permutation {D} (items items' : list (str * D)) :
  Permutation items items' -> NoDup (keys items) ->
  (forall k, get_type (build items) k = get_type (build items') k)
  /\ Permutation (iter_types (build items)) (iter_types (build items'))
  /\ iter_types (build items) = items /\ iter_types (build items') = items'.
Proof.
  intros Hp Hnd.
  assert (Hnd' : NoDup (keys items')) by (eapply Permutation_NoDup; [apply Permutation_map, Hp|exact Hnd]).
  rewrite !iter_types_build_nodup by assumption.
  repeat split; try assumption.
  intros k. rewrite !get_type_build_nodup by assumption. now apply hm_get_perm.
Qed.

Definition named (ds : list adef) : list (str * adef) := map (fun d => (d_name d, d)) ds.

Lemma keys_named ds : keys (named ds) = map d_name ds.
Proof. unfold keys, named. now rewrite map_map. Qed.

Lemma map_snd_named ds : map snd (named ds) = ds.
Proof. unfold named. rewrite map_map. cbn [snd]. apply map_id. Qed.

(** mechanism "implementer enumeration in schema order": the enumeration is the document's objects that
    list the interface, in document order; permuting the definitions permutes the enumeration, so the
    union type built from it has the same members, and the checker's "implements both" test is unchanged *)
Lemma implementers_spec (ds : list adef) iname :
  NoDup (map d_name ds) ->
  interface_implementers (build (named ds)) iname = filter (implements iname) ds.
Proof.
  intros Hnd. unfold interface_implementers.
  rewrite iter_types_build_nodup by (rewrite keys_named; exact Hnd).
  now rewrite map_snd_named.
Qed.

Lemma implementers_permutation (ds ds' : list adef) iname :
  Permutation ds ds' -> NoDup (map d_name ds) ->
  Permutation (interface_implementers (build (named ds)) iname) (interface_implementers (build (named ds')) iname)
  /\ (forall o, In o (interface_implementers (build (named ds)) iname) <-> In o (interface_implementers (build (named ds')) iname)).
Proof.
  intros Hp Hnd.
  assert (Hnd' : NoDup (map d_name ds')) by (eapply Permutation_NoDup; [apply Permutation_map, Hp|exact Hnd]).
  rewrite !implementers_spec by assumption.
  pose proof (filter_perm (implements iname) ds ds' Hp) as HP.
  split; [exact HP|]. intros o. split; intros Hin.
  - eapply Permutation_in; [exact HP|exact Hin].
  - eapply Permutation_in; [apply Permutation_sym, HP|exact Hin].
Qed.

Lemma implements_both_permutation (ds ds' : list adef) i1 i2 :
  Permutation ds ds' -> NoDup (map d_name ds) ->
  any_object_implements_both (build (named ds)) i1 i2 = any_object_implements_both (build (named ds')) i1 i2.
Proof.
  intros Hp Hnd.
  assert (Hnd' : NoDup (map d_name ds')) by (eapply Permutation_NoDup; [apply Permutation_map, Hp|exact Hnd]).
  unfold any_object_implements_both.
  rewrite !iter_types_build_nodup by (rewrite keys_named; assumption).
  rewrite !map_snd_named. now apply existsb_perm.
Qed.

(** [type_defs] of a permuted document is the permuted list of type definitions *)
Lemma type_defs_perm doc doc' : Permutation doc doc' -> Permutation (type_defs doc) (type_defs doc').
Proof. intros Hp. unfold type_defs. now apply Permutation_flat_map. Qed.

Lemma ast_to_type_system_permutation doc doc' :
  Permutation doc doc' -> NoDup (map d_name (type_defs doc)) ->
  (forall k, get_type (ast_to_type_system doc) k = get_type (ast_to_type_system doc') k)
  /\ Permutation (iter_types (ast_to_type_system doc)) (iter_types (ast_to_type_system doc'))
  /\ (forall i, Permutation (interface_implementers (ast_to_type_system doc) i)
                            (interface_implementers (ast_to_type_system doc') i))
  /\ (forall i1 i2, any_object_implements_both (ast_to_type_system doc) i1 i2
                    = any_object_implements_both (ast_to_type_system doc') i1 i2).
Proof.
  intros Hp Hnd. pose proof (type_defs_perm doc doc' Hp) as Ht.
  unfold ast_to_type_system. fold (named (type_defs doc)). fold (named (type_defs doc')).
  assert (Hpn : Permutation (named (type_defs doc)) (named (type_defs doc'))) by (apply Permutation_map, Ht).
  assert (Hk : NoDup (keys (named (type_defs doc)))) by (rewrite keys_named; exact Hnd).
  destruct (build_permutation _ _ Hpn Hk) as (G & P & _ & _).
  repeat split; try assumption.
  - intros i. now apply implementers_permutation.
  - intros i1 i2. now apply implements_both_permutation.
Qed.

(* ------------------------------------------------------------------------------------------- *)
(** * §E ExtensionList: the stable sort by position makes the result independent of the map's order *)

Lemma pos_leb_total a b : pos_leb a b = true \/ pos_leb b a = true.
Proof.
  unfold pos_leb.
  destruct (N.ltb_spec (p_line a) (p_line b)) as [H1|H1]; [now left|].
  destruct (N.ltb_spec (p_line b) (p_line a)) as [H2|H2]; [now right|].
  assert (E : p_line a = p_line b) by lia. rewrite E, N.eqb_refl. cbn [orb andb].
  destruct (N.leb_spec (p_col a) (p_col b)); [now left|right]. apply N.leb_le. lia.
Qed.

Lemma pos_leb_trans a b c : pos_leb a b = true -> pos_leb b c = true -> pos_leb a c = true.
Proof.
  unfold pos_leb. intros H1 H2.
  apply orb_true_iff in H1. apply orb_true_iff in H2. apply orb_true_iff.
  rewrite !andb_true_iff, !N.ltb_lt, !N.eqb_eq, !N.leb_le in *.
  destruct H1 as [H1|[E1 L1]], H2 as [H2|[E2 L2]]; [left; lia|left; lia|left; lia|right; split; lia].
Qed.

Section Sorting.
  Context {A : Type} (key : A -> pos).
  Definition kle (a b : A) : Prop := pos_leb (key a) (key b) = true.

  Lemma ins_by_perm x l : Permutation (ins_by key x l) (x :: l).
  Proof.
    induction l as [|y r IH]; cbn [ins_by]; [apply Permutation_refl|].
    destruct (pos_leb (key x) (key y)); [apply Permutation_refl|].
    eapply Permutation_trans; [apply perm_skip, IH|apply perm_swap].
  Qed.

  Lemma sort_by_perm l : Permutation (sort_by key l) l.
  Proof.
    unfold sort_by. induction l as [|x r IH]; cbn [fold_right]; [constructor|].
    eapply Permutation_trans; [apply ins_by_perm|now apply perm_skip].
  Qed.

  Lemma ins_by_sorted x l : StronglySorted kle l -> StronglySorted kle (ins_by key x l).
  Proof.
    induction l as [|y r IH]; intros Hs; cbn [ins_by].
    - repeat constructor.
    - inversion Hs as [|? ? Hr Hall]; subst.
      destruct (pos_leb (key x) (key y)) eqn:E.
      + constructor; [exact Hs|]. constructor; [exact E|].
        rewrite Forall_forall in *. intros z Hz. eapply pos_leb_trans; [exact E|]. now apply Hall.
      + constructor; [now apply IH|].
        rewrite Forall_forall in *. intros z Hz.
        apply (Permutation_in _ (ins_by_perm x r)) in Hz. destruct Hz as [<-|Hz]; [|now apply Hall].
        unfold kle. destruct (pos_leb_total (key x) (key y)); congruence.
  Qed.

  Lemma sort_by_sorted l : StronglySorted kle (sort_by key l).
  Proof.
    unfold sort_by. induction l as [|x r IH]; cbn [fold_right]; [constructor|now apply ins_by_sorted].
  Qed.

  (** two sorted permutations of each other coincide when no two distinct elements share a position *)
  Lemma sorted_unique l1 : forall l2,
    StronglySorted kle l1 -> StronglySorted kle l2 -> Permutation l1 l2 ->
    (forall x y, In x l1 -> In y l1 -> kle x y -> kle y x -> x = y) -> l1 = l2.
  Proof.
    induction l1 as [|a r1 IH]; intros l2 H1 H2 Hp Hanti.
    - apply Permutation_nil in Hp. now subst.
    - destruct l2 as [|b r2]; [apply Permutation_sym, Permutation_nil in Hp; discriminate|].
      inversion H1 as [|? ? Hs1 Ha]; subst. inversion H2 as [|? ? Hs2 Hb]; subst.
      rewrite Forall_forall in Ha, Hb.
      assert (Eab : a = b).
      { assert (Hain : In a (b :: r2)) by (eapply Permutation_in; [exact Hp|now left]).
        assert (Hbin : In b (a :: r1)) by (eapply Permutation_in; [apply Permutation_sym, Hp|now left]).
        destruct Hain as [->|Hain]; [reflexivity|]. destruct Hbin as [->|Hbin]; [reflexivity|].
        apply Hanti; [now left|now right|now apply Ha|now apply Hb]. }
      subst b. f_equal. apply IH; try assumption.
      + eapply Permutation_cons_inv; exact Hp.
      + intros x y Hx Hy. apply Hanti; now right.
  Qed.

  Lemma sort_by_order_irrelevant l l' :
    Permutation l l' ->
    (forall x y, In x l -> In y l -> kle x y -> kle y x -> x = y) ->
    sort_by key l = sort_by key l'.
  Proof.
    intros Hp Hanti. apply sorted_unique; try apply sort_by_sorted.
    - eapply Permutation_trans; [apply sort_by_perm|].
      eapply Permutation_trans; [exact Hp|apply Permutation_sym, sort_by_perm].
    - intros x y Hx Hy. apply Hanti; eapply Permutation_in; try apply sort_by_perm; assumption.
  Qed.
End Sorting.

Definition orphan_b (kit : str * xitem) : bool :=
  match x_orig (snd kit), x_exts (snd kit) with None, _ :: _ => true | _, _ => false end.
Definition keep (kit : str * xitem) : list (adef * list adef) :=
  match x_orig (snd kit) with Some o => [(o, x_exts (snd kit))] | None => [] end.

Lemma collect_items_ok elem (l : xlist) t :
  collect_items elem l = Ok t -> t = flat_map keep l /\ forallb (fun kit => negb (orphan_b kit)) l = true.
Proof.
  revert t. induction l as [|[k [o exts]] r IH]; intros t Ht; cbn [collect_items] in Ht.
  - inversion Ht. now split.
  - cbn [flat_map forallb]. unfold keep at 1, orphan_b at 1. cbn [snd x_orig x_exts].
    destruct o as [o|].
    + destruct (collect_items elem r) as [t0|e]; [|discriminate]. inversion Ht; subst.
      destruct (IH t0 eq_refl) as [-> ->]. now split.
    + destruct exts; [|discriminate]. destruct (IH t Ht) as [-> ->]. now split.
Qed.

Lemma collect_items_complete elem (l : xlist) :
  forallb (fun kit => negb (orphan_b kit)) l = true -> collect_items elem l = Ok (flat_map keep l).
Proof.
  induction l as [|[k [o exts]] r IH]; intros H; [reflexivity|].
  cbn [forallb] in H. apply andb_true_iff in H. destruct H as [H1 H2].
  cbn [collect_items flat_map]. unfold keep at 1. unfold orphan_b in H1. cbn [snd x_orig x_exts] in *.
  destruct o as [o|].
  - now rewrite (IH H2).
  - destruct exts; [now apply IH|discriminate].
Qed.

Lemma forallb_perm {A} (f : A -> bool) l l' : Permutation l l' -> forallb f l = forallb f l'.
Proof.
  induction 1 as [|x l l' _ IH|x y l|l l' l'' _ IH1 _ IH2]; cbn [forallb].
  - reflexivity.
  - now rewrite IH.
  - destruct (f x), (f y); reflexivity.
  - congruence.
Qed.

Lemma collect_items_perm elem (l l' : xlist) : Permutation l l' ->
  forall t, collect_items elem l = Ok t -> exists t', collect_items elem l' = Ok t' /\ Permutation t t'.
Proof.
  intros Hp t Ht. destruct (collect_items_ok elem l t Ht) as [-> Hno].
  exists (flat_map keep l'). split.
  - apply collect_items_complete. now rewrite <- (forallb_perm _ l l' Hp).
  - now apply Permutation_flat_map.
Qed.

(** mechanism "stable sort of merged definitions by position": whenever the list resolves, the order of
    the result is fixed by the positions alone — it would be the same for any iteration order of the map
    (so also for a HashMap in place of the IndexMap), provided no two originals share a (line, column) *)
Lemma into_original_and_extensions_order_irrelevant elem (l l' : xlist) t :
  Permutation l l' ->
  into_original_and_extensions elem l = Ok t ->
  (forall x y, In x t -> In y t ->
     pos_leb (d_pos (fst x)) (d_pos (fst y)) = true -> pos_leb (d_pos (fst y)) (d_pos (fst x)) = true -> x = y) ->
  into_original_and_extensions elem l' = Ok t.
Proof.
  unfold into_original_and_extensions. intros Hp Ht Hanti.
  destruct (collect_items elem l) as [t0|e] eqn:E; [|discriminate]. inversion Ht; subst t.
  destruct (collect_items_perm elem l l' Hp t0 E) as (t1 & -> & P).
  f_equal. symmetry. apply sort_by_order_irrelevant; [exact P|].
  intros x y Hx Hy. apply Hanti; (eapply Permutation_in; [apply Permutation_sym, sort_by_perm|assumption]).
Qed.

Lemma into_original_and_extensions_sorted elem l t :
  into_original_and_extensions elem l = Ok t ->
  StronglySorted (fun a b => pos_leb (d_pos (fst a)) (d_pos (fst b)) = true) t.
Proof.
  unfold into_original_and_extensions. destruct (collect_items elem l); [|discriminate].
  intros H; inversion H; subst. apply (sort_by_sorted (fun oe : adef * list adef => d_pos (fst oe))).
Qed.

(** a generic cover for "iterate a map, insert (some of) its entries under their own keys into another
    map": the resulting lookups do not depend on the iteration order *)
Lemma reinsert_oracle_irrelevant {V V'} (pi pi' : oracle) (h : str * V -> option V') (base : hmap V') (m : hmap V) k :
  is_oracle pi -> is_oracle pi' -> NoDup (keys m) ->
  let sel := fun kv : str * V => match h kv with Some v' => [(fst kv, v')] | None => [] end in
  hm_get (hm_extend base (flat_map sel (pi V m))) k = hm_get (hm_extend base (flat_map sel (pi' V m))) k.
Proof.
  intros Ho Ho' Hnd sel.
  assert (Hsub : forall l : hmap V, NoDup (keys l) -> NoDup (keys (flat_map sel l))).
  { induction l as [|[k0 v0] r IH]; intros Hl; [constructor|].
    cbn [keys map fst] in Hl. inversion Hl as [|? ? Hn Hr]; subst.
    cbn [flat_map]. unfold sel at 1. destruct (h (k0, v0)); cbn [app fst]; [|now apply IH].
    cbn [keys map fst]. constructor; [|now apply IH].
    intros Hin. apply Hn. unfold keys in Hin. apply in_map_iff in Hin. destruct Hin as ([k1 v1] & E & Hin).
    cbn [fst] in E. subst k1. apply in_flat_map in Hin. destruct Hin as ([k2 v2] & Hin2 & Hs).
    unfold sel in Hs. destruct (h (k2, v2)); [|destruct Hs]. destruct Hs as [E|[]]. inversion E; subst.
    apply in_map_iff. now exists (k0, v2). }
  rewrite !hm_get_extend_nodup by (apply Hsub; apply oracle_keys_nodup; assumption).
  rewrite (hm_get_perm (flat_map sel (pi V m)) (flat_map sel (pi' V m)) k).
  - reflexivity.
  - apply Permutation_flat_map. eapply Permutation_trans; [apply Ho|apply Permutation_sym, Ho'].
  - apply Hsub. now apply oracle_keys_nodup.
Qed.

(* ------------------------------------------------------------------------------------------- *)
(** * §F every scanned iteration site is accounted for *)

Import Gen.C17_sites_gen.
Local Open Scope string_scope.

Inductive cover :=
| NotHash (why : string)                        (* over-report of the scanner: the binding is a Vec of AST nodes *)
| ByLemma (name : string) (P : Prop) (pf : P)   (* the order-insensitivity lemma covering the site *)
| Argued (why : string).                        (* outside the models: argument in words, see design/C17.md *)

Definition ast_directives : string := "the receiver is the `directives: Vec<Directive>` field of an AST node (same name as DefinitionMap.directives)".

Definition known_sites : list (site * cover) := [
  (mk_site (s "crates/checker/src/type_system_checker/check_directive_recursion.rs") (s "check_directive_recursion") (s "directives") (s "iter") 1, NotHash ast_directives);
  (mk_site (s "crates/checker/src/type_system_checker/check_directive_recursion.rs") (s "directives_in_type") (s "directives") (s "iter") 10, NotHash ast_directives);
  (mk_site (s "crates/graphql-loader/src/tasks.rs") (s "iter_loaded_files") (s "loaded_files") (s "iter") 1,
     Argued "only caller is loader.rs get_required_files: the answer is the *set* of not-yet-loaded import targets (membership tests `contains_file`/`required_files.contains` are order-free); its order follows the hash order and is a set by contract (the JS side loads every listed file); not part of `generate` output");
  (mk_site (s "crates/plugin/src/graphql_scalars_plugin/mod.rs") (s "load_schema_extensions") (s "type_extensions") (s "for") 1,
     ByLemma "reinsert_oracle_irrelevant" _ (@reinsert_oracle_irrelevant));
  (mk_site (s "crates/plugin/src/graphql_scalars_plugin/mod.rs") (s "schema_addition") (s "scalar_extensions") (s "iter") 1,
     Argued "collected into a Vec and sorted by the (unique) map key before use: `scalar_extensions.sort_by_key(|(type_name, _)| *type_name)`; same argument as sort_by_order_irrelevant with string keys; plugin path needs a JS schema file and is not reachable offline");
  (mk_site (s "crates/plugin/src/model_plugin/mod.rs") (s "check_schema") (s "directives") (s "iter") 3, NotHash ast_directives);
  (mk_site (s "crates/plugin/src/model_plugin/mod.rs") (s "transform_document_for_resolvers") (s "directives") (s "iter") 2, NotHash ast_directives);
  (mk_site (s "crates/plugin/src/model_plugin/mod.rs") (s "transform_document_for_runtime_server") (s "directives") (s "iter") 2, NotHash ast_directives);
  (mk_site (s "crates/plugin/src/model_plugin/mod.rs") (s "transform_resolver_output_types") (s "directives") (s "iter") 2, NotHash ast_directives);
  (mk_site (s "crates/printer/src/operation_type_printer/type_printer.rs") (s "check_skip_directive") (s "directives") (s "for") 1, NotHash ast_directives);
  (mk_site (s "crates/printer/src/schema_type_printer/context.rs") (s "get_bag_of_identifiers") (s "scalar_types") (s "values") 1,
     ByLemma "bag_mem_oracle_irrelevant" _ bag_mem_oracle_irrelevant);
  (mk_site (s "crates/printer/src/schema_type_printer/context.rs") (s "get_scalar_types") (s "directives") (s "iter") 1, NotHash ast_directives);
  (mk_site (s "crates/printer/src/schema_type_printer/printer.rs") (s "from_config") (s "scalar_types") (s "iter") 1,
     ByLemma "from_config_oracle_irrelevant" _ from_config_oracle_irrelevant);
  (mk_site (s "crates/type-system/src/schema.rs") (s "map_str") (s "directive_definitions") (s "iter") 1,
     ByLemma "map_str_oracle_irrelevant" _ (@map_str_oracle_irrelevant));
  (mk_site (s "crates/type-system/src/schema.rs") (s "map_str") (s "type_definitions") (s "iter") 1,
     ByLemma "map_str_oracle_irrelevant" _ (@map_str_oracle_irrelevant))
].

Definition site_known (x : site) : bool := existsb (fun kc => site_eqb x (fst kc)) known_sites.
Definition site_scanned (x : site) : bool := existsb (site_eqb x) scanned_sites.

(** T3 obligation: a new (or duplicated, or moved) hash-iteration site in /repo makes this fail *)
Lemma all_sites_accounted : forallb site_known scanned_sites = true.
Proof. vm_compute. reflexivity. Qed.

(** and the table carries no stale entries *)
Lemma known_sites_all_scanned : forallb (fun kc => site_scanned (fst kc)) known_sites = true.
Proof. vm_compute. reflexivity. Qed.

(** files that mention a hash container at all; how each uses it.  "key" = get/insert/contains/remove only. *)
Definition known_hash_files : list (str * string) := [
  (s "crates/async-runtime/src/ticket.rs", "string_tickets: key");
  (s "crates/checker/src/operation_checker/count_selection_set_fields.rs", "FragmentMap: key");
  (s "crates/checker/src/operation_checker/fragment_map.rs", "FragmentMap built by collect from a Vec: key");
  (s "crates/checker/src/operation_checker/mod.rs", "FragmentMap: key");
  (s "crates/checker/src/type_system_checker/check_directive_recursion.rs", "seen_directives: key; DefinitionMap: key");
  (s "crates/cli/src/check.rs", "file_by_path built by collect from a Vec: key");
  (s "crates/cli/src/schema_loader.rs", "type_extensions: deserialised, handed to plugins (site load_schema_extensions)");
  (s "crates/config-file/src/config.rs", "scalar_types: deserialised, iterated at site from_config");
  (s "crates/graphql-loader/src/tasks.rs", "tasks: key; loaded_files: key + site iter_loaded_files");
  (s "crates/plugin/src/graphql_scalars_plugin/mod.rs", "sites load_schema_extensions, schema_addition");
  (s "crates/plugin/src/model_plugin/mod.rs", "base (resolver output types): key");
  (s "crates/plugin/src/plugin/mod.rs", "passes maps through");
  (s "crates/plugin/src/plugin_v1/mod.rs", "trait signatures");
  (s "crates/printer/src/operation_base_printer/visitor.rs", "fragments: key");
  (s "crates/printer/src/operation_js_printer/printers.rs", "fragments: key");
  (s "crates/printer/src/operation_type_printer/deep_merge.rs", "seen_fields: key");
  (s "crates/printer/src/operation_type_printer/type_printer.rs", "fragment_definitions: key");
  (s "crates/printer/src/operation_type_printer/visitor.rs", "fragment_definitions built by collect from a Vec: key");
  (s "crates/printer/src/resolver_type_printer/plugin.rs", "trait signature");
  (s "crates/printer/src/resolver_type_printer/printer.rs", "ts_types built by collect from a Vec: key");
  (s "crates/printer/src/schema.rs", "builtin scalar table built by collect from a Vec");
  (s "crates/printer/src/schema_type_printer/context.rs", "scalar_types: key + site get_bag_of_identifiers; local_type_names: key");
  (s "crates/printer/src/schema_type_printer/printer.rs", "scalar_types: site from_config");
  (s "crates/semantics/src/definition_map.rs", "types, directives: key");
  (s "crates/semantics/src/operation_import_resolver/mod.rs", "visited: key");
  (s "crates/type-system/src/builder.rs", "type_definitions, directive_definitions: key (entry); order kept in type_names / directive_names");
  (s "crates/type-system/src/schema.rs", "key; sites map_str; iter_types / iter_directives go through the name vectors")
].

Lemma all_hash_files_accounted :
  forallb (fun f => existsb (fun kf => str_eqb f (fst kf)) known_hash_files) hash_mention_files = true.
Proof. vm_compute. reflexivity. Qed.
