(** C17 — proofs.  §A hash maps; §B printer context (from_config, bag, local names, skeleton, gen);
    §C SchemaBuilder / Schema / map_str; §D definition permutations; §E ExtensionList sorting;
    §F the table of known iteration sites. *)
From V Require Import Base.Util C17.Sites C17.Model.
From V Require Gen.C17_sites_gen.
From Coq Require Import Permutation Sorting.Sorted.


(* ------------------------------------------------------------------------------------------- *)
(** * §A association lists as hash maps *)

Lemma str_eqb_sym a b : str_eqb a b = str_eqb b a.
Proof.
  destruct (str_eqb_spec a b) as [E|Hn]; destruct (str_eqb_spec b a) as [E'|Hn']; try reflexivity; congruence.
Qed.

Lemma str_eqb_eq a b : str_eqb a b = true <-> a = b.
Proof. destruct (str_eqb_spec a b); split; congruence. Qed.

Lemma str_eqb_neq a b : str_eqb a b = false <-> a <> b.
Proof. destruct (str_eqb_spec a b); split; congruence. Qed.

Definition keys {V} (m : hmap V) : list str := map fst m.

Lemma hm_get_app {V} (m1 m2 : hmap V) k :
  hm_get (m1 ++ m2) k = match hm_get m1 k with Some v => Some v | None => hm_get m2 k end.
Proof.
  induction m1 as [|[k' v'] r IH]; cbn [hm_get app]; [reflexivity|].
  destruct (str_eqb k' k); [reflexivity|exact IH].
Qed.

Lemma hm_get_None_not_in {V} (m : hmap V) k : hm_get m k = None <-> ~ In k (keys m).
Proof.
  induction m as [|[k' v'] r IH]; cbn [hm_get keys map fst In].
  - split; [intros _ []|reflexivity].
  - destruct (str_eqb_spec k' k) as [->|Hn].
    + split; [discriminate|intros H; exfalso; apply H; now left].
    + rewrite IH. unfold keys. split; [intros H [E|Hin]; [congruence|auto]|intros H Hin; apply H; now right].
Qed.

Lemma hm_get_in {V} (m : hmap V) k v : NoDup (keys m) -> In (k, v) m -> hm_get m k = Some v.
Proof.
  induction m as [|[k' v'] r IH]; intros Hnd Hin; [destruct Hin|].
  cbn [keys map fst] in Hnd. inversion Hnd as [|? ? Hnotin Hnd']; subst.
  cbn [hm_get]. destruct Hin as [E|Hin].
  - inversion E; subst. now rewrite str_eqb_refl.
  - destruct (str_eqb_spec k' k) as [->|Hn].
    + exfalso. apply Hnotin. change (In k (map fst r)). apply in_map_iff. now exists (k, v).
    + now apply IH.
Qed.

Lemma hm_get_some_in {V} (m : hmap V) k v : hm_get m k = Some v -> In (k, v) m.
Proof.
  induction m as [|[k' v'] r IH]; cbn [hm_get]; [discriminate|].
  destruct (str_eqb_spec k' k) as [->|Hn]; intros H.
  - inversion H; subst. now left.
  - right. now apply IH.
Qed.

(** lookups in a map with unique keys do not depend on the order of its entries *)
Lemma hm_get_perm {V} (m m' : hmap V) k :
  Permutation m m' -> NoDup (keys m) -> hm_get m k = hm_get m' k.
Proof.
  intros Hp Hnd.
  assert (Hnd' : NoDup (keys m')) by (eapply Permutation_NoDup; [apply Permutation_map; exact Hp|exact Hnd]).
  destruct (hm_get m k) as [v|] eqn:E.
  - symmetry. apply hm_get_in; [exact Hnd'|]. eapply Permutation_in; [exact Hp|]. now apply hm_get_some_in.
  - symmetry. apply hm_get_None_not_in. intros Hin. apply hm_get_None_not_in in E. apply E.
    eapply Permutation_in; [apply Permutation_sym; apply Permutation_map; exact Hp|exact Hin].
Qed.

Lemma keys_insert_in {V} (m : hmap V) k v : In k (keys m) -> keys (hm_insert m k v) = keys m.
Proof.
  induction m as [|[k' v'] r IH]; intros Hin; [destruct Hin|].
  cbn [hm_insert]. destruct (str_eqb_spec k' k) as [->|Hn]; [reflexivity|].
  cbn [keys map fst] in *. f_equal. apply IH. destruct Hin; [congruence|assumption].
Qed.

Lemma hm_insert_not_in {V} (m : hmap V) k v : ~ In k (keys m) -> hm_insert m k v = m ++ [(k, v)].
Proof.
  induction m as [|[k' v'] r IH]; intros Hn; [reflexivity|].
  cbn [hm_insert]. cbn [keys map fst In] in Hn.
  destruct (str_eqb_spec k' k) as [->|Hne]; [exfalso; apply Hn; now left|].
  cbn [app]. f_equal. apply IH. intros H; apply Hn; now right.
Qed.

Lemma hm_get_insert {V} (m : hmap V) k v k' :
  hm_get (hm_insert m k v) k' = if str_eqb k k' then Some v else hm_get m k'.
Proof.
  induction m as [|[k0 v0] r IH]; cbn [hm_insert hm_get].
  - reflexivity.
  - destruct (str_eqb_spec k0 k) as [->|Hn]; cbn [hm_get].
    + destruct (str_eqb k k'); reflexivity.
    + rewrite IH. destruct (str_eqb_spec k0 k') as [->|Hn'].
      * destruct (str_eqb_spec k k') as [->|]; [congruence|reflexivity].
      * reflexivity.
Qed.

(** extending: the last binding of a key in [l] wins, otherwise the old map is consulted *)
Lemma hm_get_extend {V} (l : list (str * V)) : forall (m : hmap V) k,
  hm_get (hm_extend m l) k = match hm_get (rev l) k with Some v => Some v | None => hm_get m k end.
Proof.
  unfold hm_extend. induction l as [|[k0 v0] r IH]; intros m k; cbn [fold_left rev fst snd].
  - reflexivity.
  - rewrite IH, hm_get_app, hm_get_insert. cbn [hm_get].
    destruct (hm_get (rev r) k); [reflexivity|]. destruct (str_eqb k0 k); reflexivity.
Qed.

Lemma hm_get_extend_nodup {V} (l : list (str * V)) (m : hmap V) k :
  NoDup (keys l) ->
  hm_get (hm_extend m l) k = match hm_get l k with Some v => Some v | None => hm_get m k end.
Proof.
  intros Hnd. rewrite hm_get_extend.
  rewrite <- (@hm_get_perm V l (rev l) k (Permutation_rev l) Hnd). reflexivity.
Qed.

(** collecting a list whose keys are distinct gives that very list *)
Lemma hm_extend_nodup_list {V} (l : list (str * V)) : forall m : hmap V,
  NoDup (keys m ++ keys l) -> hm_extend m l = m ++ l.
Proof.
  unfold hm_extend. induction l as [|[k v] r IH]; intros m Hnd; cbn [fold_left fst snd].
  - now rewrite app_nil_r.
  - cbn [keys map fst] in Hnd.
    assert (Hnotin : ~ In k (keys m)).
    { intros Hin. apply NoDup_remove_2 in Hnd. apply Hnd. apply in_or_app. now left. }
    rewrite hm_insert_not_in by exact Hnotin.
    rewrite IH.
    + now rewrite <- app_assoc.
    + unfold keys. rewrite map_app. cbn [map fst]. rewrite <- app_assoc. cbn [app].
      exact Hnd.
Qed.

Lemma hm_collect_nodup {V} (l : list (str * V)) : NoDup (keys l) -> hm_collect l = l.
Proof. intros H. unfold hm_collect. rewrite hm_extend_nodup_list; [reflexivity|exact H]. Qed.

Lemma existsb_perm {A} (f : A -> bool) l l' : Permutation l l' -> existsb f l = existsb f l'.
Proof.
  induction 1 as [|x l l' _ IH|x y l|l l' l'' _ IH1 _ IH2]; cbn [existsb].
  - reflexivity.
  - now rewrite IH.
  - destruct (f x), (f y); reflexivity.
  - congruence.
Qed.

Lemma oracle_keys_nodup (pi : oracle) V (m : hmap V) : is_oracle pi -> NoDup (keys m) -> NoDup (keys (pi V m)).
Proof.
  intros Ho Hnd. eapply Permutation_NoDup; [|exact Hnd].
  apply Permutation_sym. apply Permutation_map. apply Ho.
Qed.

Lemma o_id_is_oracle : is_oracle o_id.
Proof. intros V m. apply Permutation_refl. Qed.
Lemma o_rev_is_oracle : is_oracle o_rev.
Proof. intros V m. apply Permutation_sym, Permutation_rev. Qed.
Lemma o_rot_is_oracle : is_oracle o_rot.
Proof.
  intros V [|x r]; [constructor|]. cbn [o_rot].
  apply Permutation_sym. change (x :: r) with ([x] ++ r). apply Permutation_app_comm.
Qed.

(* ------------------------------------------------------------------------------------------- *)
(** * §B printer context *)

(** site: printer/src/schema_type_printer/printer.rs from_config, scalar_types.iter() *)
Lemma from_config_spec (pi : oracle) (cfg : hmap scfg) k :
  is_oracle pi -> NoDup (keys cfg) ->
  hm_get (from_config pi cfg) k =
  match hm_get cfg k with Some c => Some c | None => hm_get builtin_scalar_types k end.
Proof.
  intros Ho Hnd. unfold from_config.
  rewrite hm_get_extend_nodup by (apply oracle_keys_nodup; assumption).
  rewrite (@hm_get_perm _ (pi scfg cfg) cfg k (Ho _ cfg)) by (apply oracle_keys_nodup; assumption).
  reflexivity.
Qed.

Lemma from_config_oracle_irrelevant (pi pi' : oracle) (cfg : hmap scfg) k :
  is_oracle pi -> is_oracle pi' -> NoDup (keys cfg) ->
  hm_get (from_config pi cfg) k = hm_get (from_config pi' cfg) k.
Proof. intros H H' Hnd. now rewrite !from_config_spec. Qed.

(** site: printer/src/schema_type_printer/context.rs get_bag_of_identifiers, scalar_types.values() *)
Lemma bag_mem_oracle_irrelevant (pi pi' : oracle) (st : hmap scfg) x :
  is_oracle pi -> is_oracle pi' ->
  bag_mem (bag_of_identifiers pi st) x = bag_mem (bag_of_identifiers pi' st) x.
Proof.
  intros H H'. unfold bag_mem, bag_of_identifiers. apply existsb_perm.
  apply Permutation_flat_map, Permutation_flat_map, Permutation_map.
  eapply Permutation_trans; [apply H|apply Permutation_sym, H'].
Qed.

Lemma bag_mem_spec (pi : oracle) (st : hmap scfg) x :
  is_oracle pi ->
  bag_mem (bag_of_identifiers pi st) x = true <->
  exists k c t, In (k, c) st /\ In t (type_names c) /\ In x (identifiers_of t).
Proof.
  intros H. rewrite (bag_mem_oracle_irrelevant pi o_id st x H o_id_is_oracle).
  unfold bag_mem, bag_of_identifiers, o_id. rewrite existsb_exists. split.
  - intros (y & Hin & E). apply str_eqb_eq in E. subst y.
    apply in_flat_map in Hin. destruct Hin as (t & Hint & Hx).
    apply in_flat_map in Hint. destruct Hint as (c & Hc & Ht).
    apply in_map_iff in Hc. destruct Hc as ([k c'] & Ec & Hkc). cbn [snd] in Ec. subst c'.
    now exists k, c, t.
  - intros (k & c & t & Hkc & Ht & Hx). exists x. split; [|apply str_eqb_refl].
    apply in_flat_map. exists t. split; [|exact Hx].
    apply in_flat_map. exists c. split; [|exact Ht].
    apply in_map_iff. now exists (k, c).
Qed.

(** the map of local names is the same *list*, whatever order the bag was filled in *)
Lemma make_local_type_names_oracle_irrelevant (pi pi' : oracle) doc st :
  is_oracle pi -> is_oracle pi' ->
  make_local_type_names pi doc st = make_local_type_names pi' doc st.
Proof.
  intros H H'. unfold make_local_type_names. f_equal. apply map_ext. intros d.
  now rewrite (bag_mem_oracle_irrelevant pi pi' st (d_name d) H H').
Qed.

(** a type gets the [__tmp_] prefix iff its name occurs as an identifier in some scalar's TS type *)
Lemma local_name_spec (pi : oracle) doc st d :
  is_oracle pi -> NoDup (map d_name (type_defs doc)) -> In d (type_defs doc) ->
  hm_get (make_local_type_names pi doc st) (d_name d) =
  Some (if bag_mem (bag_of_identifiers o_id st) (d_name d) then tmp_prefix ++ d_name d else d_name d).
Proof.
  intros H Hnd Hin. unfold make_local_type_names. cbv zeta.
  assert (Hk : keys (map (fun d0 => (d_name d0,
               if bag_mem (bag_of_identifiers pi st) (d_name d0) then tmp_prefix ++ d_name d0 else d_name d0))
               (type_defs doc)) = map d_name (type_defs doc)).
  { unfold keys. rewrite map_map. reflexivity. }
  rewrite hm_collect_nodup by (rewrite Hk; exact Hnd).
  rewrite <- (bag_mem_oracle_irrelevant pi o_id st (d_name d) H o_id_is_oracle).
  apply hm_get_in; [unfold keys; rewrite map_map; exact Hnd|].
  apply in_map_iff. exists d. split; [reflexivity|exact Hin].
Qed.

Lemma get_scalar_types_ext doc (o o' : hmap scfg) :
  (forall k, hm_get o k = hm_get o' k) -> get_scalar_types doc o = get_scalar_types doc o'.
Proof.
  intros E. unfold get_scalar_types. f_equal. apply flat_map_ext. intros d. now rewrite E.
Qed.

(** the printer reads its options only through key lookups and the oracle only through the bag *)
Lemma ctx_local_names_irrelevant (pi pi' : oracle) (o o' : hmap scfg) doc :
  is_oracle pi -> is_oracle pi' -> (forall k, hm_get o k = hm_get o' k) ->
  ctx_local_names pi o doc = ctx_local_names pi' o' doc.
Proof.
  intros H H' E. unfold ctx_local_names, ctx_scalar_types.
  rewrite (get_scalar_types_ext doc o o' E). now apply make_local_type_names_oracle_irrelevant.
Qed.

Lemma print_skeleton_irrelevant (pi pi' : oracle) (o o' : hmap scfg) doc :
  is_oracle pi -> is_oracle pi' -> (forall k, hm_get o k = hm_get o' k) ->
  print_skeleton pi o doc = print_skeleton pi' o' doc.
Proof.
  intros H H' E.
  pose proof (ctx_local_names_irrelevant pi pi' o o' doc H H' E) as EL.
  pose proof (get_scalar_types_ext doc o o' E) as ES.
  assert (EW : forall d k, with_local pi o doc d k = with_local pi' o' doc d k).
  { intros d k. unfold with_local. now rewrite EL. }
  assert (ELO : forall n, local_of pi o doc n = local_of pi' o' doc n).
  { intros n. unfold local_of. now rewrite EL. }
  assert (ED : forall sec t d, print_type_decl pi o doc sec t d = print_type_decl pi' o' doc sec t d).
  { intros sec t d. unfold print_type_decl, ctx_scalar_types. rewrite ES.
    destruct (d_kind d); try reflexivity.
    - destruct (hm_get (get_scalar_types doc o') (d_name d)); [apply EW|reflexivity].
    - destruct (is_input t); [reflexivity|apply EW].
    - destruct (is_input t); [reflexivity|]. rewrite EW. unfold with_local.
      destruct (hm_get (ctx_local_names pi' o' doc) (d_name d)); [|reflexivity].
      do 4 f_equal. apply map_ext. intros a. apply ELO.
    - destruct (is_input t); [reflexivity|]. rewrite EW. unfold with_local.
      destruct (hm_get (ctx_local_names pi' o' doc) (d_name d)); [|reflexivity].
      do 4 f_equal. apply map_ext. intros a. apply ELO.
    - apply EW.
    - destruct (is_input t); [apply EW|reflexivity]. }
  assert (EP : forall sec t ds, print_defs pi o doc sec t ds = print_defs pi' o' doc sec t ds).
  { intros sec t ds. induction ds as [|d r IH]; cbn [print_defs]; [reflexivity|]. now rewrite ED, IH. }
  assert (ER : forall ds, print_representatives pi o doc ds = print_representatives pi' o' doc ds).
  { induction ds as [|d r IH]; cbn [print_representatives]; [reflexivity|]. now rewrite EW, IH. }
  unfold print_skeleton. generalize targets. intros ts.
  induction ts as [|[sec t] r IH]; cbn [print_targets]; [apply ER|]. now rewrite EP, IH.
Qed.

(** DESIGN §4 C17 [order_oracle_irrelevant]: the whole abstract generation result does not depend on
    the iteration order of either hash map *)
Lemma gen_oracle_irrelevant (p1 p2 p1' p2' : oracle) cfg files builtins :
  is_oracle p1 -> is_oracle p2 -> is_oracle p1' -> is_oracle p2' -> NoDup (keys cfg) ->
  gen p1 p2 cfg files builtins = gen p1' p2' cfg files builtins.
Proof.
  intros H1 H2 H1' H2' Hnd. unfold gen.
  destruct (resolve_schema_extensions (merge_files files builtins)) as [doc|e]; [|reflexivity].
  rewrite (print_skeleton_irrelevant p2 p2' (from_config p1 cfg) (from_config p1' cfg) doc H2 H2').
  - reflexivity.
  - intros k. now apply from_config_oracle_irrelevant.
Qed.
