(** C17 — proofs.  §A hash maps; §B printer context (from_config, bag, local names, skeleton, gen);
    §C SchemaBuilder / Schema / map_str; §D definition permutations; §E ExtensionList sorting;
    §F the table of known iteration sites. *)
From V Require Import Base.Util C17.Sites C17.Model C17.Spec.
From V Require Gen.C17_sites_gen.
From Coq Require Import Permutation Sorting.Sorted String.
Import ListNotations.
Open Scope list_scope.


(* ------------------------------------------------------------------------------------------- *)
(** * §A association lists as hash maps *)

Lemma str_eqb_sym a b : str_eqb a b = str_eqb b a.
Proof.
  destruct (str_eqb_spec a b) as [E|Hn]; destruct (str_eqb_spec b a) as [E'|Hn']; try reflexivity; congruence.
Qed.

Lemma str_eqb_eq a b : str_eqb a b = true <-> a = b.
Proof. destruct (str_eqb_spec a b); split; congruence. Qed.

Lemma str_eqb_neq a b : str_eqb a b = false <-> a <> b.
Proof. destruct (str_eqb_spec a b); split; congruence. Qed.

Definition keys {V} (m : hmap V) : list str := map fst m.

Lemma hm_get_app {V} (m1 m2 : hmap V) k :
  hm_get (m1 ++ m2) k = match hm_get m1 k with Some v => Some v | None => hm_get m2 k end.
Proof.
  induction m1 as [|[k' v'] r IH]; cbn [hm_get app]; [reflexivity|].
  destruct (str_eqb k' k); [reflexivity|exact IH].
Qed.

Lemma hm_get_None_not_in {V} (m : hmap V) k : hm_get m k = None <-> ~ In k (keys m).
Proof.
  induction m as [|[k' v'] r IH]; cbn [hm_get keys map fst In].
  - split; [intros _ []|reflexivity].
  - destruct (str_eqb_spec k' k) as [->|Hn].
    + split; [discriminate|intros H; exfalso; apply H; now left].
    + rewrite IH. unfold keys. split; [intros H [E|Hin]; [congruence|auto]|intros H Hin; apply H; now right].
Qed.

Lemma hm_get_in {V} (m : hmap V) k v : NoDup (keys m) -> In (k, v) m -> hm_get m k = Some v.
Proof.
  induction m as [|[k' v'] r IH]; intros Hnd Hin; [destruct Hin|].
  cbn [keys map fst] in Hnd. inversion Hnd as [|? ? Hnotin Hnd']; subst.
  cbn [hm_get]. destruct Hin as [E|Hin].
  - inversion E; subst. now rewrite str_eqb_refl.
  - destruct (str_eqb_spec k' k) as [->|Hn].
    + exfalso. apply Hnotin. change (In k (map fst r)). apply in_map_iff. now exists (k, v).
    + now apply IH.
Qed.

Lemma hm_get_some_in {V} (m : hmap V) k v : hm_get m k = Some v -> In (k, v) m.
Proof.
  induction m as [|[k' v'] r IH]; cbn [hm_get]; [discriminate|].
  destruct (str_eqb_spec k' k) as [->|Hn]; intros H.
  - inversion H; subst. now left.
  - right. now apply IH.
Qed.

(** lookups in a map with unique keys do not depend on the order of its entries *)
Lemma hm_get_perm {V} (m m' : hmap V) k :
  Permutation m m' -> NoDup (keys m) -> hm_get m k = hm_get m' k.
Proof.
  intros Hp Hnd.
  assert (Hnd' : NoDup (keys m')) by (eapply Permutation_NoDup; [apply Permutation_map; exact Hp|exact Hnd]).
  destruct (hm_get m k) as [v|] eqn:E.
  - symmetry. apply hm_get_in; [exact Hnd'|]. eapply Permutation_in; [exact Hp|]. now apply hm_get_some_in.
  - symmetry. apply hm_get_None_not_in. intros Hin. apply hm_get_None_not_in in E. apply E.
    eapply Permutation_in; [apply Permutation_sym; apply Permutation_map; exact Hp|exact Hin].
Qed.

Lemma keys_insert_in {V} (m : hmap V) k v : In k (keys m) -> keys (hm_insert m k v) = keys m.
Proof.
  induction m as [|[k' v'] r IH]; intros Hin; [destruct Hin|].
  cbn [hm_insert]. destruct (str_eqb_spec k' k) as [->|Hn]; [reflexivity|].
  cbn [keys map fst] in *. f_equal. apply IH. destruct Hin; [congruence|assumption].
Qed.

Lemma hm_insert_not_in {V} (m : hmap V) k v : ~ In k (keys m) -> hm_insert m k v = m ++ [(k, v)].
Proof.
  induction m as [|[k' v'] r IH]; intros Hn; [reflexivity|].
  cbn [hm_insert]. cbn [keys map fst In] in Hn.
  destruct (str_eqb_spec k' k) as [->|Hne]; [exfalso; apply Hn; now left|].
  cbn [app]. f_equal. apply IH. intros H; apply Hn; now right.
Qed.

Lemma hm_get_insert {V} (m : hmap V) k v k' :
  hm_get (hm_insert m k v) k' = if str_eqb k k' then Some v else hm_get m k'.
Proof.
  induction m as [|[k0 v0] r IH]; cbn [hm_insert hm_get].
  - reflexivity.
  - destruct (str_eqb_spec k0 k) as [->|Hn]; cbn [hm_get].
    + destruct (str_eqb k k'); reflexivity.
    + rewrite IH. destruct (str_eqb_spec k0 k') as [->|Hn'].
      * destruct (str_eqb_spec k k') as [->|]; [congruence|reflexivity].
      * reflexivity.
Qed.

(** extending: the last binding of a key in [l] wins, otherwise the old map is consulted *)
Lemma hm_get_extend {V} (l : list (str * V)) : forall (m : hmap V) k,
  hm_get (hm_extend m l) k = match hm_get (rev l) k with Some v => Some v | None => hm_get m k end.
Proof.
  unfold hm_extend. induction l as [|[k0 v0] r IH]; intros m k; cbn [fold_left rev fst snd].
  - reflexivity.
  - rewrite IH, hm_get_app, hm_get_insert. cbn [hm_get].
    destruct (hm_get (rev r) k); [reflexivity|]. destruct (str_eqb k0 k); reflexivity.
Qed.

Lemma hm_get_extend_nodup {V} (l : list (str * V)) (m : hmap V) k :
  NoDup (keys l) ->
  hm_get (hm_extend m l) k = match hm_get l k with Some v => Some v | None => hm_get m k end.
Proof.
  intros Hnd. rewrite hm_get_extend.
  rewrite <- (@hm_get_perm V l (rev l) k (Permutation_rev l) Hnd). reflexivity.
Qed.

(** collecting a list whose keys are distinct gives that very list *)
Lemma hm_extend_nodup_list {V} (l : list (str * V)) : forall m : hmap V,
  NoDup (keys m ++ keys l) -> hm_extend m l = m ++ l.
Proof.
  unfold hm_extend. induction l as [|[k v] r IH]; intros m Hnd; cbn [fold_left fst snd].
  - now rewrite app_nil_r.
  - cbn [keys map fst] in Hnd.
    assert (Hnotin : ~ In k (keys m)).
    { intros Hin. apply NoDup_remove_2 in Hnd. apply Hnd. apply in_or_app. now left. }
    rewrite hm_insert_not_in by exact Hnotin.
    rewrite IH.
    + now rewrite <- app_assoc.
    + unfold keys. rewrite map_app. cbn [map fst]. rewrite <- app_assoc. cbn [app].
      exact Hnd.
Qed.

Lemma hm_collect_nodup {V} (l : list (str * V)) : NoDup (keys l) -> hm_collect l = l.
Proof. intros H. unfold hm_collect. rewrite hm_extend_nodup_list; [reflexivity|exact H]. Qed.

Lemma existsb_perm {A} (f : A -> bool) l l' : Permutation l l' -> existsb f l = existsb f l'.
Proof.
  induction 1 as [|x l l' _ IH|x y l|l l' l'' _ IH1 _ IH2]; cbn [existsb].
  - reflexivity.
  - now rewrite IH.
  - destruct (f x), (f y); reflexivity.
  - congruence.
Qed.

Lemma oracle_keys_nodup (pi : oracle) V (m : hmap V) : is_oracle pi -> NoDup (keys m) -> NoDup (keys (pi V m)).
Proof.
  intros Ho Hnd. eapply Permutation_NoDup; [|exact Hnd].
  apply Permutation_sym. apply Permutation_map. apply Ho.
Qed.

Lemma o_id_is_oracle : is_oracle o_id.
Proof. intros V m. apply Permutation_refl. Qed.
Lemma o_rev_is_oracle : is_oracle o_rev.
Proof. intros V m. apply Permutation_sym, Permutation_rev. Qed.
Lemma o_rot_is_oracle : is_oracle o_rot.
Proof.
  intros V [|x r]; [constructor|]. cbn [o_rot].
  apply Permutation_sym. change (x :: r) with ([x] ++ r). apply Permutation_app_comm.
Qed.

(* ------------------------------------------------------------------------------------------- *)
(** * §B printer context *)

(** site: printer/src/schema_type_printer/printer.rs from_config, scalar_types.iter() *)
Lemma from_config_spec (pi : oracle) (cfg : hmap scfg) k :
  is_oracle pi -> NoDup (keys cfg) ->
  hm_get (from_config pi cfg) k =
  match hm_get cfg k with Some c => Some c | None => hm_get builtin_scalar_types k end.
Proof.
  intros Ho Hnd. unfold from_config.
  rewrite hm_get_extend_nodup by (apply oracle_keys_nodup; assumption).
  rewrite (@hm_get_perm _ (pi scfg cfg) cfg k (Ho _ cfg)) by (apply oracle_keys_nodup; assumption).
  reflexivity.
Qed.

Lemma from_config_oracle_irrelevant (pi pi' : oracle) (cfg : hmap scfg) k :
  is_oracle pi -> is_oracle pi' -> NoDup (keys cfg) ->
  hm_get (from_config pi cfg) k = hm_get (from_config pi' cfg) k.
Proof. intros H H' Hnd. now rewrite !from_config_spec. Qed.

(** site: printer/src/schema_type_printer/context.rs get_bag_of_identifiers, scalar_types.values() *)
Lemma bag_mem_oracle_irrelevant (pi pi' : oracle) (st : hmap scfg) x :
  is_oracle pi -> is_oracle pi' ->
  bag_mem (bag_of_identifiers pi st) x = bag_mem (bag_of_identifiers pi' st) x.
Proof.
  intros H H'. unfold bag_mem, bag_of_identifiers. apply existsb_perm.
  apply Permutation_flat_map, Permutation_flat_map, Permutation_map.
  eapply Permutation_trans; [apply H|apply Permutation_sym, H'].
Qed.

Lemma bag_mem_spec (pi : oracle) (st : hmap scfg) x :
  is_oracle pi ->
  bag_mem (bag_of_identifiers pi st) x = true <->
  exists k c t, In (k, c) st /\ In t (type_names c) /\ In x (identifiers_of t).
Proof.
  intros H. rewrite (bag_mem_oracle_irrelevant pi o_id st x H o_id_is_oracle).
  unfold bag_mem, bag_of_identifiers, o_id. rewrite existsb_exists. split.
  - intros (y & Hin & E). apply str_eqb_eq in E. subst y.
    apply in_flat_map in Hin. destruct Hin as (t & Hint & Hx).
    apply in_flat_map in Hint. destruct Hint as (c & Hc & Ht).
    apply in_map_iff in Hc. destruct Hc as ([k c'] & Ec & Hkc). cbn [snd] in Ec. subst c'.
    now exists k, c, t.
  - intros (k & c & t & Hkc & Ht & Hx). exists x. split; [|apply str_eqb_refl].
    apply in_flat_map. exists t. split; [|exact Hx].
    apply in_flat_map. exists c. split; [|exact Ht].
    apply in_map_iff. now exists (k, c).
Qed.

(** the map of local names is the same *list*, whatever order the bag was filled in *)
Lemma make_local_type_names_oracle_irrelevant (pi pi' : oracle) doc st :
  is_oracle pi -> is_oracle pi' ->
  make_local_type_names pi doc st = make_local_type_names pi' doc st.
Proof.
  intros H H'. unfold make_local_type_names. f_equal. apply map_ext. intros d.
  now rewrite (bag_mem_oracle_irrelevant pi pi' st (d_name d) H H').
Qed.

(** a type gets the [__tmp_] prefix iff its name occurs as an identifier in some scalar's TS type *)
Lemma local_name_spec (pi : oracle) doc st d :
  is_oracle pi -> NoDup (map d_name (type_defs doc)) -> In d (type_defs doc) ->
  hm_get (make_local_type_names pi doc st) (d_name d) =
  Some (if bag_mem (bag_of_identifiers o_id st) (d_name d) then tmp_prefix ++ d_name d else d_name d).
Proof.
  intros H Hnd Hin. unfold make_local_type_names. cbv zeta.
  assert (Hk : keys (map (fun d0 => (d_name d0,
               if bag_mem (bag_of_identifiers pi st) (d_name d0) then tmp_prefix ++ d_name d0 else d_name d0))
               (type_defs doc)) = map d_name (type_defs doc)).
  { unfold keys. rewrite map_map. reflexivity. }
  rewrite hm_collect_nodup by (rewrite Hk; exact Hnd).
  rewrite <- (bag_mem_oracle_irrelevant pi o_id st (d_name d) H o_id_is_oracle).
  apply hm_get_in; [unfold keys; rewrite map_map; exact Hnd|].
  apply in_map_iff. exists d. split; [reflexivity|exact Hin].
Qed.

Lemma get_scalar_types_ext doc (o o' : hmap scfg) :
  (forall k, hm_get o k = hm_get o' k) -> get_scalar_types doc o = get_scalar_types doc o'.
Proof.
  intros E. unfold get_scalar_types. f_equal. apply flat_map_ext. intros d. now rewrite E.
Qed.

(** the printer reads its options only through key lookups and the oracle only through the bag *)
Lemma ctx_local_names_irrelevant (pi pi' : oracle) (o o' : hmap scfg) doc :
  is_oracle pi -> is_oracle pi' -> (forall k, hm_get o k = hm_get o' k) ->
  ctx_local_names pi o doc = ctx_local_names pi' o' doc.
Proof.
  intros H H' E. unfold ctx_local_names, ctx_scalar_types.
  rewrite (get_scalar_types_ext doc o o' E). now apply make_local_type_names_oracle_irrelevant.
Qed.

Lemma print_skeleton_irrelevant (pi pi' : oracle) (o o' : hmap scfg) doc :
  is_oracle pi -> is_oracle pi' -> (forall k, hm_get o k = hm_get o' k) ->
  print_skeleton pi o doc = print_skeleton pi' o' doc.
Proof.
  intros H H' E.
  pose proof (ctx_local_names_irrelevant pi pi' o o' doc H H' E) as EL.
  pose proof (get_scalar_types_ext doc o o' E) as ES.
  assert (EW : forall d k, with_local pi o doc d k = with_local pi' o' doc d k).
  { intros d k. unfold with_local. now rewrite EL. }
  assert (ELO : forall n, local_of pi o doc n = local_of pi' o' doc n).
  { intros n. unfold local_of. now rewrite EL. }
  assert (ED : forall sec t d, print_type_decl pi o doc sec t d = print_type_decl pi' o' doc sec t d).
  { intros sec t d. unfold print_type_decl, ctx_scalar_types. rewrite ES.
    destruct (d_kind d); try reflexivity.
    - destruct (hm_get (get_scalar_types doc o') (d_name d)); [apply EW|reflexivity].
    - destruct (is_input t); [reflexivity|apply EW].
    - destruct (is_input t); [reflexivity|]. rewrite EW.
      rewrite (map_ext (fun o0 => local_of pi o doc (d_name o0)) (fun o0 => local_of pi' o' doc (d_name o0))
                       (fun a => ELO (d_name a))).
      reflexivity.
    - destruct (is_input t); [reflexivity|]. rewrite EW.
      rewrite (map_ext (local_of pi o doc) (local_of pi' o' doc) ELO). reflexivity.
    - apply EW.
    - destruct (is_input t); [apply EW|reflexivity]. }
  assert (EP : forall sec t ds, print_defs pi o doc sec t ds = print_defs pi' o' doc sec t ds).
  { intros sec t ds. induction ds as [|d r IH]; cbn [print_defs]; [reflexivity|]. now rewrite ED, IH. }
  assert (ER : forall ds, print_representatives pi o doc ds = print_representatives pi' o' doc ds).
  { induction ds as [|d r IH]; cbn [print_representatives]; [reflexivity|]. now rewrite EW, IH. }
  unfold print_skeleton. generalize targets. intros ts.
  induction ts as [|[sec t] r IH]; cbn [print_targets]; [apply ER|]. now rewrite EP, IH.
Qed.

(** DESIGN §4 C17 [order_oracle_irrelevant]: the whole abstract generation result does not depend on
    the iteration order of either hash map *)
Lemma gen_oracle_irrelevant (p1 p2 p1' p2' : oracle) cfg files builtins :
  is_oracle p1 -> is_oracle p2 -> is_oracle p1' -> is_oracle p2' -> NoDup (keys cfg) ->
  gen p1 p2 cfg files builtins = gen p1' p2' cfg files builtins.
Proof.
  intros H1 H2 H1' H2' Hnd. unfold gen.
  destruct (resolve_schema_extensions (merge_files files builtins)) as [doc|e]; [|reflexivity].
  rewrite (print_skeleton_irrelevant p2 p2' (from_config p1 cfg) (from_config p1' cfg) doc H2 H2').
  - reflexivity.
  - intros k. now apply from_config_oracle_irrelevant.
Qed.

(* ------------------------------------------------------------------------------------------- *)
(** * §C SchemaBuilder / Schema *)

(** the builder's invariant: the name vector lists the keys of the map, in order, without repetition *)
Definition wf {D} (sc : schema D) : Prop := sc_names sc = keys (sc_types sc) /\ NoDup (sc_names sc).

Lemma wf_empty {D} : wf (@sb_empty D).
Proof. split; [reflexivity|constructor]. Qed.

Lemma hm_mem_true_iff {V} (m : hmap V) k : hm_mem m k = true <-> In k (keys m).
Proof.
  unfold hm_mem. destruct (hm_get m k) eqn:E.
  - split; [intros _|reflexivity]. apply hm_get_some_in in E.
    apply in_map_iff. now exists (k, v).
  - split; [discriminate|]. intros Hin. apply hm_get_None_not_in in E. contradiction.
Qed.

Lemma NoDup_snoc {A} (l : list A) (k : A) : NoDup l -> ~ In k l -> NoDup (l ++ [k]).
Proof.
  intros Hnd Hn. eapply Permutation_NoDup; [apply Permutation_cons_append|]. now constructor.
Qed.

Lemma wf_add {D} (b : schema D) k d : wf b -> wf (sb_add b k d).
Proof.
  intros [Hn Hnd]. unfold sb_add. destruct (hm_mem (sc_types b) k) eqn:E; [now split|].
  split; cbn.
  - unfold keys in *. rewrite map_app, Hn. reflexivity.
  - assert (Hnotin : ~ In k (sc_names b)).
    { rewrite Hn. intros Hin. apply hm_mem_true_iff in Hin. congruence. }
    apply NoDup_snoc; assumption.
Qed.

Lemma wf_extend {D} (items : list (str * D)) : forall b : schema D, wf b -> wf (sb_extend b items).
Proof.
  unfold sb_extend. induction items as [|[k d] r IH]; intros b Hb; cbn [fold_left fst snd]; [exact Hb|].
  apply IH. now apply wf_add.
Qed.

Lemma wf_build {D} (items : list (str * D)) : wf (build items).
Proof. apply wf_extend, wf_empty. Qed.

(** [iter_types] of a well-formed schema is the entry list itself: insertion order, no oracle *)
Lemma iter_types_wf {D} (sc : schema D) : wf sc -> iter_types sc = sc_types sc.
Proof.
  intros [Hn Hnd]. unfold iter_types. rewrite Hn in *.
  assert (G : forall l : hmap D, (forall k v, In (k, v) l -> hm_get (sc_types sc) k = Some v) ->
              flat_map (fun n => match hm_get (sc_types sc) n with Some d => [(n, d)] | None => [] end) (keys l) = l).
  { induction l as [|[k v] r IH]; intros Hl; [reflexivity|].
    cbn [keys map fst flat_map]. rewrite (Hl k v) by now left. cbn [app]. f_equal.
    apply IH. intros k' v' Hin. apply Hl. now right. }
  apply G. intros k v Hin. now apply hm_get_in.
Qed.

(** with distinct names, the builder stores exactly the definitions it was given, in the given order *)
Lemma build_nodup_gen {D} (items : list (str * D)) : forall b : schema D,
  wf b -> NoDup (sc_names b ++ keys items) ->
  sc_types (sb_extend b items) = sc_types b ++ items /\ sc_names (sb_extend b items) = sc_names b ++ keys items.
Proof.
  unfold sb_extend. induction items as [|[k d] r IH]; intros b Hb Hnd; cbn [fold_left fst snd].
  - cbn [keys map]. now rewrite !app_nil_r.
  - cbn [keys map fst] in Hnd.
    assert (Hnotin : ~ In k (sc_names b)).
    { intros Hin. apply NoDup_remove_2 in Hnd. apply Hnd. apply in_or_app. now left. }
    assert (E : sb_add b k d = mk_schema (sc_types b ++ [(k, d)]) (sc_names b ++ [k])).
    { unfold sb_add. destruct (hm_mem (sc_types b) k) eqn:Em; [|reflexivity].
      apply hm_mem_true_iff in Em. destruct Hb as [Hn _]. rewrite <- Hn in Em. contradiction. }
    rewrite E. specialize (IH (mk_schema (sc_types b ++ [(k, d)]) (sc_names b ++ [k]))).
    cbn [sc_types sc_names] in IH. rewrite <- !app_assoc in IH. cbn [app] in IH.
    apply IH.
    + rewrite <- E. now apply wf_add.
    + exact Hnd.
Qed.

Lemma build_nodup {D} (items : list (str * D)) :
  NoDup (keys items) -> sc_types (build items) = items /\ sc_names (build items) = keys items.
Proof. intros Hnd. apply (build_nodup_gen items sb_empty wf_empty). exact Hnd. Qed.

Lemma iter_types_build_nodup {D} (items : list (str * D)) :
  NoDup (keys items) -> iter_types (build items) = items.
Proof. intros Hnd. rewrite iter_types_wf by apply wf_build. now apply build_nodup. Qed.

Lemma get_type_build_nodup {D} (items : list (str * D)) k :
  NoDup (keys items) -> get_type (build items) k = hm_get items k.
Proof. intros Hnd. unfold get_type. now destruct (build_nodup items Hnd) as [-> _]. Qed.

Lemma existsb_str_in x l : existsb (str_eqb x) l = true <-> In x l.
Proof.
  rewrite existsb_exists. split.
  - intros (y & Hin & E). apply str_eqb_eq in E. now subst.
  - intros Hin. exists x. split; [exact Hin|apply str_eqb_refl].
Qed.

Lemma names_extend {D} (items : list (str * D)) : forall b : schema D,
  wf b -> sc_names (sb_extend b items) = sc_names b ++ dedup (sc_names b) (keys items).
Proof.
  unfold sb_extend. induction items as [|[k d] r IH]; intros b Hb; cbn [fold_left fst snd keys map dedup].
  - now rewrite app_nil_r.
  - pose proof Hb as [Hn _].
    destruct (hm_mem (sc_types b) k) eqn:Em.
    + assert (Eadd : sb_add b k d = b) by (unfold sb_add; now rewrite Em).
      rewrite Eadd.
      assert (Hin : existsb (str_eqb k) (sc_names b) = true).
      { apply existsb_str_in. rewrite Hn. now apply hm_mem_true_iff. }
      rewrite Hin. now apply IH.
    + assert (Eadd : sb_add b k d = mk_schema (sc_types b ++ [(k, d)]) (sc_names b ++ [k]))
        by (unfold sb_add; now rewrite Em).
      assert (Hin : existsb (str_eqb k) (sc_names b) = false).
      { destruct (existsb (str_eqb k) (sc_names b)) eqn:Ex; [|reflexivity].
        apply existsb_str_in in Ex. rewrite Hn in Ex. apply hm_mem_true_iff in Ex. congruence. }
      rewrite Hin.
      assert (Hw : wf (mk_schema (sc_types b ++ [(k, d)]) (sc_names b ++ [k]))).
      { rewrite <- Eadd. now apply wf_add. }
      rewrite Eadd, (IH _ Hw). cbn. now rewrite <- app_assoc.
Qed.

Lemma iter_types_names_build {D} (items : list (str * D)) :
  map fst (iter_types (build items)) = dedup [] (keys items).
Proof.
  rewrite iter_types_wf by apply wf_build.
  destruct (wf_build items) as [Hn _]. unfold keys in Hn. rewrite <- Hn.
  unfold build. now rewrite names_extend by apply wf_empty.
Qed.

Lemma iter_types_insertion_order {D} (items : list (str * D)) :
  map fst (iter_types (build items)) = dedup [] (keys items)
  /\ (NoDup (keys items) -> iter_types (build items) = items).
Proof. split; [apply iter_types_names_build|apply iter_types_build_nodup]. Qed.

(** ** map_str *)

Definition fg {D D'} (f : str -> str) (g : D -> D') (kv : str * D) : str * D' := (f (fst kv), g (snd kv)).

Lemma keys_map_fg {D D'} (f : str -> str) (g : D -> D') (m : hmap D) : keys (map (fg f g) m) = map f (keys m).
Proof. unfold keys. rewrite !map_map. reflexivity. Qed.

(** site: type-system/src/schema.rs map_str, type_definitions.iter() / directive_definitions.iter() *)
Lemma map_str_spec {D D'} (pi : oracle) (f : str -> str) (g : D -> D') (sc : schema D) :
  is_oracle pi -> wf sc -> NoDup (map f (sc_names sc)) ->
  iter_types (map_str pi f g sc) = map (fg f g) (iter_types sc)
  /\ forall k, get_type (map_str pi f g sc) k = hm_get (map (fg f g) (sc_types sc)) k.
Proof.
  intros Ho Hw Hinj. pose proof Hw as [Hn Hnd].
  set (m' := map (fg f g) (pi D (sc_types sc))).
  assert (Hperm : Permutation m' (map (fg f g) (sc_types sc))).
  { unfold m'. apply Permutation_map, Ho. }
  assert (Hk : NoDup (keys (map (fg f g) (sc_types sc)))).
  { rewrite keys_map_fg. rewrite <- Hn. exact Hinj. }
  assert (Hk' : NoDup (keys m')).
  { eapply Permutation_NoDup; [apply Permutation_sym, Permutation_map, Hperm|exact Hk]. }
  assert (Et : sc_types (map_str pi f g sc) = m').
  { unfold map_str. cbn [sc_types]. fold (fg f g). apply hm_collect_nodup. exact Hk'. }
  split.
  - rewrite (iter_types_wf sc Hw). unfold iter_types. rewrite Et. unfold map_str. cbn [sc_names].
    rewrite Hn.
    assert (G : forall l : hmap D, (forall kv, In kv l -> In kv (sc_types sc)) ->
                flat_map (fun n => match hm_get m' n with Some d => [(n, d)] | None => [] end) (map f (keys l))
                = map (fg f g) l).
    { induction l as [|[k v] r IH]; intros Hl; [reflexivity|].
      cbn [keys map fst flat_map].
      assert (Hg : hm_get m' (f k) = Some (g v)).
      { apply hm_get_in; [exact Hk'|]. eapply Permutation_in; [apply Permutation_sym, Hperm|].
        apply in_map_iff. exists (k, v). split; [reflexivity|]. apply Hl. now left. }
      rewrite Hg. cbn [app]. f_equal. apply IH. intros kv Hin. apply Hl. now right. }
    apply G. auto.
  - intros k. unfold get_type. rewrite Et. apply hm_get_perm; assumption.
Qed.

Lemma map_str_oracle_irrelevant {D D'} (pi pi' : oracle) (f : str -> str) (g : D -> D') (sc : schema D) :
  is_oracle pi -> is_oracle pi' -> wf sc -> NoDup (map f (sc_names sc)) ->
  iter_types (map_str pi f g sc) = iter_types (map_str pi' f g sc)
  /\ forall k, get_type (map_str pi f g sc) k = get_type (map_str pi' f g sc) k.
Proof.
  intros H H' Hw Hinj.
  destruct (map_str_spec pi f g sc H Hw Hinj) as [E1 E2].
  destruct (map_str_spec pi' f g sc H' Hw Hinj) as [E1' E2'].
  split; [congruence|]. intros k. now rewrite E2, E2'.
Qed.

(** without injectivity of the renaming the result does depend on the iteration order *)
Lemma map_str_refuted :
  exists (sc : schema N) (f : str -> str) (pi pi' : oracle),
    is_oracle pi /\ is_oracle pi' /\ wf sc /\
    get_type (map_str pi f (fun x => x) sc) (s "K") <> get_type (map_str pi' f (fun x => x) sc) (s "K").
Proof.
  exists (build [(s "A", 1%N); (s "B", 2%N)]), (fun _ => s "K"), o_id, o_rev.
  split; [apply o_id_is_oracle|]. split; [apply o_rev_is_oracle|]. split; [apply wf_build|].
  vm_compute. discriminate.
Qed.

(* ------------------------------------------------------------------------------------------- *)
(** * §D permuting definitions *)

Lemma filter_perm {A} (p : A -> bool) l l' : Permutation l l' -> Permutation (filter p l) (filter p l').
Proof.
  induction 1 as [|x l l' _ IH|x y l|l l' l'' _ IH1 _ IH2]; cbn [filter].
  - constructor.
  - destruct (p x); [now constructor|exact IH].
  - destruct (p x), (p y); try apply Permutation_refl. apply perm_swap.
  - eapply Permutation_trans; eassumption.
Qed.

(** reordering definitions with distinct names: same lookups, iteration order permuted accordingly *)
Lemma build_permutation {D} (items items' : list (str * D)) :
  Permutation items items' -> NoDup (keys items) ->
  (forall k, get_type (build items) k = get_type (build items') k)
  /\ Permutation (iter_types (build items)) (iter_types (build items'))
  /\ iter_types (build items) = items /\ iter_types (build items') = items'.
Proof.
  intros Hp Hnd.
  assert (Hnd' : NoDup (keys items')) by (eapply Permutation_NoDup; [apply Permutation_map, Hp|exact Hnd]).
  rewrite !iter_types_build_nodup by assumption.
  repeat split; try assumption.
  intros k. rewrite !get_type_build_nodup by assumption. now apply hm_get_perm.
Qed.

Definition named (ds : list adef) : list (str * adef) := map (fun d => (d_name d, d)) ds.

Lemma keys_named ds : keys (named ds) = map d_name ds.
Proof. unfold keys, named. now rewrite map_map. Qed.

Lemma map_snd_named ds : map snd (named ds) = ds.
Proof. unfold named. rewrite map_map. cbn [snd]. apply map_id. Qed.

(** mechanism "implementer enumeration in schema order": the enumeration is the document's objects that
    list the interface, in document order; permuting the definitions permutes the enumeration, so the
    union type built from it has the same members, and the checker's "implements both" test is unchanged *)
Lemma implementers_spec (ds : list adef) iname :
  NoDup (map d_name ds) ->
  interface_implementers (build (named ds)) iname = filter (implements iname) ds.
Proof.
  intros Hnd. unfold interface_implementers.
  rewrite iter_types_build_nodup by (rewrite keys_named; exact Hnd).
  now rewrite map_snd_named.
Qed.

Lemma implementers_permutation (ds ds' : list adef) iname :
  Permutation ds ds' -> NoDup (map d_name ds) ->
  Permutation (interface_implementers (build (named ds)) iname) (interface_implementers (build (named ds')) iname)
  /\ (forall o, In o (interface_implementers (build (named ds)) iname) <-> In o (interface_implementers (build (named ds')) iname)).
Proof.
  intros Hp Hnd.
  assert (Hnd' : NoDup (map d_name ds')) by (eapply Permutation_NoDup; [apply Permutation_map, Hp|exact Hnd]).
  rewrite !implementers_spec by assumption.
  pose proof (filter_perm (implements iname) ds ds' Hp) as HP.
  split; [exact HP|]. intros o. split; intros Hin.
  - eapply Permutation_in; [exact HP|exact Hin].
  - eapply Permutation_in; [apply Permutation_sym, HP|exact Hin].
Qed.

Lemma implements_both_permutation (ds ds' : list adef) i1 i2 :
  Permutation ds ds' -> NoDup (map d_name ds) ->
  any_object_implements_both (build (named ds)) i1 i2 = any_object_implements_both (build (named ds')) i1 i2.
Proof.
  intros Hp Hnd.
  assert (Hnd' : NoDup (map d_name ds')) by (eapply Permutation_NoDup; [apply Permutation_map, Hp|exact Hnd]).
  unfold any_object_implements_both.
  rewrite !iter_types_build_nodup by (rewrite keys_named; assumption).
  rewrite !map_snd_named. now apply existsb_perm.
Qed.

(** [type_defs] of a permuted document is the permuted list of type definitions *)
Lemma type_defs_perm doc doc' : Permutation doc doc' -> Permutation (type_defs doc) (type_defs doc').
Proof. intros Hp. unfold type_defs. now apply Permutation_flat_map. Qed.

Lemma ast_to_type_system_permutation doc doc' :
  Permutation doc doc' -> NoDup (map d_name (type_defs doc)) ->
  (forall k, get_type (ast_to_type_system doc) k = get_type (ast_to_type_system doc') k)
  /\ Permutation (iter_types (ast_to_type_system doc)) (iter_types (ast_to_type_system doc'))
  /\ (forall i, Permutation (interface_implementers (ast_to_type_system doc) i)
                            (interface_implementers (ast_to_type_system doc') i))
  /\ (forall i1 i2, any_object_implements_both (ast_to_type_system doc) i1 i2
                    = any_object_implements_both (ast_to_type_system doc') i1 i2).
Proof.
  intros Hp Hnd. pose proof (type_defs_perm doc doc' Hp) as Ht.
  unfold ast_to_type_system. fold (named (type_defs doc)). fold (named (type_defs doc')).
  assert (Hpn : Permutation (named (type_defs doc)) (named (type_defs doc'))) by (apply Permutation_map, Ht).
  assert (Hk : NoDup (keys (named (type_defs doc)))) by (rewrite keys_named; exact Hnd).
  destruct (build_permutation _ _ Hpn Hk) as (G & P & _ & _).
  repeat split; try assumption.
  - intros i. now apply implementers_permutation.
  - intros i1 i2. now apply implements_both_permutation.
Qed.

(* ------------------------------------------------------------------------------------------- *)
(** * §E ExtensionList: the stable sort by position makes the result independent of the map's order *)

Lemma pos_leb_total a b : pos_leb a b = true \/ pos_leb b a = true.
Proof.
  unfold pos_leb.
  destruct (N.ltb_spec (p_line a) (p_line b)) as [H1|H1]; [now left|].
  destruct (N.ltb_spec (p_line b) (p_line a)) as [H2|H2]; [now right|].
  assert (E : p_line a = p_line b) by lia. rewrite E, N.eqb_refl. cbn [orb andb].
  destruct (N.leb_spec (p_col a) (p_col b)); [now left|right]. apply N.leb_le. lia.
Qed.

Lemma pos_leb_trans a b c : pos_leb a b = true -> pos_leb b c = true -> pos_leb a c = true.
Proof.
  unfold pos_leb. intros H1 H2.
  apply orb_true_iff in H1. apply orb_true_iff in H2. apply orb_true_iff.
  rewrite !andb_true_iff, !N.ltb_lt, !N.eqb_eq, !N.leb_le in *.
  destruct H1 as [H1|[E1 L1]], H2 as [H2|[E2 L2]]; [left; lia|left; lia|left; lia|right; split; lia].
Qed.

Section Sorting.
  Context {A : Type} (key : A -> pos).
  Definition kle (a b : A) : Prop := pos_leb (key a) (key b) = true.

  Lemma ins_by_perm x l : Permutation (ins_by key x l) (x :: l).
  Proof.
    induction l as [|y r IH]; cbn [ins_by]; [apply Permutation_refl|].
    destruct (pos_leb (key x) (key y)); [apply Permutation_refl|].
    eapply Permutation_trans; [apply perm_skip, IH|apply perm_swap].
  Qed.

  Lemma sort_by_perm l : Permutation (sort_by key l) l.
  Proof.
    unfold sort_by. induction l as [|x r IH]; cbn [fold_right]; [constructor|].
    eapply Permutation_trans; [apply ins_by_perm|now apply perm_skip].
  Qed.

  Lemma ins_by_sorted x l : StronglySorted kle l -> StronglySorted kle (ins_by key x l).
  Proof.
    induction l as [|y r IH]; intros Hs; cbn [ins_by].
    - repeat constructor.
    - inversion Hs as [|? ? Hr Hall]; subst.
      destruct (pos_leb (key x) (key y)) eqn:E.
      + constructor; [exact Hs|]. constructor; [exact E|].
        rewrite Forall_forall in *. intros z Hz. eapply pos_leb_trans; [exact E|]. now apply Hall.
      + constructor; [now apply IH|].
        rewrite Forall_forall in *. intros z Hz.
        apply (Permutation_in _ (ins_by_perm x r)) in Hz. destruct Hz as [<-|Hz]; [|now apply Hall].
        unfold kle. destruct (pos_leb_total (key x) (key y)); congruence.
  Qed.

  Lemma sort_by_sorted l : StronglySorted kle (sort_by key l).
  Proof.
    unfold sort_by. induction l as [|x r IH]; cbn [fold_right]; [constructor|now apply ins_by_sorted].
  Qed.

  (** two sorted permutations of each other coincide when no two distinct elements share a position *)
  Lemma sorted_unique l1 : forall l2,
    StronglySorted kle l1 -> StronglySorted kle l2 -> Permutation l1 l2 ->
    (forall x y, In x l1 -> In y l1 -> kle x y -> kle y x -> x = y) -> l1 = l2.
  Proof.
    induction l1 as [|a r1 IH]; intros l2 H1 H2 Hp Hanti.
    - apply Permutation_nil in Hp. now subst.
    - destruct l2 as [|b r2]; [apply Permutation_sym, Permutation_nil in Hp; discriminate|].
      inversion H1 as [|? ? Hs1 Ha]; subst. inversion H2 as [|? ? Hs2 Hb]; subst.
      rewrite Forall_forall in Ha, Hb.
      assert (Eab : a = b).
      { assert (Hain : In a (b :: r2)) by (eapply Permutation_in; [exact Hp|now left]).
        assert (Hbin : In b (a :: r1)) by (eapply Permutation_in; [apply Permutation_sym, Hp|now left]).
        destruct Hain as [->|Hain]; [reflexivity|]. destruct Hbin as [->|Hbin]; [reflexivity|].
        apply Hanti; [now left|now right|now apply Ha|now apply Hb]. }
      subst b. f_equal. apply IH; try assumption.
      + eapply Permutation_cons_inv; exact Hp.
      + intros x y Hx Hy. apply Hanti; now right.
  Qed.

  Lemma sort_by_order_irrelevant l l' :
    Permutation l l' ->
    (forall x y, In x l -> In y l -> kle x y -> kle y x -> x = y) ->
    sort_by key l = sort_by key l'.
  Proof.
    intros Hp Hanti. apply sorted_unique; try apply sort_by_sorted.
    - eapply Permutation_trans; [apply sort_by_perm|].
      eapply Permutation_trans; [exact Hp|apply Permutation_sym, sort_by_perm].
    - intros x y Hx Hy. apply Hanti; eapply Permutation_in; try apply sort_by_perm; assumption.
  Qed.
End Sorting.

Definition orphan_b (kit : str * xitem) : bool :=
  match x_orig (snd kit), x_exts (snd kit) with None, _ :: _ => true | _, _ => false end.
Definition keep (kit : str * xitem) : list (adef * list adef) :=
  match x_orig (snd kit) with Some o => [(o, x_exts (snd kit))] | None => [] end.

Lemma collect_items_ok elem (l : xlist) t :
  collect_items elem l = Ok t -> t = flat_map keep l /\ forallb (fun kit => negb (orphan_b kit)) l = true.
Proof.
  revert t. induction l as [|[k [o exts]] r IH]; intros t Ht; cbn [collect_items] in Ht.
  - inversion Ht. now split.
  - cbn [flat_map forallb]. unfold keep at 1, orphan_b at 1. cbn [snd x_orig x_exts].
    destruct o as [o|].
    + destruct (collect_items elem r) as [t0|e]; [|discriminate]. inversion Ht; subst.
      destruct (IH t0 eq_refl) as [-> ->]. now split.
    + destruct exts; [|discriminate]. destruct (IH t Ht) as [-> ->]. now split.
Qed.

Lemma collect_items_complete elem (l : xlist) :
  forallb (fun kit => negb (orphan_b kit)) l = true -> collect_items elem l = Ok (flat_map keep l).
Proof.
  induction l as [|[k [o exts]] r IH]; intros H; [reflexivity|].
  cbn [forallb] in H. apply andb_true_iff in H. destruct H as [H1 H2].
  cbn [collect_items flat_map]. unfold keep at 1. unfold orphan_b in H1. cbn [snd x_orig x_exts] in *.
  destruct o as [o|].
  - now rewrite (IH H2).
  - destruct exts; [now apply IH|discriminate].
Qed.

Lemma forallb_perm {A} (f : A -> bool) l l' : Permutation l l' -> forallb f l = forallb f l'.
Proof.
  induction 1 as [|x l l' _ IH|x y l|l l' l'' _ IH1 _ IH2]; cbn [forallb].
  - reflexivity.
  - now rewrite IH.
  - destruct (f x), (f y); reflexivity.
  - congruence.
Qed.

Lemma collect_items_perm elem (l l' : xlist) : Permutation l l' ->
  forall t, collect_items elem l = Ok t -> exists t', collect_items elem l' = Ok t' /\ Permutation t t'.
Proof.
  intros Hp t Ht. destruct (collect_items_ok elem l t Ht) as [-> Hno].
  exists (flat_map keep l'). split.
  - apply collect_items_complete. now rewrite <- (forallb_perm _ l l' Hp).
  - now apply Permutation_flat_map.
Qed.

(** mechanism "stable sort of merged definitions by position": whenever the list resolves, the order of
    the result is fixed by the positions alone — it would be the same for any iteration order of the map
    (so also for a HashMap in place of the IndexMap), provided no two originals share a (line, column) *)
Lemma into_original_and_extensions_order_irrelevant elem (l l' : xlist) t :
  Permutation l l' ->
  into_original_and_extensions elem l = Ok t ->
  (forall x y, In x t -> In y t ->
     pos_leb (d_pos (fst x)) (d_pos (fst y)) = true -> pos_leb (d_pos (fst y)) (d_pos (fst x)) = true -> x = y) ->
  into_original_and_extensions elem l' = Ok t.
Proof.
  unfold into_original_and_extensions. intros Hp Ht Hanti.
  destruct (collect_items elem l) as [t0|e] eqn:E; [|discriminate]. inversion Ht; subst t.
  destruct (collect_items_perm elem l l' Hp t0 E) as (t1 & -> & P).
  f_equal. symmetry. apply sort_by_order_irrelevant; [exact P|].
  intros x y Hx Hy. apply Hanti; (eapply Permutation_in; [apply Permutation_sym, sort_by_perm|assumption]).
Qed.

Lemma into_original_and_extensions_sorted elem l t :
  into_original_and_extensions elem l = Ok t ->
  StronglySorted (fun a b => pos_leb (d_pos (fst a)) (d_pos (fst b)) = true) t.
Proof.
  unfold into_original_and_extensions. destruct (collect_items elem l); [|discriminate].
  intros H; inversion H; subst. apply (sort_by_sorted (fun oe : adef * list adef => d_pos (fst oe))).
Qed.

(** a generic cover for "iterate a map, insert (some of) its entries under their own keys into another
    map": the resulting lookups do not depend on the iteration order *)
Lemma reinsert_oracle_irrelevant {V V'} (pi pi' : oracle) (h : str * V -> option V') (base : hmap V') (m : hmap V) k :
  is_oracle pi -> is_oracle pi' -> NoDup (keys m) ->
  let sel := fun kv : str * V => match h kv with Some v' => [(fst kv, v')] | None => [] end in
  hm_get (hm_extend base (flat_map sel (pi V m))) k = hm_get (hm_extend base (flat_map sel (pi' V m))) k.
Proof.
  intros Ho Ho' Hnd sel.
  assert (Hsub : forall l : hmap V, NoDup (keys l) -> NoDup (keys (flat_map sel l))).
  { induction l as [|[k0 v0] r IH]; intros Hl; [constructor|].
    cbn [keys map fst] in Hl. inversion Hl as [|? ? Hn Hr]; subst.
    cbn [flat_map]. unfold sel at 1. destruct (h (k0, v0)); cbn [app fst]; [|now apply IH].
    cbn [keys map fst]. constructor; [|now apply IH].
    intros Hin. apply Hn. unfold keys in Hin. apply in_map_iff in Hin. destruct Hin as ([k1 v1] & E & Hin).
    cbn [fst] in E. subst k1. apply in_flat_map in Hin. destruct Hin as ([k2 v2] & Hin2 & Hs).
    unfold sel in Hs. destruct (h (k2, v2)); [|destruct Hs]. destruct Hs as [E|[]]. inversion E; subst.
    apply in_map_iff. now exists (k0, v2). }
  rewrite !hm_get_extend_nodup by (apply Hsub; apply oracle_keys_nodup; assumption).
  rewrite (hm_get_perm (flat_map sel (pi V m)) (flat_map sel (pi' V m)) k).
  - reflexivity.
  - apply Permutation_flat_map. eapply Permutation_trans; [apply Ho|apply Permutation_sym, Ho'].
  - apply Hsub. now apply oracle_keys_nodup.
Qed.

(* ------------------------------------------------------------------------------------------- *)
(** * Examples: the guards of the theorems are satisfiable by non-trivial inputs *)

Ltac nodup_strs := repeat constructor; intros Hc; cbv in Hc; intuition discriminate.

Definition ex_pos (l : N) : pos := mk_pos l 0 0 false.
Definition ex_def (k : kind) (n : str) (l : N) (ifs items : list str) : item :=
  IDef (mk_adef false k n (ex_pos l) ifs items []).
(** two files; [Date2] is mentioned by the TS type of scalar [Date], so it must be renamed;
    [Node] is implemented by [B] (file 1, line 1) and [A] (file 2, line 2): positions decide the order *)
Definition ex_files : list (list item) :=
  [ [ ex_def KObject (s "A") 2 [s "Node"] [s "id"];
      ex_def KScalar (s "Date") 5 [] [] ];
    [ ex_def KInterface (s "Node") 0 [] [s "id"];
      ex_def KObject (s "B") 1 [s "Node"] [s "id"];
      ex_def KObject (s "Date2") 3 [] [s "z"];
      IDef (mk_adef true KObject (s "A") (ex_pos 7) [] [s "extra"] []) ] ].
Definition ex_cfg : hmap scfg := [(s "Date", Single (s "Date2 | string"))].

Example ex_cfg_guard : NoDup (keys ex_cfg).
Proof. nodup_strs. Qed.

Example ex_gen_nontrivial :
  exists decls, gen o_rev o_rot ex_cfg ex_files [] = GOk decls
    /\ In (mk_decl 1 (s "__tmp_Date2") (s "Date2") BNone) decls
    /\ In (mk_decl 1 (s "Node") (s "Node") (BUnion [s "B"; s "A"])) decls
    /\ In (mk_decl 0 (s "Date") (s "Date") (BText (s "Date2 | string"))) decls.
Proof. eexists. split; [vm_compute; reflexivity|]. repeat split; cbv; intuition. Qed.

Example ex_gen_same_for_other_oracles :
  gen o_rev o_rot ex_cfg ex_files [] = gen o_id o_id ex_cfg ex_files [].
Proof.
  apply gen_oracle_irrelevant;
    [apply o_rev_is_oracle|apply o_rot_is_oracle|apply o_id_is_oracle|apply o_id_is_oracle|apply ex_cfg_guard].
Qed.

Definition ex_doc : list item :=
  match resolve_schema_extensions (merge_files ex_files []) with Ok d => d | Err _ => [] end.

Example ex_def_permutation_guard : NoDup (map d_name (type_defs ex_doc)) /\ List.length (type_defs ex_doc) = 5%nat.
Proof. split; [vm_compute; nodup_strs|vm_compute; reflexivity]. Qed.

Example ex_map_str_guard :
  let sc := ast_to_type_system ex_doc in
  wf sc /\ NoDup (map (fun x => s "X_" ++ x) (sc_names sc)) /\ List.length (sc_names sc) = 5%nat.
Proof.
  cbv zeta. split; [apply wf_build|]. split; [vm_compute; nodup_strs|vm_compute; reflexivity].
Qed.

(** the extension list really reorders: insertion order A(2), Date(5) | Node(0), B(1), Date2(3) per kind *)
Example ex_extension_list_reorders :
  into_original_and_extensions (s "type")
    [ (s "A", mk_xitem (Some (mk_adef false KObject (s "A") (ex_pos 2) [] [] [])) []);
      (s "B", mk_xitem (Some (mk_adef false KObject (s "B") (ex_pos 1) [] [] [])) []) ]
  = Ok [ (mk_adef false KObject (s "B") (ex_pos 1) [] [] [], []);
         (mk_adef false KObject (s "A") (ex_pos 2) [] [] [], []) ].
Proof. vm_compute. reflexivity. Qed.

(* ------------------------------------------------------------------------------------------- *)
(** * §G the verdict of resolve_schema_extensions does not depend on the order of definitions *)


Lemma kind_eqb_eq a b : kind_eqb a b = true <-> a = b.
Proof. destruct a, b; cbn; split; intros H; try reflexivity; try discriminate. Qed.
Lemma kind_eqb_refl a : kind_eqb a a = true.
Proof. now apply kind_eqb_eq. Qed.
Lemma kind_eqb_spec a b : reflect (a = b) (kind_eqb a b).
Proof. destruct (kind_eqb a b) eqn:E; constructor; [now apply kind_eqb_eq|intros H; apply kind_eqb_eq in H; congruence]. Qed.

Definition is_orig_at (k : kind) (n : str) (d : adef) : bool :=
  negb (d_ext d) && kind_eqb (d_kind d) k && str_eqb (d_name d) n.
Definition is_ext_at (k : kind) (n : str) (d : adef) : bool :=
  d_ext d && kind_eqb (d_kind d) k && str_eqb (d_name d) n.

Definition has_orig (xs : xlists) (k : kind) (n : str) : bool :=
  match xl_get (xs k) n with Some (mk_xitem (Some _) _) => true | _ => false end.
Definition has_ext (xs : xlists) (k : kind) (n : str) : bool :=
  match xl_get (xs k) n with Some (mk_xitem _ (_ :: _)) => true | _ => false end.

(** what the seven lists know after the definitions [seen] have been scanned *)
Definition Inv (xs : xlists) (seen : list adef) : Prop :=
  forall k n, has_orig xs k n = existsb (is_orig_at k n) seen /\ has_ext xs k n = existsb (is_ext_at k n) seen.
Definition KN (xs : xlists) : Prop := forall k, NoDup (map fst (xs k)).

Definition dflt : xitem := mk_xitem None [].

Lemma xl_get_update l k f k' :
  xl_get (xl_update l k f) k' =
  if str_eqb k k' then Some (f (match xl_get l k with Some it => it | None => dflt end)) else xl_get l k'.
Proof.
  induction l as [|[k0 it] r IH]; cbn [xl_update xl_get].
  - destruct (str_eqb k k'); reflexivity.
  - destruct (str_eqb_spec k0 k) as [E|Hn]; cbn [xl_get].
    + subst k0. destruct (str_eqb k k'); reflexivity.
    + rewrite IH. destruct (str_eqb_spec k0 k') as [E'|Hn'].
      * subst k0. destruct (str_eqb_spec k k') as [E''|]; [congruence|reflexivity].
      * reflexivity.
Qed.

Lemma xl_update_keys_in l k f x : In x (map fst (xl_update l k f)) -> In x (map fst l) \/ x = k.
Proof.
  induction l as [|[k0 it] r IH]; cbn [xl_update map fst In].
  - intros [E|[]]; now right.
  - destruct (str_eqb k0 k); cbn [map fst In]; [tauto|].
    intros [E|H]; [now left; left|]. destruct (IH H); [left; now right|now right].
Qed.

Lemma xl_update_nodup l k f : NoDup (map fst l) -> NoDup (map fst (xl_update l k f)).
Proof.
  induction l as [|[k0 it] r IH]; intros Hnd; cbn [xl_update].
  - cbn. constructor; [intros []|constructor].
  - cbn [map fst] in Hnd. inversion Hnd as [|? ? Hn Hr]; subst.
    destruct (str_eqb_spec k0 k) as [E|Hne]; cbn [map fst].
    + now constructor.
    + constructor; [|now apply IH]. intros Hin. apply xl_update_keys_in in Hin. destruct Hin; [contradiction|congruence].
Qed.

Lemma xs_set_same xs k l : xs_set xs k l k = l.
Proof. unfold xs_set. now rewrite kind_eqb_refl. Qed.
Lemma xs_set_other xs k l k' : k' <> k -> xs_set xs k l k' = xs k'.
Proof. unfold xs_set. intros H. destruct (kind_eqb_spec k' k); [contradiction|reflexivity]. Qed.

Lemma existsb_snoc {A} (f : A -> bool) l x : existsb f (l ++ [x]) = existsb f l || f x.
Proof. rewrite existsb_app. cbn. now rewrite orb_false_r. Qed.

Lemma KN_set xs k l : KN xs -> NoDup (map fst l) -> KN (xs_set xs k l).
Proof.
  intros H Hl k'. destruct (kind_eqb_spec k' k) as [->|Hn]; [now rewrite xs_set_same|now rewrite xs_set_other].
Qed.

Lemma step_ext xs seen d :
  Inv xs seen -> d_ext d = true ->
  Inv (xs_set xs (d_kind d) (add_extension (xs (d_kind d)) d)) (seen ++ [d]).
Proof.
  intros HI He k n. destruct (HI k n) as [Ho Hx]. rewrite !existsb_snoc.
  unfold is_orig_at at 2, is_ext_at at 2. rewrite He. cbn [negb andb]. rewrite orb_false_r.
  unfold has_orig, has_ext in *.
  destruct (kind_eqb_spec (d_kind d) k) as [Ek|Nk].
  - subst k. rewrite xs_set_same. unfold add_extension. rewrite xl_get_update.
    destruct (str_eqb_spec (d_name d) n) as [En|Nn].
    + subst n. cbn [x_orig x_exts]. split.
      * rewrite <- Ho. destruct (xl_get (xs (d_kind d)) (d_name d)) as [[o e]|]; reflexivity.
      * rewrite orb_true_r.
        destruct (xl_get (xs (d_kind d)) (d_name d)) as [[o [|e0 e]]|]; reflexivity.
    + rewrite orb_false_r. now split.
  - rewrite xs_set_other by congruence. rewrite orb_false_r. now split.
Qed.

Lemma step_orig xs seen d :
  Inv xs seen -> d_ext d = false ->
  match set_original (elem_name (d_kind d)) (xs (d_kind d)) d with
  | Err (DuplicateOriginal _ _ _ _) => existsb (is_orig_at (d_kind d) (d_name d)) seen = true
  | Err (NoOriginal _ _) => False
  | Ok l => existsb (is_orig_at (d_kind d) (d_name d)) seen = false
            /\ Inv (xs_set xs (d_kind d) l) (seen ++ [d])
            /\ (NoDup (map fst (xs (d_kind d))) -> NoDup (map fst l))
  end.
Proof.
  intros HI He. unfold set_original.
  destruct (HI (d_kind d) (d_name d)) as [Ho _]. unfold has_orig in Ho.
  destruct (xl_get (xs (d_kind d)) (d_name d)) as [[[first|] exts]|] eqn:Eg.
  - now rewrite <- Ho.
  - (* entry exists without original *)
    split; [now rewrite <- Ho|]. split; [|apply xl_update_nodup].
    intros k n. destruct (HI k n) as [Ho' Hx']. rewrite !existsb_snoc.
    unfold is_orig_at at 2, is_ext_at at 2. rewrite He. cbn [negb andb]. rewrite orb_false_r.
    unfold has_orig, has_ext in *.
    destruct (kind_eqb_spec (d_kind d) k) as [Ek|Nk].
    + subst k. rewrite xs_set_same, xl_get_update.
      destruct (str_eqb_spec (d_name d) n) as [En|Nn].
      * subst n. rewrite Eg in *. cbn [x_exts]. rewrite orb_true_r. split; [reflexivity|exact Hx'].
      * rewrite orb_false_r. now split.
    + rewrite xs_set_other by congruence. rewrite orb_false_r. now split.
  - split; [now rewrite <- Ho|]. split; [|apply xl_update_nodup].
    intros k n. destruct (HI k n) as [Ho' Hx']. rewrite !existsb_snoc.
    unfold is_orig_at at 2, is_ext_at at 2. rewrite He. cbn [negb andb]. rewrite orb_false_r.
    unfold has_orig, has_ext in *.
    destruct (kind_eqb_spec (d_kind d) k) as [Ek|Nk].
    + subst k. rewrite xs_set_same, xl_get_update.
      destruct (str_eqb_spec (d_name d) n) as [En|Nn].
      * subst n. rewrite Eg in *. cbn [x_exts dflt]. rewrite orb_true_r. split; [reflexivity|exact Hx'].
      * rewrite orb_false_r. now split.
    + rewrite xs_set_other by congruence. rewrite orb_false_r. now split.
Qed.


Lemma slot_eqb_sym a b : slot_eqb a b = slot_eqb b a.
Proof.
  unfold slot_eqb. rewrite (str_eqb_sym (d_name a)). f_equal.
  destruct (kind_eqb_spec (d_kind a) (d_kind b)) as [E|N], (kind_eqb_spec (d_kind b) (d_kind a)) as [E'|N']; congruence.
Qed.

Lemma snodup_perm l l' : Permutation l l' -> snodup l = snodup l'.
Proof.
  induction 1 as [|x l l' Hp IH|x y l|l l' l'' _ IH1 _ IH2]; cbn [snodup existsb].
  - reflexivity.
  - now rewrite IH, (existsb_perm _ l l' Hp).
  - rewrite (slot_eqb_sym y x).
    destruct (slot_eqb x y), (existsb (slot_eqb x) l), (existsb (slot_eqb y) l), (snodup l); reflexivity.
  - congruence.
Qed.

Lemma is_orig_at_slot d x : d_ext x = false -> is_orig_at (d_kind d) (d_name d) x = slot_eqb d x.
Proof.
  intros He. unfold is_orig_at, slot_eqb. rewrite He. cbn [negb andb].
  rewrite (str_eqb_sym (d_name x)). f_equal.
  destruct (kind_eqb_spec (d_kind x) (d_kind d)) as [E|N], (kind_eqb_spec (d_kind d) (d_kind x)) as [E'|N']; congruence.
Qed.

Lemma existsb_orig_at d seen :
  existsb (is_orig_at (d_kind d) (d_name d)) seen = existsb (slot_eqb d) (originals seen).
Proof.
  unfold originals. induction seen as [|x r IH]; [reflexivity|]. cbn [existsb filter].
  destruct (d_ext x) eqn:E; cbn [negb].
  - rewrite <- IH. unfold is_orig_at. rewrite E. reflexivity.
  - cbn [existsb]. rewrite <- IH. now rewrite is_orig_at_slot.
Qed.

Lemma originals_app a b : originals (a ++ b) = originals a ++ originals b.
Proof. unfold originals. apply filter_app. Qed.


(** the scanning loop fails exactly when two originals share a slot; otherwise it establishes [Inv] *)
Lemma scan_items_char its : forall xs dirs seen,
  Inv xs seen -> KN xs -> snodup (originals seen) = true ->
  match scan_items its xs dirs with
  | Err e => eclass e = 1%N /\ snodup (originals (seen ++ idefs its)) = false
  | Ok (xs', _) => Inv xs' (seen ++ idefs its) /\ KN xs' /\ snodup (originals (seen ++ idefs its)) = true
  end.
Proof.
  induction its as [|[d|n p] r IH]; intros xs dirs seen HI HK Hs; cbn [scan_items idefs flat_map].
  - rewrite app_nil_r. split; [exact HI|split; [exact HK|exact Hs]].
  - cbn [app]. change (flat_map (fun it => match it with IDef d0 => [d0] | IDirective _ _ => [] end) r) with (idefs r).
    replace (seen ++ d :: idefs r) with ((seen ++ [d]) ++ idefs r) by (now rewrite <- app_assoc).
    destruct (d_ext d) eqn:He.
    + apply IH.
      * now apply step_ext.
      * apply KN_set; [exact HK|]. unfold add_extension. apply xl_update_nodup, HK.
      * rewrite originals_app. cbn [originals filter]. rewrite He. cbn [negb]. now rewrite app_nil_r.
    + pose proof (step_orig xs seen d HI He) as Hst.
      destruct (set_original (elem_name (d_kind d)) (xs (d_kind d)) d) as [l|[e0 n0 f0 s0|e0 p0]].
      * destruct Hst as (Hfresh & HI' & Hnd). apply IH; [exact HI'|apply KN_set; [exact HK|apply Hnd, HK]|].
        rewrite originals_app. cbn [originals filter]. rewrite He. cbn [negb].
        rewrite (snodup_perm _ (d :: originals seen)) by (apply Permutation_sym, Permutation_cons_append).
        cbn [snodup]. rewrite <- existsb_orig_at, Hfresh. exact Hs.
      * split; [reflexivity|].
        rewrite !originals_app. cbn [originals filter]. rewrite He. cbn [negb].
        rewrite <- app_assoc. cbn [app].
        rewrite (snodup_perm _ (d :: originals seen ++ filter (fun d0 => negb (d_ext d0)) (idefs r)))
          by (apply Permutation_sym, Permutation_middle).
        cbn [snodup]. rewrite existsb_app, <- existsb_orig_at, Hst. reflexivity.
      * destruct Hst.
  - apply IH; assumption.
Qed.


Lemma collect_items_err_class elem l e : collect_items elem l = Err e -> eclass e = 2%N.
Proof.
  induction l as [|[k [[o|] exts]] r IH]; cbn [collect_items]; [discriminate| |].
  - destruct (collect_items elem r); [discriminate|]. intros H; inversion H; subst. now apply IH.
  - destruct exts; [exact IH|]. intros H; inversion H. reflexivity.
Qed.

Lemma collect_items_orphan elem l :
  (exists t, collect_items elem l = Ok t) <-> existsb orphan_b l = false.
Proof.
  split.
  - intros (t & Ht). destruct (collect_items_ok elem l t Ht) as [_ Hf].
    clear Ht. induction l as [|x r IH]; [reflexivity|]. cbn [forallb existsb] in *.
    apply andb_true_iff in Hf. destruct Hf as [H1 H2]. apply negb_true_iff in H1. rewrite H1. now apply IH.
  - intros H. eexists. apply collect_items_complete.
    induction l as [|x r IH]; [reflexivity|]. cbn [forallb existsb] in *.
    apply orb_false_iff in H. destruct H as [H1 H2]. rewrite H1. cbn. now apply IH.
Qed.

(** with unique keys, an orphan entry in the list is an orphan slot of the lookup view *)
Lemma orphan_lookup (xs : xlists) k :
  NoDup (map fst (xs k)) ->
  existsb orphan_b (xs k) = true <-> exists n, has_ext xs k n = true /\ has_orig xs k n = false.
Proof.
  intros Hnd. rewrite existsb_exists. unfold has_ext, has_orig. split.
  - intros ([n [o e]] & Hin & Ho). unfold orphan_b in Ho. cbn [snd x_orig x_exts] in Ho.
    exists n. assert (Hg : xl_get (xs k) n = Some (mk_xitem o e)).
    { clear Ho. revert Hnd Hin. generalize (xs k). induction x as [|[k0 it] r IH]; intros Hnd Hin; [destruct Hin|].
      cbn [map fst] in Hnd. inversion Hnd as [|? ? Hn Hr]; subst. cbn [xl_get].
      destruct Hin as [E|Hin].
      - inversion E; subst. now rewrite str_eqb_refl.
      - destruct (str_eqb_spec k0 n) as [->|Hne]; [|now apply IH].
        exfalso. apply Hn. apply in_map_iff. now exists (n, mk_xitem o e). }
    rewrite Hg. destruct o; [discriminate|]. destruct e; [discriminate|]. now split.
  - intros (n & He & Ho). destruct (xl_get (xs k) n) as [[o e]|] eqn:Hg; [|discriminate].
    exists (n, mk_xitem o e). split.
    + clear He Ho Hnd. revert Hg. generalize (xs k). induction x as [|[k0 it] r IH]; cbn [xl_get]; [discriminate|].
      destruct (str_eqb_spec k0 n) as [->|Hne]; intros H; [inversion H; now left|right; now apply IH].
    + unfold orphan_b. cbn [snd x_orig x_exts]. destruct o; [discriminate|]. destruct e; [discriminate|reflexivity].
Qed.

Lemma has_orphan_spec l :
  has_orphan l = true <->
  exists k n, existsb (is_ext_at k n) l = true /\ existsb (is_orig_at k n) l = false.
Proof.
  unfold has_orphan. rewrite existsb_exists. split.
  - intros (e & Hin & H). apply andb_true_iff in H. destruct H as [He Hno]. apply negb_true_iff in Hno.
    exists (d_kind e), (d_name e). split.
    + apply existsb_exists. exists e. split; [exact Hin|]. unfold is_ext_at. now rewrite He, kind_eqb_refl, str_eqb_refl.
    + destruct (existsb (is_orig_at (d_kind e) (d_name e)) l) eqn:Ex; [|reflexivity].
      apply existsb_exists in Ex. destruct Ex as (o & Hino & Ho).
      assert (existsb (fun o0 => negb (d_ext o0) && slot_eqb e o0) l = true); [|congruence].
      apply existsb_exists. exists o. split; [exact Hino|].
      unfold is_orig_at in Ho. apply andb_true_iff in Ho. destruct Ho as [Ho Hn]. apply andb_true_iff in Ho. destruct Ho as [Hoe Hk].
      rewrite Hoe. cbn [andb]. unfold slot_eqb. apply kind_eqb_eq in Hk. apply str_eqb_eq in Hn.
      now rewrite Hk, Hn, kind_eqb_refl, str_eqb_refl.
  - intros (k & n & He & Ho). apply existsb_exists in He. destruct He as (e & Hin & He).
    unfold is_ext_at in He. apply andb_true_iff in He. destruct He as [He Hn]. apply andb_true_iff in He. destruct He as [Hee Hk].
    apply kind_eqb_eq in Hk. apply str_eqb_eq in Hn. subst k n.
    exists e. split; [exact Hin|]. rewrite Hee. cbn [andb]. apply negb_true_iff.
    destruct (existsb (fun o => negb (d_ext o) && slot_eqb e o) l) eqn:Ex; [|reflexivity].
    apply existsb_exists in Ex. destruct Ex as (o & Hino & H). apply andb_true_iff in H. destruct H as [Hoe Hs].
    assert (existsb (is_orig_at (d_kind e) (d_name e)) l = true); [|congruence].
    apply existsb_exists. exists o. split; [exact Hino|].
    apply negb_true_iff in Hoe. now rewrite is_orig_at_slot.
Qed.

Lemma finish_kinds_char (xs : xlists) ks :
  KN xs ->
  match finish_kinds ks xs with
  | Err e => eclass e = 2%N /\ exists k, In k ks /\ existsb orphan_b (xs k) = true
  | Ok _ => forall k, In k ks -> existsb orphan_b (xs k) = false
  end.
Proof.
  intros HK. induction ks as [|k r IH]; cbn [finish_kinds]; [intros k []|].
  unfold into_original_and_extensions.
  destruct (collect_items (elem_name k) (xs k)) as [t|e] eqn:E.
  - assert (Hk : existsb orphan_b (xs k) = false) by (apply (collect_items_orphan (elem_name k)); now exists t).
    destruct (finish_kinds r xs) as [t'|e'].
    + intros k' [<-|Hin]; [exact Hk|now apply IH].
    + destruct IH as (Hc & k' & Hin & Ho). split; [exact Hc|]. exists k'. split; [now right|exact Ho].
  - split; [now apply (collect_items_err_class _ _ _ E)|]. exists k. split; [now left|].
    destruct (existsb orphan_b (xs k)) eqn:Ex; [reflexivity|].
    apply (collect_items_orphan (elem_name k)) in Ex. destruct Ex as (t & Ht). congruence.
Qed.

Lemma all_kinds_complete k : In k all_kinds.
Proof. destruct k; cbn; tauto. Qed.


(** the verdict of the resolver, read off the multiset of definitions *)
Lemma resolve_verdict its :
  vclass (resolve_schema_extensions its) =
  if negb (snodup (originals (idefs its))) then 1%N else if has_orphan (idefs its) then 2%N else 0%N.
Proof.
  unfold resolve_schema_extensions.
  assert (HI0 : Inv (fun _ => []) []) by (intros k n; now split).
  assert (HK0 : KN (fun _ => [])) by (intros k; constructor).
  pose proof (scan_items_char its (fun _ => []) [] [] HI0 HK0 eq_refl) as Hs. cbn [app] in Hs.
  destruct (scan_items its (fun _ => []) []) as [[xs dirs]|e].
  - destruct Hs as (HI & HK & Hnd). rewrite Hnd. cbn [negb].
    pose proof (finish_kinds_char xs all_kinds HK) as Hf.
    destruct (finish_kinds all_kinds xs) as [t|e]; cbn [vclass].
    + destruct (has_orphan (idefs its)) eqn:Ho; [|reflexivity]. exfalso.
      apply has_orphan_spec in Ho. destruct Ho as (k & n & He & Hno).
      specialize (Hf k (all_kinds_complete k)).
      assert (existsb orphan_b (xs k) = true); [|congruence].
      apply (orphan_lookup xs k (HK k)). exists n. destruct (HI k n) as [-> ->]. now split.
    + destruct Hf as (Hc & k & _ & Ho). rewrite Hc.
      apply (orphan_lookup xs k (HK k)) in Ho. destruct Ho as (n & He & Hno).
      destruct (HI k n) as [Eo Ee]. rewrite Eo in Hno. rewrite Ee in He.
      assert (has_orphan (idefs its) = true) as -> by (apply has_orphan_spec; now exists k, n).
      reflexivity.
  - destruct Hs as (Hc & Hnd). cbn [vclass]. now rewrite Hc, Hnd.
Qed.

Lemma idefs_perm its its' : Permutation its its' -> Permutation (idefs its) (idefs its').
Proof. intros H. unfold idefs. now apply Permutation_flat_map. Qed.

Lemma existsb_ext' {A} (f g : A -> bool) l : (forall x, f x = g x) -> existsb f l = existsb g l.
Proof. intros E. induction l as [|x r IH]; [reflexivity|]. cbn [existsb]. now rewrite E, IH. Qed.

Lemma has_orphan_perm l l' : Permutation l l' -> has_orphan l = has_orphan l'.
Proof.
  intros Hp. unfold has_orphan. rewrite (existsb_perm _ l l' Hp).
  apply existsb_ext'. intros e. now rewrite (existsb_perm _ l l' Hp).
Qed.

(** verdict(pi(P)) = verdict(P) at the resolver: success / duplicate / missing original does not depend on
    the order of the definitions (which positions are reported of course does) *)
Lemma resolve_verdict_permutation its its' :
  Permutation its its' ->
  vclass (resolve_schema_extensions its) = vclass (resolve_schema_extensions its').
Proof.
  intros Hp. rewrite !resolve_verdict. pose proof (idefs_perm its its' Hp) as Hd.
  rewrite (snodup_perm (originals (idefs its)) (originals (idefs its'))) by (now apply filter_perm).
  now rewrite (has_orphan_perm _ _ Hd).
Qed.

(* ------------------------------------------------------------------------------------------- *)
(** * §H the declaration skeleton under a permutation of the (resolved) document *)

Definition body_equiv (a b : body) : Prop :=
  match a, b with BUnion l, BUnion l' => Permutation l l' | _, _ => a = b end.
Definition decl_equiv (d d' : decl) : Prop :=
  dc_section d = dc_section d' /\ dc_local d = dc_local d' /\ dc_schema d = dc_schema d'
  /\ body_equiv (dc_body d) (dc_body d').
(** same declarations up to their order and up to the order of union members *)
Definition decls_equiv (l l' : list decl) : Prop := exists m, Permutation l m /\ Forall2 decl_equiv m l'.

Lemma body_equiv_refl b : body_equiv b b.
Proof. destruct b; cbn; [reflexivity|reflexivity|apply Permutation_refl]. Qed.
Lemma decl_equiv_refl d : decl_equiv d d.
Proof. repeat split; try reflexivity. apply body_equiv_refl. Qed.
Lemma Forall2_decl_refl l : Forall2 decl_equiv l l.
Proof. induction l; constructor; [apply decl_equiv_refl|assumption]. Qed.

Lemma decls_equiv_app a a' b b' : decls_equiv a a' -> decls_equiv b b' -> decls_equiv (a ++ b) (a' ++ b').
Proof.
  intros (m & P & F) (m' & P' & F'). exists (m ++ m'). split; [now apply Permutation_app|now apply Forall2_app].
Qed.

(** sequencing of result lists, the shape shared by print_defs and print_representatives *)
Fixpoint seq_res {A E B} (f : A -> res E (list B)) (l : list A) : res E (list B) :=
  match l with
  | [] => Ok []
  | x :: r => match f x with
              | Err e => Err e
              | Ok a => match seq_res f r with Ok b => Ok (a ++ b) | Err e => Err e end
              end
  end.

Lemma seq_res_pointwise {A E B} (R : B -> B -> Prop) (f f' : A -> res E (list B)) l :
  (forall x a, In x l -> f x = Ok a -> exists a', f' x = Ok a' /\ Forall2 R a a') ->
  forall r, seq_res f l = Ok r -> exists r', seq_res f' l = Ok r' /\ Forall2 R r r'.
Proof.
  induction l as [|x t IH]; intros H r Hr; cbn [seq_res] in *.
  - inversion Hr; subst. exists []. split; [reflexivity|constructor].
  - destruct (f x) as [a|e] eqn:Ef; [|discriminate].
    destruct (seq_res f t) as [b|e] eqn:Et; [|discriminate]. inversion Hr; subst.
    destruct (H x a (or_introl eq_refl) Ef) as (a' & -> & Fa).
    destruct (IH (fun y c Hy => H y c (or_intror Hy)) b eq_refl) as (b' & -> & Fb).
    exists (a' ++ b'). split; [reflexivity|now apply Forall2_app].
Qed.

Lemma seq_res_perm {A E B} (f : A -> res E (list B)) l l' :
  Permutation l l' -> forall r, seq_res f l = Ok r -> exists r', seq_res f l' = Ok r' /\ Permutation r r'.
Proof.
  induction 1 as [|x l l' _ IH|x y l|l l' l'' _ IH1 _ IH2]; intros r Hr; cbn [seq_res] in *.
  - exists r. split; [exact Hr|apply Permutation_refl].
  - destruct (f x) as [a|e]; [|discriminate]. destruct (seq_res f l) as [b|e]; [|discriminate].
    inversion Hr; subst. destruct (IH b eq_refl) as (b' & -> & P).
    exists (a ++ b'). split; [reflexivity|now apply Permutation_app_head].
  - destruct (f y) as [a|e]; [|discriminate]. destruct (f x) as [b|e]; [|discriminate].
    destruct (seq_res f l) as [c|e]; [|discriminate]. inversion Hr; subst.
    exists (b ++ a ++ c). split; [reflexivity|]. rewrite !app_assoc. apply Permutation_app_tail, Permutation_app_comm.
  - destruct (IH1 r Hr) as (r1 & E1 & P1). destruct (IH2 r1 E1) as (r2 & E2 & P2).
    exists r2. split; [exact E2|eapply Permutation_trans; eassumption].
Qed.

Lemma seq_res_ext {A E B} (f g : A -> res E (list B)) l : (forall x, f x = g x) -> seq_res f l = seq_res g l.
Proof. intros H. induction l as [|x r IH]; cbn [seq_res]; [reflexivity|]. now rewrite H, IH. Qed.

Lemma print_defs_seq pi o doc sec t ds :
  print_defs pi o doc sec t ds = seq_res (print_type_decl pi o doc sec t) ds.
Proof. induction ds as [|d r IH]; cbn [print_defs seq_res]; [reflexivity|]. now rewrite IH. Qed.

Lemma print_representatives_seq pi o doc ds :
  print_representatives pi o doc ds
  = seq_res (fun d => with_local pi o doc d (fun local => [mk_decl 4 local (d_name d) BNone])) ds.
Proof. induction ds as [|d r IH]; cbn [print_representatives seq_res]; [reflexivity|]. now rewrite IH. Qed.

Lemma sel_keys_nodup {V} (sel : adef -> list (str * V)) (ds : list adef) :
  (forall d kv, In kv (sel d) -> fst kv = d_name d) -> (forall d, (List.length (sel d) <= 1)%nat) ->
  NoDup (map d_name ds) -> NoDup (keys (flat_map sel ds)).
Proof.
  intros Hk Hl. induction ds as [|d r IH]; intros Hnd; [constructor|].
  cbn [map] in Hnd. inversion Hnd as [|? ? Hn Hr]; subst. cbn [flat_map].
  unfold keys. rewrite map_app. fold (keys (flat_map sel r)).
  pose proof (Hl d) as Hld. pose proof (Hk d) as Hkd.
  destruct (sel d) as [|kv [|kv' t]]; cbn [map app]; [now apply IH| |cbn [List.length] in Hld; lia].
  constructor; [|now apply IH].
  rewrite (Hkd kv (or_introl eq_refl)). intros Hin. apply Hn.
  unfold keys in Hin. apply in_map_iff in Hin. destruct Hin as (kv2 & E & Hin).
  apply in_flat_map in Hin. destruct Hin as (d2 & Hd2 & Hkv2).
  apply in_map_iff. exists d2. split; [|exact Hd2].
  rewrite <- E. symmetry. now apply Hk.
Qed.

Section SkeletonPermutation.
  Variable pi : oracle.
  Variable o : hmap scfg.
  Variables doc doc' : list item.
  Hypothesis Hpi : is_oracle pi.
  Hypothesis Hperm : Permutation doc doc'.
  Hypothesis Hnd : NoDup (map d_name (type_defs doc)).

  Let Htd : Permutation (type_defs doc) (type_defs doc') := type_defs_perm doc doc' Hperm.
  Let Hnd' : NoDup (map d_name (type_defs doc')).
  Proof. eapply Permutation_NoDup; [apply Permutation_map, Htd|exact Hnd]. Qed.

  Definition st_sel (d : adef) : list (str * scfg) :=
    match d_kind d with
    | KScalar =>
        match (match hm_get o (d_name d) with Some c => Some c | None => directive_ts_type d end) with
        | Some c => [(d_name d, c)]
        | None => []
        end
    | _ => []
    end.

  Lemma st_sel_key d kv : In kv (st_sel d) -> fst kv = d_name d.
  Proof.
    unfold st_sel. destruct (d_kind d); try (intros []).
    destruct (match hm_get o (d_name d) with Some c => Some c | None => directive_ts_type d end); [|intros []].
    intros [<-|[]]. reflexivity.
  Qed.
  Lemma st_sel_len d : (List.length (st_sel d) <= 1)%nat.
  Proof.
    unfold st_sel. destruct (d_kind d); cbn; try lia.
    destruct (match hm_get o (d_name d) with Some c => Some c | None => directive_ts_type d end); cbn; lia.
  Qed.

  Lemma scalar_types_list d0 : NoDup (map d_name (type_defs d0)) ->
    ctx_scalar_types o d0 = flat_map st_sel (type_defs d0).
  Proof.
    intros H. unfold ctx_scalar_types, get_scalar_types. fold st_sel.
    apply hm_collect_nodup. apply sel_keys_nodup; [apply st_sel_key|apply st_sel_len|exact H].
  Qed.

  Lemma scalar_types_perm : Permutation (ctx_scalar_types o doc) (ctx_scalar_types o doc').
  Proof. rewrite !scalar_types_list by assumption. now apply Permutation_flat_map. Qed.

  Lemma scalar_types_get k : hm_get (ctx_scalar_types o doc) k = hm_get (ctx_scalar_types o doc') k.
  Proof.
    apply hm_get_perm; [apply scalar_types_perm|].
    rewrite scalar_types_list by assumption. apply sel_keys_nodup; [apply st_sel_key|apply st_sel_len|exact Hnd].
  Qed.

  Lemma bag_mem_docs x :
    bag_mem (bag_of_identifiers pi (ctx_scalar_types o doc)) x = bag_mem (bag_of_identifiers pi (ctx_scalar_types o doc')) x.
  Proof.
    unfold bag_mem, bag_of_identifiers. apply existsb_perm.
    apply Permutation_flat_map, Permutation_flat_map, Permutation_map.
    eapply Permutation_trans; [apply Hpi|]. eapply Permutation_trans; [apply scalar_types_perm|apply Permutation_sym, Hpi].
  Qed.

  Definition loc_entry (st : hmap scfg) (d : adef) : str * str :=
    (d_name d, if bag_mem (bag_of_identifiers pi st) (d_name d) then tmp_prefix ++ d_name d else d_name d).

  Lemma local_names_list d0 : NoDup (map d_name (type_defs d0)) ->
    ctx_local_names pi o d0 = map (loc_entry (ctx_scalar_types o d0)) (type_defs d0).
  Proof.
    intros H. unfold ctx_local_names, make_local_type_names. cbv zeta. fold (loc_entry (ctx_scalar_types o d0)).
    apply hm_collect_nodup. unfold keys. rewrite map_map. exact H.
  Qed.

  Lemma local_names_get k : hm_get (ctx_local_names pi o doc) k = hm_get (ctx_local_names pi o doc') k.
  Proof.
    rewrite !local_names_list by assumption.
    rewrite (map_ext (loc_entry (ctx_scalar_types o doc')) (loc_entry (ctx_scalar_types o doc))).
    - apply hm_get_perm; [now apply Permutation_map|]. unfold keys. rewrite map_map. exact Hnd.
    - intros d. unfold loc_entry. now rewrite bag_mem_docs.
  Qed.

  Lemma local_of_docs n : local_of pi o doc n = local_of pi o doc' n.
  Proof. unfold local_of. now rewrite local_names_get. Qed.

  Lemma with_local_docs d k : with_local pi o doc d k = with_local pi o doc' d k.
  Proof. unfold with_local. now rewrite local_names_get. Qed.

  Lemma print_type_decl_docs sec t d a :
    print_type_decl pi o doc sec t d = Ok a ->
    exists a', print_type_decl pi o doc' sec t d = Ok a' /\ Forall2 decl_equiv a a'.
  Proof.
    unfold print_type_decl. rewrite <- scalar_types_get.
    assert (Same : forall r : res perr (list decl), r = Ok a -> exists a', r = Ok a' /\ Forall2 decl_equiv a a').
    { intros r ->. exists a. split; [reflexivity|apply Forall2_decl_refl]. }
    destruct (d_kind d); try (rewrite <- ?with_local_docs; apply Same).
    - (* scalar *)
      destruct (hm_get (ctx_scalar_types o doc) (d_name d)); [rewrite <- with_local_docs; apply Same|discriminate].
    - (* interface *)
      destruct (is_input t); [apply Same|]. rewrite <- with_local_docs. unfold with_local.
      destruct (hm_get (ctx_local_names pi o doc) (d_name d)) as [local|]; [|discriminate].
      intros H; inversion H; subst a. eexists. split; [reflexivity|].
      constructor; [|constructor]. repeat split; try reflexivity. cbn [dc_body body_equiv].
      rewrite (map_ext (fun o0 => local_of pi o doc' (d_name o0)) (fun o0 => local_of pi o doc (d_name o0)))
        by (intros; symmetry; apply local_of_docs).
      apply Permutation_map.
      destruct (ast_to_type_system_permutation doc doc' Hperm Hnd) as (_ & _ & Himpl & _). apply Himpl.
    - (* union *)
      destruct (is_input t); [apply Same|]. rewrite <- with_local_docs.
      rewrite (map_ext (local_of pi o doc') (local_of pi o doc)) by (intros; symmetry; apply local_of_docs).
      apply Same.
  Qed.

  Lemma print_defs_docs sec t l :
    print_defs pi o doc sec t (type_defs doc) = Ok l ->
    exists l', print_defs pi o doc' sec t (type_defs doc') = Ok l' /\ decls_equiv l l'.
  Proof.
    rewrite !print_defs_seq. intros H.
    destruct (seq_res_pointwise decl_equiv _ (print_type_decl pi o doc' sec t) (type_defs doc)
                (fun x a _ Hx => print_type_decl_docs sec t x a Hx) l H) as (l1 & E1 & F1).
    destruct (seq_res_perm _ _ _ Htd l1 E1) as (l2 & E2 & P2).
    exists l2. split; [exact E2|].
    (* l ~F2~ l1 ~perm~ l2 : move the permutation to the left *)
    clear - F1 P2. revert l F1. induction P2 as [|x a b _ IH|x y a|a b c _ IH1 _ IH2]; intros l F.
    - inversion F; subst. exists []. split; constructor.
    - inversion F as [|x0 ? l0 ? Hx Hl]; subst. destruct (IH l0 Hl) as (m & P & Fm).
      exists (x0 :: m). split; [now constructor|constructor; [exact Hx|exact Fm]].
    - inversion F as [|y0 ? l0 ? Hy Hl]; subst. inversion Hl as [|x0 ? l1 ? Hx Hl1]; subst.
      exists (x0 :: y0 :: l1). split; [apply perm_swap|constructor; [exact Hx|constructor; [exact Hy|exact Hl1]]].
    - destruct (IH1 l F) as (m & P & Fm). destruct (IH2 m Fm) as (m' & P' & Fm').
      exists m'. split; [eapply Permutation_trans; eassumption|exact Fm'].
  Qed.

  Lemma print_representatives_docs l :
    print_representatives pi o doc (type_defs doc) = Ok l ->
    exists l', print_representatives pi o doc' (type_defs doc') = Ok l' /\ decls_equiv l l'.
  Proof.
    rewrite !print_representatives_seq. intros H.
    rewrite (seq_res_ext _ (fun d => with_local pi o doc d (fun local => [mk_decl 4 local (d_name d) BNone]))
               (type_defs doc')) by (intros; symmetry; apply with_local_docs).
    destruct (seq_res_perm _ _ _ Htd l H) as (l2 & E2 & P2).
    exists l2. split; [exact E2|]. exists l2. split; [exact P2|apply Forall2_decl_refl].
  Qed.

  (** DESIGN §4 C17 [def_permutation] at the level of the emitted declarations *)
  Lemma print_skeleton_permutation l :
    print_skeleton pi o doc = Ok l ->
    exists l', print_skeleton pi o doc' = Ok l' /\ decls_equiv l l'.
  Proof.
    unfold print_skeleton. generalize targets. intros ts. revert l.
    induction ts as [|[sec t] r IH]; intros l; cbn [print_targets].
    - apply print_representatives_docs.
    - destruct (print_defs pi o doc sec t (type_defs doc)) as [a|e] eqn:Ea; [|discriminate].
      destruct (print_targets pi o doc r) as [b|e] eqn:Eb; [|discriminate].
      intros H; inversion H; subst l.
      destruct (print_defs_docs sec t a Ea) as (a' & -> & Qa).
      destruct (IH b eq_refl) as (b' & -> & Qb).
      exists (a' ++ b'). split; [reflexivity|now apply decls_equiv_app].
  Qed.
End SkeletonPermutation.

Example ex_skeleton_permutation_nontrivial :
  exists l l', print_skeleton o_id (from_config o_id ex_cfg) ex_doc = Ok l
            /\ print_skeleton o_id (from_config o_id ex_cfg) (rev ex_doc) = Ok l'
            /\ l <> l' /\ List.length l = 17%nat.
Proof. eexists. eexists. split; [vm_compute; reflexivity|]. split; [vm_compute; reflexivity|]. split; [discriminate|reflexivity]. Qed.

(* ------------------------------------------------------------------------------------------- *)
(** * §I what [holds] checks on the implementation's outputs, proved of the model *)

(** resolver: no extension is left in a resolved document *)
Lemma finish_kinds_no_ext ks xs out : finish_kinds ks xs = Ok out -> Forall (fun d => d_ext d = false) (idefs out).
Proof.
  revert out. induction ks as [|k r IH]; intros out; cbn [finish_kinds].
  - intros H; inversion H; subst. constructor.
  - destruct (into_original_and_extensions (elem_name k) (xs k)) as [l|e]; [|discriminate].
    destruct (finish_kinds r xs) as [t|e]; [|discriminate]. intros H; inversion H; subst.
    unfold idefs. rewrite flat_map_app. apply Forall_app. split; [|now apply IH].
    clear. induction l as [|[o ex] l IH]; [constructor|]. cbn [map flat_map app]. now constructor.
Qed.

Lemma scan_items_dirs its : forall xs dirs xs' dirs',
  scan_items its xs dirs = Ok (xs', dirs') -> idefs dirs = [] -> idefs dirs' = [].
Proof.
  induction its as [|[d|n p] r IH]; intros xs dirs xs' dirs'; cbn [scan_items].
  - intros H; inversion H; subst. auto.
  - destruct (d_ext d); [apply IH|].
    destruct (set_original (elem_name (d_kind d)) (xs (d_kind d)) d); [apply IH|discriminate].
  - intros H Hd. apply (IH _ _ _ _ H). unfold idefs in *. rewrite flat_map_app, Hd. reflexivity.
Qed.

Lemma resolve_no_extension_left its out :
  resolve_schema_extensions its = Ok out -> Forall (fun d => d_ext d = false) (idefs out).
Proof.
  unfold resolve_schema_extensions.
  destruct (scan_items its (fun _ => []) []) as [[xs dirs]|e] eqn:Es; [|discriminate].
  destruct (finish_kinds all_kinds xs) as [t|e] eqn:Ef; [|discriminate].
  intros H; inversion H; subst. unfold idefs. rewrite flat_map_app. fold (idefs dirs). fold (idefs t).
  rewrite (scan_items_dirs its _ _ _ _ Es eq_refl). cbn [app]. now apply (finish_kinds_no_ext all_kinds xs).
Qed.

(** skeleton: every declaration carries the local name the context assigns to its schema name, the
    representatives are exactly the type definitions in document order, and a local name is the schema name or
    its [__tmp_] form *)
Section SkeletonShape.
  Variables (pi : oracle) (o : hmap scfg) (doc : list item).
  Definition decl_ok (sec : N) (d : decl) : Prop :=
    dc_section d = sec /\ hm_get (ctx_local_names pi o doc) (dc_schema d) = Some (dc_local d).

  Lemma with_local_ok sec d body a :
    with_local pi o doc d (fun local => [mk_decl sec local (d_name d) body]) = Ok a -> Forall (decl_ok sec) a.
  Proof.
    unfold with_local. destruct (hm_get (ctx_local_names pi o doc) (d_name d)) as [l|] eqn:E; [|discriminate].
    intros H; inversion H; subst. constructor; [|constructor]. split; [reflexivity|exact E].
  Qed.

  Lemma with_local_ok_fun sec d (body : str -> body) a :
    with_local pi o doc d (fun local => [mk_decl sec local (d_name d) (body local)]) = Ok a -> Forall (decl_ok sec) a.
  Proof.
    unfold with_local. destruct (hm_get (ctx_local_names pi o doc) (d_name d)) as [l|] eqn:E; [|discriminate].
    intros H; inversion H; subst. constructor; [|constructor]. split; [reflexivity|exact E].
  Qed.

  Lemma print_type_decl_ok sec t d a : print_type_decl pi o doc sec t d = Ok a -> Forall (decl_ok sec) a.
  Proof.
    unfold print_type_decl. destruct (d_kind d).
    - intros H; inversion H; constructor.
    - destruct (hm_get (ctx_scalar_types o doc) (d_name d)); [apply with_local_ok|discriminate].
    - destruct (is_input t); [intros H; inversion H; constructor|apply with_local_ok].
    - destruct (is_input t); [intros H; inversion H; constructor|apply with_local_ok].
    - destruct (is_input t); [intros H; inversion H; constructor|apply with_local_ok].
    - apply with_local_ok.
    - destruct (is_input t); [apply with_local_ok|intros H; inversion H; constructor].
  Qed.

  Lemma print_defs_ok sec t ds : forall a, print_defs pi o doc sec t ds = Ok a -> Forall (decl_ok sec) a.
  Proof.
    induction ds as [|d r IH]; intros a; cbn [print_defs]; [intros H; inversion H; constructor|].
    destruct (print_type_decl pi o doc sec t d) as [l|e] eqn:E; [|discriminate].
    destruct (print_defs pi o doc sec t r) as [l'|e]; [|discriminate]. intros H; inversion H; subst.
    apply Forall_app. split; [now apply (print_type_decl_ok sec t d)|now apply IH].
  Qed.

  Lemma print_representatives_shape ds : forall a,
    print_representatives pi o doc ds = Ok a -> Forall (decl_ok 4) a /\ map dc_schema a = map d_name ds.
  Proof.
    induction ds as [|d r IH]; intros a; cbn [print_representatives]; [intros H; inversion H; split; [constructor|reflexivity]|].
    unfold with_local at 1. destruct (hm_get (ctx_local_names pi o doc) (d_name d)) as [l|] eqn:E; [|discriminate].
    destruct (print_representatives pi o doc r) as [l'|e]; [|discriminate]. intros H; inversion H; subst.
    destruct (IH l' eq_refl) as [F M]. split.
    - cbn [app]. constructor; [split; [reflexivity|exact E]|exact F].
    - cbn [app map dc_schema]. now rewrite M.
  Qed.

  Lemma print_targets_shape ts : forall a,
    Forall (fun st => fst st <> 4%N) ts ->
    print_targets pi o doc ts = Ok a ->
    Forall (fun d => decl_ok (dc_section d) d) a
    /\ map dc_schema (filter (fun d => N.eqb (dc_section d) 4) a) = map d_name (type_defs doc).
  Proof.
    induction ts as [|[sec t] r IH]; intros a Hts; cbn [print_targets].
    - intros H. destruct (print_representatives_shape _ _ H) as [F M]. split.
      + eapply Forall_impl; [|exact F]. intros d [E1 E2]. split; [reflexivity|exact E2].
      + rewrite <- M. f_equal. clear - F. induction F as [|d l [E _] _ IH]; [reflexivity|].
        cbn [filter]. rewrite E. cbn. now rewrite IH.
    - inversion Hts as [|? ? Hsec Hr]; subst. cbn [fst] in Hsec.
      destruct (print_defs pi o doc sec t (type_defs doc)) as [l|e] eqn:E; [|discriminate].
      destruct (print_targets pi o doc r) as [l'|e]; [|discriminate]. intros H; inversion H; subst.
      destruct (IH l' Hr eq_refl) as [F M]. pose proof (print_defs_ok sec t _ _ E) as Fl. split.
      + apply Forall_app. split; [|exact F]. eapply Forall_impl; [|exact Fl]. intros d [E1 E2]. split; [reflexivity|exact E2].
      + rewrite filter_app. assert (Z : filter (fun d => N.eqb (dc_section d) 4) l = []).
        { clear - Fl Hsec. induction Fl as [|d l [E1 _] _ IH]; [reflexivity|]. cbn [filter]. rewrite E1.
          destruct (N.eqb_spec sec 4); [contradiction|exact IH]. }
        rewrite Z. exact M.
  Qed.

  Lemma print_skeleton_shape a :
    print_skeleton pi o doc = Ok a ->
    Forall (fun d => hm_get (ctx_local_names pi o doc) (dc_schema d) = Some (dc_local d)) a
    /\ map dc_schema (filter (fun d => N.eqb (dc_section d) 4) a) = map d_name (type_defs doc)
    /\ Forall (fun d => dc_local d = dc_schema d \/ dc_local d = tmp_prefix ++ dc_schema d) a.
  Proof.
    intros H. unfold print_skeleton in H.
    assert (Hts : Forall (fun st : N * target => fst st <> 4%N) targets) by (repeat constructor; discriminate).
    destruct (print_targets_shape targets a Hts H) as [F M].
    assert (F' : Forall (fun d => hm_get (ctx_local_names pi o doc) (dc_schema d) = Some (dc_local d)) a)
      by (eapply Forall_impl; [|exact F]; intros d [_ E]; exact E).
    split; [exact F'|]. split; [exact M|].
    eapply Forall_impl; [|exact F']. intros d E. cbv beta in E.
    apply hm_get_some_in in E. unfold ctx_local_names, make_local_type_names in E. cbv zeta in E.
    (* an entry of a collected list is one of the inserted pairs *)
    assert (G' : forall (k v : str) (l0 : list (str * str)) acc, In (k, v) (hm_extend acc l0) -> In (k, v) acc \/ In (k, v) l0).
    { intros k v. induction l0 as [|[k0 v0] r IH]; intros acc Hin; [now left|]. unfold hm_extend in *. cbn [fold_left fst snd] in Hin.
      destruct (IH _ Hin) as [Hacc|Hr]; [|right; now right].
      clear - Hacc. induction acc as [|[k1 v1] acc IHa]; cbn [hm_insert] in Hacc.
      - destruct Hacc as [E|[]]. right. left. exact E.
      - destruct (str_eqb k1 k0) eqn:Ek.
        + destruct Hacc as [E|Hacc]; [|left; now right]. inversion E; subst. apply str_eqb_eq in Ek. subst. right. now left.
        + destruct Hacc as [E|Hacc]; [left; now left|]. destruct (IHa Hacc) as [H|H]; [left; now right|right; exact H]. }
    assert (G : forall (l : list (str * str)) k v, In (k, v) (hm_collect l) -> In (k, v) l).
    { intros l k v Hin. destruct (G' k v l [] Hin) as [[]|H1]. exact H1. }
    apply G in E. apply in_map_iff in E. destruct E as (d0 & E0 & _). inversion E0; subst.
    destruct (bag_mem _ _); [now right|now left].
  Qed.
End SkeletonShape.
