(** C17 — correspondence ([agree]: model output = implementation output) and the property read on the
    implementation's own outputs ([holds]). *)
From V Require Import Base.Util C17.Model C17.Spec.

(* ---------- boolean equalities ---------- *)
Definition pair_eqb {A B} (ea : A -> A -> bool) (eb : B -> B -> bool) (x y : A * B) : bool :=
  ea (fst x) (fst y) && eb (snd x) (snd y).
Definition strs_eqb := list_eqb str_eqb.

Definition adir_eqb (a b : adir) : bool :=
  str_eqb (ad_name a) (ad_name b)
  && option_eqb (list_eqb (pair_eqb str_eqb (option_eqb str_eqb))) (ad_args a) (ad_args b).

Definition adef_eqb (a b : adef) : bool :=
  Bool.eqb (d_ext a) (d_ext b) && kind_eqb (d_kind a) (d_kind b) && str_eqb (d_name a) (d_name b)
  && pos_eqb (d_pos a) (d_pos b) && strs_eqb (d_ifaces a) (d_ifaces b) && strs_eqb (d_items a) (d_items b)
  && list_eqb adir_eqb (d_dirs a) (d_dirs b).

Definition item_eqb (a b : item) : bool :=
  match a, b with
  | IDef x, IDef y => adef_eqb x y
  | IDirective n p, IDirective m q => str_eqb n m && pos_eqb p q
  | _, _ => false
  end.

Definition xerr_eqb (a b : xerr) : bool :=
  match a, b with
  | DuplicateOriginal e n f s, DuplicateOriginal e' n' f' s' => str_eqb e e' && str_eqb n n' && pos_eqb f f' && pos_eqb s s'
  | NoOriginal e p, NoOriginal e' p' => str_eqb e e' && pos_eqb p p'
  | _, _ => false
  end.

Definition perr_eqb (a b : perr) : bool :=
  match a, b with
  | ScalarTypeNotProvided n, ScalarTypeNotProvided m => str_eqb n m
  | LocalNameMissing n, LocalNameMissing m => str_eqb n m
  | _, _ => false
  end.

Definition res_eqb {E A} (ee : E -> E -> bool) (ea : A -> A -> bool) (x y : res E A) : bool :=
  match x, y with
  | Ok a, Ok b => ea a b
  | Err a, Err b => ee a b
  | _, _ => false
  end.

(** a model declaration matches an observed one; the body is compared where the model predicts it *)
(** what the harness records for one declaration: the text of the right-hand side if there is one *)
Record odecl := mk_odecl { od_section : N; od_local : str; od_schema : str; od_body : option str }.

Definition decl_agree (m : decl) (i : odecl) : bool :=
  N.eqb (dc_section m) (od_section i) && str_eqb (dc_local m) (od_local i) && str_eqb (dc_schema m) (od_schema i)
  && match dc_body m, od_body i with
     | BText b, Some b' => str_eqb b b'
     | BUnion l, Some b' => str_eqb (union_text l) b'
     | BNone, _ => true
     | _, None => false
     end.

Fixpoint list_agree {A B} (f : A -> B -> bool) (a : list A) (b : list B) : bool :=
  match a, b with
  | [], [] => true
  | x :: a', y :: b' => f x y && list_agree f a' b'
  | _, _ => false
  end.

(* ---------- cases ---------- *)
Definition obs_type := (str * (str * N * list str))%type.     (* key, (def name, tag, interfaces) *)

Inductive ogen_result := OResolveError (e : xerr) | OPrintError (e : perr) | OOk (decls : list odecl).

Inductive case :=
| CSchema (defs : list adef) (fid : N) (probes : list str)
          (it0 : list obs_type) (get0 : list (option N))
          (it1 : list obs_type) (get1 : list (option N)) (variants : N)
| CResolve (its : list item) (r : res xerr (list item))
| CSkeleton (cfg : list (str * scfg)) (doc : list item) (r : res perr (list odecl))
| CGen (cfg : list (str * scfg)) (files : list (list item)) (builtins : list item) (r : ogen_result)
| CPlugin (exts : list (str * xext)) (out : option str) (variants : N)
| CDet (how : N) (digests : list N)
| CPerm (v1 v2 : str) (c1 c2 : list (str * N))
| CPermV (v1 v2 : str) (k1 k2 : list (str * N))    (* verdict stage and multiset of diagnostic kinds of two arrangements *)
| CLibCli (lib_ok cli_ok : bool) (d1 d2 : list N).

(** the string maps used by the harness for [Schema::map_str] *)
Definition lower (c : N) : N := if ((65 <=? c) && (c <=? 90))%N then (c + 32)%N else c.
Definition apply_f (fid : N) (x : str) : str :=
  match fid with
  | 0%N => x
  | 1%N => s "X_" ++ x
  | 2%N => match x with [] => [] | c :: _ => [lower c] end
  | _ => s "K"
  end.
Definition f_injective (fid : N) : bool := match fid with 0%N | 1%N => true | _ => false end.
Definition map_def (f : str -> str) (d : adef) : adef :=
  mk_adef (d_ext d) (d_kind d) (f (d_name d)) (d_pos d) (map f (d_ifaces d)) (d_items d) (d_dirs d).

Definition obs_of (kd : str * adef) : obs_type :=
  (fst kd, (d_name (snd kd), p_line (d_pos (snd kd)), d_ifaces (snd kd))).
Definition obs_eqb : obs_type -> obs_type -> bool :=
  pair_eqb str_eqb (pair_eqb (pair_eqb str_eqb N.eqb) strs_eqb).

Definition oracles : list oracle := [o_id; o_rev; o_rot].

Definition schema_of (defs : list adef) : schema adef := build (map (fun d => (d_name d, d)) defs).

Definition agree_schema defs fid probes it0 get0 it1 get1 (variants : N) : bool :=
  let sc := schema_of defs in
  let f := apply_f fid in
  list_eqb obs_eqb (map obs_of (iter_types sc)) it0
  && list_eqb (option_eqb N.eqb) (map (fun p => option_map (fun d => p_line (d_pos d)) (get_type sc p)) probes) get0
  && if f_injective fid then
       forallb (fun pi : oracle =>
         let m := map_str pi f (map_def f) sc in
         list_eqb obs_eqb (map obs_of (iter_types m)) it1
         && list_eqb (option_eqb N.eqb) (map (fun p => option_map (fun d => p_line (d_pos d)) (get_type m p)) probes) get1)
         oracles
       && N.eqb variants 1
     else
       (* the result depends on the iteration order: the key sequence is still determined, and every entry
          must come from one of the colliding definitions *)
       strs_eqb (map fst it1) (map f (sc_names sc))
       && forallb (fun o : obs_type =>
            existsb (fun kd : str * adef => obs_eqb (obs_of (f (fst kd), map_def f (snd kd))) o) (sc_types sc)) it1
       && forallb (fun pg : str * option N =>
            match snd pg with
            | None => negb (existsb (fun kd : str * adef => str_eqb (f (fst kd)) (fst pg)) (sc_types sc))
            | Some t => existsb (fun kd : str * adef => str_eqb (f (fst kd)) (fst pg) && N.eqb (p_line (d_pos (snd kd))) t) (sc_types sc)
            end) (combine probes get1)
       && N.eqb (N.of_nat (length probes)) (N.of_nat (length get1)).

Definition decls_agree (m : list decl) (i : list odecl) : bool := list_agree decl_agree m i.

Definition skeleton_agree (m : res perr (list decl)) (i : res perr (list odecl)) : bool :=
  match m, i with
  | Ok a, Ok b => decls_agree a b
  | Err a, Err b => perr_eqb a b
  | _, _ => false
  end.

Definition gen_agree (m : gen_result) (i : ogen_result) : bool :=
  match m, i with
  | GResolveError a, OResolveError b => xerr_eqb a b
  | GPrintError a, OPrintError b => perr_eqb a b
  | GOk a, OOk b => decls_agree a b
  | _, _ => false
  end.

Definition agree (c : case) : bool :=
  match c with
  | CSchema defs fid probes it0 get0 it1 get1 v => agree_schema defs fid probes it0 get0 it1 get1 v
  | CResolve its r => res_eqb xerr_eqb (list_eqb item_eqb) (resolve_schema_extensions its) r
  | CSkeleton cfg doc r =>
      skeleton_agree (print_skeleton o_id (from_config o_id (hm_collect cfg)) doc) r
      && skeleton_agree (print_skeleton o_rev (from_config o_rot (hm_collect cfg)) doc) r
  | CGen cfg files builtins r =>
      gen_agree (gen o_id o_id (hm_collect cfg) files builtins) r
      && gen_agree (gen o_rot o_rev (hm_collect cfg) files builtins) r
  | CPlugin exts out _ =>
      option_eqb str_eqb (plugin_schema_addition o_id o_id (hm_collect exts)) out
      && option_eqb str_eqb (plugin_schema_addition o_rev o_rot (hm_collect exts)) out
  | CDet _ _ | CPerm _ _ _ _ | CPermV _ _ _ _ | CLibCli _ _ _ _ => true
  end.

(* ---------- the property on the implementation's outputs ---------- *)

Fixpoint all_equal (l : list N) : bool :=
  match l with
  | a :: ((b :: _) as r) => N.eqb a b && all_equal r
  | _ => true
  end.

Fixpoint sorted_by_pos (l : list adef) : bool :=
  match l with
  | a :: ((b :: _) as r) => pos_leb (d_pos a) (d_pos b) && sorted_by_pos r
  | _ => true
  end.

Definition defs_of (its : list item) : list adef :=
  flat_map (fun it => match it with IDef d => [d] | _ => [] end) its.
Definition of_kind (k : kind) (l : list adef) : list adef := filter (fun d => kind_eqb (d_kind d) k) l.
Definition count_items (l : list adef) : nat := fold_right (fun d n => (length (d_items d) + length (d_ifaces d) + length (d_dirs d) + n)%nat) 0%nat l.
Fixpoint str_nodup (l : list str) : bool :=
  match l with [] => true | x :: r => negb (existsb (str_eqb x) r) && str_nodup r end.

Definition holds_resolve (its : list item) (r : res xerr (list item)) : bool :=
  let ins := defs_of its in
  N.eqb (vclass r) (expected_class its) &&
  match r with
  | Ok out =>
      let outs := defs_of out in
      forallb (fun d => negb (d_ext d)) outs
      && forallb (fun k => sorted_by_pos (of_kind k outs) && str_nodup (map d_name (of_kind k outs))) all_kinds
      && Nat.eqb (count_items ins) (count_items outs)
      && Nat.eqb (length (filter (fun d => negb (d_ext d)) ins)) (length outs)
  | Err (DuplicateOriginal e n _ _) =>
      Nat.leb 2 (length (filter (fun d => negb (d_ext d) && str_eqb (elem_name (d_kind d)) e && str_eqb (d_name d) n) ins))
  | Err (NoOriginal e _) =>
      existsb (fun x => d_ext x && str_eqb (elem_name (d_kind x)) e
                        && negb (existsb (fun o => negb (d_ext o) && kind_eqb (d_kind o) (d_kind x) && str_eqb (d_name o) (d_name x)) ins)) ins
  end.

Fixpoint is_prefix (p l : str) : bool :=
  match p, l with
  | [], _ => true
  | a :: p', b :: l' => N.eqb a b && is_prefix p' l'
  | _, [] => false
  end.

(** members of a union text "A | B | C" *)
Fixpoint split_bar (t : str) (cur : str) : list str :=
  match t with
  | [] => [rev cur]
  | 32%N :: 124%N :: 32%N :: r => rev cur :: split_bar r []
  | c :: r => split_bar r (c :: cur)
  end.

Definition same_set (a b : list str) : bool :=
  forallb (fun x => existsb (str_eqb x) b) a && forallb (fun x => existsb (str_eqb x) a) b.

Definition holds_skeleton (doc : list item) (r : res perr (list odecl)) : bool :=
  match r with
  | Err _ => true
  | Ok decls =>
      let tds := type_defs doc in
      (* representatives: every type definition once, in document order *)
      strs_eqb (map od_schema (filter (fun d => N.eqb (od_section d) 4) decls)) (map d_name tds)
      (* local names: the schema name or its __tmp_ form, and one local name per schema name *)
      && forallb (fun d => str_eqb (od_local d) (od_schema d) || str_eqb (od_local d) (tmp_prefix ++ od_schema d)) decls
      && forallb (fun d => forallb (fun d' => negb (str_eqb (od_schema d) (od_schema d')) || str_eqb (od_local d) (od_local d')) decls) decls
      (* an interface is the union of exactly the objects that list it *)
      && forallb (fun d =>
           match find (fun t => str_eqb (d_name t) (od_schema d)) tds, od_body d with
           | Some t, Some body =>
               match d_kind t with
               | KInterface =>
                   let local n := match find (fun d' => str_eqb (od_schema d') n) decls with Some d' => od_local d' | None => n end in
                   let impl := map (fun o => local (d_name o)) (filter (implements (d_name t)) tds) in
                   if N.eqb (od_section d) 4 then true
                   else match impl with
                        | [] => str_eqb body (s "never")
                        | _ => same_set (split_bar body []) impl
                        end
               | _ => true
               end
           | _, _ => true
           end) decls
  end.

Definition holds (c : case) : bool :=
  match c with
  | CSchema defs fid probes it0 get0 it1 get1 variants =>
      (* iteration follows first insertion; a deterministic result whenever the renaming is injective *)
      strs_eqb (map fst it0) (dedup [] (map d_name defs))
      && (if f_injective fid then N.eqb variants 1 else true)
  | CResolve its r => holds_resolve its r
  | CSkeleton _ doc r => holds_skeleton doc r
  | CGen _ _ _ _ => true
  | CPlugin _ _ variants => N.eqb variants 1          (* the same text whatever the hash order *)
  | CDet _ digests => all_equal digests
  | CPerm v1 v2 c1 c2 =>
      str_eqb v1 v2 && (if str_eqb v1 (s "ok") then list_eqb (pair_eqb str_eqb N.eqb) c1 c2 else true)
  | CPermV v1 v2 k1 k2 => str_eqb v1 v2 && list_eqb (pair_eqb str_eqb N.eqb) k1 k2
  | CLibCli lib_ok cli_ok d1 d2 =>
      Bool.eqb lib_ok cli_ok && (if lib_ok then list_eqb N.eqb d1 d2 else true)
  end.
