(** C17 — the verdict of [check_type_system_document] under a permutation of the definitions.

    C05's model [check_doc] (coq/C05/Model.v, imported read-only) reads the document through four key
    lookups — [first_type] / [first_directive] (the first-wins [Schema]) and [last_type] / [last_directive]
    (the last-wins [DefinitionMap] hash maps) — through its length (fuel), and (since 451006c) walks the
    definitions in order with the names of the non-built-in directive definitions seen so far, reporting a
    second definition of a name ([DuplicatedName]).

    * general form: for ANY permutation of a resolved document with unique type names and unique directive
      names, [Permutation (check_doc doc) (check_doc doc')] — the same diagnostics up to their order;
    * source form (what a reordering of schema files can produce: the user's definitions permuted, the built-in
      definitions appended after them unchanged): the pass/fail VERDICT is the same with NO guard on directive
      names — a directive the user defines twice is rejected in every order, a user directive that redefines a
      built-in always precedes it; with distinct user directive names the diagnostics are again a permutation;
    * the unguarded general form is still false of the MODEL ([check_doc_permutation_refuted]): a permutation
      that moves a built-in-positioned definition across a user definition of the same name changes the
      lookups.  This cannot happen in nitrogql: built-ins are appended after the merged user document
      (cli/src/main.rs extend_loaded_schema) and permuting source definitions never moves them. *)
From V Require Import Base.Util Gql.Ast C05.Model.
From V Require C17.Proofs C17.Denot.
From Coq Require Import Permutation.

Module P := C17.Proofs.
Module D := C17.Denot.

(* ------------------------------------------------------------------------------------------- *)
(** * extensionality helpers *)

Lemma flat_map_ext_in {A B} (f g : A -> list B) l : (forall x, In x l -> f x = g x) -> flat_map f l = flat_map g l.
Proof.
  induction l as [|x r IH]; intros H; [reflexivity|]. cbn [flat_map].
  rewrite (H x (or_introl eq_refl)), IH; [reflexivity|]. intros y Hy. apply H. now right.
Qed.

Lemma fold_left_ext {A B} (f g : A -> B -> A) l : (forall a x, f a x = g a x) -> forall a, fold_left f l a = fold_left g l a.
Proof. intros H. induction l as [|x r IH]; intros a; [reflexivity|]. cbn [fold_left]. now rewrite H, IH. Qed.

Lemma seen_loop_ext {A} (name : A -> str) (body body' : bool -> A -> list cerr) l :
  (forall b x, body b x = body' b x) -> forall seen, seen_loop name body seen l = seen_loop name body' seen l.
Proof. intros H. induction l as [|x r IH]; intros seen; [reflexivity|]. cbn [seen_loop]. now rewrite H, IH. Qed.

Lemma find_app {A} (p : A -> bool) l1 l2 :
  find p (l1 ++ l2) = match find p l1 with Some x => Some x | None => find p l2 end.
Proof. induction l1 as [|x r IH]; [reflexivity|]. cbn [app find]. destruct (p x); [reflexivity|exact IH]. Qed.

(** induction over GraphQL values with the nested lists *)
Section ValueInd.
  Variable Q : value -> Prop.
  Hypotheses (HVar : forall n p, Q (VVar n p)) (HInt : forall p x, Q (VInt p x)) (HFloat : forall p x, Q (VFloat p x))
             (HString : forall p x, Q (VString p x)) (HBool : forall p b, Q (VBool p b)) (HNull : forall p, Q (VNull p))
             (HEnum : forall p x, Q (VEnum p x))
             (HList : forall p vs, Forall Q vs -> Q (VList p vs))
             (HObject : forall p fs, Forall (fun kv => Q (snd kv)) fs -> Q (VObject p fs)).
  Fixpoint value_ind' (v : value) : Q v :=
    match v with
    | VVar n p => HVar n p | VInt p x => HInt p x | VFloat p x => HFloat p x | VString p x => HString p x
    | VBool p b => HBool p b | VNull p => HNull p | VEnum p x => HEnum p x
    | VList p vs => HList p vs ((fix go (l : list value) : Forall Q l :=
                                   match l with [] => Forall_nil _ | x :: r => Forall_cons x (value_ind' x) (go r) end) vs)
    | VObject p fs => HObject p fs ((fix go (l : list (ident * value)) : Forall (fun kv => Q (snd kv)) l :=
                                       match l with [] => Forall_nil _ | x :: r => Forall_cons x (value_ind' (snd x)) (go r) end) fs)
    end.
End ValueInd.

(* ------------------------------------------------------------------------------------------- *)
(** * the checker reads the document through lookups only *)

Section Lookups.
  Variables doc doc' : tsdoc.
  Hypothesis HT : forall n, first_type doc n = first_type doc' n.
  Hypothesis HLT : forall n, last_type doc n = last_type doc' n.
  Hypothesis HD : forall n, first_directive doc n = first_directive doc' n.
  Hypothesis HLD : forall n, last_directive doc n = last_directive doc' n.
  Hypothesis HLen : length doc = length doc'.

  Lemma inout_kind_eq n : inout_kind doc n = inout_kind doc' n.
  Proof. unfold inout_kind. now rewrite HT. Qed.

  Lemma occ_errs_ext (cv cv' : value -> ty -> list cerr) ef l :
    (forall k fv, In (k, fv) l -> forall t, cv fv t = cv' fv t) -> occ_errs cv ef l = occ_errs cv' ef l.
  Proof.
    induction l as [|[k fv] r IH]; intros H; [reflexivity|].
    change (occ_errs cv ef ((k, fv) :: r))
      with ((if str_eqb (iname (iv_name ef)) (iname k) then cv fv (expected_ty ef fv) else []) ++ occ_errs cv ef r).
    change (occ_errs cv' ef ((k, fv) :: r))
      with ((if str_eqb (iname (iv_name ef)) (iname k) then cv' fv (expected_ty ef fv) else []) ++ occ_errs cv' ef r).
    rewrite (H k fv (or_introl eq_refl)), IH; [reflexivity|]. intros k0 fv0 Hin. apply (H k0 fv0). now right.
  Qed.

  Lemma input_object_check_ext (cv cv' : value -> ty -> list cerr) fields fs :
    (forall k fv, In (k, fv) fs -> forall t, cv fv t = cv' fv t) ->
    input_object_check cv fields fs = input_object_check cv' fields fs.
  Proof.
    intros H. unfold input_object_check.
    rewrite (flat_map_ext (fun ef => occ_errs cv ef fs) (fun ef => occ_errs cv' ef fs)); [reflexivity|].
    intros ef. now apply occ_errs_ext.
  Qed.

  Lemma check_named_eq (cv cv' : value -> ty -> list cerr) v t n :
    (forall p fs, v = VObject p fs -> forall k fv, In (k, fv) fs -> forall t0, cv fv t0 = cv' fv t0) ->
    check_named cv doc v t n = check_named cv' doc' v t n.
  Proof.
    intros H. unfold check_named. rewrite <- HT.
    destruct (first_type doc (iname n)) as [td|]; [|reflexivity].
    destruct td; try reflexivity. destruct v; try reflexivity.
    now rewrite (input_object_check_ext cv cv' fields fs (H p0 fs eq_refl)).
  Qed.

  Lemma check_value_unfold d v t :
    check_value d v t =
    match v with
    | VVar name p => [err (UnknownVariable name) p]
    | _ =>
      match t with
      | TNonNull inner => match v with VNull p => [err (TypeMismatch (ty_to_string t)) p] | _ => check_value d v inner end
      | TList _ inner =>
          match v with
          | VList _ vs => flat_map (fun e => check_value d e inner) vs
          | VNull _ => []
          | _ => check_value d v inner
          end
      | TNamed n => check_named (check_value d) d v t n
      end
    end.
  Proof. destruct v; destruct t; reflexivity. Qed.

  Lemma check_value_eq v : forall t, check_value doc v t = check_value doc' v t.
  Proof.
    induction v using value_ind'; intros t;
      induction t as [tn0|inner IHt|p1 inner IHt]; rewrite (check_value_unfold doc), (check_value_unfold doc');
      try reflexivity; try exact IHt;
      try (apply check_named_eq; intros p2 fs2 E; discriminate E).
    - (* list value against a list type *)
      apply flat_map_ext_in. intros e He. rewrite Forall_forall in H. now apply H.
    - (* object literal against a named type *)
      apply check_named_eq. intros p2 fs2 E k fv Hin t0. inversion E; subst.
      rewrite Forall_forall in H. apply (H (k, fv) Hin).
  Qed.

  Lemma arg_errs_eq al apos d : arg_errs doc al apos d = arg_errs doc' al apos d.
  Proof.
    unfold arg_errs. destruct (find_arg (iname (iv_name d)) al); [|reflexivity].
    apply occ_errs_ext. intros k fv _ t. apply check_value_eq.
  Qed.

  Lemma check_arguments_eq ppos pname kind args defs :
    check_arguments doc ppos pname kind args defs = check_arguments doc' ppos pname kind args defs.
  Proof.
    unfold check_arguments. destruct args as [a|]; destruct defs as [|d0 dr]; try reflexivity;
      cbv zeta; f_equal; apply flat_map_ext; intros d; apply arg_errs_eq.
  Qed.

  Lemma check_directives_aux_eq loc ds : forall seen,
    check_directives_aux doc loc seen ds = check_directives_aux doc' loc seen ds.
  Proof.
    induction ds as [|d r IH]; intros seen; [reflexivity|]. cbn [check_directives_aux]. cbv zeta.
    rewrite <- HD. destruct (first_directive doc (iname (dir_name d))) as [def|]; [|now rewrite IH].
    now rewrite check_arguments_eq, IH.
  Qed.

  Lemma check_directives_eq ds loc : check_directives doc ds loc = check_directives doc' ds loc.
  Proof. apply check_directives_aux_eq. Qed.

  Lemma args_def_body_eq dup v : args_def_body doc dup v = args_def_body doc' dup v.
  Proof. unfold args_def_body. cbv zeta. now rewrite inout_kind_eq, check_directives_eq. Qed.

  Lemma check_args_def_eq ivs : check_args_def doc ivs = check_args_def doc' ivs.
  Proof. unfold check_args_def. apply seen_loop_ext. apply args_def_body_eq. Qed.

  Lemma field_body_eq dup f : field_body doc dup f = field_body doc' dup f.
  Proof.
    unfold field_body. cbv zeta. rewrite inout_kind_eq, check_directives_eq.
    destruct (fd_args f); [now rewrite check_args_def_eq|reflexivity].
  Qed.

  Lemma check_fields_eq fs : check_fields doc fs = check_fields doc' fs.
  Proof. unfold check_fields. apply seen_loop_ext. apply field_body_eq. Qed.

  Lemma is_subtype_eq target : forall other, is_subtype doc target other = is_subtype doc' target other.
  Proof.
    induction target as [tn|ti IH|p ti IH]; intros other; cbn [is_subtype].
    - cbv zeta. rewrite <- HT. destruct other as [o|oi|p oi]; try reflexivity. now rewrite <- HT.
    - apply IH.
    - destruct other; try reflexivity. apply IH.
  Qed.

  Lemma check_impl_field_eq iface field imp : check_impl_field doc iface field imp = check_impl_field doc' iface field imp.
  Proof. unfold check_impl_field. cbv zeta. now rewrite is_subtype_eq. Qed.

  Lemma check_valid_implementation_eq o fs impls i iimpls ifs :
    check_valid_implementation doc o fs impls i iimpls ifs = check_valid_implementation doc' o fs impls i iimpls ifs.
  Proof.
    unfold check_valid_implementation. f_equal. apply flat_map_ext. intros f.
    destruct (find_fielddef (iname (fd_name f)) fs); [apply check_impl_field_eq|reflexivity].
  Qed.

  Lemma check_implements_eq sc name fs impls : check_implements doc sc name fs impls = check_implements doc' sc name fs impls.
  Proof.
    unfold check_implements. apply flat_map_ext. intros i.
    destruct (sc && str_eqb (iname name) (iname i)); [reflexivity|]. rewrite <- HLT.
    destruct (last_type doc (iname i)) as [[| | | | |]|]; try reflexivity. apply check_valid_implementation_eq.
  Qed.

  Lemma member_body_eq dup m : member_body doc dup m = member_body doc' dup m.
  Proof. unfold member_body. now rewrite HLT. Qed.

  Lemma enum_value_body_eq dup v : enum_value_body doc dup v = enum_value_body doc' dup v.
  Proof. unfold enum_value_body. now rewrite check_directives_eq. Qed.

  Lemma input_field_body_eq dup f : input_field_body doc dup f = input_field_body doc' dup f.
  Proof. unfold input_field_body. cbv zeta. now rewrite inout_kind_eq, check_directives_eq. Qed.

  Lemma check_typedef_eq t : check_typedef doc t = check_typedef doc' t.
  Proof.
    destruct t; cbn [check_typedef]; rewrite check_directives_eq.
    - reflexivity.
    - now rewrite check_fields_eq, check_implements_eq.
    - now rewrite check_fields_eq, check_implements_eq.
    - unfold check_members. now rewrite (seen_loop_ext iname (member_body doc) (member_body doc') members member_body_eq).
    - unfold check_enum_values. now rewrite (seen_loop_ext _ (enum_value_body doc) (enum_value_body doc') vals enum_value_body_eq).
    - unfold check_input_fields. now rewrite (seen_loop_ext _ (input_field_body doc) (input_field_body doc') fields input_field_body_eq).
  Qed.

  Lemma dit_eq fuel : forall def seen, dit fuel doc def seen = dit fuel doc' def seen.
  Proof.
    induction fuel as [|f IH]; intros def seen; [reflexivity|]. cbn [dit].
    destruct (mem (tname def) seen); [reflexivity|]. cbv zeta.
    destruct def; try reflexivity.
    apply fold_left_ext. intros acc fd. rewrite <- HLT.
    destruct (last_type doc (iname (ty_unwrapped (iv_type fd)))); [now rewrite IH|reflexivity].
  Qed.

  Lemma directives_in_type_eq def : directives_in_type doc def = directives_in_type doc' def.
  Proof. unfold directives_in_type, dit_fuel. now rewrite HLen, dit_eq. Qed.

  Lemma next_of_eq d : next_of doc d = next_of doc' d.
  Proof.
    unfold next_of. apply flat_map_ext. intros iv. cbv zeta. rewrite <- HLT.
    assert (E : match last_type doc (iname (ty_unwrapped (iv_type iv))) with Some td => directives_in_type doc td | None => [] end
              = match last_type doc (iname (ty_unwrapped (iv_type iv))) with Some td => directives_in_type doc' td | None => [] end).
    { destruct (last_type doc (iname (ty_unwrapped (iv_type iv)))); [apply directives_in_type_eq|reflexivity]. }
    rewrite E. apply flat_map_ext. intros dir. now rewrite HLD.
  Qed.

  Lemma next_of_fuel_ok_eq d : next_of_fuel_ok doc d = next_of_fuel_ok doc' d.
  Proof.
    unfold next_of_fuel_ok. apply D.forallb_ext'. intros iv. rewrite <- HLT.
    destruct (last_type doc (iname (ty_unwrapped (iv_type iv)))); [|reflexivity].
    unfold dit_fuel. now rewrite HLen, dit_eq.
  Qed.

  Lemma rec_step_eq self st d : rec_step doc self st d = rec_step doc' self st d.
  Proof. unfold rec_step. now rewrite next_of_eq. Qed.

  Lemma rec_loop_eq fuel : forall self current st rep seen,
    rec_loop fuel doc self current st rep seen = rec_loop fuel doc' self current st rep seen.
  Proof.
    induction fuel as [|f IH]; intros self current st rep seen; [reflexivity|]. cbn [rec_loop]. cbv zeta.
    rewrite (fold_left_ext (rec_step doc self) (rec_step doc' self) current (rec_step_eq self)).
    destruct (r_next (fold_left (rec_step doc' self) current (mkR st rep seen [] []))); [reflexivity|].
    now rewrite IH.
  Qed.

  Lemma check_directive_def_eq d : check_directive_def doc d = check_directive_def doc' d.
  Proof.
    unfold check_directive_def, check_directive_recursion.
    rewrite next_of_fuel_ok_eq, HLen, rec_loop_eq.
    destruct (dd_args d); [now rewrite check_args_def_eq|reflexivity].
  Qed.

  (** every definition is checked the same way against either document *)
  Lemma check_def_eq d : check_def doc d = check_def doc' d.
  Proof.
    destruct d; cbn [check_def]; try reflexivity.
    - apply check_directives_eq.
    - apply check_typedef_eq.
    - apply check_directive_def_eq.
  Qed.
End Lookups.

(* ------------------------------------------------------------------------------------------- *)
(** * the lookups of a document with unique names do not depend on the order of its definitions *)

Definition tdefs (doc : tsdoc) : list typedef := flat_map (fun d => match d with TSType t => [t] | _ => [] end) doc.
Definition ddefs (doc : tsdoc) : list directivedef := flat_map (fun d => match d with TSDirective x => [x] | _ => [] end) doc.

Lemma first_type_find doc n : first_type doc n = find (fun t => str_eqb (tname t) n) (tdefs doc).
Proof.
  induction doc as [|d r IH]; [reflexivity|]. destruct d; cbn [first_type tdefs flat_map app]; try exact IH.
  cbn [find]. destruct (str_eqb (tname t) n); [reflexivity|exact IH].
Qed.

Lemma last_type_find doc n : last_type doc n = find (fun t => str_eqb (tname t) n) (rev (tdefs doc)).
Proof.
  induction doc as [|d r IH]; [reflexivity|]. cbn [last_type]. rewrite IH.
  change (tdefs (d :: r)) with ((match d with TSType t => [t] | _ => [] end) ++ tdefs r).
  rewrite rev_app_distr, find_app.
  destruct (find (fun t => str_eqb (tname t) n) (rev (tdefs r))); [reflexivity|].
  destruct d; reflexivity.
Qed.

Lemma first_directive_find doc n : first_directive doc n = find (fun x => str_eqb (dname x) n) (ddefs doc).
Proof.
  induction doc as [|d r IH]; [reflexivity|]. destruct d; cbn [first_directive ddefs flat_map app]; try exact IH.
  cbn [find]. destruct (str_eqb (dname d) n); [reflexivity|exact IH].
Qed.

Lemma last_directive_find doc n : last_directive doc n = find (fun x => str_eqb (dname x) n) (rev (ddefs doc)).
Proof.
  induction doc as [|d r IH]; [reflexivity|]. cbn [last_directive]. rewrite IH.
  change (ddefs (d :: r)) with ((match d with TSDirective x => [x] | _ => [] end) ++ ddefs r).
  rewrite rev_app_distr, find_app.
  destruct (find (fun x => str_eqb (dname x) n) (rev (ddefs r))); [reflexivity|].
  destruct d; reflexivity.
Qed.

Lemma find_unique_perm {A} (key : A -> str) (l l' : list A) n :
  Permutation l l' -> NoDup (map key l) ->
  find (fun x => str_eqb (key x) n) l = find (fun x => str_eqb (key x) n) l'.
Proof.
  intros Hp Hnd. apply D.find_perm_unique; [exact Hp|].
  intros x y Hx Hy Ex Ey. apply P.str_eqb_eq in Ex. apply P.str_eqb_eq in Ey.
  apply (D.NoDup_map_inj key l); [exact Hnd|exact Hx|exact Hy|congruence].
Qed.

Section Perm.
  Variables doc doc' : tsdoc.
  Hypothesis Hperm : Permutation doc doc'.
  Hypothesis HndT : NoDup (map tname (tdefs doc)).

  Lemma tdefs_perm : Permutation (tdefs doc) (tdefs doc').
  Proof. unfold tdefs. now apply Permutation_flat_map. Qed.
  Lemma ddefs_perm : Permutation (ddefs doc) (ddefs doc').
  Proof. unfold ddefs. now apply Permutation_flat_map. Qed.

  Lemma first_type_perm n : first_type doc n = first_type doc' n.
  Proof. rewrite !first_type_find. apply find_unique_perm; [apply tdefs_perm|exact HndT]. Qed.

  Lemma last_type_perm n : last_type doc n = last_type doc' n.
  Proof.
    rewrite !last_type_find. apply find_unique_perm.
    - eapply Permutation_trans; [apply Permutation_sym, Permutation_rev|].
      eapply Permutation_trans; [apply tdefs_perm|apply Permutation_rev].
    - eapply Permutation_NoDup; [apply Permutation_map, Permutation_rev|exact HndT].
  Qed.

  Section UniqueDirectives.
    Hypothesis HndD : NoDup (map dname (ddefs doc)).

    Lemma first_directive_perm n : first_directive doc n = first_directive doc' n.
    Proof. rewrite !first_directive_find. apply find_unique_perm; [apply ddefs_perm|exact HndD]. Qed.

    Lemma last_directive_perm n : last_directive doc n = last_directive doc' n.
    Proof.
      rewrite !last_directive_find. apply find_unique_perm.
      - eapply Permutation_trans; [apply Permutation_sym, Permutation_rev|].
        eapply Permutation_trans; [apply ddefs_perm|apply Permutation_rev].
      - eapply Permutation_NoDup; [apply Permutation_map, Permutation_rev|exact HndD].
    Qed.
  End UniqueDirectives.
End Perm.

(* ------------------------------------------------------------------------------------------- *)
(** * the in-order walk with the seen directive names (451006c) *)

(** does the walk report a directive defined twice?  (the [DuplicatedName] part of [check_defs], alone) *)
Fixpoint user_dup (seen : list str) (defs : list tsdef) : bool :=
  match defs with
  | [] => false
  | d :: r => (match dup_directive_errs seen d with [] => false | _ => true end) || user_dup (seen_after seen d) r
  end.

(** the directive definitions that are not positioned as built-in *)
Definition udirs (doc : tsdoc) : list directivedef :=
  flat_map (fun d => match d with TSDirective x => if pbuiltin (dd_pos x) then [] else [x] | _ => [] end) doc.

Lemma user_dup_nonempty doc defs : forall seen, user_dup seen defs = true -> check_defs doc seen defs <> [].
Proof.
  induction defs as [|d r IH]; intros seen H; cbn [user_dup] in H; [discriminate|]. cbn [check_defs].
  destruct (dup_directive_errs seen d) as [|e es]; cbn [orb] in H.
  - cbn [app]. intros E. apply app_eq_nil in E. destruct E as [_ E]. now apply (IH _ H).
  - cbn [app]. discriminate.
Qed.

Lemma user_dup_flat doc defs : forall seen, user_dup seen defs = false -> check_defs doc seen defs = flat_map (check_def doc) defs.
Proof.
  induction defs as [|d r IH]; intros seen H; [reflexivity|]. cbn [user_dup] in H. cbn [check_defs flat_map].
  destruct (dup_directive_errs seen d) as [|e es]; cbn [orb] in H; [|discriminate].
  cbn [app]. now rewrite (IH _ H).
Qed.

Lemma mem_in x l : mem x l = true <-> In x l.
Proof. unfold mem. apply P.existsb_str_in. Qed.

(** no duplicate is reported iff the non-built-in directive names are distinct (and new w.r.t. [seen]) *)
Lemma user_dup_false_iff defs : forall seen,
  user_dup seen defs = false <->
  NoDup (map dname (udirs defs)) /\ (forall x, In x (map dname (udirs defs)) -> ~ In x seen).
Proof.
  induction defs as [|d r IH]; intros seen; cbn [user_dup].
  - split; [intros _; split; [constructor|intros x []]|reflexivity].
  - destruct d as [sd|t|dd|se|te]; cbn [dup_directive_errs seen_after orb];
      try (change (udirs (_ :: r)) with (udirs r); apply IH).
    change (udirs (TSDirective dd :: r)) with ((if pbuiltin (dd_pos dd) then [] else [dd]) ++ udirs r).
    destruct (pbuiltin (dd_pos dd)); cbn [app orb]; [apply IH|].
    destruct (mem (dname dd) seen) eqn:Em; cbn [orb map].
    + split; [discriminate|]. intros [_ H]. exfalso. apply (H (dname dd)); [now left|now apply mem_in].
    + rewrite IH. assert (Hn : ~ In (dname dd) seen) by (intros Hin; apply mem_in in Hin; congruence).
      split.
      * intros [Hnd Hd]. split.
        -- constructor; [|exact Hnd]. intros Hin. apply (Hd _ Hin). now left.
        -- intros x [<-|Hin]; [exact Hn|]. intros Hs. apply (Hd x Hin). now right.
      * intros [Hnd Hd]. inversion Hnd as [|? ? Hni Hnd']; subst. split; [exact Hnd'|].
        intros x Hin [<-|Hs]; [contradiction|]. apply (Hd x); [now right|exact Hs].
Qed.

Lemma udirs_perm doc doc' : Permutation doc doc' -> Permutation (udirs doc) (udirs doc').
Proof. intros H. unfold udirs. now apply Permutation_flat_map. Qed.

Lemma user_dup_perm doc doc' : Permutation doc doc' -> user_dup [] doc = user_dup [] doc'.
Proof.
  intros Hp.
  assert (G : forall a b, Permutation a b -> user_dup [] a = false -> user_dup [] b = false).
  { intros a b Hab H. apply user_dup_false_iff in H. destruct H as [Hnd _]. apply user_dup_false_iff. split.
    - eapply Permutation_NoDup; [apply Permutation_map, udirs_perm, Hab|exact Hnd].
    - intros x _ []. }
  destruct (user_dup [] doc) eqn:E1, (user_dup [] doc') eqn:E2; try reflexivity.
  - now rewrite (G doc' doc (Permutation_sym Hp) E2) in E1.
  - now rewrite (G doc doc' Hp E1) in E2.
Qed.

Lemma udirs_sub doc : forall x, In x (udirs doc) -> In x (ddefs doc).
Proof.
  induction doc as [|d r IH]; intros x; [intros []|]. destruct d as [sd|t|dd|se|te]; try apply IH.
  change (udirs (TSDirective dd :: r)) with ((if pbuiltin (dd_pos dd) then [] else [dd]) ++ udirs r).
  change (ddefs (TSDirective dd :: r)) with (dd :: ddefs r).
  destruct (pbuiltin (dd_pos dd)); cbn [app]; [intros H; right; now apply IH|].
  intros [<-|H]; [now left|right; now apply IH].
Qed.

(** a sub-list of a list without repetition (here: [udirs] within [ddefs]) has none either *)
Lemma udirs_names_nodup doc : NoDup (map dname (ddefs doc)) -> NoDup (map dname (udirs doc)).
Proof.
  induction doc as [|d r IH]; intros H; [constructor|]. destruct d as [sd|t|dd|se|te]; try (apply IH; exact H).
  change (udirs (TSDirective dd :: r)) with ((if pbuiltin (dd_pos dd) then [] else [dd]) ++ udirs r).
  change (ddefs (TSDirective dd :: r)) with (dd :: ddefs r) in H. cbn [map] in H. inversion H as [|? ? Hn Hr]; subst.
  destruct (pbuiltin (dd_pos dd)); cbn [app map]; [now apply IH|]. constructor; [|now apply IH].
  intros Hin. apply Hn. apply in_map_iff in Hin. destruct Hin as (x & E & Hx). apply in_map_iff. exists x.
  split; [exact E|now apply udirs_sub].
Qed.

(* ------------------------------------------------------------------------------------------- *)
(** * general form: any permutation, unique type and directive names *)

Lemma check_doc_permutation doc doc' :
  Permutation doc doc' -> NoDup (map tname (tdefs doc)) -> NoDup (map dname (ddefs doc)) ->
  Permutation (check_doc doc) (check_doc doc').
Proof.
  intros Hp HT HD.
  assert (HD' : NoDup (map dname (ddefs doc')))
    by (eapply Permutation_NoDup; [apply Permutation_map, ddefs_perm, Hp|exact HD]).
  assert (U : user_dup [] doc = false)
    by (apply user_dup_false_iff; split; [now apply udirs_names_nodup|intros x _ []]).
  assert (U' : user_dup [] doc' = false) by (now rewrite <- (user_dup_perm doc doc' Hp)).
  unfold check_doc. rewrite (user_dup_flat doc doc [] U), (user_dup_flat doc' doc' [] U').
  rewrite (flat_map_ext (check_def doc') (check_def doc) (fun d => eq_sym
    (check_def_eq doc doc' (first_type_perm doc doc' Hp HT) (last_type_perm doc doc' Hp HT)
                  (first_directive_perm doc doc' Hp HD) (last_directive_perm doc doc' Hp HD)
                  (Permutation_length Hp) d))).
  now apply Permutation_flat_map.
Qed.

Lemma perm_nil_iff {A} (a b : list A) : Permutation a b -> (a = [] <-> b = []).
Proof.
  intros H. split; intros E.
  - apply Permutation_nil. now rewrite <- E.
  - apply Permutation_nil. rewrite <- E. now apply Permutation_sym.
Qed.

Lemma check_verdict_permutation doc doc' :
  Permutation doc doc' -> NoDup (map tname (tdefs doc)) -> NoDup (map dname (ddefs doc)) ->
  Permutation (check_doc doc) (check_doc doc') /\ (check_doc doc = [] <-> check_doc doc' = []).
Proof.
  intros Hp H1 H2. pose proof (check_doc_permutation doc doc' Hp H1 H2) as Pm.
  split; [exact Pm|now apply perm_nil_iff].
Qed.

(** the multiset of diagnostic kinds, as the harness compares it *)
Lemma check_doc_kinds_permutation {K : Type} (kind : cerr -> K) doc doc' :
  Permutation doc doc' -> NoDup (map tname (tdefs doc)) -> NoDup (map dname (ddefs doc)) ->
  Permutation (map kind (check_doc doc)) (map kind (check_doc doc')).
Proof. intros H1 H2 H3. apply Permutation_map. now apply check_doc_permutation. Qed.

(* ------------------------------------------------------------------------------------------- *)
(** * source form: user definitions permuted, built-ins appended unchanged — no guard on directive names *)

Lemma first_directive_app a b n :
  first_directive (a ++ b) n = match first_directive a n with Some d => Some d | None => first_directive b n end.
Proof.
  induction a as [|d r IH]; [reflexivity|]. destruct d; cbn [app first_directive]; try exact IH.
  destruct (str_eqb (dname d) n); [reflexivity|exact IH].
Qed.

Lemma last_directive_app a b n :
  last_directive (a ++ b) n = match last_directive b n with Some d => Some d | None => last_directive a n end.
Proof.
  induction a as [|d r IH]; cbn [app last_directive].
  - destruct (last_directive b n); reflexivity.
  - rewrite IH. destruct (last_directive b n); [reflexivity|]. reflexivity.
Qed.

Lemma ddefs_app a b : ddefs (a ++ b) = ddefs a ++ ddefs b.
Proof. unfold ddefs. apply flat_map_app. Qed.
Lemma udirs_app a b : udirs (a ++ b) = udirs a ++ udirs b.
Proof. unfold udirs. apply flat_map_app. Qed.

Definition user_positioned (doc : tsdoc) : Prop := forall x, In x (ddefs doc) -> pbuiltin (dd_pos x) = false.

Lemma udirs_user doc : user_positioned doc -> udirs doc = ddefs doc.
Proof.
  induction doc as [|d r IH]; intros H; [reflexivity|]. destruct d as [sd|t|dd|se|te]; try (apply IH; exact H).
  change (udirs (TSDirective dd :: r)) with ((if pbuiltin (dd_pos dd) then [] else [dd]) ++ udirs r).
  change (ddefs (TSDirective dd :: r)) with (dd :: ddefs r).
  rewrite (H dd (or_introl eq_refl)). cbn [app]. f_equal. apply IH. intros x Hx. apply H. now right.
Qed.

Section Source.
  Variables user user' builtins : tsdoc.
  Hypothesis Hperm : Permutation user user'.
  Hypothesis HndT : NoDup (map tname (tdefs (user ++ builtins))).
  (** parsed definitions are never positioned as built-in *)
  Hypothesis Huser : user_positioned user.

  Let Hperm_all : Permutation (user ++ builtins) (user' ++ builtins) := Permutation_app_tail builtins Hperm.

  Lemma source_directive_lookups :
    NoDup (map dname (ddefs user)) ->
    (forall n, first_directive (user ++ builtins) n = first_directive (user' ++ builtins) n)
    /\ (forall n, last_directive (user ++ builtins) n = last_directive (user' ++ builtins) n).
  Proof.
    intros Hnd. split; intros n.
    - rewrite !first_directive_app. now rewrite (first_directive_perm user user' Hperm Hnd n).
    - rewrite !last_directive_app. now rewrite (last_directive_perm user user' Hperm Hnd n).
  Qed.

  (** with distinct user directive names: the same diagnostics up to their order (a user directive may even
      redefine a built-in one: it precedes it in both arrangements) *)
  Lemma check_doc_source_permutation :
    user_dup [] (user ++ builtins) = false ->
    Permutation (check_doc (user ++ builtins)) (check_doc (user' ++ builtins)).
  Proof.
    intros U. pose proof U as U0.
    assert (U' : user_dup [] (user' ++ builtins) = false) by (now rewrite <- (user_dup_perm _ _ Hperm_all)).
    apply user_dup_false_iff in U0. destruct U0 as [Hnd _].
    assert (HndU : NoDup (map dname (ddefs user))).
    { rewrite udirs_app, map_app in Hnd. rewrite <- (udirs_user user Huser).
      clear - Hnd. induction (map dname (udirs user)) as [|x l IH]; [constructor|].
      cbn [app] in Hnd. inversion Hnd as [|? ? Hn Hr]; subst. constructor; [|now apply IH].
      intros Hin. apply Hn. apply in_or_app. now left. }
    destruct (source_directive_lookups HndU) as [HF HL].
    unfold check_doc. rewrite (user_dup_flat _ _ [] U), (user_dup_flat _ _ [] U').
    rewrite (flat_map_ext (check_def (user' ++ builtins)) (check_def (user ++ builtins)) (fun d => eq_sym
      (check_def_eq _ _ (first_type_perm _ _ Hperm_all HndT) (last_type_perm _ _ Hperm_all HndT) HF HL
                    (Permutation_length Hperm_all) d))).
    now apply Permutation_flat_map.
  Qed.

  (** verdict(pi(P)) = verdict(P) for the schema check, no guard on directive names: either some user
      directive is defined twice — rejected in both arrangements — or the diagnostics are a permutation *)
  Lemma check_verdict_source_permutation :
    check_doc (user ++ builtins) = [] <-> check_doc (user' ++ builtins) = [].
  Proof.
    destruct (user_dup [] (user ++ builtins)) eqn:U.
    - assert (U' : user_dup [] (user' ++ builtins) = true) by (now rewrite <- (user_dup_perm _ _ Hperm_all)).
      pose proof (user_dup_nonempty (user ++ builtins) _ [] U) as N.
      pose proof (user_dup_nonempty (user' ++ builtins) _ [] U') as N'.
      unfold check_doc. split; intros E; contradiction.
    - apply perm_nil_iff. now apply check_doc_source_permutation.
  Qed.
End Source.

(* ------------------------------------------------------------------------------------------- *)
(** * examples and the remaining (model-only) counter-example *)

Definition upos (l : N) : pos := mkPos l 0 0 false.
Definition rx_id (x : str) : ident := mkId x pos0.
Definition rx_kw : keyword := mkKw (s "k") pos0.
Definition rx_scalar (n : str) : tsdef := TSType (TDScalar None pos0 (rx_id n) [] rx_kw).
Definition rx_arg (n t : str) : inputvaldef := mkInputVal None pos0 (rx_id n) (TNamed (rx_id t)) None [].
(** directive @d(x: Int) on FIELD_DEFINITION      and      directive @d(y: String) on OBJECT, at position [p] *)
Definition rx_d1 (p : pos) : tsdef :=
  TSDirective (mkDirDef None p (rx_id (s "d")) (Some [rx_arg (s "x") (s "Int")]) None [rx_id (s "FIELD_DEFINITION")] rx_kw).
Definition rx_d2 (p : pos) : tsdef :=
  TSDirective (mkDirDef None p (rx_id (s "d")) (Some [rx_arg (s "y") (s "String")]) None [rx_id (s "OBJECT")] rx_kw).
(** type Query { a: Int @d(x: 1) } *)
Definition rx_query : tsdef :=
  TSType (TDObject None (upos 1) (rx_id (s "Query")) [] []
            [mkFieldDef None (rx_id (s "a")) None (TNamed (rx_id (s "Int")))
               [mkDir (upos 1) (rx_id (s "d")) (Some (mkArgs (upos 1) [(rx_id (s "x"), VInt (upos 1) (s "1"))]))]] rx_kw).
Definition rx_builtins : tsdoc := [rx_scalar (s "Int"); rx_scalar (s "String")].

(** the former finding, now repaired (451006c): a directive the user defines twice is rejected in both orders *)
Example duplicate_directive_rejected_in_both_orders :
  check_doc ([rx_query; rx_d1 (upos 2); rx_d2 (upos 3)] ++ rx_builtins) <> []
  /\ check_doc ([rx_query; rx_d2 (upos 3); rx_d1 (upos 2)] ++ rx_builtins) <> []
  /\ user_dup [] ([rx_query; rx_d1 (upos 2); rx_d2 (upos 3)] ++ rx_builtins) = true.
Proof. split; [vm_compute; discriminate|]. split; [vm_compute; discriminate|vm_compute; reflexivity]. Qed.

(** a user directive that redefines a built-in one: same verdict whatever the order of the user definitions *)
Example source_permutation_nontrivial :
  let user := [rx_query; rx_d1 (upos 2)] in
  let b := rx_builtins ++ [rx_d2 pos0] in
  user_positioned user /\ NoDup (map tname (tdefs (user ++ b))) /\ user_dup [] (user ++ b) = false
  /\ check_doc (user ++ b) = [] /\ check_doc (rev user ++ b) = [].
Proof.
  cbv zeta. split.
  - intros x Hx. vm_compute in Hx. destruct Hx as [<-|[]]. reflexivity.
  - split; [vm_compute; repeat constructor; intros Hc; cbv in Hc; intuition discriminate|].
    split; [vm_compute; reflexivity|]. split; vm_compute; reflexivity.
Qed.

(** model only: a permutation that moves a BUILT-IN-positioned definition across a user definition of the same name
    changes the first/last lookups and with them the verdict.  nitrogql appends the built-ins after the user document,
    so no reordering of source definitions does this. *)
Definition rx_doc : tsdoc := rx_builtins ++ [rx_query; rx_d1 (upos 2); rx_d2 pos0].
Definition rx_doc' : tsdoc := rx_builtins ++ [rx_query; rx_d2 pos0; rx_d1 (upos 2)].

Lemma check_doc_permutation_refuted :
  exists doc doc', Permutation doc doc' /\ NoDup (map tname (tdefs doc))
                   /\ check_doc doc = [] /\ check_doc doc' <> [].
Proof.
  exists rx_doc, rx_doc'. split; [|split; [|split]].
  - unfold rx_doc, rx_doc'. apply Permutation_app_head. apply perm_skip. apply perm_swap.
  - vm_compute. repeat constructor; intros Hc; cbv in Hc; intuition discriminate.
  - vm_compute. reflexivity.
  - vm_compute. discriminate.
Qed.

Definition ok_doc : tsdoc := rx_builtins ++ [rx_query; rx_d2 (upos 2)].
Example check_doc_permutation_nontrivial :
  NoDup (map tname (tdefs ok_doc)) /\ NoDup (map dname (ddefs ok_doc)) /\ Permutation ok_doc (rev ok_doc)
  /\ check_doc ok_doc <> [].
Proof.
  split; [vm_compute; repeat constructor; intros Hc; cbv in Hc; intuition discriminate|].
  split; [vm_compute; repeat constructor; intros Hc; cbv in Hc; intuition discriminate|].
  split; [apply Permutation_rev|]. vm_compute; discriminate.
Qed.

(* ------------------------------------------------------------------------------------------- *)
(** * full statements *)

(** the property for arbitrary permutations of arbitrary documents (built-in-positioned definitions may move) *)
Definition check_verdict_permutation_full : Prop :=
  forall doc doc', Permutation doc doc' -> (check_doc doc = [] <-> check_doc doc' = []).

(** computable guard of the general form: type names and directive names are unique *)
Definition unique_names (doc : tsdoc) : bool :=
  Ts.TsDen.nodup_keys (map tname (tdefs doc)) && Ts.TsDen.nodup_keys (map dname (ddefs doc)).

Lemma check_verdict_permutation_partial doc doc' :
  unique_names doc = true -> Permutation doc doc' ->
  Permutation (check_doc doc) (check_doc doc') /\ (check_doc doc = [] <-> check_doc doc' = []).
Proof.
  intros G Hp. unfold unique_names in G. apply andb_true_iff in G. destruct G as [G1 G2].
  apply check_verdict_permutation; [exact Hp|now apply D.nodup_keys_NoDup|now apply D.nodup_keys_NoDup].
Qed.

(** still false of the model for arbitrary permutations (built-in redefinition moved); see the header *)
Lemma check_verdict_permutation_full_refuted : ~ check_verdict_permutation_full.
Proof.
  intros F. destruct check_doc_permutation_refuted as (doc & doc' & Hp & _ & E & N).
  apply N. now apply (F doc doc' Hp).
Qed.

(** the property as nitrogql can meet it: reorderings of the user's definitions, built-ins appended — holds with
    unique type names only *)
Definition check_verdict_source_permutation_full : Prop :=
  forall user user' builtins,
    Permutation user user' -> NoDup (map tname (tdefs (user ++ builtins))) -> user_positioned user ->
    (check_doc (user ++ builtins) = [] <-> check_doc (user' ++ builtins) = []).

Lemma check_verdict_source_permutation_full_holds : check_verdict_source_permutation_full.
Proof. intros u u' b Hp Hn Hu. now apply check_verdict_source_permutation. Qed.

Example unique_names_nontrivial : unique_names ok_doc = true /\ unique_names rx_doc = false.
Proof. split; vm_compute; reflexivity. Qed.
