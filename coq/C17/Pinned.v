(** Pinned statements of the C17 property theorems: compiled on every check, so a theorem cannot be
    weakened silently. *)
From V Require Import Base.Util Gql.Ast Writer.Wop Ts.TsType Ts.TsDen C17.Sites C17.Model C17.Spec C17.Proofs C17.PluginProofs C17.Table C17.Full C17.Branches C17.Properties.
From V Require Gen.C17_sites_gen C10.Model C10.Spec C01.Model C05.Model C03.Model C17.Denot C17.CheckPerm C17.OpPerm.
From Coq Require Import Permutation Sorting.Sorted.

Check (C17_all_sites_accounted : forallb site_known Gen.C17_sites_gen.scanned_sites = true).
Check (C17_known_sites_all_scanned : forallb (fun kc => site_scanned (fst kc)) known_sites = true).
Check (C17_all_hash_files_accounted : forallb (fun f => existsb (fun kf => str_eqb f (fst kf)) known_hash_files) Gen.C17_sites_gen.hash_mention_files = true).
Check (C17_order_oracle_irrelevant : forall (p1 p2 p1' p2' : oracle) cfg files builtins,
  is_oracle p1 -> is_oracle p2 -> is_oracle p1' -> is_oracle p2' -> NoDup (keys cfg) ->
  gen p1 p2 cfg files builtins = gen p1' p2' cfg files builtins).
Check (C17_from_config_spec : forall (pi : oracle) (cfg : hmap scfg) k,
  is_oracle pi -> NoDup (keys cfg) ->
  hm_get (from_config pi cfg) k =
  match hm_get cfg k with Some c => Some c | None => hm_get builtin_scalar_types k end).
Check (C17_local_names_oracle_irrelevant : forall (pi pi' : oracle) doc st,
  is_oracle pi -> is_oracle pi' -> make_local_type_names pi doc st = make_local_type_names pi' doc st).
Check (C17_iter_types_insertion_order : forall D (items : list (str * D)),
  map fst (iter_types (build items)) = dedup [] (keys items)
  /\ (NoDup (keys items) -> iter_types (build items) = items)).
Check (C17_map_str_oracle_irrelevant : forall D D' (pi pi' : oracle) (f : str -> str) (g : D -> D') (sc : schema D),
  is_oracle pi -> is_oracle pi' -> wf sc -> NoDup (map f (sc_names sc)) ->
  iter_types (map_str pi f g sc) = iter_types (map_str pi' f g sc)
  /\ forall k, get_type (map_str pi f g sc) k = get_type (map_str pi' f g sc) k).
Check (C17_map_str_refuted : exists (sc : schema N) (f : str -> str) (pi pi' : oracle),
    is_oracle pi /\ is_oracle pi' /\ wf sc /\
    get_type (map_str pi f (fun x => x) sc) (s "K") <> get_type (map_str pi' f (fun x => x) sc) (s "K")).
Check (C17_def_permutation : forall doc doc',
  Permutation doc doc' -> NoDup (map d_name (type_defs doc)) ->
  (forall k, get_type (ast_to_type_system doc) k = get_type (ast_to_type_system doc') k)
  /\ Permutation (iter_types (ast_to_type_system doc)) (iter_types (ast_to_type_system doc'))
  /\ (forall i, Permutation (interface_implementers (ast_to_type_system doc) i)
                            (interface_implementers (ast_to_type_system doc') i))
  /\ (forall i1 i2, any_object_implements_both (ast_to_type_system doc) i1 i2
                    = any_object_implements_both (ast_to_type_system doc') i1 i2)).
Check (C17_extension_list_order_irrelevant : forall elem (l l' : xlist) t,
  Permutation l l' ->
  into_original_and_extensions elem l = Ok t ->
  (forall x y, In x t -> In y t ->
     pos_leb (d_pos (fst x)) (d_pos (fst y)) = true -> pos_leb (d_pos (fst y)) (d_pos (fst x)) = true -> x = y) ->
  into_original_and_extensions elem l' = Ok t).
Check (C17_extension_list_sorted : forall elem l t,
  into_original_and_extensions elem l = Ok t ->
  StronglySorted (fun a b => pos_leb (d_pos (fst a)) (d_pos (fst b)) = true) t).
Check (C17_resolve_verdict : forall its,
  vclass (resolve_schema_extensions its) = expected_class its).
Check (C17_resolve_verdict_permutation : forall its its',
  Permutation its its' ->
  vclass (resolve_schema_extensions its) = vclass (resolve_schema_extensions its')).
Check (C17_skeleton_def_permutation : forall (pi : oracle) (o : hmap scfg) (doc doc' : list item),
  is_oracle pi -> Permutation doc doc' -> NoDup (map d_name (type_defs doc)) ->
  forall l, print_skeleton pi o doc = Ok l ->
  exists l', print_skeleton pi o doc' = Ok l' /\ decls_equiv l l').
Check (C17_full_output_oracle_irrelevant : forall (p1 p2 p1' p2' : oracle) cfg meta optional runtime ro plugins doc,
  is_oracle p1 -> is_oracle p2 -> is_oracle p1' -> is_oracle p2' -> NoDup (keys cfg) ->
  full_gen p1 p2 cfg meta optional runtime ro plugins doc = full_gen p1' p2' cfg meta optional runtime ro plugins doc).
Check (C17_full_schema_is_C10_print_schema : forall (p1 p2 : oracle) cfg meta optional runtime doc,
  is_oracle p1 -> is_oracle p2 -> NoDup (keys cfg) ->
  full_schema p1 p2 cfg meta optional runtime doc
  = C10.Model.print_schema
      (C10.Model.mkSOpts (x_scalars (hm_extend builtin_scalar_types cfg)) meta optional runtime) doc).
Check (C17_resolver_map_lookup_only : forall o plugins doc (m : C10.Model.tymap),
  (forall k, assoc k m = assoc k (fold_left (fun acc t => (C10.Model.tname t, C10.Model.resolver_output_type o doc t) :: acc)
                                            (C10.Model.typedefs doc) [])) ->
  C10.Model.bind (resolver_map_from o plugins doc m) (resolver_tail o plugins doc)
  = C10.Model.resolver_structure o plugins doc).
Check (C17_alias_denotation_permutation : forall o doc doc' nss t T body,
  Permutation doc doc' -> C10.Spec.wf_schema o doc = true ->
  C10.Model.schema_decls o doc = C10.Model.Ok nss -> C10.Spec.applicable doc t T = true ->
  C10.Spec.alias_of (C10.Spec.namespace_of nss t) T = Some body ->
  exists nss' body',
    C10.Model.schema_decls o doc' = C10.Model.Ok nss'
    /\ C10.Spec.alias_of (C10.Spec.namespace_of nss' t) T = Some body'
    /\ forall v,
         (In_type (C10.Spec.ns_env (C10.Spec.namespace_of nss t)) body v
          <-> In_type (C10.Spec.ns_env (C10.Spec.namespace_of nss' t)) body' v)
         /\ (NotIn_type (C10.Spec.ns_env (C10.Spec.namespace_of nss t)) body v
             <-> NotIn_type (C10.Spec.ns_env (C10.Spec.namespace_of nss' t)) body' v)).
Check (C17_Ref_permutation : forall doc doc', Permutation doc doc' ->
  nodup_keys (map C10.Model.tname (C10.Model.typedefs doc)) = true ->
  forall o t T v, C10.Spec.Ref o doc t T v = C10.Spec.Ref o doc' t T v).
Check (C17_branch_order_spec : forall fuel S F sels parent objs vars,
  C01.Model.parent_objects S parent = C01.Model.Ok objs ->
  C01.Model.get_boolean_variables fuel F sels = C01.Model.Ok vars ->
  C01.Model.generate_branching_conditions fuel S F sels parent
  = C01.Model.Ok (flat_map (fun o => map (fun a => C01.Model.mkBr o a)
                      (match vars with [] => [[]] | _ => C01.Model.assignments (C01.Model.unique vars) end)) objs)
  /\ NoDup (C01.Model.unique vars) /\ (forall x, In x (C01.Model.unique vars) <-> In x vars)).
Check (C17_unique_first_occurrence : forall l x,
  C01.Model.unique (l ++ [x]) = if C01.Model.mem x l then C01.Model.unique l else C01.Model.unique l ++ [x]).
Check (C17_branching_hashset_id : forall fuel S F sels parent,
  branching_hashset o_id fuel S F sels parent = C01.Model.generate_branching_conditions fuel S F sels parent).
Check (C17_branching_hashset_refuted : exists (pi pi' : oracle), is_oracle pi /\ is_oracle pi' /\
    branching_hashset pi 5 ex_schema [] ex_sels (s "Query") <> branching_hashset pi' 5 ex_schema [] ex_sels (s "Query")
    /\ exists l, branching_hashset pi 5 ex_schema [] ex_sels (s "Query") = C01.Model.Ok l /\ List.length l = 4%nat).
Check (C17_sort_by_key_order_irrelevant : forall V (l l' : hmap V),
  Permutation l l' -> NoDup (keys l) -> sort_leb key_leb l = sort_leb key_leb l').
Check (C17_plugin_schema_addition_oracle_irrelevant : forall (p1 p2 p1' p2' : oracle) (exts : hmap xext),
  is_oracle p1 -> is_oracle p2 -> is_oracle p1' -> is_oracle p2' -> NoDup (keys exts) ->
  plugin_schema_addition p1 p2 exts = plugin_schema_addition p1' p2' exts).
Check (C17_load_schema_extensions_lookup : forall (pi : oracle) (exts : hmap xext) k,
  is_oracle pi -> NoDup (keys exts) ->
  hm_get (load_schema_extensions pi [] exts) k =
  match hm_get exts k with Some e => scalar_extension_of e | None => None end).
Check (C17_get_required_files_spec : forall (pi : oracle) (loaded : hmap (list str)) x,
  is_oracle pi ->
  In x (get_required_files pi loaded) <->
  (exists from imports, In (from, imports) loaded /\ In x imports) /\ hm_mem loaded x = false).
Check (C17_get_required_files_oracle_irrelevant : forall (pi pi' : oracle) (loaded : hmap (list str)),
  is_oracle pi -> is_oracle pi' ->
  Permutation (get_required_files pi loaded) (get_required_files pi' loaded)
  /\ NoDup (get_required_files pi loaded)).
Check (C17_get_required_files_order_refuted : exists (loaded : hmap (list str)) (pi pi' : oracle), is_oracle pi /\ is_oracle pi' /\
    get_required_files pi loaded <> get_required_files pi' loaded).
Check (C17_check_verdict_permutation : forall doc doc',
  Permutation doc doc' ->
  NoDup (map C05.Model.tname (C17.CheckPerm.tdefs doc)) -> NoDup (map C05.Model.dname (C17.CheckPerm.ddefs doc)) ->
  Permutation (C05.Model.check_doc doc) (C05.Model.check_doc doc')
  /\ (C05.Model.check_doc doc = [] <-> C05.Model.check_doc doc' = [])).
Check (C17_check_verdict_permutation_refuted : exists doc doc', Permutation doc doc' /\ NoDup (map C05.Model.tname (C17.CheckPerm.tdefs doc))
                   /\ C05.Model.check_doc doc = [] /\ C05.Model.check_doc doc' <> []).
Check (C17_resolve_no_extension_left : forall its out,
  resolve_schema_extensions its = Ok out -> Forall (fun d => d_ext d = false) (idefs out)).
Check (C17_skeleton_shape : forall (pi : oracle) (o : hmap scfg) (doc : list item) a,
  print_skeleton pi o doc = Ok a ->
  Forall (fun d => hm_get (ctx_local_names pi o doc) (dc_schema d) = Some (dc_local d)) a
  /\ map dc_schema (filter (fun d => N.eqb (dc_section d) 4) a) = map d_name (type_defs doc)
  /\ Forall (fun d => dc_local d = dc_schema d \/ dc_local d = tmp_prefix ++ dc_schema d) a).
Check (C17_check_verdict_permutation_partial : forall doc doc',
  C17.CheckPerm.unique_names doc = true -> Permutation doc doc' ->
  Permutation (C05.Model.check_doc doc) (C05.Model.check_doc doc')
  /\ (C05.Model.check_doc doc = [] <-> C05.Model.check_doc doc' = [])).
Check (C17_check_verdict_permutation_full_refuted : ~ C17.CheckPerm.check_verdict_permutation_full).
Check (C17_operation_check_schema_permutation : forall S S',
  Permutation S S' ->
  NoDup (map C03.Model.tname (C17.OpPerm.tdefs S)) -> NoDup (map C17.OpPerm.dname (C17.OpPerm.ddefs S)) ->
  (List.length (C17.OpPerm.sdefs S) <= 1)%nat ->
  forall D, C03.Model.check_operation_document S D = C03.Model.check_operation_document S' D).
Check (C17_check_verdict_source_permutation : forall user user' builtins,
  Permutation user user' ->
  NoDup (map C05.Model.tname (C17.CheckPerm.tdefs (user ++ builtins))) -> C17.CheckPerm.user_positioned user ->
  (C05.Model.check_doc (user ++ builtins) = [] <-> C05.Model.check_doc (user' ++ builtins) = [])).
Check (C17_check_diagnostics_source_permutation : forall user user' builtins,
  Permutation user user' ->
  NoDup (map C05.Model.tname (C17.CheckPerm.tdefs (user ++ builtins))) -> C17.CheckPerm.user_positioned user ->
  C17.CheckPerm.user_dup [] (user ++ builtins) = false ->
  Permutation (C05.Model.check_doc (user ++ builtins)) (C05.Model.check_doc (user' ++ builtins))).
Check (C17_duplicate_user_directive_rejected : forall doc defs seen,
  C17.CheckPerm.user_dup seen defs = true -> C05.Model.check_defs doc seen defs <> []).
Print Assumptions C17_all_sites_accounted.
Print Assumptions C17_known_sites_all_scanned.
Print Assumptions C17_all_hash_files_accounted.
Print Assumptions C17_order_oracle_irrelevant.
Print Assumptions C17_from_config_spec.
Print Assumptions C17_local_names_oracle_irrelevant.
Print Assumptions C17_iter_types_insertion_order.
Print Assumptions C17_map_str_oracle_irrelevant.
Print Assumptions C17_map_str_refuted.
Print Assumptions C17_def_permutation.
Print Assumptions C17_extension_list_order_irrelevant.
Print Assumptions C17_extension_list_sorted.
Print Assumptions C17_resolve_verdict.
Print Assumptions C17_resolve_verdict_permutation.
Print Assumptions C17_skeleton_def_permutation.
Print Assumptions C17_full_output_oracle_irrelevant.
Print Assumptions C17_full_schema_is_C10_print_schema.
Print Assumptions C17_resolver_map_lookup_only.
Print Assumptions C17_alias_denotation_permutation.
Print Assumptions C17_Ref_permutation.
Print Assumptions C17_branch_order_spec.
Print Assumptions C17_unique_first_occurrence.
Print Assumptions C17_branching_hashset_id.
Print Assumptions C17_branching_hashset_refuted.
Print Assumptions C17_sort_by_key_order_irrelevant.
Print Assumptions C17_plugin_schema_addition_oracle_irrelevant.
Print Assumptions C17_load_schema_extensions_lookup.
Print Assumptions C17_get_required_files_spec.
Print Assumptions C17_get_required_files_oracle_irrelevant.
Print Assumptions C17_get_required_files_order_refuted.
Print Assumptions C17_check_verdict_permutation.
Print Assumptions C17_check_verdict_permutation_refuted.
Print Assumptions C17_resolve_no_extension_left.
Print Assumptions C17_skeleton_shape.
Print Assumptions C17_check_verdict_permutation_partial.
Print Assumptions C17_check_verdict_permutation_full_refuted.
Print Assumptions C17_operation_check_schema_permutation.
Print Assumptions C17_check_verdict_source_permutation.
Print Assumptions C17_check_diagnostics_source_permutation.
Print Assumptions C17_duplicate_user_directive_rejected.
