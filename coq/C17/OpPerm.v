(** C17 — the verdict of [check_operation_document] under a permutation of the SCHEMA definitions.

    C03's model (coq/C03/Model.v, imported read-only) reads the schema through [get_type], [get_directive],
    [root_types] and — in one place, under an [any] — [iter_types].  For a resolved schema with unique type names,
    unique directive names and at most one schema definition these do not depend on the order of the definitions,
    hence the operation check returns the very same list of diagnostics for the schema and for any permutation of it. *)
From V Require Import Base.Util Gql.Ast C03.Model.
From V Require C17.Proofs C17.Denot C17.CheckPerm.
From Coq Require Import Permutation.

Module P := C17.Proofs.
Module D := C17.Denot.
Module Q := C17.CheckPerm.

Section Lookups.
  Variables S S' : tsdoc.
  Hypothesis HG : forall n, get_type S n = get_type S' n.
  Hypothesis HDr : forall n, get_directive S n = get_directive S' n.
  Hypothesis HR : root_types S = root_types S'.
  Hypothesis HI : forall f, existsb f (iter_types S) = existsb f (iter_types S').

  Lemma filter_vals_ext {A} (f g : value -> A) name fs :
    (forall k fv, In (k, fv) fs -> f fv = g fv) -> filter_vals f name fs = filter_vals g name fs.
  Proof.
    induction fs as [|[k fv] r IH]; intros H; [reflexivity|]. cbn [filter_vals].
    rewrite (H k fv (or_introl eq_refl)), IH; [reflexivity|]. intros k0 fv0 Hin. apply (H k0 fv0). now right.
  Qed.

  Lemma io_step_ext (cv cv' : value -> ty -> list err) fs st ef :
    (forall k fv, In (k, fv) fs -> forall t, cv fv t = cv' fv t) -> io_step cv fs st ef = io_step cv' fs st ef.
  Proof.
    intros H. unfold io_step.
    rewrite (filter_vals_ext (fun fv => cv fv (loc_type ef fv)) (fun fv => cv' fv (loc_type ef fv))); [reflexivity|].
    intros k fv Hin. now apply (H k fv).
  Qed.

  Lemma input_object_check_ext (cv cv' : value -> ty -> list err) mism fields fs :
    (forall k fv, In (k, fv) fs -> forall t, cv fv t = cv' fv t) ->
    input_object_check cv mism fields fs = input_object_check cv' mism fields fs.
  Proof.
    intros H. unfold input_object_check.
    rewrite (Q.fold_left_ext (io_step cv fs) (io_step cv' fs) fields (fun st ef => io_step_ext cv cv' fs st ef H)).
    reflexivity.
  Qed.

  Lemma check_named_eq vars (cv cv' : value -> ty -> list err) v t n :
    (forall p fs, v = VObject p fs -> forall k fv, In (k, fv) fs -> forall t0, cv fv t0 = cv' fv t0) ->
    check_named S vars cv v t n = check_named S' vars cv' v t n.
  Proof.
    intros H. unfold check_named. rewrite <- HG.
    destruct (get_type S (iname n)) as [td|]; [|reflexivity].
    destruct td; try reflexivity. destruct v; try reflexivity.
    cbv zeta. now apply input_object_check_ext, (H p0 fs).
  Qed.

  Lemma check_value_unfold T vars v t :
    check_value T vars v t =
    match v with
    | VVar name p => check_variable_value vars name p t
    | _ =>
      match t with
      | TNonNull inner => match v with VNull _ => [err0 (TypeMismatch (ty_show t)) (value_pos v)] | _ => check_value T vars v inner end
      | TList _ inner =>
          match v with
          | VList _ vs => flat_map (fun e => check_value T vars e inner) vs
          | VNull _ => []
          | _ => check_value T vars v inner
          end
      | TNamed n => check_named T vars (check_value T vars) v t n
      end
    end.
  Proof. destruct v; destruct t; reflexivity. Qed.

  Lemma check_value_eq vars v : forall t, check_value S vars v t = check_value S' vars v t.
  Proof.
    induction v using Q.value_ind'; intros t;
      induction t as [tn0|inner IHt|p1 inner IHt]; rewrite (check_value_unfold S), (check_value_unfold S');
      try reflexivity; try exact IHt;
      try (apply check_named_eq; intros p2 fs2 E; discriminate E).
    - apply Q.flat_map_ext_in. intros e He. rewrite Forall_forall in H. now apply H.
    - apply check_named_eq. intros p2 fs2 E k fv Hin t0. inversion E; subst.
      rewrite Forall_forall in H. apply (H (k, fv) Hin).
  Qed.

  Lemma arg_step_eq vars apos args st ad : arg_step S vars apos args st ad = arg_step S' vars apos args st ad.
  Proof.
    unfold arg_step. destruct (filter (fun kv => str_eqb (iname (iv_name ad)) (iname (fst kv))) args); [reflexivity|].
    f_equal. f_equal. apply flat_map_ext. intros kv. apply check_value_eq.
  Qed.

  Lemma check_arguments_eq vars ppos pname pkind args defs :
    check_arguments S vars ppos pname pkind args defs = check_arguments S' vars ppos pname pkind args defs.
  Proof.
    unfold check_arguments. destruct args as [a|]; destruct defs as [|d0 dr]; try reflexivity; cbv zeta;
      rewrite (Q.fold_left_ext _ _ _ (arg_step_eq vars _ _)); reflexivity.
  Qed.

  Lemma check_directives_from_eq vars loc ds : forall seen,
    check_directives_from S vars seen loc ds = check_directives_from S' vars seen loc ds.
  Proof.
    induction ds as [|d r IH]; intros seen; [reflexivity|]. cbn [check_directives_from]. cbv zeta.
    rewrite <- HDr. destruct (get_directive S (iname (dir_name d))); [|now rewrite IH].
    now rewrite check_arguments_eq, IH.
  Qed.

  Lemma check_directives_eq vars loc ds : check_directives S vars loc ds = check_directives S' vars loc ds.
  Proof. apply check_directives_from_eq. Qed.

  Lemma some_member_implements_eq members intf : some_member_implements S members intf = some_member_implements S' members intf.
  Proof.
    induction members as [|m r IH]; [reflexivity|]. cbn [some_member_implements]. rewrite <- HG.
    destruct (match get_type S (iname m) with Some t => object_impls t | None => None end); [|reflexivity].
    destruct (implements l intf); [reflexivity|exact IH].
  Qed.

  Lemma spread_match_eq p root cond : spread_match S p root cond = spread_match S' p root cond.
  Proof.
    destruct root, cond; cbn [spread_match]; try reflexivity;
      try (now rewrite some_member_implements_eq).
    now rewrite HI.
  Qed.

  Section Sel.
    Variables (fm : list fragdef) (vars : option vardefs).
    Variables rec rec' : list str -> typedef -> selset -> list err.
    Hypothesis Hrec : forall seen t ss, rec seen t ss = rec' seen t ss.

    Lemma check_fragment_spread_core_eq seen root p cond ss :
      check_fragment_spread_core S rec seen root p cond ss = check_fragment_spread_core S' rec' seen root p cond ss.
    Proof. unfold check_fragment_spread_core. cbv zeta. now rewrite spread_match_eq, Hrec. Qed.

    Lemma check_selection_eq seen root fields sel :
      check_selection S fm vars rec seen root fields sel = check_selection S' fm vars rec' seen root fields sel.
    Proof.
      destruct sel as [alias name args dirs sub|p name dirs|p tc dirs ss]; cbn [check_selection].
      - unfold check_selection_field.
        destruct (find (fun f => str_eqb (iname (fd_name f)) (iname name)) fields) as [tf|]; [|reflexivity].
        rewrite check_directives_eq, check_arguments_eq, <- HG.
        destruct (get_type S (iname (ty_unwrapped (fd_type tf)))); [|reflexivity].
        destruct sub; [now rewrite Hrec|reflexivity].
      - unfold check_fragment_spread. rewrite check_directives_eq.
        destruct (mem_str (iname name) seen); [reflexivity|].
        destruct (frag_get fm (iname name)) as [target|]; [|reflexivity].
        rewrite check_directives_eq, <- HG.
        destruct (get_type S (iname (fr_cond target))); [|reflexivity].
        now rewrite check_fragment_spread_core_eq.
      - unfold check_inline_fragment. rewrite check_directives_eq.
        destruct tc as [c|]; [|now rewrite Hrec].
        rewrite <- HG. destruct (get_type S (iname c)); [|reflexivity].
        now rewrite check_fragment_spread_core_eq.
    Qed.

    Lemma check_selection_set_body_eq seen root ss :
      check_selection_set_body S fm vars rec seen root ss = check_selection_set_body S' fm vars rec' seen root ss.
    Proof.
      unfold check_selection_set_body. destruct (direct_fields root); [|reflexivity].
      apply flat_map_ext. intros sel. apply check_selection_eq.
    Qed.
  End Sel.

  Lemma check_selection_set_eq fuel : forall fm vars seen root ss,
    check_selection_set fuel S fm vars seen root ss = check_selection_set fuel S' fm vars seen root ss.
  Proof.
    induction fuel as [|f IH]; intros fm vars seen root ss; [reflexivity|]. cbn [check_selection_set].
    apply check_selection_set_body_eq. intros seen0 t ss0. apply IH.
  Qed.

  Lemma check_variables_from_eq vs : forall seen, check_variables_from S seen vs = check_variables_from S' seen vs.
  Proof.
    induction vs as [|v r IH]; intros seen; [reflexivity|]. cbn [check_variables_from]. cbv zeta.
    now rewrite check_directives_eq, <- HG, IH.
  Qed.

  Lemma check_operation_eq fuel fm op : check_operation fuel S fm op = check_operation fuel S' fm op.
  Proof.
    unfold check_operation. cbv zeta. rewrite <- HR.
    destruct (if negb (pbuiltin (r_pos (root_types S))) || match r_query (root_types S) with Some _ => true | None => false end
              then match root_of (root_types S) (op_type op) with
                   | None => Some [mkErr (NoRootType (op_type op)) (op_pos op) [(r_pos (root_types S), RootTypesAreDefinedHere)]]
                   | Some _ => None end
              else None); [reflexivity|].
    rewrite <- HG.
    destruct (get_type S (match root_of (root_types S) (op_type op) with Some i => iname i | None => default_root_name (op_type op) end));
      [|reflexivity].
    rewrite check_directives_eq, check_selection_set_eq.
    destruct (op_vars op) as [vs|]; [|reflexivity]. unfold check_variables_definition. now rewrite check_variables_from_eq.
  Qed.

  Lemma check_fragment_definition_eq f : check_fragment_definition S f = check_fragment_definition S' f.
  Proof. unfold check_fragment_definition. now rewrite HG. Qed.

  Lemma check_definition_eq fuel fm n prev d : check_definition fuel S fm n prev d = check_definition fuel S' fm n prev d.
  Proof.
    destruct d; cbn [check_definition]; [now rewrite check_operation_eq|now rewrite check_fragment_definition_eq|reflexivity].
  Qed.

  Lemma check_definitions_eq fuel fm n defs : forall prev,
    check_definitions fuel S fm n prev defs = check_definitions fuel S' fm n prev defs.
  Proof. induction defs as [|d r IH]; intros prev; [reflexivity|]. cbn [check_definitions]. now rewrite check_definition_eq, IH. Qed.

  Lemma check_unspread_fragment_eq fuel fm f : check_unspread_fragment fuel S fm f = check_unspread_fragment fuel S' fm f.
  Proof.
    unfold check_unspread_fragment. rewrite check_directives_eq, <- HG.
    destruct (get_type S (iname (fr_cond f))) as [[| | | | |]|]; try reflexivity; now rewrite check_selection_set_eq.
  Qed.

  Lemma check_unspread_eq fuel fm defs : forall spread,
    check_unspread fuel S fm spread defs = check_unspread fuel S' fm spread defs.
  Proof.
    induction defs as [|d r IH]; intros spread; [reflexivity|]. cbn [check_unspread].
    destruct d; try apply IH. destruct (mem_str (iname (fr_name f)) spread); [apply IH|].
    now rewrite check_unspread_fragment_eq, IH.
  Qed.

  Lemma check_operation_document_eq D : check_operation_document S D = check_operation_document S' D.
  Proof.
    unfold check_operation_document, check_operation_document_fuel.
    now rewrite check_definitions_eq, check_unspread_eq.
  Qed.
End Lookups.

(* ------------------------------------------------------------------------------------------- *)
(** * the schema lookups under a permutation *)

Definition tdefs (S : tsdoc) : list typedef := flat_map (fun d => match d with TSType t => [t] | _ => [] end) S.
Definition ddefs (S : tsdoc) : list directivedef := flat_map (fun d => match d with TSDirective x => [x] | _ => [] end) S.
Definition sdefs (S : tsdoc) : list schemadef := flat_map (fun d => match d with TSSchema x => [x] | _ => [] end) S.
Definition dname (d : directivedef) : str := iname (dd_name d).

Lemma get_type_find S n : get_type S n = find (fun t => str_eqb (tname t) n) (tdefs S).
Proof.
  induction S as [|d r IH]; [reflexivity|]. destruct d; cbn [get_type tdefs flat_map app]; try exact IH.
  cbn [find]. unfold tname at 1. destruct (str_eqb (iname (typedef_name t)) n); [reflexivity|exact IH].
Qed.

Lemma get_directive_find S n : get_directive S n = find (fun x => str_eqb (dname x) n) (ddefs S).
Proof.
  induction S as [|d r IH]; [reflexivity|]. destruct d; cbn [get_directive ddefs flat_map app]; try exact IH.
  cbn [find]. unfold dname at 1. destruct (str_eqb (iname (dd_name d)) n); [reflexivity|exact IH].
Qed.

Definition root_step (cur : option roots) (sd : schemadef) : option roots :=
  Some (fold_left set_root (sd_ops sd) (match cur with Some c => c | None => mkRoots (sd_pos sd) None None None end)).

Lemma root_types_from_fold S : forall cur, root_types_from cur S = fold_left root_step (sdefs S) cur.
Proof.
  induction S as [|d r IH]; intros cur; [reflexivity|]. destruct d; cbn [root_types_from sdefs flat_map app]; try apply IH.
Qed.

Lemma iter_types_from_nodup S : forall seen,
  NoDup (seen ++ map tname (tdefs S)) -> iter_types_from seen S = tdefs S.
Proof.
  induction S as [|d r IH]; intros seen Hnd; [reflexivity|].
  destruct d; cbn [iter_types_from tdefs flat_map app]; try (apply IH; exact Hnd).
  cbv zeta. cbn [tdefs flat_map app map] in Hnd. fold (tdefs r) in Hnd.
  assert (Hnot : mem_str (iname (typedef_name t)) seen = false).
  { destruct (mem_str (iname (typedef_name t)) seen) eqn:E; [|reflexivity]. exfalso.
    unfold mem_str in E. apply P.existsb_str_in in E. apply NoDup_remove_2 in Hnd. apply Hnd. apply in_or_app. now left. }
  rewrite Hnot. f_equal. apply IH.
  replace ((iname (typedef_name t) :: seen) ++ map tname (tdefs r)) with (iname (typedef_name t) :: seen ++ map tname (tdefs r)) by reflexivity.
  eapply Permutation_NoDup; [|exact Hnd]. apply Permutation_sym, Permutation_middle.
Qed.

Section Perm.
  Variables S S' : tsdoc.
  Hypothesis Hperm : Permutation S S'.
  Hypothesis HndT : NoDup (map tname (tdefs S)).
  Hypothesis HndD : NoDup (map dname (ddefs S)).
  Hypothesis Hone : (length (sdefs S) <= 1)%nat.

  Lemma tdefs_perm : Permutation (tdefs S) (tdefs S').
  Proof. unfold tdefs. now apply Permutation_flat_map. Qed.

  Lemma get_type_perm n : get_type S n = get_type S' n.
  Proof. rewrite !get_type_find. apply Q.find_unique_perm; [apply tdefs_perm|exact HndT]. Qed.

  Lemma get_directive_perm n : get_directive S n = get_directive S' n.
  Proof.
    rewrite !get_directive_find. apply Q.find_unique_perm; [|exact HndD].
    unfold ddefs. now apply Permutation_flat_map.
  Qed.

  Lemma root_types_perm : root_types S = root_types S'.
  Proof.
    unfold root_types. rewrite !root_types_from_fold.
    assert (Hp : Permutation (sdefs S) (sdefs S')) by (unfold sdefs; now apply Permutation_flat_map).
    assert (E : sdefs S = sdefs S').
    { destruct (sdefs S) as [|a [|b r]].
      - apply Permutation_nil in Hp. now rewrite Hp.
      - apply Permutation_length_1_inv in Hp. now rewrite Hp.
      - cbn in Hone. lia. }
    now rewrite E.
  Qed.

  Lemma iter_types_existsb_perm f : existsb f (iter_types S) = existsb f (iter_types S').
  Proof.
    assert (HndT' : NoDup (map tname (tdefs S')))
      by (eapply Permutation_NoDup; [apply Permutation_map, tdefs_perm|exact HndT]).
    unfold iter_types. rewrite !iter_types_from_nodup by assumption.
    apply P.existsb_perm, tdefs_perm.
  Qed.

  (** verdict(pi(P)) = verdict(P) for the operation check: the SAME diagnostics, in the same order *)
  Lemma check_operation_document_schema_permutation D :
    check_operation_document S D = check_operation_document S' D.
  Proof.
    apply check_operation_document_eq;
      [apply get_type_perm|apply get_directive_perm|apply root_types_perm|apply iter_types_existsb_perm].
  Qed.
End Perm.

(* ------------------------------------------------------------------------------------------- *)
(** * example: the guards are satisfiable, the check result is not trivial *)
Definition ox_id (x : str) : ident := mkId x pos0.
Definition ox_kw : keyword := mkKw (s "k") pos0.
Definition ox_schema : tsdoc :=
  [ TSType (TDScalar None pos0 (ox_id (s "Int")) [] ox_kw);
    TSType (TDScalar None pos0 (ox_id (s "String")) [] ox_kw);
    TSDirective (mkDirDef None pos0 (ox_id (s "skip")) None None [ox_id (s "FIELD")] ox_kw);
    TSType (TDObject None pos0 (ox_id (s "Query")) [] []
              [mkFieldDef None (ox_id (s "a")) None (TNamed (ox_id (s "Int"))) []] ox_kw) ].
(** query { a @skip  b } *)
Definition ox_doc : opdoc :=
  mkOpDoc pos0 [DOp (mkOp pos0 Query None None []
    (SelSet pos0 [SField None (ox_id (s "a")) None [mkDir pos0 (ox_id (s "skip")) None] None;
                  SField None (ox_id (s "b")) None [] None]))].

Example op_perm_nontrivial :
  NoDup (map tname (tdefs ox_schema)) /\ NoDup (map dname (ddefs ox_schema)) /\ (length (sdefs ox_schema) <= 1)%nat
  /\ List.length (check_operation_document ox_schema ox_doc) = 1%nat
  /\ check_operation_document ox_schema ox_doc = check_operation_document (rev ox_schema) ox_doc.
Proof.
  split; [vm_compute; repeat constructor; intros Hc; cbv in Hc; intuition discriminate|].
  split; [vm_compute; repeat constructor; intros Hc; cbv in Hc; intuition discriminate|].
  split; [vm_compute; lia|]. split; vm_compute; reflexivity.
Qed.
