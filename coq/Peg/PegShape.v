(** Shapes of pair trees (grammar-independent; for builder-shape safety, C08).

    [shape k sk a e]: a regular expression over rule names that contains every sequence of child pairs the
    expression [e] can produce (rules that record no pair in the context are inlined, at most [k] deep;
    the implicit skip is included).  [shape_sound]: the rule names of the pairs a run produces are a word
    of the shape.  [kids_in_shape]: for every pair of a parse tree, its children are a word of the shape of
    its rule's body.  [post]/[post_sound]: a verified forward analysis of a shape through a deterministic
    automaton over rule names; [parts_step]/[all_step]/[only_step]: the automata of the three ways the
    nitrogql builder reads children (parts!, all_children, only_child); [shape_check_sound]: if the check
    evaluates to true for a rule, every pair of that rule in every parse tree has an accepted child
    sequence. *)
From V Require Import Base.Util Peg.Peg Peg.PegProps.
Set Implicit Arguments.

Section Shape.
Variable R : Type.
Variable g : grammar R.

(** regular expressions over rule names: the possible sequences of child pairs *)
Inductive rx := REps | RSym (r : R) | RSeq (a b : rx) | RAlt (a b : rx) | RStar (a : rx).

Inductive rx_in : rx -> list R -> Prop :=
| In_eps : rx_in REps []
| In_sym r : rx_in (RSym r) [r]
| In_seq a b u v : rx_in a u -> rx_in b v -> rx_in (RSeq a b) (u ++ v)
| In_alt_l a b u : rx_in a u -> rx_in (RAlt a b) u
| In_alt_r a b u : rx_in b u -> rx_in (RAlt a b) u
| In_star_nil a : rx_in (RStar a) []
| In_star_cons a u v : rx_in a u -> rx_in (RStar a) v -> rx_in (RStar a) (u ++ v).

Definition obind {A B} (o : option A) (f : A -> option B) : option B := match o with Some x => f x | None => None end.

(** the shape of the pairs an expression produces; [callf r a] = shape of a call of r under atomicity a,
    [skipx a] = shape of the implicit skip *)
Fixpoint shg (callf : R -> atomicity -> option rx) (skipx : atomicity -> option rx) (sk : bool) (a : atomicity) (e : pexp R) : option rx :=
  let sks := if sk then skipx a else Some REps in
  match e with
  | Lit _ | ILit _ | Range _ _ | Any | Soi | Eoi | NotP _ | AndP _ => Some REps
  | Call r => callf r a
  | Seq x y => obind (shg callf skipx sk a x) (fun sx => obind sks (fun ss => obind (shg callf skipx sk a y) (fun sy =>
                 Some (RSeq sx (RSeq ss sy)))))
  | Alt x y => obind (shg callf skipx sk a x) (fun sx => obind (shg callf skipx sk a y) (fun sy => Some (RAlt sx sy)))
  | Opt x => obind (shg callf skipx sk a x) (fun sx => Some (RAlt sx REps))
  | Star x => obind (shg callf skipx sk a x) (fun sx => obind sks (fun ss =>
                 Some (RAlt (RSeq sx (RStar (RSeq ss sx))) REps)))
  | Plus x => obind (shg callf skipx sk a x) (fun sx => obind sks (fun ss =>
                 Some (RSeq sx (RSeq ss (RAlt (RSeq sx (RStar (RSeq ss sx))) REps)))))
  end.

Definition skip_of (callf : R -> atomicity -> option rx) (a : atomicity) : option rx :=
  match a, skip_exp g with
  | ANon, Some se => shg callf (fun _ => Some REps) false ANon se
  | _, _ => Some REps
  end.

(** [shape k]: silent rules (and rules that record nothing in this context) are inlined, at most [k] deep *)
Fixpoint shape (k : nat) : bool -> atomicity -> pexp R -> option rx :=
  match k with
  | O => shg (fun r a => if rule_records g r a then Some (RSym r) else None) (fun _ => None)
  | S k' =>
      let cf := fun r a => if rule_records g r a then Some (RSym r)
                           else shape k' (body_sk g r) (body_atomicity g r a) (r_exp (g_rule g r)) in
      shg cf (skip_of cf)
  end.

Definition rules_of (ps : list (pair R)) : list R := map (@pair_rule R) ps.

Lemma rules_of_app a b : rules_of (a ++ b) = rules_of a ++ rules_of b.
Proof. apply map_app. Qed.

Lemma obind_some {A B} (o : option A) (f : A -> option B) y : obind o f = Some y -> exists x, o = Some x /\ f x = Some y.
Proof. destruct o as [x|]; [|discriminate]. intros H. exists x. split; [reflexivity|exact H]. Qed.

(** the implicit skip as [run] performs it between sequence elements, for a skipping rule *)
Definition do_skip (fuel : nat) (a : atomicity) (inp : str) (i : N) : res R :=
  match a, skip_exp g with
  | ANon, Some se => run g fuel false ANon se inp i
  | _, _ => Ok (inp, i, [])
  end.

Definition cf_sound (callf : R -> atomicity -> option rx) : Prop :=
  forall fuel sk a r inp i inp' i' ps x,
    run g fuel sk a (Call r) inp i = Ok (inp', i', ps) -> callf r a = Some x -> rx_in x (rules_of ps).
Definition sx_sound (skipx : atomicity -> option rx) : Prop :=
  forall fuel a inp i inp' i' ps x,
    do_skip fuel a inp i = Ok (inp', i', ps) -> skipx a = Some x -> rx_in x (rules_of ps).

Lemma run_skip_eq f sk a inp i :
  match sk, a, skip_exp g with
  | true, ANon, Some se => run g f false ANon se inp i
  | _, _, _ => Ok (inp, i, [])
  end = if sk then do_skip f a inp i else Ok (inp, i, []).
Proof. unfold do_skip. destruct sk, a, (skip_exp g); reflexivity. Qed.

Lemma run_Seq_S f sk a x y inp i :
  run g (S f) sk a (Seq x y) inp i =
  match run g f sk a x inp i with
  | Ok (inp1, i1, p1) =>
      match (if sk then do_skip f a inp1 i1 else Ok (inp1, i1, [])) with
      | Ok (inp2, i2, p2) =>
          match run g f sk a y inp2 i2 with
          | Ok (inp3, i3, p3) => Ok (inp3, i3, p1 ++ p2 ++ p3)
          | Fail => Fail
          | OutOfFuel => OutOfFuel
          end
      | Fail => Fail
      | OutOfFuel => OutOfFuel
      end
  | Fail => Fail
  | OutOfFuel => OutOfFuel
  end.
Proof.
  reflexivity.
Qed.

Lemma reps_S' f sk a e inp i :
  reps g (S f) sk a e inp i =
  match (if sk then do_skip f a inp i else Ok (inp, i, [])) with
  | Ok (inp1, i1, p1) =>
      match run g f sk a e inp1 i1 with
      | Ok (inp2, i2, p2) =>
          match reps g f sk a e inp2 i2 with
          | Ok (inp3, i3, p3) => Ok (inp3, i3, p1 ++ p2 ++ p3)
          | Fail => Fail
          | OutOfFuel => OutOfFuel
          end
      | Fail => Ok (inp, i, [])
      | OutOfFuel => OutOfFuel
      end
  | Fail => Ok (inp, i, [])
  | OutOfFuel => OutOfFuel
  end.
Proof. reflexivity. Qed.

Lemma shg_sound callf skipx sk :
  cf_sound callf -> (sk = true -> sx_sound skipx) ->
  forall fuel,
  (forall a e inp i inp' i' ps x,
      run g fuel sk a e inp i = Ok (inp', i', ps) -> shg callf skipx sk a e = Some x -> rx_in x (rules_of ps)) /\
  (forall a e inp i inp' i' ps sx ss,
      reps g fuel sk a e inp i = Ok (inp', i', ps) -> shg callf skipx sk a e = Some sx ->
      (if sk then skipx a else Some REps) = Some ss -> rx_in (RStar (RSeq ss sx)) (rules_of ps)).
Proof.
  intros Hcf Hsx.
  assert (Hskip : forall f a inp i inp' i' ps ss,
            (if sk then do_skip f a inp i else Ok (inp, i, [])) = Ok (inp', i', ps) ->
            (if sk then skipx a else Some REps) = Some ss -> rx_in ss (rules_of ps)).
  { intros f a inp i inp' i' ps ss H1 H2. destruct sk.
    - eapply (Hsx eq_refl); eassumption.
    - inversion H1; inversion H2; subst. constructor. }
  induction fuel as [|f [IHr IHp]]; [split; intros; discriminate|].
  split.
  - intros a e inp i inp' i' ps x H Hsh. destruct e; cbn [shg] in Hsh.
    1-6: (cbn [run] in H; inversion Hsh; subst;
          repeat match type of H with context [match ?X with _ => _ end] => destruct X; try discriminate H end;
          inversion H; subst; constructor).
    + eapply Hcf; eassumption.
    + rewrite run_Seq_S in H.
      apply obind_some in Hsh. destruct Hsh as [sx [Hx Hsh]]. apply obind_some in Hsh. destruct Hsh as [ss [Hs Hsh]].
      apply obind_some in Hsh. destruct Hsh as [sy [Hy Hsh]]. inversion Hsh; subst x.
      dres H E1. dres H E2. dres H E3. inversion H; subst. rewrite !rules_of_app.
      constructor; [eapply IHr; eassumption|]. constructor; [eapply Hskip; eassumption|eapply IHr; eassumption].
    + cbn [run] in H.
      apply obind_some in Hsh. destruct Hsh as [sx [Hx Hsh]]. apply obind_some in Hsh. destruct Hsh as [sy [Hy Hsh]]. inversion Hsh; subst x.
      dres H E1.
      * inversion H; subst. apply In_alt_l. eapply IHr; eassumption.
      * apply In_alt_r. eapply IHr; eassumption.
    + cbn [run] in H. apply obind_some in Hsh. destruct Hsh as [sx [Hx Hsh]]. inversion Hsh; subst x.
      dres H E1.
      * inversion H; subst. apply In_alt_l. eapply IHr; eassumption.
      * inversion H; subst. apply In_alt_r. constructor.
    + rewrite run_Star_S in H.
      apply obind_some in Hsh. destruct Hsh as [sx [Hx Hsh]]. apply obind_some in Hsh. destruct Hsh as [ss [Hs Hsh]]. inversion Hsh; subst x.
      dres H E1.
      * dres H E2. inversion H; subst. rewrite rules_of_app. apply In_alt_l.
        constructor; [eapply IHr; eassumption|eapply IHp; eassumption].
      * inversion H; subst. apply In_alt_r. constructor.
    + cbn [run] in H. eapply IHr; [exact H|]. cbn [shg].
      apply obind_some in Hsh. destruct Hsh as [sx [Hx Hsh]]. apply obind_some in Hsh. destruct Hsh as [ss [Hs Hsh]]. inversion Hsh; subst x.
      rewrite Hx. cbn [obind]. rewrite Hs. cbn [obind]. reflexivity.
    + cbn [run] in H. inversion Hsh; subst. dres H E1. inversion H; subst. constructor.
    + cbn [run] in H. inversion Hsh; subst. dres H E1. inversion H; subst. constructor.
  - intros a e inp i inp' i' ps sx ss H Hx Hs.
    rewrite reps_S' in H.
    dres H E1.
    + dres H E2.
      * dres H E3. inversion H; subst. rewrite app_assoc, rules_of_app.
        apply In_star_cons; [|eapply IHp; eassumption].
        rewrite rules_of_app. constructor; [eapply Hskip; eassumption|eapply IHr; eassumption].
      * inversion H; subst. constructor.
    + inversion H; subst. constructor.
Qed.

Lemma skip_of_sound callf : cf_sound callf -> sx_sound (skip_of callf).
Proof.
  intros Hcf fuel a inp i inp' i' ps x H Hx. unfold do_skip in H. unfold skip_of in Hx.
  destruct a; try (inversion H; inversion Hx; subst; constructor).
  destruct (skip_exp g) as [se|]; [|inversion H; inversion Hx; subst; constructor].
  eapply (proj1 (@shg_sound callf (fun _ => Some REps) false Hcf (fun E => match Bool.diff_false_true E with end) fuel)); eassumption.
Qed.

Definition cf_level (sh : bool -> atomicity -> pexp R -> option rx) (r : R) (a : atomicity) : option rx :=
  if rule_records g r a then Some (RSym r) else sh (body_sk g r) (body_atomicity g r a) (r_exp (g_rule g r)).

Lemma shape_S k : shape (S k) = shg (cf_level (shape k)) (skip_of (cf_level (shape k))).
Proof. reflexivity. Qed.

Lemma cf_level_sound sh :
  (forall fuel sk a e inp i inp' i' ps x,
      run g fuel sk a e inp i = Ok (inp', i', ps) -> sh sk a e = Some x -> rx_in x (rules_of ps)) ->
  cf_sound (cf_level sh).
Proof.
  intros Hsh fuel sk a r inp i inp' i' ps x H Hx. unfold cf_level in Hx.
  destruct fuel as [|f]; [discriminate|]. cbn [run] in H. dres H E. inversion H; subst.
  destruct (rule_records g r a).
  - inversion Hx; subst. cbn. constructor.
  - eapply Hsh; eassumption.
Qed.

(** soundness of [shape]: the rule names of the pairs a run produces are a word of the shape *)
Theorem shape_sound : forall k fuel sk a e inp i inp' i' ps x,
  run g fuel sk a e inp i = Ok (inp', i', ps) -> shape k sk a e = Some x -> rx_in x (rules_of ps).
Proof.
  induction k as [|k IH]; intros fuel sk a e inp i inp' i' ps x H Hx.
  - cbn [shape] in Hx.
    assert (Hcf : cf_sound (fun r a => if rule_records g r a then Some (RSym r) else None)).
    { apply (@cf_level_sound (fun _ _ _ => None)). intros; discriminate. }
    eapply (proj1 (@shg_sound _ (fun _ => None) sk Hcf (fun _ => _) fuel)); try eassumption.
    Unshelve. intros f0 a0 inp0 i0 inp0' i0' ps0 x0 _ Hn. discriminate.
  - rewrite shape_S in Hx.
    assert (Hcf : cf_sound (cf_level (shape k))) by (apply cf_level_sound; exact IH).
    eapply (proj1 (@shg_sound _ _ sk Hcf (fun _ => skip_of_sound Hcf) fuel)); eassumption.
Qed.


(** every pair of a parse tree: the rule names of its children are a word of the shape of its rule's body *)
Theorem kids_in_shape inp0 k (p : pair R) :
  replayable g inp0 p ->
  exists a, rule_records g (pair_rule p) a = true /\
    forall x, shape k (body_sk g (pair_rule p)) (body_atomicity g (pair_rule p) a) (r_exp (g_rule g (pair_rule p))) = Some x ->
              rx_in x (rules_of (pair_kids p)).
Proof.
  destruct p as [r s e kids]. cbn [replayable pair_rule pair_kids]. intros [f [a [Hrun [Hrec _]]]].
  exists a. split; [exact Hrec|]. intros x Hx. eapply shape_sound; eassumption.
Qed.

(** ** checking a shape against a deterministic automaton over rule names (the builder's pattern) *)
Section Dfa.
Variable step : nat -> R -> nat.

Fixpoint dfa_run (s : nat) (w : list R) : nat :=
  match w with [] => s | r :: w' => dfa_run (step s r) w' end.

Lemma dfa_run_app s u v : dfa_run s (u ++ v) = dfa_run (dfa_run s u) v.
Proof. revert s. induction u as [|r u IH]; intros s; cbn; [reflexivity|apply IH]. Qed.

Definition mem (x : nat) (l : list nat) : bool := existsb (Nat.eqb x) l.
Definition subset (a b : list nat) : bool := forallb (fun x => mem x b) a.
Definition union (a b : list nat) : list nat := a ++ filter (fun x => negb (mem x a)) b.

Lemma mem_In x l : mem x l = true <-> In x l.
Proof.
  unfold mem. rewrite existsb_exists. split.
  - intros [y [Hy He]]. apply Nat.eqb_eq in He. subst. exact Hy.
  - intros H. exists x. split; [exact H|apply Nat.eqb_refl].
Qed.
Lemma subset_incl a b : subset a b = true -> incl a b.
Proof. unfold subset. rewrite forallb_forall. intros H x Hx. apply mem_In. apply H; exact Hx. Qed.
Lemma union_l a b : incl a (union a b).
Proof. intros x Hx. unfold union. apply in_or_app. left; exact Hx. Qed.
Lemma union_r a b : incl b (union a b).
Proof.
  intros x Hx. unfold union. apply in_or_app. destruct (mem x a) eqn:E.
  - left. apply mem_In; exact E.
  - right. apply filter_In. split; [exact Hx|]. rewrite E. reflexivity.
Qed.

(** least set containing S and closed under one more iteration of [f], found within [n] rounds *)
Fixpoint star_iter (n : nat) (f : list nat -> option (list nat)) (S : list nat) : option (list nat) :=
  match n with
  | O => None
  | Datatypes.S n' =>
      match f S with
      | None => None
      | Some T => if subset T S then Some S else star_iter n' f (union S T)
      end
  end.

Fixpoint post (n : nat) (e : rx) (S : list nat) : option (list nat) :=
  match e with
  | REps => Some S
  | RSym r => Some (nodup Nat.eq_dec (map (fun s => step s r) S))
  | RSeq a b => obind (post n a S) (post n b)
  | RAlt a b => obind (post n a S) (fun A => obind (post n b S) (fun B => Some (union A B)))
  | RStar a => star_iter n (post n a) S
  end.

Lemma star_iter_spec n f : forall S S', star_iter n f S = Some S' ->
  incl S S' /\ exists T, f S' = Some T /\ incl T S'.
Proof.
  induction n as [|n IH]; intros S S' H; [discriminate|]. cbn [star_iter] in H.
  destruct (f S) as [T|] eqn:E; [|discriminate].
  destruct (subset T S) eqn:Es.
  - inversion H; subst. split; [apply incl_refl|]. exists T. split; [exact E|apply subset_incl; exact Es].
  - destruct (IH _ _ H) as [Hi Hc]. split; [|exact Hc].
    intros x Hx. apply Hi. apply union_l. exact Hx.
Qed.

Theorem post_sound n : forall e S T, post n e S = Some T ->
  forall w, rx_in e w -> forall s, In s S -> In (dfa_run s w) T.
Proof.
  induction e as [|r|a IHa b IHb|a IHa b IHb|a IHa]; intros S T Hp w Hw s Hs; cbn [post] in Hp.
  - inversion Hp; subst. inversion Hw; subst. exact Hs.
  - inversion Hp; subst. inversion Hw; subst. cbn. apply nodup_In. apply in_map_iff. exists s. split; [reflexivity|exact Hs].
  - apply obind_some in Hp. destruct Hp as [M [Ha Hb]]. inversion Hw; subst. rewrite dfa_run_app.
    eapply IHb; [exact Hb|eassumption|]. eapply IHa; eassumption.
  - apply obind_some in Hp. destruct Hp as [A [Ha Hp]]. apply obind_some in Hp. destruct Hp as [B [Hb Hp]].
    inversion Hp; subst. inversion Hw; subst; [apply union_l; eapply IHa; eassumption|apply union_r; eapply IHb; eassumption].
  - destruct (star_iter_spec _ _ _ Hp) as [Hincl [T' [HT' Hclosed]]].
    assert (Hgen : forall w, rx_in (RStar a) w -> forall s, In s T -> In (dfa_run s w) T).
    { clear w Hw s Hs. intros w Hw. remember (RStar a) as e eqn:Ee. induction Hw; try discriminate.
      - intros s Hs. exact Hs.
      - inversion Ee; subst a0. intros s Hs. rewrite dfa_run_app. apply IHHw2; [reflexivity|].
        apply Hclosed. eapply IHa; eassumption. }
    apply Hgen; [exact Hw|apply Hincl; exact Hs].
Qed.

End Dfa.

(** ** the automata of the builder's three ways of reading children *)
Variable eqb : R -> R -> bool.

(** parts!: slots (optional?, rule), consumed left to right; children after the last slot are ignored.
    State k < n: k slots decided; state n: all decided (accepts anything); state n+1: panic. *)
Section Parts.
Variable slots : list (bool * R).
Definition p_fail : nat := S (length slots).
Fixpoint advance (rem : list (bool * R)) (k : nat) (r : R) : nat :=
  match rem with
  | [] => k
  | (opt, r0) :: rem' => if eqb r r0 then S k else if opt then advance rem' (S k) r else p_fail
  end.
Definition parts_step (k : nat) (r : R) : nat :=
  if Nat.eqb k p_fail then p_fail else advance (skipn k slots) k r.
Definition parts_accept (k : nat) : bool :=
  negb (Nat.eqb k p_fail) && forallb (@fst bool R) (skipn k slots).
End Parts.

(** all_children r0 *)
Definition all_step (r0 : R) (s : nat) (r : R) : nat := if Nat.eqb s 0 && eqb r r0 then 0%nat else 1%nat.
Definition all_accept (s : nat) : bool := Nat.eqb s 0.
(** only_child, the child's rule in [allowed] *)
Definition only_step (allowed : R -> bool) (s : nat) (r : R) : nat := if Nat.eqb s 0 && allowed r then 1%nat else 2%nat.
Definition only_accept (s : nat) : bool := Nat.eqb s 1.

(** the check: every child sequence the grammar can produce for rule [r] (called under [a]) is accepted *)
Definition shape_check (k n : nat) (step : nat -> R -> nat) (accept : nat -> bool) (r : R) (a : atomicity) : bool :=
  match shape k (body_sk g r) (body_atomicity g r a) (r_exp (g_rule g r)) with
  | Some x => match post step n x [0%nat] with Some T => forallb accept T | None => false end
  | None => false
  end.

Theorem shape_check_sound k n step accept inp0 r s e kids :
  replayable g inp0 (Pair r s e kids) ->
  (forall a, rule_records g r a = true -> shape_check k n step accept r a = true) ->
  accept (dfa_run step 0%nat (rules_of kids)) = true.
Proof.
  intros Hrep Hchk. destruct (@kids_in_shape inp0 k _ Hrep) as [a [Hrec Hin]]. cbn [pair_rule pair_kids] in *.
  specialize (Hchk a Hrec). unfold shape_check in Hchk.
  destruct (shape k (body_sk g r) (body_atomicity g r a) (r_exp (g_rule g r))) as [x|]; [|discriminate].
  destruct (post step n x [0%nat]) as [T|] eqn:Ep; [|discriminate].
  rewrite forallb_forall in Hchk. apply Hchk.
  eapply post_sound; [exact Ep|apply Hin; reflexivity|left; reflexivity].
Qed.

End Shape.
