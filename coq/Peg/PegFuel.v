(** Fuel sufficiency for the PEG interpreter of Peg.v, for any grammar that passes a static check.

    The check (all computable, to be evaluated on a concrete grammar by vm_compute):
    - a nullability table [tab] that is closed ([tab_sound]): a rule whose body may succeed without
      consuming is marked;
    - [sd K sk e = Some d]: starting [e], the interpreter recurses at most [d] deep before it consumes a
      character or returns, going through at most [K] nested rule calls at one input position (a
      left-recursive grammar has no such bound: [None]); repetitions have non-nullable bodies;
    - [wf]: every sub-expression of every rule body and of the skip expression has such a bound <= [Dmax].
    Theorem ([fuel_enough], [call_never_out_of_fuel]): with [A >= Dmax + 2], fuel [A * (|inp| + 1)] is
    never exhausted -- by induction on the remaining input length, the call level and the expression. *)
From V Require Import Base.Util Peg.Peg Peg.PegProps.
Set Implicit Arguments.

Section Fuel.
Variable R : Type.
Variable g : grammar R.

(** ** nullability: may the expression succeed without consuming anything? (conservative) *)
Variable tab : R -> bool.

Fixpoint nulb (e : pexp R) : bool :=
  match e with
  | Lit l | ILit l => match l with [] => true | _ :: _ => false end
  | Range _ _ | Any => false
  | Soi | Eoi => true
  | Call r => tab r
  | Seq x y => nulb x && nulb y
  | Alt x y => nulb x || nulb y
  | Opt _ | Star _ | NotP _ | AndP _ => true
  | Plus x => nulb x
  end.

Hypothesis tab_sound : forall r, nulb (r_exp (g_rule g r)) = true -> tab r = true.

Lemma slen_zero l : slen l = 0%N -> l = [].
Proof. destruct l; [reflexivity|]. unfold slen. cbn [length]. lia. Qed.

Lemma nul_sound : forall fuel sk a e inp i inp' i' ps,
  run g fuel sk a e inp i = Ok (inp', i', ps) -> i' = i -> nulb e = true.
Proof.
  induction fuel as [|f IH]; intros sk a e inp i inp' i' ps H Hi; [discriminate|].
  destruct (run_reps_consumed g f) as [Cr Cp].
  assert (Hskip : forall sk a inp i inp' i' ps,
            match sk, a, skip_exp g with
            | true, ANon, Some se => run g f false ANon se inp i
            | _, _, _ => Ok (inp, i, [])
            end = Ok (inp', i', ps) -> (i <= i')%N).
  { intros sk0 a0 inp0 i0 inp0' i0' ps0 H0.
    destruct sk0; [destruct a0; [destruct (skip_exp g) as [se|]; [eapply consumed_le; eapply Cr; exact H0|]|..]|];
      inversion H0; subst; lia. }
  destruct e; cbn [run] in H; cbn [nulb].
  - destruct (strip_prefix l inp); [|discriminate]. inversion H; subst. assert (slen l = 0%N) by lia. rewrite (slen_zero _ H0). reflexivity.
  - destruct (strip_prefix_ci l inp); [|discriminate]. inversion H; subst. assert (slen l = 0%N) by lia. rewrite (slen_zero _ H0). reflexivity.
  - destruct inp as [|c rest]; [discriminate|]. destruct ((lo <=? c)%N && (c <=? hi)%N); [|discriminate]. inversion H; subst. lia.
  - destruct inp as [|c rest]; [discriminate|]. inversion H; subst. lia.
  - reflexivity.
  - reflexivity.
  - dres H E. inversion H; subst. apply tab_sound. eapply IH; [exact E|reflexivity].
  - dres H E1. dres H E2. dres H E3. inversion H; subst.
    pose proof (consumed_le (Cr _ _ _ _ _ _ _ _ E1)). pose proof (Hskip _ _ _ _ _ _ _ E2). pose proof (consumed_le (Cr _ _ _ _ _ _ _ _ E3)).
    rewrite (IH _ _ _ _ _ _ _ _ E1) by lia. rewrite (IH _ _ _ _ _ _ _ _ E3) by lia. reflexivity.
  - dres H E1.
    + inversion H; subst. rewrite (IH _ _ _ _ _ _ _ _ E1 eq_refl). reflexivity.
    + rewrite (IH _ _ _ _ _ _ _ _ H Hi). apply orb_true_r.
  - reflexivity.
  - reflexivity.
  - pose proof (IH _ _ _ _ _ _ _ _ H Hi) as Hn. cbn [nulb] in Hn. apply andb_true_iff in Hn. tauto.
  - reflexivity.
  - reflexivity.
Qed.

(** a successful run never lengthens the input; if the length is unchanged, nothing was consumed *)
Lemma run_length fuel sk a e inp i inp' i' ps :
  run g fuel sk a e inp i = Ok (inp', i', ps) ->
  (length inp' <= length inp)%nat /\ (length inp' = length inp -> i' = i).
Proof.
  intros H. destruct (proj1 (run_reps_consumed g fuel) _ _ _ _ _ _ _ _ H) as [c [Hc Hi]]. subst inp.
  rewrite app_length. split; [lia|]. intros Hl. assert (length c = 0%nat) by lia. lia.
Qed.

Lemma run_shorter fuel sk a e inp i inp' i' ps :
  run g fuel sk a e inp i = Ok (inp', i', ps) -> nulb e = false -> (length inp' < length inp)%nat.
Proof.
  intros H Hn. destruct (run_length _ _ _ _ _ _ H) as [Hle Heq].
  destruct (Nat.eq_dec (length inp') (length inp)) as [E|E]; [|lia].
  assert (nulb e = true) by (eapply nul_sound; [exact H|exact (Heq E)]). congruence.
Qed.

(** ** same-position depth: how deep the interpreter can recurse before it either consumes a character
    or returns.  [callf r] = cost of calling rule r, [skipd] = cost of the implicit skip. *)
Definition omax (a b : option nat) : option nat :=
  match a, b with Some x, Some y => Some (Nat.max x y) | _, _ => None end.

Fixpoint sdg (callf : R -> option nat) (skipd : unit -> option nat) (sk : bool) (e : pexp R) : option nat :=
  match e with
  | Lit _ | ILit _ | Range _ _ | Any | Soi | Eoi => Some 1%nat
  | Call r => callf r
  | Seq x y =>
      if nulb x
      then option_map S (omax (sdg callf skipd sk x) (omax (if sk then skipd tt else Some 0%nat) (sdg callf skipd sk y)))
      else option_map S (sdg callf skipd sk x)
  | Alt x y => option_map S (omax (sdg callf skipd sk x) (sdg callf skipd sk y))
  | Opt x | NotP x | AndP x => option_map S (sdg callf skipd sk x)
  | Star x => if nulb x then None else option_map S (sdg callf skipd sk x)
  | Plus x => if nulb x then None else option_map (fun d => S (S d)) (sdg callf skipd sk x)
  end.

Definition callf_of (sdk : bool -> pexp R -> option nat) (r : R) : option nat :=
  option_map S (sdk (body_sk g r) (r_exp (g_rule g r))).
(** a thunk: only forced where a skipping rule has a nullable sequence head (keeps the computation small) *)
Definition skipd_of (callf : R -> option nat) : unit -> option nat :=
  fun _ => match skip_exp g with Some se => sdg callf (fun _ => Some 0%nat) false se | None => Some 0%nat end.

(** [sd k]: at most [k] nested rule calls at one position (None = deeper, e.g. left recursion) *)
Fixpoint sd (k : nat) : bool -> pexp R -> option nat :=
  match k with
  | O => sdg (fun _ => None) (fun _ => None)
  | S k' => let cf := callf_of (sd k') in sdg cf (skipd_of cf)
  end.

(** ** the static check *)
Variable K Dmax A : nat.
Definition bounded (sk : bool) (e : pexp R) : bool :=
  match sd K sk e with Some d => (d <=? Dmax)%nat | None => false end.
Fixpoint wf (sk : bool) (e : pexp R) : bool :=
  bounded sk e &&
  match e with
  | Seq x y | Alt x y => wf sk x && wf sk y
  | Opt x | NotP x | AndP x => wf sk x
  | Star x => wf sk x && negb (nulb x)
  | Plus x => wf sk x && negb (nulb x) && bounded sk (Star x)
  | _ => true
  end.

Hypothesis HA : (Dmax + 2 <= A)%nat.
Hypothesis Hbodies : forall r, wf (body_sk g r) (r_exp (g_rule g r)) = true.
Hypothesis Hskip : match skip_exp g with Some se => wf false se = true | None => True end.

Lemma wf_bounded sk e : wf sk e = true -> exists d, sd K sk e = Some d /\ (d <= Dmax)%nat.
Proof.
  intros H. destruct e; cbn [wf] in H; apply andb_true_iff in H; destruct H as [H _]; unfold bounded in H;
    (destruct (sd K sk _) as [d|]; [|discriminate]); exists d; (split; [reflexivity|apply Nat.leb_le; exact H]).
Qed.

Definition run_ok (n : nat) : Prop :=
  forall k sk e d, sd k sk e = Some d -> wf sk e = true ->
  forall a inp i fuel, (length inp <= n)%nat -> (A * n + d <= fuel)%nat -> run g fuel sk a e inp i <> OutOfFuel.
Definition reps_ok (n : nat) : Prop :=
  forall sk x, wf sk x = true -> nulb x = false ->
  forall a inp i fuel, (length inp <= n)%nat -> (A * n + Dmax + 1 <= fuel)%nat -> reps g fuel sk a x inp i <> OutOfFuel.


Lemma mul_S n : (A * S n = A + A * n)%nat.
Proof. lia. Qed.

(** one expression, at input length at most [n], given: the facts for shorter inputs, what a rule call
    costs at this level ([callf]) and what the implicit skip costs ([skipd]) *)
Lemma core n (callf : R -> option nat) (skipd : unit -> option nat) (sk : bool) :
  (forall m, (m < n)%nat -> run_ok m /\ reps_ok m) ->
  (forall r dr, callf r = Some dr -> forall sk a inp i fuel,
      (length inp <= n)%nat -> (A * n + dr <= fuel)%nat -> run g fuel sk a (Call r) inp i <> OutOfFuel) ->
  (sk = true -> forall ds se, skipd tt = Some ds -> skip_exp g = Some se -> forall inp i fuel,
      (length inp <= n)%nat -> (A * n + ds <= fuel)%nat -> run g fuel false ANon se inp i <> OutOfFuel) ->
  forall e d, sdg callf skipd sk e = Some d -> wf sk e = true ->
  forall a inp i fuel, (length inp <= n)%nat -> (A * n + d <= fuel)%nat -> run g fuel sk a e inp i <> OutOfFuel.
Proof.
  intros IHn Hcall Hskipd.
  (* the implicit skip after something was consumed *)
  assert (Hskip_small : forall sk a inp1 i1 f,
            (length inp1 < n)%nat -> (A * n <= f)%nat ->
            match sk, a, skip_exp g with
            | true, ANon, Some se => run g f false ANon se inp1 i1
            | _, _, _ => Ok (inp1, i1, [])
            end <> OutOfFuel).
  { intros sk0 a inp1 i1 f Hl Hf. destruct sk0; [|discriminate]. destruct a; try discriminate.
    destruct (skip_exp g) as [se|] eqn:Ese; [|discriminate].
    destruct n as [|m]; [lia|]. destruct (IHn m (Nat.lt_succ_diag_r m)) as [Hr _].
    destruct (wf_bounded _ _ Hskip) as [ds [Hds Hle]].
    eapply (Hr K false se ds Hds Hskip); [lia|]. rewrite mul_S in Hf. lia. }
  induction e as [l|l|lo hi| | | |r|x IHx y IHy|x IHx y IHy|x IHx|x IHx|x IHx|x IHx|x IHx];
    intros d Hsd Hwf a inp i fuel Hlen Hfuel; cbn [sdg] in Hsd; cbn [wf] in Hwf.
  1-6: (destruct fuel as [|f]; [inversion Hsd; subst; lia|]; cbn [run];
        repeat match goal with |- context [match ?X with _ => _ end] => destruct X end; discriminate).
  - (* Call *) eapply Hcall; eassumption.
  - (* Seq *)
    apply andb_true_iff in Hwf. destruct Hwf as [_ Hwf]. apply andb_true_iff in Hwf. destruct Hwf as [Hwx Hwy].
    destruct (sdg callf skipd sk x) as [dx|] eqn:Edx; [|destruct (nulb x); discriminate].
    assert (Hdx : (S dx <= d)%nat).
    { destruct (nulb x); [|inversion Hsd; lia].
      destruct (omax (if sk then skipd tt else Some 0%nat) (sdg callf skipd sk y)) as [m|]; [|discriminate].
      cbn in Hsd. inversion Hsd. lia. }
    destruct fuel as [|f]; [lia|]. cbn [run].
    destruct (run g f sk a x inp i) as [[[inp1 i1] p1]| |] eqn:E1; [|discriminate|exfalso; eapply (IHx dx eq_refl Hwx a inp i f); [exact Hlen|lia|exact E1]].
    destruct (run_length _ _ _ _ _ _ E1) as [Hl1 Hi1].
    destruct (Nat.eq_dec (length inp1) (length inp)) as [Heq|Hne].
    + (* x consumed nothing: it is nullable, so d covers the skip and y *)
      assert (Hnx : nulb x = true) by (eapply nul_sound; [exact E1|exact (Hi1 Heq)]).
      rewrite Hnx in Hsd.
      destruct (if sk then skipd tt else Some 0%nat) as [dsk|] eqn:Edsk; [|discriminate].
      destruct (sdg callf skipd sk y) as [dy|] eqn:Edy; [|discriminate].
      cbn in Hsd. inversion Hsd as [Hd]. clear Hsd.
      match goal with |- context [match ?X with Ok _ => _ | Fail => _ | OutOfFuel => _ end] => destruct X as [[[inp2 i2] p2]| |] eqn:E2 end; [|discriminate|].
      * assert (Hl2 : (length inp2 <= length inp1)%nat).
        { destruct sk; [destruct a; [destruct (skip_exp g); [eapply run_length; exact E2|]|..]|]; inversion E2; subst; lia. }
        destruct (run g f sk a y inp2 i2) as [[[inp3 i3] p3]| |] eqn:E3; try discriminate.
        exfalso. destruct (Nat.eq_dec (length inp2) (length inp)) as [Heq2|Hne2].
        -- eapply (IHy dy eq_refl Hwy a inp2 i2 f); [lia|lia|exact E3].
        -- destruct n as [|m]; [lia|]. destruct (IHn m (Nat.lt_succ_diag_r m)) as [Hr _].
           destruct (wf_bounded _ _ Hwy) as [dy' [Hdy' Hle']].
           eapply (Hr K sk y dy' Hdy' Hwy a inp2 i2 f); [lia|rewrite mul_S in Hfuel; lia|exact E3].
      * exfalso. destruct sk; [|discriminate]. destruct a; try discriminate.
        destruct (skip_exp g) as [se|] eqn:Ese; [|discriminate].
        eapply (Hskipd eq_refl dsk se Edsk eq_refl inp1 i1 f); [lia|lia|exact E2].
    + (* x consumed: everything after it is at a shorter input *)
      assert (Hlt : (length inp1 < n)%nat) by lia.
      match goal with |- context [match ?X with Ok _ => _ | Fail => _ | OutOfFuel => _ end] => destruct X as [[[inp2 i2] p2]| |] eqn:E2 end; [|discriminate|].
      * assert (Hl2 : (length inp2 <= length inp1)%nat).
        { destruct sk; [destruct a; [destruct (skip_exp g); [eapply run_length; exact E2|]|..]|]; inversion E2; subst; lia. }
        destruct (run g f sk a y inp2 i2) as [[[inp3 i3] p3]| |] eqn:E3; try discriminate.
        exfalso. destruct n as [|m]; [lia|]. destruct (IHn m (Nat.lt_succ_diag_r m)) as [Hr _].
        destruct (wf_bounded _ _ Hwy) as [dy' [Hdy' Hle']].
        eapply (Hr K sk y dy' Hdy' Hwy a inp2 i2 f); [lia|rewrite mul_S in Hfuel; lia|exact E3].
      * exfalso. eapply (Hskip_small sk a inp1 i1 f Hlt); [lia|exact E2].
  - (* Alt *)
    apply andb_true_iff in Hwf. destruct Hwf as [_ Hwf]. apply andb_true_iff in Hwf. destruct Hwf as [Hwx Hwy].
    destruct (sdg callf skipd sk x) as [dx|] eqn:Edx; [|discriminate].
    destruct (sdg callf skipd sk y) as [dy|] eqn:Edy; [|discriminate].
    cbn in Hsd. inversion Hsd as [Hd]. clear Hsd.
    destruct fuel as [|f]; [lia|]. cbn [run].
    destruct (run g f sk a x inp i) as [[[inp1 i1] p1]| |] eqn:E1; [discriminate| |exfalso; eapply (IHx dx eq_refl Hwx a inp i f); [exact Hlen|lia|exact E1]].
    eapply (IHy dy eq_refl Hwy a inp i f); [exact Hlen|lia].
  - (* Opt *)
    apply andb_true_iff in Hwf. destruct Hwf as [_ Hwx].
    destruct (sdg callf skipd sk x) as [dx|] eqn:Edx; [|discriminate]. cbn in Hsd. inversion Hsd as [Hd]. clear Hsd.
    destruct fuel as [|f]; [lia|]. cbn [run].
    destruct (run g f sk a x inp i) as [[[inp1 i1] p1]| |] eqn:E1; [discriminate|discriminate|exfalso; eapply (IHx dx eq_refl Hwx a inp i f); [exact Hlen|lia|exact E1]].
  - (* Star *)
    apply andb_true_iff in Hwf. destruct Hwf as [_ Hwf]. apply andb_true_iff in Hwf. destruct Hwf as [Hwx Hnx].
    apply negb_true_iff in Hnx. rewrite Hnx in Hsd.
    destruct (sdg callf skipd sk x) as [dx|] eqn:Edx; [|discriminate]. cbn in Hsd. inversion Hsd as [Hd]. clear Hsd.
    destruct fuel as [|f]; [lia|]. rewrite run_Star_S.
    destruct (run g f sk a x inp i) as [[[inp1 i1] p1]| |] eqn:E1; [|discriminate|exfalso; eapply (IHx dx eq_refl Hwx a inp i f); [exact Hlen|lia|exact E1]].
    pose proof (run_shorter _ _ _ _ _ _ E1 Hnx) as Hlt.
    destruct (reps g f sk a x inp1 i1) as [[[inp2 i2] p2]| |] eqn:E2; try discriminate.
    exfalso. destruct n as [|m]; [lia|]. destruct (IHn m (Nat.lt_succ_diag_r m)) as [_ Hp].
    eapply (Hp sk x Hwx Hnx a inp1 i1 f); [lia|rewrite mul_S in Hfuel; lia|exact E2].
  - (* Plus *)
    apply andb_true_iff in Hwf. destruct Hwf as [_ Hwf]. apply andb_true_iff in Hwf. destruct Hwf as [Hwf Hbs].
    apply andb_true_iff in Hwf. destruct Hwf as [Hwx Hnx].
    apply negb_true_iff in Hnx. rewrite Hnx in Hsd.
    destruct (sdg callf skipd sk x) as [dx|] eqn:Edx; [|discriminate]. cbn in Hsd. inversion Hsd as [Hd]. clear Hsd.
    destruct fuel as [|f]; [lia|]. cbn [run]. destruct f as [|f]; [lia|]. cbn [run].
    destruct (run g f sk a x inp i) as [[[inp1 i1] p1]| |] eqn:E1; [|discriminate|exfalso; eapply (IHx dx eq_refl Hwx a inp i f); [exact Hlen|lia|exact E1]].
    pose proof (run_shorter _ _ _ _ _ _ E1 Hnx) as Hlt.
    match goal with |- context [match ?X with Ok _ => _ | Fail => _ | OutOfFuel => _ end] => destruct X as [[[inp2 i2] p2]| |] eqn:E2 end; [|discriminate|].
    + assert (Hl2 : (length inp2 <= length inp1)%nat).
      { destruct sk; [destruct a; [destruct (skip_exp g); [eapply run_length; exact E2|]|..]|]; inversion E2; subst; lia. }
      destruct (run g f sk a (Star x) inp2 i2) as [[[inp3 i3] p3]| |] eqn:E3; try discriminate.
      exfalso. destruct n as [|m]; [lia|]. destruct (IHn m (Nat.lt_succ_diag_r m)) as [Hr _].
      unfold bounded in Hbs. destruct (sd K sk (Star x)) as [ds|] eqn:Eds; [|discriminate]. apply Nat.leb_le in Hbs.
      assert (Hws : wf sk (Star x) = true).
      { cbn [wf]. unfold bounded. rewrite Eds. rewrite (proj2 (Nat.leb_le _ _) Hbs), Hwx, Hnx. reflexivity. }
      eapply (Hr K sk (Star x) ds Eds Hws a inp2 i2 f); [lia|rewrite mul_S in Hfuel; lia|exact E3].
    + exfalso. eapply (Hskip_small sk a inp1 i1 f); [lia|lia|exact E2].
  - (* NotP *)
    apply andb_true_iff in Hwf. destruct Hwf as [_ Hwx].
    destruct (sdg callf skipd sk x) as [dx|] eqn:Edx; [|discriminate]. cbn in Hsd. inversion Hsd as [Hd]. clear Hsd.
    destruct fuel as [|f]; [lia|]. cbn [run].
    destruct (run g f sk a x inp i) as [[[inp1 i1] p1]| |] eqn:E1; [discriminate|discriminate|exfalso; eapply (IHx dx eq_refl Hwx a inp i f); [exact Hlen|lia|exact E1]].
  - (* AndP *)
    apply andb_true_iff in Hwf. destruct Hwf as [_ Hwx].
    destruct (sdg callf skipd sk x) as [dx|] eqn:Edx; [|discriminate]. cbn in Hsd. inversion Hsd as [Hd]. clear Hsd.
    destruct fuel as [|f]; [lia|]. cbn [run].
    destruct (run g f sk a x inp i) as [[[inp1 i1] p1]| |] eqn:E1; [discriminate|discriminate|exfalso; eapply (IHx dx eq_refl Hwx a inp i f); [exact Hlen|lia|exact E1]].
Qed.


Lemma run_ok_level n :
  (forall m, (m < n)%nat -> run_ok m /\ reps_ok m) -> run_ok n.
Proof.
  intros IHn k. induction k as [|k IHk]; intros sk e d Hsd Hwf a inp i fuel Hlen Hfuel.
  - cbn [sd] in Hsd. eapply (@core n (fun _ => None) (fun _ => None) sk IHn); try eassumption.
    + intros; discriminate.
    + intros; discriminate.
  - cbn [sd] in Hsd.
    assert (Hcall : forall r dr, callf_of (sd k) r = Some dr -> forall sk a inp i fuel,
              (length inp <= n)%nat -> (A * n + dr <= fuel)%nat -> run g fuel sk a (Call r) inp i <> OutOfFuel).
    { intros r dr Hr sk0 a0 inp0 i0 fuel0 Hl0 Hf0. unfold callf_of in Hr.
      destruct (sd k (body_sk g r) (r_exp (g_rule g r))) as [db|] eqn:Edb; [|discriminate]. cbn in Hr. inversion Hr; subst dr.
      destruct fuel0 as [|f0]; [lia|]. cbn [run].
      destruct (run g f0 (body_sk g r) (body_atomicity g r a0) (r_exp (g_rule g r)) inp0 i0) as [[[inp1 i1] p1]| |] eqn:E; try discriminate.
      exfalso. eapply (IHk _ _ _ Edb (Hbodies r) (body_atomicity g r a0) inp0 i0 f0); [exact Hl0|lia|exact E]. }
    eapply (@core n (callf_of (sd k)) (skipd_of (callf_of (sd k))) sk IHn Hcall); try eassumption.
    intros _ ds se Hds Hse inp0 i0 fuel0 Hl0 Hf0. unfold skipd_of in Hds. rewrite Hse in Hds.
    pose proof Hskip as Hsk. rewrite Hse in Hsk.
    eapply (@core n (callf_of (sd k)) (fun _ => Some 0%nat) false IHn Hcall); try eassumption.
    intros; discriminate.
Qed.

Lemma reps_S_eq f sk a x inp i :
  reps g (S f) sk a x inp i =
  match (match sk, a, skip_exp g with
         | true, ANon, Some se => run g f false ANon se inp i
         | _, _, _ => Ok (inp, i, [])
         end) with
  | Ok (inp1, i1, p1) =>
      match run g f sk a x inp1 i1 with
      | Ok (inp2, i2, p2) =>
          match reps g f sk a x inp2 i2 with
          | Ok (inp3, i3, p3) => Ok (inp3, i3, p1 ++ p2 ++ p3)
          | Fail => Fail
          | OutOfFuel => OutOfFuel
          end
      | Fail => Ok (inp, i, [])
      | OutOfFuel => OutOfFuel
      end
  | Fail => Ok (inp, i, [])
  | OutOfFuel => OutOfFuel
  end.
Proof. reflexivity. Qed.

Lemma reps_ok_level n :
  (forall m, (m < n)%nat -> run_ok m /\ reps_ok m) -> run_ok n -> reps_ok n.
Proof.
  intros IHn Hrun sk x Hwx Hnx a.
  (* by induction on the length bound within n: reps recurses on strictly shorter inputs *)
  intros inp i fuel Hlen Hfuel.
  destruct fuel as [|f]; [lia|]. rewrite reps_S_eq.
  destruct (wf_bounded _ _ Hwx) as [dx [Hdx Hdxle]].
  match goal with |- context [match ?X with Ok _ => _ | Fail => _ | OutOfFuel => _ end] => destruct X as [[[inp1 i1] p1]| |] eqn:E1 end; [|discriminate|].
  - assert (Hl1 : (length inp1 <= length inp)%nat).
    { destruct sk; [destruct a; [destruct (skip_exp g); [eapply run_length; exact E1|]|..]|]; inversion E1; subst; lia. }
    destruct (run g f sk a x inp1 i1) as [[[inp2 i2] p2]| |] eqn:E2; [|discriminate|exfalso; eapply (Hrun K sk x dx Hdx Hwx a inp1 i1 f); [lia|lia|exact E2]].
    pose proof (run_shorter _ _ _ _ _ _ E2 Hnx) as Hlt.
    destruct (reps g f sk a x inp2 i2) as [[[inp3 i3] p3]| |] eqn:E3; try discriminate.
    exfalso. destruct n as [|m]; [lia|]. destruct (IHn m (Nat.lt_succ_diag_r m)) as [_ Hp].
    eapply (Hp sk x Hwx Hnx a inp2 i2 f); [lia|rewrite mul_S in Hfuel; lia|exact E3].
  - exfalso. destruct sk; [|discriminate]. destruct a; try discriminate.
    destruct (skip_exp g) as [se|] eqn:Ese; [|discriminate].
    pose proof Hskip as Hsk. cbn in Hsk.
    destruct (wf_bounded _ _ Hsk) as [ds [Hds Hdsle]].
    eapply (Hrun K false se ds Hds Hsk ANon inp i f); [lia|lia|exact E1].
Qed.

Theorem fuel_enough : forall n, run_ok n /\ reps_ok n.
Proof.
  induction n as [n IH] using lt_wf_ind.
  assert (Hr : run_ok n) by (apply run_ok_level; exact IH).
  split; [exact Hr|apply reps_ok_level; assumption].
Qed.

(** the top-level statement: with fuel A * (|inp| + 1) a rule call never runs out of fuel *)
Theorem call_never_out_of_fuel start d :
  sd K true (Call start) = Some d -> (d <= Dmax)%nat ->
  forall inp fuel, (A * (length inp + 1) <= fuel)%nat -> parse_with g fuel start inp <> OutOfFuel.
Proof.
  intros Hd Hle inp fuel Hf. unfold parse_with.
  destruct (run g fuel true ANon (Call start) inp 0) as [[[inp' i'] ps]| |] eqn:E; try discriminate.
  exfalso. destruct (fuel_enough (length inp)) as [Hr _].
  assert (Hwf : wf true (Call start) = true).
  { cbn [wf]. unfold bounded. rewrite Hd. rewrite (proj2 (Nat.leb_le _ _) Hle). reflexivity. }
  eapply (Hr K true (Call start) d Hd Hwf ANon inp 0%N fuel); [lia|nia|exact E].
Qed.

End Fuel.
