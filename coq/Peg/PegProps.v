(** Generic lemmas about the PEG interpreter of Peg.v (any grammar, any input, any fuel):
    - [run_reps_consumed]: a successful run consumes a prefix of its input and advances the offset by
      the length of that prefix;
    - [run_reps_replay] / [parse_replay]: every pair anywhere in the produced forest witnesses a
      successful run of its rule's body, under the rule's own skipping/atomicity regime, on exactly the
      text between the pair's start and end offsets of the whole input.
    These are what turns "the tree pest produced" into facts about the text under each pair. *)
From V Require Import Base.Util Peg.Peg.
Set Implicit Arguments.

Lemma skipn_plus {A} : forall (b a : nat) (l : list A), skipn (a + b) l = skipn a (skipn b l).
Proof.
  induction b as [|b IH]; intros a l.
  - rewrite Nat.add_0_r. reflexivity.
  - rewrite Nat.add_succ_r. destruct l as [|x l]; [destruct a; reflexivity|]. cbn [skipn]. apply IH.
Qed.

Ltac dres H E :=
  match type of H with
  | context [match ?X with Ok _ => _ | Fail => _ | OutOfFuel => _ end] =>
      destruct X as [[[? ?] ?]| |] eqn:E; try discriminate H
  end.

Section Props.
Variable R : Type.
Variable g : grammar R.
Definition consumed (inp : str) (i : N) (inp' : str) (i' : N) : Prop :=
  exists c, inp = c ++ inp' /\ i' = (i + N.of_nat (length c))%N.

Lemma consumed_refl inp i : consumed inp i inp i.
Proof. exists []. split; [reflexivity|]. cbn. lia. Qed.

Lemma consumed_trans a i b j c k : consumed a i b j -> consumed b j c k -> consumed a i c k.
Proof.
  intros [x [Hx Hi]] [y [Hy Hj]]. exists (x ++ y). subst. rewrite app_assoc. split; [reflexivity|].
  rewrite app_length. lia.
Qed.

Lemma consumed_le a i b j : consumed a i b j -> (i <= j)%N.
Proof. intros [x [_ H]]. lia. Qed.

Lemma consumed_one c rest i : consumed (c :: rest) i rest (i + 1).
Proof. exists [c]. split; [reflexivity|]. cbn. lia. Qed.

Lemma strip_prefix_consumed : forall l inp rest i, strip_prefix l inp = Some rest -> consumed inp i rest (i + slen l).
Proof.
  induction l as [|c l IH]; intros inp rest i H; cbn in H.
  - inversion H; subst. exists []. split; [reflexivity|]. unfold slen. cbn. lia.
  - destruct inp as [|d inp]; [discriminate|]. destruct (N.eqb_spec c d) as [->|]; [|discriminate].
    destruct (IH _ _ (i + 1)%N H) as [x [Hx Hi]]. exists (d :: x). subst. split; [reflexivity|].
    unfold slen in *. cbn [length]. lia.
Qed.

Lemma strip_prefix_ci_consumed : forall l inp rest i, strip_prefix_ci l inp = Some rest -> consumed inp i rest (i + slen l).
Proof.
  induction l as [|c l IH]; intros inp rest i H; cbn in H.
  - inversion H; subst. exists []. split; [reflexivity|]. unfold slen. cbn. lia.
  - destruct inp as [|d inp]; [discriminate|]. destruct (N.eqb (ascii_lower c) (ascii_lower d)); [|discriminate].
    destruct (IH _ _ (i + 1)%N H) as [x [Hx Hi]]. exists (d :: x). subst. split; [reflexivity|].
    unfold slen in *. cbn [length]. lia.
Qed.

Lemma run_reps_consumed : forall fuel,
  (forall sk a e inp i inp' i' ps, run g fuel sk a e inp i = Ok (inp', i', ps) -> consumed inp i inp' i') /\
  (forall sk a x inp i inp' i' ps, reps g fuel sk a x inp i = Ok (inp', i', ps) -> consumed inp i inp' i').
Proof.
  induction fuel as [|f [IHr IHp]]; [split; intros; discriminate|].
  assert (Hskip : forall sk a inp i inp' i' ps,
            match sk, a, skip_exp g with
            | true, ANon, Some se => run g f false ANon se inp i
            | _, _, _ => Ok (inp, i, [])
            end = Ok (inp', i', ps) -> consumed inp i inp' i').
  { intros sk a inp i inp' i' ps H.
    destruct sk; [destruct a; [destruct (skip_exp g) as [se|]; [eapply IHr; exact H|]|..]|];
      inversion H; subst; apply consumed_refl. }
  split.
  - intros sk a e inp i inp' i' ps H. destruct e; cbn [run] in H.
    + destruct (strip_prefix l inp) eqn:E; [|discriminate]. inversion H; subst. eapply strip_prefix_consumed; eauto.
    + destruct (strip_prefix_ci l inp) eqn:E; [|discriminate]. inversion H; subst. eapply strip_prefix_ci_consumed; eauto.
    + destruct inp as [|c rest]; [discriminate|]. destruct ((lo <=? c)%N && (c <=? hi)%N); [|discriminate].
      inversion H; subst. apply consumed_one.
    + destruct inp as [|c rest]; [discriminate|]. inversion H; subst. apply consumed_one.
    + destruct (N.eqb i 0); [|discriminate]. inversion H; subst. apply consumed_refl.
    + destruct inp; [|discriminate]. inversion H; subst. apply consumed_refl.
    + dres H E. inversion H; subst. eapply IHr; exact E.
    + dres H E1. dres H E2. dres H E3. inversion H; subst.
      eapply consumed_trans; [eapply IHr; exact E1|]. eapply consumed_trans; [eapply Hskip; exact E2|]. eapply IHr; exact E3.
    + dres H E1. * inversion H; subst. eapply IHr; exact E1. * eapply IHr; exact H.
    + dres H E1. * inversion H; subst. eapply IHr; exact E1. * inversion H; subst. apply consumed_refl.
    + dres H E1.
      * dres H E2. inversion H; subst. eapply consumed_trans; [eapply IHr; exact E1|eapply IHp; exact E2].
      * inversion H; subst. apply consumed_refl.
    + eapply IHr; exact H.
    + dres H E1. inversion H; subst. apply consumed_refl.
    + dres H E1. inversion H; subst. apply consumed_refl.
  - intros sk a x inp i inp' i' ps H. cbn [reps] in H.
    dres H E1.
    + dres H E2.
      * dres H E3. inversion H; subst.
        eapply consumed_trans; [eapply Hskip; exact E1|]. eapply consumed_trans; [eapply IHr; exact E2|eapply IHp; exact E3].
      * inversion H; subst. apply consumed_refl.
    + inversion H; subst. apply consumed_refl.
Qed.
(** the state (inp, i) is the suffix of the whole input [inp0] at offset [i] *)
Definition at_off (inp0 inp : str) (i : N) : Prop :=
  inp = skipn (N.to_nat i) inp0 /\ (N.to_nat i <= length inp0)%nat.


Lemma consumed_at_off inp0 inp i inp' i' :
  at_off inp0 inp i -> consumed inp i inp' i' -> at_off inp0 inp' i'.
Proof.
  intros [Hs Hl] [c [Hc Hi]]. subst i'.
  assert (Hlen : length inp = (length inp0 - N.to_nat i)%nat) by (rewrite Hs; apply skipn_length).
  assert (Hc' : (length c <= length inp)%nat) by (rewrite Hc, app_length; lia).
  split.
  - replace (N.to_nat (i + N.of_nat (length c))) with (length c + N.to_nat i)%nat by lia.
    rewrite skipn_plus, <- Hs, Hc. rewrite skipn_app, skipn_all, Nat.sub_diag. reflexivity.
  - lia.
Qed.

Inductive in_forest : pair R -> list (pair R) -> Prop :=
| IF_top p l : In p l -> in_forest p l
| IF_kid p q l : In q l -> in_forest p (pair_kids q) -> in_forest p l.

Lemma in_forest_nil p : ~ in_forest p [].
Proof. intros H. inversion H; subst; contradiction. Qed.

Lemma in_forest_app p l1 l2 : in_forest p (l1 ++ l2) -> in_forest p l1 \/ in_forest p l2.
Proof.
  intros H. inversion H as [? ? Hin|? q ? Hin Hk]; subst.
  - apply in_app_or in Hin. destruct Hin; [left|right]; apply IF_top; assumption.
  - apply in_app_or in Hin. destruct Hin; [left|right]; eapply IF_kid; eassumption.
Qed.

Lemma in_forest_single p q : in_forest p [q] -> p = q \/ in_forest p (pair_kids q).
Proof.
  intros H. inversion H as [? ? Hin|? q' ? Hin Hk]; subst.
  - destruct Hin as [->|[]]. left; reflexivity.
  - destruct Hin as [->|[]]. right; assumption.
Qed.

Variable inp0 : str.

(** a pair of the tree witnesses a successful run of its rule's body on exactly its span *)
Definition replayable (p : pair R) : Prop :=
  match p with
  | Pair r s e kids =>
      exists f a, run g f (body_sk g r) (body_atomicity g r a) (r_exp (g_rule g r))
                      (skipn (N.to_nat s) inp0) s = Ok (skipn (N.to_nat e) inp0, e, kids)
                  /\ rule_records g r a = true
                  /\ (s <= e)%N /\ (N.to_nat e <= length inp0)%nat
  end.

Lemma run_reps_replay : forall fuel,
  (forall sk a e inp i inp' i' ps, run g fuel sk a e inp i = Ok (inp', i', ps) -> at_off inp0 inp i ->
     forall p, in_forest p ps -> replayable p) /\
  (forall sk a x inp i inp' i' ps, reps g fuel sk a x inp i = Ok (inp', i', ps) -> at_off inp0 inp i ->
     forall p, in_forest p ps -> replayable p).
Proof.
  induction fuel as [|f [IHr IHp]]; [split; intros; discriminate|].
  destruct (run_reps_consumed f) as [Cr Cp].
  assert (Hskip : forall sk a inp i inp' i' ps,
            match sk, a, skip_exp g with
            | true, ANon, Some se => run g f false ANon se inp i
            | _, _, _ => Ok (inp, i, [])
            end = Ok (inp', i', ps) ->
            consumed inp i inp' i' /\ (at_off inp0 inp i -> forall p, in_forest p ps -> replayable p)).
  { intros sk a inp i inp' i' ps H.
    destruct sk; [destruct a; [destruct (skip_exp g) as [se|]; [split; [eapply Cr; exact H|eapply IHr; exact H]|]|..]|];
      inversion H; subst; (split; [apply consumed_refl|intros _ p Hp; exfalso; eapply in_forest_nil; exact Hp]). }
  split.
  - intros sk a e inp i inp' i' ps H Hat p Hp. destruct e; cbn [run] in H.
    + destruct (strip_prefix l inp); [|discriminate]. inversion H; subst. exfalso; eapply in_forest_nil; exact Hp.
    + destruct (strip_prefix_ci l inp); [|discriminate]. inversion H; subst. exfalso; eapply in_forest_nil; exact Hp.
    + destruct inp as [|c rest]; [discriminate|]. destruct ((lo <=? c)%N && (c <=? hi)%N); [|discriminate].
      inversion H; subst. exfalso; eapply in_forest_nil; exact Hp.
    + destruct inp as [|c rest]; [discriminate|]. inversion H; subst. exfalso; eapply in_forest_nil; exact Hp.
    + destruct (N.eqb i 0); [|discriminate]. inversion H; subst. exfalso; eapply in_forest_nil; exact Hp.
    + destruct inp; [|discriminate]. inversion H; subst. exfalso; eapply in_forest_nil; exact Hp.
    + dres H E. inversion H; subst.
      destruct (rule_records g r a) eqn:Hrec.
      * apply in_forest_single in Hp. destruct Hp as [->|Hp]; [|eapply IHr; eassumption].
        cbn [replayable]. exists f, a.
        pose proof (Cr _ _ _ _ _ _ _ _ E) as Hc.
        destruct (consumed_at_off Hat Hc) as [Hs' Hl']. destruct Hat as [Hs Hl].
        rewrite <- Hs, <- Hs'. split; [exact E|]. split; [exact Hrec|]. split; [eapply consumed_le; exact Hc|exact Hl'].
      * eapply (IHr _ _ _ _ _ _ _ _ E); eassumption.
    + dres H E1. dres H E2. dres H E3. inversion H; subst.
      destruct (Hskip _ _ _ _ _ _ _ E2) as [C2 R2].
      pose proof (consumed_at_off Hat (Cr _ _ _ _ _ _ _ _ E1)) as Hat1.
      pose proof (consumed_at_off Hat1 C2) as Hat2.
      apply in_forest_app in Hp. destruct Hp as [Hp|Hp]; [eapply (IHr _ _ _ _ _ _ _ _ E1); eassumption|].
      apply in_forest_app in Hp. destruct Hp as [Hp|Hp]; [eapply R2; eassumption|eapply (IHr _ _ _ _ _ _ _ _ E3); eassumption].
    + dres H E1. * inversion H; subst. eapply (IHr _ _ _ _ _ _ _ _ E1); eassumption. * eapply (IHr _ _ _ _ _ _ _ _ H); eassumption.
    + dres H E1. * inversion H; subst. eapply (IHr _ _ _ _ _ _ _ _ E1); eassumption.
      * inversion H; subst. exfalso; eapply in_forest_nil; exact Hp.
    + dres H E1.
      * dres H E2. inversion H; subst.
        pose proof (consumed_at_off Hat (Cr _ _ _ _ _ _ _ _ E1)) as Hat1.
        apply in_forest_app in Hp. destruct Hp as [Hp|Hp]; [eapply (IHr _ _ _ _ _ _ _ _ E1); eassumption|eapply (IHp _ _ _ _ _ _ _ _ E2); eassumption].
      * inversion H; subst. exfalso; eapply in_forest_nil; exact Hp.
    + eapply (IHr _ _ _ _ _ _ _ _ H); eassumption.
    + dres H E1. inversion H; subst. exfalso; eapply in_forest_nil; exact Hp.
    + dres H E1. inversion H; subst. exfalso; eapply in_forest_nil; exact Hp.
  - intros sk a x inp i inp' i' ps H Hat p Hp. cbn [reps] in H.
    dres H E1.
    + destruct (Hskip _ _ _ _ _ _ _ E1) as [C1 R1].
      pose proof (consumed_at_off Hat C1) as Hat1.
      dres H E2.
      * dres H E3. inversion H; subst.
        pose proof (consumed_at_off Hat1 (Cr _ _ _ _ _ _ _ _ E2)) as Hat2.
        apply in_forest_app in Hp. destruct Hp as [Hp|Hp]; [eapply R1; eassumption|].
        apply in_forest_app in Hp. destruct Hp as [Hp|Hp]; [eapply (IHr _ _ _ _ _ _ _ _ E2); eassumption|eapply (IHp _ _ _ _ _ _ _ _ E3); eassumption].
      * inversion H; subst. exfalso; eapply in_forest_nil; exact Hp.
    + inversion H; subst. exfalso; eapply in_forest_nil; exact Hp.
Qed.

Theorem parse_replay fuel start ps :
  parse_with g fuel start inp0 = Ok ps -> forall p, in_forest p ps -> replayable p.
Proof.
  unfold parse_with. intros H p Hp.
  destruct (run g fuel true ANon (Call start) inp0 0) as [[[inp' i'] ps']| |] eqn:E; try discriminate H.
  inversion H; subst.
  destruct (run_reps_replay fuel) as [Hr _].
  eapply (Hr _ _ _ _ _ _ _ _ E); [|exact Hp].
  split; [reflexivity|cbn; lia].
Qed.

End Props.

(** ** character classes: expressions that consume exactly one character of a class, their
    repetition, and class ~ class* (names, digit runs, ...) *)
Section Classes.
Variable R : Type.
Variable g : grammar R.
Local Open Scope N_scope.

(** the outcome of "one character of class P" *)
Definition class_result (P : N -> bool) (inp : str) (i : N) : res R :=
  match inp with
  | c :: rest => if P c then Ok (rest, i + 1, []) else Fail
  | [] => Fail
  end.

(** [x], run without implicit skipping under atomicity [a], behaves as the character class [P]
    (whenever it has enough fuel to answer) *)
Definition is_class (a : atomicity) (x : pexp R) (P : N -> bool) : Prop :=
  forall fuel inp i, run g fuel false a x inp i = OutOfFuel \/ run g fuel false a x inp i = class_result P inp i.

Lemma class_Range a lo hi : is_class a (Range lo hi) (fun c => (lo <=? c) && (c <=? hi)).
Proof. intros [|f] inp i; [left; reflexivity|right]. destruct inp; reflexivity. Qed.

Lemma class_Any a : is_class a Any (fun _ => true).
Proof. intros [|f] inp i; [left; reflexivity|right]. destruct inp; reflexivity. Qed.

Lemma class_Lit1 a c0 : is_class a (Lit [c0]) (N.eqb c0).
Proof.
  intros [|f] inp i; [left; reflexivity|right]. cbn [run strip_prefix]. destruct inp as [|d rest]; [reflexivity|].
  cbn [class_result]. destruct (N.eqb c0 d); reflexivity.
Qed.

Lemma class_Alt a x y P Q : is_class a x P -> is_class a y Q -> is_class a (Alt x y) (fun c => P c || Q c).
Proof.
  intros Hx Hy [|f] inp i; [left; reflexivity|]. cbn [run].
  destruct (Hx f inp i) as [E|E]; rewrite E; [left; reflexivity|].
  destruct inp as [|c rest]; cbn [class_result].
  - destruct (Hy f [] i) as [E2|E2]; rewrite E2; [left|right]; reflexivity.
  - destruct (P c); cbn [orb]; [right; reflexivity|].
    destruct (Hy f (c :: rest) i) as [E2|E2]; rewrite E2; [left; reflexivity|right; reflexivity].
Qed.

(** a silent-in-context rule whose body is a class is a class *)
Lemma class_Call a r P :
  body_sk g r = false -> rule_records g r a = false ->
  is_class (body_atomicity g r a) (r_exp (g_rule g r)) P -> is_class a (Call r) P.
Proof.
  intros Hsk Hrec Hb [|f] inp i; [left; reflexivity|]. cbn [run]. rewrite Hsk, Hrec.
  destruct (Hb f inp i) as [E|E]; rewrite E; [left; reflexivity|right].
  destruct inp as [|c rest]; cbn [class_result]; [reflexivity|]. destruct (P c); reflexivity.
Qed.

Fixpoint span (P : N -> bool) (l : str) : str * str :=
  match l with
  | c :: r => if P c then let '(a, b) := span P r in (c :: a, b) else ([], l)
  | [] => ([], [])
  end.

Lemma reps_S_nosk f a x inp i :
  reps g (S f) false a x inp i =
  match run g f false a x inp i with
  | Ok (inp2, i2, p2) =>
      match reps g f false a x inp2 i2 with
      | Ok (inp3, i3, p3) => Ok (inp3, i3, [] ++ p2 ++ p3)
      | Fail => Fail
      | OutOfFuel => OutOfFuel
      end
  | Fail => Ok (inp, i, [])
  | OutOfFuel => OutOfFuel
  end.
Proof. reflexivity. Qed.

Lemma run_Star_S f sk a x inp i :
  run g (S f) sk a (Star x) inp i =
  match run g f sk a x inp i with
  | Ok (inp1, i1, p1) =>
      match reps g f sk a x inp1 i1 with
      | Ok (inp2, i2, p2) => Ok (inp2, i2, p1 ++ p2)
      | Fail => Fail
      | OutOfFuel => OutOfFuel
      end
  | Fail => Ok (inp, i, [])
  | OutOfFuel => OutOfFuel
  end.
Proof. reflexivity. Qed.

(** x* for a class x, in a rule without implicit skipping *)
Lemma reps_class a x P : is_class a x P ->
  forall fuel inp i, reps g fuel false a x inp i = OutOfFuel \/
                     reps g fuel false a x inp i = Ok (snd (span P inp), i + N.of_nat (length (fst (span P inp))), []).
Proof.
  intros Hx. induction fuel as [|f IH]; intros inp i; [left; reflexivity|]. rewrite reps_S_nosk.
  destruct (Hx f inp i) as [E|E]; rewrite E; [left; reflexivity|].
  destruct inp as [|c rest]; cbn [class_result span].
  - right. cbn. rewrite N.add_0_r. reflexivity.
  - destruct (P c) eqn:Pc.
    + destruct (IH rest (i + 1)) as [E2|E2]; rewrite E2; [left; reflexivity|right].
      destruct (span P rest) as [u v]. cbn [fst snd length app]. f_equal. f_equal. f_equal. lia.
    + right. cbn. rewrite N.add_0_r. reflexivity.
Qed.

Lemma star_class a x P : is_class a x P ->
  forall fuel inp i, run g fuel false a (Star x) inp i = OutOfFuel \/
                     run g fuel false a (Star x) inp i = Ok (snd (span P inp), i + N.of_nat (length (fst (span P inp))), []).
Proof.
  intros Hx [|f] inp i; [left; reflexivity|]. rewrite run_Star_S.
  destruct (Hx f inp i) as [E|E]; rewrite E; [left; reflexivity|].
  destruct inp as [|c rest]; cbn [class_result span].
  - right. cbn. rewrite N.add_0_r. reflexivity.
  - destruct (P c) eqn:Pc.
    + destruct (reps_class Hx f rest (i + 1)) as [E2|E2]; rewrite E2; [left; reflexivity|right].
      destruct (span P rest) as [u v]. cbn [fst snd length app]. f_equal. f_equal. f_equal. lia.
    + right. cbn. rewrite N.add_0_r. reflexivity.
Qed.

(** sequence in a rule without implicit skipping *)
Lemma run_Seq_nosk f a x y inp i :
  run g (S f) false a (Seq x y) inp i =
  match run g f false a x inp i with
  | Ok (inp1, i1, p1) =>
      match run g f false a y inp1 i1 with
      | Ok (inp3, i3, p3) => Ok (inp3, i3, p1 ++ [] ++ p3)
      | Fail => Fail
      | OutOfFuel => OutOfFuel
      end
  | Fail => Fail
  | OutOfFuel => OutOfFuel
  end.
Proof. cbn [run]. destruct (run g f false a x inp i) as [[[inp1 i1] p1]| |]; reflexivity. Qed.

(** class ~ class*  : one character of P followed by the longest run of Q *)
Lemma seq_class_star a x y P Q : is_class a x P -> is_class a y Q ->
  forall fuel inp i,
    run g fuel false a (Seq x (Star y)) inp i = OutOfFuel \/
    run g fuel false a (Seq x (Star y)) inp i =
      match inp with
      | c :: rest => if P c then Ok (snd (span Q rest), i + 1 + N.of_nat (length (fst (span Q rest))), []) else Fail
      | [] => Fail
      end.
Proof.
  intros Hx Hy [|f] inp i; [left; reflexivity|]. rewrite run_Seq_nosk.
  destruct (Hx f inp i) as [E|E]; rewrite E; [left; reflexivity|].
  destruct inp as [|c rest]; cbn [class_result]; [right; reflexivity|].
  destruct (P c); [|right; reflexivity].
  destruct (star_class Hy f rest (i + 1)) as [E2|E2]; rewrite E2; [left; reflexivity|right; reflexivity].
Qed.


Lemma is_class_ext a x P Q : (forall c, P c = Q c) -> is_class a x P -> is_class a x Q.
Proof.
  intros HPQ H fuel inp i. destruct (H fuel inp i) as [E|E]; [left; exact E|right]. rewrite E.
  destruct inp as [|c rest]; [reflexivity|]. cbn [class_result]. rewrite HPQ. reflexivity.
Qed.

Lemma span_spec P : forall l u v, span P l = (u, v) ->
  l = u ++ v /\ forallb P u = true /\ match v with d :: _ => P d = false | [] => True end.
Proof.
  induction l as [|c r IH]; intros u v H; cbn [span] in H.
  - inversion H; subst. repeat split.
  - destruct (P c) eqn:Pc.
    + destruct (span P r) as [a b] eqn:E. inversion H; subst. destruct (IH _ _ eq_refl) as [H1 [H2 H3]].
      subst r. repeat split; [cbn [forallb]; rewrite Pc, H2; reflexivity|exact H3].
    + inversion H; subst. repeat split. exact Pc.
Qed.

(** "lit" ~ !class : keywords *)
Lemma seq_lit_not_class a l y Q : is_class a y Q -> forall fuel inp i,
  run g fuel false a (Seq (Lit l) (NotP y)) inp i = OutOfFuel \/
  run g fuel false a (Seq (Lit l) (NotP y)) inp i =
    match strip_prefix l inp with
    | Some rest =>
        match rest with
        | d :: _ => if Q d then Fail else Ok (rest, i + slen l, [])
        | [] => Ok (rest, i + slen l, [])
        end
    | None => Fail
    end.
Proof.
  intros Hy [|f] inp i; [left; reflexivity|]. rewrite run_Seq_nosk.
  destruct f as [|f]; [left; reflexivity|].
  change (run g (S f) false a (Lit l) inp i) with
    (match strip_prefix l inp with Some rest => Ok (rest, i + slen l, @nil (pair R)) | None => Fail end).
  destruct (strip_prefix l inp) as [rest|]; [|right; reflexivity].
  change (run g (S f) false a (NotP y) rest (i + slen l)) with
    (match run g f false a y rest (i + slen l) with
     | Ok _ => Fail | Fail => Ok (rest, i + slen l, @nil (pair R)) | OutOfFuel => OutOfFuel end).
  destruct (Hy f rest (i + slen l)) as [E|E]; rewrite E; [left; reflexivity|right].
  destruct rest as [|d r]; cbn [class_result]; [reflexivity|]. destruct (Q d); reflexivity.
Qed.

End Classes.

(** ** shape of the forest: spans are ordered and nested *)
Section WF.
Variable R : Type.
Variable g : grammar R.
Local Open Scope N_scope.

(** the pairs of a forest lie between [lo] and [hi], one after the other, children inside their parent *)
Inductive wf_forest : N -> N -> list (pair R) -> Prop :=
| WF_nil lo hi : lo <= hi -> wf_forest lo hi []
| WF_cons lo hi r s e kids rest :
    lo <= s -> s <= e -> wf_forest s e kids -> wf_forest e hi rest -> wf_forest lo hi (Pair r s e kids :: rest).

Lemma wf_forest_le lo hi l : wf_forest lo hi l -> lo <= hi.
Proof. induction 1; lia. Qed.

Lemma wf_forest_weaken_lo lo lo' hi l : wf_forest lo hi l -> lo' <= lo -> wf_forest lo' hi l.
Proof. intros H Hl. destruct H; constructor; try assumption; lia. Qed.

Lemma wf_forest_weaken_hi lo hi hi' l : wf_forest lo hi l -> hi <= hi' -> wf_forest lo hi' l.
Proof. induction 1; intros Hh; constructor; try assumption; try lia. apply IHwf_forest2; exact Hh. Qed.

Lemma wf_forest_app a b c l1 l2 : wf_forest a b l1 -> wf_forest b c l2 -> wf_forest a c (l1 ++ l2).
Proof.
  induction 1; intros Hl2; cbn [app].
  - eapply wf_forest_weaken_lo; eassumption.
  - constructor; try assumption. apply IHwf_forest2; exact Hl2.
Qed.

Lemma run_reps_wf : forall fuel,
  (forall sk a e inp i inp' i' ps, run g fuel sk a e inp i = Ok (inp', i', ps) -> wf_forest i i' ps) /\
  (forall sk a x inp i inp' i' ps, reps g fuel sk a x inp i = Ok (inp', i', ps) -> wf_forest i i' ps).
Proof.
  induction fuel as [|f [IHr IHp]]; [split; intros; discriminate|].
  destruct (run_reps_consumed g f) as [Cr Cp].
  assert (Hskip : forall sk a inp i inp' i' ps,
            match sk, a, skip_exp g with
            | true, ANon, Some se => run g f false ANon se inp i
            | _, _, _ => Ok (inp, i, [])
            end = Ok (inp', i', ps) -> wf_forest i i' ps).
  { intros sk a inp i inp' i' ps H.
    destruct sk; [destruct a; [destruct (skip_exp g) as [se|]; [eapply IHr; exact H|]|..]|];
      inversion H; subst; constructor; lia. }
  assert (Hnil : forall i j, i <= j -> wf_forest i j []) by (intros; constructor; assumption).
  split.
  - intros sk a e inp i inp' i' ps H.
    pose proof (consumed_le (proj1 (run_reps_consumed g (S f)) _ _ _ _ _ _ _ _ H)) as Hle.
    destruct e; cbn [run] in H.
    + destruct (strip_prefix l inp); [|discriminate]. inversion H; subst. apply Hnil; exact Hle.
    + destruct (strip_prefix_ci l inp); [|discriminate]. inversion H; subst. apply Hnil; exact Hle.
    + destruct inp as [|c rest]; [discriminate|]. destruct ((lo <=? c)%N && (c <=? hi)%N); [|discriminate].
      inversion H; subst. apply Hnil; lia.
    + destruct inp as [|c rest]; [discriminate|]. inversion H; subst. apply Hnil; lia.
    + destruct (N.eqb i 0); [|discriminate]. inversion H; subst. apply Hnil; lia.
    + destruct inp; [|discriminate]. inversion H; subst. apply Hnil; lia.
    + dres H E. inversion H; subst. pose proof (IHr _ _ _ _ _ _ _ _ E) as Hk.
      destruct (rule_records g r a); [|exact Hk].
      constructor; [lia|exact Hle|exact Hk|constructor; lia].
    + dres H E1. dres H E2. dres H E3. inversion H; subst.
      eapply wf_forest_app; [eapply IHr; exact E1|]. eapply wf_forest_app; [eapply Hskip; exact E2|eapply IHr; exact E3].
    + dres H E1. * inversion H; subst. eapply IHr; exact E1. * eapply IHr; exact H.
    + dres H E1. * inversion H; subst. eapply IHr; exact E1. * inversion H; subst. apply Hnil; lia.
    + dres H E1.
      * dres H E2. inversion H; subst. eapply wf_forest_app; [eapply IHr; exact E1|eapply IHp; exact E2].
      * inversion H; subst. apply Hnil; lia.
    + eapply IHr; exact H.
    + dres H E1. inversion H; subst. apply Hnil; lia.
    + dres H E1. inversion H; subst. apply Hnil; lia.
  - intros sk a x inp i inp' i' ps H. cbn [reps] in H.
    dres H E1.
    + dres H E2.
      * dres H E3. inversion H; subst.
        eapply wf_forest_app; [eapply Hskip; exact E1|]. eapply wf_forest_app; [eapply IHr; exact E2|eapply IHp; exact E3].
      * inversion H; subst. apply Hnil; lia.
    + inversion H; subst. apply Hnil; lia.
Qed.

Theorem parse_wf fuel start inp ps :
  parse_with g fuel start inp = Ok ps -> exists hi, wf_forest 0 hi ps /\ (N.to_nat hi <= length inp)%nat.
Proof.
  unfold parse_with. intros H.
  destruct (run g fuel true ANon (Call start) inp 0) as [[[inp' i'] ps']| |] eqn:E; try discriminate H.
  inversion H; subst. exists i'. split; [eapply (proj1 (run_reps_wf fuel)); exact E|].
  assert (Hat : at_off inp inp 0) by (split; [reflexivity|cbn; lia]).
  destruct (consumed_at_off Hat (proj1 (run_reps_consumed g fuel) _ _ _ _ _ _ _ _ E)) as [_ Hl]. exact Hl.
Qed.
End WF.

(** ** symbolic execution: what an expression answers, whatever the fuel *)
Section Runs.
Variable R : Type.
Variable g : grammar R.
Local Open Scope N_scope.

(** [runs sk a e inp i r]: whatever the fuel, running [e] either runs out of fuel or answers [r].
    A small logic for executing the interpreter symbolically, compositional in the expression. *)
Definition runs (sk : bool) (a : atomicity) (e : pexp R) (inp : str) (i : N) (r : res R) : Prop :=
  forall fuel, run g fuel sk a e inp i = OutOfFuel \/ run g fuel sk a e inp i = r.
Definition repss (sk : bool) (a : atomicity) (x : pexp R) (inp : str) (i : N) (r : res R) : Prop :=
  forall fuel, reps g fuel sk a x inp i = OutOfFuel \/ reps g fuel sk a x inp i = r.

Lemma runs_Lit sk a l inp i :
  runs sk a (Lit l) inp i
    (match strip_prefix l inp with Some rest => Ok (rest, i + slen l, []) | None => Fail end).
Proof. intros [|f]; [left|right]; reflexivity. Qed.

Lemma runs_Any sk a inp i :
  runs sk a Any inp i (match inp with _ :: rest => Ok (rest, i + 1, []) | [] => Fail end).
Proof. intros [|f]; [left|right]; reflexivity. Qed.

Lemma runs_class a x P inp i : is_class g a x P -> runs false a x inp i (class_result R P inp i).
Proof. intros H fuel. apply H. Qed.

Lemma runs_Call_ok sk a r inp i inp' i' ps :
  runs (body_sk g r) (body_atomicity g r a) (r_exp (g_rule g r)) inp i (Ok (inp', i', ps)) ->
  runs sk a (Call r) inp i (Ok (inp', i', if rule_records g r a then [Pair r i i' ps] else ps)).
Proof. intros H [|f]; [left; reflexivity|]. cbn [run]. destruct (H f) as [E|E]; rewrite E; [left|right]; reflexivity. Qed.

Lemma runs_Call_fail sk a r inp i :
  runs (body_sk g r) (body_atomicity g r a) (r_exp (g_rule g r)) inp i Fail ->
  runs sk a (Call r) inp i Fail.
Proof. intros H [|f]; [left; reflexivity|]. cbn [run]. destruct (H f) as [E|E]; rewrite E; [left|right]; reflexivity. Qed.

Lemma runs_Seq_ok a x y inp i inp1 i1 p1 inp2 i2 p2 :
  runs false a x inp i (Ok (inp1, i1, p1)) -> runs false a y inp1 i1 (Ok (inp2, i2, p2)) ->
  runs false a (Seq x y) inp i (Ok (inp2, i2, p1 ++ p2)).
Proof.
  intros Hx Hy [|f]; [left; reflexivity|]. rewrite run_Seq_nosk.
  destruct (Hx f) as [E|E]; rewrite E; [left; reflexivity|].
  destruct (Hy f) as [E2|E2]; rewrite E2; [left|right]; reflexivity.
Qed.

Lemma runs_Seq_fail1 a x y inp i : runs false a x inp i Fail -> runs false a (Seq x y) inp i Fail.
Proof. intros Hx [|f]; [left; reflexivity|]. rewrite run_Seq_nosk. destruct (Hx f) as [E|E]; rewrite E; [left|right]; reflexivity. Qed.

Lemma runs_Seq_fail2 a x y inp i inp1 i1 p1 :
  runs false a x inp i (Ok (inp1, i1, p1)) -> runs false a y inp1 i1 Fail -> runs false a (Seq x y) inp i Fail.
Proof.
  intros Hx Hy [|f]; [left; reflexivity|]. rewrite run_Seq_nosk.
  destruct (Hx f) as [E|E]; rewrite E; [left; reflexivity|].
  destruct (Hy f) as [E2|E2]; rewrite E2; [left|right]; reflexivity.
Qed.

Lemma runs_Alt_l sk a x y inp i r : runs sk a x inp i (Ok r) -> runs sk a (Alt x y) inp i (Ok r).
Proof. intros Hx [|f]; [left; reflexivity|]. cbn [run]. destruct (Hx f) as [E|E]; rewrite E; [left|right]; reflexivity. Qed.

Lemma runs_Alt_r sk a x y inp i r : runs sk a x inp i Fail -> runs sk a y inp i r -> runs sk a (Alt x y) inp i r.
Proof.
  intros Hx Hy [|f]; [left; reflexivity|]. cbn [run]. destruct (Hx f) as [E|E]; rewrite E; [left; reflexivity|]. apply Hy.
Qed.

Lemma runs_Opt_some sk a x inp i r : runs sk a x inp i (Ok r) -> runs sk a (Opt x) inp i (Ok r).
Proof. intros Hx [|f]; [left; reflexivity|]. cbn [run]. destruct (Hx f) as [E|E]; rewrite E; [left|right]; reflexivity. Qed.

Lemma runs_Opt_none sk a x inp i : runs sk a x inp i Fail -> runs sk a (Opt x) inp i (Ok (inp, i, [])).
Proof. intros Hx [|f]; [left; reflexivity|]. cbn [run]. destruct (Hx f) as [E|E]; rewrite E; [left|right]; reflexivity. Qed.

Lemma runs_Not_ok sk a x inp i : runs sk a x inp i Fail -> runs sk a (NotP x) inp i (Ok (inp, i, [])).
Proof. intros Hx [|f]; [left; reflexivity|]. cbn [run]. destruct (Hx f) as [E|E]; rewrite E; [left|right]; reflexivity. Qed.

Lemma runs_Not_fail sk a x inp i r : runs sk a x inp i (Ok r) -> runs sk a (NotP x) inp i Fail.
Proof. intros Hx [|f]; [left; reflexivity|]. cbn [run]. destruct (Hx f) as [E|E]; rewrite E; [left|right]; reflexivity. Qed.

(** repetition in a rule without implicit skipping *)
Lemma repss_stop a x inp i : runs false a x inp i Fail -> repss false a x inp i (Ok (inp, i, [])).
Proof. intros Hx [|f]; [left; reflexivity|]. rewrite reps_S_nosk. destruct (Hx f) as [E|E]; rewrite E; [left|right]; reflexivity. Qed.

Lemma repss_step a x inp i inp1 i1 p1 inp2 i2 p2 :
  runs false a x inp i (Ok (inp1, i1, p1)) -> repss false a x inp1 i1 (Ok (inp2, i2, p2)) ->
  repss false a x inp i (Ok (inp2, i2, p1 ++ p2)).
Proof.
  intros Hx Hr [|f]; [left; reflexivity|]. rewrite reps_S_nosk.
  destruct (Hx f) as [E|E]; rewrite E; [left; reflexivity|].
  destruct (Hr f) as [E2|E2]; rewrite E2; [left|right]; reflexivity.
Qed.

Lemma runs_Star_step a x inp i inp1 i1 p1 inp2 i2 p2 :
  runs false a x inp i (Ok (inp1, i1, p1)) -> repss false a x inp1 i1 (Ok (inp2, i2, p2)) ->
  runs false a (Star x) inp i (Ok (inp2, i2, p1 ++ p2)).
Proof.
  intros Hx Hr [|f]; [left; reflexivity|]. rewrite run_Star_S.
  destruct (Hx f) as [E|E]; rewrite E; [left; reflexivity|].
  destruct (Hr f) as [E2|E2]; rewrite E2; [left|right]; reflexivity.
Qed.

Lemma runs_Star_stop sk a x inp i : runs sk a x inp i Fail -> runs sk a (Star x) inp i (Ok (inp, i, [])).
Proof. intros Hx [|f]; [left; reflexivity|]. rewrite run_Star_S. destruct (Hx f) as [E|E]; rewrite E; [left|right]; reflexivity. Qed.

Lemma runs_Plus a x inp i r : runs false a (Seq x (Star x)) inp i r -> runs false a (Plus x) inp i r.
Proof. intros H [|f]; [left; reflexivity|]. cbn [run]. apply H. Qed.


Lemma runs_Call_rec sk a r inp i inp' i' ps :
  rule_records g r a = true ->
  runs (body_sk g r) (body_atomicity g r a) (r_exp (g_rule g r)) inp i (Ok (inp', i', ps)) ->
  runs sk a (Call r) inp i (Ok (inp', i', [Pair r i i' ps])).
Proof. intros Hr H. pose proof (@runs_Call_ok sk a r inp i inp' i' ps H) as H'. rewrite Hr in H'. exact H'. Qed.

Lemma runs_Call_silent sk a r inp i inp' i' ps :
  rule_records g r a = false ->
  runs (body_sk g r) (body_atomicity g r a) (r_exp (g_rule g r)) inp i (Ok (inp', i', ps)) ->
  runs sk a (Call r) inp i (Ok (inp', i', ps)).
Proof. intros Hr H. pose proof (@runs_Call_ok sk a r inp i inp' i' ps H) as H'. rewrite Hr in H'. exact H'. Qed.

Lemma runs_Lit_ok sk a l rest i : runs sk a (Lit l) (l ++ rest) i (Ok (rest, i + slen l, [])).
Proof.
  pose proof (runs_Lit sk a l (l ++ rest) i) as H.
  assert (E : strip_prefix l (l ++ rest) = Some rest).
  { clear H. induction l as [|c l IH]; cbn; [reflexivity|]. rewrite N.eqb_refl. exact IH. }
  rewrite E in H. exact H.
Qed.

Lemma runs_Lit_head_fail sk a c0 l c t i : N.eqb c0 c = false -> runs sk a (Lit (c0 :: l)) (c :: t) i Fail.
Proof. intros Hc. pose proof (runs_Lit sk a (c0 :: l) (c :: t) i) as H. cbn [strip_prefix] in H. rewrite Hc in H. exact H. Qed.

Lemma runs_Lit_nil_fail sk a c0 l i : runs sk a (Lit (c0 :: l)) [] i Fail.
Proof. exact (runs_Lit sk a (c0 :: l) [] i). Qed.

End Runs.
