(** A PEG interpreter with the semantics of pest 2.7 (the parser generator nitrogql uses), read from
    pest_generator/src/generator.rs (how a rule's expression is turned into calls) and
    pest/src/parser_state.rs (what those calls do).  Generic in the rule type [R]; nothing here is
    specific to the GraphQL grammar.  Definitions only.

    What is modelled
    - expressions: strings, case-insensitive strings, character ranges, ANY, SOI, end of input,
      rule calls, sequence, ordered choice, optional, repetition ( * and + ), positive and negative look-ahead;
    - implicit skipping: an expression of a rule whose own modifier is not [@]/[$] is generated with a
      [skip] call between the elements of a sequence and between the iterations of a repetition
      ([generate_expr]); [@]/[$] rules and the rules named WHITESPACE / COMMENT are generated without
      ([generate_expr_atomic]).  This choice is static ([sk] below);
    - [skip] itself is dynamic: it does something only when the current atomicity is NonAtomic; then it is
      WHITESPACE* (COMMENT WHITESPACE* )*;
    - atomicity: [@R] = rule(R, atomic(Atomic, e)), [$R] = atomic(Compound, rule(R, e)),
      [!R] = atomic(NonAtomic, rule(R, e)), [_R] = e, and WHITESPACE / COMMENT bodies are wrapped in
      atomic(Atomic, _) whatever their modifier;
    - tokens: rule(R, _) records a pair for R iff the atomicity at the moment of the call is not Atomic
      (and no look-ahead is active: look-aheads never keep what they matched, so the model simply drops
      the pairs a look-ahead produced);
    - e+ is e ~ e* (pest_meta's unroller, the `grammar-extras` feature being off), so in a skipping rule
      it is  e skip (e (skip e)* )?  -- the skip after the first e is unconditional;
    - sequence / optional / repeat / look-ahead / choice restore position and token queue on failure:
      the interpreter is functional, a failure simply returns [Fail].

    Offsets are counted in Unicode scalar values (pest counts bytes; the harness converts).
    Recursion is on explicit fuel; [OutOfFuel] is a third outcome, never confused with [Fail]. *)
From V Require Import Base.Util.
Set Implicit Arguments.

Inductive modifier := MNormal | MSilent | MAtomic | MCompound | MNonAtomic.
Inductive atomicity := ANon | AAtomic | ACompound.

Inductive outcome (A : Type) := Ok (x : A) | Fail | OutOfFuel.
Arguments Fail {A}.
Arguments OutOfFuel {A}.

Section Peg.
Variable R : Type.

Inductive pexp :=
| Lit (l : str)                 (* "abc" *)
| ILit (l : str)                (* ^"abc": ASCII case-insensitive *)
| Range (lo hi : N)             (* 'a'..'z' *)
| Any                           (* ANY *)
| Soi                           (* SOI *)
| Eoi                           (* end_of_input (the body of pest's built-in rule EOI) *)
| Call (r : R)
| Seq (a b : pexp)
| Alt (a b : pexp)
| Opt (e : pexp)
| Star (e : pexp)
| Plus (e : pexp)
| NotP (e : pexp)
| AndP (e : pexp).

Inductive pair := Pair (r : R) (s e : N) (kids : list pair).

Definition pair_rule (p : pair) : R := match p with Pair r _ _ _ => r end.
Definition pair_start (p : pair) : N := match p with Pair _ s _ _ => s end.
Definition pair_end (p : pair) : N := match p with Pair _ _ e _ => e end.
Definition pair_kids (p : pair) : list pair := match p with Pair _ _ _ k => k end.

Record ruledef := mkRule { r_mod : modifier; r_exp : pexp }.

Record grammar := mkGrammar {
  g_rule : R -> ruledef;
  g_eqb : R -> R -> bool;
  g_ws : option R;              (* the rule named WHITESPACE, if the grammar has one *)
  g_comment : option R          (* the rule named COMMENT, if the grammar has one *)
}.

Variable g : grammar.

Definition is_rule_opt (o : option R) (r : R) : bool :=
  match o with Some w => g_eqb g r w | None => false end.
(** the two rules pest treats specially by name *)
Definition is_special (r : R) : bool := is_rule_opt (g_ws g) r || is_rule_opt (g_comment g) r.

Fixpoint strip_prefix (p inp : str) : option str :=
  match p with
  | [] => Some inp
  | c :: p' => match inp with
               | d :: inp' => if N.eqb c d then strip_prefix p' inp' else None
               | [] => None
               end
  end.

Definition ascii_lower (c : N) : N := if (65 <=? c)%N && (c <=? 90)%N then (c + 32)%N else c.

Fixpoint strip_prefix_ci (p inp : str) : option str :=
  match p with
  | [] => Some inp
  | c :: p' => match inp with
               | d :: inp' => if N.eqb (ascii_lower c) (ascii_lower d) then strip_prefix_ci p' inp' else None
               | [] => None
               end
  end.

Definition slen (l : str) : N := N.of_nat (length l).

(** generate_skip of pest_generator, as an expression to be run without implicit skipping *)
Definition skip_exp : option pexp :=
  match g_ws g, g_comment g with
  | None, None => None
  | Some w, None => Some (Star (Call w))
  | None, Some c => Some (Star (Call c))
  | Some w, Some c => Some (Seq (Star (Call w)) (Star (Seq (Call c) (Star (Call w)))))
  end.

Definition res := outcome (str * N * list pair).

(** does rule(R, _) record a pair when called under atomicity [a]? *)
Definition records (a : atomicity) : bool := match a with AAtomic => false | _ => true end.

(** generate_rule of pest_generator, for a call of rule [r] under atomicity [a]:
    - [body_sk]: is the body generated with skip calls (generate_expr) or without (generate_expr_atomic:
      [@]/[$] rules and the rules named WHITESPACE / COMMENT);
    - [body_atomicity]: the atomicity the body runs under;
    - [rule_records]: is a pair recorded for this call ([_] rules never; [$]/[!] switch the atomicity
      before state.rule, so always; otherwise iff the caller is not Atomic). *)
Definition static_atomic (r : R) : bool :=
  match r_mod (g_rule g r) with MAtomic | MCompound => true | _ => false end.
Definition body_sk (r : R) : bool := negb (static_atomic r || is_special r).
Definition body_atomicity (r : R) (a : atomicity) : atomicity :=
  match r_mod (g_rule g r) with
  | MAtomic => AAtomic
  | MCompound => ACompound
  | MNonAtomic => if is_special r then AAtomic else ANon
  | MNormal | MSilent => if is_special r then AAtomic else a
  end.
Definition rule_records (r : R) (a : atomicity) : bool :=
  match r_mod (g_rule g r) with
  | MSilent => false
  | MCompound | MNonAtomic => true
  | MNormal | MAtomic => records a
  end.

(** [run fuel sk a e inp i]: [sk] = the expression belongs to a rule generated with skip calls;
    [a] = current atomicity; [inp] = the input from offset [i] on.
    [reps] is the loop  (skip e)*  of a repetition (skip being a no-op when [sk] is false or the
    atomicity is not NonAtomic). *)
Fixpoint run (fuel : nat) (sk : bool) (a : atomicity) (e : pexp) (inp : str) (i : N) {struct fuel} : res :=
  match fuel with
  | O => OutOfFuel
  | S f =>
    let skip (inp : str) (i : N) : res :=
      match sk, a, skip_exp with
      | true, ANon, Some se => run f false ANon se inp i
      | _, _, _ => Ok (inp, i, [])
      end in
    match e with
    | Lit l => match strip_prefix l inp with
               | Some rest => Ok (rest, (i + slen l)%N, [])
               | None => Fail
               end
    | ILit l => match strip_prefix_ci l inp with
                | Some rest => Ok (rest, (i + slen l)%N, [])
                | None => Fail
                end
    | Range lo hi => match inp with
                     | c :: rest => if (lo <=? c)%N && (c <=? hi)%N then Ok (rest, (i + 1)%N, []) else Fail
                     | [] => Fail
                     end
    | Any => match inp with _ :: rest => Ok (rest, (i + 1)%N, []) | [] => Fail end
    | Soi => if N.eqb i 0 then Ok (inp, i, []) else Fail
    | Eoi => match inp with [] => Ok (inp, i, []) | _ :: _ => Fail end
    | Call r =>
        match run f (body_sk r) (body_atomicity r a) (r_exp (g_rule g r)) inp i with
        | Ok (inp', i', ps) => Ok (inp', i', if rule_records r a then [Pair r i i' ps] else ps)
        | Fail => Fail
        | OutOfFuel => OutOfFuel
        end
    | Seq x y =>
        match run f sk a x inp i with
        | Ok (inp1, i1, p1) =>
            match skip inp1 i1 with
            | Ok (inp2, i2, p2) =>
                match run f sk a y inp2 i2 with
                | Ok (inp3, i3, p3) => Ok (inp3, i3, p1 ++ p2 ++ p3)
                | Fail => Fail
                | OutOfFuel => OutOfFuel
                end
            | Fail => Fail
            | OutOfFuel => OutOfFuel
            end
        | Fail => Fail
        | OutOfFuel => OutOfFuel
        end
    | Alt x y =>
        match run f sk a x inp i with
        | Ok r => Ok r
        | Fail => run f sk a y inp i
        | OutOfFuel => OutOfFuel
        end
    | Opt x =>
        match run f sk a x inp i with
        | Ok r => Ok r
        | Fail => Ok (inp, i, [])
        | OutOfFuel => OutOfFuel
        end
    | Star x =>
        (* skipping rule: (x (skip x)* )? ; atomic rule: x*  -- the same thing when skip is a no-op *)
        match run f sk a x inp i with
        | Ok (inp1, i1, p1) =>
            match reps f sk a x inp1 i1 with
            | Ok (inp2, i2, p2) => Ok (inp2, i2, p1 ++ p2)
            | Fail => Fail
            | OutOfFuel => OutOfFuel
            end
        | Fail => Ok (inp, i, [])
        | OutOfFuel => OutOfFuel
        end
    | Plus x => run f sk a (Seq x (Star x)) inp i
    | NotP x =>
        match run f sk a x inp i with
        | Ok _ => Fail
        | Fail => Ok (inp, i, [])
        | OutOfFuel => OutOfFuel
        end
    | AndP x =>
        match run f sk a x inp i with
        | Ok _ => Ok (inp, i, [])
        | Fail => Fail
        | OutOfFuel => OutOfFuel
        end
    end
  end
with reps (fuel : nat) (sk : bool) (a : atomicity) (x : pexp) (inp : str) (i : N) {struct fuel} : res :=
  match fuel with
  | O => OutOfFuel
  | S f =>
    let skipped : res :=
      match sk, a, skip_exp with
      | true, ANon, Some se => run f false ANon se inp i
      | _, _, _ => Ok (inp, i, [])
      end in
    match skipped with
    | Ok (inp1, i1, p1) =>
        match run f sk a x inp1 i1 with
        | Ok (inp2, i2, p2) =>
            match reps f sk a x inp2 i2 with
            | Ok (inp3, i3, p3) => Ok (inp3, i3, p1 ++ p2 ++ p3)
            | Fail => Fail
            | OutOfFuel => OutOfFuel
            end
        | Fail => Ok (inp, i, [])       (* the sequence (skip x) failed: everything it did is undone *)
        | OutOfFuel => OutOfFuel
        end
    | Fail => Ok (inp, i, [])
    | OutOfFuel => OutOfFuel
    end
  end.

(** Parser::parse(rule, input): the start rule is called on the whole input under NonAtomic. *)
Definition parse_with (fuel : nat) (start : R) (inp : str) : outcome (list pair) :=
  match run fuel true ANon (Call start) inp 0 with
  | Ok (_, _, ps) => Ok ps
  | Fail => Fail
  | OutOfFuel => OutOfFuel
  end.

(** fuel that is ample for grammars whose rule bodies nest less than a few hundred expression nodes:
    recursion depth grows by a bounded amount per consumed character and per nesting level. *)
Definition default_fuel (inp : str) : nat := 400 + 40 * length inp.

Definition parse (start : R) (inp : str) : outcome (list pair) := parse_with (default_fuel inp) start inp.

End Peg.

Arguments Lit {R}. Arguments ILit {R}. Arguments Range {R}. Arguments Any {R}. Arguments Soi {R}. Arguments Eoi {R}.

(** ** pair trees: flattening used by the correspondence (pest's own token queue, as numbers) *)
Section Flatten.
Variable R : Type.
Variable idx : R -> N.
(** pre-order: rule index, start, end, number of children *)
Fixpoint flatten_pair (p : pair R) : list N :=
  match p with
  | Pair r s e kids =>
      idx r :: s :: e :: N.of_nat (length kids) ::
      (fix go (l : list (pair R)) : list N := match l with [] => [] | x :: l' => flatten_pair x ++ go l' end) kids
  end.
Definition flatten_pairs (l : list (pair R)) : list N := flat_map flatten_pair l.
End Flatten.

(** ** positions: pest's Pair::line_col through LineIndex: a line ends at '\n' only; columns count
    scalar values.  Both 1-based in pest; this is the 0-based (line, column) of offset [off]. *)
Fixpoint line_col_from (inp : str) (off : nat) (line col : N) {struct off} : N * N :=
  match off with
  | O => (line, col)
  | S off' => match inp with
              | [] => (line, col)
              | c :: rest => if N.eqb c 10 then line_col_from rest off' (line + 1)%N 0%N
                             else line_col_from rest off' line (col + 1)%N
              end
  end.
Definition line_col (inp : str) (off : N) : N * N := line_col_from inp (N.to_nat off) 0 0.

(** Pair::as_str *)
Definition substr (inp : str) (s e : N) : str := firstn (N.to_nat (e - s)) (skipn (N.to_nat s) inp).
