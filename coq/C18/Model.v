(** C18 — model of the nitrogql CLI driver (definitions only).

    Modelled Rust code (as it is in /repo now):
      crates/cli/src/main.rs        run_cli, run_cli_impl, CommandError::{new,merge}, run_command
      crates/cli/src/check.rs       run_check, check_impl, resolve_schema, resolve_operations
      crates/cli/src/generate.rs    run_generate, write_file_and_sourcemap, write_file_without_sourcemap
      crates/cli/src/file_store.rs  FileStore::{add_file,get_file,index}
      crates/cli/src/output/mod.rs  CliOutput::{human_output,json_output,rdjson_output}
      crates/cli/src/output/file_kind.rs  Display of InputFileKind / OutputFileKind, to_source_map_kind
      crates/error/src/lib.rs       print_positioned_error, message_for_line
      crates/utils/src/chars.rs     first_non_space_byte_index, skip_chars
      json-writer 0.4.0             JSONObjectWriter / write_string (escaping)
      std                           str::lines, char::is_whitespace, Path::{file_name,set_file_name,set_extension,join}

    What the parser, the resolvers, the checker and the printers answer for the files of a project
    are *inputs* of the model (fields of [proj]); the model is the function that combines them into
    the process exit code, the bytes on stdout and stderr and the set of written files.  A Rust panic is
    the explicit outcome [Crash]. *)
From V Require Import Base.Util.
Local Open Scope N_scope.

(** * Small string helpers *)

Definition NL : N := 10.
Definition CR : N := 13.
Definition SLASH : N := 47.
Definition DOT : N := 46.

Fixpoint join (sep : str) (l : list str) : str :=
  match l with
  | [] => []
  | [x] => x
  | x :: r => x ++ sep ++ join sep r
  end.

Fixpoint ends_with (suffix x : str) : bool :=
  if str_eqb suffix x then true
  else match x with [] => false | _ :: r => ends_with suffix r end.

(** decimal rendering ([Display] of an unsigned integer) *)
Fixpoint uint_str (d : Decimal.uint) : str :=
  match d with
  | Decimal.Nil => []
  | Decimal.D0 r => 48 :: uint_str r
  | Decimal.D1 r => 49 :: uint_str r
  | Decimal.D2 r => 50 :: uint_str r
  | Decimal.D3 r => 51 :: uint_str r
  | Decimal.D4 r => 52 :: uint_str r
  | Decimal.D5 r => 53 :: uint_str r
  | Decimal.D6 r => 54 :: uint_str r
  | Decimal.D7 r => 55 :: uint_str r
  | Decimal.D8 r => 56 :: uint_str r
  | Decimal.D9 r => 57 :: uint_str r
  end.
Definition dec (n : N) : str := uint_str (N.to_uint n).

(** * Positions, errors, the file store *)

Record pos := mkpos { p_line : N; p_col : N; p_file : N; p_builtin : bool }.

(** [PositionedError]: the [Display] text of the inner error, the optional position, and the
    additional (position, message) pairs. *)
Record perr := mkerr { e_msg : str; e_pos : option pos; e_add : list (pos * str) }.

Definition plain (m : str) : perr := mkerr m None [].

(** one entry of [FileStore] (path, content, is-a-schema-file) *)
Record sfile := mkfile { f_path : str; f_src : str; f_schema : bool }.

(** [FileStore::get_file]; schema files first, then operation files, so an index is a list position *)
Definition get_file (files : list sfile) (i : N) : option sfile := nth_error files (N.to_nat i).

(** * crates/error: rendering a positioned error *)

(** [str::lines]: pieces end at '\n'; a '\r' directly before that '\n' is dropped; no final empty line *)
Fixpoint lines_aux (cur_rev : str) (x : str) : list str :=
  match x with
  | [] => match cur_rev with [] => [] | _ => [rev cur_rev] end
  | c :: r =>
      if N.eqb c NL
      then rev (match cur_rev with d :: t => if N.eqb d CR then t else cur_rev | [] => [] end) :: lines_aux [] r
      else lines_aux (c :: cur_rev) r
  end.
Definition lines (x : str) : list str := lines_aux [] x.

(** [char::is_whitespace] (Unicode White_Space) *)
Definition is_whitespace (c : N) : bool :=
  ((9 <=? c) && (c <=? 13)) || N.eqb c 32 || N.eqb c 133 || N.eqb c 160 || N.eqb c 5760
  || ((8192 <=? c) && (c <=? 8202)) || N.eqb c 8232 || N.eqb c 8233 || N.eqb c 8239
  || N.eqb c 8287 || N.eqb c 12288.

(** [first_non_space_byte_index(line).map(|(char_idx, _)| char_idx)] *)
Fixpoint first_non_space (i : N) (l : str) : option N :=
  match l with
  | [] => None
  | c :: r => if is_whitespace c then first_non_space (N.succ i) r else Some i
  end.

Fixpoint enumerate_from {A} (i : N) (l : list A) : list (N * A) :=
  match l with [] => [] | x :: r => (i, x) :: enumerate_from (N.succ i) r end.

Definition opt_min (a : option N) (b : N) : option N :=
  match a with None => Some b | Some x => Some (N.min x b) end.

Definition min_indent (rel : list (N * str)) : option N :=
  fold_left (fun acc '(_, l) => match first_non_space 0 l with Some i => opt_min acc i | None => acc end) rel None.

Definition INDENT : str := [32; 32; 32; 32].

Definition render_line (line : N) (mi : N) (ind spaces err : str) (il : N * str) : str :=
  let '(i, l) := il in
  let tl := skipn (N.to_nat mi) l in
  if N.eqb i line
  then ind ++ tl ++ [NL] ++ ind ++ spaces ++ [94; NL] ++ ind ++ spaces ++ err ++ [NL]
  else ind ++ tl ++ [NL].

(** "path:line:column\n", 1-based as VSCode counts *)
Definition location_line (path : str) (p : pos) : str :=
  path ++ [58] ++ dec (p_line p + 1) ++ [58] ++ dec (p_col p + 1) ++ [NL].

(** [message_for_line] with colours off (the CLI is run with its output piped).  When no source line can be
    shown (the line does not exist, or only blank lines surround it) the location is still printed, followed by
    the bare message — without indentation even for additional information. *)
Definition message_for_line (path src : str) (p : pos) (err : str) (additional : bool) : str :=
  let rel := firstn 5%nat (skipn (N.to_nat (p_line p - 2)) (enumerate_from 0 (lines src))) in
  if negb (existsb (fun il => N.eqb (fst il) (p_line p)) rel) then location_line path p ++ err
  else match min_indent rel with
       | None => location_line path p ++ err
       | Some mi =>
           let ind := if additional then INDENT else [] in
           let spaces := repeat 32%N (N.to_nat (p_col p - mi)) in
           ind ++ location_line path p
           ++ concat (map (render_line (p_line p) mi ind spaces err) rel)
       end.

Fixpoint render_additional (files : list sfile) (acc : str) (add : list (pos * str)) : option str :=
  match add with
  | [] => Some acc
  | (p, m) :: r =>
      if p_builtin p then render_additional files acc r
      else match get_file files (p_file p) with
           | None => None                       (* "File index out of range" *)
           | Some f => render_additional files (acc ++ [NL; NL] ++ message_for_line (f_path f) (f_src f) p m true) r
           end
  end.

(** [print_positioned_error]; [None] = the panic of [FileStore::index] *)
Definition print_positioned_error (files : list sfile) (e : perr) : option str :=
  match e_pos e with
  | None => Some (e_msg e)
  | Some p =>
      if p_builtin p then Some (e_msg e)
      else match get_file files (p_file p) with
           | None => None
           | Some f => render_additional files (message_for_line (f_path f) (f_src f) p (e_msg e) false) (e_add e)
           end
  end.

Fixpoint render_all (files : list sfile) (es : list perr) : option (list str) :=
  match es with
  | [] => Some []
  | e :: r =>
      match print_positioned_error files e with
      | None => None
      | Some m => match render_all files r with None => None | Some ms => Some (m :: ms) end
      end
  end.

(** * json-writer *)

Inductive json :=
| JNull
| JBool (b : bool)
| JNum (n : N)
| JStr (x : str)
| JArr (l : list json)
| JObj (l : list (str * json)).

Definition hex_digit (n : N) : N := if n <? 10 then 48 + n else 55 + n.

(** REPLACEMENTS / write_part_of_string_impl, read on scalar values (bytes >= 0x80 are never touched) *)
Definition esc_char (c : N) : str :=
  if N.eqb c 34 then [92; 34]
  else if N.eqb c 92 then [92; 92]
  else if N.eqb c 47 then [92; 47]
  else if N.eqb c 8 then [92; 98]
  else if N.eqb c 12 then [92; 102]
  else if N.eqb c 10 then [92; 110]
  else if N.eqb c 13 then [92; 114]
  else if N.eqb c 9 then [92; 116]
  else if c <? 32 then [92; 117; 48; 48; hex_digit (c / 16); hex_digit (c mod 16)]
  else [c].
Definition esc_str (x : str) : str := flat_map esc_char x.
Definition jstring (x : str) : str := 34 :: esc_str x ++ [34].

Fixpoint print_json (j : json) : str :=
  match j with
  | JNull => [110; 117; 108; 108]
  | JBool true => [116; 114; 117; 101]
  | JBool false => [102; 97; 108; 115; 101]
  | JNum n => dec n
  | JStr x => jstring x
  | JArr l =>
      [91] ++ (let fix go (l : list json) (first : bool) : str :=
                 match l with
                 | [] => []
                 | x :: r => (if first then [] else [44]) ++ print_json x ++ go r false
                 end in go l true) ++ [93]
  | JObj l =>
      [123] ++ (let fix go (l : list (str * json)) (first : bool) : str :=
                  match l with
                  | [] => []
                  | (k, v) :: r => (if first then [] else [44]) ++ jstring k ++ [58] ++ print_json v ++ go r false
                  end in go l true) ++ [125]
  end.

(** * Paths (Unix) *)

Fixpoint split_on (d : N) (x : str) : list str :=
  match x with
  | [] => [[]]
  | c :: r =>
      if N.eqb c d then [] :: split_on d r
      else match split_on d r with
           | [] => [[c]]
           | seg :: segs => (c :: seg) :: segs
           end
  end.

(** [PathBuf::join] *)
Definition path_join (root rel : str) : str :=
  match rel with
  | c :: _ => if N.eqb c SLASH then rel
              else match rev root with
                   | d :: _ => if N.eqb d SLASH then root ++ rel else root ++ [SLASH] ++ rel
                   | [] => rel
                   end
  | [] => match rev root with
          | d :: _ => if N.eqb d SLASH then root else root ++ [SLASH]
          | [] => []
          end
  end.

(** trailing empty and "." segments are not components (the list is reversed, last segment first) *)
Fixpoint drop_trailing (rsegs : list str) : list str :=
  match rsegs with
  | seg :: (_ :: _) as r => if str_eqb seg [] || str_eqb seg [DOT] then drop_trailing r else rsegs
  | _ => rsegs
  end.

(** [Path::file_name]: the last component if it is a normal one *)
Definition file_name (p : str) : option str :=
  match drop_trailing (rev (split_on SLASH p)) with
  | seg :: _ => if str_eqb seg [] || str_eqb seg [DOT] || str_eqb seg [DOT; DOT] then None else Some seg
  | [] => None
  end.

(** [PathBuf::set_file_name] when [file_name] is [Some] *)
Definition with_file_name (p name : str) : str :=
  match drop_trailing (rev (split_on SLASH p)) with
  | _ :: r =>
      match drop_trailing r with
      | [] => name
      | [[]] => SLASH :: name
      | r' => join [SLASH] (rev r') ++ [SLASH] ++ name
      end
  | [] => name
  end.

(** the source-map path of write_file_and_sourcemap: file name + ".map"; [None] = FailedToCalculateSourceMapFileName *)
Definition source_map_path (p : str) : option str :=
  match file_name p with
  | None => None
  | Some n => Some (with_file_name p (n ++ [46; 109; 97; 112]))
  end.

(** [Path::file_stem]: up to the last '.', unless that dot is the first character *)
Fixpoint last_dot_split (acc_rev : str) (x : str) (best : option (str * str)) : option (str * str) :=
  match x with
  | [] => best
  | c :: r =>
      if N.eqb c DOT then last_dot_split (c :: acc_rev) r (Some (rev acc_rev, r))
      else last_dot_split (c :: acc_rev) r best
  end.
Definition file_stem (name : str) : str :=
  match last_dot_split [] name None with
  | None => name
  | Some ([], _) => name
  | Some (before, _) => before
  end.

(** [PathBuf::set_extension(ext)] for a non-empty [ext] *)
Definition set_extension (p ext : str) : str :=
  match file_name p with
  | None => p
  | Some n => with_file_name p (file_stem n ++ [DOT] ++ ext)
  end.

(** * The project: what the stages answer *)

Inductive fmt := Human | Json | Rdjson.
Inductive gmode := WithLoaderTS50 | WithLoaderTS40 | StandaloneTS40.

(** result of a printer call: fine, an error value, or a panic *)
Inductive step_res := SOk | SErr (e : perr) | SPanic.

Record schf := mk_schf {
  sc_path : str; sc_src : str;
  sc_parse : option perr                 (* parse_type_system_document: None = Ok *)
}.

Record opf := mk_opf {
  op_path : str; op_src : str;
  op_parse : option perr;                (* parse_operation_document *)
  op_ext : option perr;                  (* resolve_operation_extensions *)
  op_imp : option perr;                  (* resolve_operation_imports *)
  op_check : list perr;                  (* check_operation_document *)
  op_print : step_res                    (* print_types_for_operation_document *)
}.

Record gencfg := mk_gencfg {
  g_mode : gmode;
  g_schema_output : option str;
  g_server_output : option str;
  g_resolvers_output : option str;
  g_module_specifier : bool;             (* schemaModuleSpecifier is set *)
  g_emit_runtime : bool
}.

Inductive cfgres := CfgOk | CfgInvalid (path : str).

Record proj := mk_proj {
  pj_root : str;
  pj_commands : list str;
  pj_format : fmt;
  pj_config : cfgres;
  pj_plugins : list str;
  pj_no_schema_glob : bool;              (* config.schema is empty *)
  pj_schema : list schf;                 (* in the order load_glob_files returns them (sorted) *)
  pj_virtual : list (str * str);         (* files plugins add through PluginHost::load_virtual_file *)
  pj_ops : list opf;
  pj_sch_resolve : option perr;          (* resolve_schema_extensions *)
  pj_sch_check : list perr;              (* check_type_system_document *)
  pj_sch_plugin_check : list perr;       (* plugin.check_schema, consulted only when the former is empty *)
  pj_gen : gencfg;
  pj_print_schema : step_res;            (* SchemaTypePrinter::print_document *)
  pj_print_server : step_res;            (* print_graphql into the JS string *)
  pj_print_resolvers : step_res          (* ResolverTypePrinter::print_document *)
}.

(** * CliOutput and the state threaded through the commands *)

Inductive okind := KSchema | KSchemaMap | KResolvers | KResolversMap | KOp | KOpMap | KGraphql | KGraphqlMap.

Definition to_source_map_kind (k : okind) : okind :=
  match k with
  | KSchema | KSchemaMap => KSchemaMap
  | KResolvers | KResolversMap => KResolversMap
  | KOp | KOpMap => KOpMap
  | KGraphql | KGraphqlMap => KGraphqlMap
  end.

Definition okind_str (k : okind) : str :=
  match k with
  | KSchema => s "schemaTypeDefinition"
  | KSchemaMap => s "schemaTypeDefinitionSourceMap"
  | KResolvers => s "resolversTypeDefinition"
  | KResolversMap => s "resolversTypeDefinitionSourceMap"
  | KOp => s "operationTypeDefinition"
  | KOpMap => s "operationTypeDefinitionSourceMap"
  | KGraphql => s "graphqlSource"
  | KGraphqlMap => s "graphqlSourceSourceMap"
  end.

Record st := mk_st {
  st_run : list str;                     (* CliOutput.commands_run *)
  st_check : list (bool * perr);         (* CliOutput.check_errors; true = InputFileKind::Schema *)
  st_gen : list (okind * str);           (* CliOutput.generated_files *)
  st_written : list str;                 (* files created on disk, in order *)
  st_log : str                           (* what eprintln! wrote so far *)
}.
Definition st0 : st := mk_st [] [] [] [] [].

Inductive res (A : Type) :=
| ROk (a : A) (x : st)
| RErr (e : perr) (x : st)
| RPanic (x : st).
Arguments ROk {A}. Arguments RErr {A}. Arguments RPanic {A}.

Inductive ctx := Unresolved | Resolved.

Fixpoint filter_some {A} (l : list (option A)) : list A :=
  match l with
  | [] => []
  | Some x :: r => x :: filter_some r
  | None :: r => filter_some r
  end.

Definition is_nil {A} (l : list A) : bool := match l with [] => true | _ => false end.

(** check.rs check_impl; [] = CheckImplOutput::Ok *)
Definition check_impl (p : proj) : list (bool * perr) :=
  match pj_sch_resolve p with
  | Some e => [(true, e)]
  | None =>
      let se := if is_nil (pj_sch_check p) then pj_sch_plugin_check p else pj_sch_check p in
      if negb (is_nil se) then map (pair true) se
      else
        let exts := filter_some (map op_ext (pj_ops p)) in
        if negb (is_nil exts) then map (pair false) exts
        else
          let imps := filter_some (map op_imp (pj_ops p)) in
          if negb (is_nil imps) then map (pair false) imps
          else map (pair false) (concat (map op_check (pj_ops p)))
  end.

Definition log_line (x : st) (l : str) : st :=
  mk_st (st_run x) (st_check x) (st_gen x) (st_written x) (st_log x ++ l ++ [NL]).
Definition add_run (x : st) (c : str) : st :=
  mk_st (st_run x ++ [c]) (st_check x) (st_gen x) (st_written x) (st_log x).
Definition add_check (x : st) (es : list (bool * perr)) : st :=
  mk_st (st_run x) (st_check x ++ es) (st_gen x) (st_written x) (st_log x).
(** a file is created on disk and then reported *)
Definition add_file (x : st) (k : okind) (path : str) : st :=
  mk_st (st_run x) (st_check x) (st_gen x ++ [(k, path)]) (st_written x ++ [path]) (st_log x).

Definition CHECK : str := s "check".
Definition GENERATE : str := s "generate".

(** check.rs run_check *)
Definition run_check (p : proj) (c : ctx) (x : st) : res ctx :=
  match c with
  | Resolved => RErr (plain (s "Invalid command: 'check' command cannot be called after another command")) x
  | Unresolved =>
      let x1 := add_run x CHECK in
      match check_impl p with
      | [] => ROk Resolved (log_line x1 (s "'check' finished"))
      | errs => RErr (plain (s "Command not successful: check")) (add_check x1 errs)
      end
  end.

(** generate.rs write_file_and_sourcemap (file-system calls are assumed to succeed) *)
Definition write_file_and_sourcemap (k : okind) (path : str) (x : st) : res unit :=
  match source_map_path path with
  | None => RErr (plain (s "Failed to calculate source map file name for '" ++ path ++ s "'.")) x
  | Some mp => ROk tt (add_file (add_file x k path) (to_source_map_kind k) mp)
  end.

Definition write_file_without_sourcemap (k : okind) (path : str) (x : st) : res unit :=
  ROk tt (add_file x k path).

Definition mode_ext (m : gmode) : str :=
  match m with
  | WithLoaderTS50 => s "d.graphql.ts"
  | WithLoaderTS40 => s "graphql.d.ts"
  | StandaloneTS40 => s "graphql.ts"
  end.

(** a printer call followed by a write *)
Definition print_then (r : step_res) (w : st -> res unit) (x : st) : res unit :=
  match r with
  | SOk => w x
  | SErr e => RErr e x
  | SPanic => RPanic x
  end.

Definition op_output (m : gmode) (o : opf) : str := set_extension (op_path o) (mode_ext m).

Fixpoint gen_ops (m : gmode) (ops : list opf) (x : st) : res unit :=
  match ops with
  | [] => ROk tt x
  | o :: r =>
      match print_then (op_print o) (write_file_and_sourcemap KOp (op_output m o)) x with
      | ROk _ x' => gen_ops m r x'
      | e => e
      end
  end.

Definition opt_step {A} (o : option A) (f : A -> st -> res unit) (x : st) : res unit :=
  match o with None => ROk tt x | Some a => f a x end.

Definition rbind {A B} (m : res A) (f : A -> st -> res B) : res B :=
  match m with
  | ROk a x => f a x
  | RErr e x => RErr e x
  | RPanic x => RPanic x
  end.

Definition is_some {A} (o : option A) : bool := match o with Some _ => true | None => false end.

Definition abs_output (p : proj) (o : option str) : option str := option_map (path_join (pj_root p)) o.

(** the schema output is a .d.ts file *)
Definition is_dts (so : option str) : bool :=
  match so with
  | Some o => match file_name o with Some n => ends_with (s ".d.ts") n | None => false end
  | None => false
  end.

(** generate.rs run_generate after the (possibly implicit) check *)
Definition generate_body (p : proj) (x0 : st) : res ctx :=
  let g := pj_gen p in
  let x := add_run x0 GENERATE in
  if negb (is_some (g_schema_output g)) && negb (g_module_specifier g)
  then RErr (plain (s "Option 'schemaOutput' is required for the 'generate' command. ")) x
  else
    let so := abs_output p (g_schema_output g) in
    if g_emit_runtime g && is_dts so
    then RErr (plain (s "Cannot emit code including runtime to a .d.ts file.")) x
    else
      rbind (opt_step so (fun o => print_then (pj_print_schema p) (write_file_and_sourcemap KSchema o)) x) (fun _ x1 =>
      rbind (opt_step (abs_output p (g_server_output g))
               (fun o => print_then (pj_print_server p) (write_file_without_sourcemap KGraphql o)) x1) (fun _ x2 =>
      rbind (opt_step (abs_output p (g_resolvers_output g))
               (fun o => print_then (pj_print_resolvers p) (write_file_and_sourcemap KResolvers o)) x2) (fun _ x3 =>
      rbind (gen_ops (g_mode g) (pj_ops p) x3) (fun _ x4 =>
      ROk Resolved (log_line x4 (s "'generate' finished")))))).

Definition run_generate (p : proj) (c : ctx) (x : st) : res ctx :=
  match c with
  | Resolved => generate_body p x
  | Unresolved =>
      match run_check p Unresolved x with
      | ROk _ x' => generate_body p x'
      | e => e
      end
  end.

(** main.rs run_command *)
Definition run_command (p : proj) (cmd : str) (c : ctx) (x : st) : res ctx :=
  if str_eqb cmd CHECK then run_check p c x
  else if str_eqb cmd GENERATE then run_generate p c x
  else RErr (plain (s "Unknown command '" ++ cmd ++ s "'")) x.

(** what run_cli_impl returns *)
Inductive impl_res :=
| IOk
| IErr (command : option str) (errs : list perr)       (* CommandError *)
| IPanic.

Fixpoint run_commands (p : proj) (cmds : list str) (c : ctx) (x : st) : impl_res * st :=
  match cmds with
  | [] => (IOk, x)
  | cmd :: r =>
      match run_command p cmd c x with
      | ROk c' x' => run_commands p r c' x'
      | RErr e x' => (IErr (Some cmd) [e], x')
      | RPanic x' => (IPanic, x')
      end
  end.

Definition known_plugin (n : str) : bool :=
  str_eqb n (s "nitrogql:model-plugin") || str_eqb n (s "nitrogql:graphql-scalars-plugin").

Fixpoint first_unknown_plugin (l : list str) : option str :=
  match l with
  | [] => None
  | n :: r => if known_plugin n then first_unknown_plugin r else Some n
  end.

(** the schema loop of run_cli_impl: the `?` returns at the first file that does not parse;
    result: the files added to the store so far, and that error *)
Fixpoint load_schema_files (l : list schf) (acc : list sfile) : list sfile * option perr :=
  match l with
  | [] => (acc, None)
  | f :: r =>
      let acc' := acc ++ [mkfile (sc_path f) (sc_src f) true] in
      match sc_parse f with
      | Some e => (acc', Some e)
      | None => load_schema_files r acc'
      end
  end.

Definition virtual_files (p : proj) : list sfile := map (fun '(n, c) => mkfile n c true) (pj_virtual p).
Definition op_files (p : proj) : list sfile := map (fun o => mkfile (op_path o) (op_src o) false) (pj_ops p).

(** main.rs run_cli_impl: (result, CliOutput/disk state, file store at the end) *)
Definition run_cli_impl (p : proj) : impl_res * st * list sfile :=
  if is_nil (pj_commands p) then (IErr None [plain (s "No command specified")], st0, [])
  else match pj_config p with
  | CfgInvalid path => (IErr None [plain (s "Cannot load config file '" ++ path ++ s "': validation error")], st0, [])
  | CfgOk =>
  match first_unknown_plugin (pj_plugins p) with
  | Some n => (IErr None [plain (s "Cannot load plugin '" ++ n ++ s "'")], st0, [])
  | None =>
  if pj_no_schema_glob p then (IErr None [plain (s "Schema file not specified")], st0, [])
  else
    match load_schema_files (pj_schema p) [] with
    | (files, Some e) => (IErr None [e], st0, files)
    | (files, None) =>
        let files := files ++ virtual_files p ++ op_files p in
        match filter_some (map op_parse (pj_ops p)) with
        | (_ :: _) as errs => (IErr None errs, st0, files)
        | [] => let '(r, x) := run_commands p (pj_commands p) Unresolved st0 in (r, x, files)
        end
    end
  end
  end.

(** * The three renderers *)

Definition u32 (n : N) : N := n mod 4294967296.

Definition located_file (files : list sfile) (e : perr) : option (sfile * pos) :=
  match e_pos e with
  | None => None
  | Some p => if p_builtin p then None
              else match get_file files (p_file p) with Some f => Some (f, p) | None => None end
  end.

Definition kind_str (schema : bool) : str := if schema then s "schema" else s "operation".

Definition check_error_json (files : list sfile) (ke : bool * perr) : json :=
  let '(k, e) := ke in
  JObj [ (s "fileType", JStr (kind_str k));
         (s "file", match located_file files e with
                    | Some (f, p) => JObj [ (s "path", JStr (f_path f)); (s "line", JNum (u32 (p_line p)));
                                            (s "column", JNum (u32 (p_col p))) ]
                    | None => JNull
                    end);
         (s "message", JStr (e_msg e)) ].

Definition gen_file_json (kp : okind * str) : json :=
  JObj [ (s "fileType", JStr (okind_str (fst kp))); (s "path", JStr (snd kp)) ].

Definition json_tree (files : list sfile) (x : st) (cerr : option (option str * str)) : json :=
  JObj ( match cerr with
         | Some (cmd, msg) =>
             [ (s "error", JObj [ (s "command", match cmd with Some c => JStr c | None => JNull end);
                                  (s "message", JStr msg) ]) ]
         | None => []
         end
      ++ (if existsb (str_eqb CHECK) (st_run x)
          then [ (s "check", JObj [ (s "errors", JArr (map (check_error_json files) (st_check x))) ]) ] else [])
      ++ (if existsb (str_eqb GENERATE) (st_run x)
          then [ (s "generate", JObj [ (s "files", JArr (map gen_file_json (st_gen x))) ]) ] else []) ).

Definition rd_diag (files : list sfile) (ke : bool * perr) : json :=
  let e := snd ke in
  JObj [ (s "message", JStr (e_msg e));
         (s "location", JObj match located_file files e with
                             | Some (f, p) =>
                                 [ (s "path", JStr (f_path f));
                                   (s "range", JObj [ (s "start", JObj [ (s "line", JNum (u32 (p_line p) + 1));
                                                                         (s "column", JNum (u32 (p_col p) + 1)) ]) ]) ]
                             | None => []
                             end) ].

Definition rdjson_tree (files : list sfile) (x : st) (cerr : option (option str * str)) : json :=
  JObj [ (s "source", JObj [ (s "name", JStr (s "nitrogql")); (s "url", JStr (s "https://nitrogql.vercel.app/")) ]);
         (s "severity", JStr (s "ERROR"));
         (s "diagnostics", JArr ( match cerr with Some (_, msg) => [ JObj [ (s "message", JStr msg) ] ] | None => [] end
                                  ++ map (rd_diag files) (st_check x) )) ].

Definition plural (n : nat) : str := match n with S (S _) => [115] | _ => [] end.

Definition human_group (files : list sfile) (what : str) (es : list perr) : option str :=
  match es with
  | [] => Some []
  | _ =>
      match render_all files es with
      | None => None
      | Some ms =>
          Some (s "Found " ++ dec (N.of_nat (length es)) ++ s " error" ++ plural (length es) ++ s " in " ++ what ++ [58; NL]
                ++ concat (map (fun m => m ++ [NL]) ms) ++ [NL])
      end
  end.

(** human_output; [None] = panic while rendering *)
Definition human_text (files : list sfile) (x : st) (cerr : option (option str * str)) : option str :=
  let sch := map snd (filter (fun ke => fst ke) (st_check x)) in
  let ops := map snd (filter (fun ke => negb (fst ke)) (st_check x)) in
  match human_group files (s "schema") sch with
  | None => None
  | Some a =>
      match human_group files (s "operations") ops with
      | None => None
      | Some b =>
          Some (a ++ b ++ match cerr with
                          | Some (Some c, m) => s "Error in command '" ++ c ++ s "':" ++ [NL] ++ m ++ [NL]
                          | Some (None, m) => s "Error:" ++ [NL] ++ m ++ [NL]
                          | None => []
                          end)
      end
  end.

(** * The process *)

Inductive outcome :=
| Exit (code : N) (stdout stderr : str) (written : list str)
| Crash (log : str) (written : list str).
    (* a Rust panic inside run_cli: [log] is what eprintln! wrote before it; the panic message follows on stderr *)

(** The exit status of the process.  main() spawns run_cli as a detached task of async-executor and drives
    the executor; async-task catches a panic of the task's future and drops it, [drive] returns, and main then
    ends with process::exit(101) (run_cli itself always ends with process::exit, so falling out of [drive]
    means that the task panicked). *)
Definition exit_status (o : outcome) : N :=
  match o with
  | Exit code _ _ _ => code
  | Crash _ _ => 101
  end.

(** run_cli: exit code and CliOutput::command_error from the result of run_cli_impl;
    [None] = print_positioned_error panicked *)
Definition command_error (files : list sfile) (r : impl_res) : option (N * option (option str * str)) :=
  match r with
  | IErr cmd errs =>
      match render_all files errs with
      | None => None
      | Some ms => Some (1, Some (cmd, join [NL] ms))
      end
  | _ => Some (0, None)
  end.

Definition render (f : fmt) (files : list sfile) (x : st) (code : N) (cerr : option (option str * str)) : outcome :=
  match f with
  | Human =>
      match human_text files x cerr with
      | None => Crash (st_log x) (st_written x)
      | Some t => Exit code [] (st_log x ++ t) (st_written x)
      end
  | Json => Exit code (print_json (json_tree files x cerr) ++ [NL]) (st_log x) (st_written x)
  | Rdjson => Exit code (print_json (rdjson_tree files x cerr) ++ [NL]) (st_log x) (st_written x)
  end.

(** main.rs run_cli *)
Definition run (p : proj) : outcome :=
  let '(r, x, files) := run_cli_impl p in
  match r with
  | IPanic => Crash (st_log x) (st_written x)
  | _ =>
      match command_error files r with
      | None => Crash (st_log x) (st_written x)
      | Some (code, cerr) => render (pj_format p) files x code cerr
      end
  end.
