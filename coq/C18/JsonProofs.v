(** C18 — what json-writer's layout and escaping (Model.print_json) produces is read back by the
    RFC 8259 reader of Spec.v: [parse_json (print_json t ++ "\n") = Some t] for every tree [t]. *)
From V Require Import Base.Util C18.Model C18.Spec.
From Coq Require Import DecimalN DecimalPos.
Local Open Scope N_scope.

(** * induction principle for the nested type *)
Section JsonInd.
  Variable P : json -> Prop.
  Hypothesis HNull : P JNull.
  Hypothesis HBool : forall b, P (JBool b).
  Hypothesis HNum : forall n, P (JNum n).
  Hypothesis HStr : forall x, P (JStr x).
  Hypothesis HArr : forall l, Forall P l -> P (JArr l).
  Hypothesis HObj : forall l, Forall (fun kv => P (snd kv)) l -> P (JObj l).
  Fixpoint json_ind' (j : json) : P j :=
    match j with
    | JNull => HNull
    | JBool b => HBool b
    | JNum n => HNum n
    | JStr x => HStr x
    | JArr l => HArr l ((fix go (l : list json) : Forall P l :=
                           match l with [] => Forall_nil _ | x :: r => Forall_cons x (json_ind' x) (go r) end) l)
    | JObj l => HObj l ((fix go (l : list (str * json)) : Forall (fun kv => P (snd kv)) l :=
                           match l with [] => Forall_nil _ | kv :: r => Forall_cons kv (json_ind' (snd kv)) (go r) end) l)
    end.
End JsonInd.

(** * the printer, with its local loops named *)
Fixpoint print_items (l : list json) (first : bool) : str :=
  match l with
  | [] => []
  | x :: r => (if first then [] else [44]) ++ print_json x ++ print_items r false
  end.
Fixpoint print_members (l : list (str * json)) (first : bool) : str :=
  match l with
  | [] => []
  | (k, v) :: r => (if first then [] else [44]) ++ jstring k ++ [58] ++ print_json v ++ print_members r false
  end.

Lemma print_json_arr l : print_json (JArr l) = [91] ++ print_items l true ++ [93].
Proof. reflexivity. Qed.
Lemma print_json_obj l : print_json (JObj l) = [123] ++ print_members l true ++ [125].
Proof. reflexivity. Qed.

(** * numbers *)
Definition ok_follow (rest : str) : Prop :=
  match rest with c :: _ => is_digit c = false | [] => True end.

Lemma parse_digits_uint_str u rest : ok_follow rest -> parse_digits (uint_str u ++ rest) = (u, rest).
Proof.
  intro Hf. induction u as [|u IH|u IH|u IH|u IH|u IH|u IH|u IH|u IH|u IH|u IH];
    try (cbn [uint_str app parse_digits]; change (is_digit _) with true; cbn iota; rewrite IH; reflexivity).
  cbn [uint_str app]. destruct rest as [|c r]; [reflexivity|].
  cbn [parse_digits]. cbn in Hf. now rewrite Hf.
Qed.

Lemma dec_cons n : exists c r, dec n = c :: r /\ is_digit c = true.
Proof.
  unfold dec. assert (H : N.to_uint n <> Decimal.Nil).
  { destruct n as [|p]; [discriminate|]. apply DecimalPos.Unsigned.to_uint_nonnil. }
  destruct (N.to_uint n); try congruence; cbn [uint_str]; eexists; eexists; split; reflexivity.
Qed.

Lemma is_digit_bounds c : is_digit c = true -> 48 <= c <= 57.
Proof. unfold is_digit. intro H. apply andb_true_iff in H as [H1 H2]. apply N.leb_le in H1, H2. lia. Qed.

Lemma eqb_false_of_digit c k : is_digit c = true -> (k < 48 \/ 57 < k) -> N.eqb c k = false.
Proof. intros H Hk. apply is_digit_bounds in H. apply N.eqb_neq. lia. Qed.

Definition is_ws (c : N) : bool := N.eqb c 32 || N.eqb c 9 || N.eqb c 10 || N.eqb c 13.
Lemma skip_ws_cons c r : is_ws c = false -> skip_ws (c :: r) = c :: r.
Proof. unfold is_ws. intro H. cbn [skip_ws]. now rewrite H. Qed.
Lemma digit_not_ws c : is_digit c = true -> is_ws c = false.
Proof.
  intro H. unfold is_ws. rewrite !(eqb_false_of_digit c) by (auto; lia). reflexivity.
Qed.

(** * strings *)
Lemma small_cases (P : N -> bool) :
  forallb P (map N.of_nat (seq 0 32)) = true -> forall a, a < 32 -> P a = true.
Proof.
  intros H a Ha. rewrite forallb_forall in H. apply H.
  rewrite <- (N2Nat.id a). apply in_map. apply in_seq. lia.
Qed.

Lemma hex4_small a : a < 32 -> hex4 48 48 (hex_digit (a / 16)) (hex_digit (a mod 16)) = Some a.
Proof.
  intro Ha.
  pose (P := fun a => match hex4 48 48 (hex_digit (a / 16)) (hex_digit (a mod 16)) with Some b => N.eqb b a | None => false end).
  assert (HP : P a = true) by (apply small_cases; [vm_compute; reflexivity | exact Ha]).
  unfold P in HP. destruct (hex4 _ _ _ _) as [b|]; [|discriminate]. apply N.eqb_eq in HP. now subst.
Qed.

Lemma parse_string_body_esc x rest : parse_string_body (esc_str x ++ [34] ++ rest) = Some (x, rest).
Proof.
  induction x as [|a x IH]; [reflexivity|].
  unfold esc_str in *. cbn [flat_map]. rewrite <- app_assoc.
  remember (flat_map esc_char x ++ [34] ++ rest) as tail eqn:Et. clear Et.
  unfold esc_char.
  destruct (N.eqb_spec a 34) as [->|N34]; [cbn; rewrite IH; reflexivity|].
  destruct (N.eqb_spec a 92) as [->|N92]; [cbn; rewrite IH; reflexivity|].
  destruct (N.eqb_spec a 47) as [->|N47]; [cbn; rewrite IH; reflexivity|].
  destruct (N.eqb_spec a 8) as [->|N8]; [cbn; rewrite IH; reflexivity|].
  destruct (N.eqb_spec a 12) as [->|N12]; [cbn; rewrite IH; reflexivity|].
  destruct (N.eqb_spec a 10) as [->|N10]; [cbn; rewrite IH; reflexivity|].
  destruct (N.eqb_spec a 13) as [->|N13]; [cbn; rewrite IH; reflexivity|].
  destruct (N.eqb_spec a 9) as [->|N9]; [cbn; rewrite IH; reflexivity|].
  destruct (N.ltb_spec a 32) as [Hlt|Hge].
  - cbn [app parse_string_body].
    change (N.eqb 92 34) with false. change (N.eqb 92 92) with true. change (N.eqb 117 117) with true. cbn iota.
    rewrite (hex4_small a Hlt). rewrite IH. reflexivity.
  - cbn [app parse_string_body].
    apply N.eqb_neq in N34, N92. rewrite N34, N92.
    assert (Hge' : (a <? 32) = false) by (apply N.ltb_ge; exact Hge). rewrite Hge'.
    rewrite IH. reflexivity.
Qed.

Lemma parse_jstring x rest : parse_string_body (tl (jstring x) ++ rest) = Some (x, rest).
Proof. unfold jstring. cbn [tl]. rewrite <- app_assoc. apply parse_string_body_esc. Qed.

(** * fuel *)
Fixpoint size (j : json) : nat :=
  match j with
  | JArr l => S (fold_right (fun x acc => S (size x + acc)) O l)
  | JObj l => S (fold_right (fun kv acc => S (size (snd kv) + acc)) O l)
  | _ => 1
  end.
Definition sizes (l : list json) : nat := fold_right (fun x acc => S (size x + acc)) O l.
Definition msizes (l : list (str * json)) : nat := fold_right (fun kv acc => S (size (snd kv) + acc)) O l.

(** * heads *)
Lemma print_json_head j :
  exists c r, print_json j = c :: r /\ is_ws c = false /\ c <> 93.
Proof.
  destruct j as [|[|]|n|x|l|l].
  - eexists; eexists; split; [reflexivity|split; [reflexivity|discriminate]].
  - eexists; eexists; split; [reflexivity|split; [reflexivity|discriminate]].
  - eexists; eexists; split; [reflexivity|split; [reflexivity|discriminate]].
  - destruct (dec_cons n) as (c & r & E & Hd). exists c, r. cbn [print_json]. split; [exact E|].
    split; [apply digit_not_ws; exact Hd|]. apply is_digit_bounds in Hd. lia.
  - eexists; eexists; split; [reflexivity|split; [reflexivity|discriminate]].
  - rewrite print_json_arr. eexists; eexists; split; [reflexivity|split; [reflexivity|discriminate]].
  - rewrite print_json_obj. eexists; eexists; split; [reflexivity|split; [reflexivity|discriminate]].
Qed.

(** * the round trip *)
Definition RT (j : json) : Prop :=
  forall fuel rest, (size j <= fuel)%nat -> ok_follow rest ->
    parse_value fuel (print_json j ++ rest) = Some (j, rest).

Lemma parse_value_S f x :
  parse_value (S f) x =
  match skip_ws x with
  | [] => None
  | c :: r =>
      if N.eqb c 34 then
        match parse_string_body r with Some (t, rest) => Some (JStr t, rest) | None => None end
      else if N.eqb c 91 then
        match skip_ws r with
        | d :: r' => if N.eqb d 93 then Some (JArr [], r')
                     else match parse_elems f r with Some (l, rest) => Some (JArr l, rest) | None => None end
        | [] => None
        end
      else if N.eqb c 123 then
        match skip_ws r with
        | d :: r' => if N.eqb d 125 then Some (JObj [], r')
                     else match parse_members f r with Some (l, rest) => Some (JObj l, rest) | None => None end
        | [] => None
        end
      else if is_digit c then
        let '(u, rest) := parse_digits (c :: r) in Some (JNum (N.of_uint u), rest)
      else if starts_with [110; 117; 108; 108] (c :: r) then Some (JNull, skipn 4 (c :: r))
      else if starts_with [116; 114; 117; 101] (c :: r) then Some (JBool true, skipn 4 (c :: r))
      else if starts_with [102; 97; 108; 115; 101] (c :: r) then Some (JBool false, skipn 5 (c :: r))
      else None
  end.
Proof. reflexivity. Qed.

Lemma parse_elems_S f x :
  parse_elems (S f) x =
  match parse_value f x with
  | None => None
  | Some (v, r) =>
      match skip_ws r with
      | d :: r' =>
          if N.eqb d 44 then match parse_elems f r' with Some (l, rest) => Some (v :: l, rest) | None => None end
          else if N.eqb d 93 then Some ([v], r')
          else None
      | [] => None
      end
  end.
Proof. reflexivity. Qed.

Lemma parse_members_S f x :
  parse_members (S f) x =
  match skip_ws x with
  | q :: r =>
      if N.eqb q 34 then
        match parse_string_body r with
        | None => None
        | Some (k, r1) =>
            match skip_ws r1 with
            | d :: r2 =>
                if N.eqb d 58 then
                  match parse_value f r2 with
                  | None => None
                  | Some (v, r3) =>
                      match skip_ws r3 with
                      | e :: r4 =>
                          if N.eqb e 44 then match parse_members f r4 with Some (l, rest) => Some ((k, v) :: l, rest) | None => None end
                          else if N.eqb e 125 then Some ([(k, v)], r4)
                          else None
                      | [] => None
                      end
                  end
                else None
            | [] => None
            end
        end
      else None
  | [] => None
  end.
Proof. reflexivity. Qed.

Lemma elems_rt x r :
  RT x -> Forall RT r ->
  forall fuel rest, (sizes (x :: r) <= fuel)%nat ->
    parse_elems fuel (print_json x ++ print_items r false ++ [93] ++ rest) = Some (x :: r, rest).
Proof.
  intros Hx Hr. revert x Hx. induction Hr as [|y r Hy Hr IH]; intros x Hx fuel rest Hf.
  - destruct fuel as [|f]; [cbn in Hf; lia|]. rewrite parse_elems_S.
    cbn [print_items app]. rewrite (Hx f (93 :: rest)); [|cbn in Hf |- *; lia|reflexivity].
    reflexivity.
  - destruct fuel as [|f]; [cbn in Hf; lia|]. rewrite parse_elems_S.
    cbn [print_items app]. rewrite <- !app_assoc.
    rewrite (Hx f); [|cbn in Hf |- *; lia|reflexivity].
    cbn [app skip_ws]. change (N.eqb 44 32 || N.eqb 44 9 || N.eqb 44 10 || N.eqb 44 13) with false. cbn iota.
    change (N.eqb 44 44) with true. cbn iota.
    specialize (IH y Hy f rest). cbn [app] in IH.
    rewrite IH; [reflexivity|]. cbn in Hf |- *. lia.
Qed.

Lemma members_rt k v r :
  RT v -> Forall (fun kv => RT (snd kv)) r ->
  forall fuel rest, (msizes ((k, v) :: r) <= fuel)%nat ->
    parse_members fuel (jstring k ++ [58] ++ print_json v ++ print_members r false ++ [125] ++ rest)
    = Some ((k, v) :: r, rest).
Proof.
  intros Hv Hr. revert k v Hv. induction Hr as [|[k2 v2] r Hy Hr IH]; intros k v Hv fuel rest Hf.
  - destruct fuel as [|f]; [cbn in Hf; lia|]. rewrite parse_members_S.
    unfold jstring at 1. cbn [app skip_ws]. change (N.eqb 34 32 || N.eqb 34 9 || N.eqb 34 10 || N.eqb 34 13) with false. cbn iota.
    change (N.eqb 34 34) with true. cbn iota.
    rewrite <- !app_assoc. rewrite parse_string_body_esc.
    cbn [app skip_ws]. change (N.eqb 58 32 || N.eqb 58 9 || N.eqb 58 10 || N.eqb 58 13) with false. cbn iota.
    change (N.eqb 58 58) with true. cbn iota.
    cbn [print_members app]. rewrite (Hv f (125 :: rest)); [|cbn in Hf |- *; lia|reflexivity].
    reflexivity.
  - destruct fuel as [|f]; [cbn in Hf; lia|]. rewrite parse_members_S.
    unfold jstring at 1. cbn [app skip_ws]. change (N.eqb 34 32 || N.eqb 34 9 || N.eqb 34 10 || N.eqb 34 13) with false. cbn iota.
    change (N.eqb 34 34) with true. cbn iota.
    rewrite <- !app_assoc. rewrite parse_string_body_esc.
    cbn [app skip_ws]. change (N.eqb 58 32 || N.eqb 58 9 || N.eqb 58 10 || N.eqb 58 13) with false. cbn iota.
    change (N.eqb 58 58) with true. cbn iota.
    cbn [print_members app]. rewrite <- !app_assoc.
    rewrite (Hv f); [|cbn in Hf |- *; lia|reflexivity].
    cbn [app skip_ws]. change (N.eqb 44 32 || N.eqb 44 9 || N.eqb 44 10 || N.eqb 44 13) with false. cbn iota.
    change (N.eqb 44 44) with true. cbn iota.
    cbn [snd] in Hy. specialize (IH k2 v2 Hy f rest). cbn [app] in IH. rewrite <- ?app_assoc.
    rewrite IH; [reflexivity|]. cbn in Hf |- *. lia.
Qed.

Lemma round_trip_value : forall j, RT j.
Proof.
  induction j as [| b | n | x | l Hl | l Hl] using json_ind'; intros fuel rest Hf Hok;
    (destruct fuel as [|f]; [cbn in Hf; lia|]); rewrite parse_value_S.
  - reflexivity.
  - destruct b; reflexivity.
  - destruct (dec_cons n) as (c & r & E & Hd). cbn [print_json]. rewrite E. cbn [app].
    rewrite (skip_ws_cons c _ (digit_not_ws c Hd)).
    rewrite !(eqb_false_of_digit c) by (auto; lia). rewrite Hd.
    change (c :: r ++ rest) with ((c :: r) ++ rest). rewrite <- E. unfold dec.
    rewrite (parse_digits_uint_str _ rest Hok). now rewrite DecimalN.Unsigned.of_to.
  - cbn [print_json]. unfold jstring. cbn [app skip_ws].
    change (N.eqb 34 32 || N.eqb 34 9 || N.eqb 34 10 || N.eqb 34 13) with false. cbn iota.
    change (N.eqb 34 34) with true. cbn iota.
    rewrite <- app_assoc. now rewrite parse_string_body_esc.
  - rewrite print_json_arr. cbn [app skip_ws].
    change (N.eqb 91 32 || N.eqb 91 9 || N.eqb 91 10 || N.eqb 91 13) with false. cbn iota.
    change (N.eqb 91 34) with false. change (N.eqb 91 91) with true. cbn iota.
    destruct l as [|x r].
    + reflexivity.
    + inversion Hl as [|x' r' Hx Hr]; subst.
      cbn [print_items app]. rewrite <- !app_assoc.
      destruct (print_json_head x) as (c & t & E & Hws & H93).
      rewrite E at 1. cbn [app]. rewrite (skip_ws_cons c _ Hws).
      apply N.eqb_neq in H93. rewrite H93.
      pose proof (elems_rt x r Hx Hr f rest) as HE. cbn [app] in HE.
      rewrite HE; [reflexivity|]. cbn in Hf |- *. unfold sizes. lia.
  - rewrite print_json_obj. cbn [app skip_ws].
    change (N.eqb 123 32 || N.eqb 123 9 || N.eqb 123 10 || N.eqb 123 13) with false. cbn iota.
    change (N.eqb 123 34) with false. change (N.eqb 123 91) with false. change (N.eqb 123 123) with true. cbn iota.
    destruct l as [|[k v] r].
    + reflexivity.
    + inversion Hl as [|x' r' Hx Hr]; subst. cbn [snd] in Hx.
      cbn [print_members app]. rewrite <- !app_assoc.
      unfold jstring at 1. cbn [app skip_ws].
      change (N.eqb 34 32 || N.eqb 34 9 || N.eqb 34 10 || N.eqb 34 13) with false. cbn iota.
      change (N.eqb 34 125) with false. cbn iota.
      pose proof (members_rt k v r Hx Hr f rest) as HE. cbn [app] in HE. rewrite <- ?app_assoc.
      rewrite HE; [reflexivity|]. cbn in Hf |- *. unfold msizes. lia.
Qed.

(** the fuel [parse_json] gives is enough *)
Lemma fold_sizes_le (l : list json) :
  Forall (fun j => (size j <= length (print_json j))%nat) l ->
  forall b : bool, (sizes l <= length (print_items l b) + (if b then 1 else 0))%nat.
Proof.
  induction 1 as [|x r Hx Hr IH]; intro b; [destruct b; cbn; lia|].
  cbn [sizes fold_right print_items]. fold (sizes r). specialize (IH false).
  rewrite !app_length. destruct b; cbn [length]; cbn in IH; lia.
Qed.

Lemma fold_msizes_le (l : list (str * json)) :
  Forall (fun kv => (size (snd kv) <= length (print_json (snd kv)))%nat) l ->
  forall b : bool, (msizes l <= length (print_members l b) + (if b then 1 else 0))%nat.
Proof.
  induction 1 as [|[k v] r Hx Hr IH]; intro b; [destruct b; cbn; lia|].
  cbn [msizes fold_right print_members snd]. fold (msizes r). specialize (IH false). cbn [snd] in Hx.
  rewrite !app_length. unfold jstring. cbn [length]. rewrite app_length. destruct b; cbn [length]; cbn in IH; lia.
Qed.

Lemma size_le_length j : (size j <= length (print_json j))%nat.
Proof.
  induction j as [| b | n | x | l Hl | l Hl] using json_ind'.
  - cbn; lia.
  - destruct b; cbn; lia.
  - destruct (dec_cons n) as (c & r & E & _). cbn [print_json size]. rewrite E. cbn; lia.
  - cbn [print_json size]. unfold jstring. cbn; lia.
  - rewrite print_json_arr. cbn [size]. fold (sizes l).
    pose proof (fold_sizes_le l Hl true) as H. cbn iota in H. rewrite !app_length. cbn [length]. lia.
  - rewrite print_json_obj. cbn [size]. fold (msizes l).
    pose proof (fold_msizes_le l Hl true) as H. cbn iota in H. rewrite !app_length. cbn [length]. lia.
Qed.

Theorem parse_print_json t : parse_json (print_json t ++ [10]) = Some t.
Proof.
  unfold parse_json.
  rewrite (round_trip_value t (S (length (print_json t ++ [10]))) [10]).
  - reflexivity.
  - pose proof (size_le_length t). rewrite app_length. lia.
  - reflexivity.
Qed.
