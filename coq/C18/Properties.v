(** C18 — property theorems only. *)
From V Require Import Base.Util C18.Model C18.Spec C18.Proofs.

Theorem C18_placeholder : True.
Proof. exact placeholder. Qed.
Print Assumptions C18_placeholder.
