(** C18 — property theorems only.  Each is closed by [exact] of a lemma proved in Proofs.v / JsonProofs.v
    and followed by [Print Assumptions]. *)
From V Require Import Base.Util C18.Model C18.Spec C18.Corr C18.JsonProofs C18.Proofs C18.NoPanic.
Local Open Scope N_scope.

(** exit status 0 exactly when no stage reports anything ([clean] is a predicate on the stage answers);
    no guard: a panic is the outcome [Crash], whose status is 101 *)
Theorem C18_exit_zero_iff_no_diagnostic : forall p, exit_status (run p) = 0 <-> clean p = true.
Proof. exact exit_zero_iff_clean. Qed.
Print Assumptions C18_exit_zero_iff_no_diagnostic.

Theorem C18_exit_status_cases : forall p,
  exit_status (run p) = 0 \/ exit_status (run p) = 1 \/ exit_status (run p) = 101.
Proof. exact exit_status_cases. Qed.
Print Assumptions C18_exit_status_cases.

Theorem C18_crash_exit_status : forall p, crashed (run p) = true -> exit_status (run p) = 101.
Proof. exact crash_exit_status. Qed.
Print Assumptions C18_crash_exit_status.

(** a computable condition on the stage answers that rules panics out (status is then 0 or 1): no printer
    panics and every position of every error names a file already in the store *)
Theorem C18_no_panic_guard : forall p, no_panic_b p = true -> crashed (run p) = false.
Proof. exact no_panic_guard. Qed.
Print Assumptions C18_no_panic_guard.

(** what a panic looks like (stage answers with a panicking printer): status 101, files stay, listed nowhere *)
Theorem C18_crash_witness :
  exists p, crashed (run p) = true /\ exit_status (run p) = 101 /\ clean p = false /\ outcome_written (run p) <> [].
Proof. exact crash_witness. Qed.
Print Assumptions C18_crash_witness.

(** the same on the JSON document: exit 0 iff it has no "error" member, and then no check error *)
Theorem C18_exit_zero_iff_no_diagnostic_json : forall p code out err w,
  run p = Exit code out err w -> pj_format p = Json ->
  exists t, parse_json out = Some t
            /\ (code = 0 <-> jfield (s "error") t = None)
            /\ (code = 0 -> json_diags t = Some []).
Proof. exact json_exit_zero_iff_no_error. Qed.
Print Assumptions C18_exit_zero_iff_no_diagnostic_json.

(** what json-writer prints is read back by the RFC 8259 reader, for every tree *)
Theorem C18_parse_print_json : forall t, parse_json (print_json t ++ [10]) = Some t.
Proof. exact parse_print_json. Qed.
Print Assumptions C18_parse_print_json.

(** json / rdjson: stdout is one well-formed JSON document *)
Theorem C18_json_wellformed : forall p code out err w,
  run p = Exit code out err w -> pj_format p <> Human ->
  exists t, out = print_json t ++ [10] /\ parse_json out = Some t.
Proof. exact json_wellformed. Qed.
Print Assumptions C18_json_wellformed.

(** `check` writes no file *)
Theorem C18_check_writes_nothing : forall p,
  existsb (str_eqb GENERATE) (pj_commands p) = false -> outcome_written (run p) = [].
Proof. exact check_writes_nothing. Qed.
Print Assumptions C18_check_writes_nothing.

(** `generate` writes exactly the files it reports (CliOutput.generated_files), panic or not ... *)
Theorem C18_generate_writes_exactly_listed : forall p,
  outcome_written (run p) = map snd (st_gen (snd (fst (run_cli_impl p)))).
Proof. exact written_is_listed. Qed.
Print Assumptions C18_generate_writes_exactly_listed.

(** ... and in the json format those are the files the document lists *)
Theorem C18_json_lists_written : forall p code out err w,
  run p = Exit code out err w -> pj_format p = Json ->
  exists t, parse_json out = Some t /\ json_listed t = Some w.
Proof. exact json_lists_written. Qed.
Print Assumptions C18_json_lists_written.

(** nothing is written when a fault is found before generation: configuration, parse errors, failing check *)
Theorem C18_nothing_written_on_failure : forall p,
  pre_ok p = false \/ check_impl p <> [] -> outcome_written (run p) = [].
Proof. exact nothing_written_on_failure. Qed.
Print Assumptions C18_nothing_written_on_failure.

(** every error check_impl answers is recorded, and the json document carries all of them in order *)
Theorem C18_check_errors_all_reported : forall p,
  reaches_check p -> st_check (snd (fst (run_cli_impl p))) = check_impl p.
Proof. exact check_errors_all_reported. Qed.
Print Assumptions C18_check_errors_all_reported.

Theorem C18_json_reports_check_errors : forall p code out err w,
  run p = Exit code out err w -> pj_format p = Json -> reaches_check p ->
  exists t, parse_json out = Some t
            /\ jfield (s "check") t
               = Some (JObj [ (s "errors", JArr (map (check_error_json (store p)) (check_impl p))) ]).
Proof. exact json_reports_check_errors. Qed.
Print Assumptions C18_json_reports_check_errors.

(** check-stage diagnostics for every offending file, not only the first *)
Theorem C18_all_offending_files_reported : forall p code out err w o e,
  run p = Exit code out err w -> pj_format p = Json -> reaches_check p ->
  schema_stage_ok p -> (forall o', In o' (pj_ops p) -> op_ext o' = None /\ op_imp o' = None) ->
  In o (pj_ops p) -> In e (op_check o) ->
  exists t l, parse_json out = Some t
              /\ jfield (s "check") t = Some (JObj [ (s "errors", JArr l) ])
              /\ In (check_error_json (store p) (false, e)) l.
Proof. exact all_offending_files_reported. Qed.
Print Assumptions C18_all_offending_files_reported.

Theorem C18_schema_errors_all_answered : forall p e,
  pj_sch_resolve p = None -> In e (pj_sch_check p) -> In (true, e) (check_impl p).
Proof. exact check_impl_schema_stage. Qed.
Print Assumptions C18_schema_errors_all_answered.

Theorem C18_import_errors_all_answered : forall p o e,
  schema_stage_ok p -> (forall o', In o' (pj_ops p) -> op_ext o' = None) ->
  In o (pj_ops p) -> op_imp o = Some e -> In (false, e) (check_impl p).
Proof. exact check_impl_imp_stage. Qed.
Print Assumptions C18_import_errors_all_answered.

(** a located check error is rendered with the path of the file its position names *)
Theorem C18_check_error_names_file : forall files k e f pos,
  located_file files e = Some (f, pos) ->
  check_error_json files (k, e)
  = JObj [ (s "fileType", JStr (kind_str k));
           (s "file", JObj [ (s "path", JStr (f_path f)); (s "line", JNum (u32 (p_line pos)));
                             (s "column", JNum (u32 (p_col pos))) ]);
           (s "message", JStr (e_msg e)) ].
Proof. exact check_error_json_located. Qed.
Print Assumptions C18_check_error_names_file.

(** rdjson carries command errors (the first diagnostic) *)
Theorem C18_rdjson_has_command_error : forall p out err w,
  run p = Exit 1 out err w -> pj_format p = Rdjson ->
  exists t msg rest, parse_json out = Some t
                     /\ jfield (s "diagnostics") t = Some (JArr (JObj [(s "message", JStr msg)] :: rest)).
Proof. exact rdjson_has_command_error. Qed.
Print Assumptions C18_rdjson_has_command_error.

(** diagnostics with a position are located in text: path:line:column (1-based) comes first, whether or not a
    source line can be shown *)
Theorem C18_message_for_line_located : forall path src p err additional,
  exists ind rest, (ind = [] \/ ind = INDENT)
    /\ message_for_line path src p err additional = ind ++ location_line path p ++ rest.
Proof. exact message_for_line_located. Qed.
Print Assumptions C18_message_for_line_located.

Theorem C18_message_for_line_no_line : forall path src p err additional,
  N.of_nat (length (lines src)) <= p_line p ->
  message_for_line path src p err additional = location_line path p ++ err.
Proof. exact message_for_line_no_line. Qed.
Print Assumptions C18_message_for_line_no_line.

Theorem C18_positioned_error_located : forall files e p m,
  print_positioned_error files e = Some m -> e_pos e = Some p -> p_builtin p = false ->
  exists f rest, get_file files (p_file p) = Some f /\ m = location_line (f_path f) p ++ rest.
Proof. exact positioned_error_located. Qed.
Print Assumptions C18_positioned_error_located.

(** the former finding, now located in all three formats *)
Theorem C18_parse_error_at_end_of_input_located :
  forall f, exists texts,
    run_texts (eof_witness f) = Some (1, texts)
    /\ flat_map (locations_of (s "/w/q.graphql")) texts = [(2, 1)].
Proof. exact parse_error_at_end_of_input_located. Qed.
Print Assumptions C18_parse_error_at_end_of_input_located.

(** the former finding: a generate-stage printer error (custom scalar without a TypeScript type) is located *)
Theorem C18_generate_error_located :
  forall f, exists texts,
    run_texts (scalar_witness f) = Some (1, texts)
    /\ flat_map (locations_of (s "/w/schema.graphql")) texts = [(1, 1)]
    /\ outcome_written (run (scalar_witness f)) = [].
Proof. exact generate_error_located. Qed.
Print Assumptions C18_generate_error_located.

(** the order of generate-stage faults: option errors before any printer, a printer error before any write *)
Theorem C18_generate_option_required_first : forall p x0,
  g_schema_output (pj_gen p) = None -> g_module_specifier (pj_gen p) = false ->
  generate_body p x0
  = RErr (plain (s "Option 'schemaOutput' is required for the 'generate' command. ")) (add_run x0 GENERATE).
Proof. exact generate_option_required_first. Qed.
Print Assumptions C18_generate_option_required_first.

Theorem C18_generate_schema_printer_error_first : forall p x0 o e,
  g_schema_output (pj_gen p) = Some o -> g_emit_runtime (pj_gen p) && is_dts (abs_output p (Some o)) = false ->
  pj_print_schema p = SErr e ->
  generate_body p x0 = RErr e (add_run x0 GENERATE).
Proof. exact generate_schema_printer_error_first. Qed.
Print Assumptions C18_generate_schema_printer_error_first.

Theorem C18_generate_option_error_reported_first :
  forall f, exists texts,
    run_texts (both_generate_faults_witness f) = Some (1, texts)
    /\ flat_map (locations_of (s "/w/schema.graphql")) texts = []
    /\ existsb (fun t => starts_with (s "Option 'schemaOutput' is required") t
                         || starts_with (s "'check' finished
Error in command 'generate':
Option 'schemaOutput' is required") t) texts = true.
Proof. exact generate_option_error_reported_first. Qed.
Print Assumptions C18_generate_option_error_reported_first.

(** every structured diagnostic of the json document names a file of the file store, labelled with the
    stage kind of a recorded error and carrying that error's line and column *)
Theorem C18_json_diagnostics_name_store_files : forall p code out err w,
  run p = Exit code out err w -> pj_format p = Json ->
  exists t ds, parse_json out = Some t /\ json_diags t = Some ds
    /\ forall d, In d ds ->
         exists f k e pos, In f (snd (run_cli_impl p)) /\ f_path f = d_path d
                           /\ In (k, e) (st_check (snd (fst (run_cli_impl p)))) /\ d_kind d = Some k
                           /\ e_pos e = Some pos /\ d_line d = u32 (p_line pos) /\ d_col d = u32 (p_col pos).
Proof. exact json_diagnostics_name_store_files. Qed.
Print Assumptions C18_json_diagnostics_name_store_files.

(** the file a diagnostic names is the one whose index its position carries (not the document being checked) *)
Theorem C18_diagnostic_file_is_position_file : forall files e f pos,
  located_file files e = Some (f, pos) ->
  e_pos e = Some pos /\ p_builtin pos = false /\ get_file files (p_file pos) = Some f.
Proof. exact located_file_is_position_file. Qed.
Print Assumptions C18_diagnostic_file_is_position_file.
