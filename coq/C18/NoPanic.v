(** C18 — a computable condition on the stage answers under which the model never reaches a panic:
    no printer panics and every position of every error names a file that is in the store when the
    error is rendered. *)
From V Require Import Base.Util C18.Model C18.Spec C18.Corr C18.JsonProofs C18.Proofs.
Local Open Scope N_scope.

Definition pos_in (n : nat) (p : pos) : bool := p_builtin p || (N.to_nat (p_file p) <? n)%nat.

Definition err_in (n : nat) (e : perr) : bool :=
  match e_pos e with
  | None => true
  | Some p => p_builtin p || ((N.to_nat (p_file p) <? n)%nat && forallb (fun pm => pos_in n (fst pm)) (e_add e))
  end.

Definition step_in (n : nat) (r : step_res) : bool :=
  match r with SOk => true | SErr e => err_in n e | SPanic => false end.

Definition opt_in (n : nat) (o : option perr) : bool := match o with Some e => err_in n e | None => true end.

Fixpoint schema_parse_in (k : nat) (l : list schf) : bool :=
  match l with
  | [] => true
  | f :: r => opt_in (S k) (sc_parse f) && schema_parse_in (S k) r
  end.

Definition no_panic_b (p : proj) : bool :=
  let n := length (store p) in
  schema_parse_in 0 (pj_schema p)
  && forallb (fun o => opt_in n (op_parse o) && opt_in n (op_ext o) && opt_in n (op_imp o)
                       && forallb (err_in n) (op_check o) && step_in n (op_print o)) (pj_ops p)
  && opt_in n (pj_sch_resolve p) && forallb (err_in n) (pj_sch_check p) && forallb (err_in n) (pj_sch_plugin_check p)
  && step_in n (pj_print_schema p) && step_in n (pj_print_server p) && step_in n (pj_print_resolvers p).

(** * rendering succeeds on in-range errors *)

Lemma get_file_in files i : (N.to_nat i <? length files)%nat = true -> exists f, get_file files i = Some f.
Proof.
  intro H. apply Nat.ltb_lt in H. unfold get_file.
  destruct (nth_error files (N.to_nat i)) eqn:E; [eauto|]. apply nth_error_None in E. lia.
Qed.

Lemma render_additional_in files add : forall acc,
  forallb (fun pm => pos_in (length files) (fst pm)) add = true ->
  exists m, render_additional files acc add = Some m.
Proof.
  induction add as [|[q m] r IH]; intros acc H; cbn [render_additional]; [eauto|].
  cbn [forallb fst] in H. apply andb_true_iff in H as [H1 H2]. unfold pos_in in H1.
  destruct (p_builtin q); [auto|]. cbn [orb] in H1.
  destruct (get_file_in files _ H1) as (f & ->). auto.
Qed.

Lemma ppe_in files e : err_in (length files) e = true -> exists m, print_positioned_error files e = Some m.
Proof.
  unfold err_in, print_positioned_error. destruct (e_pos e) as [q|]; [|eauto].
  destruct (p_builtin q); [eauto|]. cbn [orb]. intro H. apply andb_true_iff in H as [H1 H2].
  destruct (get_file_in files _ H1) as (f & ->). now apply render_additional_in.
Qed.

Lemma render_all_in files es : forallb (err_in (length files)) es = true -> exists ms, render_all files es = Some ms.
Proof.
  induction es as [|e r IH]; intro H; cbn [render_all]; [eauto|].
  cbn [forallb] in H. apply andb_true_iff in H as [H1 H2].
  destruct (ppe_in files e H1) as (m & ->). destruct (IH H2) as (ms & ->). eauto.
Qed.

Lemma forallb_filter {A} (f g : A -> bool) l : forallb f l = true -> forallb f (filter g l) = true.
Proof.
  induction l as [|a r IH]; cbn; [auto|]. intro H. apply andb_true_iff in H as [H1 H2].
  destruct (g a); cbn; [rewrite H1|]; auto.
Qed.

Lemma human_group_in files what es :
  forallb (err_in (length files)) es = true -> exists t, human_group files what es = Some t.
Proof.
  intro H. unfold human_group. destruct es as [|e r]; [eauto|].
  destruct (render_all_in files (e :: r) H) as (ms & ->). eauto.
Qed.

Lemma human_text_in files x cerr :
  forallb (fun ke => err_in (length files) (snd ke)) (st_check x) = true ->
  exists t, human_text files x cerr = Some t.
Proof.
  intro H. unfold human_text.
  assert (G : forall g, forallb (err_in (length files)) (map snd (filter g (st_check x))) = true).
  { intro g. rewrite forallb_forall. intros e He. apply in_map_iff in He as (ke & <- & Hin).
    apply filter_In in Hin as [Hin _]. rewrite forallb_forall in H. now apply H. }
  destruct (human_group_in files (s "schema") _ (G (fun ke => fst ke))) as (a & ->).
  destruct (human_group_in files (s "operations") _ (G (fun ke => negb (fst ke)))) as (b & ->).
  eauto.
Qed.

(** * the stages only hand over in-range errors *)

Section Guard.
  Variable p : proj.
  Hypothesis HG : no_panic_b p = true.
  Let n := length (store p).

  Lemma guard_parts :
    schema_parse_in 0 (pj_schema p) = true
    /\ forallb (fun o => opt_in n (op_parse o) && opt_in n (op_ext o) && opt_in n (op_imp o)
                         && forallb (err_in n) (op_check o) && step_in n (op_print o)) (pj_ops p) = true
    /\ opt_in n (pj_sch_resolve p) = true /\ forallb (err_in n) (pj_sch_check p) = true
    /\ forallb (err_in n) (pj_sch_plugin_check p) = true
    /\ step_in n (pj_print_schema p) = true /\ step_in n (pj_print_server p) = true
    /\ step_in n (pj_print_resolvers p) = true.
  Proof.
    unfold no_panic_b in HG. fold n in HG.
    repeat (apply andb_true_iff in HG as [HG ?]). repeat split; assumption.
  Qed.

  Lemma op_fields o : In o (pj_ops p) ->
    opt_in n (op_parse o) = true /\ opt_in n (op_ext o) = true /\ opt_in n (op_imp o) = true
    /\ forallb (err_in n) (op_check o) = true /\ step_in n (op_print o) = true.
  Proof.
    intro Ho. destruct guard_parts as (_ & H & _). rewrite forallb_forall in H. specialize (H o Ho).
    repeat (apply andb_true_iff in H as [H ?]). repeat split; assumption.
  Qed.

  Lemma filter_some_in (g : opf -> option perr) :
    (forall o, In o (pj_ops p) -> opt_in n (g o) = true) ->
    forallb (err_in n) (filter_some (map g (pj_ops p))) = true.
  Proof.
    intro H. induction (pj_ops p) as [|o r IH]; [reflexivity|]. cbn [map filter_some].
    pose proof (H o (or_introl eq_refl)) as Ho. destruct (g o); cbn [opt_in] in Ho; cbn [forallb].
    - rewrite Ho. apply IH. intros o' Ho'. apply H. now right.
    - apply IH. intros o' Ho'. apply H. now right.
  Qed.

  Lemma check_impl_in : forallb (fun ke => err_in n (snd ke)) (check_impl p) = true.
  Proof.
    destruct guard_parts as (_ & _ & Hr & Hc & Hp & _). unfold check_impl.
    destruct (pj_sch_resolve p); [cbn [forallb snd]; cbn [opt_in] in Hr; now rewrite Hr|].
    assert (M : forall (b : bool) l, forallb (err_in n) l = true -> forallb (fun ke : bool * perr => err_in n (snd ke)) (map (pair b) l) = true).
    { intros b l H. rewrite forallb_forall in *. intros ke Hin. apply in_map_iff in Hin as (e & <- & He). now apply H. }
    destruct (negb (is_nil (if is_nil (pj_sch_check p) then pj_sch_plugin_check p else pj_sch_check p))).
    { apply M. now destruct (is_nil (pj_sch_check p)). }
    destruct (negb (is_nil (filter_some (map op_ext (pj_ops p))))).
    { apply M. apply filter_some_in. intros o Ho. apply (op_fields o Ho). }
    destruct (negb (is_nil (filter_some (map op_imp (pj_ops p))))).
    { apply M. apply filter_some_in. intros o Ho. apply (op_fields o Ho). }
    apply M. rewrite forallb_forall. intros e He. apply in_concat in He as (l & Hl & He).
    apply in_map_iff in Hl as (o & <- & Ho). destruct (op_fields o Ho) as (_ & _ & _ & H & _).
    rewrite forallb_forall in H. now apply H.
  Qed.

  (** results of the generate steps: never a panic, errors in range *)
  Definition res_good {A} (r : res A) : Prop :=
    match r with ROk _ _ => True | RErr e _ => err_in n e = true | RPanic _ => False end.

  Lemma wfs_good k path x : res_good (write_file_and_sourcemap k path x).
  Proof. unfold write_file_and_sourcemap. destruct (source_map_path path); cbn; auto. Qed.

  Lemma print_then_good r (w : st -> res unit) x :
    step_in n r = true -> (forall y, res_good (w y)) -> res_good (print_then r w x).
  Proof. intros Hr Hw. destruct r; cbn in *; auto. discriminate. Qed.

  Lemma rbind_good {A B} (m : res A) (f : A -> st -> res B) :
    res_good m -> (forall a y, res_good (f a y)) -> res_good (rbind m f).
  Proof. intros Hm Hf. destruct m; cbn in *; auto. Qed.

  Lemma gen_ops_good m ops : (forall o, In o ops -> step_in n (op_print o) = true) -> forall x, res_good (gen_ops m ops x).
  Proof.
    induction ops as [|o r IH]; intros H x; cbn [gen_ops]; [exact I|].
    pose proof (print_then_good (op_print o) (write_file_and_sourcemap KOp (op_output m o)) x
                  (H o (or_introl eq_refl)) (wfs_good KOp _)) as G.
    destruct (print_then (op_print o) _ x); cbn in G |- *; auto. apply IH. intros o' Ho'. apply H. now right.
  Qed.

  Lemma generate_body_good x : res_good (generate_body p x).
  Proof.
    destruct guard_parts as (_ & _ & _ & _ & _ & H1 & H2 & H3).
    unfold generate_body.
    destruct (negb (is_some _) && negb _); [reflexivity|]. destruct (g_emit_runtime _ && _); [reflexivity|].
    apply rbind_good.
    { destruct (abs_output p (g_schema_output (pj_gen p))); cbn [opt_step]; [|exact I].
      apply print_then_good; auto. intro. apply wfs_good. }
    intros _ y1. apply rbind_good.
    { destruct (abs_output p (g_server_output (pj_gen p))); cbn [opt_step]; [|exact I].
      apply print_then_good; auto. intro. exact I. }
    intros _ y2. apply rbind_good.
    { destruct (abs_output p (g_resolvers_output (pj_gen p))); cbn [opt_step]; [|exact I].
      apply print_then_good; auto. intro. apply wfs_good. }
    intros _ y3. apply rbind_good.
    { apply gen_ops_good. intros o Ho. apply (op_fields o Ho). }
    intros _ y4. exact I.
  Qed.

  Lemma run_command_good cmd c x : res_good (run_command p cmd c x).
  Proof.
    unfold run_command. destruct (str_eqb cmd CHECK).
    - destruct c; [|reflexivity]. destruct (run_check_unresolved p x) as [[_ E]|[_ E]]; rewrite E; reflexivity.
    - destruct (str_eqb cmd GENERATE); [|reflexivity]. unfold run_generate. destruct c.
      + destruct (run_check_unresolved p x) as [[_ E]|[_ E]]; rewrite E; [apply generate_body_good|reflexivity].
      + apply generate_body_good.
  Qed.

  Definition checks_in (x : st) : Prop := forallb (fun ke => err_in n (snd ke)) (st_check x) = true.

  Lemma run_commands_good cmds : forall c x, checks_in x ->
    let '(r, x') := run_commands p cmds c x in
    checks_in x' /\ match r with IOk => True | IErr _ errs => forallb (err_in n) errs = true | IPanic => False end.
  Proof.
    induction cmds as [|cmd r IH]; intros c x Hx; cbn [run_commands]; [auto|].
    pose proof (run_command_good cmd c x) as G.
    pose proof (run_command_step p cmd c x) as (_ & _ & Hc).
    assert (Hx' : checks_in (res_st (run_command p cmd c x))).
    { unfold checks_in in *. destruct Hc as [->|[_ ->]]; [exact Hx|]. rewrite forallb_app, Hx. apply check_impl_in. }
    destruct (run_command p cmd c x) as [c' x'|e x'|x']; cbn [res_good res_st] in *.
    - apply IH. exact Hx'.
    - split; [exact Hx'|]. cbn [forallb]. now rewrite G.
    - contradiction.
  Qed.

  Lemma schema_load_in l : forall acc files e,
    schema_parse_in (length acc) l = true -> load_schema_files l acc = (files, Some e) ->
    err_in (length files) e = true.
  Proof.
    induction l as [|f r IH]; intros acc files e H E; cbn [load_schema_files] in E; [discriminate|].
    cbn [schema_parse_in] in H. apply andb_true_iff in H as [H1 H2].
    destruct (sc_parse f) as [e'|].
    - inversion E; subst. rewrite app_length. cbn [length opt_in] in *. now rewrite Nat.add_1_r.
    - apply (IH (acc ++ [mkfile (sc_path f) (sc_src f) true])); [|exact E].
      rewrite app_length. cbn [length]. now rewrite Nat.add_1_r.
  Qed.

  Lemma load_schema_files_none l : forall acc files,
    load_schema_files l acc = (files, None) -> files = acc ++ map (fun f => mkfile (sc_path f) (sc_src f) true) l.
  Proof.
    induction l as [|f r IH]; intros acc files E; cbn [load_schema_files map] in *.
    - inversion E. now rewrite app_nil_r.
    - destruct (sc_parse f); [discriminate|]. rewrite (IH _ _ E). now rewrite <- app_assoc.
  Qed.

  Lemma finish r x files :
    forallb (fun ke => err_in (length files) (snd ke)) (st_check x) = true ->
    match r with IOk => True | IErr _ errs => forallb (err_in (length files)) errs = true | IPanic => False end ->
    crashed (match r with
             | IPanic => Crash (st_log x) (st_written x)
             | _ => match command_error files r with
                    | None => Crash (st_log x) (st_written x)
                    | Some (code, cerr) => render (pj_format p) files x code cerr
                    end
             end) = false.
  Proof.
    intros Hx Hr. destruct r as [|cmd errs|]; [| |contradiction]; cbn [command_error].
    - destruct (pj_format p); cbn [render crashed]; try reflexivity.
      destruct (human_text_in files x None Hx) as (t & ->). reflexivity.
    - destruct (render_all_in files errs Hr) as (ms & ->).
      destruct (pj_format p); cbn [render crashed]; try reflexivity.
      destruct (human_text_in files x (Some (cmd, join [NL] ms)) Hx) as (t & ->). reflexivity.
  Qed.

  Theorem no_panic_guard : crashed (run p) = false.
  Proof.
    destruct guard_parts as (HS & _).
    unfold run, run_cli_impl.
    Ltac fin x := match goal with |- context [command_error ?f ?r] => apply (finish r x f) end.
    destruct (is_nil (pj_commands p)); [fin st0; reflexivity|].
    destruct (pj_config p); [|fin st0; reflexivity].
    destruct (first_unknown_plugin (pj_plugins p)); [fin st0; reflexivity|].
    destruct (pj_no_schema_glob p); [fin st0; reflexivity|].
    destruct (load_schema_files (pj_schema p) []) as [files [e|]] eqn:EL.
    - fin st0; [reflexivity|]. cbn [forallb]. rewrite (schema_load_in _ [] files e HS EL). reflexivity.
    - apply load_schema_files_none in EL. cbn [app] in EL. subst files.
      change (map (fun f => mkfile (sc_path f) (sc_src f) true) (pj_schema p) ++ virtual_files p ++ op_files p) with (store p).
      destruct (filter_some (map op_parse (pj_ops p))) as [|e0 errs] eqn:EO.
      + pose proof (run_commands_good (pj_commands p) Unresolved st0 eq_refl) as G.
        destruct (run_commands p (pj_commands p) Unresolved st0) as [r x]. destruct G as [G1 G2].
        apply (finish r x (store p)); assumption.
      + fin st0; [reflexivity|]. rewrite <- EO. apply filter_some_in. intros o Ho. apply (op_fields o Ho).
  Qed.
End Guard.

(** the guard is met by ordinary projects *)
Example no_panic_example : no_panic_b (clean_example Human) = true /\ no_panic_b two_faults_example = true.
Proof. split; reflexivity. Qed.
