(** C18 — specification side (definitions only): a JSON reader written from RFC 8259, a GraphQL
    tokenizer written from the lexical grammar of the October-2021 specification (section 2.1), and
    helpers to find "path:line:column" locations in diagnostic text.  None of this looks at the model
    of the CLI; it is applied to what the real binary printed. *)
From V Require Import Base.Util C18.Model.
Local Open Scope N_scope.

(** * JSON (RFC 8259).  Numbers are restricted to unsigned integers, which is all the CLI emits. *)

Fixpoint skip_ws (x : str) : str :=
  match x with
  | c :: r => if N.eqb c 32 || N.eqb c 9 || N.eqb c 10 || N.eqb c 13 then skip_ws r else x
  | [] => []
  end.

Definition hexval (c : N) : option N :=
  if (48 <=? c) && (c <=? 57) then Some (c - 48)
  else if (65 <=? c) && (c <=? 70) then Some (c - 55)
  else if (97 <=? c) && (c <=? 102) then Some (c - 87)
  else None.

Definition hex4 (a b c d : N) : option N :=
  match hexval a, hexval b, hexval c, hexval d with
  | Some a, Some b, Some c, Some d => Some (((a * 16 + b) * 16 + c) * 16 + d)
  | _, _, _, _ => None
  end.

(** the characters of a string after the opening quote, up to and including the closing one *)
Fixpoint parse_string_body (x : str) : option (str * str) :=
  match x with
  | [] => None
  | c :: r =>
      if N.eqb c 34 then Some ([], r)
      else if N.eqb c 92 then
        match r with
        | e :: r' =>
            if N.eqb e 117 then
              match r' with
              | h1 :: h2 :: h3 :: h4 :: r'' =>
                  match hex4 h1 h2 h3 h4 with
                  | Some v => match parse_string_body r'' with Some (t, rest) => Some (v :: t, rest) | None => None end
                  | None => None
                  end
              | _ => None
              end
            else
              let dec1 := if N.eqb e 34 then Some 34 else if N.eqb e 92 then Some 92 else if N.eqb e 47 then Some 47
                          else if N.eqb e 98 then Some 8 else if N.eqb e 102 then Some 12 else if N.eqb e 110 then Some 10
                          else if N.eqb e 114 then Some 13 else if N.eqb e 116 then Some 9 else None in
              match dec1 with
              | Some v => match parse_string_body r' with Some (t, rest) => Some (v :: t, rest) | None => None end
              | None => None
              end
        | [] => None
        end
      else if c <? 32 then None
      else match parse_string_body r with Some (t, rest) => Some (c :: t, rest) | None => None end
  end.

Definition is_digit (c : N) : bool := (48 <=? c) && (c <=? 57).

Definition digit_uint (c : N) (r : Decimal.uint) : Decimal.uint :=
  if N.eqb c 48 then Decimal.D0 r else if N.eqb c 49 then Decimal.D1 r else if N.eqb c 50 then Decimal.D2 r
  else if N.eqb c 51 then Decimal.D3 r else if N.eqb c 52 then Decimal.D4 r else if N.eqb c 53 then Decimal.D5 r
  else if N.eqb c 54 then Decimal.D6 r else if N.eqb c 55 then Decimal.D7 r else if N.eqb c 56 then Decimal.D8 r
  else Decimal.D9 r.

(** the longest prefix of digits, as a decimal numeral, and the rest *)
Fixpoint parse_digits (x : str) : Decimal.uint * str :=
  match x with
  | c :: r => if is_digit c then let '(u, rest) := parse_digits r in (digit_uint c u, rest) else (Decimal.Nil, x)
  | [] => (Decimal.Nil, [])
  end.

(** [starts_with pre x]: [x] begins with [pre] *)
Fixpoint starts_with (pre x : str) : bool :=
  match pre, x with
  | [], _ => true
  | a :: p', b :: x' => N.eqb a b && starts_with p' x'
  | _ :: _, [] => false
  end.

Fixpoint parse_value (fuel : nat) (x : str) : option (json * str) :=
  match fuel with
  | O => None
  | S f =>
      match skip_ws x with
      | [] => None
      | c :: r =>
          if N.eqb c 34 then
            match parse_string_body r with Some (t, rest) => Some (JStr t, rest) | None => None end
          else if N.eqb c 91 then
            match skip_ws r with
            | d :: r' => if N.eqb d 93 then Some (JArr [], r')
                         else match parse_elems f r with Some (l, rest) => Some (JArr l, rest) | None => None end
            | [] => None
            end
          else if N.eqb c 123 then
            match skip_ws r with
            | d :: r' => if N.eqb d 125 then Some (JObj [], r')
                         else match parse_members f r with Some (l, rest) => Some (JObj l, rest) | None => None end
            | [] => None
            end
          else if is_digit c then
            let '(u, rest) := parse_digits (c :: r) in Some (JNum (N.of_uint u), rest)
          else if starts_with [110; 117; 108; 108] (c :: r) then Some (JNull, skipn 4 (c :: r))
          else if starts_with [116; 114; 117; 101] (c :: r) then Some (JBool true, skipn 4 (c :: r))
          else if starts_with [102; 97; 108; 115; 101] (c :: r) then Some (JBool false, skipn 5 (c :: r))
          else None
      end
  end
with parse_elems (fuel : nat) (x : str) : option (list json * str) :=
  match fuel with
  | O => None
  | S f =>
      match parse_value f x with
      | None => None
      | Some (v, r) =>
          match skip_ws r with
          | d :: r' =>
              if N.eqb d 44 then match parse_elems f r' with Some (l, rest) => Some (v :: l, rest) | None => None end
              else if N.eqb d 93 then Some ([v], r')
              else None
          | [] => None
          end
      end
  end
with parse_members (fuel : nat) (x : str) : option (list (str * json) * str) :=
  match fuel with
  | O => None
  | S f =>
      match skip_ws x with
      | q :: r =>
          if N.eqb q 34 then
            match parse_string_body r with
            | None => None
            | Some (k, r1) =>
                match skip_ws r1 with
                | d :: r2 =>
                    if N.eqb d 58 then
                      match parse_value f r2 with
                      | None => None
                      | Some (v, r3) =>
                          match skip_ws r3 with
                          | e :: r4 =>
                              if N.eqb e 44 then match parse_members f r4 with Some (l, rest) => Some ((k, v) :: l, rest) | None => None end
                              else if N.eqb e 125 then Some ([(k, v)], r4)
                              else None
                          | [] => None
                          end
                      end
                    else None
                | [] => None
                end
            end
          else None
      | [] => None
      end
  end.

(** a JSON text: one value, optionally surrounded by white space, and nothing else *)
Definition parse_json (x : str) : option json :=
  match parse_value (S (length x)) x with
  | Some (v, rest) => match skip_ws rest with [] => Some v | _ => None end
  | None => None
  end.

Fixpoint jget (k : str) (l : list (str * json)) : option json :=
  match l with
  | [] => None
  | (k', v) :: r => if str_eqb k k' then Some v else jget k r
  end.
Definition jfield (k : str) (j : json) : option json := match j with JObj l => jget k l | _ => None end.

(** * GraphQL tokens (spec 2.1): where a lexical token starts.
    Lines break at '\n' only and columns count scalar values — the conventions of the positions the
    implementation reports (lone '\r' and UTF-16 columns are the C07/C06 findings, not looked at here).
    The `#import` statement of nitrogql is read as tokens, not as a comment. *)

Inductive tmode :=
| TNormal | TName | TNum (prev_e : bool) | TComment | TStr | TStrEsc | TBlock (q : N) | TBlockEsc
| TSkip (n : nat) (next : tmode).

Definition is_name_start (c : N) : bool := ((65 <=? c) && (c <=? 90)) || ((97 <=? c) && (c <=? 122)) || N.eqb c 95.
Definition is_name_cont (c : N) : bool := is_name_start c || is_digit c.
Definition is_ignored (c : N) : bool := N.eqb c 32 || N.eqb c 9 || N.eqb c 10 || N.eqb c 13 || N.eqb c 44 || N.eqb c 65279.

Definition normal_step (c : N) (r : str) : bool * tmode :=
  if is_ignored c then (false, TNormal)
  else if N.eqb c 35 then
    (if starts_with (s "import") r && negb (match skipn 6 r with d :: _ => is_name_cont d | [] => false end)
     then (true, TSkip 6 TNormal) else (false, TComment))
  else if is_name_start c then (true, TName)
  else if is_digit c || N.eqb c 45 then (true, TNum false)
  else if N.eqb c 34 then match r with 34 :: 34 :: _ => (true, TSkip 2 (TBlock 0)) | _ => (true, TStr) end
  else if N.eqb c 46 then match r with 46 :: 46 :: _ => (true, TSkip 2 TNormal) | _ => (true, TNormal) end
  else (true, TNormal).

Definition tstep (m : tmode) (c : N) (r : str) : bool * tmode :=
  match m with
  | TNormal => normal_step c r
  | TName => if is_name_cont c then (false, TName) else normal_step c r
  | TNum pe =>
      if is_digit c || N.eqb c 46 then (false, TNum false)
      else if N.eqb c 101 || N.eqb c 69 then (false, TNum true)
      else if (N.eqb c 43 || N.eqb c 45) && pe then (false, TNum false)
      else normal_step c r
  | TComment => if N.eqb c 10 || N.eqb c 13 then (false, TNormal) else (false, TComment)
  | TStr => if N.eqb c 92 then (false, TStrEsc) else if N.eqb c 34 || N.eqb c 10 then (false, TNormal) else (false, TStr)
  | TStrEsc => (false, TStr)
  | TBlock q => if N.eqb c 34 then (if N.eqb q 2 then (false, TNormal) else (false, TBlock (q + 1)))
                else if N.eqb c 92 then (false, TBlockEsc) else (false, TBlock 0)
  | TBlockEsc => (false, TBlock 0)
  | TSkip n next => match n with S (S k) => (false, TSkip (S k) next) | _ => (false, next) end
  end.

Fixpoint token_starts_from (x : str) (m : tmode) (line col : N) : list (N * N) :=
  match x with
  | [] => []
  | c :: r =>
      let '(emit, m') := tstep m c r in
      let rest := if N.eqb c 10 then token_starts_from r m' (line + 1) 0 else token_starts_from r m' line (col + 1) in
      if emit then (line, col) :: rest else rest
  end.
Definition token_starts (x : str) : list (N * N) := token_starts_from x TNormal 0 0.

Fixpoint end_pos_from (x : str) (line col : N) : N * N :=
  match x with
  | [] => (line, col)
  | c :: r => if N.eqb c 10 then end_pos_from r (line + 1) 0 else end_pos_from r line (col + 1)
  end.
Definition end_pos (x : str) : N * N := end_pos_from x 0 0.

Definition pos_eqb (a b : N * N) : bool := N.eqb (fst a) (fst b) && N.eqb (snd a) (snd b).
Definition is_token_start (src : str) (line col : N) : bool := existsb (pos_eqb (line, col)) (token_starts src).
Definition is_end_of_input (src : str) (line col : N) : bool := pos_eqb (line, col) (end_pos src).

(** * "path:line:column" in diagnostic text *)

Fixpoint read_nat_acc (x : str) (acc : N) (seen : bool) : option (N * str) :=
  match x with
  | c :: r => if is_digit c then read_nat_acc r (acc * 10 + (c - 48)) true else if seen then Some (acc, x) else None
  | [] => if seen then Some (acc, []) else None
  end.
Definition read_nat (x : str) : option (N * str) := read_nat_acc x 0 false.

(** if [x] starts with [path ++ ":L:C"], the pair (L, C) as printed (1-based) *)
Definition location_at (path x : str) : option (N * N) :=
  if starts_with path x then
    match skipn (length path) x with
    | 58 :: r1 =>
        match read_nat r1 with
        | Some (l, 58 :: r2) => match read_nat r2 with Some (c, _) => Some (l, c) | None => None end
        | _ => None
        end
    | _ => None
    end
  else None.

(** all (L, C) printed after an occurrence of [path] in [x] *)
Fixpoint locations_of (path x : str) : list (N * N) :=
  match x with
  | [] => []
  | _ :: r => match location_at path x with Some lc => lc :: locations_of path r | None => locations_of path r end
  end.
