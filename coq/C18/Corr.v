(** C18 — correspondence ([agree]: the model, fed with the stage answers observed in process, predicts what
    the real nitrogql-cli process did) and the property read on the process' own behaviour ([holds]). *)
From V Require Import Base.Util C18.Model C18.Spec.
Local Open Scope N_scope.

(** what the harness observed of one run of the binary *)
Record obs := mk_obs {
  ob_exit : N;                 (* exit status *)
  ob_stdout : str;
  ob_stderr : str;
  ob_written : list str;       (* files that exist after the run and did not before *)
  ob_disturbed : list str      (* files that existed before and were changed or removed *)
}.

(** an injected fault: the pipeline stage at which it is detected
      0 before any file is read (no command, configuration, plugin, no schema)   1 schema parse   2 operation parse
      3 schema resolve   4 schema check   5 schema check by plugins   6 operation extensions   7 operation imports
      8 operation check   9 generate: options (schemaOutput required, runtime into a .d.ts)   10 generate: printers
      11 generate: writing (no file name for the source map)   12 command sequence (unknown command, check after another)
    — the order in which run_cli_impl / check_impl / run_generate meet them (Model.generate_body tests the two options
    before any printer runs, prints before it writes) — and the files one of which a diagnostic has to name
    ([] = a fault that is not attached to a file: configuration, options, output paths) *)
Record fault := mk_fault { ft_stage : N; ft_files : list str }.

Record spec := mk_spec {
  sp_faults : list fault;
  sp_planned : list str        (* the files `generate` is configured to write (computed with std::path in the harness) *)
}.

Record case := mk_case { c_proj : proj; c_obs : obs; c_spec : spec }.

(** paths are compared after lexical normalisation ("." and ".." segments; the scratch projects have no symbolic
    links): the CLI lists "root/./out/x.ts" as configured, the directory walk of the harness finds "root/out/x.ts" *)
Fixpoint norm_segs (segs stack : list str) : list str :=
  match segs with
  | [] => rev stack
  | sg :: r =>
      if str_eqb sg [] || str_eqb sg [DOT] then norm_segs r stack
      else if str_eqb sg [DOT; DOT] then norm_segs r (tl stack)
      else norm_segs r (sg :: stack)
  end.
Definition norm_path (p : str) : str := SLASH :: join [SLASH] (norm_segs (split_on SLASH p) []).

Definition subset (a b : list str) : bool :=
  let nb := map norm_path b in forallb (fun x => existsb (str_eqb (norm_path x)) nb) a.
Definition set_eqb (a b : list str) : bool := subset a b && subset b a.

(** * agree *)

Definition agree (c : case) : bool :=
  let o := c_obs c in
  match run (c_proj c) with
  | Exit code out err w =>
      N.eqb code (ob_exit o) && str_eqb out (ob_stdout o) && str_eqb err (ob_stderr o)
      && set_eqb w (ob_written o) && is_nil (ob_disturbed o)
  | Crash log w =>
      (* a panic: status 101 (see Model.exit_status), nothing on stdout, the progress lines and then the
         panic message on stderr *)
      N.eqb (ob_exit o) 101 && is_nil (ob_stdout o)
      && starts_with (log ++ [10] ++ s "thread 'main'") (ob_stderr o)
      && set_eqb w (ob_written o) && is_nil (ob_disturbed o)
  end.

(** * holds *)

Definition input_files (p : proj) : list sfile :=
  map (fun f => mkfile (sc_path f) (sc_src f) true) (pj_schema p)
  ++ map (fun o => mkfile (op_path o) (op_src o) false) (pj_ops p).

Fixpoint find_input (files : list sfile) (path : str) : option sfile :=
  match files with
  | [] => None
  | f :: r => if str_eqb (f_path f) path then Some f else find_input r path
  end.

(** a located diagnostic: the kind it is labelled with (if the format has one), path, 0-based line and column *)
Record diag := mk_diag { d_kind : option bool; d_path : str; d_line : N; d_col : N }.

Definition jstr (j : option json) : option str := match j with Some (JStr x) => Some x | _ => None end.
Definition jnum (j : option json) : option N := match j with Some (JNum n) => Some n | _ => None end.

(** json format: the structured diagnostics of "check".errors; [None] = not the documented shape *)
Definition json_check_diag (e : json) : option (list diag) :=
  match jstr (jfield (s "fileType") e), jfield (s "file") e, jstr (jfield (s "message") e) with
  | Some k, Some f, Some _ =>
      let kind := if str_eqb k (s "schema") then Some true else if str_eqb k (s "operation") then Some false else None in
      match kind, f with
      | None, _ => None
      | Some _, JNull => Some []
      | Some b, _ =>
          match jstr (jfield (s "path") f), jnum (jfield (s "line") f), jnum (jfield (s "column") f) with
          | Some p, Some l, Some c => Some [mk_diag (Some b) p l c]
          | _, _, _ => None
          end
      end
  | _, _, _ => None
  end.

Fixpoint collect {A} (f : json -> option (list A)) (l : list json) : option (list A) :=
  match l with
  | [] => Some []
  | x :: r => match f x, collect f r with Some a, Some b => Some (a ++ b) | _, _ => None end
  end.

Definition json_diags (t : json) : option (list diag) :=
  match jfield (s "check") t with
  | None => Some []
  | Some ck => match jfield (s "errors") ck with Some (JArr l) => collect json_check_diag l | _ => None end
  end.

(** rdjson: "diagnostics"[].location; positions are 1-based there *)
Definition rdjson_diag (e : json) : option (list diag) :=
  match jstr (jfield (s "message") e) with
  | None => None
  | Some _ =>
      match jfield (s "location") e with
      | None => Some []
      | Some loc =>
          match jfield (s "path") loc with
          | None => Some []
          | Some (JStr p) =>
              match jfield (s "range") loc with
              | Some rg =>
                  match jfield (s "start") rg with
                  | Some st =>
                      match jnum (jfield (s "line") st), jnum (jfield (s "column") st) with
                      | Some l, Some c => if (1 <=? l) && (1 <=? c) then Some [mk_diag None p (l - 1) (c - 1)] else None
                      | _, _ => None
                      end
                  | None => None
                  end
              | None => None
              end
          | Some _ => None
          end
      end
  end.

Definition rdjson_diags (t : json) : option (list diag) :=
  match jfield (s "diagnostics") t with
  | Some (JArr l) => collect rdjson_diag l
  | _ => None
  end.

(** free text of the diagnostics (where a parse error carries its "path:line:column") *)
Definition json_messages (t : json) : list str :=
  match jfield (s "error") t with
  | Some e => match jstr (jfield (s "message") e) with Some m => [m] | None => [] end
  | None => []
  end.
Definition rdjson_messages (t : json) : list str :=
  match jfield (s "diagnostics") t with
  | Some (JArr l) => flat_map (fun e => match jstr (jfield (s "message") e) with Some m => [m] | None => [] end) l
  | _ => []
  end.

(** locations printed as text, for every input file: (file, 0-based line, 0-based column); a printed 0 is malformed *)
Definition text_locations (files : list sfile) (texts : list str) : list (sfile * option (N * N)) :=
  flat_map (fun f => flat_map (fun t => map (fun lc => (f, if (1 <=? fst lc) && (1 <=? snd lc) then Some (fst lc - 1, snd lc - 1) else None))
                                            (locations_of (f_path f) t)) texts) files.

(** a structured diagnostic names an existing input file of the kind it is labelled with, at a token start *)
Definition diag_ok (files : list sfile) (d : diag) : bool :=
  match find_input files (d_path d) with
  | None => false
  | Some f =>
      match d_kind d with Some k => Bool.eqb k (f_schema f) | None => true end
      && is_token_start (f_src f) (d_line d) (d_col d)
  end.

(** a location printed in text is a token start, or the end of the input (where a parser gives up) *)
Definition text_location_ok (x : sfile * option (N * N)) : bool :=
  match snd x with
  | None => false
  | Some (l, c) => is_token_start (f_src (fst x)) l c || is_end_of_input (f_src (fst x)) l c
  end.

Definition min_stage (fs : list fault) : option N :=
  fold_left (fun acc f => match acc with None => Some (ft_stage f) | Some m => Some (N.min m (ft_stage f)) end) fs None.

(** "output that locates at least one fault by file, line and column — check-stage diagnostics for every
    offending file, not only the first": [named path] = some located diagnostic names that file.
    Of the faults attached to files, those of the earliest stage are the ones the pipeline gets to.  The schema
    loop stops at the first file that does not parse and resolve_schema_extensions at its first error (stages 1
    and 3: one of them has to be named); every other stage goes over all files (each has to be named). *)
Definition located_ok (faults : list fault) (commands : list str) (named : str -> bool) : bool :=
  if existsb (fun f => N.eqb (ft_stage f) 0) faults then true
  else
    let ff := filter (fun f => negb (is_nil (ft_files f))) faults in
    match min_stage ff with
    | None => true
    | Some m =>
        let at_m := filter (fun f => N.eqb (ft_stage f) m) ff in
        let reached := (m <=? 2) || match commands with c :: _ => str_eqb c CHECK || str_eqb c GENERATE | [] => false end in
        (* `generate` stops at the first error it meets: a fault of an earlier generate sub-stage that has no file
           (an option error) is what gets reported, and the located fault behind it is never produced *)
        let preempted := existsb (fun f => is_nil (ft_files f) && (9 <=? ft_stage f) && (ft_stage f <? m)) faults in
        if negb reached || preempted then true
        else if N.eqb m 1 || N.eqb m 3 then existsb (fun f => existsb named (ft_files f)) at_m
        else forallb (fun f => existsb named (ft_files f)) at_m
    end.

(** files: `check` writes nothing; nothing is written when a fault is found before generation starts; what is
    written is configured output, all of it on success *)
Definition written_ok (p : proj) (o : obs) (sp : spec) : bool :=
  let gen := existsb (str_eqb GENERATE) (pj_commands p) in
  let early := existsb (fun f => ft_stage f <=? 8) (sp_faults sp) in
  is_nil (ob_disturbed o)
  && (if negb gen || early then is_nil (ob_written o) else true)
  && subset (ob_written o) (sp_planned sp)
  && (if gen && N.eqb (ob_exit o) 0 then subset (sp_planned sp) (ob_written o) else true).

Definition json_listed (t : json) : option (list str) :=
  match jfield (s "generate") t with
  | None => Some []
  | Some g =>
      match jfield (s "files") g with
      | Some (JArr l) => collect (fun e => match jstr (jfield (s "fileType") e), jstr (jfield (s "path") e) with
                                           | Some _, Some p => Some [p] | _, _ => None end) l
      | _ => None
      end
  end.

Definition holds (c : case) : bool :=
  let p := c_proj c in let o := c_obs c in let sp := c_spec c in
  let files := input_files p in
  let faulty := negb (is_nil (sp_faults sp)) in
  N.eqb (ob_exit o) (if faulty then 1 else 0)
  && written_ok p o sp
  && match pj_format p with
     | Human =>
         let locs := text_locations files [ob_stderr o] in
         is_nil (ob_stdout o)
         && forallb text_location_ok locs
         && located_ok (sp_faults sp) (pj_commands p) (fun path => existsb (fun x => str_eqb (f_path (fst x)) path) locs)
     | Json =>
         match parse_json (ob_stdout o) with
         | None => false
         | Some t =>
             match json_diags t, json_listed t with
             | Some ds, Some listed =>
                 let locs := text_locations files (json_messages t) in
                 forallb (diag_ok files) ds
                 && forallb text_location_ok locs
                 && located_ok (sp_faults sp) (pj_commands p)
                      (fun path => existsb (fun d => str_eqb (d_path d) path) ds || existsb (fun x => str_eqb (f_path (fst x)) path) locs)
                 && set_eqb listed (ob_written o)
             | _, _ => false
             end
         end
     | Rdjson =>
         match parse_json (ob_stdout o) with
         | None => false
         | Some t =>
             match rdjson_diags t with
             | Some ds =>
                 let locs := text_locations files (rdjson_messages t) in
                 forallb (diag_ok files) ds
                 && forallb text_location_ok locs
                 && located_ok (sp_faults sp) (pj_commands p)
                      (fun path => existsb (fun d => str_eqb (d_path d) path) ds || existsb (fun x => str_eqb (f_path (fst x)) path) locs)
             | None => false
             end
         end
     end.
