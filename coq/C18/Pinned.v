From V Require Import Base.Util C18.Model C18.Spec C18.Proofs C18.Properties.
Check (C18_placeholder : True).
Print Assumptions C18_placeholder.
