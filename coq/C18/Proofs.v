(** C18 — proofs about the model of the CLI driver (Model.v): how the final CliOutput / disk state relates
    to the stage answers, for every project and every command list. *)
From V Require Import Base.Util C18.Model C18.Spec C18.Corr C18.JsonProofs.
Local Open Scope N_scope.

Definition outcome_written (o : outcome) : list str :=
  match o with Exit _ _ _ w => w | Crash _ w => w end.
Definition crashed (o : outcome) : bool :=
  match o with Crash _ _ => true | Exit _ _ _ _ => false end.

Definition res_st {A} (r : res A) : st :=
  match r with ROk _ x => x | RErr _ x => x | RPanic x => x end.
Definition is_ok {A} (r : res A) : bool :=
  match r with ROk _ _ => true | _ => false end.

(** * generate only appends: reported files and created files grow together *)

Definition extends (x x' : st) : Prop :=
  st_run x' = st_run x /\ st_check x' = st_check x /\
  exists added, st_gen x' = st_gen x ++ added /\ st_written x' = st_written x ++ map snd added.

Lemma extends_refl x : extends x x.
Proof. repeat split. exists []. now rewrite !app_nil_r. Qed.

Lemma extends_trans x y z : extends x y -> extends y z -> extends x z.
Proof.
  intros (R1 & C1 & a1 & G1 & W1) (R2 & C2 & a2 & G2 & W2).
  repeat split; try congruence. exists (a1 ++ a2).
  rewrite G2, G1, W2, W1, map_app, !app_assoc. auto.
Qed.

Lemma add_file_ext x k path : extends x (add_file x k path).
Proof. repeat split. exists [(k, path)]. auto. Qed.

Lemma log_line_ext x l : extends x (log_line x l).
Proof. repeat split. exists []. cbn. now rewrite !app_nil_r. Qed.

Lemma wfs_ext k path x : extends x (res_st (write_file_and_sourcemap k path x)).
Proof.
  unfold write_file_and_sourcemap. destruct (source_map_path path) as [mp|]; cbn [res_st].
  - eapply extends_trans; apply add_file_ext.
  - apply extends_refl.
Qed.

Lemma wfw_ext k path x : extends x (res_st (write_file_without_sourcemap k path x)).
Proof. apply add_file_ext. Qed.

Lemma print_then_ext r (w : st -> res unit) :
  (forall x, extends x (res_st (w x))) -> forall x, extends x (res_st (print_then r w x)).
Proof. intros H x. destruct r; cbn [print_then res_st]; auto using extends_refl. Qed.

Lemma opt_step_ext {A} (o : option A) (f : A -> st -> res unit) :
  (forall a x, extends x (res_st (f a x))) -> forall x, extends x (res_st (opt_step o f x)).
Proof. intros H x. destruct o; cbn [opt_step res_st]; auto using extends_refl. Qed.

Lemma rbind_ext {A B} (m : res A) (f : A -> st -> res B) x :
  extends x (res_st m) -> (forall a y, extends y (res_st (f a y))) -> extends x (res_st (rbind m f)).
Proof. intros Hm Hf. destruct m; cbn [rbind res_st] in *; auto. eapply extends_trans; eauto. Qed.

Lemma gen_ops_ext m ops : forall x, extends x (res_st (gen_ops m ops x)).
Proof.
  induction ops as [|o r IH]; intro x; cbn [gen_ops res_st]; [apply extends_refl|].
  pose proof (print_then_ext (op_print o) _ (wfs_ext KOp (op_output m o)) x) as H.
  destruct (print_then (op_print o) _ x) as [u x'|e x'|x']; cbn [res_st] in *; auto.
  eapply extends_trans; eauto.
Qed.

Lemma add_run_fields x c :
  st_run (add_run x c) = st_run x ++ [c] /\ st_check (add_run x c) = st_check x /\
  st_gen (add_run x c) = st_gen x /\ st_written (add_run x c) = st_written x.
Proof. auto. Qed.

(** what generate_body does to the state, whatever its result *)
Lemma generate_body_st p x0 :
  let x' := res_st (generate_body p x0) in
  st_run x' = st_run x0 ++ [GENERATE] /\ st_check x' = st_check x0 /\
  exists added, st_gen x' = st_gen x0 ++ added /\ st_written x' = st_written x0 ++ map snd added.
Proof.
  assert (H : extends (add_run x0 GENERATE) (res_st (generate_body p x0))).
  { unfold generate_body.
    destruct (negb (is_some (g_schema_output (pj_gen p))) && negb (g_module_specifier (pj_gen p))); [apply extends_refl|].
    destruct (g_emit_runtime (pj_gen p) && is_dts (abs_output p (g_schema_output (pj_gen p)))); [apply extends_refl|].
    apply rbind_ext.
    { apply opt_step_ext. intros a y. apply print_then_ext. intro. apply wfs_ext. }
    intros _ y1. apply rbind_ext.
    { apply opt_step_ext. intros a y. apply print_then_ext. intro. apply wfw_ext. }
    intros _ y2. apply rbind_ext.
    { apply opt_step_ext. intros a y. apply print_then_ext. intro. apply wfs_ext. }
    intros _ y3. apply rbind_ext.
    { apply gen_ops_ext. }
    intros _ y4. cbn [res_st]. apply log_line_ext. }
  destruct H as (R & C & a & G & W). cbn zeta. rewrite R, C. repeat split. exists a. auto.
Qed.

Lemma generate_body_ctx p x0 c x' : generate_body p x0 = ROk c x' -> c = Resolved.
Proof.
  unfold generate_body.
  destruct (negb _ && negb _); [discriminate|]. destruct (g_emit_runtime _ && _); [discriminate|].
  unfold rbind.
  destruct (opt_step (abs_output p (g_schema_output (pj_gen p))) _ _); try discriminate.
  destruct (opt_step (abs_output p (g_server_output (pj_gen p))) _ _); try discriminate.
  destruct (opt_step (abs_output p (g_resolvers_output (pj_gen p))) _ _); try discriminate.
  destruct (gen_ops _ _ _); try discriminate. congruence.
Qed.

(** * whether generate succeeds depends on the configuration and the printers only *)

Definition step_ok (r : step_res) : bool := match r with SOk => true | _ => false end.

Definition generate_ok (p : proj) : bool :=
  let g := pj_gen p in
  let so := abs_output p (g_schema_output g) in
  negb (negb (is_some (g_schema_output g)) && negb (g_module_specifier g))
  && negb (g_emit_runtime g && is_dts so)
  && match so with Some o => step_ok (pj_print_schema p) && is_some (source_map_path o) | None => true end
  && match abs_output p (g_server_output g) with Some _ => step_ok (pj_print_server p) | None => true end
  && match abs_output p (g_resolvers_output g) with
     | Some o => step_ok (pj_print_resolvers p) && is_some (source_map_path o) | None => true end
  && forallb (fun o => step_ok (op_print o) && is_some (source_map_path (op_output (g_mode g) o))) (pj_ops p).

Lemma wfs_ok k path x : is_ok (write_file_and_sourcemap k path x) = is_some (source_map_path path).
Proof. unfold write_file_and_sourcemap. now destruct (source_map_path path). Qed.

Lemma print_then_ok r (w : st -> res unit) b x : (forall y, is_ok (w y) = b) -> is_ok (print_then r w x) = step_ok r && b.
Proof. intro H. destruct r; cbn; auto. Qed.

Lemma gen_ops_ok m ops : forall x,
  is_ok (gen_ops m ops x) = forallb (fun o => step_ok (op_print o) && is_some (source_map_path (op_output m o))) ops.
Proof.
  induction ops as [|o r IH]; intro x; [reflexivity|]. cbn [gen_ops forallb].
  pose proof (print_then_ok (op_print o) (write_file_and_sourcemap KOp (op_output m o)) _ x
                (fun y => wfs_ok KOp (op_output m o) y)) as H.
  destruct (print_then (op_print o) _ x) as [u x'|e x'|x']; cbn [is_ok] in H; rewrite <- H; cbn [andb]; auto.
Qed.

Lemma rbind_ok {A B} (m : res A) (f : A -> st -> res B) b :
  (forall a y, is_ok (f a y) = b) -> is_ok (rbind m f) = is_ok m && b.
Proof. intro H. destruct m; cbn; auto. Qed.

Lemma generate_body_ok p x0 : is_ok (generate_body p x0) = generate_ok p.
Proof.
  unfold generate_body, generate_ok.
  destruct (negb (is_some _) && negb _); [reflexivity|].
  destruct (g_emit_runtime _ && _); [reflexivity|]. cbn [negb andb].
  set (A := match abs_output p (g_schema_output (pj_gen p)) with Some o => _ | None => true end).
  set (B := match abs_output p (g_server_output (pj_gen p)) with Some _ => _ | None => true end).
  set (C := match abs_output p (g_resolvers_output (pj_gen p)) with Some o => _ | None => true end).
  set (D := forallb _ (pj_ops p)).
  rewrite (rbind_ok _ _ (B && C && D)).
  - assert (HA : is_ok (opt_step (abs_output p (g_schema_output (pj_gen p)))
                          (fun o => print_then (pj_print_schema p) (write_file_and_sourcemap KSchema o))
                          (add_run x0 GENERATE)) = A).
    { subst A. destruct (abs_output p (g_schema_output (pj_gen p))); cbn [opt_step]; [|reflexivity].
      apply print_then_ok. intro. apply wfs_ok. }
    rewrite HA. now rewrite !andb_assoc.
  - intros _ y1. rewrite (rbind_ok _ _ (C && D)).
    + assert (HB : is_ok (opt_step (abs_output p (g_server_output (pj_gen p)))
                            (fun o => print_then (pj_print_server p) (write_file_without_sourcemap KGraphql o)) y1) = B).
      { subst B. destruct (abs_output p (g_server_output (pj_gen p))); cbn [opt_step]; [|reflexivity].
        rewrite (print_then_ok _ _ true); [now rewrite andb_true_r|reflexivity]. }
      rewrite HB. now rewrite !andb_assoc.
    + intros _ y2. rewrite (rbind_ok _ _ D).
      * f_equal. subst C.
        destruct (abs_output p (g_resolvers_output (pj_gen p))); cbn [opt_step]; [|reflexivity].
        apply print_then_ok. intro. apply wfs_ok.
      * intros _ y3. rewrite (rbind_ok _ _ true); [|reflexivity]. rewrite andb_true_r. apply gen_ops_ok.
Qed.

(** * the command loop *)

Lemma run_check_unresolved p x :
  (check_impl p = [] /\
   run_check p Unresolved x = ROk Resolved (log_line (add_run x CHECK) (s "'check' finished")))
  \/ (check_impl p <> [] /\
      run_check p Unresolved x = RErr (plain (s "Command not successful: check")) (add_check (add_run x CHECK) (check_impl p))).
Proof.
  unfold run_check. destruct (check_impl p) as [|e r]; [left|right]; split; auto. discriminate.
Qed.

Lemma run_check_resolved p x : exists e, run_check p Resolved x = RErr e x.
Proof. eexists. reflexivity. Qed.

(** a successful command leaves the context resolved *)
Lemma run_command_ctx p cmd c x c' x' : run_command p cmd c x = ROk c' x' -> c' = Resolved.
Proof.
  unfold run_command. destruct (str_eqb cmd CHECK).
  - destruct c; [|discriminate]. destruct (run_check_unresolved p x) as [[_ E]|[_ E]]; rewrite E; congruence.
  - destruct (str_eqb cmd GENERATE); [|discriminate].
    unfold run_generate. destruct c.
    + destruct (run_check_unresolved p x) as [[_ E]|[_ E]]; rewrite E; [|discriminate].
      apply generate_body_ctx.
    + apply generate_body_ctx.
Qed.

(** the summary of one command: how it changes the state *)
Definition state_step (p : proj) (c : ctx) (x x' : st) : Prop :=
  (exists added, st_gen x' = st_gen x ++ added /\ st_written x' = st_written x ++ map snd added
                 /\ (added = [] \/ In GENERATE (st_run x')))
  /\ (exists more, st_run x' = st_run x ++ more)
  /\ (st_check x' = st_check x \/ (c = Unresolved /\ st_check x' = st_check x ++ check_impl p)).

Lemma run_command_step p cmd c x : state_step p c x (res_st (run_command p cmd c x)).
Proof.
  unfold run_command. destruct (str_eqb cmd CHECK).
  - destruct c.
    + destruct (run_check_unresolved p x) as [[_ E]|[_ E]]; rewrite E; cbn [res_st]; repeat split.
      * exists []. cbn. rewrite !app_nil_r. auto.
      * exists [CHECK]. reflexivity.
      * auto.
      * exists []. cbn. rewrite !app_nil_r. auto.
      * exists [CHECK]. reflexivity.
      * right. auto.
    + cbn [run_check res_st]. repeat split.
      * exists []. rewrite !app_nil_r. auto.
      * exists []. now rewrite app_nil_r.
      * auto.
  - destruct (str_eqb cmd GENERATE).
    + unfold run_generate.
      assert (G : forall y, (exists more, st_run y = st_run x ++ more) ->
                    st_gen y = st_gen x -> st_written y = st_written x ->
                    (st_check y = st_check x) ->
                    state_step p c x (res_st (generate_body p y))).
      { intros y (more & R) G W C. destruct (generate_body_st p y) as (R' & C' & a & G' & W').
        repeat split.
        - exists a. rewrite G', W', G, W. repeat split. right. rewrite R'. apply in_or_app. right. now left.
        - exists (more ++ [GENERATE]). rewrite R', R. now rewrite app_assoc.
        - left. congruence. }
      destruct c.
      * destruct (run_check_unresolved p x) as [[_ E]|[_ E]]; rewrite E.
        -- apply G; auto. exists [CHECK]. reflexivity.
        -- cbn [res_st]. repeat split.
           ++ exists []. cbn. rewrite !app_nil_r. auto.
           ++ exists [CHECK]. reflexivity.
           ++ right. auto.
      * apply G; auto. exists []. now rewrite app_nil_r.
    + cbn [res_st]. repeat split.
      * exists []. rewrite !app_nil_r. auto.
      * exists []. now rewrite app_nil_r.
      * auto.
Qed.

Definition inv (x : st) : Prop :=
  st_written x = map snd (st_gen x) /\ (st_gen x = [] \/ In GENERATE (st_run x)).

Lemma step_inv p c x x' : state_step p c x x' -> inv x -> inv x'.
Proof.
  intros ((a & G & W & HA) & (more & R) & _) (IW & IG). split.
  - rewrite W, G, IW, map_app. reflexivity.
  - destruct HA as [->|HA]; [|now right]. rewrite G, app_nil_r.
    destruct IG as [IG|IG]; [now left|right]. rewrite R. apply in_or_app. now left.
Qed.

Lemma run_commands_inv p cmds : forall c x, inv x -> inv (snd (run_commands p cmds c x)).
Proof.
  induction cmds as [|cmd r IH]; intros c x Hx; [exact Hx|]. cbn [run_commands].
  pose proof (run_command_step p cmd c x) as Hs.
  destruct (run_command p cmd c x) as [c' x'|e x'|x']; cbn [res_st snd] in *; eauto using step_inv.
Qed.

(** from a resolved context the check errors never change *)
Lemma run_commands_resolved_check p cmds : forall x,
  st_check (snd (run_commands p cmds Resolved x)) = st_check x.
Proof.
  induction cmds as [|cmd r IH]; intro x; [reflexivity|]. cbn [run_commands].
  pose proof (run_command_step p cmd Resolved x) as (_ & _ & [Hc|[Hc _]]); [|discriminate].
  pose proof (run_command_ctx p cmd Resolved x) as Hctx.
  destruct (run_command p cmd Resolved x) as [c' x'|e x'|x']; cbn [res_st snd] in *; auto.
  rewrite (Hctx c' x' eq_refl), IH. exact Hc.
Qed.

(** success records no check error *)
Lemma run_commands_ok_check p cmds : forall c x,
  fst (run_commands p cmds c x) = IOk -> st_check (snd (run_commands p cmds c x)) = st_check x.
Proof.
  induction cmds as [|cmd r IH]; intros c x H; [reflexivity|]. cbn [run_commands] in *.
  pose proof (run_command_step p cmd c x) as (_ & _ & Hc).
  destruct (run_command p cmd c x) as [c' x'|e x'|x'] eqn:E; cbn [res_st snd fst] in *; try discriminate.
  rewrite (IH c' x' H). destruct Hc as [Hc|[-> Hc]]; [exact Hc|].
  (* an Unresolved command that succeeded did not add check errors *)
  unfold run_command in E. destruct (str_eqb cmd CHECK).
  - destruct (run_check_unresolved p x) as [[_ E']|[_ E']]; rewrite E' in E; [|discriminate].
    inversion E; subst. reflexivity.
  - destruct (str_eqb cmd GENERATE); [|discriminate]. unfold run_generate in E.
    destruct (run_check_unresolved p x) as [[_ E']|[_ E']]; rewrite E' in E; [|discriminate].
    pose proof (generate_body_st p (log_line (add_run x CHECK) (s "'check' finished"))) as (_ & C & _).
    rewrite E in C. cbn [res_st] in C. exact C.
Qed.

(** what [check] or [generate] as first command leaves in check_errors: exactly the answer of check_impl *)
Lemma first_command_check p cmd r :
  str_eqb cmd CHECK = true \/ str_eqb cmd GENERATE = true ->
  st_check (snd (run_commands p (cmd :: r) Unresolved st0)) = check_impl p.
Proof.
  intro Hcmd. cbn [run_commands]. unfold run_command.
  destruct (str_eqb cmd CHECK) eqn:EC.
  - destruct (run_check_unresolved p st0) as [[Hn E]|[Hn E]]; rewrite E; cbn [snd].
    + rewrite run_commands_resolved_check. now rewrite Hn.
    + reflexivity.
  - destruct Hcmd as [?|EG]; [discriminate|]. rewrite EG. unfold run_generate.
    destruct (run_check_unresolved p st0) as [[Hn E]|[Hn E]]; rewrite E; cbn [snd].
    + set (y := log_line (add_run st0 CHECK) (s "'check' finished")).
      pose proof (generate_body_st p y) as (_ & C & _).
      pose proof (generate_body_ctx p y) as Hctx.
      destruct (generate_body p y) as [c' x'|e x'|x']; cbn [res_st snd] in *; try (rewrite C, Hn; reflexivity).
      rewrite (Hctx c' x' eq_refl), run_commands_resolved_check, C, Hn. reflexivity.
    + reflexivity.
Qed.

(** no generate command: nothing is created *)
Lemma run_commands_no_generate p cmds : forall c x,
  existsb (str_eqb GENERATE) cmds = false ->
  st_written (snd (run_commands p cmds c x)) = st_written x /\ st_gen (snd (run_commands p cmds c x)) = st_gen x.
Proof.
  induction cmds as [|cmd r IH]; intros c x H; [auto|]. cbn [existsb] in H. apply orb_false_iff in H as [H1 H2].
  cbn [run_commands]. unfold run_command.
  assert (EG : str_eqb cmd GENERATE = false).
  { destruct (str_eqb_spec cmd GENERATE) as [->|]; auto. }
  rewrite EG. destruct (str_eqb cmd CHECK).
  - destruct c.
    + destruct (run_check_unresolved p x) as [[_ E]|[_ E]]; rewrite E; cbn [snd]; auto.
      destruct (IH Resolved (log_line (add_run x CHECK) (s "'check' finished")) H2) as [A B]. rewrite A, B. auto.
    + cbn [run_check snd]. auto.
  - cbn [snd]. auto.
Qed.

(** check fails: nothing is created, whatever the commands *)
Lemma run_commands_check_fails p cmds x :
  check_impl p <> [] ->
  st_written (snd (run_commands p cmds Unresolved x)) = st_written x.
Proof.
  intro Hne. destruct cmds as [|cmd r]; [reflexivity|]. cbn [run_commands]. unfold run_command.
  destruct (str_eqb cmd CHECK).
  - destruct (run_check_unresolved p x) as [[Hn _]|[_ E]]; [contradiction|]. rewrite E. reflexivity.
  - destruct (str_eqb cmd GENERATE); [|reflexivity]. unfold run_generate.
    destruct (run_check_unresolved p x) as [[Hn _]|[_ E]]; [contradiction|]. rewrite E. reflexivity.
Qed.

(** success, characterised on the stage answers *)
Fixpoint commands_clean (p : proj) (cmds : list str) (c : ctx) : bool :=
  match cmds with
  | [] => true
  | cmd :: r =>
      if str_eqb cmd CHECK then
        match c with Unresolved => is_nil (check_impl p) && commands_clean p r Resolved | Resolved => false end
      else if str_eqb cmd GENERATE then
        match c with Unresolved => is_nil (check_impl p) | Resolved => true end
        && generate_ok p && commands_clean p r Resolved
      else false
  end.

Lemma run_commands_ok_iff p cmds : forall c x,
  fst (run_commands p cmds c x) = IOk <-> commands_clean p cmds c = true.
Proof.
  induction cmds as [|cmd r IH]; intros c x; [cbn; tauto|]. cbn [run_commands commands_clean]. unfold run_command.
  destruct (str_eqb cmd CHECK).
  - destruct c.
    + destruct (run_check_unresolved p x) as [[Hn E]|[Hn E]]; rewrite E.
      * rewrite Hn. cbn [is_nil andb]. apply IH.
      * destruct (check_impl p); [contradiction|]. cbn. split; discriminate.
    + cbn. split; discriminate.
  - destruct (str_eqb cmd GENERATE); [|cbn; split; discriminate].
    unfold run_generate.
    assert (G : forall y, fst (match generate_body p y with
                               | ROk c' x' => run_commands p r c' x'
                               | RErr e x' => (IErr (Some cmd) [e], x')
                               | RPanic x' => (IPanic, x') end) = IOk
                          <-> generate_ok p && commands_clean p r Resolved = true).
    { intro y. pose proof (generate_body_ok p y) as Hok. pose proof (generate_body_ctx p y) as Hctx.
      destruct (generate_body p y) as [c' x'|e x'|x']; cbn [is_ok] in Hok; rewrite <- Hok; cbn [andb fst].
      - rewrite (Hctx c' x' eq_refl). apply IH.
      - split; discriminate.
      - split; discriminate. }
    destruct c.
    + destruct (run_check_unresolved p x) as [[Hn E]|[Hn E]]; rewrite E.
      * rewrite Hn. cbn [is_nil]. rewrite andb_true_l. apply G.
      * destruct (check_impl p); [contradiction|]. cbn. split; discriminate.
    + rewrite andb_true_l. apply G.
Qed.

(** * run_cli_impl *)

Definition none_b {A} (o : option A) : bool := match o with None => true | Some _ => false end.

(** everything before the commands went fine *)
Definition pre_ok (p : proj) : bool :=
  negb (is_nil (pj_commands p))
  && match pj_config p with CfgOk => true | CfgInvalid _ => false end
  && none_b (first_unknown_plugin (pj_plugins p))
  && negb (pj_no_schema_glob p)
  && forallb (fun f => none_b (sc_parse f)) (pj_schema p)
  && forallb (fun o => none_b (op_parse o)) (pj_ops p).

Definition schema_files (p : proj) : list sfile := map (fun f => mkfile (sc_path f) (sc_src f) true) (pj_schema p).
(** the file store once every file is loaded *)
Definition store (p : proj) : list sfile := schema_files p ++ virtual_files p ++ op_files p.

Lemma load_schema_files_ok l : forall acc,
  forallb (fun f => none_b (sc_parse f)) l = true ->
  load_schema_files l acc = (acc ++ map (fun f => mkfile (sc_path f) (sc_src f) true) l, None).
Proof.
  induction l as [|f r IH]; intros acc H; cbn [load_schema_files map]; [now rewrite app_nil_r|].
  cbn [forallb] in H. apply andb_true_iff in H as [H1 H2]. destruct (sc_parse f); [discriminate|].
  rewrite IH by exact H2. now rewrite <- app_assoc.
Qed.

Lemma load_schema_files_err l : forall acc,
  forallb (fun f => none_b (sc_parse f)) l = false ->
  exists files e, load_schema_files l acc = (files, Some e).
Proof.
  induction l as [|f r IH]; intros acc H; cbn [forallb] in H; [discriminate|]. cbn [load_schema_files].
  destruct (sc_parse f); [eauto|]. cbn in H. apply IH. exact H.
Qed.

Lemma filter_some_nil {A B} (g : A -> option B) l :
  filter_some (map g l) = [] <-> forallb (fun a => none_b (g a)) l = true.
Proof.
  induction l as [|a r IH]; cbn; [tauto|]. destruct (g a); cbn; [split; discriminate|exact IH].
Qed.

Lemma impl_pre_fail p :
  pre_ok p = false -> exists cmd errs files, run_cli_impl p = (IErr cmd errs, st0, files).
Proof.
  unfold pre_ok, run_cli_impl. intro H.
  destruct (is_nil (pj_commands p)); [eauto|]. destruct (pj_config p); [|eauto].
  destruct (first_unknown_plugin (pj_plugins p)); [eauto|]. destruct (pj_no_schema_glob p); [eauto|].
  cbn [negb andb none_b] in H.
  destruct (forallb (fun f => none_b (sc_parse f)) (pj_schema p)) eqn:ES.
  - rewrite (load_schema_files_ok _ [] ES). cbn [andb] in H.
    destruct (filter_some (map op_parse (pj_ops p))) eqn:EO; [|eauto].
    apply filter_some_nil in EO. congruence.
  - destruct (load_schema_files_err _ [] ES) as (files & e & ->). eauto.
Qed.

Lemma impl_pre_ok p :
  pre_ok p = true ->
  run_cli_impl p = (fst (run_commands p (pj_commands p) Unresolved st0),
                    snd (run_commands p (pj_commands p) Unresolved st0), store p).
Proof.
  unfold pre_ok, run_cli_impl. intro H.
  destruct (is_nil (pj_commands p)); [discriminate|]. destruct (pj_config p); [|discriminate].
  destruct (first_unknown_plugin (pj_plugins p)); [discriminate|]. destruct (pj_no_schema_glob p); [discriminate|].
  cbn [negb andb none_b] in H. apply andb_true_iff in H as [ES EO].
  rewrite (load_schema_files_ok _ [] ES). apply filter_some_nil in EO. rewrite EO.
  destruct (run_commands p (pj_commands p) Unresolved st0). reflexivity.
Qed.

Lemma inv_st0 : inv st0.
Proof. split; [reflexivity|now left]. Qed.

(** the final state of run_cli_impl: created files are exactly the reported ones *)
Lemma impl_inv p : inv (snd (fst (run_cli_impl p))).
Proof.
  destruct (pre_ok p) eqn:E.
  - rewrite (impl_pre_ok p E). cbn [fst snd]. apply run_commands_inv, inv_st0.
  - destruct (impl_pre_fail p E) as (cmd & errs & files & ->). apply inv_st0.
Qed.

(** the whole run is clean *)
Definition clean (p : proj) : bool := pre_ok p && commands_clean p (pj_commands p) Unresolved.

Lemma impl_ok_iff_clean p : fst (fst (run_cli_impl p)) = IOk <-> clean p = true.
Proof.
  unfold clean. destruct (pre_ok p) eqn:E.
  - rewrite (impl_pre_ok p E). cbn [fst andb]. apply run_commands_ok_iff.
  - destruct (impl_pre_fail p E) as (cmd & errs & files & ->). cbn. split; discriminate.
Qed.

(** * run: relating the process outcome to run_cli_impl *)

Lemma render_code f files x c cerr code out err w :
  render f files x c cerr = Exit code out err w -> c = code.
Proof. destruct f; cbn; try destruct (human_text files x cerr); intro H; inversion H; reflexivity. Qed.

Lemma run_exit p code out err w :
  run p = Exit code out err w ->
  exists r x files cerr,
    run_cli_impl p = (r, x, files) /\ r <> IPanic /\
    command_error files r = Some (code, cerr) /\
    render (pj_format p) files x code cerr = Exit code out err w.
Proof.
  unfold run. destruct (run_cli_impl p) as [[r x] files]. intro H.
  exists r, x, files.
  destruct r as [|cmd errs|].
  - cbn [command_error] in H |- *. pose proof (render_code _ _ _ _ _ _ _ _ _ H) as <-.
    exists None. repeat split; try discriminate. exact H.
  - cbn [command_error] in H |- *. destruct (render_all files errs) as [ms|]; [|discriminate].
    pose proof (render_code _ _ _ _ _ _ _ _ _ H) as <-.
    exists (Some (cmd, join [NL] ms)). repeat split; try discriminate. exact H.
  - discriminate.
Qed.

Lemma command_error_code files r code cerr :
  r <> IPanic -> command_error files r = Some (code, cerr) ->
  (code = 0 /\ cerr = None /\ r = IOk) \/ (code = 1 /\ exists cmd errs m, cerr = Some (cmd, m) /\ r = IErr cmd errs).
Proof.
  intros Hr H. destruct r as [|cmd errs|]; cbn in H.
  - inversion H. left. auto.
  - destruct (render_all files errs); inversion H. right. split; auto. eauto.
  - contradiction.
Qed.

Lemma render_written f files x code cerr : outcome_written (render f files x code cerr) = st_written x.
Proof. destruct f; cbn; auto. destruct (human_text files x cerr); reflexivity. Qed.

Lemma run_written p : outcome_written (run p) = st_written (snd (fst (run_cli_impl p))).
Proof.
  unfold run. destruct (run_cli_impl p) as [[r x] files]. cbn [fst snd].
  destruct r; try reflexivity.
  - cbn [command_error]. apply render_written.
  - cbn [command_error]. destruct (render_all files errs); [apply render_written|reflexivity].
Qed.

(** * the theorems *)

(** exit status *)
Lemma exit_code_cases p code out err w :
  run p = Exit code out err w ->
  (code = 0 /\ fst (fst (run_cli_impl p)) = IOk) \/
  (code = 1 /\ exists cmd errs, fst (fst (run_cli_impl p)) = IErr cmd errs).
Proof.
  intro H. destruct (run_exit p code out err w H) as (r & x & files & cerr & E & Hr & Hc & _).
  rewrite E. cbn [fst]. destruct (command_error_code files r code cerr Hr Hc) as [(-> & _ & ->)|(-> & cmd & errs & m & _ & ->)]; eauto.
Qed.

(** success records no check error *)
Lemma impl_ok_check p :
  fst (fst (run_cli_impl p)) = IOk -> st_check (snd (fst (run_cli_impl p))) = [].
Proof.
  destruct (pre_ok p) eqn:E.
  - rewrite (impl_pre_ok p E). cbn [fst snd]. intro H. now rewrite run_commands_ok_check.
  - destruct (impl_pre_fail p E) as (cmd & errs & files & ->). discriminate.
Qed.

Theorem exit_zero_iff_clean_guarded p :
  crashed (run p) = false -> (exit_status (run p) = 0 <-> clean p = true).
Proof.
  intro Hc. destruct (run p) as [code out err w|l w] eqn:E; [|discriminate]. cbn [exit_status].
  rewrite <- impl_ok_iff_clean.
  destruct (exit_code_cases p code out err w E) as [[-> ->]|[-> (cmd & errs & ->)]]; split; auto; discriminate.
Qed.

(** a run that records no check error renders in the human format whatever the file store *)
Lemma human_text_no_check files x cerr : st_check x = [] -> exists t, human_text files x cerr = Some t.
Proof. intro H. unfold human_text. rewrite H. cbn. eauto. Qed.

(** a clean run does not crash *)
Lemma clean_not_crashed p : clean p = true -> crashed (run p) = false.
Proof.
  intro Hc. pose proof (proj2 (impl_ok_iff_clean p) Hc) as Hok. pose proof (impl_ok_check p Hok) as Hck.
  unfold run. destruct (run_cli_impl p) as [[r x] files]. cbn [fst snd] in Hok, Hck. subst r.
  cbn [command_error]. destruct (pj_format p); cbn [render]; try reflexivity.
  destruct (human_text_no_check files x None Hck) as (t & ->). reflexivity.
Qed.

(** exit status 0 exactly when no stage reports anything — a panic is status 101 *)
Theorem exit_zero_iff_clean p : exit_status (run p) = 0 <-> clean p = true.
Proof.
  split.
  - intro H. destruct (crashed (run p)) eqn:Hc.
    + destruct (run p); [discriminate|]. cbn in H. discriminate.
    + now apply exit_zero_iff_clean_guarded.
  - intro H. apply exit_zero_iff_clean_guarded; [now apply clean_not_crashed|exact H].
Qed.

Theorem exit_status_cases p : exit_status (run p) = 0 \/ exit_status (run p) = 1 \/ exit_status (run p) = 101.
Proof.
  destruct (run p) as [code out err w|l w] eqn:E; [|right; right; reflexivity]. cbn [exit_status].
  destruct (exit_code_cases p code out err w E) as [[-> _]|[-> _]]; auto.
Qed.

Theorem crash_exit_status p : crashed (run p) = true -> exit_status (run p) = 101.
Proof. destruct (run p); [discriminate|reflexivity]. Qed.

(** a panic (here: of the operation type printer): status 101, not clean, the files written before it stay *)
Definition panic_witness : proj :=
  mk_proj (s "/w") [s "generate"] Json CfgOk [] false
    [mk_schf (s "/w/schema.graphql") (s "type Query { a: Int }") None] []
    [mk_opf (s "/w/q.graphql") (s "query Q { a } fragment U on Query { nonexistent }") None None None [] SPanic]
    None [] [] (mk_gencfg WithLoaderTS50 (Some (s "out/schema.d.ts")) None None false false) SOk SOk SOk.

Lemma crash_witness :
  exists p, crashed (run p) = true /\ exit_status (run p) = 101 /\ clean p = false /\ outcome_written (run p) <> [].
Proof. exists panic_witness. vm_compute. repeat split. discriminate. Qed.

(** stdout is one JSON value *)
Lemma render_json files x c cerr code out err w :
  render Json files x c cerr = Exit code out err w -> out = print_json (json_tree files x cerr) ++ [10].
Proof. unfold render. intro H. injection H as _ H _ _. now rewrite <- H. Qed.

Lemma render_rdjson files x c cerr code out err w :
  render Rdjson files x c cerr = Exit code out err w -> out = print_json (rdjson_tree files x cerr) ++ [10].
Proof. unfold render. intro H. injection H as _ H _ _. now rewrite <- H. Qed.

Theorem json_wellformed p code out err w :
  run p = Exit code out err w -> pj_format p <> Human ->
  exists t, out = print_json t ++ [10] /\ parse_json out = Some t.
Proof.
  intros H Hf. destruct (run_exit p code out err w H) as (r & x & files & cerr & _ & _ & _ & R).
  destruct (pj_format p); [contradiction| |].
  - apply render_json in R. subst out. exists (json_tree files x cerr). split; [reflexivity|apply parse_print_json].
  - apply render_rdjson in R. subst out. exists (rdjson_tree files x cerr). split; [reflexivity|apply parse_print_json].
Qed.

(** written = listed *)
Theorem written_is_listed p :
  let x := snd (fst (run_cli_impl p)) in
  outcome_written (run p) = map snd (st_gen x).
Proof. cbn zeta. rewrite run_written. apply impl_inv. Qed.

Theorem check_writes_nothing p :
  existsb (str_eqb GENERATE) (pj_commands p) = false -> outcome_written (run p) = [].
Proof.
  intro H. rewrite run_written. destruct (pre_ok p) eqn:E.
  - rewrite (impl_pre_ok p E). cbn [fst snd]. now destruct (run_commands_no_generate p (pj_commands p) Unresolved st0 H) as [-> _].
  - destruct (impl_pre_fail p E) as (cmd & errs & files & ->). reflexivity.
Qed.

(** a fault found before generation starts: parse errors, configuration, or a failing check *)
Theorem nothing_written_on_failure p :
  pre_ok p = false \/ check_impl p <> [] -> outcome_written (run p) = [].
Proof.
  intro H. rewrite run_written. destruct (pre_ok p) eqn:E.
  - destruct H as [H|H]; [discriminate|]. rewrite (impl_pre_ok p E). cbn [fst snd].
    now rewrite run_commands_check_fails.
  - destruct (impl_pre_fail p E) as (cmd & errs & files & ->). reflexivity.
Qed.

(** * what the JSON document says (read with the specification-side accessors of Corr.v) *)

Lemma jget_app k a b : jget k (a ++ b) = match jget k a with Some v => Some v | None => jget k b end.
Proof. induction a as [|[k' v] r IH]; cbn [app jget]; [reflexivity|]. destruct (str_eqb k k'); auto. Qed.

Definition error_member (cerr : option (option str * str)) : list (str * json) :=
  match cerr with
  | Some (cmd, msg) =>
      [ (s "error", JObj [ (s "command", match cmd with Some c => JStr c | None => JNull end);
                           (s "message", JStr msg) ]) ]
  | None => []
  end.
Definition check_member (files : list sfile) (x : st) : list (str * json) :=
  if existsb (str_eqb CHECK) (st_run x)
  then [ (s "check", JObj [ (s "errors", JArr (map (check_error_json files) (st_check x))) ]) ] else [].
Definition generate_member (x : st) : list (str * json) :=
  if existsb (str_eqb GENERATE) (st_run x)
  then [ (s "generate", JObj [ (s "files", JArr (map gen_file_json (st_gen x))) ]) ] else [].

Lemma json_tree_members files x cerr :
  json_tree files x cerr = JObj (error_member cerr ++ check_member files x ++ generate_member x).
Proof. reflexivity. Qed.

Lemma jget_error_member k cerr : str_eqb k (s "error") = false -> jget k (error_member cerr) = None.
Proof. intro H. destruct cerr as [[cmd m]|]; cbn [error_member jget]; [rewrite H|]; reflexivity. Qed.
Lemma jget_check_member k files x : str_eqb k (s "check") = false -> jget k (check_member files x) = None.
Proof. intro H. unfold check_member. destruct (existsb _ _); cbn [jget]; [rewrite H|]; reflexivity. Qed.
Lemma jget_generate_member k x : str_eqb k (s "generate") = false -> jget k (generate_member x) = None.
Proof. intro H. unfold generate_member. destruct (existsb _ _); cbn [jget]; [rewrite H|]; reflexivity. Qed.

Lemma existsb_str_In c l : existsb (str_eqb c) l = true <-> In c l.
Proof.
  rewrite existsb_exists. split.
  - intros (y & Hy & E). destruct (str_eqb_spec c y); [now subst|discriminate].
  - intro H. exists c. split; auto. apply str_eqb_refl.
Qed.

(** the files the JSON document lists are the files created *)
Lemma collect_gen_files l :
  collect (fun e => match jstr (jfield (s "fileType") e), jstr (jfield (s "path") e) with
                    | Some _, Some p => Some [p] | _, _ => None end) (map gen_file_json l) = Some (map snd l).
Proof.
  induction l as [|[k path] r IH]; [reflexivity|]. cbn [map collect]. rewrite IH. reflexivity.
Qed.

Lemma json_listed_tree files x cerr :
  inv x -> json_listed (json_tree files x cerr) = Some (st_written x).
Proof.
  intros [IW IG]. rewrite json_tree_members. unfold json_listed, jfield.
  rewrite !jget_app, jget_error_member, jget_check_member by reflexivity.
  unfold generate_member. destruct (existsb (str_eqb GENERATE) (st_run x)) eqn:E.
  - cbn [jget]. change (str_eqb (s "generate") (s "generate")) with true. cbn iota. cbn [jfield jget].
    change (str_eqb (s "files") (s "files")) with true. cbn iota.
    rewrite collect_gen_files. now rewrite IW.
  - cbn [jget]. destruct IG as [IG|IG].
    + now rewrite IW, IG.
    + apply existsb_str_In in IG. congruence.
Qed.

Theorem json_lists_written p code out err w :
  run p = Exit code out err w -> pj_format p = Json ->
  exists t, parse_json out = Some t /\ json_listed t = Some w.
Proof.
  intros H Hf. destruct (run_exit p code out err w H) as (r & x & files & cerr & E & _ & _ & R).
  rewrite Hf in R. pose proof (render_json _ _ _ _ _ _ _ _ R) as ->.
  exists (json_tree files x cerr). split; [apply parse_print_json|].
  unfold render in R. injection R as _ <-.
  apply json_listed_tree. pose proof (impl_inv p) as I. now rewrite E in I.
Qed.

Lemma collect_nil_check files : collect json_check_diag (map (check_error_json files) []) = Some [].
Proof. reflexivity. Qed.

(** exit 0 exactly when the document has no "error" member; then it has no check error either *)
Theorem json_exit_zero_iff_no_error p code out err w :
  run p = Exit code out err w -> pj_format p = Json ->
  exists t, parse_json out = Some t
            /\ (code = 0 <-> jfield (s "error") t = None)
            /\ (code = 0 -> json_diags t = Some []).
Proof.
  intros H Hf. destruct (run_exit p code out err w H) as (r & x & files & cerr & E & Hr & Hc & R).
  rewrite Hf in R. pose proof (render_json _ _ _ _ _ _ _ _ R) as ->.
  exists (json_tree files x cerr). split; [apply parse_print_json|].
  rewrite json_tree_members. unfold jfield, json_diags.
  destruct (command_error_code files r code cerr Hr Hc) as [(-> & -> & ->)|(-> & cmd & errs & m & -> & ->)].
  - split.
    { split; [intros _|reflexivity]. cbn [error_member app].
      rewrite jget_app, jget_check_member, jget_generate_member by reflexivity. reflexivity. }
    intros _. cbn [error_member app].
    unfold jfield. rewrite jget_app, jget_generate_member by reflexivity.
    pose proof (impl_ok_check p) as Hck. rewrite E in Hck. cbn [fst snd] in Hck. specialize (Hck eq_refl).
    unfold check_member. rewrite Hck. destruct (existsb _ _); reflexivity.
  - split; [|discriminate]. split; [discriminate|]. cbn [error_member app jget].
    change (str_eqb (s "error") (s "error")) with true. discriminate.
Qed.

(** rdjson: a command error is the first diagnostic *)
Theorem rdjson_has_command_error p out err w :
  run p = Exit 1 out err w -> pj_format p = Rdjson ->
  exists t msg rest, parse_json out = Some t
                     /\ jfield (s "diagnostics") t = Some (JArr (JObj [(s "message", JStr msg)] :: rest)).
Proof.
  intros H Hf. destruct (run_exit p 1 out err w H) as (r & x & files & cerr & E & Hr & Hc & R).
  rewrite Hf in R. pose proof (render_rdjson _ _ _ _ _ _ _ _ R) as ->.
  destruct (command_error_code files r 1 cerr Hr Hc) as [(Hz & _)|(_ & cmd & errs & m & -> & _)]; [discriminate|].
  exists (rdjson_tree files x (Some (cmd, m))), m, (map (rd_diag files) (st_check x)).
  split; [apply parse_print_json|reflexivity].
Qed.

(** * every error of the stage that fails is reported *)

Definition reaches_check (p : proj) : Prop :=
  pre_ok p = true /\ exists cmd r, pj_commands p = cmd :: r /\ (str_eqb cmd CHECK = true \/ str_eqb cmd GENERATE = true).

Theorem check_errors_all_reported p :
  reaches_check p -> st_check (snd (fst (run_cli_impl p))) = check_impl p.
Proof.
  intros (Hpre & cmd & r & Hc & Hcmd). rewrite (impl_pre_ok p Hpre). cbn [fst snd]. rewrite Hc.
  now apply first_command_check.
Qed.

Lemma run_commands_run_grows p cmds : forall c x,
  exists more, st_run (snd (run_commands p cmds c x)) = st_run x ++ more.
Proof.
  induction cmds as [|cmd r IH]; intros c x; [exists []; now rewrite app_nil_r|]. cbn [run_commands].
  pose proof (run_command_step p cmd c x) as (_ & (more & R) & _).
  destruct (run_command p cmd c x) as [c' x'|e x'|x']; cbn [res_st snd] in *; eauto.
  destruct (IH c' x') as (more' & R'). exists (more ++ more'). now rewrite R', R, app_assoc.
Qed.

Lemma reaches_check_ran p :
  reaches_check p -> existsb (str_eqb CHECK) (st_run (snd (fst (run_cli_impl p)))) = true.
Proof.
  intros (Hpre & cmd & r & Hc & Hcmd). rewrite (impl_pre_ok p Hpre). cbn [fst snd]. rewrite Hc.
  apply existsb_str_In. cbn [run_commands]. unfold run_command.
  assert (G : forall y, In CHECK (st_run y) ->
            In CHECK (st_run (snd match generate_body p y with
                                  | ROk c' x' => run_commands p r c' x'
                                  | RErr e x' => (IErr (Some cmd) [e], x')
                                  | RPanic x' => (IPanic, x') end))).
  { intros y Hy. pose proof (generate_body_st p y) as (R & _).
    destruct (generate_body p y) as [c' x'|e x'|x']; cbn [res_st snd] in *;
      try (rewrite R; apply in_or_app; now left).
    destruct (run_commands_run_grows p r c' x') as (more & ->). rewrite R. apply in_or_app. left. apply in_or_app. now left. }
  destruct (str_eqb cmd CHECK) eqn:EC.
  - destruct (run_check_unresolved p st0) as [[_ E]|[_ E]]; rewrite E; cbn [snd].
    + destruct (run_commands_run_grows p r Resolved (log_line (add_run st0 CHECK) (s "'check' finished"))) as (more & ->).
      apply in_or_app. left. now left.
    + now left.
  - destruct Hcmd as [?|EG]; [discriminate|]. rewrite EG. unfold run_generate.
    destruct (run_check_unresolved p st0) as [[_ E]|[_ E]]; rewrite E.
    + apply G. now left.
    + cbn [snd]. now left.
Qed.

(** in the json format the "check" member carries every error check_impl answered, in order *)
Theorem json_reports_check_errors p code out err w :
  run p = Exit code out err w -> pj_format p = Json -> reaches_check p ->
  exists t, parse_json out = Some t
            /\ jfield (s "check") t
               = Some (JObj [ (s "errors", JArr (map (check_error_json (store p)) (check_impl p))) ]).
Proof.
  intros H Hf Hreach. destruct (run_exit p code out err w H) as (r & x & files & cerr & E & _ & _ & R).
  rewrite Hf in R. pose proof (render_json _ _ _ _ _ _ _ _ R) as ->.
  exists (json_tree files x cerr). split; [apply parse_print_json|].
  pose proof (check_errors_all_reported p Hreach) as Hck. pose proof (reaches_check_ran p Hreach) as Hran.
  destruct Hreach as (Hpre & _). rewrite (impl_pre_ok p Hpre) in E. injection E as _ Ex Ef.
  rewrite (impl_pre_ok p Hpre) in Hck, Hran. cbn [fst snd] in Hck, Hran. rewrite Ex in Hck, Hran. subst files.
  rewrite json_tree_members. unfold jfield. rewrite !jget_app, jget_error_member by reflexivity.
  unfold check_member. rewrite Hran, Hck. reflexivity.
Qed.

(** which errors check_impl answers: all those of the first stage that has any *)
Lemma check_impl_schema_stage p e :
  pj_sch_resolve p = None -> In e (pj_sch_check p) -> In (true, e) (check_impl p).
Proof.
  intros Hr He. unfold check_impl. rewrite Hr. destruct (pj_sch_check p) as [|a l] eqn:E; [contradiction|].
  cbn [is_nil negb]. apply in_map. exact He.
Qed.

Definition schema_stage_ok (p : proj) : Prop :=
  pj_sch_resolve p = None /\ pj_sch_check p = [] /\ pj_sch_plugin_check p = [].

Lemma filter_some_In {A B} (g : A -> option B) l a b : In a l -> g a = Some b -> In b (filter_some (map g l)).
Proof.
  induction l as [|x r IH]; intros Hin Hg; [contradiction|]. cbn [map filter_some].
  destruct Hin as [->|Hin]; [rewrite Hg; now left|]. destruct (g x); [right|]; auto.
Qed.

Lemma check_impl_ext_stage p o e :
  schema_stage_ok p -> In o (pj_ops p) -> op_ext o = Some e -> In (false, e) (check_impl p).
Proof.
  intros (Hr & Hc & Hp) Ho He. unfold check_impl. rewrite Hr, Hc, Hp. cbn [is_nil negb].
  pose proof (filter_some_In op_ext _ _ _ Ho He) as Hin.
  destruct (filter_some (map op_ext (pj_ops p))); [contradiction|]. cbn [is_nil negb]. now apply in_map.
Qed.

Lemma check_impl_imp_stage p o e :
  schema_stage_ok p -> (forall o', In o' (pj_ops p) -> op_ext o' = None) ->
  In o (pj_ops p) -> op_imp o = Some e -> In (false, e) (check_impl p).
Proof.
  intros (Hr & Hc & Hp) Hext Ho He. unfold check_impl. rewrite Hr, Hc, Hp. cbn [is_nil negb].
  assert (E : filter_some (map op_ext (pj_ops p)) = []).
  { apply filter_some_nil. apply forallb_forall. intros a Ha. now rewrite (Hext a Ha). }
  rewrite E. cbn [is_nil negb].
  pose proof (filter_some_In op_imp _ _ _ Ho He) as Hin.
  destruct (filter_some (map op_imp (pj_ops p))); [contradiction|]. cbn [is_nil negb]. now apply in_map.
Qed.

Lemma check_impl_check_stage p o e :
  schema_stage_ok p -> (forall o', In o' (pj_ops p) -> op_ext o' = None /\ op_imp o' = None) ->
  In o (pj_ops p) -> In e (op_check o) -> In (false, e) (check_impl p).
Proof.
  intros (Hr & Hc & Hp) Hres Ho He. unfold check_impl. rewrite Hr, Hc, Hp. cbn [is_nil negb].
  assert (E1 : filter_some (map op_ext (pj_ops p)) = []).
  { apply filter_some_nil. apply forallb_forall. intros a Ha. now rewrite (proj1 (Hres a Ha)). }
  assert (E2 : filter_some (map op_imp (pj_ops p)) = []).
  { apply filter_some_nil. apply forallb_forall. intros a Ha. now rewrite (proj2 (Hres a Ha)). }
  rewrite E1, E2. cbn [is_nil negb]. apply in_map. apply in_concat. exists (op_check o). split; [now apply in_map|exact He].
Qed.

(** check-stage diagnostics for every offending file: an error the checker found in any operation file is
    in the JSON document, labelled "operation" and carrying that file's path, line and column *)
Theorem all_offending_files_reported p code out err w o e :
  run p = Exit code out err w -> pj_format p = Json -> reaches_check p ->
  schema_stage_ok p -> (forall o', In o' (pj_ops p) -> op_ext o' = None /\ op_imp o' = None) ->
  In o (pj_ops p) -> In e (op_check o) ->
  exists t l, parse_json out = Some t
              /\ jfield (s "check") t = Some (JObj [ (s "errors", JArr l) ])
              /\ In (check_error_json (store p) (false, e)) l.
Proof.
  intros H Hf Hreach Hs Hres Ho He.
  destruct (json_reports_check_errors p code out err w H Hf Hreach) as (t & Ht & Hck).
  exists t, (map (check_error_json (store p)) (check_impl p)). repeat split; auto.
  apply in_map. now apply (check_impl_check_stage p o e).
Qed.

Lemma check_error_json_located files k e f pos :
  located_file files e = Some (f, pos) ->
  check_error_json files (k, e)
  = JObj [ (s "fileType", JStr (kind_str k));
           (s "file", JObj [ (s "path", JStr (f_path f)); (s "line", JNum (u32 (p_line pos)));
                             (s "column", JNum (u32 (p_col pos))) ]);
           (s "message", JStr (e_msg e)) ].
Proof. intro H. unfold check_error_json. now rewrite H. Qed.

(** * locating a fault in text: message_for_line *)

Lemma enumerate_from_bound {A} (l : list A) : forall k i a, In (i, a) (enumerate_from k l) -> k <= i < k + N.of_nat (length l).
Proof.
  induction l as [|x r IH]; intros k i a H; [contradiction|]. cbn [enumerate_from length] in *.
  destruct H as [H|H].
  - inversion H; subst. lia.
  - apply IH in H. lia.
Qed.

Lemma In_firstn {A} n (l : list A) x : In x (firstn n l) -> In x l.
Proof.
  revert l. induction n as [|n IH]; intros l H; [contradiction|].
  destruct l as [|a l]; [contradiction|]. cbn [firstn] in H. destruct H as [H|H]; [now left|right; auto].
Qed.
Lemma In_skipn {A} n (l : list A) x : In x (skipn n l) -> In x l.
Proof.
  revert l. induction n as [|n IH]; intros l H; [exact H|].
  destruct l as [|a l]; [contradiction|]. cbn [skipn] in H. right. auto.
Qed.

(** a position on a line that str::lines does not yield (one past the last line of a text that ends with a
    newline — where a parser reports a missing closing brace): the location and the bare message *)
Theorem message_for_line_no_line path src p err additional :
  N.of_nat (length (lines src)) <= p_line p ->
  message_for_line path src p err additional = location_line path p ++ err.
Proof.
  intro Hl. unfold message_for_line.
  match goal with |- (if negb (existsb ?f ?l) then _ else _) = _ => destruct (existsb f l) eqn:E end; [|reflexivity].
  exfalso. apply existsb_exists in E as ((i & a) & Hin & Hi). cbn [fst] in Hi. apply N.eqb_eq in Hi. subst i.
  apply In_firstn, In_skipn, enumerate_from_bound in Hin. lia.
Qed.

(** in every case the text carries path:line:column (1-based), at its start or after the indentation of
    additional information *)
Theorem message_for_line_located path src p err additional :
  exists ind rest, (ind = [] \/ ind = INDENT)
    /\ message_for_line path src p err additional = ind ++ location_line path p ++ rest.
Proof.
  unfold message_for_line.
  destruct (negb (existsb _ _)); [exists [], err; auto|].
  destruct (min_indent _) as [mi|]; [|exists [], err; auto].
  eexists; eexists; split; [|reflexivity]. destruct additional; auto.
Qed.

Lemma message_for_line_primary path src p err :
  exists rest, message_for_line path src p err false = location_line path p ++ rest.
Proof.
  unfold message_for_line.
  destruct (negb (existsb _ _)); [exists err; reflexivity|].
  destruct (min_indent _) as [mi|]; [|exists err; reflexivity].
  cbn [app]. eexists. reflexivity.
Qed.

Lemma render_additional_prefix files add : forall acc m,
  render_additional files acc add = Some m -> exists rest, m = acc ++ rest.
Proof.
  induction add as [|[q msg] r IH]; intros acc m H; cbn [render_additional] in H.
  - inversion H. exists []. now rewrite app_nil_r.
  - destruct (p_builtin q); [eauto|]. destruct (get_file files (p_file q)); [|discriminate].
    destruct (IH _ _ H) as (rest & ->). rewrite <- !app_assoc. eauto.
Qed.

(** every positioned, non-built-in error is printed starting with the path of the file its position names,
    its line and its column *)
Theorem positioned_error_located files e p m :
  print_positioned_error files e = Some m -> e_pos e = Some p -> p_builtin p = false ->
  exists f rest, get_file files (p_file p) = Some f /\ m = location_line (f_path f) p ++ rest.
Proof.
  unfold print_positioned_error. intros H Hp Hb. rewrite Hp, Hb in H.
  destruct (get_file files (p_file p)) as [f|]; [|discriminate].
  destruct (render_additional_prefix _ _ _ _ H) as (rest & ->).
  destruct (message_for_line_primary (f_path f) (f_src f) p (e_msg e)) as (rest' & ->).
  exists f, (rest' ++ rest). split; [reflexivity|]. now rewrite <- app_assoc.
Qed.

(** the former finding: a parse error at the end of a file that ends with a newline is now located, in all formats *)
Definition eof_witness (f : fmt) : proj :=
  mk_proj (s "/w") [s "check"] f CfgOk [] false
    [mk_schf (s "/w/schema.graphql") (s "type Query { a: Int }
") None] []
    [mk_opf (s "/w/q.graphql") (s "query Q { a
") (Some (mkerr (s "Parse error: expected Selection") (Some (mkpos 1 0 1 false)) [])) None None [] SOk]
    None [] [] (mk_gencfg WithLoaderTS50 (Some (s "out/schema.d.ts")) None None false false) SOk SOk SOk.

Definition run_texts (p : proj) : option (N * list str) :=
  match run p with
  | Exit code out err _ =>
      match pj_format p with
      | Human => Some (code, [err])
      | Json => match parse_json out with Some t => Some (code, json_messages t) | None => None end
      | Rdjson => match parse_json out with Some t => Some (code, rdjson_messages t) | None => None end
      end
  | Crash _ _ => None
  end.

Example parse_error_at_end_of_input_located :
  forall f, exists texts,
    run_texts (eof_witness f) = Some (1, texts)
    /\ flat_map (locations_of (s "/w/q.graphql")) texts = [(2, 1)].
Proof. intros [| |]; eexists; vm_compute; split; reflexivity. Qed.

(** the former finding: an error value of a printer keeps its position (generate.rs `positioned`), so a
    generate-stage fault — a custom scalar without a TypeScript type — is located in all three formats *)
Definition scalar_witness (f : fmt) : proj :=
  mk_proj (s "/w") [s "generate"] f CfgOk [] false
    [mk_schf (s "/w/schema.graphql") (s "scalar Date
type Query { d: Date }
") None] []
    [] None [] [] (mk_gencfg WithLoaderTS50 (Some (s "out/schema.d.ts")) None None false false)
    (SErr (mkerr (s "Type for scalar 'Date' is not provided") (Some (mkpos 0 0 0 false)) [])) SOk SOk.

Example generate_error_located :
  forall f, exists texts,
    run_texts (scalar_witness f) = Some (1, texts)
    /\ flat_map (locations_of (s "/w/schema.graphql")) texts = [(1, 1)]
    /\ outcome_written (run (scalar_witness f)) = [].
Proof. intros [| |]; eexists; vm_compute; repeat split. Qed.

(** the order in which run_generate meets generate-stage faults: the two option errors are tested before any
    printer runs, and a printer error comes before anything is written — whatever the other answers are *)
Lemma generate_option_required_first p x0 :
  g_schema_output (pj_gen p) = None -> g_module_specifier (pj_gen p) = false ->
  generate_body p x0
  = RErr (plain (s "Option 'schemaOutput' is required for the 'generate' command. ")) (add_run x0 GENERATE).
Proof. intros H1 H2. unfold generate_body. rewrite H1, H2. reflexivity. Qed.

Lemma generate_runtime_dts_first p x0 :
  is_some (g_schema_output (pj_gen p)) = true -> g_emit_runtime (pj_gen p) = true ->
  is_dts (abs_output p (g_schema_output (pj_gen p))) = true ->
  generate_body p x0 = RErr (plain (s "Cannot emit code including runtime to a .d.ts file.")) (add_run x0 GENERATE).
Proof. intros H1 H2 H3. unfold generate_body. rewrite H1, H2, H3. reflexivity. Qed.

Lemma generate_schema_printer_error_first p x0 o e :
  g_schema_output (pj_gen p) = Some o -> g_emit_runtime (pj_gen p) && is_dts (abs_output p (Some o)) = false ->
  pj_print_schema p = SErr e ->
  generate_body p x0 = RErr e (add_run x0 GENERATE).
Proof.
  intros H1 H2 H3. unfold generate_body. rewrite H1. cbn [is_some negb andb]. rewrite H2.
  cbn [abs_output option_map opt_step]. rewrite H3. reflexivity.
Qed.

(** both faults at once — no schemaOutput and a scalar without a TypeScript type: the option error is the outcome,
    in all formats, and it names no file (there is none to name); the located printer error is never produced *)
Definition both_generate_faults_witness (f : fmt) : proj :=
  mk_proj (s "/w") [s "generate"] f CfgOk [] false
    [mk_schf (s "/w/schema.graphql") (s "scalar Date
type Query { d: Date }
") None] []
    [] None [] [] (mk_gencfg StandaloneTS40 None None None false false)
    (SErr (mkerr (s "Type for scalar 'Date' is not provided") (Some (mkpos 0 0 0 false)) [])) SOk SOk.

Example generate_option_error_reported_first :
  forall f, exists texts,
    run_texts (both_generate_faults_witness f) = Some (1, texts)
    /\ flat_map (locations_of (s "/w/schema.graphql")) texts = []
    /\ existsb (fun t => starts_with (s "Option 'schemaOutput' is required") t
                         || starts_with (s "'check' finished
Error in command 'generate':
Option 'schemaOutput' is required") t) texts = true.
Proof. intros [| |]; eexists; vm_compute; repeat split. Qed.

(** a printer error with a built-in position (a schema loaded from introspection JSON has no file to name)
    is printed as the bare message *)
Lemma builtin_position_bare files m add :
  print_positioned_error files (mkerr m (Some (mkpos 0 0 0 true)) add) = Some m.
Proof. reflexivity. Qed.

(** * non-vacuity: the guards of the theorems are met by ordinary projects *)

(** a clean project: generate writes the four configured files, exit 0, the guard [crashed = false] holds *)
Definition clean_example (f : fmt) : proj :=
  mk_proj (s "/w") [s "check"; s "generate"] f CfgOk [] false
    [mk_schf (s "/w/schema/a.graphql") (s "type Query { a: Int }
") None] []
    [mk_opf (s "/w/ops/q.graphql") (s "query Q { a }
") None None None [] SOk]
    None [] [] (mk_gencfg WithLoaderTS50 (Some (s "out/schema.d.ts")) None None false false) SOk SOk SOk.

Example clean_example_ok :
  crashed (run (clean_example Json)) = false /\ clean (clean_example Json) = true
  /\ exit_status (run (clean_example Json)) = 0
  /\ outcome_written (run (clean_example Json))
     = [s "/w/out/schema.d.ts"; s "/w/out/schema.d.ts.map"; s "/w/ops/q.d.graphql.ts"; s "/w/ops/q.d.graphql.ts.map"].
Proof. vm_compute. repeat split. Qed.

(** two operation files with a checker error each: [reaches_check], [schema_stage_ok] and the resolution
    hypotheses of [all_offending_files_reported] hold, and both files are named in the document *)
Definition two_faults_example : proj :=
  mk_proj (s "/w") [s "generate"] Json CfgOk [] false
    [mk_schf (s "/w/schema/a.graphql") (s "type Query { a: Int }
") None] []
    [mk_opf (s "/w/ops/q0.graphql") (s "query Q { a zz }
") None None None [mkerr (s "Field 'zz' is not defined") (Some (mkpos 0 12 1 false)) []] SOk;
     mk_opf (s "/w/ops/q1.graphql") (s "query R {
  yy
}
") None None None [mkerr (s "Field 'yy' is not defined") (Some (mkpos 1 2 2 false)) []] SOk]
    None [] [] (mk_gencfg WithLoaderTS50 (Some (s "out/schema.d.ts")) None None false false) SOk SOk SOk.

Example two_faults_example_guards :
  reaches_check two_faults_example /\ schema_stage_ok two_faults_example
  /\ (forall o', In o' (pj_ops two_faults_example) -> op_ext o' = None /\ op_imp o' = None)
  /\ exit_status (run two_faults_example) = 1 /\ outcome_written (run two_faults_example) = [].
Proof.
  repeat split; try reflexivity.
  - exists (s "generate"), []. split; [reflexivity|right; reflexivity].
  - destruct H as [<-|[<-|[]]]; reflexivity.
  - destruct H as [<-|[<-|[]]]; reflexivity.
Qed.

Example two_faults_example_output :
  match run two_faults_example with
  | Exit 1 out _ [] =>
      match parse_json out with
      | Some t => option_map (map (fun d => (d_path d, d_line d, d_col d))) (json_diags t)
                  = Some [ (s "/w/ops/q0.graphql", 0, 12); (s "/w/ops/q1.graphql", 1, 2) ]
      | None => False
      end
  | _ => False
  end.
Proof. vm_compute. reflexivity. Qed.

(** [message_for_line_located]: its two hypotheses hold for a position inside a file *)
Example located_example :
  exists rest, message_for_line (s "/w/q.graphql") (s "query Q {
  a
}
") (mkpos 1 2 0 false) (s "Field 'a' is not defined") false = s "/w/q.graphql:2:3
" ++ rest.
Proof. eexists. vm_compute. reflexivity. Qed.

(** * every structured diagnostic of the json document names a file of the store, with the position the error carries *)

Lemma json_check_diag_of files k e :
  json_check_diag (check_error_json files (k, e))
  = Some match located_file files e with
         | Some (f, pos) => [mk_diag (Some k) (f_path f) (u32 (p_line pos)) (u32 (p_col pos))]
         | None => []
         end.
Proof.
  unfold check_error_json. destruct (located_file files e) as [[f pos]|]; destruct k; reflexivity.
Qed.

Lemma collect_check_diags files l :
  collect json_check_diag (map (check_error_json files) l)
  = Some (flat_map (fun ke => match located_file files (snd ke) with
                              | Some (f, pos) => [mk_diag (Some (fst ke)) (f_path f) (u32 (p_line pos)) (u32 (p_col pos))]
                              | None => []
                              end) l).
Proof.
  induction l as [|[k e] r IH]; [reflexivity|]. cbn [map collect flat_map fst snd].
  rewrite json_check_diag_of, IH. reflexivity.
Qed.

Lemma located_file_in files e f pos : located_file files e = Some (f, pos) -> In f files /\ e_pos e = Some pos.
Proof.
  unfold located_file. destruct (e_pos e) as [q|]; [|discriminate]. destruct (p_builtin q); [discriminate|].
  unfold get_file. destruct (nth_error files (N.to_nat (p_file q))) eqn:E; [|discriminate].
  intro H. inversion H; subst. split; [eapply nth_error_In; eauto|reflexivity].
Qed.

Theorem json_diagnostics_name_store_files p code out err w :
  run p = Exit code out err w -> pj_format p = Json ->
  exists t ds, parse_json out = Some t /\ json_diags t = Some ds
    /\ forall d, In d ds ->
         exists f k e pos, In f (snd (run_cli_impl p)) /\ f_path f = d_path d
                           /\ In (k, e) (st_check (snd (fst (run_cli_impl p)))) /\ d_kind d = Some k
                           /\ e_pos e = Some pos /\ d_line d = u32 (p_line pos) /\ d_col d = u32 (p_col pos).
Proof.
  intros H Hf. destruct (run_exit p code out err w H) as (r & x & files & cerr & E & _ & _ & R).
  rewrite Hf in R. pose proof (render_json _ _ _ _ _ _ _ _ R) as ->.
  exists (json_tree files x cerr). rewrite E. cbn [fst snd].
  rewrite json_tree_members. unfold json_diags, jfield.
  rewrite !jget_app, jget_error_member by reflexivity.
  unfold check_member. destruct (existsb (str_eqb CHECK) (st_run x)).
  - cbn [jget]. change (str_eqb (s "check") (s "check")) with true. cbn iota. cbn [jfield jget].
    change (str_eqb (s "errors") (s "errors")) with true. cbn iota.
    rewrite collect_check_diags. eexists. split; [apply parse_print_json|]. split; [reflexivity|].
    intros d Hd. apply in_flat_map in Hd as ([k e] & Hin & Hd). cbn [fst snd] in Hd.
    destruct (located_file files e) as [[f pos]|] eqn:EL; [|contradiction].
    destruct Hd as [<-|[]]. destruct (located_file_in files e f pos EL) as [Hf' Hp].
    exists f, k, e, pos. cbn. repeat split; auto.
  - cbn [jget]. rewrite jget_generate_member by reflexivity.
    exists []. split; [apply parse_print_json|]. split; [reflexivity|]. intros d [].
Qed.

(** * the file of a diagnostic is the file index carried by the node's position — not the document that was being
    checked when the diagnostic was produced (an error found inside an #import-ed fragment while the importing
    document is checked names the fragment's file) *)
Lemma located_file_is_position_file files e f pos :
  located_file files e = Some (f, pos) ->
  e_pos e = Some pos /\ p_builtin pos = false /\ get_file files (p_file pos) = Some f.
Proof.
  unfold located_file. destruct (e_pos e) as [q|]; [|discriminate]. destruct (p_builtin q) eqn:B; [discriminate|].
  destruct (get_file files (p_file q)) eqn:G; [|discriminate]. intro H. inversion H; subst. auto.
Qed.

(** file store: 0 schema, 1 the fragment file, 2 the importing file.  The checker answers for the *importing* file
    (index 2) with an error positioned in the fragment file (index 1): every format names the fragment file *)
Definition imported_fragment_example (f : fmt) : proj :=
  mk_proj (s "/w") [s "check"] f CfgOk [] false
    [mk_schf (s "/w/schema/a.graphql") (s "type Query { a: Int }
") None] []
    [mk_opf (s "/w/ops/imp_frags.graphql") (s "# fragments
#
#
fragment F on Query {
  a @include(if: $v)
}
") None None None [] SOk;
     mk_opf (s "/w/ops/imp.graphql") (s "#import F from ""./imp_frags.graphql""
query Q { ...F }
") None None None [mkerr (s "Variable '$v' is not defined") (Some (mkpos 4 18 1 false)) []] SOk]
    None [] [] (mk_gencfg WithLoaderTS50 (Some (s "out/schema.d.ts")) None None false false) SOk SOk SOk.

Example imported_fragment_diagnostic_names_fragment_file :
  (match run (imported_fragment_example Json) with
   | Exit 1 out _ [] =>
       match parse_json out with
       | Some t => option_map (map (fun d => (d_kind d, d_path d, d_line d, d_col d))) (json_diags t)
                   = Some [ (Some false, s "/w/ops/imp_frags.graphql", 4, 18) ]
       | None => False
       end
   | _ => False
   end)
  /\ (match run (imported_fragment_example Rdjson) with
      | Exit 1 out _ [] =>
          match parse_json out with
          | Some t => option_map (map (fun d => (d_path d, d_line d, d_col d))) (rdjson_diags t)
                      = Some [ (s "/w/ops/imp_frags.graphql", 4, 18) ]
          | None => False
          end
      | _ => False
      end)
  /\ (match run_texts (imported_fragment_example Human) with
      | Some (1, texts) => flat_map (locations_of (s "/w/ops/imp_frags.graphql")) texts = [(5, 19)]
                           /\ flat_map (locations_of (s "/w/ops/imp.graphql")) texts = []
      | _ => False
      end).
Proof. vm_compute. repeat split. Qed.
