(** C16 — correspondence ([agree]: model output = implementation output) and the property's
    spec-side predicate evaluated on the implementation's outputs ([holds]). *)
From V Require Import Base.Util Gql.Ast Writer.Wop C16.Model C16.Spec C16.SpecLex.
Local Open Scope N_scope.

(** text given line by line (the harness prints multi-line texts this way) *)
Definition nl (ls : list str) : str := join_lf ls.

(** Printable-ASCII strings of the case files are written [b "…"]: a string notation that
    elaborates to a list of [Byte.byte] constants (one constructor per character, an order of
    magnitude cheaper for coqc to elaborate than [Ascii]-based literals), converted here. *)
From Coq Require Import Init.Byte.
Inductive blit := BL (l : list Byte.byte).
Definition blit_parse (l : list Byte.byte) : blit := BL l.
Definition blit_print (x : blit) : list Byte.byte := match x with BL l => l end.
Declare Scope blit_scope.
Delimit Scope blit_scope with blit.
String Notation blit blit_parse blit_print : blit_scope.
Definition b (x : blit) : str := match x with BL l => map Byte.to_N l end.
Arguments b x%blit_scope.

(** in "light" cases the harness erases the positions of the document (they do not reach the text) *)
Definition P : pos := pos0.

(** outcome of parsing the printed text again with the real parser: the same document modulo
    positions (decided by the harness on the position-erased canonical dumps, so that the second
    copy need not be shipped), a different document, or no document (error or panic) *)
Inductive reparse (D : Type) := ReSame | ReDiff (B : D) | ReNone.
Arguments ReSame {D}. Arguments ReDiff {D} B. Arguments ReNone {D}.
Definition reparse_ok {D} (eq : D -> D -> bool) (A : D) (r : reparse D) : bool :=
  match r with ReSame => true | ReDiff B => eq A B | ReNone => false end.

(** ** equality of documents modulo positions *)
Definition id_eq (a b : ident) : bool := str_eqb (iname a) (iname b).
Definition opt_eq {A} (f : A -> A -> bool) (a b : option A) : bool := option_eqb f a b.
Definition l_eq {A} (f : A -> A -> bool) (a b : list A) : bool := list_eqb f a b.

Fixpoint ty_eq (a b : ty) : bool :=
  match a, b with
  | TNamed x, TNamed y => id_eq x y
  | TNonNull x, TNonNull y => ty_eq x y
  | TList _ x, TList _ y => ty_eq x y
  | _, _ => false
  end.

Fixpoint value_eq (a b : value) : bool :=
  match a, b with
  | VVar x _, VVar y _ => str_eqb x y
  | VInt _ x, VInt _ y => str_eqb x y
  | VFloat _ x, VFloat _ y => str_eqb x y
  | VString _ x, VString _ y => str_eqb x y
  | VBool _ x, VBool _ y => Bool.eqb x y
  | VNull _, VNull _ => true
  | VEnum _ x, VEnum _ y => str_eqb x y
  | VList _ xs, VList _ ys =>
      (fix go (l : list value) (m : list value) : bool :=
         match l, m with
         | [], [] => true
         | x :: l', y :: m' => value_eq x y && go l' m'
         | _, _ => false
         end) xs ys
  | VObject _ xs, VObject _ ys =>
      (fix go (l : list (ident * value)) (m : list (ident * value)) : bool :=
         match l, m with
         | [], [] => true
         | x :: l', y :: m' => id_eq (fst x) (fst y) && value_eq (snd x) (snd y) && go l' m'
         | _, _ => false
         end) xs ys
  | _, _ => false
  end.

Definition arg_eq (a b : ident * value) : bool := id_eq (fst a) (fst b) && value_eq (snd a) (snd b).
Definition args_eq (a b : arguments) : bool := l_eq arg_eq (args_list a) (args_list b).
Definition dir_eq (a b : directive) : bool := id_eq (dir_name a) (dir_name b) && opt_eq args_eq (dir_args a) (dir_args b).
Definition dirs_eq := l_eq dir_eq.

Fixpoint sel_eq (a b : selection) : bool :=
  match a, b with
  | SField al n ar ds ss, SField al' n' ar' ds' ss' =>
      opt_eq id_eq al al' && id_eq n n' && opt_eq args_eq ar ar' && dirs_eq ds ds'
      && match ss, ss' with
         | None, None => true
         | Some x, Some y => selset_eq x y
         | _, _ => false
         end
  | SSpread _ n ds, SSpread _ n' ds' => id_eq n n' && dirs_eq ds ds'
  | SInline _ c ds ss, SInline _ c' ds' ss' => opt_eq id_eq c c' && dirs_eq ds ds' && selset_eq ss ss'
  | _, _ => false
  end
with selset_eq (a b : selset) : bool :=
  match a, b with
  | SelSet _ l, SelSet _ m =>
      (fix go (l : list selection) (m : list selection) : bool :=
         match l, m with
         | [], [] => true
         | x :: l', y :: m' => sel_eq x y && go l' m'
         | _, _ => false
         end) l m
  end.

Definition vardef_eq (a b : vardef) : bool :=
  str_eqb (vd_name a) (vd_name b) && ty_eq (vd_type a) (vd_type b)
  && opt_eq value_eq (vd_default a) (vd_default b) && dirs_eq (vd_dirs a) (vd_dirs b).
Definition vardefs_eq (a b : vardefs) : bool := l_eq vardef_eq (vds_list a) (vds_list b).
Definition opdef_eq (a b : opdef) : bool :=
  optype_eqb (op_type a) (op_type b) && opt_eq id_eq (op_name a) (op_name b)
  && opt_eq vardefs_eq (op_vars a) (op_vars b) && dirs_eq (op_dirs a) (op_dirs b)
  && selset_eq (op_sel a) (op_sel b).
Definition fragdef_eq (a b : fragdef) : bool :=
  id_eq (fr_name a) (fr_name b) && id_eq (fr_cond a) (fr_cond b) && dirs_eq (fr_dirs a) (fr_dirs b)
  && selset_eq (fr_sel a) (fr_sel b).
Definition target_eq (a b : import_target) : bool :=
  match a, b with
  | ImpWildcard, ImpWildcard => true
  | ImpName x, ImpName y => id_eq x y
  | _, _ => false
  end.
Definition importdef_eq (a b : importdef) : bool :=
  l_eq target_eq (im_targets a) (im_targets b) && str_eqb (im_path a) (im_path b).
Definition execdef_eq (a b : execdef) : bool :=
  match a, b with
  | DOp x, DOp y => opdef_eq x y
  | DFrag x, DFrag y => fragdef_eq x y
  | DImport x, DImport y => importdef_eq x y
  | _, _ => false
  end.
Definition opdoc_eq (a b : opdoc) : bool := l_eq execdef_eq (od_defs a) (od_defs b).

Definition desc_eq (a b : option desc) : bool := opt_eq (fun x y => str_eqb (desc_value x) (desc_value y)) a b.
Definition kw_eq (a b : keyword) : bool := str_eqb (kw_name a) (kw_name b).
Definition inputval_eq (a b : inputvaldef) : bool :=
  desc_eq (iv_desc a) (iv_desc b) && id_eq (iv_name a) (iv_name b) && ty_eq (iv_type a) (iv_type b)
  && opt_eq value_eq (iv_default a) (iv_default b) && dirs_eq (iv_dirs a) (iv_dirs b).
Definition fielddef_eq (a b : fielddef) : bool :=
  desc_eq (fd_desc a) (fd_desc b) && id_eq (fd_name a) (fd_name b)
  && opt_eq (l_eq inputval_eq) (fd_args a) (fd_args b) && ty_eq (fd_type a) (fd_type b)
  && dirs_eq (fd_dirs a) (fd_dirs b).
Definition enumval_eq (a b : enumvaldef) : bool :=
  desc_eq (ev_desc a) (ev_desc b) && id_eq (ev_name a) (ev_name b) && dirs_eq (ev_dirs a) (ev_dirs b).
Definition ids_eq := l_eq id_eq.

Definition typedef_eq (a b : typedef) : bool :=
  match a, b with
  | TDScalar d _ n ds k, TDScalar d' _ n' ds' k' => desc_eq d d' && id_eq n n' && dirs_eq ds ds' && kw_eq k k'
  | TDObject d _ n im ds fs k, TDObject d' _ n' im' ds' fs' k' =>
      desc_eq d d' && id_eq n n' && ids_eq im im' && dirs_eq ds ds' && l_eq fielddef_eq fs fs' && kw_eq k k'
  | TDInterface d _ n im ds fs k, TDInterface d' _ n' im' ds' fs' k' =>
      desc_eq d d' && id_eq n n' && ids_eq im im' && dirs_eq ds ds' && l_eq fielddef_eq fs fs' && kw_eq k k'
  | TDUnion d _ n ds ms k, TDUnion d' _ n' ds' ms' k' =>
      desc_eq d d' && id_eq n n' && dirs_eq ds ds' && ids_eq ms ms' && kw_eq k k'
  | TDEnum d _ n ds vs k, TDEnum d' _ n' ds' vs' k' =>
      desc_eq d d' && id_eq n n' && dirs_eq ds ds' && l_eq enumval_eq vs vs' && kw_eq k k'
  | TDInput d _ n ds fs k, TDInput d' _ n' ds' fs' k' =>
      desc_eq d d' && id_eq n n' && dirs_eq ds ds' && l_eq inputval_eq fs fs' && kw_eq k k'
  | _, _ => false
  end.
Definition typeext_eq (a b : typeext) : bool :=
  match a, b with
  | TEScalar _ n ds, TEScalar _ n' ds' => id_eq n n' && dirs_eq ds ds'
  | TEObject _ n im ds fs, TEObject _ n' im' ds' fs' =>
      id_eq n n' && ids_eq im im' && dirs_eq ds ds' && l_eq fielddef_eq fs fs'
  | TEInterface _ n im ds fs, TEInterface _ n' im' ds' fs' =>
      id_eq n n' && ids_eq im im' && dirs_eq ds ds' && l_eq fielddef_eq fs fs'
  | TEUnion _ n ds ms, TEUnion _ n' ds' ms' => id_eq n n' && dirs_eq ds ds' && ids_eq ms ms'
  | TEEnum _ n ds vs, TEEnum _ n' ds' vs' => id_eq n n' && dirs_eq ds ds' && l_eq enumval_eq vs vs'
  | TEInput _ n ds fs, TEInput _ n' ds' fs' => id_eq n n' && dirs_eq ds ds' && l_eq inputval_eq fs fs'
  | _, _ => false
  end.
Definition rootop_eq (a b : optype * ident) : bool := optype_eqb (fst a) (fst b) && id_eq (snd a) (snd b).
Definition schemadef_eq (a b : schemadef) : bool :=
  desc_eq (sd_desc a) (sd_desc b) && dirs_eq (sd_dirs a) (sd_dirs b) && l_eq rootop_eq (sd_ops a) (sd_ops b).
Definition schemaext_eq (a b : schemaext) : bool :=
  dirs_eq (se_dirs a) (se_dirs b) && l_eq rootop_eq (se_ops a) (se_ops b).
Definition directivedef_eq (a b : directivedef) : bool :=
  desc_eq (dd_desc a) (dd_desc b) && id_eq (dd_name a) (dd_name b)
  && opt_eq (l_eq inputval_eq) (dd_args a) (dd_args b) && opt_eq id_eq (dd_repeatable a) (dd_repeatable b)
  && ids_eq (dd_locs a) (dd_locs b) && kw_eq (dd_kw a) (dd_kw b).
Definition tsdef_eq (a b : tsdef) : bool :=
  match a, b with
  | TSSchema x, TSSchema y => schemadef_eq x y
  | TSType x, TSType y => typedef_eq x y
  | TSDirective x, TSDirective y => directivedef_eq x y
  | TSSchemaExt x, TSSchemaExt y => schemaext_eq x y
  | TSTypeExt x, TSTypeExt y => typeext_eq x y
  | _, _ => false
  end.
Definition tsdoc_eq (a b : tsdoc) : bool := l_eq tsdef_eq a b.

(** exact equality of documents (positions included): used where the implementation's output
    is a transformed document ([remove_builtins], the model plugin) *)
Definition tsdoc_same (a b : tsdoc) : bool :=
  (* printing both with the recording writer compares names, values and the positions that
     reach the writer; definitions that print nothing do not exist *)
  wops_eqb (print_tsdoc a) (print_tsdoc b) && tsdoc_eq a b.

(** ** cases *)
Inductive case :=
(* verif_hooks::print_string(x) through a JustWriter = out *)
| CStr (x out : str)
(* an operation list through the real JustWriter (out) and the real JsStringWriter (js) *)
| CWriter (ops : list wop) (out js : str)
(* parse_type_system_document(src) = A; out = A.print_graphql through a JustWriter;
   ops (recording writer) and js (JsStringWriter) only in "full" cases;
   re = parse_type_system_document(out) *)
| CTs (A : tsdoc) (ops : option (list wop)) (out : str) (js : option str) (re : reparse tsdoc)
(* the same for parse_operation_document *)
| COp (A : opdoc) (ops : option (list wop)) (out : str) (js : option str) (re : reparse opdoc)
(* resolved schema A (TypeSystemDocument, built-ins included); stripped = remove_builtins(A) folded
   through the configured plugins; ops/out/js = stripped.print_graphql; re = parse(out) *)
| CServer (plugin : bool) (A stripped : tsdoc) (ops : list wop) (out js : str) (re : reparse tsdoc)
(* a JavaScript template literal source and what a JavaScript engine (node) evaluates it to
   (None: SyntaxError or a substitution); cross-checks [eval_template] *)
| CTemplate (src : str) (v : option str)
(* the module text the real CLI wrote for serverGraphqlOutput for the resolved schema A; when node
   is available: the value node imports from it and that value parsed by the real parser
   (always shipped: [ReDiff B] or [ReNone]) *)
| CModule (plugin : bool) (A : tsdoc) (text : str) (node_used : bool) (v : option str) (re : reparse tsdoc).

Definition writers_agree (ops : list wop) (out js : str) : bool :=
  str_eqb (just_run ops) out && str_eqb (js_run ops) js.

Definition doc_agree (model_ops : list wop) (ops : option (list wop)) (out : str) (js : option str) : bool :=
  match ops with Some o => wops_eqb model_ops o | None => true end
  && str_eqb (just_run model_ops) out
  && match js with Some j => str_eqb (js_run model_ops) j | None => true end.

Definition agree (c : case) : bool :=
  match c with
  | CStr x out => str_eqb (print_string x) out
  | CWriter ops out js => writers_agree ops out js
  | CTs A ops out js _ => doc_agree (print_tsdoc_ext A) ops out js
  | COp A ops out js _ => doc_agree (print_opdoc A) ops out js
  | CServer plugin A stripped ops out js _ =>
      tsdoc_same (server_schema plugin A) stripped
      && wops_eqb (print_tsdoc stripped) ops && writers_agree ops out js
  | CTemplate _ _ => true
  | CModule plugin A text _ _ _ => str_eqb (server_module plugin A) text
  end.

(** the template literal evaluates to a line feed followed by what was written *)
Definition template_ok (out js : str) : bool := option_eqb str_eqb (eval_template js) (Some (LF :: out)).
(** "light" cases do not carry the JsStringWriter text: there only the guards of [template_roundtrip]
    are evaluated, on the model's operation list (the text the real JsStringWriter writes, which
    depends on how the real printer chunks its writes, is compared in the "full", server and module
    cases) *)
Definition template_ok_opt (model_ops : list wop) (out : str) (js : option str) : bool :=
  match js with
  | Some j => template_ok out j
  | None => no_cr_ops model_ops && no_split_dollar model_ops
  end.

(** the string literal [out] lexes as exactly one token whose value (as nitrogql's parser reads
    it) is [x] *)
Definition string_ok (x out : str) : bool :=
  match lex_string out with
  | Some (t, []) => str_eqb (value_nitrogql t) x
  | _ => false
  end.

(** the printed text, lexed by the specification's lexer, is the token sequence of the document *)
Definition lex_ok (out : str) (expected : list tok) : bool :=
  match lex out with Some ts => list_eqb tok_eqb ts expected | None => false end.
(** the same under the specification's reading of string tokens, the document's multi-line values
    standing for their BlockStringValue *)
Definition lex_ok_spec (out : str) (expected : list tok) : bool :=
  match lex_spec out with Some ts => list_eqb tok_eqb ts expected | None => false end.

Definition holds (c : case) : bool :=
  match c with
  | CStr x out => string_ok x out
  | CWriter _ out js => template_ok out js
  | CTs A _ out js re =>
      template_ok_opt (print_tsdoc_ext A) out js && reparse_ok tsdoc_eq A re && lex_ok out (tokens_of_tsdoc A) && lex_ok_spec out (tokens_spec_tsdoc A)
  | COp A _ out js re =>
      template_ok_opt (print_opdoc A) out js && reparse_ok opdoc_eq A re && lex_ok out (tokens_of_opdoc A) && lex_ok_spec out (tokens_spec_opdoc A)
  | CServer plugin A stripped _ out js re =>
      (* [ReSame] here: the printed text parses back to [stripped] *)
      template_ok out js
      && match re with
         | ReSame => tsdoc_eq (spec_server_schema plugin A) stripped
         | ReDiff B => tsdoc_eq (spec_server_schema plugin A) B
         | ReNone => false
         end
      && lex_ok out (tokens_of_tsdoc (spec_server_schema plugin A))
      && lex_ok_spec out (tokens_spec_tsdoc (spec_server_schema plugin A))
  | CTemplate src v => option_eqb str_eqb (eval_template src) v
  | CModule plugin A text node_used v re =>
      if node_used then
        match v with
        | Some x => option_eqb str_eqb (module_value text) (Some x)
                    && reparse_ok tsdoc_eq (spec_server_schema plugin A) re
        | None => false
        end
      else match module_value text with Some _ => true | None => false end
  end.
