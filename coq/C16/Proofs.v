(** C16 — refutation witnesses for the behaviour of the current code that violates the property,
    non-vacuity examples for the guarded theorems, and the gathered statements. *)
From V Require Import Base.Util Gql.Ast Writer.Wop C16.Model C16.Spec
  C16.ProofsTemplate C16.ProofsString C16.ProofsStrip C16.ProofsDoc C16.ProofsReindent C16.SpecLex C16.LexGuard C16.ProofsGlue C16.ProofsLex1 C16.ProofsBlock C16.ProofsLex2 C16.ProofsLex3.
Local Open Scope N_scope.

(** ** the full statements (not provable for the current code: see the refutations) *)

(** the literal [print_string] writes is one StringValue token whose value is the string, as
    nitrogql's parser reads it / as the GraphQL specification reads it *)
Definition reads_back (x : str) : bool :=
  match lex_string (print_string x) with
  | Some (t, []) => str_eqb (value_nitrogql t) x
  | _ => false
  end.
Definition reads_back_spec (x : str) : bool :=
  match lex_string (print_string x) with
  | Some (t, []) => str_eqb (value_spec t) x
  | _ => false
  end.
Definition print_string_lex_full : Prop := forall x, reads_back x = true.
Definition print_string_lex_spec_full : Prop := forall x, reads_back_spec x = true.
Definition template_roundtrip_full : Prop :=
  forall ops, eval_template (js_run ops) = Some (LF :: just_run ops).

Lemma reads_back_plain x : plain x = true -> reads_back x = true.
Proof.
  intro H. destruct (print_string_lex_partial x [] H eq_refl) as [t [Hl Hv]].
  unfold reads_back. rewrite app_nil_r in Hl. rewrite Hl, Hv. apply str_eqb_refl.
Qed.

(** ** refutations: single-line strings *)
Definition w_quote : str := s "say ""hi"" \ there".
Lemma print_string_quote_refuted :
  exists x, is_multiline x = false /\ reads_back x = false /\ reads_back_spec x = false.
Proof. exists w_quote. vm_compute. auto. Qed.

(** a backslash is not escaped: the literal reads back as a different value (here a, U+0008) *)
Lemma print_string_backslash_refuted :
  exists x y, is_multiline x = false /\ lex_string (print_string x) = Some (TNormal y, []) /\ y <> x.
Proof. exists (s "a\b"), [97; 8]. vm_compute. repeat split; try reflexivity. discriminate. Qed.

(** ** refutations: multi-line strings *)
Lemma print_string_block_quote_refuted :
  exists x, is_multiline x = true /\ no_triple x = true /\ reads_back x = false /\ reads_back_spec x = false.
Proof. exists (s "a" ++ [LF] ++ s "b"""). vm_compute. auto. Qed.

Lemma print_string_block_backslash_refuted :
  exists x, is_multiline x = true /\ no_triple x = true /\ lex_string (print_string x) = None.
Proof. exists (s "x" ++ [LF] ++ s "\"). vm_compute. auto. Qed.

(** three quotes inside: escaped by the printer, and kept escaped by nitrogql's raw reading
    (the specification's reading does give the value back here) *)
Lemma print_string_block_triple_refuted :
  exists x, is_multiline x = true /\ reads_back x = false /\ reads_back_spec x = true.
Proof. exists (s "a """""" b" ++ [LF] ++ s "c"). vm_compute. auto. Qed.

(** a value with a line feed that is not in block-string normal form is changed under the
    specification's reading (indentation, leading / trailing blank lines, carriage returns) *)
Lemma print_string_block_spec_refuted :
  exists x, plain x = true /\ reads_back x = true /\ reads_back_spec x = false.
Proof. exists (s "a" ++ [LF] ++ s "  b"). vm_compute. auto. Qed.

Lemma print_string_lex_full_refuted : ~ print_string_lex_full.
Proof. intro H. specialize (H w_quote). vm_compute in H. discriminate. Qed.
Lemma print_string_lex_spec_full_refuted : ~ print_string_lex_spec_full.
Proof. intro H. specialize (H w_quote). vm_compute in H. discriminate. Qed.

(** ** refutation: a block string written inside an indented block is re-indented by the writer.
    The description of a field: "{", line feed, indent, then the literal.  The literal read from
    the output has the value with two more spaces on its second line under nitrogql's reading,
    and the original value under the specification's. *)
Lemma block_reindent_refuted :
  exists x, plain x = true /\
    exists t, lex_string (skipn 4 (just_run [W (s "{" ++ [LF]); Indent; W (print_string x)])) = Some (t, [])
              /\ value_nitrogql t <> x /\ value_spec t = x.
Proof.
  exists (s "a" ++ [LF] ++ s "b"). split; [reflexivity|].
  exists (TBlock (s "a" ++ [LF] ++ s "  b")). vm_compute. repeat split; try reflexivity. discriminate.
Qed.

(** ** refutations: the template literal *)
Lemma template_cr_refuted :
  exists ops, no_split_dollar ops = true /\
    eval_template (js_run ops) = Some (LF :: s "a" ++ [LF] ++ s "b") /\ just_run ops = s "a" ++ [CR] ++ s "b".
Proof. exists [W (s "a" ++ [CR] ++ s "b")]. vm_compute. auto. Qed.

Lemma template_split_dollar_refuted :
  exists ops, no_cr_ops ops = true /\ eval_template (js_run ops) = None /\ just_run ops = s "${".
Proof. exists [W (s "$"); W (s "{")]. vm_compute. auto. Qed.

Lemma template_roundtrip_full_refuted : ~ template_roundtrip_full.
Proof. intro H. specialize (H [W (s "$"); W (s "{")]). vm_compute in H. discriminate. Qed.

(** ** extensions with directives only.  A schema extension without root operations is printed
    without braces since /repo 6472a53 (it used to be printed with an empty brace pair, which does
    not parse); the text below is accepted by the parser and re-parses to the same document (corpus
    case of the harness).  A union extension without members is still printed with a dangling
    equals sign (pinned by the parser's union_definition snapshot): the grammar wants at least one
    member after it, nitrogql's parser rejects the text. *)
Definition dir_a : directive := mkDir pos0 (mkId (s "a") pos0) None.
Lemma extend_schema_directives_only :
  just_run (print_tsdoc_ext [TSSchemaExt (mkSchemaExt pos0 [dir_a] [])])
  = s "extend schema @a" ++ [LF; LF].
Proof. vm_compute. reflexivity. Qed.
Lemma extend_union_refuted :
  just_run (print_tsdoc_ext [TSTypeExt (TEUnion pos0 (mkId (s "U") pos0) [dir_a] [])])
  = s "extend union U @a =" ++ [LF; LF].
Proof. vm_compute. reflexivity. Qed.

(** ** non-vacuity of the guards *)
Example plain_line_example : plain (s "tick ` and ${x}" ++ [9; 13; 7; 233; 128512]) = true.
Proof. reflexivity. Qed.
Example plain_block_example : plain (s "multi ""quoted""" ++ [LF] ++ s "line \ with $ {" ++ [LF]) = true.
Proof. reflexivity. Qed.

(** a schema with what the server output must strip, descriptions with template-relevant
    characters, a default value and an operation with variables *)
Definition ex_str (x : str) : value := VString pos0 x.
Definition ex_id (x : String.string) : ident := mkId (s x) pos0.
Arguments ex_id x%string_scope.
Definition ex_schema : tsdoc :=
  [ TSDirective (mkDirDef None pos0 (ex_id "nitrogql_ts_type")
       (Some [mkInputVal None pos0 (ex_id "resolverInput") (TNonNull (TNamed (ex_id "String"))) None []])
       None [ex_id "SCALAR"] (mkKw (s "directive") pos0));
    TSDirective (mkDirDef None pos0 (ex_id "model")
       (Some [mkInputVal None pos0 (ex_id "type") (TNamed (ex_id "String")) None []])
       None [ex_id "OBJECT"; ex_id "FIELD_DEFINITION"] (mkKw (s "directive") pos0));
    TSType (TDScalar (Some (mkDesc pos0 (s "a `date` costs ${x} \ y"))) pos0 (ex_id "Date")
       [mkDir pos0 (ex_id "nitrogql_ts_type") (Some (mkArgs pos0 [(ex_id "resolverInput", ex_str (s "Date"))]));
        mkDir pos0 (ex_id "specifiedBy") (Some (mkArgs pos0 [(ex_id "url", ex_str (s "https://x"))]))]
       (mkKw (s "scalar") pos0));
    TSType (TDObject None pos0 (ex_id "User") [ex_id "Node"]
       [mkDir pos0 (ex_id "model") (Some (mkArgs pos0 [(ex_id "type", ex_str (s "M"))]))]
       [mkFieldDef (Some (mkDesc pos0 (s "line one" ++ [LF] ++ s "line two"))) (ex_id "id") None
          (TNonNull (TNamed (ex_id "ID"))) [];
        mkFieldDef None (ex_id "posts")
          (Some [mkInputVal None pos0 (ex_id "first") (TNamed (ex_id "Int")) (Some (VInt pos0 (s "10"))) []])
          (TList pos0 (TNamed (ex_id "Post"))) [mkDir pos0 (ex_id "deprecated") None]]
       (mkKw (s "type") pos0)) ].

Example template_guards_example :
  no_cr_ops (print_tsdoc ex_schema) = true /\ no_split_dollar (print_tsdoc ex_schema) = true
  /\ (30 < length (print_tsdoc ex_schema))%nat.
Proof. vm_compute. repeat split. lia. Qed.

Example directives_placed_example :
  directives_placed true ex_schema = true
  /\ length (server_schema true ex_schema) = 2%nat
  /\ server_schema true ex_schema <> ex_schema.
Proof. split; [reflexivity|]. split; [reflexivity|]. vm_compute. discriminate. Qed.

(** the operation printer's only chunk ending in a dollar sign (a variable) is followed by the
    variable's name *)
Example variable_guard_example :
  no_split_dollar (p_value (VObject pos0 [(ex_id "a", VVar (s "v") pos0); (ex_id "b", VObject pos0 [])])) = true.
Proof. reflexivity. Qed.

(** the module text of the example, evaluated by the specification of template literals, is the
    text JustWriter writes for the stripped schema *)
Example server_module_example :
  eval_template (js_run (print_tsdoc (server_schema true ex_schema)))
  = Some (LF :: just_run (print_tsdoc (spec_server_schema true ex_schema))).
Proof.
  rewrite (strip_only_nitrogql true ex_schema) by reflexivity.
  apply template_roundtrip; vm_compute; reflexivity.
Qed.

(** ** the module written for serverGraphqlOutput exports the SDL text of the checked schema minus
    the nitrogql-only directives *)
Lemma strip_prefix_app : forall p x, strip_prefix p (p ++ x) = Some x.
Proof.
  induction p as [|a p IH]; intro x; [reflexivity|].
  cbn [app strip_prefix]. rewrite N.eqb_refl. apply IH.
Qed.

Lemma module_value_wrap t : module_value (module_prefix ++ t ++ [59; LF]) = eval_template t.
Proof.
  unfold module_value. rewrite strip_prefix_app. rewrite rev_app_distr. cbn [rev app].
  change ((LF =? 10) && (59 =? 59)) with true. cbv iota. rewrite rev_involutive. reflexivity.
Qed.

Lemma server_module_shape mp d :
  server_module mp d = module_prefix ++ js_run (print_tsdoc (server_schema mp d)) ++ [59; LF].
Proof. unfold server_module, module_prefix. rewrite <- !app_assoc. reflexivity. Qed.

Theorem server_module_value : forall model_plugin d,
  directives_placed model_plugin d = true ->
  tsdoc_ok (spec_server_schema model_plugin d) = true ->
  module_value (server_module model_plugin d)
  = Some (LF :: just_run (print_tsdoc (spec_server_schema model_plugin d))).
Proof.
  intros mp d Hp Hok. rewrite server_module_shape, module_value_wrap.
  rewrite (strip_only_nitrogql mp d Hp). apply tsdoc_template_roundtrip. exact Hok.
Qed.

Example server_module_value_example :
  directives_placed true ex_schema = true /\ tsdoc_ok (spec_server_schema true ex_schema) = true.
Proof. split; reflexivity. Qed.

Example opdoc_ok_example :
  opdoc_ok (mkOpDoc pos0
    [DOp (mkOp pos0 Query (Some (ex_id "Q"))
       (Some (mkVarDefs pos0 [mkVarDef pos0 (s "v") pos0 (TNamed (ex_id "Int")) (Some (VInt pos0 (s "3"))) [];
                              mkVarDef pos0 (s "w") pos0 (TNamed (ex_id "In")) (Some (VObject pos0 [])) []]))
       [] (SelSet pos0 [SField None (ex_id "f") (Some (mkArgs pos0 [(ex_id "a", VVar (s "v") pos0); (ex_id "b", VObject pos0 [(ex_id "k", VVar (s "w") pos0)])])) []
                          (Some (SelSet pos0 [SSpread pos0 (ex_id "F") []]))]))]) = true.
Proof. reflexivity. Qed.

(** non-vacuity of the re-indentation theorem: a field description as it is usually written *)
Example reindent_example :
  let rest := [s "  desc"; []; s "  more"; s "  "] in
  forallb line_ok ([] :: rest) = true
  /\ join_lf ([] :: indent_lines 2 rest) = [LF] ++ s "    desc" ++ [LF; LF] ++ s "    more" ++ [LF] ++ s "    "
  /\ block_string_value (join_lf ([] :: rest)) = s "desc" ++ [LF; LF] ++ s "more".
Proof. vm_compute. auto. Qed.

(** ** token level: non-vacuity and the need for the guard *)
Definition ex_lx : tsdoc :=
  [ TSType (TDScalar (Some (mkDesc pos0 (s "a `date` costs ${x}, or 1.5e3" ++ [9; 233; 128512]))) pos0 (ex_id "Date")
       [mkDir pos0 (ex_id "specifiedBy") (Some (mkArgs pos0 [(ex_id "url", ex_str (s "https://x")); (ex_id "n", VFloat pos0 (s "-1.5e+3"))]))]
       (mkKw (s "scalar") pos0));
    TSType (TDObject None pos0 (ex_id "User") [ex_id "Node"; ex_id "on"] []
       [mkFieldDef (Some (mkDesc pos0 (s "the id"))) (ex_id "id") None (TNonNull (TNamed (ex_id "ID"))) [];
        mkFieldDef None (ex_id "posts")
          (Some [mkInputVal None pos0 (ex_id "first") (TNamed (ex_id "Int")) (Some (VInt pos0 (s "10"))) [];
                 mkInputVal None pos0 (ex_id "filter") (TNamed (ex_id "In")) (Some (VObject pos0 [(ex_id "a", VList pos0 [VBool pos0 true; VNull pos0]); (ex_id "b", VEnum pos0 (s "RED"))])) []])
          (TList pos0 (TNamed (ex_id "Post"))) [mkDir pos0 (ex_id "deprecated") None]]
       (mkKw (s "type") pos0));
    TSType (TDUnion None pos0 (ex_id "U") [] [] (mkKw (s "union") pos0));
    TSSchemaExt (mkSchemaExt pos0 [dir_a] []);
    TSTypeExt (TEUnion pos0 (ex_id "U") [] [ex_id "User"]) ].

Example tsdoc_lx_example :
  tsdoc_lx_raw ex_lx = true /\ (60 < length (tokens_of_tsdoc ex_lx))%nat
  /\ gql_lex (just_run (print_tsdoc_ext ex_lx)) = Some (tokens_of_tsdoc ex_lx).
Proof. vm_compute. repeat split. lia. Qed.

(** outside the guard: the union extension without members is printed with an equals sign that is
    not among the tokens of the document *)
Example extend_union_tokens_refuted :
  let d := [TSTypeExt (TEUnion pos0 (mkId (s "U") pos0) [dir_a] [])] in
  tsdoc_lx_raw d = false /\ lex (just_run (print_tsdoc_ext d)) = Some (tokens_of_tsdoc d ++ [TP 61]).
Proof. vm_compute. split; reflexivity. Qed.

(** ** block strings: a non-trivial multi-line value in the guard, and its round trip through the
    printer, the writer at indentation 4, and the specification's reading *)
Definition ex_block : str :=
  [LF] ++ s "  Returns the ""current"" user," ++ [LF] ++ s "    or `null` \ ${nothing}." ++ [LF; LF] ++ s "  See #42" ++ [LF] ++ s "  ".

Example block_lit_example :
  block_lit ex_block = true /\ plain ex_block = true
  /\ snorm ex_block = s "Returns the ""current"" user," ++ [LF] ++ s "  or `null` \ ${nothing}." ++ [LF; LF] ++ s "See #42"
  /\ lex_spec (just_run [Indent; Indent; W (s "x " ++ [LF]); W (print_string ex_block); W [LF]]) = Some [TW (s "x"); TS (snorm ex_block)]
  /\ lex (just_run [Indent; Indent; W (s "x " ++ [LF]); W (print_string ex_block); W [LF]]) <> Some [TW (s "x"); TS ex_block].
Proof. vm_compute. repeat split. discriminate. Qed.

(** a document with multi-line descriptions on a type and on a field (as nitrogql holds them: raw) *)
Definition ex_lx_spec : tsdoc :=
  [ TSType (TDObject (Some (mkDesc pos0 ([LF] ++ s "A user." ++ [LF] ++ s "Second line." ++ [LF]))) pos0 (ex_id "User") [] []
       [mkFieldDef (Some (mkDesc pos0 ex_block)) (ex_id "id") None (TNonNull (TNamed (ex_id "ID"))) [];
        mkFieldDef None (ex_id "f")
          (Some [mkInputVal (Some (mkDesc pos0 (s "one" ++ [LF] ++ s "  two"))) pos0 (ex_id "a") (TNamed (ex_id "String"))
                   (Some (ex_str (s "a" ++ [LF] ++ s "b"))) []])
          (TNamed (ex_id "Int")) []]
       (mkKw (s "type") pos0)) ].

Example tsdoc_lx_spec_example :
  tsdoc_lx_spec ex_lx_spec = true /\ tsdoc_lx_raw ex_lx_spec = false
  /\ lex_spec (just_run (print_tsdoc_ext ex_lx_spec)) = Some (tokens_spec_tsdoc ex_lx_spec)
  /\ lex (just_run (print_tsdoc_ext ex_lx_spec)) <> Some (tokens_of_tsdoc ex_lx_spec).
Proof. vm_compute. repeat split. discriminate. Qed.

(** ** end to end: the value exported by the module written for serverGraphqlOutput lexes, under the
    specification's reading, to the token sequence of the checked schema minus the nitrogql-only
    directives *)
Lemma lex_with_lf val x : lex_with val (LF :: x) = lex_with val x.
Proof. reflexivity. Qed.

Theorem server_module_lexes : forall model_plugin d,
  directives_placed model_plugin d = true ->
  tsdoc_ok (spec_server_schema model_plugin d) = true ->
  tsdoc_lx_spec (spec_server_schema model_plugin d) = true ->
  exists t, module_value (server_module model_plugin d) = Some t
            /\ lex_spec t = Some (tokens_spec_tsdoc (spec_server_schema model_plugin d)).
Proof.
  intros mp d Hp Hok Hlx. eexists. split; [apply server_module_value; assumption|].
  unfold lex_spec. rewrite lex_with_lf. apply print_tsdoc_lex_spec. exact Hlx.
Qed.

(** one write of any text without a carriage return: what JsStringWriter writes evaluates to what
    JustWriter writes *)
Theorem template_single_write : forall x,
  no_cr x = true -> eval_template (js_run [W x]) = Some (LF :: just_run [W x]).
Proof.
  intros x H. apply template_roundtrip.
  - cbn [no_cr_ops forallb chunk_of]. rewrite H. reflexivity.
  - cbn [no_split_dollar next_starts_brace]. rewrite andb_false_r. reflexivity.
Qed.

(** a pair of escaped surrogates is one supplementary code point; a lone one is not a value *)
Example surrogate_pair_example :
  lex_string [34; 92; 117; 100; 56; 51; 100; 92; 117; 100; 101; 48; 48; 34] = Some (TNormal [128512], [])
  /\ lex_string [34; 92; 117; 100; 56; 51; 100; 34] = None
  /\ lex_string [34; 92; 117; 100; 101; 48; 48; 34] = None.
Proof. vm_compute. auto. Qed.
