(** C16 — the operation lists the GraphQL printer produces satisfy the guards of the template
    theorem, for every document whose names and numbers are atoms and whose multi-line strings
    have no carriage return.  Hence the template literal written for any such document
    evaluates to the text JustWriter writes for it. *)
From V Require Import Base.Util Gql.Ast Writer.Wop C16.Model C16.Spec C16.ProofsTemplate.
Local Open Scope N_scope.

(** ** a compositional invariant of operation lists *)
Definition calm (c : str) : bool := negb (ends_dollar c) && no_cr c.

(** every chunk is calm, except a chunk ending in a dollar sign that is directly followed by a
    calm, non-empty chunk not starting with an opening brace (the two are taken together) *)
Fixpoint Q (ops : list wop) : bool :=
  match ops with
  | [] => true
  | o :: r =>
      match chunk_of o with
      | None => Q r
      | Some c =>
          if ends_dollar c then
            no_cr c &&
            match r with
            | o2 :: r2 =>
                match chunk_of o2 with
                | Some (x :: c2) => negb (x =? LBRACE) && calm (x :: c2) && Q r2
                | _ => false
                end
            | [] => false
            end
          else no_cr c && Q r
      end
  end.

(** [Q] gives both guards *)
Lemma Q_sound_aux : forall n ops, (length ops <= n)%nat -> Q ops = true ->
  no_cr_ops ops = true /\ no_split_dollar ops = true.
Proof.
  induction n as [|n IH]; intros ops Hlen H.
  - destruct ops; [split; reflexivity|cbn in Hlen; lia].
  - destruct ops as [|o r]; [split; reflexivity|].
    cbn [length] in Hlen.
    destruct o as [c|c p nm| |]; cbn [Q chunk_of] in H.
    1,2: destruct (ends_dollar c) eqn:Ed.
    1,3: apply andb_true_iff in H as [Hc H];
         destruct r as [|o2 r2]; [discriminate|];
         destruct (chunk_of o2) as [[|x c2]|] eqn:E2; try discriminate;
         apply andb_true_iff in H as [H Hq]; apply andb_true_iff in H as [Hx Hcalm];
         unfold calm in Hcalm; apply andb_true_iff in Hcalm as [Hnd Hcr2];
         cbn [length] in Hlen;
         destruct (IH r2 ltac:(lia) Hq) as [I1 I2];
         (split;
          [ cbn [no_cr_ops forallb chunk_of]; rewrite Hc; cbn [andb];
            change (forallb (fun o => match chunk_of o with Some c0 => no_cr c0 | None => true end) (o2 :: r2)) with (no_cr_ops (o2 :: r2));
            cbn [no_cr_ops forallb]; rewrite E2, Hcr2; exact I1
          | cbn [no_split_dollar]; rewrite Ed; cbn [andb];
            assert (Hn : next_starts_brace (o2 :: r2) = false)
              by (destruct o2; cbn [chunk_of] in E2; try discriminate; injection E2 as ->; cbn [next_starts_brace];
                  apply negb_true_iff in Hx; exact Hx);
            rewrite Hn; cbn [negb andb];
            destruct o2; cbn [chunk_of] in E2; try discriminate; injection E2 as ->;
            cbn [no_split_dollar]; apply negb_true_iff in Hnd; rewrite Hnd; cbn [andb negb]; exact I2 ]).
    1,2: apply andb_true_iff in H as [Hc Hq];
         destruct (IH r ltac:(lia) Hq) as [I1 I2];
         (split;
          [ cbn [no_cr_ops forallb chunk_of]; rewrite Hc; exact I1
          | cbn [no_split_dollar]; rewrite Ed; cbn [andb negb]; exact I2 ]).
    1,2: destruct (IH r ltac:(lia) H) as [I1 I2]; (split; [exact I1|exact I2]).
Qed.

Lemma Q_sound ops : Q ops = true -> no_cr_ops ops = true /\ no_split_dollar ops = true.
Proof. apply (Q_sound_aux (length ops)). lia. Qed.

Lemma Q_app_aux : forall n a b, (length a <= n)%nat -> Q a = true -> Q b = true -> Q (a ++ b) = true.
Proof.
  induction n as [|n IH]; intros a b Hlen Ha Hb.
  - destruct a; [exact Hb|cbn in Hlen; lia].
  - destruct a as [|o r]; [exact Hb|]. cbn [length] in Hlen.
    cbn [app Q] in Ha |- *. destruct (chunk_of o) as [c|].
    + destruct (ends_dollar c).
      * apply andb_true_iff in Ha as [Hc Ha]. rewrite Hc. cbn [andb].
        destruct r as [|o2 r2]; [discriminate|]. cbn [app].
        destruct (chunk_of o2) as [[|x c2]|]; try discriminate.
        apply andb_true_iff in Ha as [Ha Hq]. rewrite Ha. cbn [andb].
        cbn [length] in Hlen. apply IH; [lia|exact Hq|exact Hb].
      * apply andb_true_iff in Ha as [Hc Hq]. rewrite Hc. cbn [andb]. apply IH; [lia|exact Hq|exact Hb].
    + apply IH; [lia|exact Ha|exact Hb].
Qed.

Lemma Q_app a b : Q a = true -> Q b = true -> Q (a ++ b) = true.
Proof. apply (Q_app_aux (length a)). lia. Qed.

Lemma Q_W c r : calm c = true -> Q r = true -> Q (W c :: r) = true.
Proof.
  unfold calm. intros H Hr. apply andb_true_iff in H as [Hd Hc]. apply negb_true_iff in Hd.
  cbn [Q chunk_of]. rewrite Hd, Hc. exact Hr.
Qed.
Lemma Q_WF c p n r : calm c = true -> Q r = true -> Q (WF c p n :: r) = true.
Proof.
  unfold calm. intros H Hr. apply andb_true_iff in H as [Hd Hc]. apply negb_true_iff in Hd.
  cbn [Q chunk_of]. rewrite Hd, Hc. exact Hr.
Qed.
Lemma Q_I r : Q r = true -> Q (Indent :: r) = true.
Proof. intro H. exact H. Qed.
Lemma Q_D r : Q r = true -> Q (Dedent :: r) = true.
Proof. intro H. exact H. Qed.
Lemma Q_nil : Q [] = true.
Proof. reflexivity. Qed.

Lemma Q_flat_map {A} (f : A -> list wop) (ok : A -> bool) (l : list A) :
  (forall a, ok a = true -> Q (f a) = true) -> forallb ok l = true -> Q (flat_map f l) = true.
Proof.
  intro Hf. induction l as [|a r IH]; intro H; [reflexivity|].
  cbn [forallb] in H. apply andb_true_iff in H as [Ha Hr].
  cbn [flat_map]. apply Q_app; [apply Hf; exact Ha|apply IH; exact Hr].
Qed.

Lemma Q_sep_by sep (xs : list (list wop)) :
  Q sep = true -> Forall (fun x => Q x = true) xs -> Q (sep_by sep xs) = true.
Proof.
  intros Hs H. induction H as [|x r Hx Hr IH]; [reflexivity|].
  cbn [sep_by]. destruct r as [|y r']; [exact Hx|].
  apply Q_app; [exact Hx|]. apply Q_app; [exact Hs|exact IH].
Qed.

Lemma Forall_map_forallb {A} (f : A -> list wop) (ok : A -> bool) (l : list A) :
  (forall a, ok a = true -> Q (f a) = true) -> forallb ok l = true -> Forall (fun x => Q x = true) (map f l).
Proof.
  intro Hf. induction l as [|a r IH]; intro H; [constructor|].
  cbn [forallb] in H. apply andb_true_iff in H as [Ha Hr].
  cbn [map]. constructor; [apply Hf; exact Ha|apply IH; exact Hr].
Qed.

Lemma Q_opt {A} (f : A -> list wop) (x : option A) :
  (forall a, x = Some a -> Q (f a) = true) -> Q (p_opt f x) = true.
Proof. destruct x as [a|]; intro H; [apply H; reflexivity|reflexivity]. Qed.

(** ** atoms and string literals are calm *)
Lemma atom_calm x : atom_ok x = true -> calm x = true.
Proof.
  unfold atom_ok, calm. intro H. apply andb_true_iff in H as [H H3]. apply andb_true_iff in H as [_ H2].
  rewrite H2, H3. reflexivity.
Qed.

Lemma ends_dollar_snoc_quote x : ends_dollar (x ++ [DQ]) = false.
Proof.
  induction x as [|c r IH]; [reflexivity|].
  cbn [app]. rewrite ends_dollar_cons; [exact IH|]. destruct r; discriminate.
Qed.

Lemma no_cr_app a b : no_cr (a ++ b) = no_cr a && no_cr b.
Proof. apply forallb_app. Qed.

Lemma no_cr_hex_fuel : forall f n, no_cr (hex_fuel f n) = true.
Proof.
  induction f as [|f IH]; intro n; [reflexivity|].
  cbn [hex_fuel].
  assert (Hd : forall d, no_cr [hex_digit d] = true).
  { intro d. unfold hex_digit, no_cr. cbn [forallb]. rewrite andb_true_r. apply negb_true_iff.
    apply N.eqb_neq. unfold CR. destruct (d <? 10) eqn:E; [|lia]. apply N.ltb_lt in E. lia. }
  destruct (n <? 16); [apply Hd|]. rewrite no_cr_app, IH, Hd. reflexivity.
Qed.

Lemma no_cr_esc_char c : no_cr (esc_char c) = true.
Proof.
  unfold esc_char. destruct (c =? CR) eqn:E1; [reflexivity|]. destruct (c =? LF); [reflexivity|].
  destruct (is_control c).
  - cbn [app]. unfold no_cr at 1. cbn [forallb]. change (forallb (fun c0 => negb (c0 =? CR)) (hex c ++ [125])) with (no_cr (hex c ++ [125])).
    rewrite no_cr_app. unfold hex. rewrite no_cr_hex_fuel. reflexivity.
  - unfold no_cr. cbn [forallb]. rewrite E1. reflexivity.
Qed.

Lemma no_cr_flat_map_esc x : no_cr (flat_map esc_char x) = true.
Proof.
  induction x as [|c r IH]; [reflexivity|]. cbn [flat_map]. rewrite no_cr_app, no_cr_esc_char, IH. reflexivity.
Qed.

Lemma no_cr_repeat_dq n : no_cr (repeat DQ n) = true.
Proof. induction n as [|n IH]; [reflexivity|]. cbn [repeat]. unfold no_cr in *. cbn [forallb]. rewrite IH. reflexivity. Qed.

Lemma no_cr_block_body : forall x dq, no_cr x = true -> no_cr (block_body dq x) = true.
Proof.
  induction x as [|c r IH]; intros dq H.
  - apply no_cr_repeat_dq.
  - unfold no_cr in H. cbn [forallb] in H. apply andb_true_iff in H as [Hc Hr]. fold (no_cr r) in Hr.
    cbn [block_body]. destruct (c =? DQ).
    + destruct dq as [|[|dq]].
      * apply IH; exact Hr.
      * apply IH; exact Hr.
      * rewrite no_cr_app. rewrite (IH _ Hr). reflexivity.
    + rewrite no_cr_app, no_cr_repeat_dq. cbn [andb]. unfold no_cr. cbn [forallb]. rewrite Hc.
      fold (no_cr (block_body 0 r)). rewrite (IH _ Hr). reflexivity.
Qed.

Lemma print_string_calm x : lit_ok x = true -> calm (print_string x) = true.
Proof.
  intro H. unfold calm, print_string. destruct (is_multiline x) eqn:Hm.
  - unfold lit_ok in H. rewrite Hm in H. cbn [negb orb] in H.
    apply andb_true_iff. split.
    + assert (E : [DQ; DQ; DQ] ++ block_body 0 x ++ [DQ; DQ; DQ]
                  = ([DQ; DQ; DQ] ++ block_body 0 x ++ [DQ; DQ]) ++ [DQ])
        by (rewrite <- !app_assoc; reflexivity).
      rewrite E, ends_dollar_snoc_quote. reflexivity.
    + rewrite !no_cr_app. rewrite (no_cr_block_body x 0 H). reflexivity.
  - apply andb_true_iff. split.
    + change (DQ :: flat_map esc_char x ++ [DQ]) with ((DQ :: flat_map esc_char x) ++ [DQ]).
      rewrite ends_dollar_snoc_quote. reflexivity.
    + change (DQ :: flat_map esc_char x ++ [DQ]) with ([DQ] ++ flat_map esc_char x ++ [DQ]).
      rewrite !no_cr_app, no_cr_flat_map_esc. reflexivity.
Qed.

(** ** the printers *)
Ltac qstep :=
  first
    [ apply Q_nil
    | apply Q_I | apply Q_D
    | apply Q_W; [reflexivity|]
    | apply Q_WF; [reflexivity|]
    | apply Q_app ].

Lemma Q_p_ident i : id_ok i = true -> Q (p_ident i) = true.
Proof. intro H. unfold p_ident. apply Q_WF; [apply atom_calm; exact H|reflexivity]. Qed.

Lemma Q_p_type t : ty_ok t = true -> Q (p_type t) = true.
Proof.
  induction t as [n|t IH|p t IH]; cbn [ty_ok p_type]; intro H.
  - apply Q_WF; [apply atom_calm; exact H|reflexivity].
  - apply Q_app; [apply IH; exact H|]. repeat qstep.
  - apply Q_W; [reflexivity|]. apply Q_app; [apply IH; exact H|]. repeat qstep.
Qed.

Lemma Q_p_variable n p : atom_ok n = true -> Q (p_variable n p) = true.
Proof.
  intro H. unfold p_variable. cbn [Q chunk_of]. change (ends_dollar (s "$")) with true. cbv iota.
  change (no_cr (s "$")) with true. cbn [andb].
  pose proof (atom_calm n H) as Hc. unfold atom_ok in H.
  destruct n as [|x n']; [discriminate|].
  apply andb_true_iff in H as [H _]. apply andb_true_iff in H as [H _].
  rewrite H, Hc. reflexivity.
Qed.

Lemma Q_p_string x : lit_ok x = true -> Q (p_string x) = true.
Proof. intro H. unfold p_string. apply Q_W; [apply print_string_calm; exact H|reflexivity]. Qed.

(** induction principle for the nested type of values *)
Section value_ind_nested.
  Variable P : value -> Prop.
  Hypothesis HVar : forall n p, P (VVar n p).
  Hypothesis HInt : forall p l, P (VInt p l).
  Hypothesis HFloat : forall p l, P (VFloat p l).
  Hypothesis HString : forall p x, P (VString p x).
  Hypothesis HBool : forall p b0, P (VBool p b0).
  Hypothesis HNull : forall p, P (VNull p).
  Hypothesis HEnum : forall p x, P (VEnum p x).
  Hypothesis HList : forall p vs, Forall P vs -> P (VList p vs).
  Hypothesis HObject : forall p fs, Forall (fun kv => P (snd kv)) fs -> P (VObject p fs).
  Fixpoint value_ind_nested (v : value) : P v :=
    match v with
    | VVar n p => HVar n p
    | VInt p l => HInt p l
    | VFloat p l => HFloat p l
    | VString p x => HString p x
    | VBool p b0 => HBool p b0
    | VNull p => HNull p
    | VEnum p x => HEnum p x
    | VList p vs =>
        HList p vs ((fix go (l : list value) : Forall P l :=
                       match l with
                       | [] => Forall_nil P
                       | x :: r => Forall_cons x (value_ind_nested x) (go r)
                       end) vs)
    | VObject p fs =>
        HObject p fs ((fix go (l : list (ident * value)) : Forall (fun kv => P (snd kv)) l :=
                         match l with
                         | [] => Forall_nil _
                         | x :: r => Forall_cons x (value_ind_nested (snd x)) (go r)
                         end) fs)
    end.
End value_ind_nested.

Lemma Q_p_value : forall v, value_ok v = true -> Q (p_value v) = true.
Proof.
  induction v as [n p|p l|p l|p x|p b0|p|p x|p vs IH|p fs IH] using value_ind_nested;
    cbn [value_ok p_value]; intro H.
  - apply (Q_p_variable n p H).
  - apply Q_W; [apply atom_calm; exact H|reflexivity].
  - apply Q_W; [apply atom_calm; exact H|reflexivity].
  - apply Q_p_string; exact H.
  - destruct b0; repeat qstep.
  - repeat qstep.
  - apply Q_WF; [apply atom_calm; exact H|reflexivity].
  - apply Q_W; [reflexivity|]. apply Q_app; [|repeat qstep].
    apply Q_sep_by; [reflexivity|].
    induction IH as [|x r Hx Hr IHr]; [constructor|].
    cbn [forallb] in H. apply andb_true_iff in H as [H1 H2].
    cbn [map]. constructor; [apply Hx; exact H1|apply IHr; exact H2].
  - apply Q_W; [reflexivity|]. apply Q_app; [|repeat qstep].
    assert (Hel : Forall (fun kv => Q (p_ident (fst kv)) = true /\ Q (p_value (snd kv)) = true) fs).
    { induction IH as [|x r Hx Hr IHr]; [constructor|].
      cbn [forallb] in H. apply andb_true_iff in H as [H1 H2]. apply andb_true_iff in H1 as [Hi Hv].
      constructor; [split; [apply Q_p_ident; exact Hi|apply Hx; exact Hv]|apply IHr; exact H2]. }
    destruct fs as [|kv1 [|kv2 fs']].
    + reflexivity.
    + inversion Hel as [|? ? [Hi Hv] _]. cbn [flat_map]. rewrite app_nil_r.
      apply Q_app; [exact Hi|]. apply Q_W; [reflexivity|exact Hv].
    + apply Q_W; [reflexivity|]. apply Q_I. apply Q_app; [|repeat qstep].
      clear IH H. induction Hel as [|x r [Hi Hv] Hr IHr]; [reflexivity|].
      cbn [flat_map]. apply Q_app; [|exact IHr].
      apply Q_app; [exact Hi|]. apply Q_W; [reflexivity|]. apply Q_app; [exact Hv|repeat qstep].
Qed.

Lemma Q_p_arg kv : arg_ok kv = true -> Q (p_arg kv) = true.
Proof.
  unfold arg_ok, p_arg. intro H. apply andb_true_iff in H as [Hi Hv].
  apply Q_app; [apply Q_p_ident; exact Hi|]. apply Q_W; [reflexivity|]. apply Q_p_value; exact Hv.
Qed.

Lemma Q_p_arguments a : args_ok a = true -> Q (p_arguments a) = true.
Proof.
  unfold args_ok, p_arguments. intro H. apply Q_W; [reflexivity|]. apply Q_app; [|repeat qstep].
  destruct (args_list a) as [|kv1 [|kv2 l]] eqn:E.
  - reflexivity.
  - apply (Q_flat_map p_arg arg_ok); [exact Q_p_arg|exact H].
  - apply Q_W; [reflexivity|]. apply Q_I. apply Q_app; [|repeat qstep].
    apply (Q_flat_map _ arg_ok); [|exact H].
    intros kv Hkv. apply Q_app; [apply Q_p_arg; exact Hkv|repeat qstep].
Qed.

Lemma Q_oargs a : oargs_ok a = true -> Q (p_opt p_arguments a) = true.
Proof. destruct a as [x|]; cbn [oargs_ok p_opt]; [apply Q_p_arguments|reflexivity]. Qed.

Lemma Q_p_directive d : dir_ok d = true -> Q (p_directive d) = true.
Proof.
  unfold dir_ok, p_directive. intro H. apply andb_true_iff in H as [Hn Ha].
  apply Q_W; [reflexivity|]. apply Q_app; [apply Q_p_ident; exact Hn|apply Q_oargs; exact Ha].
Qed.

Lemma Q_sp_dirs ds : dirs_ok ds = true -> Q (sp_dirs ds) = true.
Proof.
  unfold dirs_ok, sp_dirs. apply Q_flat_map. intros d Hd. apply Q_W; [reflexivity|]. apply Q_p_directive; exact Hd.
Qed.
Lemma Q_glued_dirs ds : dirs_ok ds = true -> Q (glued_dirs ds) = true.
Proof. unfold dirs_ok, glued_dirs. apply Q_flat_map. exact Q_p_directive. Qed.

Lemma Q_oid (f : ident -> list wop) i :
  (forall x, id_ok x = true -> Q (f x) = true) -> oid_ok i = true -> Q (p_opt f i) = true.
Proof. intros Hf H. destruct i as [x|]; cbn [oid_ok p_opt] in *; [apply Hf; exact H|reflexivity]. Qed.

(** induction principle for selections / selection sets *)
Section sel_ind_nested.
  Variable P : selection -> Prop.
  Variable P0 : selset -> Prop.
  Hypothesis HField : forall al n args ds sel, (forall ss, sel = Some ss -> P0 ss) -> P (SField al n args ds sel).
  Hypothesis HSpread : forall p n ds, P (SSpread p n ds).
  Hypothesis HInline : forall p c ds ss, P0 ss -> P (SInline p c ds ss).
  Hypothesis HSet : forall p l, Forall P l -> P0 (SelSet p l).
  Fixpoint sel_ind_nested (x : selection) : P x :=
    match x with
    | SField al n args ds sel =>
        HField al n args ds sel
          (match sel as s0 return (forall ss, s0 = Some ss -> P0 ss) with
           | Some ss0 => fun ss E => match E in (_ = y) return (match y with Some z => P0 z | None => True end) with
                                     | eq_refl => selset_ind_nested ss0 end
           | None => fun ss E => match E in (_ = y) return (match y with Some z => P0 z | None => True end) with
                                 | eq_refl => I end
           end)
    | SSpread p n ds => HSpread p n ds
    | SInline p c ds ss => HInline p c ds ss (selset_ind_nested ss)
    end
  with selset_ind_nested (ss : selset) : P0 ss :=
    match ss with
    | SelSet p l =>
        HSet p l ((fix go (l : list selection) : Forall P l :=
                     match l with
                     | [] => Forall_nil P
                     | x :: r => Forall_cons x (sel_ind_nested x) (go r)
                     end) l)
    end.
End sel_ind_nested.

Lemma Q_sel_both :
  (forall x, sel_ok x = true -> Q (p_selection x) = true).
Proof.
  apply (sel_ind_nested (fun x => sel_ok x = true -> Q (p_selection x) = true)
                        (fun ss => selset_ok ss = true -> Q (p_selset ss) = true)).
  - intros al n args ds sel IH H. cbn [sel_ok p_selection] in *.
    apply andb_true_iff in H as [H Hs]. apply andb_true_iff in H as [H Hd].
    apply andb_true_iff in H as [H Ha]. apply andb_true_iff in H as [Hal Hn].
    apply Q_app.
    { apply Q_oid; [|exact Hal]. intros x Hx. apply Q_app; [apply Q_p_ident; exact Hx|repeat qstep]. }
    apply Q_app; [apply Q_p_ident; exact Hn|].
    apply Q_app; [apply Q_oargs; exact Ha|].
    apply Q_app; [apply Q_sp_dirs; exact Hd|].
    destruct sel as [ss|]; [|reflexivity].
    apply Q_W; [reflexivity|]. apply (IH ss eq_refl). exact Hs.
  - intros p n ds H. cbn [sel_ok p_selection] in *. apply andb_true_iff in H as [Hn Hd].
    apply Q_W; [reflexivity|]. apply Q_app; [apply Q_p_ident; exact Hn|apply Q_sp_dirs; exact Hd].
  - intros p c ds ss IH H. cbn [sel_ok p_selection] in *.
    apply andb_true_iff in H as [H Hs]. apply andb_true_iff in H as [Hc Hd].
    apply Q_W; [reflexivity|].
    apply Q_app.
    { apply Q_oid; [|exact Hc]. intros x Hx. apply Q_W; [reflexivity|]. apply Q_app; [apply Q_p_ident; exact Hx|repeat qstep]. }
    apply Q_app; [apply Q_sp_dirs; exact Hd|apply IH; exact Hs].
  - intros p l IH H. cbn [selset_ok p_selset] in *.
    apply Q_W; [reflexivity|]. apply Q_I. apply Q_app; [|repeat qstep].
    induction IH as [|x r Hx Hr IHr]; [reflexivity|].
    cbn [forallb] in H. apply andb_true_iff in H as [H1 H2].
    cbn [flat_map]. apply Q_app; [|apply IHr; exact H2].
    apply Q_app; [apply Hx; exact H1|repeat qstep].
Qed.

Lemma Q_p_selset ss : selset_ok ss = true -> Q (p_selset ss) = true.
Proof.
  destruct ss as [p l]. cbn [selset_ok p_selset]. intro H.
  apply Q_W; [reflexivity|]. apply Q_I. apply Q_app; [|repeat qstep].
  apply (Q_flat_map _ sel_ok); [|exact H].
  intros x Hx. apply Q_app; [apply Q_sel_both; exact Hx|repeat qstep].
Qed.

Lemma Q_ovalue v : ovalue_ok v = true -> Q (p_opt (fun d => W (s " = ") :: p_value d) v) = true.
Proof.
  destruct v as [x|]; cbn [ovalue_ok p_opt]; [|reflexivity].
  intro H. apply Q_W; [reflexivity|]. apply Q_p_value; exact H.
Qed.

Lemma Q_p_vardef v : vardef_ok v = true -> Q (p_vardef v) = true.
Proof.
  unfold vardef_ok, p_vardef. intro H.
  apply andb_true_iff in H as [H Hd]. apply andb_true_iff in H as [H Hv]. apply andb_true_iff in H as [Hn Ht].
  apply Q_app; [apply Q_p_variable; exact Hn|].
  apply Q_W; [reflexivity|]. apply Q_app; [apply Q_p_type; exact Ht|].
  apply Q_app; [apply Q_ovalue; exact Hv|apply Q_sp_dirs; exact Hd].
Qed.

Lemma Q_p_vardefs v : forallb vardef_ok (vds_list v) = true -> Q (p_vardefs v) = true.
Proof.
  unfold p_vardefs. intro H. apply Q_W; [reflexivity|]. apply Q_app; [|repeat qstep].
  destruct (vds_list v) as [|v1 [|v2 l]] eqn:E.
  - reflexivity.
  - apply (Q_flat_map p_vardef vardef_ok); [exact Q_p_vardef|exact H].
  - apply Q_W; [reflexivity|]. apply Q_I. apply Q_app; [|repeat qstep].
    apply Q_sep_by; [reflexivity|]. apply (Forall_map_forallb p_vardef vardef_ok); [exact Q_p_vardef|exact H].
Qed.

Lemma Q_p_opdef o : opdef_ok o = true -> Q (p_opdef o) = true.
Proof.
  unfold opdef_ok, p_opdef. intro H.
  apply andb_true_iff in H as [H Hs]. apply andb_true_iff in H as [H Hd]. apply andb_true_iff in H as [Hn Hv].
  apply Q_W; [destruct (op_type o); reflexivity|].
  apply Q_app.
  { apply Q_oid; [|exact Hn]. intros x Hx. apply Q_W; [reflexivity|]. apply Q_p_ident; exact Hx. }
  apply Q_app.
  { destruct (op_vars o) as [vs|]; [apply Q_p_vardefs; exact Hv|reflexivity]. }
  apply Q_app; [apply Q_sp_dirs; exact Hd|].
  apply Q_W; [reflexivity|]. apply Q_app; [apply Q_p_selset; exact Hs|repeat qstep].
Qed.

Lemma Q_p_fragdef f : fragdef_ok f = true -> Q (p_fragdef f) = true.
Proof.
  unfold fragdef_ok, p_fragdef. intro H.
  apply andb_true_iff in H as [H Hs]. apply andb_true_iff in H as [H Hd]. apply andb_true_iff in H as [Hn Hc].
  apply Q_W; [reflexivity|]. apply Q_app; [apply Q_p_ident; exact Hn|].
  apply Q_W; [reflexivity|]. apply Q_app; [apply Q_p_ident; exact Hc|].
  apply Q_app; [apply Q_sp_dirs; exact Hd|].
  apply Q_W; [reflexivity|]. apply Q_app; [apply Q_p_selset; exact Hs|repeat qstep].
Qed.

Lemma Q_p_importdef i : importdef_ok i = true -> Q (p_importdef i) = true.
Proof.
  unfold importdef_ok, p_importdef. intro H. apply andb_true_iff in H as [Ht Hp].
  apply Q_W; [reflexivity|]. apply Q_app.
  { apply Q_sep_by; [reflexivity|].
    apply (Forall_map_forallb p_import_target (fun t => match t with ImpWildcard => true | ImpName n => id_ok n end)); [|exact Ht].
    intros [|n] Hn; cbn [p_import_target]; [repeat qstep|].
    apply Q_W; [apply atom_calm; exact Hn|reflexivity]. }
  apply Q_W; [reflexivity|]. apply Q_app; [apply Q_p_string; exact Hp|repeat qstep].
Qed.

Theorem Q_print_opdoc d : opdoc_ok d = true -> Q (print_opdoc d) = true.
Proof.
  unfold opdoc_ok, print_opdoc. apply Q_flat_map.
  intros [o|f|i]; cbn [execdef_ok p_execdef]; [apply Q_p_opdef|apply Q_p_fragdef|apply Q_p_importdef].
Qed.

(** type system *)
Lemma Q_p_desc d : desc_ok d = true -> Q (p_desc d) = true.
Proof.
  destruct d as [x|]; cbn [desc_ok p_desc]; [|reflexivity].
  intro H. apply Q_app; [apply Q_p_string; exact H|repeat qstep].
Qed.

Lemma Q_p_inputval i : inputval_ok i = true -> Q (p_inputval i) = true.
Proof.
  unfold inputval_ok, p_inputval. intro H.
  apply andb_true_iff in H as [H Hd]. apply andb_true_iff in H as [H Hv].
  apply andb_true_iff in H as [H Ht]. apply andb_true_iff in H as [Hde Hn].
  apply Q_app; [apply Q_p_desc; exact Hde|]. apply Q_app; [apply Q_p_ident; exact Hn|].
  apply Q_W; [reflexivity|]. apply Q_app; [apply Q_p_type; exact Ht|].
  apply Q_app; [apply Q_ovalue; exact Hv|apply Q_sp_dirs; exact Hd].
Qed.

Lemma Q_oargsdef a : oargsdef_ok a = true -> Q (p_opt p_argsdef a) = true.
Proof.
  destruct a as [l|]; cbn [oargsdef_ok p_opt]; [|reflexivity]. intro H.
  unfold p_argsdef. apply Q_W; [reflexivity|]. apply Q_app; [|repeat qstep].
  apply Q_sep_by; [reflexivity|]. apply (Forall_map_forallb p_inputval inputval_ok); [exact Q_p_inputval|exact H].
Qed.

Lemma Q_p_fielddef f : fielddef_ok f = true -> Q (p_fielddef f) = true.
Proof.
  unfold fielddef_ok, p_fielddef. intro H.
  apply andb_true_iff in H as [H Hd]. apply andb_true_iff in H as [H Ht].
  apply andb_true_iff in H as [H Ha]. apply andb_true_iff in H as [Hde Hn].
  apply Q_app; [apply Q_p_desc; exact Hde|]. apply Q_app; [apply Q_p_ident; exact Hn|].
  apply Q_app; [apply Q_oargsdef; exact Ha|].
  apply Q_W; [reflexivity|]. apply Q_app; [apply Q_p_type; exact Ht|apply Q_sp_dirs; exact Hd].
Qed.

Lemma Q_p_enumval e : enumval_ok e = true -> Q (p_enumval e) = true.
Proof.
  unfold enumval_ok, p_enumval. intro H.
  apply andb_true_iff in H as [H Hd]. apply andb_true_iff in H as [Hde Hn].
  apply Q_app; [apply Q_p_desc; exact Hde|]. apply Q_app; [apply Q_p_ident; exact Hn|apply Q_sp_dirs; exact Hd].
Qed.

Lemma Q_p_implements l : ids_ok l = true -> Q (p_implements l) = true.
Proof.
  unfold ids_ok, p_implements. intro H. destruct l as [|i r]; [reflexivity|].
  apply Q_W; [reflexivity|]. apply (Q_flat_map _ id_ok); [|exact H].
  intros x Hx. apply Q_W; [reflexivity|]. apply Q_p_ident; exact Hx.
Qed.

Lemma Q_p_body {A} (f : A -> list wop) (ok : A -> bool) l :
  (forall a, ok a = true -> Q (f a) = true) -> forallb ok l = true -> Q (p_body f l) = true.
Proof.
  intros Hf H. unfold p_body. destruct l as [|a r]; [reflexivity|].
  apply Q_W; [reflexivity|]. apply Q_I. apply Q_app; [|repeat qstep].
  apply (Q_flat_map _ ok); [|exact H]. intros x Hx. apply Q_app; [apply Hf; exact Hx|repeat qstep].
Qed.

Lemma Q_p_members l : ids_ok l = true -> Q (p_members l) = true.
Proof.
  unfold ids_ok, p_members. intro H. apply Q_W; [reflexivity|]. apply (Q_flat_map _ id_ok); [|exact H].
  intros x Hx. apply Q_W; [reflexivity|]. apply Q_p_ident; exact Hx.
Qed.

Lemma Q_p_members_def l : ids_ok l = true -> Q (p_members_def l) = true.
Proof. destruct l; [reflexivity|]. apply Q_p_members. Qed.

Lemma Q_p_rootops l : rootops_ok l = true -> Q (p_rootops l) = true.
Proof.
  unfold rootops_ok, p_rootops. intro H. apply Q_W; [reflexivity|]. apply Q_I. apply Q_app; [|repeat qstep].
  apply (Q_flat_map _ (fun kv => id_ok (snd kv))); [|exact H].
  intros kv Hkv. apply Q_W; [destruct (fst kv); reflexivity|]. apply Q_W; [reflexivity|].
  apply Q_app; [apply Q_p_ident; exact Hkv|repeat qstep].
Qed.

Ltac split_ok H :=
  repeat match type of H with
         | (_ && _) = true => let H2 := fresh "Hk" in apply andb_true_iff in H as [H H2]
         end.

Lemma Q_p_typedef t : typedef_ok t = true -> Q (p_typedef t) = true.
Proof.
  destruct t; cbn [typedef_ok p_typedef]; intro H; split_ok H.
  - apply Q_app; [apply Q_p_desc; assumption|]. apply Q_W; [reflexivity|].
    apply Q_app; [apply Q_p_ident; assumption|]. apply Q_app; [apply Q_sp_dirs; assumption|repeat qstep].
  - apply Q_app; [apply Q_p_desc; assumption|]. apply Q_WF; [reflexivity|].
    apply Q_app; [apply Q_p_ident; assumption|]. apply Q_app; [apply Q_p_implements; assumption|].
    apply Q_app; [apply Q_sp_dirs; assumption|].
    apply Q_app; [apply (Q_p_body p_fielddef fielddef_ok); [exact Q_p_fielddef|assumption]|repeat qstep].
  - apply Q_app; [apply Q_p_desc; assumption|]. apply Q_W; [reflexivity|].
    apply Q_app; [apply Q_p_ident; assumption|]. apply Q_app; [apply Q_p_implements; assumption|].
    apply Q_app; [apply Q_sp_dirs; assumption|].
    apply Q_app; [apply (Q_p_body p_fielddef fielddef_ok); [exact Q_p_fielddef|assumption]|repeat qstep].
  - apply Q_app; [apply Q_p_desc; assumption|]. apply Q_W; [reflexivity|].
    apply Q_app; [apply Q_p_ident; assumption|]. apply Q_app; [apply Q_sp_dirs; assumption|].
    apply Q_app; [apply Q_p_members_def; assumption|repeat qstep].
  - apply Q_app; [apply Q_p_desc; assumption|]. apply Q_W; [reflexivity|].
    apply Q_app; [apply Q_p_ident; assumption|]. apply Q_app; [apply Q_sp_dirs; assumption|].
    apply Q_app; [apply (Q_p_body p_enumval enumval_ok); [exact Q_p_enumval|assumption]|repeat qstep].
  - apply Q_app; [apply Q_p_desc; assumption|]. apply Q_W; [reflexivity|].
    apply Q_app; [apply Q_p_ident; assumption|]. apply Q_app; [apply Q_sp_dirs; assumption|].
    apply Q_app; [apply (Q_p_body p_inputval inputval_ok); [exact Q_p_inputval|assumption]|repeat qstep].
Qed.

Lemma Q_p_typeext t : typeext_ok t = true -> Q (p_typeext t) = true.
Proof.
  destruct t; cbn [typeext_ok p_typeext]; intro H; split_ok H.
  - apply Q_W; [reflexivity|].
    apply Q_app; [apply Q_p_ident; assumption|]. apply Q_app; [apply Q_sp_dirs; assumption|repeat qstep].
  - apply Q_W; [reflexivity|].
    apply Q_app; [apply Q_p_ident; assumption|]. apply Q_app; [apply Q_p_implements; assumption|].
    apply Q_app; [apply Q_sp_dirs; assumption|].
    apply Q_app; [apply (Q_p_body p_fielddef fielddef_ok); [exact Q_p_fielddef|assumption]|repeat qstep].
  - apply Q_W; [reflexivity|].
    apply Q_app; [apply Q_p_ident; assumption|]. apply Q_app; [apply Q_p_implements; assumption|].
    apply Q_app; [apply Q_sp_dirs; assumption|].
    apply Q_app; [apply (Q_p_body p_fielddef fielddef_ok); [exact Q_p_fielddef|assumption]|repeat qstep].
  - apply Q_W; [reflexivity|].
    apply Q_app; [apply Q_p_ident; assumption|]. apply Q_app; [apply Q_sp_dirs; assumption|].
    apply Q_app; [apply Q_p_members; assumption|repeat qstep].
  - apply Q_W; [reflexivity|].
    apply Q_app; [apply Q_p_ident; assumption|]. apply Q_app; [apply Q_sp_dirs; assumption|].
    apply Q_app; [apply (Q_p_body p_enumval enumval_ok); [exact Q_p_enumval|assumption]|repeat qstep].
  - apply Q_W; [reflexivity|].
    apply Q_app; [apply Q_p_ident; assumption|]. apply Q_app; [apply Q_sp_dirs; assumption|].
    apply Q_app; [apply (Q_p_body p_inputval inputval_ok); [exact Q_p_inputval|assumption]|repeat qstep].
Qed.

Lemma Q_p_tsdef x : tsdef_ok x = true -> Q (p_tsdef x) = true.
Proof.
  destruct x as [d|t|d|e|t]; cbn [tsdef_ok p_tsdef]; intro H.
  - split_ok H. unfold p_schemadef. apply Q_app; [apply Q_p_desc; assumption|].
    apply Q_W; [reflexivity|]. apply Q_app; [apply Q_glued_dirs; assumption|apply Q_p_rootops; assumption].
  - apply Q_p_typedef; exact H.
  - split_ok H. unfold p_directivedef. apply Q_app; [apply Q_p_desc; assumption|].
    apply Q_W; [reflexivity|]. apply Q_app; [apply Q_p_ident; assumption|].
    apply Q_app; [apply Q_oargsdef; assumption|].
    apply Q_app.
    { apply Q_oid; [|assumption]. intros x Hx. apply Q_W; [reflexivity|]. apply Q_p_ident; exact Hx. }
    apply Q_W; [reflexivity|]. apply Q_app; [|repeat qstep].
    apply (Q_flat_map _ id_ok); [|assumption]. intros x Hx. apply Q_W; [reflexivity|]. apply Q_p_ident; exact Hx.
  - split_ok H. unfold p_schemaext. apply Q_W; [reflexivity|].
    apply Q_app; [apply Q_glued_dirs; assumption|].
    destruct (se_ops e); [repeat qstep|]. apply Q_p_rootops; assumption.
  - apply Q_p_typeext; exact H.
Qed.

Theorem Q_print_tsdoc d : tsdoc_ok d = true -> Q (print_tsdoc d) = true.
Proof. unfold tsdoc_ok, print_tsdoc. apply Q_flat_map. exact Q_p_tsdef. Qed.

Theorem Q_print_tsdoc_ext d : tsdoc_ok d = true -> Q (print_tsdoc_ext d) = true.
Proof.
  unfold tsdoc_ok, print_tsdoc_ext. apply Q_flat_map.
  intros x Hx. apply Q_app; [apply Q_p_tsdef; exact Hx|repeat qstep].
Qed.

(** ** the template literal written for a document evaluates to its printed text *)
Theorem tsdoc_template_roundtrip d :
  tsdoc_ok d = true -> eval_template (js_run (print_tsdoc d)) = Some (LF :: just_run (print_tsdoc d)).
Proof.
  intro H. destruct (Q_sound _ (Q_print_tsdoc d H)) as [H1 H2]. apply template_roundtrip; assumption.
Qed.

Theorem tsdoc_ext_template_roundtrip d :
  tsdoc_ok d = true -> eval_template (js_run (print_tsdoc_ext d)) = Some (LF :: just_run (print_tsdoc_ext d)).
Proof.
  intro H. destruct (Q_sound _ (Q_print_tsdoc_ext d H)) as [H1 H2]. apply template_roundtrip; assumption.
Qed.

Theorem opdoc_template_roundtrip d :
  opdoc_ok d = true -> eval_template (js_run (print_opdoc d)) = Some (LF :: just_run (print_opdoc d)).
Proof.
  intro H. destruct (Q_sound _ (Q_print_opdoc d H)) as [H1 H2]. apply template_roundtrip; assumption.
Qed.
