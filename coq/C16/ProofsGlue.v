(** C16 — separators suffice: in the operation lists the GraphQL printer produces, no write ends in
    a character that could continue a token (name, number, or a quote) while the next thing written
    starts with one.  Adjacent chunks are the only places where two tokens could be glued together
    (or two string delimiters merge): inside a chunk the text is a constant, one atom, or one string
    literal, and the writers insert only line-leading spaces.  This is the separator half of
    "the printed text lexes to the document's tokens", stated without a lexer. *)
From V Require Import Base.Util Gql.Ast Writer.Wop C16.Model.
Local Open Scope N_scope.

(** characters that can be part of a Name or a number lexeme *)
Definition wordy (c : N) : bool :=
  ((48 <=? c) && (c <=? 57)) || ((65 <=? c) && (c <=? 90)) || ((97 <=? c) && (c <=? 122))
  || (c =? 95) || (c =? 46) || (c =? 45) || (c =? 43).
Definition neutral (c : N) : bool := negb (wordy c) && negb (c =? DQ).
(** two adjacent characters that would merge two tokens (or two string delimiters) *)
Definition glue (a b0 : N) : bool := (wordy a && wordy b0) || ((a =? DQ) && (b0 =? DQ)).
Definition glue_o (a b0 : option N) : bool :=
  match a, b0 with Some x, Some y => glue x y | _, _ => false end.

Fixpoint lastc (x : str) : option N :=
  match x with [] => None | [c] => Some c | _ :: r => lastc r end.
(** first / last character written by an operation list *)
Fixpoint first_char (ops : list wop) : option N :=
  match ops with
  | [] => None
  | o :: r => match chunk_of o with Some (c :: _) => Some c | _ => first_char r end
  end.
Fixpoint last_char (ops : list wop) : option N :=
  match ops with
  | [] => None
  | o :: r =>
      match last_char r with
      | Some c => Some c
      | None => match chunk_of o with Some x => lastc x | None => None end
      end
  end.

(** no chunk boundary glues *)
Fixpoint G (ops : list wop) : bool :=
  match ops with
  | [] => true
  | o :: r =>
      match chunk_of o with
      | Some x => negb (glue_o (lastc x) (first_char r)) && G r
      | None => G r
      end
  end.
Definition fn (ops : list wop) : bool := match first_char ops with Some c => neutral c | None => true end.
Definition ln (ops : list wop) : bool := match last_char ops with Some c => neutral c | None => true end.

(** ** algebra *)
Lemma glue_neutral_l a b0 : neutral a = true -> glue a b0 = false.
Proof.
  unfold neutral, glue. intro H. apply andb_true_iff in H as [H1 H2].
  apply negb_true_iff in H1, H2. rewrite H1, H2. reflexivity.
Qed.
Lemma glue_neutral_r a b0 : neutral b0 = true -> glue a b0 = false.
Proof.
  unfold neutral, glue. intro H. apply andb_true_iff in H as [H1 H2].
  apply negb_true_iff in H1, H2. rewrite H1, H2. rewrite !andb_false_r. reflexivity.
Qed.

Lemma lastc_none x : lastc x = None -> x = [].
Proof.
  induction x as [|c r IH]; [reflexivity|]. cbn [lastc]. destruct r; [discriminate|].
  intro H. specialize (IH H). discriminate.
Qed.

Lemma first_none_last_none : forall ops, first_char ops = None -> last_char ops = None.
Proof.
  induction ops as [|o r IH]; [reflexivity|]. cbn [first_char last_char].
  destruct (chunk_of o) as [[|c x]|]; intro H; try discriminate; rewrite (IH H); reflexivity.
Qed.

Lemma first_char_app : forall a b0,
  first_char (a ++ b0) = match first_char a with Some c => Some c | None => first_char b0 end.
Proof.
  induction a as [|o r IH]; intro b0; [reflexivity|]. cbn [app first_char].
  destruct (chunk_of o) as [[|c x]|]; try reflexivity; apply IH.
Qed.
Lemma last_char_app : forall a b0,
  last_char (a ++ b0) = match last_char b0 with Some c => Some c | None => last_char a end.
Proof.
  induction a as [|o r IH]; intro b0.
  - cbn. destruct (last_char b0); reflexivity.
  - cbn [app last_char]. rewrite IH. destruct (last_char b0); [reflexivity|]. reflexivity.
Qed.

Lemma G_app : forall a b0,
  G a = true -> G b0 = true -> glue_o (last_char a) (first_char b0) = false -> G (a ++ b0) = true.
Proof.
  induction a as [|o r IH]; intros b0 Ha Hb Hg; [exact Hb|].
  cbn [app G last_char] in *.
  assert (Hr : glue_o (last_char r) (first_char b0) = false).
  { destruct (last_char r) eqn:E; [exact Hg|]. reflexivity. }
  destruct (chunk_of o) as [x|].
  - apply andb_true_iff in Ha as [H1 H2]. apply andb_true_iff. split; [|exact (IH b0 H2 Hb Hr)].
    rewrite first_char_app. destruct (first_char r) eqn:Ef; [exact H1|].
    rewrite (first_none_last_none r Ef) in Hg. apply negb_true_iff. exact Hg.
  - exact (IH b0 Ha Hb Hr).
Qed.

Lemma G_app_ln a b0 : G a = true -> G b0 = true -> ln a = true -> G (a ++ b0) = true.
Proof.
  intros Ha Hb Hl. apply G_app; try assumption. unfold ln in Hl.
  destruct (last_char a) as [x|]; [|reflexivity]. destruct (first_char b0) as [y|]; [|reflexivity].
  apply glue_neutral_l. exact Hl.
Qed.
Lemma G_app_fn a b0 : G a = true -> G b0 = true -> fn b0 = true -> G (a ++ b0) = true.
Proof.
  intros Ha Hb Hf. apply G_app; try assumption. unfold fn in Hf.
  destruct (last_char a) as [x|]; [|reflexivity]. destruct (first_char b0) as [y|]; [|reflexivity].
  apply glue_neutral_r. exact Hf.
Qed.

Lemma fn_app a b0 : fn a = true -> fn b0 = true -> fn (a ++ b0) = true.
Proof. unfold fn. rewrite first_char_app. destruct (first_char a); auto. Qed.
Lemma ln_app a b0 : ln a = true -> ln b0 = true -> ln (a ++ b0) = true.
Proof. unfold ln. rewrite last_char_app. destruct (last_char b0); auto. Qed.
(** what ends neutral stays so whatever stands before it *)
Lemma ln_app_r a b0 : last_char b0 <> None -> ln b0 = true -> ln (a ++ b0) = true.
Proof. unfold ln. rewrite last_char_app. destruct (last_char b0); [auto|contradiction]. Qed.
Lemma fn_app_l a b0 : first_char a <> None -> fn a = true -> fn (a ++ b0) = true.
Proof. unfold fn. rewrite first_char_app. destruct (first_char a); [auto|contradiction]. Qed.

(** a chunk whose last character is neutral *)
Definition ends_neutral (c : str) : bool := match lastc c with Some a => neutral a | None => true end.
Definition starts_neutral (c : str) : bool := match c with a :: _ => neutral a | [] => true end.

Lemma G_W_l c r : ends_neutral c = true -> G r = true -> G (W c :: r) = true.
Proof.
  intros H Hr. cbn [G chunk_of]. rewrite Hr, andb_true_r. apply negb_true_iff.
  unfold ends_neutral in H. destruct (lastc c) as [a|]; [|reflexivity].
  destruct (first_char r); [|reflexivity]. apply glue_neutral_l. exact H.
Qed.
Lemma G_W_r c r : fn r = true -> G r = true -> G (W c :: r) = true.
Proof.
  intros H Hr. cbn [G chunk_of]. rewrite Hr, andb_true_r. apply negb_true_iff.
  unfold fn in H. destruct (lastc c) as [a|]; [|reflexivity].
  destruct (first_char r); [|reflexivity]. apply glue_neutral_r. exact H.
Qed.
Lemma G_WF_r c p n r : fn r = true -> G r = true -> G (WF c p n :: r) = true.
Proof. exact (G_W_r c r). Qed.
Lemma G_WF_l c p n r : ends_neutral c = true -> G r = true -> G (WF c p n :: r) = true.
Proof. exact (G_W_l c r). Qed.
Lemma G_I r : G r = true -> G (Indent :: r) = true.
Proof. auto. Qed.
Lemma G_D r : G r = true -> G (Dedent :: r) = true.
Proof. auto. Qed.
Lemma fn_I r : fn r = true -> fn (Indent :: r) = true.
Proof. auto. Qed.
Lemma fn_D r : fn r = true -> fn (Dedent :: r) = true.
Proof. auto. Qed.
Lemma fn_W c r : c <> [] -> starts_neutral c = true -> fn (W c :: r) = true.
Proof. destruct c; [contradiction|]. intros _ H. exact H. Qed.
Lemma fn_nil : fn [] = true.
Proof. reflexivity. Qed.

(** a fragment followed by a constant chunk that starts neutral, then more *)
Lemma G_then_W a c r :
  c <> [] -> starts_neutral c = true -> G a = true -> G (W c :: r) = true -> G (a ++ W c :: r) = true.
Proof. intros Hne Hs Ha Hr. apply G_app_fn; [exact Ha|exact Hr|apply fn_W; assumption]. Qed.

Lemma G_flat_map_fn {A} (f : A -> list wop) (ok : A -> bool) (l : list A) :
  (forall a, ok a = true -> G (f a) = true /\ fn (f a) = true) -> forallb ok l = true ->
  G (flat_map f l) = true /\ fn (flat_map f l) = true.
Proof.
  intro Hf. induction l as [|a r IH]; intro H; [split; reflexivity|].
  cbn [forallb] in H. apply andb_true_iff in H as [Ha Hr]. destruct (Hf a Ha) as [G1 F1]. destruct (IH Hr) as [G2 F2].
  cbn [flat_map]. split; [apply G_app_fn; assumption|apply fn_app; assumption].
Qed.
Lemma G_flat_map_ln {A} (f : A -> list wop) (ok : A -> bool) (l : list A) :
  (forall a, ok a = true -> G (f a) = true /\ ln (f a) = true) -> forallb ok l = true ->
  G (flat_map f l) = true /\ ln (flat_map f l) = true.
Proof.
  intro Hf. induction l as [|a r IH]; intro H; [split; reflexivity|].
  cbn [forallb] in H. apply andb_true_iff in H as [Ha Hr]. destruct (Hf a Ha) as [G1 L1]. destruct (IH Hr) as [G2 L2].
  cbn [flat_map]. split; [apply G_app_ln; assumption|apply ln_app; assumption].
Qed.

Lemma G_sep_by sep (xs : list (list wop)) :
  G sep = true -> first_char sep <> None -> fn sep = true -> ln sep = true ->
  Forall (fun x => G x = true) xs -> G (sep_by sep xs) = true.
Proof.
  intros Hs Hne Hf Hl H. induction H as [|x r Hx Hr IH]; [reflexivity|].
  cbn [sep_by]. destruct r as [|y r']; [exact Hx|].
  apply G_app_fn; [exact Hx| |apply fn_app_l; assumption].
  apply G_app_ln; [exact Hs|exact IH|exact Hl].
Qed.

Lemma Forall_map_G {A} (f : A -> list wop) (l : list A) :
  (forall a, G (f a) = true) -> Forall (fun x => G x = true) (map f l).
Proof. intro Hf. induction l; constructor; auto. Qed.

Lemma G_single o : G [o] = true.
Proof. cbn [G]. destruct (chunk_of o) as [x|]; [|reflexivity]. cbn. destruct (lastc x); reflexivity. Qed.

Lemma G_opt {A} (f : A -> list wop) (x : option A) : (forall a, G (f a) = true) -> G (p_opt f x) = true.
Proof. destruct x; cbn [p_opt]; auto. Qed.
Lemma fn_opt {A} (f : A -> list wop) (x : option A) : (forall a, fn (f a) = true) -> fn (p_opt f x) = true.
Proof. destruct x; cbn [p_opt]; auto. Qed.

Ltac lnt := unfold ln; repeat (first [rewrite last_char_app | progress cbn [last_char chunk_of lastc app]]); try reflexivity.
Ltac fnt := unfold fn; repeat (rewrite first_char_app; cbn [first_char chunk_of]); try reflexivity.

(** ** the printers: no guard on the document is needed *)
Lemma G_p_ident i : G (p_ident i) = true.
Proof. apply G_single. Qed.

Lemma G_p_type t : G (p_type t) = true.
Proof.
  induction t as [n|t IH|p t IH]; cbn [p_type].
  - apply G_single.
  - apply G_app_fn; [exact IH|reflexivity|reflexivity].
  - apply G_W_l; [reflexivity|]. apply G_app_fn; [exact IH|reflexivity|reflexivity].
Qed.

Lemma G_p_variable n p : G (p_variable n p) = true.
Proof. unfold p_variable. apply G_WF_l; [reflexivity|apply G_single]. Qed.

Lemma G_p_string x : G (p_string x) = true.
Proof. apply G_single. Qed.

Section value_ind_nested.
  Variable P : value -> Prop.
  Hypothesis HVar : forall n p, P (VVar n p).
  Hypothesis HInt : forall p l, P (VInt p l).
  Hypothesis HFloat : forall p l, P (VFloat p l).
  Hypothesis HString : forall p x, P (VString p x).
  Hypothesis HBool : forall p b0, P (VBool p b0).
  Hypothesis HNull : forall p, P (VNull p).
  Hypothesis HEnum : forall p x, P (VEnum p x).
  Hypothesis HList : forall p vs, Forall P vs -> P (VList p vs).
  Hypothesis HObject : forall p fs, Forall (fun kv => P (snd kv)) fs -> P (VObject p fs).
  Fixpoint value_ind_nested (v : value) : P v :=
    match v with
    | VVar n p => HVar n p
    | VInt p l => HInt p l
    | VFloat p l => HFloat p l
    | VString p x => HString p x
    | VBool p b0 => HBool p b0
    | VNull p => HNull p
    | VEnum p x => HEnum p x
    | VList p vs =>
        HList p vs ((fix go (l : list value) : Forall P l :=
                       match l with
                       | [] => Forall_nil P
                       | x :: r => Forall_cons x (value_ind_nested x) (go r)
                       end) vs)
    | VObject p fs =>
        HObject p fs ((fix go (l : list (ident * value)) : Forall (fun kv => P (snd kv)) l :=
                         match l with
                         | [] => Forall_nil _
                         | x :: r => Forall_cons x (value_ind_nested (snd x)) (go r)
                         end) fs)
    end.
End value_ind_nested.

(** name, colon, value *)
Lemma G_field k (pv : list wop) : G pv = true -> G (p_ident k ++ W (s ": ") :: pv) = true.
Proof.
  intro H. apply G_then_W; [discriminate|reflexivity|apply G_p_ident|]. apply G_W_l; [reflexivity|exact H].
Qed.

Lemma G_p_value : forall v, G (p_value v) = true.
Proof.
  induction v as [n p|p l|p l|p x|p b0|p|p x|p vs IH|p fs IH] using value_ind_nested; cbn [p_value];
    try apply G_single.
  - apply (G_p_variable n p).
  - apply G_W_l; [reflexivity|]. apply G_app_fn; [|reflexivity|reflexivity].
    apply G_sep_by; try reflexivity; [discriminate|].
    induction IH as [|x r Hx Hr IHr]; [constructor|]. cbn [map]. constructor; assumption.
  - apply G_W_l; [reflexivity|]. apply G_app_fn; [|reflexivity|reflexivity].
    destruct fs as [|kv1 [|kv2 fs']].
    + reflexivity.
    + inversion IH as [|? ? Hv _]. cbn [flat_map]. rewrite app_nil_r. apply G_field. exact Hv.
    + apply G_W_l; [reflexivity|]. apply G_I. apply G_app_ln; [|reflexivity|].
      * induction IH as [|x r Hx Hr IHr]; [reflexivity|].
        cbn [flat_map]. apply G_app_ln; [|exact IHr|lnt].
        apply G_field. apply G_app_fn; [exact Hx|reflexivity|reflexivity].
      * clear IH. induction (kv1 :: kv2 :: fs') as [|x r IHr]; [reflexivity|].
        cbn [flat_map]. apply ln_app; [lnt|exact IHr].
Qed.

Lemma G_p_arg kv : G (p_arg kv) = true.
Proof. unfold p_arg. apply G_field. apply G_p_value. Qed.

Lemma G_fn_p_arguments a : G (p_arguments a) = true /\ fn (p_arguments a) = true /\ ln (p_arguments a) = true.
Proof.
  unfold p_arguments. split; [|split; [reflexivity|lnt]].
  apply G_W_l; [reflexivity|]. apply G_app_fn; [|reflexivity|reflexivity].
  destruct (args_list a) as [|kv1 [|kv2 l]].
  - reflexivity.
  - cbn [flat_map]. rewrite app_nil_r. apply G_p_arg.
  - apply G_W_l; [reflexivity|]. apply G_I. apply G_app_ln; [|reflexivity|].
    + induction (kv1 :: kv2 :: l) as [|x r IHr]; [reflexivity|].
      cbn [flat_map]. apply G_app_ln; [|exact IHr|lnt].
      apply G_app_fn; [apply G_p_arg|reflexivity|reflexivity].
    + induction (kv1 :: kv2 :: l) as [|x r IHr]; [reflexivity|].
      cbn [flat_map]. apply ln_app; [lnt|exact IHr].
Qed.

Lemma G_oargs a : G (p_opt p_arguments a) = true.
Proof. apply G_opt. intro x. apply G_fn_p_arguments. Qed.
Lemma fn_oargs a : fn (p_opt p_arguments a) = true.
Proof. apply fn_opt. intro x. apply G_fn_p_arguments. Qed.

Lemma G_fn_p_directive d : G (p_directive d) = true /\ fn (p_directive d) = true.
Proof.
  unfold p_directive. split; [|reflexivity].
  apply G_W_l; [reflexivity|]. apply G_app_fn; [apply G_p_ident|apply G_oargs|apply fn_oargs].
Qed.

Lemma G_fn_sp_dirs ds : G (sp_dirs ds) = true /\ fn (sp_dirs ds) = true.
Proof.
  unfold sp_dirs. apply (G_flat_map_fn _ (fun _ => true)); [|apply forallb_forall; reflexivity].
  intros d _. split; [|reflexivity]. apply G_W_l; [reflexivity|apply G_fn_p_directive].
Qed.
Lemma G_fn_glued_dirs ds : G (glued_dirs ds) = true /\ fn (glued_dirs ds) = true.
Proof.
  unfold glued_dirs. apply (G_flat_map_fn _ (fun _ => true)); [|apply forallb_forall; reflexivity].
  intros d _. apply G_fn_p_directive.
Qed.

Section sel_ind_nested.
  Variable P : selection -> Prop.
  Variable P0 : selset -> Prop.
  Hypothesis HField : forall al n args ds sel, (forall ss, sel = Some ss -> P0 ss) -> P (SField al n args ds sel).
  Hypothesis HSpread : forall p n ds, P (SSpread p n ds).
  Hypothesis HInline : forall p c ds ss, P0 ss -> P (SInline p c ds ss).
  Hypothesis HSet : forall p l, Forall P l -> P0 (SelSet p l).
  Fixpoint sel_ind_nested (x : selection) : P x :=
    match x with
    | SField al n args ds sel =>
        HField al n args ds sel
          (match sel as s0 return (forall ss, s0 = Some ss -> P0 ss) with
           | Some ss0 => fun ss E => match E in (_ = y) return (match y with Some z => P0 z | None => True end) with
                                     | eq_refl => selset_ind_nested ss0 end
           | None => fun ss E => match E in (_ = y) return (match y with Some z => P0 z | None => True end) with
                                 | eq_refl => I end
           end)
    | SSpread p n ds => HSpread p n ds
    | SInline p c ds ss => HInline p c ds ss (selset_ind_nested ss)
    end
  with selset_ind_nested (ss : selset) : P0 ss :=
    match ss with
    | SelSet p l =>
        HSet p l ((fix go (l : list selection) : Forall P l :=
                     match l with
                     | [] => Forall_nil P
                     | x :: r => Forall_cons x (sel_ind_nested x) (go r)
                     end) l)
    end.
End sel_ind_nested.

Lemma fn_p_selset ss : fn (p_selset ss) = true.
Proof. destruct ss. reflexivity. Qed.

(** G of a selection set from G of its selections *)
Lemma G_selset_of p l : Forall (fun x => G (p_selection x) = true) l -> G (p_selset (SelSet p l)) = true.
Proof.
  intro H. cbn [p_selset]. apply G_W_l; [reflexivity|]. apply G_I. apply G_app_ln; [|reflexivity|].
  - induction H as [|x r Hx Hr IHr]; [reflexivity|].
    cbn [flat_map]. apply G_app_ln; [|exact IHr|lnt].
    apply G_app_fn; [exact Hx|reflexivity|reflexivity].
  - clear H. induction l as [|x r IHr]; [reflexivity|]. cbn [flat_map]. apply ln_app; [lnt|exact IHr].
Qed.

Lemma G_sel_both : forall x, G (p_selection x) = true.
Proof.
  apply (sel_ind_nested (fun x => G (p_selection x) = true) (fun ss => G (p_selset ss) = true)).
  - intros al n args ds sel IH. cbn [p_selection].
    (* the tail after the name: arguments, directives, selection set: starts neutral *)
    set (tail := p_opt p_arguments args ++ sp_dirs ds ++ match sel with Some ss => W (s " ") :: p_selset ss | None => [] end).
    assert (Ht : G tail = true /\ fn tail = true).
    { unfold tail. destruct (G_fn_sp_dirs ds) as [G1 F1].
      assert (Hs : G (match sel with Some ss => W (s " ") :: p_selset ss | None => [] end) = true
                   /\ fn (match sel with Some ss => W (s " ") :: p_selset ss | None => [] end) = true).
      { destruct sel as [ss|]; [|split; reflexivity]. split; [|reflexivity].
        apply G_W_l; [reflexivity|]. apply (IH ss eq_refl). }
      destruct Hs as [G2 F2]. split.
      - apply G_app_fn; [apply G_oargs| |apply fn_app; assumption]. apply G_app_fn; assumption.
      - apply fn_app; [apply fn_oargs|]. apply fn_app; assumption. }
    destruct Ht as [Gt Ft].
    apply G_app_ln.
    + destruct al as [a|]; cbn [p_opt]; [|reflexivity]. apply G_app_fn; [apply G_p_ident|reflexivity|reflexivity].
    + apply G_app_fn; [apply G_p_ident|exact Gt|exact Ft].
    + destruct al as [a|]; cbn [p_opt]; [lnt|reflexivity].
  - intros p n ds. cbn [p_selection]. destruct (G_fn_sp_dirs ds) as [G1 F1].
    apply G_W_l; [reflexivity|]. apply G_app_fn; [apply G_p_ident|exact G1|exact F1].
  - intros p c ds ss IH. cbn [p_selection]. destruct (G_fn_sp_dirs ds) as [G1 F1].
    apply G_W_l; [reflexivity|]. apply G_app_ln.
    + destruct c as [t|]; cbn [p_opt]; [|reflexivity].
      apply G_W_l; [reflexivity|]. apply G_app_fn; [apply G_p_ident|reflexivity|reflexivity].
    + apply G_app_fn; [exact G1|exact IH|apply fn_p_selset].
    + destruct c as [t|]; cbn [p_opt]; [lnt|reflexivity].
  - intros p l IH. apply G_selset_of. exact IH.
Qed.

Lemma G_p_selset ss : G (p_selset ss) = true.
Proof. destruct ss as [p l]. apply G_selset_of. apply Forall_forall. intros x _. apply G_sel_both. Qed.

Lemma G_fn_ovalue v :
  G (p_opt (fun d => W (s " = ") :: p_value d) v) = true /\ fn (p_opt (fun d => W (s " = ") :: p_value d) v) = true.
Proof.
  destruct v as [x|]; cbn [p_opt]; [|split; reflexivity]. split; [|reflexivity].
  apply G_W_l; [reflexivity|apply G_p_value].
Qed.

(** type, default value, directives: what follows a name and a colon *)
Lemma G_typed t v ds :
  G (W (s ": ") :: p_type t ++ p_opt (fun d => W (s " = ") :: p_value d) v ++ sp_dirs ds) = true.
Proof.
  destruct (G_fn_ovalue v) as [G1 F1]. destruct (G_fn_sp_dirs ds) as [G2 F2].
  apply G_W_l; [reflexivity|]. apply G_app_fn; [apply G_p_type| |apply fn_app; assumption].
  apply G_app_fn; assumption.
Qed.

Lemma G_p_vardef v : G (p_vardef v) = true.
Proof.
  unfold p_vardef. apply G_then_W; [discriminate|reflexivity|apply G_p_variable|apply G_typed].
Qed.

Lemma G_fn_p_vardefs v : G (p_vardefs v) = true /\ fn (p_vardefs v) = true /\ ln (p_vardefs v) = true.
Proof.
  unfold p_vardefs. split; [|split; [reflexivity|lnt]].
  apply G_W_l; [reflexivity|]. apply G_app_fn; [|reflexivity|reflexivity].
  destruct (vds_list v) as [|v1 [|v2 l]].
  - reflexivity.
  - cbn [flat_map]. rewrite app_nil_r. apply G_p_vardef.
  - apply G_W_l; [reflexivity|]. apply G_I. apply G_app_fn; [|reflexivity|reflexivity].
    apply G_sep_by; try reflexivity; [discriminate|]. apply Forall_map_G. exact G_p_vardef.
Qed.

Lemma G_p_opdef o : G (p_opdef o) = true /\ ln (p_opdef o) = true.
Proof.
  unfold p_opdef. split; [|lnt].
  destruct (G_fn_sp_dirs (op_dirs o)) as [G2 F2].
  assert (Hv : G (p_opt p_vardefs (op_vars o)) = true /\ fn (p_opt p_vardefs (op_vars o)) = true).
  { destruct (op_vars o) as [vs|]; cbn [p_opt]; [|split; reflexivity]. destruct (G_fn_p_vardefs vs) as [A [B0 _]]. split; assumption. }
  destruct Hv as [G1 F1].
  assert (Hn : G (p_opt (fun n => W (s " ") :: p_ident n) (op_name o)) = true /\ fn (p_opt (fun n => W (s " ") :: p_ident n) (op_name o)) = true).
  { destruct (op_name o); cbn [p_opt]; [|split; reflexivity]. split; [|reflexivity]. apply G_W_l; [reflexivity|apply G_p_ident]. }
  destruct Hn as [G0 F0].
  assert (Hlast : G (W (s " ") :: p_selset (op_sel o) ++ [W [LF]]) = true).
  { apply G_W_l; [reflexivity|]. apply G_app_fn; [apply G_p_selset|reflexivity|reflexivity]. }
  apply G_W_r.
  - apply fn_app; [exact F0|]. apply fn_app; [exact F1|]. apply fn_app; [exact F2|reflexivity].
  - apply G_app_fn; [exact G0| |apply fn_app; [exact F1|apply fn_app; [exact F2|reflexivity]]].
    apply G_app_fn; [exact G1| |apply fn_app; [exact F2|reflexivity]].
    apply G_app_fn; [exact G2|exact Hlast|reflexivity].
Qed.

Lemma G_p_fragdef f : G (p_fragdef f) = true /\ ln (p_fragdef f) = true.
Proof.
  unfold p_fragdef. split; [|lnt]. destruct (G_fn_sp_dirs (fr_dirs f)) as [G2 F2].
  apply G_W_l; [reflexivity|]. apply G_then_W; [discriminate|reflexivity|apply G_p_ident|].
  apply G_W_l; [reflexivity|].
  apply G_app_fn; [apply G_p_ident| |apply fn_app; [exact F2|reflexivity]].
  apply G_app_fn; [exact G2| |reflexivity].
  apply G_W_l; [reflexivity|]. apply G_app_fn; [apply G_p_selset|reflexivity|reflexivity].
Qed.

Lemma G_p_importdef i : G (p_importdef i) = true /\ ln (p_importdef i) = true.
Proof.
  unfold p_importdef. split; [|lnt].
  apply G_W_l; [reflexivity|]. apply G_then_W; [discriminate|reflexivity| |].
  - apply G_sep_by; try reflexivity; [discriminate|]. apply Forall_map_G. intros [|n]; apply G_single.
  - apply G_W_l; [reflexivity|]. apply G_app_fn; [apply G_p_string|reflexivity|reflexivity].
Qed.

Lemma G_ln_flat_map_all {A} (f : A -> list wop) (l : list A) :
  (forall a, G (f a) = true /\ ln (f a) = true) -> G (flat_map f l) = true /\ ln (flat_map f l) = true.
Proof.
  intro Hf. apply (G_flat_map_ln f (fun _ => true)); [intros a _; apply Hf|apply forallb_forall; reflexivity].
Qed.

Theorem G_print_opdoc d : G (print_opdoc d) = true.
Proof.
  unfold print_opdoc. apply (G_ln_flat_map_all p_execdef).
  intros [o|f|i]; cbn [p_execdef]; [apply G_p_opdef|apply G_p_fragdef|apply G_p_importdef].
Qed.

(** type system *)
Lemma G_ln_p_desc d : G (p_desc d) = true /\ ln (p_desc d) = true.
Proof.
  destruct d as [x|]; cbn [p_desc]; [|split; reflexivity]. split; [|lnt].
  apply G_app_fn; [apply G_p_string|reflexivity|reflexivity].
Qed.

Lemma G_p_inputval i : G (p_inputval i) = true.
Proof.
  unfold p_inputval. destruct (G_ln_p_desc (iv_desc i)) as [G1 L1].
  apply G_app_ln; [exact G1| |exact L1].
  apply G_then_W; [discriminate|reflexivity|apply G_p_ident|apply G_typed].
Qed.

Lemma G_fn_p_argsdef l : G (p_argsdef l) = true /\ fn (p_argsdef l) = true /\ ln (p_argsdef l) = true.
Proof.
  unfold p_argsdef. split; [|split; [reflexivity|lnt]].
  apply G_W_l; [reflexivity|]. apply G_app_fn; [|reflexivity|reflexivity].
  apply G_sep_by; try reflexivity; [discriminate|]. apply Forall_map_G. exact G_p_inputval.
Qed.

Lemma G_p_fielddef f : G (p_fielddef f) = true.
Proof.
  unfold p_fielddef. destruct (G_ln_p_desc (fd_desc f)) as [G1 L1]. destruct (G_fn_sp_dirs (fd_dirs f)) as [G2 F2].
  apply G_app_ln; [exact G1| |exact L1].
  assert (Ha : G (p_opt p_argsdef (fd_args f)) = true /\ fn (p_opt p_argsdef (fd_args f)) = true).
  { destruct (fd_args f) as [l|]; cbn [p_opt]; [|split; reflexivity]. destruct (G_fn_p_argsdef l) as [A [B0 _]]. split; assumption. }
  destruct Ha as [G3 F3].
  assert (Hrest : G (W (s ": ") :: p_type (fd_type f) ++ sp_dirs (fd_dirs f)) = true).
  { apply G_W_l; [reflexivity|]. apply G_app_fn; [apply G_p_type|exact G2|exact F2]. }
  apply G_app_fn; [apply G_p_ident| |apply fn_app; [exact F3|reflexivity]].
  apply G_app_fn; [exact G3|exact Hrest|reflexivity].
Qed.

Lemma G_p_enumval e : G (p_enumval e) = true.
Proof.
  unfold p_enumval. destruct (G_ln_p_desc (ev_desc e)) as [G1 L1]. destruct (G_fn_sp_dirs (ev_dirs e)) as [G2 F2].
  apply G_app_ln; [exact G1| |exact L1]. apply G_app_fn; [apply G_p_ident|exact G2|exact F2].
Qed.

Lemma G_fn_p_implements l : G (p_implements l) = true /\ fn (p_implements l) = true.
Proof.
  unfold p_implements. destruct l as [|i r]; [split; reflexivity|]. split; [|reflexivity].
  apply G_W_r.
  - apply (G_flat_map_fn _ (fun _ => true)); [|apply forallb_forall; reflexivity]. intros x _. split; [|reflexivity].
    apply G_W_l; [reflexivity|apply G_p_ident].
  - apply (G_flat_map_fn _ (fun _ => true)); [|apply forallb_forall; reflexivity]. intros x _. split; [|reflexivity].
    apply G_W_l; [reflexivity|apply G_p_ident].
Qed.

Lemma G_fn_p_body {A} (f : A -> list wop) l :
  (forall a, G (f a) = true) -> G (p_body f l) = true /\ fn (p_body f l) = true.
Proof.
  intro Hf. unfold p_body. destruct l as [|a r]; [split; reflexivity|]. split; [|reflexivity].
  apply G_W_l; [reflexivity|]. apply G_I.
  destruct (G_ln_flat_map_all (fun x => f x ++ [W [LF]]) (a :: r)) as [G1 L1].
  { intro x. split; [apply G_app_fn; [apply Hf|reflexivity|reflexivity]|lnt]. }
  apply G_app_ln; [exact G1|reflexivity|exact L1].
Qed.

Lemma G_fn_p_members l : G (p_members l) = true /\ fn (p_members l) = true.
Proof.
  unfold p_members. split; [|reflexivity]. apply G_W_l; [reflexivity|].
  apply (G_flat_map_fn _ (fun _ => true)); [|apply forallb_forall; reflexivity]. intros x _. split; [|reflexivity].
  apply G_W_l; [reflexivity|apply G_p_ident].
Qed.

Lemma G_fn_p_members_def l : G (p_members_def l) = true /\ fn (p_members_def l) = true.
Proof. destruct l; [split; reflexivity|]. apply G_fn_p_members. Qed.

Lemma G_fn_p_rootops l : G (p_rootops l) = true /\ fn (p_rootops l) = true /\ ln (p_rootops l) = true.
Proof.
  unfold p_rootops. split; [|split; [reflexivity|lnt]].
  apply G_W_l; [reflexivity|]. apply G_I.
  destruct (G_ln_flat_map_all (fun kv : optype * ident => W (optype_str (fst kv)) :: W (s ": ") :: p_ident (snd kv) ++ [W [LF]]) l) as [G1 L1].
  { intro kv. split; [|lnt]. apply G_W_r; [reflexivity|]. apply G_W_l; [reflexivity|].
    apply G_app_fn; [apply G_p_ident|reflexivity|reflexivity]. }
  apply G_app_ln; [exact G1|reflexivity|exact L1].
Qed.

(** keyword chunk, name, then pieces that each start neutral (or are empty), then a line feed *)
Lemma G_def_tail (pieces : list wop) : G pieces = true -> fn pieces = true ->
  G (pieces ++ [W [LF]]) = true /\ fn (pieces ++ [W [LF]]) = true.
Proof. intros Hg Hf. split; [apply G_app_fn; [exact Hg|reflexivity|reflexivity]|apply fn_app; [exact Hf|reflexivity]]. Qed.

Lemma G_head kw n tail : ends_neutral kw = true -> G tail = true -> fn tail = true ->
  G (W kw :: p_ident n ++ tail) = true.
Proof. intros Hk Hg Hf. apply G_W_l; [exact Hk|]. apply G_app_fn; [apply G_p_ident|exact Hg|exact Hf]. Qed.
Lemma G_headF kw p nm n tail : ends_neutral kw = true -> G tail = true -> fn tail = true ->
  G (WF kw p nm :: p_ident n ++ tail) = true.
Proof. exact (G_head kw n tail). Qed.

Lemma G_fn_app2 a b0 : (G a = true /\ fn a = true) -> (G b0 = true /\ fn b0 = true) -> G (a ++ b0) = true /\ fn (a ++ b0) = true.
Proof. intros [G1 F1] [G2 F2]. split; [apply G_app_fn; assumption|apply fn_app; assumption]. Qed.

Lemma G_ln_p_typedef t : G (p_typedef t) = true /\ ln (p_typedef t) = true.
Proof.
  destruct t; cbn [p_typedef]; (split; [|lnt]);
    match goal with |- G (p_desc ?d ++ _) = true => destruct (G_ln_p_desc d) as [Gd Ld]; apply G_app_ln; [exact Gd| |exact Ld] end.
  - apply G_head; [reflexivity| |]; apply (G_def_tail _ (proj1 (G_fn_sp_dirs dirs)) (proj2 (G_fn_sp_dirs dirs))).
  - pose proof (G_fn_app2 _ _ (G_fn_p_implements impls) (G_fn_app2 _ _ (G_fn_sp_dirs dirs) (G_fn_p_body p_fielddef fields G_p_fielddef))) as [Ga Fa].
    pose proof (G_def_tail _ Ga Fa) as [X Y]. rewrite <- !app_assoc in X, Y.
    apply G_headF; [reflexivity|exact X|exact Y].
  - pose proof (G_fn_app2 _ _ (G_fn_p_implements impls) (G_fn_app2 _ _ (G_fn_sp_dirs dirs) (G_fn_p_body p_fielddef fields G_p_fielddef))) as [Ga Fa].
    pose proof (G_def_tail _ Ga Fa) as [X Y]. rewrite <- !app_assoc in X, Y.
    apply G_head; [reflexivity|exact X|exact Y].
  - pose proof (G_fn_app2 _ _ (G_fn_sp_dirs dirs) (G_fn_p_members_def members)) as [Ga Fa].
    pose proof (G_def_tail _ Ga Fa) as [X Y]. rewrite <- !app_assoc in X, Y.
    apply G_head; [reflexivity|exact X|exact Y].
  - pose proof (G_fn_app2 _ _ (G_fn_sp_dirs dirs) (G_fn_p_body p_enumval vals G_p_enumval)) as [Ga Fa].
    pose proof (G_def_tail _ Ga Fa) as [X Y]. rewrite <- !app_assoc in X, Y.
    apply G_head; [reflexivity|exact X|exact Y].
  - pose proof (G_fn_app2 _ _ (G_fn_sp_dirs dirs) (G_fn_p_body p_inputval fields G_p_inputval)) as [Ga Fa].
    pose proof (G_def_tail _ Ga Fa) as [X Y]. rewrite <- !app_assoc in X, Y.
    apply G_head; [reflexivity|exact X|exact Y].
Qed.

Lemma G_ln_p_typeext t : G (p_typeext t) = true /\ ln (p_typeext t) = true.
Proof.
  destruct t; cbn [p_typeext]; (split; [|lnt]).
  - apply G_head; [reflexivity| |]; apply (G_def_tail _ (proj1 (G_fn_sp_dirs dirs)) (proj2 (G_fn_sp_dirs dirs))).
  - pose proof (G_fn_app2 _ _ (G_fn_p_implements impls) (G_fn_app2 _ _ (G_fn_sp_dirs dirs) (G_fn_p_body p_fielddef fields G_p_fielddef))) as [Ga Fa].
    pose proof (G_def_tail _ Ga Fa) as [X Y]. rewrite <- !app_assoc in X, Y.
    apply G_head; [reflexivity|exact X|exact Y].
  - pose proof (G_fn_app2 _ _ (G_fn_p_implements impls) (G_fn_app2 _ _ (G_fn_sp_dirs dirs) (G_fn_p_body p_fielddef fields G_p_fielddef))) as [Ga Fa].
    pose proof (G_def_tail _ Ga Fa) as [X Y]. rewrite <- !app_assoc in X, Y.
    apply G_head; [reflexivity|exact X|exact Y].
  - pose proof (G_fn_app2 _ _ (G_fn_sp_dirs dirs) (G_fn_p_members members)) as [Ga Fa].
    pose proof (G_def_tail _ Ga Fa) as [X Y]. rewrite <- !app_assoc in X, Y.
    apply G_head; [reflexivity|exact X|exact Y].
  - pose proof (G_fn_app2 _ _ (G_fn_sp_dirs dirs) (G_fn_p_body p_enumval vals G_p_enumval)) as [Ga Fa].
    pose proof (G_def_tail _ Ga Fa) as [X Y]. rewrite <- !app_assoc in X, Y.
    apply G_head; [reflexivity|exact X|exact Y].
  - pose proof (G_fn_app2 _ _ (G_fn_sp_dirs dirs) (G_fn_p_body p_inputval fields G_p_inputval)) as [Ga Fa].
    pose proof (G_def_tail _ Ga Fa) as [X Y]. rewrite <- !app_assoc in X, Y.
    apply G_head; [reflexivity|exact X|exact Y].
Qed.

Lemma G_ln_p_tsdef x : G (p_tsdef x) = true /\ ln (p_tsdef x) = true.
Proof.
  destruct x as [d|t|d|e|t]; cbn [p_tsdef].
  - unfold p_schemadef. split; [|unfold p_rootops; lnt].
    destruct (G_ln_p_desc (sd_desc d)) as [Gd Ld]. destruct (G_fn_glued_dirs (sd_dirs d)) as [G1 F1].
    destruct (G_fn_p_rootops (sd_ops d)) as [G2 [F2 _]].
    apply G_app_ln; [exact Gd| |exact Ld]. apply G_W_l; [reflexivity|]. apply G_app_fn; assumption.
  - apply G_ln_p_typedef.
  - unfold p_directivedef. split; [|lnt].
    destruct (G_ln_p_desc (dd_desc d)) as [Gd Ld].
    apply G_app_ln; [exact Gd| |exact Ld].
    assert (Ha : G (p_opt p_argsdef (dd_args d)) = true /\ fn (p_opt p_argsdef (dd_args d)) = true).
    { destruct (dd_args d) as [l|]; cbn [p_opt]; [|split; reflexivity]. destruct (G_fn_p_argsdef l) as [A [B0 _]]. split; assumption. }
    assert (Hr : G (p_opt (fun t => W (s " ") :: p_ident t) (dd_repeatable d)) = true
                 /\ fn (p_opt (fun t => W (s " ") :: p_ident t) (dd_repeatable d)) = true).
    { destruct (dd_repeatable d); cbn [p_opt]; [|split; reflexivity]. split; [|reflexivity]. apply G_W_l; [reflexivity|apply G_p_ident]. }
    assert (Hl : G (W (s " on") :: flat_map (fun l => W (s " | ") :: p_ident l) (dd_locs d) ++ [W [LF]]) = true
                 /\ fn (W (s " on") :: flat_map (fun l => W (s " | ") :: p_ident l) (dd_locs d) ++ [W [LF]]) = true).
    { split; [|reflexivity].
      destruct (G_flat_map_fn (fun l => W (s " | ") :: p_ident l) (fun _ => true) (dd_locs d)) as [G1 F1];
        [intros x _; split; [apply G_W_l; [reflexivity|apply G_p_ident]|reflexivity]|apply forallb_forall; reflexivity|].
      apply G_W_r; [apply fn_app; [exact F1|reflexivity]|]. apply G_app_fn; [exact G1|reflexivity|reflexivity]. }
    pose proof (G_fn_app2 _ _ Ha (G_fn_app2 _ _ Hr Hl)) as [X Y].
    apply G_head; [reflexivity|exact X|exact Y].
  - unfold p_schemaext. split.
    + destruct (G_fn_glued_dirs (se_dirs e)) as [G1 F1].
      apply G_W_l; [reflexivity|]. apply G_app_fn; [exact G1| |].
      * destruct (se_ops e); [reflexivity|]. apply G_fn_p_rootops.
      * destruct (se_ops e); [reflexivity|]. apply G_fn_p_rootops.
    + destruct (se_ops e); unfold p_rootops; lnt.
  - apply G_ln_p_typeext.
Qed.

(** ** no chunk boundary of a printed document glues two tokens: for every document, no guard *)
Theorem G_print_tsdoc d : G (print_tsdoc d) = true.
Proof. unfold print_tsdoc. apply (G_ln_flat_map_all p_tsdef). exact G_ln_p_tsdef. Qed.

Theorem G_print_tsdoc_ext d : G (print_tsdoc_ext d) = true.
Proof.
  unfold print_tsdoc_ext. apply (G_ln_flat_map_all (fun x => p_tsdef x ++ [W [LF]])).
  intro x. destruct (G_ln_p_tsdef x) as [G1 L1]. split; [apply G_app_ln; [exact G1|reflexivity|exact L1]|lnt].
Qed.

(** the invariant is not vacuous: it fails as soon as a separator is missing *)
Example G_detects_missing_separator :
  G [W (s "type"); WF (s "Q") pos0 None] = false /\ G [W (s "type "); WF (s "Q") pos0 None] = true
  /\ G [W (s """a"""); W (s """b""")] = false.
Proof. repeat split. Qed.
