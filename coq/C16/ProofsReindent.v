(** C16 — the writers indent the continuation lines of a block string they write inside an indented
    block (known finding "block-string-reindented-by-writer").  Here: that re-indentation does not
    change the value a GraphQL implementation gives the block string (BlockStringValue of the
    specification), for text without carriage returns. *)
From V Require Import Base.Util Gql.Ast Writer.Wop C16.Model C16.Spec.
Local Open Scope N_scope.

(** ** what the writer does, on lines *)
Definition sp (n : nat) : str := repeat 32 n.

(** the lines after the first: every non-empty line gets [n] spaces *)
Definition indent_line (n : nat) (l : str) : str := match l with [] => [] | _ => sp n ++ l end.

(** text written by [write_lines] for the lines after the first, with the identity escape *)
Lemma write_lines_rest : forall lines ind flag,
  fst (write_lines (fun l => l) false lines ind flag)
  = flat_map (fun l => LF :: indent_line (N.to_nat ind) l) lines.
Proof.
  induction lines as [|l r IH]; intros ind flag; [reflexivity|].
  cbn [write_lines flat_map]. destruct l as [|c l'].
  - specialize (IH ind true). destruct (write_lines (fun l => l) false r ind true) as [o f].
    cbn [fst] in *. cbn [indent_line app]. rewrite IH. reflexivity.
  - specialize (IH ind false). destruct (write_lines (fun l => l) false r ind false) as [o f].
    cbn [fst] in *. cbn [indent_line app]. unfold spaces, sp, SP. rewrite IH.
    rewrite <- app_assoc. reflexivity.
Qed.

(** a chunk whose first line is not empty, written when no indentation is pending: the first line
    as it is, every later non-empty line indented *)
Lemma write_chunk_lines : forall c0 l0 rest ind,
  fst (write_lines (fun l => l) true ((c0 :: l0) :: rest) ind false)
  = (c0 :: l0) ++ flat_map (fun l => LF :: indent_line (N.to_nat ind) l) rest.
Proof.
  intros c0 l0 rest ind. cbn [write_lines].
  pose proof (write_lines_rest rest ind false) as H.
  destruct (write_lines (fun l => l) false rest ind false) as [o f]. cbn [fst] in *.
  cbn [app]. rewrite H. reflexivity.
Qed.

(** the raw text of a block string after the writer: the last line precedes the closing quotes
    on its output line, so it is indented even when it is empty *)
Fixpoint indent_lines (n : nat) (rest : list str) : list str :=
  match rest with
  | [] => []
  | [l] => [sp n ++ l]
  | l :: r => indent_line n l :: indent_lines n r
  end.

(** ** BlockStringValue on lines *)
Definition dedent (ls : list str) : list str :=
  match ls with
  | [] => []
  | first :: rest =>
      match common_indent rest with
      | Some n => first :: map (skipn n) rest
      | None => ls
      end
  end.
Definition bsv_lines (ls : list str) : str := join_lf (drop_blank_back (drop_blank_front (dedent ls))).

Lemma block_string_value_lines raw : block_string_value raw = bsv_lines (gql_lines raw).
Proof. reflexivity. Qed.

Lemma blank_sp n l : blank (sp n ++ l) = blank l.
Proof. induction n as [|n IH]; [reflexivity|]. cbn [sp repeat app blank forallb]. exact IH. Qed.

Lemma blank_indent_line n l : blank (indent_line n l) = blank l.
Proof. destruct l; [reflexivity|]. unfold indent_line. apply blank_sp. Qed.

Lemma leading_ws_sp n l : leading_ws (sp n ++ l) = (n + leading_ws l)%nat.
Proof. induction n as [|n IH]; [reflexivity|]. cbn [sp repeat app leading_ws]. cbn. f_equal. exact IH. Qed.

Lemma skipn_sp n c l : skipn (n + c) (sp n ++ l) = skipn c l.
Proof. induction n as [|n IH]; [reflexivity|]. cbn [sp repeat app Nat.add skipn]. exact IH. Qed.

Lemma nonblank_nonempty l : blank l = false -> l <> [].
Proof. intros H ->. discriminate. Qed.

Lemma common_indent_indent_lines : forall n rest,
  common_indent (indent_lines n rest) = option_map (Nat.add n) (common_indent rest).
Proof.
  intros n. induction rest as [|l r IH]; [reflexivity|].
  destruct r as [|l2 r2].
  - cbn [indent_lines common_indent]. rewrite blank_sp. destruct (blank l); [reflexivity|].
    cbn [option_map]. rewrite leading_ws_sp. reflexivity.
  - change (indent_lines n (l :: l2 :: r2)) with (indent_line n l :: indent_lines n (l2 :: r2)).
    remember (l2 :: r2) as r' eqn:Er. remember (indent_lines n r') as ir eqn:Ei.
    cbn [common_indent]. rewrite blank_indent_line. rewrite IH.
    destruct (blank l) eqn:Eb; [reflexivity|].
    assert (El : indent_line n l = sp n ++ l) by (destruct l; [discriminate|reflexivity]).
    rewrite El, leading_ws_sp.
    destruct (common_indent r') as [m|]; cbn [option_map]; [|reflexivity].
    f_equal. lia.
Qed.

Lemma map_skipn_indent_lines : forall n c rest,
  map (skipn (n + c)) (indent_lines n rest) = map (skipn c) rest.
Proof.
  intros n c. induction rest as [|l r IH]; [reflexivity|].
  destruct r as [|l2 r2].
  - cbn [indent_lines map]. rewrite skipn_sp. reflexivity.
  - change (indent_lines n (l :: l2 :: r2)) with (indent_line n l :: indent_lines n (l2 :: r2)).
    cbn [map]. rewrite IH. f_equal.
    destruct l as [|x l']; [cbn [indent_line]; rewrite !skipn_nil; reflexivity|].
    unfold indent_line. apply skipn_sp.
Qed.

Lemma all_blank_indent_lines : forall n rest, forallb blank (indent_lines n rest) = forallb blank rest.
Proof.
  intros n. induction rest as [|l r IH]; [reflexivity|].
  destruct r as [|l2 r2].
  - cbn [indent_lines forallb]. rewrite blank_sp. reflexivity.
  - change (indent_lines n (l :: l2 :: r2)) with (indent_line n l :: indent_lines n (l2 :: r2)).
    cbn [forallb]. rewrite blank_indent_line, IH. reflexivity.
Qed.

Lemma common_indent_none : forall rest, common_indent rest = None -> forallb blank rest = true.
Proof.
  induction rest as [|l r IH]; [reflexivity|]. cbn [common_indent forallb].
  destruct (blank l); [exact IH|]. destruct (common_indent r); discriminate.
Qed.

Lemma drop_blank_front_all : forall ls, forallb blank ls = true -> drop_blank_front ls = [].
Proof.
  induction ls as [|l r IH]; [reflexivity|]. cbn [forallb drop_blank_front]. intro H.
  apply andb_true_iff in H as [Hl Hr]. rewrite Hl. exact (IH Hr).
Qed.

(** a first line followed by blank lines only: the first line alone, or nothing *)
Lemma trim_all_blank f rest :
  forallb blank rest = true ->
  drop_blank_back (drop_blank_front (f :: rest)) = if blank f then [] else [f].
Proof.
  intro H. cbn [drop_blank_front]. destruct (blank f) eqn:Ef.
  - rewrite (drop_blank_front_all rest H). reflexivity.
  - unfold drop_blank_back. cbn [rev].
    assert (Hr : forallb blank (rev rest) = true).
    { rewrite forallb_forall in *. intros x Hx. apply H. apply in_rev. exact Hx. }
    assert (E : forall a, forallb blank a = true -> drop_blank_front (a ++ [f]) = [f]).
    { induction a as [|x a IHa]; intro Ha.
      - cbn. rewrite Ef. reflexivity.
      - cbn [forallb] in Ha. apply andb_true_iff in Ha as [Hx Ha]. cbn [app drop_blank_front]. rewrite Hx. exact (IHa Ha). }
    rewrite (E _ Hr). reflexivity.
Qed.

Theorem reindent_lines_value : forall n l0 rest,
  bsv_lines (l0 :: indent_lines n rest) = bsv_lines (l0 :: rest).
Proof.
  intros n l0 rest. unfold bsv_lines, dedent.
  rewrite common_indent_indent_lines.
  destruct (common_indent rest) as [c|] eqn:Ec; cbn [option_map].
  - rewrite map_skipn_indent_lines. reflexivity.
  - pose proof (common_indent_none rest Ec) as Hb.
    rewrite (trim_all_blank l0 rest Hb).
    rewrite (trim_all_blank l0 (indent_lines n rest)); [reflexivity|].
    rewrite all_blank_indent_lines. exact Hb.
Qed.

(** ** back to text *)
Definition line_ok (l : str) : bool := forallb (fun c => negb (c =? 10) && negb (c =? 13)) l.

Lemma gql_lines_line : forall l k,
  line_ok l = true ->
  gql_lines (l ++ 10 :: k) = match gql_lines k with x :: r => l :: x :: r | [] => [l] end.
Proof.
  induction l as [|c l IH]; intros k H.
  - cbn [app gql_lines]. change (10 =? 10) with true. cbv iota. destruct (gql_lines k); reflexivity.
  - cbn [line_ok forallb] in H. apply andb_true_iff in H as [Hc Hl]. apply andb_true_iff in Hc as [H10 H13].
    apply negb_true_iff in H10, H13.
    cbn [app gql_lines]. rewrite H10, H13. rewrite (IH k Hl). destruct (gql_lines k); reflexivity.
Qed.

Lemma gql_lines_last : forall l, line_ok l = true -> gql_lines l = [l].
Proof.
  induction l as [|c l IH]; intro H; [reflexivity|].
  cbn [line_ok forallb] in H. apply andb_true_iff in H as [Hc Hl]. apply andb_true_iff in Hc as [H10 H13].
  apply negb_true_iff in H10, H13. cbn [gql_lines]. rewrite H10, H13, (IH Hl). reflexivity.
Qed.

Lemma gql_lines_join : forall ls, ls <> [] -> forallb line_ok ls = true -> gql_lines (join_lf ls) = ls.
Proof.
  induction ls as [|l r IH]; intros Hne H; [contradiction|].
  cbn [forallb] in H. apply andb_true_iff in H as [Hl Hr].
  destruct r as [|l2 r2].
  - cbn [join_lf]. apply gql_lines_last. exact Hl.
  - change (join_lf (l :: l2 :: r2)) with (l ++ 10 :: join_lf (l2 :: r2)).
    rewrite (gql_lines_line l _ Hl). rewrite (IH ltac:(discriminate) Hr). reflexivity.
Qed.

Lemma line_ok_sp n l : line_ok (sp n ++ l) = line_ok l.
Proof. induction n as [|n IH]; [reflexivity|]. cbn [sp repeat app line_ok forallb]. exact IH. Qed.

Lemma line_ok_indent_lines : forall n rest, forallb line_ok (indent_lines n rest) = forallb line_ok rest.
Proof.
  intros n. induction rest as [|l r IH]; [reflexivity|].
  destruct r as [|l2 r2].
  - cbn [indent_lines forallb]. rewrite line_ok_sp. reflexivity.
  - change (indent_lines n (l :: l2 :: r2)) with (indent_line n l :: indent_lines n (l2 :: r2)).
    cbn [forallb]. rewrite IH. f_equal. destruct l; [reflexivity|]. unfold indent_line. apply line_ok_sp.
Qed.

(** Raw block-string text given by its lines (none containing a line feed or a carriage return):
    indenting the continuation lines the way the writers do leaves BlockStringValue unchanged. *)
Theorem reindent_preserves_spec_value : forall n l0 rest,
  forallb line_ok (l0 :: rest) = true ->
  block_string_value (join_lf (l0 :: indent_lines n rest)) = block_string_value (join_lf (l0 :: rest)).
Proof.
  intros n l0 rest H. rewrite !block_string_value_lines.
  rewrite (gql_lines_join (l0 :: rest)) by (try discriminate; exact H).
  rewrite (gql_lines_join (l0 :: indent_lines n rest)).
  - apply reindent_lines_value.
  - discriminate.
  - cbn [forallb] in H |- *. apply andb_true_iff in H as [H0 Hr]. rewrite H0, line_ok_indent_lines, Hr. reflexivity.
Qed.

(** with a carriage return the specification splits lines the writer does not see: the value changes *)
Lemma reindent_cr_refuted :
  exists raw raw', (* raw' = raw as JustWriter re-indents it by 2 *)
    raw = s "a" ++ [13] ++ s "b" ++ [10] ++ s "c" /\ raw' = s "a" ++ [13] ++ s "b" ++ [10] ++ s "  c"
    /\ block_string_value raw' <> block_string_value raw.
Proof. eexists; eexists. split; [reflexivity|]. split; [reflexivity|]. vm_compute. discriminate. Qed.
