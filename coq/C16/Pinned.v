(** Pinned statements of the C16 property theorems: compiled on every check, so a theorem
    cannot be weakened silently. *)
From V Require Import Base.Util Gql.Ast Writer.Wop C16.Model C16.Spec
  C16.ProofsTemplate C16.ProofsString C16.ProofsStrip C16.ProofsDoc C16.ProofsReindent C16.ProofsGlue
  C16.SpecLex C16.LexGuard C16.ProofsLex1 C16.ProofsBlock C16.ProofsLex2 C16.ProofsLex3 C16.Proofs C16.Properties.
Local Open Scope N_scope.

Check (C16_template_roundtrip : forall ops,
  no_cr_ops ops = true -> no_split_dollar ops = true ->
  eval_template (js_run ops) = Some (LF :: just_run ops)).
Check (C16_tsdoc_template_roundtrip : forall d,
  tsdoc_ok d = true -> eval_template (js_run (print_tsdoc d)) = Some (LF :: just_run (print_tsdoc d))).
Check (C16_tsdoc_ext_template_roundtrip : forall d,
  tsdoc_ok d = true -> eval_template (js_run (print_tsdoc_ext d)) = Some (LF :: just_run (print_tsdoc_ext d))).
Check (C16_opdoc_template_roundtrip : forall d,
  opdoc_ok d = true -> eval_template (js_run (print_opdoc d)) = Some (LF :: just_run (print_opdoc d))).
Check (C16_server_module_value : forall model_plugin d,
  directives_placed model_plugin d = true ->
  tsdoc_ok (spec_server_schema model_plugin d) = true ->
  module_value (server_module model_plugin d)
  = Some (LF :: just_run (print_tsdoc (spec_server_schema model_plugin d)))).
Check (C16_print_never_glues_tsdoc : forall d, ProofsGlue.G (print_tsdoc d) = true).
Check (C16_print_never_glues_tsdoc_ext : forall d, ProofsGlue.G (print_tsdoc_ext d) = true).
Check (C16_print_never_glues_opdoc : forall d, ProofsGlue.G (print_opdoc d) = true).
Check (C16_chunks_lex : forall (val : strtok -> str) (sn : str -> str) (blk : str -> bool),
  (forall v, is_multiline v = false -> val (TNormal v) = sn v) ->
  (forall v, blk v = true ->
     is_multiline v = true /\ plain_block v = true /\ forall ind, val (TBlock (rawb ind v)) = sn v) ->
  forall ops ts, TK val sn blk ops ts -> ProofsGlue.G ops = true -> lex_with val (just_run ops) = Some ts).
Check (C16_written_block_literal : forall v ind flag k,
  is_multiline v = true -> plain_block v = true ->
  ins ind flag (print_string v) ++ k = (if flag then spaces ind else []) ++ QQQ ++ rawb ind v ++ QQQ ++ k
  /\ lex_string (QQQ ++ rawb ind v ++ QQQ ++ k) = Some (TBlock (rawb ind v), k)
  /\ (no_cr v = true -> value_spec (TBlock (rawb ind v)) = block_string_value v)).
Check (C16_print_tsdoc_lex : forall d,
  tsdoc_lx_raw d = true -> lex (just_run (print_tsdoc d)) = Some (tokens_of_tsdoc d)).
Check (C16_print_tsdoc_ext_lex : forall d,
  tsdoc_lx_raw d = true -> lex (just_run (print_tsdoc_ext d)) = Some (tokens_of_tsdoc d)).
Check (C16_print_opdoc_lex : forall d,
  opdoc_lx_raw d = true -> lex (just_run (print_opdoc d)) = Some (tokens_of_opdoc d)).
Check (C16_print_tsdoc_lex_spec : forall d,
  tsdoc_lx_spec d = true -> lex_spec (just_run (print_tsdoc d)) = Some (tokens_spec_tsdoc d)).
Check (C16_print_tsdoc_ext_lex_spec : forall d,
  tsdoc_lx_spec d = true -> lex_spec (just_run (print_tsdoc_ext d)) = Some (tokens_spec_tsdoc d)).
Check (C16_print_opdoc_lex_spec : forall d,
  opdoc_lx_spec d = true -> lex_spec (just_run (print_opdoc d)) = Some (tokens_spec_opdoc d)).
Check (C16_tsdoc_roundtrip_any_parser :
  forall (R : tsdoc -> tsdoc -> Prop) (parse : list tok -> option tsdoc),
  (forall a, exists a', parse (tokens_of_tsdoc a) = Some a' /\ R a' a) ->
  forall d, tsdoc_lx_raw d = true ->
  exists d', match lex (just_run (print_tsdoc_ext d)) with Some ts => parse ts | None => None end = Some d' /\ R d' d).
Check (C16_opdoc_roundtrip_any_parser :
  forall (R : opdoc -> opdoc -> Prop) (parse : list tok -> option opdoc),
  (forall a, exists a', parse (tokens_of_opdoc a) = Some a' /\ R a' a) ->
  forall d, opdoc_lx_raw d = true ->
  exists d', match lex (just_run (print_opdoc d)) with Some ts => parse ts | None => None end = Some d' /\ R d' d).
Check (C16_tsdoc_roundtrip_any_parser_spec :
  forall (R : tsdoc -> tsdoc -> Prop) (parse : list tok -> option tsdoc),
  (forall a, exists a', parse (tokens_spec_tsdoc a) = Some a' /\ R a' a) ->
  forall d, tsdoc_lx_spec d = true ->
  exists d', match lex_spec (just_run (print_tsdoc_ext d)) with Some ts => parse ts | None => None end = Some d' /\ R d' d).
Check (C16_opdoc_roundtrip_any_parser_spec :
  forall (R : opdoc -> opdoc -> Prop) (parse : list tok -> option opdoc),
  (forall a, exists a', parse (tokens_spec_opdoc a) = Some a' /\ R a' a) ->
  forall d, opdoc_lx_spec d = true ->
  exists d', match lex_spec (just_run (print_opdoc d)) with Some ts => parse ts | None => None end = Some d' /\ R d' d).
Check (C16_server_module_lexes : forall model_plugin d,
  directives_placed model_plugin d = true ->
  tsdoc_ok (spec_server_schema model_plugin d) = true ->
  tsdoc_lx_spec (spec_server_schema model_plugin d) = true ->
  exists t, module_value (server_module model_plugin d) = Some t
            /\ lex_spec t = Some (tokens_spec_tsdoc (spec_server_schema model_plugin d))).
Check (C16_template_single_write : forall x,
  no_cr x = true -> eval_template (js_run [W x]) = Some (LF :: just_run [W x])).
Check (C16_print_string_lex_partial : forall x rest,
  plain x = true -> starts_quote rest = false ->
  exists t, lex_string (print_string x ++ rest) = Some (t, rest) /\ value_nitrogql t = x).
Check (C16_print_string_lex_spec : forall x rest,
  plain x = true -> starts_quote rest = false ->
  (is_multiline x = true -> block_normal x = true) ->
  exists t, lex_string (print_string x ++ rest) = Some (t, rest) /\ value_spec t = x).
Check (C16_strip_only_nitrogql : forall model_plugin d,
  directives_placed model_plugin d = true ->
  server_schema model_plugin d = spec_server_schema model_plugin d).
Check (C16_strip_keeps_order : forall n a m b0,
  dir_named n m = true -> has_dir n a = false -> has_dir n b0 = false ->
  drop_dirs n (a ++ m :: b0) = a ++ b0).
Check (C16_remove_builtins_idempotent : forall d, remove_builtins (remove_builtins d) = remove_builtins d).
Check (C16_reindent_preserves_spec_value : forall n l0 rest,
  forallb line_ok (l0 :: rest) = true ->
  block_string_value (join_lf (l0 :: indent_lines n rest)) = block_string_value (join_lf (l0 :: rest))).
Check (C16_write_chunk_lines : forall c0 l0 rest ind,
  fst (write_lines (fun l => l) true ((c0 :: l0) :: rest) ind false)
  = (c0 :: l0) ++ flat_map (fun l => LF :: indent_line (N.to_nat ind) l) rest).
Check (C16_print_string_quote_refuted :
  exists x, is_multiline x = false /\ reads_back x = false /\ reads_back_spec x = false).
Check (C16_print_string_backslash_refuted :
  exists x y, is_multiline x = false /\ lex_string (print_string x) = Some (TNormal y, []) /\ y <> x).
Check (C16_print_string_block_quote_refuted :
  exists x, is_multiline x = true /\ no_triple x = true /\ reads_back x = false /\ reads_back_spec x = false).
Check (C16_print_string_block_backslash_refuted :
  exists x, is_multiline x = true /\ no_triple x = true /\ lex_string (print_string x) = None).
Check (C16_print_string_block_triple_refuted :
  exists x, is_multiline x = true /\ reads_back x = false /\ reads_back_spec x = true).
Check (C16_print_string_block_spec_refuted :
  exists x, plain x = true /\ reads_back x = true /\ reads_back_spec x = false).
Check (C16_print_string_lex_full_refuted : ~ print_string_lex_full).
Check (C16_block_reindent_refuted :
  exists x, plain x = true /\
    exists t, lex_string (skipn 4 (just_run [W (s "{" ++ [LF]); Indent; W (print_string x)])) = Some (t, [])
              /\ value_nitrogql t <> x /\ value_spec t = x).
Check (C16_template_cr_refuted :
  exists ops, no_split_dollar ops = true /\
    eval_template (js_run ops) = Some (LF :: s "a" ++ [LF] ++ s "b") /\ just_run ops = s "a" ++ [CR] ++ s "b").
Check (C16_template_split_dollar_refuted :
  exists ops, no_cr_ops ops = true /\ eval_template (js_run ops) = None /\ just_run ops = s "${").
Check (C16_extend_schema_directives_only :
  just_run (print_tsdoc_ext [TSSchemaExt (mkSchemaExt pos0 [dir_a] [])])
  = s "extend schema @a" ++ [LF; LF]).
Check (C16_extend_union_refuted :
  just_run (print_tsdoc_ext [TSTypeExt (TEUnion pos0 (mkId (s "U") pos0) [dir_a] [])])
  = s "extend union U @a =" ++ [LF; LF]).
Print Assumptions C16_template_roundtrip.
Print Assumptions C16_tsdoc_template_roundtrip.
Print Assumptions C16_tsdoc_ext_template_roundtrip.
Print Assumptions C16_opdoc_template_roundtrip.
Print Assumptions C16_server_module_value.
Print Assumptions C16_print_never_glues_tsdoc.
Print Assumptions C16_print_never_glues_tsdoc_ext.
Print Assumptions C16_print_never_glues_opdoc.
Print Assumptions C16_chunks_lex.
Print Assumptions C16_written_block_literal.
Print Assumptions C16_print_tsdoc_lex.
Print Assumptions C16_print_tsdoc_ext_lex.
Print Assumptions C16_print_opdoc_lex.
Print Assumptions C16_print_tsdoc_lex_spec.
Print Assumptions C16_print_tsdoc_ext_lex_spec.
Print Assumptions C16_print_opdoc_lex_spec.
Print Assumptions C16_tsdoc_roundtrip_any_parser.
Print Assumptions C16_opdoc_roundtrip_any_parser.
Print Assumptions C16_tsdoc_roundtrip_any_parser_spec.
Print Assumptions C16_opdoc_roundtrip_any_parser_spec.
Print Assumptions C16_server_module_lexes.
Print Assumptions C16_template_single_write.
Print Assumptions C16_print_string_lex_partial.
Print Assumptions C16_print_string_lex_spec.
Print Assumptions C16_strip_only_nitrogql.
Print Assumptions C16_strip_keeps_order.
Print Assumptions C16_remove_builtins_idempotent.
Print Assumptions C16_reindent_preserves_spec_value.
Print Assumptions C16_write_chunk_lines.
Print Assumptions C16_print_string_quote_refuted.
Print Assumptions C16_print_string_backslash_refuted.
Print Assumptions C16_print_string_block_quote_refuted.
Print Assumptions C16_print_string_block_backslash_refuted.
Print Assumptions C16_print_string_block_triple_refuted.
Print Assumptions C16_print_string_block_spec_refuted.
Print Assumptions C16_print_string_lex_full_refuted.
Print Assumptions C16_block_reindent_refuted.
Print Assumptions C16_template_cr_refuted.
Print Assumptions C16_template_split_dollar_refuted.
Print Assumptions C16_extend_schema_directives_only.
Print Assumptions C16_extend_union_refuted.
