(** C16 — block strings through the writer: what JustWriter writes for the literal
    [print_string v] of a multi-line value at any indentation is again one block-string token, whose
    raw text is [rawb ind v] (the value with its continuation lines indented), and whose value
    under the specification (BlockStringValue) is that of [v]. *)
From V Require Import Base.Util Gql.Ast Writer.Wop C16.Model C16.Spec C16.SpecLex
  C16.ProofsString C16.ProofsReindent C16.ProofsGlue C16.ProofsLex1.
Local Open Scope N_scope.

(** the raw text between the delimiters, as written at indentation [ind] *)
Definition rawb (ind : N) (v : str) : str := ins ind false v ++ (if insf false v then spaces ind else []).

Definition QQQ : str := [DQ; DQ; DQ].

(** ** [ins] and concatenation *)
Lemma ins_app : forall a b0 ind flag, ins ind flag (a ++ b0) = ins ind flag a ++ ins ind (insf flag a) b0.
Proof.
  induction a as [|c r IH]; intros b0 ind flag; [reflexivity|].
  cbn [app ins insf]. destruct (c =? LF).
  - rewrite IH. reflexivity.
  - rewrite IH. rewrite <- app_assoc. reflexivity.
Qed.
Lemma insf_app : forall a b0 flag, insf flag (a ++ b0) = insf (insf flag a) b0.
Proof. induction a as [|c r IH]; intros b0 flag; [reflexivity|]. cbn [app insf]. apply IH. Qed.

Lemma ins_literal ind flag v :
  ins ind flag (QQQ ++ v ++ QQQ) = (if flag then spaces ind else []) ++ QQQ ++ rawb ind v ++ QQQ
  /\ insf flag (QQQ ++ v ++ QQQ) = false.
Proof.
  split.
  - rewrite ins_app. change (ins ind flag QQQ) with ((if flag then spaces ind else []) ++ QQQ).
    change (insf flag QQQ) with false. rewrite ins_app. unfold rawb.
    change (ins ind (insf false v) QQQ) with ((if insf false v then spaces ind else []) ++ QQQ).
    rewrite <- !app_assoc. reflexivity.
  - rewrite insf_app. change (insf flag QQQ) with false. rewrite insf_app. reflexivity.
Qed.

(** ** three quotes in a row are not created *)
Definition is32 (c : N) : bool := c =? 32.

Lemma tq_space Z : triple_quote_at (32 :: Z) = false.
Proof. destruct Z as [|b0 [|c z]]; reflexivity. Qed.
Lemma tq_lf Z : triple_quote_at (LF :: Z) = false.
Proof. destruct Z as [|b0 [|c z]]; reflexivity. Qed.
Lemma tq_other c Z : (c =? DQ) = false -> triple_quote_at (c :: Z) = false.
Proof. intro H. destruct Z as [|b0 [|d z]]; cbn [triple_quote_at]; try reflexivity. rewrite H. reflexivity. Qed.

Lemma no_triple_spaces_pre n Y : no_triple (repeat 32 n ++ Y) = no_triple Y.
Proof.
  induction n as [|n IH]; [reflexivity|]. cbn [repeat app no_triple]. rewrite tq_space. cbn [negb andb]. exact IH.
Qed.
Lemma no_triple_all_spaces S : forallb is32 S = true -> no_triple S = true.
Proof.
  induction S as [|c r IH]; [reflexivity|]. cbn [forallb]. intro H. apply andb_true_iff in H as [Hc Hr].
  apply N.eqb_eq in Hc; subst c. cbn [no_triple]. rewrite tq_space. exact (IH Hr).
Qed.

Lemma hd_all_spaces S : forallb is32 S = true -> match S with c :: _ => (c =? DQ) = false | [] => True end.
Proof. destruct S as [|c r]; [exact (fun _ => I)|]. cbn [forallb]. intro H. apply andb_true_iff in H as [Hc _]. apply N.eqb_eq in Hc; subst c. reflexivity. Qed.

(** the test at a quote: the next two characters are the same with and without indentation *)
Lemma tq_ins : forall r ind S,
  forallb is32 S = true -> triple_quote_at (DQ :: r) = false -> triple_quote_at (DQ :: ins ind false r ++ S) = false.
Proof.
  intros r ind S HS H. pose proof (hd_all_spaces S HS) as HhS.
  destruct r as [|d r'].
  - cbn [ins app]. destruct S as [|c [|c2 z]]; cbn [triple_quote_at]; try reflexivity.
    rewrite HhS. rewrite andb_false_r. reflexivity.
  - cbn [ins]. destruct (d =? LF) eqn:El.
    + cbn [app]. cbn [triple_quote_at]. destruct (ins ind true r' ++ S); [reflexivity|].
      unfold LF, DQ. cbn. reflexivity.
    + cbn [app]. destruct (d =? DQ) eqn:Ed.
      * apply N.eqb_eq in Ed; subst d.
        destruct r' as [|e r''].
        -- cbn [ins app]. destruct S as [|c z]; cbn [triple_quote_at]; [reflexivity|]. rewrite HhS. rewrite andb_false_r. reflexivity.
        -- cbn [ins]. destruct (e =? LF) eqn:El2.
           ++ cbn [app triple_quote_at]. unfold LF, DQ. reflexivity.
           ++ cbn [app triple_quote_at]. cbn [triple_quote_at] in H. exact H.
      * destruct (ins ind false r' ++ S); cbn [triple_quote_at]; [reflexivity|]. rewrite Ed. rewrite andb_false_r. reflexivity.
Qed.

Lemma no_triple_ins : forall v ind flag S,
  forallb is32 S = true -> no_triple v = true -> no_triple (ins ind flag v ++ S) = true.
Proof.
  induction v as [|c r IH]; intros ind flag S HS Hv.
  - cbn [ins app]. apply no_triple_all_spaces. exact HS.
  - cbn [no_triple] in Hv. apply andb_true_iff in Hv as [Hc Hr]. apply negb_true_iff in Hc.
    cbn [ins]. destruct (c =? LF) eqn:El.
    + cbn [app no_triple]. rewrite tq_lf. cbn [negb andb]. exact (IH ind true S HS Hr).
    + rewrite <- app_assoc.
      assert (Hmain : no_triple ((c :: ins ind false r) ++ S) = true).
      { cbn [app no_triple]. rewrite (IH ind false S HS Hr), andb_true_r. apply negb_true_iff.
        destruct (c =? DQ) eqn:Ed.
        - apply N.eqb_eq in Ed; subst c. apply tq_ins; assumption.
        - apply tq_other. exact Ed. }
      destruct flag; [|exact Hmain]. unfold spaces, SP. rewrite no_triple_spaces_pre. exact Hmain.
Qed.

(** ** the last character *)
Lemma ends_with_lastc c x : ends_with c x = match lastc x with Some d => d =? c | None => false end.
Proof.
  induction x as [|d r IH]; [reflexivity|]. destruct r as [|e r']; [reflexivity|].
  change (ends_with c (d :: e :: r')) with (ends_with c (e :: r')). change (lastc (d :: e :: r')) with (lastc (e :: r')). exact IH.
Qed.

Lemma ins_nonempty v ind flag : v <> [] -> ins ind flag v <> [].
Proof.
  destruct v as [|c r]; [contradiction|]. intros _. cbn [ins]. destruct (c =? LF); [discriminate|].
  destruct flag; [|discriminate]. destruct (spaces ind); discriminate.
Qed.

Lemma lastc_cons_ne c r : r <> [] -> lastc (c :: r) = lastc r.
Proof. destruct r; [contradiction|reflexivity]. Qed.
Lemma lastc_app_ne : forall a b0, b0 <> [] -> lastc (a ++ b0) = lastc b0.
Proof.
  induction a as [|c r IH]; intros b0 H; [reflexivity|].
  cbn [app]. rewrite lastc_cons_ne; [apply IH; exact H|]. destruct r; [exact H|discriminate].
Qed.

Lemma ins_cons c r ind flag :
  ins ind flag (c :: r) = if c =? LF then LF :: ins ind true r else (if flag then spaces ind else []) ++ c :: ins ind false r.
Proof. reflexivity. Qed.

Lemma lastc_ins : forall v ind flag, v <> [] -> lastc (ins ind flag v) = lastc v.
Proof.
  induction v as [|c r IH]; intros ind flag Hne; [contradiction|].
  destruct r as [|d r'].
  - cbn [ins]. destruct (c =? LF) eqn:E.
    + apply N.eqb_eq in E; subst c. reflexivity.
    + rewrite lastc_app_ne by discriminate. reflexivity.
  - rewrite (lastc_cons_ne c (d :: r')) by discriminate.
    rewrite (ins_cons c (d :: r')). destruct (c =? LF).
    + rewrite lastc_cons_ne by (apply ins_nonempty; discriminate). apply IH. discriminate.
    + change ((if flag then spaces ind else []) ++ c :: ins ind false (d :: r'))
        with ((if flag then spaces ind else []) ++ [c] ++ ins ind false (d :: r')).
      rewrite app_assoc. rewrite lastc_app_ne by (apply ins_nonempty; discriminate). apply IH. discriminate.
Qed.

Lemma insf_lastc : forall v flag, v <> [] -> insf flag v = match lastc v with Some c => c =? LF | None => false end.
Proof.
  induction v as [|c r IH]; intros flag Hne; [contradiction|].
  destruct r as [|d r']; [reflexivity|]. change (lastc (c :: d :: r')) with (lastc (d :: r')).
  change (insf flag (c :: d :: r')) with (insf (c =? LF) (d :: r')). apply IH. discriminate.
Qed.

(** the raw text does not end in a quote or a backslash if the value does not *)
Lemma rawb_last ind v c :
  (c =? 32) = false -> (c =? LF) = false -> ends_with c v = false -> ends_with c (rawb ind v) = false.
Proof.
  intros H32 Hlf Hv. unfold rawb. destruct v as [|x r].
  - cbn. reflexivity.
  - assert (Hne : x :: r <> []) by discriminate.
    rewrite (insf_lastc (x :: r) false Hne).
    rewrite ends_with_lastc in Hv |- *.
    destruct (lastc (x :: r)) as [l|] eqn:El.
    + destruct (l =? LF) eqn:E.
      * (* ends in a line feed: then spaces, or the line feed itself *)
        unfold spaces. destruct (N.to_nat ind) as [|n].
        -- cbn [repeat]. rewrite app_nil_r. rewrite (lastc_ins _ ind false Hne), El.
           apply N.eqb_eq in E; subst l. rewrite N.eqb_sym. exact Hlf.
        -- rewrite lastc_app_ne by discriminate.
           assert (Hl : lastc (repeat SP (S n)) = Some 32).
           { clear. induction n as [|n IH]; [reflexivity|]. change (repeat SP (S (S n))) with (SP :: repeat SP (S n)).
             change (lastc (SP :: repeat SP (S n))) with (lastc (repeat SP (S n))). exact IH. }
           rewrite Hl. rewrite N.eqb_sym. exact H32.
      * rewrite app_nil_r. rewrite (lastc_ins _ ind false Hne), El. exact Hv.
    + exfalso. clear -El. revert x El. induction r as [|d r IH]; intros x El; [discriminate El|]. exact (IH d El).
Qed.

(** ** the literal, as written, is one block-string token with raw text [rawb ind v] *)
Theorem lex_string_written_block : forall v ind k,
  plain_block v = true ->
  lex_string (QQQ ++ rawb ind v ++ QQQ ++ k) = Some (TBlock (rawb ind v), k).
Proof.
  intros v ind k Hp. unfold plain_block in Hp.
  apply andb_true_iff in Hp as [Hp Hb]. apply andb_true_iff in Hp as [Hn Hq]. apply negb_true_iff in Hb, Hq.
  assert (HS : forallb is32 (if insf false v then spaces ind else []) = true).
  { destruct (insf false v); [|reflexivity]. unfold spaces, SP. clear. induction (N.to_nat ind); [reflexivity|]. cbn. assumption. }
  assert (Hnt : no_triple (rawb ind v) = true) by (apply no_triple_ins; assumption).
  assert (Hq' : ends_with DQ (rawb ind v) = false) by (apply rawb_last; [reflexivity|reflexivity|exact Hq]).
  assert (Hb' : ends_with BS (rawb ind v) = false) by (apply rawb_last; [reflexivity|reflexivity|exact Hb]).
  unfold lex_string, QQQ. cbn [app]. change (DQ =? 34) with true. cbv iota.
  change (starts3 (DQ :: DQ :: DQ :: rawb ind v ++ DQ :: DQ :: DQ :: k)) with true. cbv iota. cbn [skipn].
  rewrite (lex_block_ok (rawb ind v) k (sfx_ok_of _ Hnt Hq') Hb'). reflexivity.
Qed.

(** ** its value under the specification is the value of [v] *)
Lemma unescape_triple_id : forall x, no_triple x = true -> unescape_triple x = x.
Proof.
  induction x as [|c r IH]; intro H; [reflexivity|].
  cbn [no_triple] in H. apply andb_true_iff in H as [_ Hr].
  cbn [unescape_triple].
  assert (E : starts3 r = false).
  { destruct r as [|d r']; [reflexivity|]. cbn [no_triple] in Hr. apply andb_true_iff in Hr as [Hd _].
    apply negb_true_iff in Hd. exact Hd. }
  rewrite E, andb_false_r. rewrite (IH Hr). reflexivity.
Qed.

Definition is_nil (l : str) : bool := match l with [] => true | _ => false end.

Lemma wl_snd_step l r ind f :
  snd (write_lines idf false (l :: r) ind f)
  = snd (write_lines idf false r ind (match l with [] => true | _ => false end)).
Proof.
  destruct l as [|c l'].
  - change (write_lines idf false ([] :: r) ind f)
      with (let '(o, g) := write_lines idf false r ind true in ([LF] ++ o, g)).
    destruct (write_lines idf false r ind true). reflexivity.
  - change (write_lines idf false ((c :: l') :: r) ind f)
      with (let '(o, g) := write_lines idf false r ind false in ([LF] ++ (if true then spaces ind else []) ++ idf (c :: l') ++ o, g)).
    destruct (write_lines idf false r ind false). reflexivity.
Qed.

Lemma snd_write_lines_rest : forall rest ind f,
  rest <> [] -> snd (write_lines idf false rest ind f) = is_nil (last rest []).
Proof.
  induction rest as [|l r IH]; intros ind f Hne; [contradiction|].
  rewrite wl_snd_step. destruct r as [|l2 r'].
  - cbn [write_lines snd last]. destruct l; reflexivity.
  - change (last (l :: l2 :: r') []) with (last (l2 :: r') []). apply IH. discriminate.
Qed.

Lemma write_lines_first : forall l0 rest ind,
  fst (write_lines idf true (l0 :: rest) ind false)
  = l0 ++ flat_map (fun l => LF :: indent_line (N.to_nat ind) l) rest
  /\ snd (write_lines idf true (l0 :: rest) ind false) = match rest with [] => false | _ => is_nil (last rest []) end.
Proof.
  intros l0 rest ind. destruct l0 as [|c0 l0'].
  - rewrite write_lines_empty_first. split.
    + exact (write_lines_rest rest ind false).
    + destruct rest as [|l r]; [reflexivity|]. apply snd_write_lines_rest. discriminate.
  - split.
    + exact (write_chunk_lines c0 l0' rest ind).
    + destruct rest as [|l r].
      * reflexivity.
      * pose proof (snd_write_lines_rest (l :: r) ind false ltac:(discriminate)) as H.
        change (write_lines idf true ((c0 :: l0') :: l :: r) ind false)
          with (let '(o, g) := write_lines idf false (l :: r) ind false in ([] ++ (if false then spaces ind else []) ++ idf (c0 :: l0') ++ o, g)).
        destruct (write_lines idf false (l :: r) ind false) as [o g]. cbn [snd] in *. exact H.
Qed.

Lemma sp_spaces ind : spaces ind = sp (N.to_nat ind).
Proof. reflexivity. Qed.

Lemma rawb_lines_aux : forall rest n l0,
  l0 ++ flat_map (fun l => LF :: indent_line n l) rest
     ++ (if match rest with [] => false | _ => is_nil (last rest []) end then sp n else [])
  = join_lf (l0 :: indent_lines n rest).
Proof.
  induction rest as [|l r IH]; intros n l0.
  - cbn. rewrite app_nil_r. reflexivity.
  - destruct r as [|l2 r'].
    + cbn [flat_map last indent_lines join_lf app]. destruct l as [|c l'].
      * cbn [indent_line is_nil app]. rewrite !app_nil_r. reflexivity.
      * cbn [indent_line is_nil]. rewrite !app_nil_r. reflexivity.
    + change (indent_lines n (l :: l2 :: r')) with (indent_line n l :: indent_lines n (l2 :: r')).
      change (join_lf (l0 :: indent_line n l :: indent_lines n (l2 :: r')))
        with (l0 ++ 10 :: join_lf (indent_line n l :: indent_lines n (l2 :: r'))).
      change (last (l :: l2 :: r') []) with (last (l2 :: r') []).
      cbn [flat_map]. rewrite <- !app_assoc. f_equal. cbn [app]. f_equal.
      pose proof (IH n (indent_line n l)) as E. cbn [flat_map] in E. rewrite <- !app_assoc in E. cbn [app] in E. exact E.
Qed.

Lemma rawb_lines ind v l0 rest :
  split_lf v = l0 :: rest -> rawb ind v = join_lf (l0 :: indent_lines (N.to_nat ind) rest).
Proof.
  intro Hs. unfold rawb.
  pose proof (write_chunk_chars v ind false) as Hw. unfold write_chunk in Hw. rewrite Hs in Hw.
  destruct (write_lines_first l0 rest ind) as [H1 H2].
  assert (E1 : ins ind false v = fst (write_lines idf true (l0 :: rest) ind false)) by (rewrite Hw; reflexivity).
  assert (E2 : insf false v = snd (write_lines idf true (l0 :: rest) ind false)) by (rewrite Hw; reflexivity).
  rewrite E1, E2, H1, H2, sp_spaces. rewrite <- app_assoc. apply rawb_lines_aux.
Qed.

Lemma join_split_lf : forall v, join_lf (split_lf v) = v.
Proof.
  induction v as [|c r IH]; [reflexivity|]. cbn [split_lf]. destruct (c =? LF) eqn:E.
  - apply N.eqb_eq in E; subst c. destruct (split_lf_cons_shape r) as [l [ls El]]. rewrite El in *.
    change (join_lf ([] :: l :: ls)) with ([] ++ 10 :: join_lf (l :: ls)). rewrite IH. reflexivity.
  - destruct (split_lf_cons_shape r) as [l [ls El]]. rewrite El in *.
    destruct ls as [|l2 ls'].
    + cbn [join_lf] in *. rewrite IH. reflexivity.
    + change (join_lf ((c :: l) :: l2 :: ls')) with ((c :: l) ++ 10 :: join_lf (l2 :: ls')).
      change (join_lf (l :: l2 :: ls')) with (l ++ 10 :: join_lf (l2 :: ls')) in IH.
      cbn [app]. rewrite IH. reflexivity.
Qed.

Lemma split_lf_line_ok : forall v, no_cr v = true -> forallb line_ok (split_lf v) = true.
Proof.
  induction v as [|c r IH]; intro H; [reflexivity|].
  unfold no_cr in H. cbn [forallb] in H. apply andb_true_iff in H as [Hc Hr]. fold (no_cr r) in Hr.
  specialize (IH Hr). cbn [split_lf]. destruct (c =? LF) eqn:E.
  - cbn [forallb]. exact IH.
  - destruct (split_lf_cons_shape r) as [l [ls El]]. rewrite El in *.
    cbn [forallb] in IH |- *. apply andb_true_iff in IH as [Hl Hls]. rewrite Hls, andb_true_r.
    unfold line_ok in *. cbn [forallb]. rewrite Hl, andb_true_r. unfold LF, CR in *. rewrite E, Hc. reflexivity.
Qed.

Theorem rawb_spec_value : forall v ind,
  no_triple v = true -> no_cr v = true ->
  value_spec (TBlock (rawb ind v)) = block_string_value v.
Proof.
  intros v ind Hn Hc. cbn [value_spec].
  assert (HS : forallb is32 (if insf false v then spaces ind else []) = true).
  { destruct (insf false v); [|reflexivity]. unfold spaces, SP. clear. induction (N.to_nat ind); [reflexivity|]. cbn. assumption. }
  rewrite (unescape_triple_id (rawb ind v)) by (apply no_triple_ins; assumption).
  destruct (split_lf_cons_shape v) as [l0 [rest Hs]].
  rewrite (rawb_lines ind v l0 rest Hs).
  pose proof (split_lf_line_ok v Hc) as Hl. rewrite Hs in Hl.
  rewrite (reindent_preserves_spec_value (N.to_nat ind) l0 rest Hl).
  rewrite <- Hs, join_split_lf. reflexivity.
Qed.
