(** C16 — [remove_builtins] and the model plugin's runtime transform remove exactly the nitrogql-only
    directives, wherever the schema check and the plugin's check allow those directives to stand. *)
From V Require Import Base.Util Gql.Ast Writer.Wop C16.Model C16.Spec.
Local Open Scope N_scope.

(** ** where a directive is applied *)
Definition has_dir (n : str) (ds : list directive) : bool := existsb (dir_named n) ds.
Definition inputval_uses (n : str) (i : inputvaldef) : bool := has_dir n (iv_dirs i).
Definition args_use (n : str) (a : option (list inputvaldef)) : bool :=
  match a with Some l => existsb (inputval_uses n) l | None => false end.
Definition fielddef_uses (n : str) (f : fielddef) : bool := has_dir n (fd_dirs f) || args_use n (fd_args f).
Definition enumval_uses (n : str) (e : enumvaldef) : bool := has_dir n (ev_dirs e).
Definition typedef_uses (n : str) (t : typedef) : bool :=
  match t with
  | TDScalar _ _ _ ds _ => has_dir n ds
  | TDObject _ _ _ _ ds fs _ | TDInterface _ _ _ _ ds fs _ => has_dir n ds || existsb (fielddef_uses n) fs
  | TDUnion _ _ _ ds _ _ => has_dir n ds
  | TDEnum _ _ _ ds vs _ => has_dir n ds || existsb (enumval_uses n) vs
  | TDInput _ _ _ ds fs _ => has_dir n ds || existsb (inputval_uses n) fs
  end.

(** [@nitrogql_ts_type] (declared [on SCALAR]) is applied to scalar type definitions only, and the
    document is a resolved one (no extension nodes) *)
Definition ts_type_placed (x : tsdef) : bool :=
  match x with
  | TSType (TDScalar _ _ _ _ _) => true
  | TSType t => negb (typedef_uses ts_type_name t)
  | TSSchema sd => negb (has_dir ts_type_name (sd_dirs sd))
  | TSDirective dd => negb (args_use ts_type_name (dd_args dd))
  | TSSchemaExt _ | TSTypeExt _ => false
  end.

(** [@model] (declared [on OBJECT | FIELD_DEFINITION]; the plugin's check rejects it on interface
    fields) is applied to object types and to their fields only *)
Definition model_placed (x : tsdef) : bool :=
  match x with
  | TSType (TDObject _ _ _ _ _ fs _) => forallb (fun f => negb (args_use model_name (fd_args f))) fs
  | TSType t => negb (typedef_uses model_name t)
  | TSSchema sd => negb (has_dir model_name (sd_dirs sd))
  | TSDirective dd => negb (args_use model_name (dd_args dd))
  | TSSchemaExt _ | TSTypeExt _ => false
  end.

(** the guard of the theorem, computable *)
Definition directives_placed (model_plugin : bool) (d : tsdoc) : bool :=
  forallb ts_type_placed d
  && (if model_plugin then forallb model_placed (remove_builtins d) else true).

(** ** erasing a directive that is not there changes nothing *)
Lemma drop_dirs_erase n ds : drop_dirs n ds = erase_dirs n ds.
Proof. reflexivity. Qed.

Lemma erase_dirs_id n ds : has_dir n ds = false -> erase_dirs n ds = ds.
Proof.
  unfold has_dir, erase_dirs. induction ds as [|d r IH]; intro H; [reflexivity|].
  cbn [existsb] in H. apply orb_false_iff in H as [Hd Hr].
  cbn [filter]. unfold not_named at 1. unfold dir_named in Hd. rewrite Hd. cbn [negb].
  rewrite (IH Hr). reflexivity.
Qed.

Lemma erase_inputval_id n i : inputval_uses n i = false -> erase_inputval n i = i.
Proof.
  unfold inputval_uses, erase_inputval. intro H. rewrite (erase_dirs_id _ _ H). destruct i; reflexivity.
Qed.

Lemma map_id_on {A} (f : A -> A) (u : A -> bool) (l : list A) :
  (forall a, u a = false -> f a = a) -> existsb u l = false -> map f l = l.
Proof.
  intros Hf. induction l as [|a r IH]; intro H; [reflexivity|].
  cbn [existsb] in H. apply orb_false_iff in H as [Ha Hr].
  cbn [map]. rewrite (Hf a Ha), (IH Hr). reflexivity.
Qed.

Lemma erase_args_id n a : args_use n a = false -> option_map (map (erase_inputval n)) a = a.
Proof.
  destruct a as [l|]; [|reflexivity]. cbn [args_use option_map]. intro H.
  rewrite (map_id_on _ _ l (erase_inputval_id n) H). reflexivity.
Qed.

Lemma erase_fielddef_id n f : fielddef_uses n f = false -> erase_fielddef n f = f.
Proof.
  unfold fielddef_uses, erase_fielddef. intro H. apply orb_false_iff in H as [H1 H2].
  rewrite (erase_dirs_id _ _ H1), (erase_args_id _ _ H2). destruct f; reflexivity.
Qed.

Lemma erase_enumval_id n e : enumval_uses n e = false -> erase_enumval n e = e.
Proof.
  unfold enumval_uses, erase_enumval. intro H. rewrite (erase_dirs_id _ _ H). destruct e; reflexivity.
Qed.

Lemma erase_typedef_id n t : typedef_uses n t = false -> erase_typedef n t = t.
Proof.
  destruct t; cbn [typedef_uses erase_typedef]; intro H;
    try (apply orb_false_iff in H as [H1 H2]); try rewrite (erase_dirs_id _ _ H); try rewrite (erase_dirs_id _ _ H1).
  - reflexivity.
  - rewrite (map_id_on _ _ _ (erase_fielddef_id n) H2). reflexivity.
  - rewrite (map_id_on _ _ _ (erase_fielddef_id n) H2). reflexivity.
  - reflexivity.
  - rewrite (map_id_on _ _ _ (erase_enumval_id n) H2). reflexivity.
  - rewrite (map_id_on _ _ _ (erase_inputval_id n) H2). reflexivity.
Qed.

(** ** remove_builtins *)
Lemma remove_builtins_def_spec x :
  ts_type_placed x = true -> remove_builtins_def x = erase_tsdef ts_type_name x.
Proof.
  destruct x as [sd|t|dd|se|te]; cbn [ts_type_placed]; intro H; try discriminate.
  - apply negb_true_iff in H. cbn [remove_builtins_def erase_tsdef].
    rewrite (erase_dirs_id _ _ H). destruct sd; reflexivity.
  - destruct t; try (apply negb_true_iff in H; cbn [remove_builtins_def erase_tsdef];
                     rewrite (erase_typedef_id _ _ H); reflexivity).
    reflexivity.
  - apply negb_true_iff in H. cbn [remove_builtins_def erase_tsdef].
    destruct (str_eqb (iname (dd_name dd)) ts_type_name); [reflexivity|].
    rewrite (erase_args_id _ _ H). destruct dd; reflexivity.
Qed.

Lemma flat_map_ext_on {A B} (f g : A -> list B) (p : A -> bool) (l : list A) :
  (forall a, p a = true -> f a = g a) -> forallb p l = true -> flat_map f l = flat_map g l.
Proof.
  intro Hfg. induction l as [|a r IH]; intro H; [reflexivity|].
  cbn [forallb] in H. apply andb_true_iff in H as [Ha Hr].
  cbn [flat_map]. rewrite (Hfg a Ha), (IH Hr). reflexivity.
Qed.

Theorem remove_builtins_spec d :
  forallb ts_type_placed d = true -> remove_builtins d = erase_directive ts_type_name d.
Proof. apply flat_map_ext_on. exact remove_builtins_def_spec. Qed.

(** ** the model plugin *)
Lemma strip_model_field_spec f :
  args_use model_name (fd_args f) = false -> strip_model_field f = erase_fielddef model_name f.
Proof.
  intro H. unfold strip_model_field, erase_fielddef. rewrite (erase_args_id _ _ H). reflexivity.
Qed.

Lemma map_ext_on {A B} (f g : A -> B) (p : A -> bool) (l : list A) :
  (forall a, p a = true -> f a = g a) -> forallb p l = true -> map f l = map g l.
Proof.
  intro Hfg. induction l as [|a r IH]; intro H; [reflexivity|].
  cbn [forallb] in H. apply andb_true_iff in H as [Ha Hr].
  cbn [map]. rewrite (Hfg a Ha), (IH Hr). reflexivity.
Qed.

Lemma strip_model_def_spec x :
  model_placed x = true -> strip_model_def x = erase_tsdef model_name x.
Proof.
  destruct x as [sd|t|dd|se|te]; cbn [model_placed]; intro H; try discriminate.
  - apply negb_true_iff in H. cbn [strip_model_def erase_tsdef].
    rewrite (erase_dirs_id _ _ H). destruct sd; reflexivity.
  - destruct t; try (apply negb_true_iff in H; cbn [strip_model_def erase_tsdef];
                     rewrite (erase_typedef_id _ _ H); reflexivity).
    cbn [strip_model_def erase_tsdef erase_typedef].
    rewrite (map_ext_on strip_model_field (erase_fielddef model_name)
               (fun f => negb (args_use model_name (fd_args f))) fields); [reflexivity| |exact H].
    intros f Hf. apply negb_true_iff in Hf. apply strip_model_field_spec. exact Hf.
  - apply negb_true_iff in H. cbn [strip_model_def erase_tsdef].
    destruct (str_eqb (iname (dd_name dd)) model_name); [reflexivity|].
    rewrite (erase_args_id _ _ H). destruct dd; reflexivity.
Qed.

Theorem strip_model_spec d :
  forallb model_placed d = true -> strip_model d = erase_directive model_name d.
Proof. apply flat_map_ext_on. exact strip_model_def_spec. Qed.

(** ** the schema written to serverGraphqlOutput *)
Theorem strip_only_nitrogql : forall model_plugin d,
  directives_placed model_plugin d = true ->
  server_schema model_plugin d = spec_server_schema model_plugin d.
Proof.
  intros mp d H. unfold directives_placed in H. apply andb_true_iff in H as [H1 H2].
  unfold server_schema, spec_server_schema.
  change (s "nitrogql_ts_type") with ts_type_name. change (s "model") with model_name.
  rewrite <- (remove_builtins_spec d H1).
  destruct mp; [|reflexivity]. apply strip_model_spec. exact H2.
Qed.

(** [remove_builtins] twice is [remove_builtins] once *)
Lemma drop_dirs_idem n ds : drop_dirs n (drop_dirs n ds) = drop_dirs n ds.
Proof.
  unfold drop_dirs. induction ds as [|d r IH]; [reflexivity|].
  cbn [filter]. destruct (negb (dir_named n d)) eqn:E; [|exact IH].
  cbn [filter]. rewrite E, IH. reflexivity.
Qed.

Theorem remove_builtins_idempotent d : remove_builtins (remove_builtins d) = remove_builtins d.
Proof.
  unfold remove_builtins. induction d as [|x r IH]; [reflexivity|].
  cbn [flat_map]. rewrite flat_map_app. rewrite IH. f_equal.
  destruct x as [sd|t|dd|se|te]; try reflexivity.
  - destruct t; try reflexivity.
    cbn [remove_builtins_def flat_map app]. rewrite drop_dirs_idem. reflexivity.
  - cbn [remove_builtins_def]. destruct (str_eqb (iname (dd_name dd)) ts_type_name) eqn:E; [reflexivity|].
    cbn [flat_map remove_builtins_def app]. rewrite E. reflexivity.
Qed.

(** ** order: removing the one application of [@n] from a directive list, wherever it stands, leaves
    the other applications exactly as they were, in their order (the model of the plugin and of
    [remove_builtins] is a [filter]; an implementation that moved another application into the hole
    would not agree with it) *)
Lemma drop_dirs_app n a b0 : drop_dirs n (a ++ b0) = drop_dirs n a ++ drop_dirs n b0.
Proof. unfold drop_dirs. apply filter_app. Qed.

Theorem strip_keeps_order : forall n a m b0,
  dir_named n m = true -> has_dir n a = false -> has_dir n b0 = false ->
  drop_dirs n (a ++ m :: b0) = a ++ b0.
Proof.
  intros n a m b0 Hm Ha Hb.
  assert (Ea : drop_dirs n a = a) by (exact (erase_dirs_id n a Ha)).
  assert (Eb : drop_dirs n b0 = b0) by (exact (erase_dirs_id n b0 Hb)).
  rewrite drop_dirs_app, Ea. f_equal.
  unfold drop_dirs in *. cbn [filter]. rewrite Hm. cbn [negb]. exact Eb.
Qed.
