(** C16 — token level: the guard of the document theorem.  Every name, number and enum value is a
    non-empty run of word characters ([word_atom]: true of every GraphQL Name and number lexeme);
    every string value is either printed on one line and [plain_line] ([line_lit]) or a multi-line
    value accepted by [blk] (a parameter: none under nitrogql's raw reading, [block_lit] under the
    specification's); no #import lines
    (comments to a GraphQL lexer); a union *extension* has members and a schema *definition* has
    root operations (the printer writes a dangling equals sign / an empty brace pair otherwise).
    Same shape as the [_ok] family of Model.v.  Definitions only. *)
From V Require Import Base.Util Gql.Ast Writer.Wop C16.Model C16.Spec C16.SpecLex.
Local Open Scope N_scope.

Definition word_atom (x : str) : bool := match x with [] => false | _ => forallb wordc x end.
Definition line_lit (x : str) : bool := negb (is_multiline x) && plain_line x.

(** multi-line values whose block string reads back under the specification: no three quotes in a row,
    not ending in a quote or a backslash, no carriage return *)
Definition block_lit (x : str) : bool := is_multiline x && plain_block x && no_cr x.

Section Guard.
Variable blk : str -> bool.
Definition str_lit (x : str) : bool := line_lit x || blk x.

Definition id_lx (i : ident) : bool := word_atom (iname i).

Fixpoint ty_lx (t : ty) : bool :=
  match t with TNamed n => id_lx n | TNonNull t' => ty_lx t' | TList _ t' => ty_lx t' end.

Fixpoint value_lx (v : value) : bool :=
  match v with
  | VVar n _ => word_atom n
  | VInt _ l => word_atom l
  | VFloat _ l => word_atom l
  | VString _ x => str_lit x
  | VBool _ _ => true
  | VNull _ => true
  | VEnum _ x => word_atom x
  | VList _ vs => forallb value_lx vs
  | VObject _ fs => forallb (fun kv => id_lx (fst kv) && value_lx (snd kv)) fs
  end.

Definition arg_lx (kv : ident * value) : bool := id_lx (fst kv) && value_lx (snd kv).
Definition args_lx (a : arguments) : bool := forallb arg_lx (args_list a).
Definition oargs_lx (a : option arguments) : bool := match a with Some x => args_lx x | None => true end.
Definition dir_lx (d : directive) : bool := id_lx (dir_name d) && oargs_lx (dir_args d).
Definition dirs_lx (ds : list directive) : bool := forallb dir_lx ds.
Definition oid_lx (i : option ident) : bool := match i with Some x => id_lx x | None => true end.

Fixpoint sel_lx (x : selection) : bool :=
  match x with
  | SField al n args ds sel =>
      oid_lx al && id_lx n && oargs_lx args && dirs_lx ds
      && match sel with Some ss => selset_lx ss | None => true end
  | SSpread _ n ds => id_lx n && dirs_lx ds
  | SInline _ c ds ss => oid_lx c && dirs_lx ds && selset_lx ss
  end
with selset_lx (ss : selset) : bool :=
  match ss with SelSet _ l => forallb sel_lx l end.

Definition ovalue_lx (v : option value) : bool := match v with Some x => value_lx x | None => true end.
Definition vardef_lx (v : vardef) : bool :=
  word_atom (vd_name v) && ty_lx (vd_type v) && ovalue_lx (vd_default v) && dirs_lx (vd_dirs v).
Definition opdef_lx (o : opdef) : bool :=
  oid_lx (op_name o) && match op_vars o with Some vs => forallb vardef_lx (vds_list vs) | None => true end
  && dirs_lx (op_dirs o) && selset_lx (op_sel o).
Definition fragdef_lx (f : fragdef) : bool :=
  id_lx (fr_name f) && id_lx (fr_cond f) && dirs_lx (fr_dirs f) && selset_lx (fr_sel f).
Definition importdef_lx (i : importdef) : bool :=
  forallb (fun t => match t with ImpWildcard => true | ImpName n => id_lx n end) (im_targets i)
  && str_lit (im_path i).
Definition execdef_lx (d : execdef) : bool :=
  match d with DOp o => opdef_lx o | DFrag f => fragdef_lx f | DImport i => false end.
Definition opdoc_lx (d : opdoc) : bool := forallb execdef_lx (od_defs d).

Definition desc_lx (d : option desc) : bool := match d with Some x => str_lit (desc_value x) | None => true end.
Definition inputval_lx (i : inputvaldef) : bool :=
  desc_lx (iv_desc i) && id_lx (iv_name i) && ty_lx (iv_type i) && ovalue_lx (iv_default i) && dirs_lx (iv_dirs i).
Definition oargsdef_lx (a : option (list inputvaldef)) : bool :=
  match a with Some l => forallb inputval_lx l | None => true end.
Definition fielddef_lx (f : fielddef) : bool :=
  desc_lx (fd_desc f) && id_lx (fd_name f) && oargsdef_lx (fd_args f) && ty_lx (fd_type f) && dirs_lx (fd_dirs f).
Definition enumval_lx (e : enumvaldef) : bool := desc_lx (ev_desc e) && id_lx (ev_name e) && dirs_lx (ev_dirs e).
Definition ids_lx (l : list ident) : bool := forallb id_lx l.
Definition typedef_lx (t : typedef) : bool :=
  match t with
  | TDScalar d _ n ds _ => desc_lx d && id_lx n && dirs_lx ds
  | TDObject d _ n im ds fs _ | TDInterface d _ n im ds fs _ =>
      desc_lx d && id_lx n && ids_lx im && dirs_lx ds && forallb fielddef_lx fs
  | TDUnion d _ n ds ms _ => desc_lx d && id_lx n && dirs_lx ds && ids_lx ms
  | TDEnum d _ n ds vs _ => desc_lx d && id_lx n && dirs_lx ds && forallb enumval_lx vs
  | TDInput d _ n ds fs _ => desc_lx d && id_lx n && dirs_lx ds && forallb inputval_lx fs
  end.
Definition typeext_lx (t : typeext) : bool :=
  match t with
  | TEScalar _ n ds => id_lx n && dirs_lx ds
  | TEObject _ n im ds fs | TEInterface _ n im ds fs => id_lx n && ids_lx im && dirs_lx ds && forallb fielddef_lx fs
  | TEUnion _ n ds ms => id_lx n && dirs_lx ds && ids_lx ms && match ms with [] => false | _ => true end
  | TEEnum _ n ds vs => id_lx n && dirs_lx ds && forallb enumval_lx vs
  | TEInput _ n ds fs => id_lx n && dirs_lx ds && forallb inputval_lx fs
  end.
Definition rootops_lx (l : list (optype * ident)) : bool := forallb (fun kv => id_lx (snd kv)) l.
Definition tsdef_lx (x : tsdef) : bool :=
  match x with
  | TSSchema d => desc_lx (sd_desc d) && dirs_lx (sd_dirs d) && rootops_lx (sd_ops d) && match sd_ops d with [] => false | _ => true end
  | TSType t => typedef_lx t
  | TSDirective d =>
      desc_lx (dd_desc d) && id_lx (dd_name d) && oargsdef_lx (dd_args d) && oid_lx (dd_repeatable d)
      && ids_lx (dd_locs d)
  | TSSchemaExt e => dirs_lx (se_dirs e) && rootops_lx (se_ops e)
  | TSTypeExt t => typeext_lx t
  end.
Definition tsdoc_lx (d : tsdoc) : bool := forallb tsdef_lx d.

End Guard.

(** the two instances *)
Definition no_blk (x : str) : bool := false.
Definition tsdoc_lx_raw : tsdoc -> bool := tsdoc_lx no_blk.
Definition opdoc_lx_raw : opdoc -> bool := opdoc_lx no_blk.
Definition tsdoc_lx_spec : tsdoc -> bool := tsdoc_lx block_lit.
Definition opdoc_lx_spec : opdoc -> bool := opdoc_lx block_lit.
