(** C16 — specification side, written from the external specifications and not from nitrogql's code:

    * ECMAScript 2023, 12.9.6 Template Literal Lexical Components: the cooked value (TV) of a
      NoSubstitutionTemplate  ([eval_template]);
    * GraphQL specification (September 2025 edition, which has the variable-width escape; the
      October 2021 edition lacks it), 2.9.4 String Value: lexing one StringValue token and its
      semantic value, including BlockStringValue()  ([lex_string], [block_string_value]).

    Definitions only. *)
From V Require Import Base.Util Gql.Ast.
Local Open Scope N_scope.

Definition omap {A B} (f : A -> B) (o : option A) : option B :=
  match o with Some a => Some (f a) | None => None end.

(** hexadecimal digit value *)
Definition hexval (c : N) : option N :=
  if (48 <=? c) && (c <=? 57) then Some (c - 48)
  else if (97 <=? c) && (c <=? 102) then Some (c - 87)
  else if (65 <=? c) && (c <=? 70) then Some (c - 55)
  else None.

(** a Unicode scalar value: in range and not a surrogate (a lone surrogate is not a value; in
    GraphQL strings a pair of escaped surrogates stands for one code point, see [lex_normal];
    in template literals surrogate escapes are outside this model: [None]) *)
Definition scalar_ok (n : N) : bool := (n <? 55296) || ((57343 <? n) && (n <=? 1114111)).

Definition hex4 (a b c d : N) : option N :=
  match hexval a, hexval b, hexval c, hexval d with
  | Some x, Some y, Some z, Some w => Some (((x * 16 + y) * 16 + z) * 16 + w)
  | _, _, _, _ => None
  end.

(** ** ECMAScript template literal: cooked value of [`…`] without substitutions *)

Definition is_js_line_terminator (c : N) : bool := (c =? 10) || (c =? 13) || (c =? 8232) || (c =? 8233).
Definition is_digit (c : N) : bool := (48 <=? c) && (c <=? 57).

(** [cook x]: [x] is the text after the opening backtick; [Some v] iff [x] is TemplateCharacters
    followed by the closing backtick and nothing else, [v] its TV.  A substitution, an
    invalid escape (a SyntaxError in an untagged template) or a missing closing backtick give
    [None].  [cook_ub acc n x] reads the digits of a code-point escape. *)
Fixpoint cook (x : str) : option str :=
  match x with
  | [] => None
  | c :: r =>
      if c =? 96 then match r with [] => Some [] | _ => None end
      else if c =? 36 then
        match r with
        | c2 :: _ => if c2 =? 123 then None else omap (cons 36) (cook r)
        | [] => None
        end
      else if c =? 13 then                                  (* <CR><LF> and <CR> contribute <LF> *)
        match r with
        | c2 :: r2 => if c2 =? 10 then omap (cons 10) (cook r2) else omap (cons 10) (cook r)
        | [] => None
        end
      else if c =? 92 then
        match r with
        | [] => None
        | e :: r2 =>
            if e =? 110 then omap (cons 10) (cook r2)            (* \n *)
            else if e =? 114 then omap (cons 13) (cook r2)       (* \r *)
            else if e =? 116 then omap (cons 9) (cook r2)        (* \t *)
            else if e =? 98 then omap (cons 8) (cook r2)         (* \b *)
            else if e =? 102 then omap (cons 12) (cook r2)       (* \f *)
            else if e =? 118 then omap (cons 11) (cook r2)       (* \v *)
            else if e =? 48 then                                  (* \0 not followed by a digit *)
              match r2 with
              | d :: _ => if is_digit d then None else omap (cons 0) (cook r2)
              | [] => None
              end
            else if is_digit e then None                          (* \1..\9: not allowed in templates *)
            else if e =? 120 then                                 (* \xHH *)
              match r2 with
              | a :: b :: r4 =>
                  match hexval a, hexval b with
                  | Some x1, Some x2 => omap (cons (x1 * 16 + x2)) (cook r4)
                  | _, _ => None
                  end
              | _ => None
              end
            else if e =? 117 then                                 (* \uHHHH, \u{H+} *)
              match r2 with
              | a :: r3 =>
                  if a =? 123 then cook_ub 0 0 r3
                  else match r3 with
                       | b :: c3 :: d :: r6 =>
                           match hex4 a b c3 d with
                           | Some v => if scalar_ok v then omap (cons v) (cook r6) else None
                           | None => None
                           end
                       | _ => None
                       end
              | [] => None
              end
            else if e =? 13 then                                  (* line continuation *)
              match r2 with
              | c2 :: r3 => if c2 =? 10 then cook r3 else cook r2
              | [] => None
              end
            else if is_js_line_terminator e then cook r2
            else omap (cons e) (cook r2)                          (* quotes, backslash, backtick, dollar, brace and every other NonEscapeCharacter *)
        end
      else omap (cons c) (cook r)
  end
with cook_ub (acc : N) (ndig : N) (x : str) : option str :=
  match x with
  | [] => None
  | c :: r =>
      if c =? 125 then
        if (0 <? ndig) && scalar_ok acc then omap (cons acc) (cook r) else None
      else match hexval c with
           | Some v => if acc * 16 + v <=? 1114111 then cook_ub (acc * 16 + v) (ndig + 1) r else None
           | None => None
           end
  end.

(** the evaluated value of a template literal given as source text, backticks included *)
Definition eval_template (x : str) : option str :=
  match x with
  | c :: r => if c =? 96 then cook r else None
  | [] => None
  end.

(** ** GraphQL StringValue *)

Definition is_gql_line_terminator (c : N) : bool := (c =? 10) || (c =? 13).

(** after the opening quote of a single-line string: value and the text after the closing quote *)
Fixpoint lex_normal (x : str) : option (str * str) :=
  match x with
  | [] => None
  | c :: r =>
      if c =? 34 then Some ([], r)
      else if is_gql_line_terminator c then None
      else if c =? 92 then
        match r with
        | [] => None
        | e :: r2 =>
            let k v := omap (fun p => (v :: fst p, snd p)) (lex_normal r2) in
            if e =? 34 then k 34 else if e =? 92 then k 92 else if e =? 47 then k 47
            else if e =? 98 then k 8 else if e =? 102 then k 12 else if e =? 110 then k 10
            else if e =? 114 then k 13 else if e =? 116 then k 9
            else if e =? 117 then
              match r2 with
              | a :: r3 =>
                  if a =? 123 then lex_ub 0 0 r3
                  else match r3 with
                       | b :: c3 :: d :: r6 =>
                           match hex4 a b c3 d with
                           | Some v =>
                               if scalar_ok v
                               then omap (fun p => (v :: fst p, snd p)) (lex_normal r6)
                               else if (55296 <=? v) && (v <=? 56319) then
                                 (* a leading surrogate must be followed by an escaped trailing surrogate:
                                    the pair stands for one supplementary code point (2.9.4) *)
                                 match r6 with
                                 | b1 :: u1 :: a2 :: b2 :: c2 :: d2 :: r12 =>
                                     if (b1 =? 92) && (u1 =? 117) then
                                       match hex4 a2 b2 c2 d2 with
                                       | Some lo =>
                                           if (56320 <=? lo) && (lo <=? 57343)
                                           then omap (fun p => (65536 + (v - 55296) * 1024 + (lo - 56320) :: fst p, snd p))
                                                     (lex_normal r12)
                                           else None
                                       | None => None
                                       end
                                     else None
                                 | _ => None
                                 end
                               else None
                           | None => None
                           end
                       | _ => None
                       end
              | [] => None
              end
            else None
        end
      else omap (fun p => (c :: fst p, snd p)) (lex_normal r)
  end
with lex_ub (acc : N) (ndig : N) (x : str) : option (str * str) :=
  match x with
  | [] => None
  | c :: r =>
      if c =? 125 then
        if (0 <? ndig) && scalar_ok acc then omap (fun p => (acc :: fst p, snd p)) (lex_normal r) else None
      else match hexval c with
           | Some v => if acc * 16 + v <=? 1114111 then lex_ub (acc * 16 + v) (ndig + 1) r else None
           | None => None
           end
  end.

Definition starts3 (x : str) : bool :=
  match x with a :: b :: c :: _ => (a =? 34) && (b =? 34) && (c =? 34) | _ => false end.

(** after the opening three quotes of a block string: the raw source characters up to the
    closing three quotes (an escaped triple quote stays as the four characters it is
    written with), and the text after the closing quotes *)
Fixpoint lex_block (x : str) : option (str * str) :=
  match x with
  | [] => None
  | c :: r =>
      if starts3 x then Some ([], skipn 3 x)
      else if (c =? 92) && starts3 r then
        match r with
        | _ :: _ :: _ :: r4 => omap (fun p => (92 :: 34 :: 34 :: 34 :: fst p, snd p)) (lex_block r4)
        | _ => None
        end
      else omap (fun p => (c :: fst p, snd p)) (lex_block r)
  end.

Inductive strtok :=
| TNormal (v : str)          (* value of a single-line string, escapes decoded *)
| TBlock (raw : str).        (* source characters between the delimiters of a block string *)

(** one StringValue token at the start of [x] *)
Definition lex_string (x : str) : option (strtok * str) :=
  match x with
  | q :: r =>
      if q =? 34 then
        if starts3 x then omap (fun p => (TBlock (fst p), snd p)) (lex_block (skipn 3 x))
        else omap (fun p => (TNormal (fst p), snd p)) (lex_normal r)
      else None
  | [] => None
  end.

(** *** BlockStringValue(rawValue), GraphQL 2.9.4 *)

(** lines of a block string: split at LF, CR LF, CR *)
Fixpoint gql_lines (x : str) : list str :=
  match x with
  | [] => [[]]
  | c :: r =>
      if c =? 10 then [] :: gql_lines r
      else if c =? 13 then
        match r with
        | c2 :: r2 => if c2 =? 10 then [] :: gql_lines r2 else [] :: gql_lines r
        | [] => [[]; []]
        end
      else match gql_lines r with l :: ls => (c :: l) :: ls | [] => [[c]] end
  end.

Definition is_ws (c : N) : bool := (c =? 32) || (c =? 9).
Fixpoint leading_ws (l : str) : nat :=
  match l with c :: r => if is_ws c then S (leading_ws r) else O | [] => O end.
Definition blank (l : str) : bool := forallb is_ws l.

(** minimum indentation over the lines that contain something else than white space *)
Fixpoint common_indent (ls : list str) : option nat :=
  match ls with
  | [] => None
  | l :: r =>
      if blank l then common_indent r
      else match common_indent r with
           | Some m => Some (Nat.min (leading_ws l) m)
           | None => Some (leading_ws l)
           end
  end.

Fixpoint drop_blank_front (ls : list str) : list str :=
  match ls with l :: r => if blank l then drop_blank_front r else ls | [] => [] end.
Definition drop_blank_back (ls : list str) : list str := rev (drop_blank_front (rev ls)).

Fixpoint join_lf (ls : list str) : str :=
  match ls with
  | [] => []
  | [l] => l
  | l :: r => l ++ 10 :: join_lf r
  end.

Definition block_string_value (raw : str) : str :=
  let ls := gql_lines raw in
  let ls1 :=
    match ls with
    | [] => []
    | first :: rest =>
        match common_indent rest with
        | Some n => first :: map (skipn n) rest
        | None => ls
        end
    end in
  join_lf (drop_blank_back (drop_blank_front ls1)).

(** an escaped triple quote in a block string stands for three quotes *)
Fixpoint unescape_triple (x : str) : str :=
  match x with
  | [] => []
  | c :: r =>
      if (c =? 92) && starts3 r then
        match r with _ :: _ :: _ :: r4 => 34 :: 34 :: 34 :: unescape_triple r4 | _ => c :: unescape_triple r end
      else c :: unescape_triple r
  end.

(** the value a GraphQL implementation gives the token *)
Definition value_spec (t : strtok) : str :=
  match t with TNormal v => v | TBlock raw => block_string_value (unescape_triple raw) end.

(** the value nitrogql's own parser gives it (crates/parser/src/parser/builder/value.rs:
    the characters between the delimiters, unprocessed) *)
Definition value_nitrogql (t : strtok) : str :=
  match t with TNormal v => v | TBlock raw => raw end.

(** ** the schema a GraphQL server is to load: the checked schema minus nitrogql-only directives

    "Minus the directive [n]" read literally: the definition of [@n] and every application of
    [@n], wherever it stands, are gone and nothing else changes. *)
Definition not_named (n : str) (d : directive) : bool := negb (str_eqb (iname (dir_name d)) n).
Definition erase_dirs (n : str) (ds : list directive) : list directive := filter (not_named n) ds.
Definition erase_inputval (n : str) (i : inputvaldef) : inputvaldef :=
  mkInputVal (iv_desc i) (iv_pos i) (iv_name i) (iv_type i) (iv_default i) (erase_dirs n (iv_dirs i)).
Definition erase_fielddef (n : str) (f : fielddef) : fielddef :=
  mkFieldDef (fd_desc f) (fd_name f) (option_map (map (erase_inputval n)) (fd_args f)) (fd_type f)
             (erase_dirs n (fd_dirs f)).
Definition erase_enumval (n : str) (e : enumvaldef) : enumvaldef :=
  mkEnumVal (ev_desc e) (ev_name e) (erase_dirs n (ev_dirs e)).
Definition erase_typedef (n : str) (t : typedef) : typedef :=
  match t with
  | TDScalar d p x ds k => TDScalar d p x (erase_dirs n ds) k
  | TDObject d p x im ds fs k => TDObject d p x im (erase_dirs n ds) (map (erase_fielddef n) fs) k
  | TDInterface d p x im ds fs k => TDInterface d p x im (erase_dirs n ds) (map (erase_fielddef n) fs) k
  | TDUnion d p x ds ms k => TDUnion d p x (erase_dirs n ds) ms k
  | TDEnum d p x ds vs k => TDEnum d p x (erase_dirs n ds) (map (erase_enumval n) vs) k
  | TDInput d p x ds fs k => TDInput d p x (erase_dirs n ds) (map (erase_inputval n) fs) k
  end.
Definition erase_typeext (n : str) (t : typeext) : typeext :=
  match t with
  | TEScalar p x ds => TEScalar p x (erase_dirs n ds)
  | TEObject p x im ds fs => TEObject p x im (erase_dirs n ds) (map (erase_fielddef n) fs)
  | TEInterface p x im ds fs => TEInterface p x im (erase_dirs n ds) (map (erase_fielddef n) fs)
  | TEUnion p x ds ms => TEUnion p x (erase_dirs n ds) ms
  | TEEnum p x ds vs => TEEnum p x (erase_dirs n ds) (map (erase_enumval n) vs)
  | TEInput p x ds fs => TEInput p x (erase_dirs n ds) (map (erase_inputval n) fs)
  end.
Definition erase_tsdef (n : str) (x : tsdef) : list tsdef :=
  match x with
  | TSDirective dd =>
      if str_eqb (iname (dd_name dd)) n then []
      else [TSDirective (mkDirDef (dd_desc dd) (dd_pos dd) (dd_name dd)
                                  (option_map (map (erase_inputval n)) (dd_args dd))
                                  (dd_repeatable dd) (dd_locs dd) (dd_kw dd))]
  | TSSchema sd => [TSSchema (mkSchemaDef (sd_desc sd) (sd_pos sd) (erase_dirs n (sd_dirs sd)) (sd_ops sd))]
  | TSType t => [TSType (erase_typedef n t)]
  | TSSchemaExt se => [TSSchemaExt (mkSchemaExt (se_pos se) (erase_dirs n (se_dirs se)) (se_ops se))]
  | TSTypeExt t => [TSTypeExt (erase_typeext n t)]
  end.
Definition erase_directive (n : str) (d : tsdoc) : tsdoc := flat_map (erase_tsdef n) d.

(** what serverGraphqlOutput is to denote for the resolved schema [d] *)
Definition spec_server_schema (model_plugin : bool) (d : tsdoc) : tsdoc :=
  let d1 := erase_directive (s "nitrogql_ts_type") d in
  if model_plugin then erase_directive (s "model") d1 else d1.

(** ** the value exported by the module written for serverGraphqlOutput: a line comment, then
    [export const schema = T;] with [T] a template literal; the exported value is the value of [T] *)
Definition module_prefix : str := s "// generated by nitrogql" ++ [10] ++ s "export const schema = ".
Fixpoint strip_prefix (p x : str) : option str :=
  match p, x with
  | [], _ => Some x
  | a :: p', c :: x' => if a =? c then strip_prefix p' x' else None
  | _, [] => None
  end.
Definition module_value (text : str) : option str :=
  match strip_prefix module_prefix text with
  | Some r =>
      match rev r with
      | nl1 :: semi :: r' => if (nl1 =? 10) && (semi =? 59) then eval_template (rev r') else None
      | _ => None
      end
  | None => None
  end.

