(** C16 — property theorems only.  Each is closed by [exact] of a lemma in Proofs*.v and followed
    by [Print Assumptions]. *)
From V Require Import Base.Util Gql.Ast Writer.Wop C16.Model C16.Spec
  C16.ProofsTemplate C16.ProofsString C16.ProofsStrip C16.ProofsDoc C16.ProofsReindent C16.ProofsGlue C16.SpecLex C16.LexGuard C16.ProofsLex1 C16.ProofsBlock C16.ProofsLex2 C16.ProofsLex3 C16.Proofs.
Local Open Scope N_scope.

(** the template literal JsStringWriter writes evaluates to a line feed followed by exactly what
    JustWriter writes for the same operations *)
Theorem C16_template_roundtrip : forall ops,
  no_cr_ops ops = true -> no_split_dollar ops = true ->
  eval_template (js_run ops) = Some (LF :: just_run ops).
Proof. exact template_roundtrip. Qed.
Print Assumptions C16_template_roundtrip.

(** the operation lists the printers produce satisfy those guards: for every type-system document
    (resolved or with extensions) and every operation document whose names and numbers are atoms
    and whose multi-line strings have no carriage return, the template literal evaluates to the
    printed text *)
Theorem C16_tsdoc_template_roundtrip : forall d,
  tsdoc_ok d = true -> eval_template (js_run (print_tsdoc d)) = Some (LF :: just_run (print_tsdoc d)).
Proof. exact tsdoc_template_roundtrip. Qed.
Print Assumptions C16_tsdoc_template_roundtrip.

Theorem C16_tsdoc_ext_template_roundtrip : forall d,
  tsdoc_ok d = true -> eval_template (js_run (print_tsdoc_ext d)) = Some (LF :: just_run (print_tsdoc_ext d)).
Proof. exact tsdoc_ext_template_roundtrip. Qed.
Print Assumptions C16_tsdoc_ext_template_roundtrip.

Theorem C16_opdoc_template_roundtrip : forall d,
  opdoc_ok d = true -> eval_template (js_run (print_opdoc d)) = Some (LF :: just_run (print_opdoc d)).
Proof. exact opdoc_template_roundtrip. Qed.
Print Assumptions C16_opdoc_template_roundtrip.

(** the module written for serverGraphqlOutput exports a line feed followed by the SDL text of
    the checked schema minus the nitrogql-only directives *)
Theorem C16_server_module_value : forall model_plugin d,
  directives_placed model_plugin d = true ->
  tsdoc_ok (spec_server_schema model_plugin d) = true ->
  module_value (server_module model_plugin d)
  = Some (LF :: just_run (print_tsdoc (spec_server_schema model_plugin d))).
Proof. exact server_module_value. Qed.
Print Assumptions C16_server_module_value.

(** separators suffice, for every document (no guard): at no boundary between two writes of the
    printer does a character that can continue a name or a number (or a string delimiter) meet
    another one -- the only places where two tokens could be glued *)
Theorem C16_print_never_glues_tsdoc : forall d, ProofsGlue.G (print_tsdoc d) = true.
Proof. exact G_print_tsdoc. Qed.
Print Assumptions C16_print_never_glues_tsdoc.

Theorem C16_print_never_glues_tsdoc_ext : forall d, ProofsGlue.G (print_tsdoc_ext d) = true.
Proof. exact G_print_tsdoc_ext. Qed.
Print Assumptions C16_print_never_glues_tsdoc_ext.

Theorem C16_print_never_glues_opdoc : forall d, ProofsGlue.G (print_opdoc d) = true.
Proof. exact G_print_opdoc. Qed.
Print Assumptions C16_print_never_glues_opdoc.

(** token level.  Generic half, for any reading [val] of string tokens, any meaning [sn] of the
    document's string values and any class [blk] of multi-line values that fit together
    (single-line literals read back to [sn v]; the literal of a [blk] value, written at any
    indentation, reads back to [sn v]): for an operation list whose chunks are simple texts or such
    string literals carrying the tokens [ts] ([TK]) and do not glue ([G]), the text JustWriter
    writes -- indentation included -- lexes (specification's lexer) and reads to exactly [ts] *)
Theorem C16_chunks_lex : forall (val : strtok -> str) (sn : str -> str) (blk : str -> bool),
  (forall v, is_multiline v = false -> val (TNormal v) = sn v) ->
  (forall v, blk v = true ->
     is_multiline v = true /\ plain_block v = true /\ forall ind, val (TBlock (rawb ind v)) = sn v) ->
  forall ops ts, TK val sn blk ops ts -> ProofsGlue.G ops = true -> lex_with val (just_run ops) = Some ts.
Proof. exact TK_lex_just_run. Qed.
Print Assumptions C16_chunks_lex.

(** a multi-line value outside the known-finding classes ([plain_block]: no three quotes in a row,
    not ending in a quote or backslash): its literal, as JustWriter writes it at any indentation and
    followed by anything, is one block-string token; without carriage returns its value under the
    specification is the BlockStringValue of the value *)
Theorem C16_written_block_literal : forall v ind flag k,
  is_multiline v = true -> plain_block v = true ->
  ins ind flag (print_string v) ++ k = (if flag then spaces ind else []) ++ QQQ ++ rawb ind v ++ QQQ ++ k
  /\ lex_string (QQQ ++ rawb ind v ++ QQQ ++ k) = Some (TBlock (rawb ind v), k)
  /\ (no_cr v = true -> value_spec (TBlock (rawb ind v)) = block_string_value v).
Proof.
  intros v ind flag k Hm Hp. split; [|split].
  - assert (Hps : print_string v = QQQ ++ v ++ QQQ).
    { unfold print_string. rewrite Hm. unfold plain_block in Hp.
      apply andb_true_iff in Hp as [Hp' _]. apply andb_true_iff in Hp' as [Hn _].
      rewrite (block_body_id v 0) by (try lia; exact Hn). reflexivity. }
    rewrite Hps. destruct (ins_literal ind flag v) as [E _]. rewrite E. rewrite <- !app_assoc. reflexivity.
  - apply lex_string_written_block. exact Hp.
  - intro Hc. apply rawb_spec_value; [|exact Hc]. unfold plain_block in Hp.
    apply andb_true_iff in Hp as [Hp' _]. apply andb_true_iff in Hp' as [Hn _]. exact Hn.
Qed.
Print Assumptions C16_written_block_literal.

(** the printed text of a document lexes to the token sequence of the document (the document
    written out by the grammar).  nitrogql's reading of string tokens; guard [_lx_raw]: names /
    numbers are runs of word characters, strings are single-line and plain, no #import lines, no
    member-less union extension *)
Theorem C16_print_tsdoc_lex : forall d,
  tsdoc_lx_raw d = true -> lex (just_run (print_tsdoc d)) = Some (tokens_of_tsdoc d).
Proof. exact print_tsdoc_lex. Qed.
Print Assumptions C16_print_tsdoc_lex.

Theorem C16_print_tsdoc_ext_lex : forall d,
  tsdoc_lx_raw d = true -> lex (just_run (print_tsdoc_ext d)) = Some (tokens_of_tsdoc d).
Proof. exact print_tsdoc_ext_lex. Qed.
Print Assumptions C16_print_tsdoc_ext_lex.

Theorem C16_print_opdoc_lex : forall d,
  opdoc_lx_raw d = true -> lex (just_run (print_opdoc d)) = Some (tokens_of_opdoc d).
Proof. exact print_opdoc_lex. Qed.
Print Assumptions C16_print_opdoc_lex.

(** the specification's reading; guard [_lx_spec]: as above, and multi-line string values that are
    [block_lit] (no three quotes in a row, not ending in a quote or backslash, no carriage return),
    wherever they are printed; such a value stands for its BlockStringValue ([snorm]) *)
Theorem C16_print_tsdoc_lex_spec : forall d,
  tsdoc_lx_spec d = true -> lex_spec (just_run (print_tsdoc d)) = Some (tokens_spec_tsdoc d).
Proof. exact print_tsdoc_lex_spec. Qed.
Print Assumptions C16_print_tsdoc_lex_spec.

Theorem C16_print_tsdoc_ext_lex_spec : forall d,
  tsdoc_lx_spec d = true -> lex_spec (just_run (print_tsdoc_ext d)) = Some (tokens_spec_tsdoc d).
Proof. exact print_tsdoc_ext_lex_spec. Qed.
Print Assumptions C16_print_tsdoc_ext_lex_spec.

Theorem C16_print_opdoc_lex_spec : forall d,
  opdoc_lx_spec d = true -> lex_spec (just_run (print_opdoc d)) = Some (tokens_spec_opdoc d).
Proof. exact print_opdoc_lex_spec. Qed.
Print Assumptions C16_print_opdoc_lex_spec.

(** hence, for every parser of token sequences that is correct on the token sequences of
    documents (returns the document up to a relation [R], e.g. equality modulo positions):
    parsing the printed text gives the document back up to [R] *)
Theorem C16_tsdoc_roundtrip_any_parser :
  forall (R : tsdoc -> tsdoc -> Prop) (parse : list tok -> option tsdoc),
  (forall a, exists a', parse (tokens_of_tsdoc a) = Some a' /\ R a' a) ->
  forall d, tsdoc_lx_raw d = true ->
  exists d', match lex (just_run (print_tsdoc_ext d)) with Some ts => parse ts | None => None end = Some d' /\ R d' d.
Proof. exact tsdoc_roundtrip_any_parser. Qed.
Print Assumptions C16_tsdoc_roundtrip_any_parser.

Theorem C16_opdoc_roundtrip_any_parser :
  forall (R : opdoc -> opdoc -> Prop) (parse : list tok -> option opdoc),
  (forall a, exists a', parse (tokens_of_opdoc a) = Some a' /\ R a' a) ->
  forall d, opdoc_lx_raw d = true ->
  exists d', match lex (just_run (print_opdoc d)) with Some ts => parse ts | None => None end = Some d' /\ R d' d.
Proof. exact opdoc_roundtrip_any_parser. Qed.
Print Assumptions C16_opdoc_roundtrip_any_parser.

Theorem C16_tsdoc_roundtrip_any_parser_spec :
  forall (R : tsdoc -> tsdoc -> Prop) (parse : list tok -> option tsdoc),
  (forall a, exists a', parse (tokens_spec_tsdoc a) = Some a' /\ R a' a) ->
  forall d, tsdoc_lx_spec d = true ->
  exists d', match lex_spec (just_run (print_tsdoc_ext d)) with Some ts => parse ts | None => None end = Some d' /\ R d' d.
Proof. exact tsdoc_roundtrip_any_parser_spec. Qed.
Print Assumptions C16_tsdoc_roundtrip_any_parser_spec.

Theorem C16_opdoc_roundtrip_any_parser_spec :
  forall (R : opdoc -> opdoc -> Prop) (parse : list tok -> option opdoc),
  (forall a, exists a', parse (tokens_spec_opdoc a) = Some a' /\ R a' a) ->
  forall d, opdoc_lx_spec d = true ->
  exists d', match lex_spec (just_run (print_opdoc d)) with Some ts => parse ts | None => None end = Some d' /\ R d' d.
Proof. exact opdoc_roundtrip_any_parser_spec. Qed.
Print Assumptions C16_opdoc_roundtrip_any_parser_spec.

(** end to end: the value the emitted module exports (template literal evaluated by the
    specification) lexes, under the specification's reading, to the token sequence of the checked
    schema minus the nitrogql-only directives -- descriptions and default values included *)
Theorem C16_server_module_lexes : forall model_plugin d,
  directives_placed model_plugin d = true ->
  tsdoc_ok (spec_server_schema model_plugin d) = true ->
  tsdoc_lx_spec (spec_server_schema model_plugin d) = true ->
  exists t, module_value (server_module model_plugin d) = Some t
            /\ lex_spec t = Some (tokens_spec_tsdoc (spec_server_schema model_plugin d)).
Proof. exact server_module_lexes. Qed.
Print Assumptions C16_server_module_lexes.

Theorem C16_template_single_write : forall x,
  no_cr x = true -> eval_template (js_run [W x]) = Some (LF :: just_run [W x]).
Proof. exact template_single_write. Qed.
Print Assumptions C16_template_single_write.

(** the literal print_string writes, followed by anything that is not a quote, lexes as one
    StringValue whose value (nitrogql's reading) is the string *)
Theorem C16_print_string_lex_partial : forall x rest,
  plain x = true -> starts_quote rest = false ->
  exists t, lex_string (print_string x ++ rest) = Some (t, rest) /\ value_nitrogql t = x.
Proof. exact print_string_lex_partial. Qed.
Print Assumptions C16_print_string_lex_partial.

(** the same under the specification's reading of block strings *)
Theorem C16_print_string_lex_spec : forall x rest,
  plain x = true -> starts_quote rest = false ->
  (is_multiline x = true -> block_normal x = true) ->
  exists t, lex_string (print_string x ++ rest) = Some (t, rest) /\ value_spec t = x.
Proof. exact print_string_lex_spec. Qed.
Print Assumptions C16_print_string_lex_spec.

(** the schema printed to serverGraphqlOutput is the checked schema minus the nitrogql-only
    directives *)
Theorem C16_strip_only_nitrogql : forall model_plugin d,
  directives_placed model_plugin d = true ->
  server_schema model_plugin d = spec_server_schema model_plugin d.
Proof. exact strip_only_nitrogql. Qed.
Print Assumptions C16_strip_only_nitrogql.

(** removing [@n] keeps every other directive application, in order, whatever the position of [@n] *)
Theorem C16_strip_keeps_order : forall n a m b0,
  dir_named n m = true -> has_dir n a = false -> has_dir n b0 = false ->
  drop_dirs n (a ++ m :: b0) = a ++ b0.
Proof. exact strip_keeps_order. Qed.
Print Assumptions C16_strip_keeps_order.

Theorem C16_remove_builtins_idempotent : forall d, remove_builtins (remove_builtins d) = remove_builtins d.
Proof. exact remove_builtins_idempotent. Qed.
Print Assumptions C16_remove_builtins_idempotent.

(** the re-indentation of block strings by the writers (a known finding under nitrogql's raw
    reading) does not change the value the specification gives the block string *)
Theorem C16_reindent_preserves_spec_value : forall n l0 rest,
  forallb line_ok (l0 :: rest) = true ->
  block_string_value (join_lf (l0 :: indent_lines n rest)) = block_string_value (join_lf (l0 :: rest)).
Proof. exact reindent_preserves_spec_value. Qed.
Print Assumptions C16_reindent_preserves_spec_value.

(** [indent_lines] is what JustWriter does to the lines of a chunk after the first *)
Theorem C16_write_chunk_lines : forall c0 l0 rest ind,
  fst (write_lines (fun l => l) true ((c0 :: l0) :: rest) ind false)
  = (c0 :: l0) ++ flat_map (fun l => LF :: indent_line (N.to_nat ind) l) rest.
Proof. exact write_chunk_lines. Qed.
Print Assumptions C16_write_chunk_lines.

(** refutations (known findings) *)
Theorem C16_print_string_quote_refuted :
  exists x, is_multiline x = false /\ reads_back x = false /\ reads_back_spec x = false.
Proof. exact print_string_quote_refuted. Qed.
Print Assumptions C16_print_string_quote_refuted.

Theorem C16_print_string_backslash_refuted :
  exists x y, is_multiline x = false /\ lex_string (print_string x) = Some (TNormal y, []) /\ y <> x.
Proof. exact print_string_backslash_refuted. Qed.
Print Assumptions C16_print_string_backslash_refuted.

Theorem C16_print_string_block_quote_refuted :
  exists x, is_multiline x = true /\ no_triple x = true /\ reads_back x = false /\ reads_back_spec x = false.
Proof. exact print_string_block_quote_refuted. Qed.
Print Assumptions C16_print_string_block_quote_refuted.

Theorem C16_print_string_block_backslash_refuted :
  exists x, is_multiline x = true /\ no_triple x = true /\ lex_string (print_string x) = None.
Proof. exact print_string_block_backslash_refuted. Qed.
Print Assumptions C16_print_string_block_backslash_refuted.

Theorem C16_print_string_block_triple_refuted :
  exists x, is_multiline x = true /\ reads_back x = false /\ reads_back_spec x = true.
Proof. exact print_string_block_triple_refuted. Qed.
Print Assumptions C16_print_string_block_triple_refuted.

Theorem C16_print_string_block_spec_refuted :
  exists x, plain x = true /\ reads_back x = true /\ reads_back_spec x = false.
Proof. exact print_string_block_spec_refuted. Qed.
Print Assumptions C16_print_string_block_spec_refuted.

Theorem C16_print_string_lex_full_refuted : ~ print_string_lex_full.
Proof. exact print_string_lex_full_refuted. Qed.
Print Assumptions C16_print_string_lex_full_refuted.

Theorem C16_block_reindent_refuted :
  exists x, plain x = true /\
    exists t, lex_string (skipn 4 (just_run [W (s "{" ++ [LF]); Indent; W (print_string x)])) = Some (t, [])
              /\ value_nitrogql t <> x /\ value_spec t = x.
Proof. exact block_reindent_refuted. Qed.
Print Assumptions C16_block_reindent_refuted.

Theorem C16_template_cr_refuted :
  exists ops, no_split_dollar ops = true /\
    eval_template (js_run ops) = Some (LF :: s "a" ++ [LF] ++ s "b") /\ just_run ops = s "a" ++ [CR] ++ s "b".
Proof. exact template_cr_refuted. Qed.
Print Assumptions C16_template_cr_refuted.

Theorem C16_template_split_dollar_refuted :
  exists ops, no_cr_ops ops = true /\ eval_template (js_run ops) = None /\ just_run ops = s "${".
Proof. exact template_split_dollar_refuted. Qed.
Print Assumptions C16_template_split_dollar_refuted.

Theorem C16_extend_schema_directives_only :
  just_run (print_tsdoc_ext [TSSchemaExt (mkSchemaExt pos0 [dir_a] [])])
  = s "extend schema @a" ++ [LF; LF].
Proof. exact extend_schema_directives_only. Qed.
Print Assumptions C16_extend_schema_directives_only.

Theorem C16_extend_union_refuted :
  just_run (print_tsdoc_ext [TSTypeExt (TEUnion pos0 (mkId (s "U") pos0) [dir_a] [])])
  = s "extend union U @a =" ++ [LF; LF].
Proof. exact extend_union_refuted. Qed.
Print Assumptions C16_extend_union_refuted.
