(** C16 — executable model of nitrogql's GraphQL printer and of the writers it prints through.

    Rust sources modelled (as they are in /repo now, defects included):
      crates/printer/src/graphql_printer/utils.rs   print_string
      crates/printer/src/graphql_printer/base.rs    Type, Value, StringValue, Ident
      crates/printer/src/graphql_printer/ast.rs     operations, selections, type-system definitions and extensions
      crates/printer/src/graphql_printer/ext.rs     #import definitions
      crates/sourcemap-writer/src/just_writer.rs    JustWriter
      crates/sourcemap-writer/src/js_string_writer.rs  JsStringWriter
      crates/cli/src/builtins.rs                    remove_builtins
      crates/plugin/src/model_plugin/mod.rs         transform_document_for_runtime_server
      crates/cli/src/generate.rs                    the serverGraphqlOutput module text

    Printers are functions from the shared AST (Gql/Ast.v) to lists of writer operations
    (Writer/Wop.v); the two writers interpret an operation list into text.  Definitions only. *)
From V Require Import Base.Util Gql.Ast Writer.Wop.
Local Open Scope N_scope.

(** ** characters *)
Definition LF : N := 10.
Definition CR : N := 13.
Definition DQ : N := 34.     (* double quote *)
Definition BS : N := 92.     (* \ *)
Definition DOLLAR : N := 36.
Definition BT : N := 96.     (* ` *)
Definition LBRACE : N := 123.
Definition SP : N := 32.

(** ** graphql_printer/utils.rs : print_string *)

(** [char::is_control]: general category Cc = U+0000..U+001F and U+007F..U+009F *)
Definition is_control (c : N) : bool := (c <? 32) || ((127 <=? c) && (c <? 160)).

Definition hex_digit (d : N) : N := if d <? 10 then 48 + d else 87 + d.   (* '0'.. / 'a'.. *)

(** [format!("{:x}", c as u32)]: lower case, no leading zeros; a u32 has at most 8 digits. *)
Fixpoint hex_fuel (fuel : nat) (n : N) : str :=
  match fuel with
  | O => []
  | S f => if n <? 16 then [hex_digit n] else hex_fuel f (n / 16) ++ [hex_digit (n mod 16)]
  end.
Definition hex (n : N) : str := hex_fuel 8 n.

Definition esc_char (c : N) : str :=
  if c =? CR then [BS; 114]                                   (* \r *)
  else if c =? LF then [BS; 110]                              (* \n (unreachable: single-line branch) *)
  else if is_control c then [BS; 117; LBRACE] ++ hex c ++ [125]   (* \u{..} *)
  else [c].

(** the block-string loop: [dq] = number of pending double quotes (0..2) *)
Fixpoint block_body (dq : nat) (x : str) : str :=
  match x with
  | [] => repeat DQ dq
  | c :: r =>
      if c =? DQ then
        match dq with
        | S (S _) => [BS; DQ; DQ; DQ] ++ block_body 0 r          (* third quote in a row: backslash + three quotes *)
        | _ => block_body (S dq) r
        end
      else repeat DQ dq ++ c :: block_body 0 r
  end.

Definition is_multiline (x : str) : bool := existsb (N.eqb LF) x.

Definition print_string (x : str) : str :=
  if is_multiline x then [DQ; DQ; DQ] ++ block_body 0 x ++ [DQ; DQ; DQ]
  else DQ :: flat_map esc_char x ++ [DQ].

(** ** graphql_printer/base.rs *)

Definition p_ident (i : ident) : list wop := [WF (iname i) (ipos i) (Some (iname i))].

(** [Type::position()] of a named type is the name's position; [write_for(name, self)] *)
Fixpoint p_type (t : ty) : list wop :=
  match t with
  | TNamed n => [WF (iname n) (ipos n) (Some (iname n))]
  | TNonNull t' => p_type t' ++ [W (s "!")]
  | TList _ t' => W (s "[") :: p_type t' ++ [W (s "]")]
  end.

(** [for (idx, x) in xs.enumerate() { if idx > 0 { sep } x }] *)
Fixpoint sep_by (sep : list wop) (xs : list (list wop)) : list wop :=
  match xs with
  | [] => []
  | [x] => x
  | x :: r => x ++ sep ++ sep_by sep r
  end.

Definition p_string (x : str) : list wop := [W (print_string x)].

Fixpoint p_value (v : value) : list wop :=
  match v with
  | VVar n p => [WF (s "$") p (Some n); W n]
  | VInt _ l => [W l]
  | VFloat _ l => [W l]
  | VString _ x => p_string x
  | VBool _ b => [W (if b then s "true" else s "false")]
  | VNull _ => [W (s "null")]
  | VEnum p x => [WF x p (Some x)]
  | VList _ vs => W (s "[") :: sep_by [W (s ",")] (map p_value vs) ++ [W (s "]")]
  | VObject _ fs =>
      W (s "{") ::
      (match fs with
       | [] | [_] => flat_map (fun kv => p_ident (fst kv) ++ W (s ": ") :: p_value (snd kv)) fs
       | _ => W [LF] :: Indent ::
              flat_map (fun kv => p_ident (fst kv) ++ W (s ": ") :: p_value (snd kv) ++ [W [LF]]) fs
              ++ [Dedent]
       end) ++ [W (s "}")]
  end.

(** ** graphql_printer/ast.rs *)

Definition p_arg (kv : ident * value) : list wop := p_ident (fst kv) ++ W (s ": ") :: p_value (snd kv).

Definition p_arguments (a : arguments) : list wop :=
  W (s "(") ::
  (match args_list a with
   | [] | [_] => flat_map p_arg (args_list a)
   | _ => W [LF] :: Indent :: flat_map (fun kv => p_arg kv ++ [W [LF]]) (args_list a) ++ [Dedent]
   end) ++ [W (s ")")].

Definition p_opt {A} (f : A -> list wop) (x : option A) : list wop :=
  match x with Some a => f a | None => [] end.

Definition p_directive (d : directive) : list wop :=
  W (s "@") :: p_ident (dir_name d) ++ p_opt p_arguments (dir_args d).

(** for each directive: a space, then the directive *)
Definition sp_dirs (ds : list directive) : list wop := flat_map (fun d => W (s " ") :: p_directive d) ds.
(** the schema definition / extension prints its directives with no separator at all *)
Definition glued_dirs (ds : list directive) : list wop := flat_map p_directive ds.

Definition optype_str (t : optype) : str :=
  match t with Query => s "query" | Mutation => s "mutation" | Subscription => s "subscription" end.

Fixpoint p_selection (x : selection) : list wop :=
  match x with
  | SField al n args ds sel =>
      p_opt (fun a => p_ident a ++ [W (s ": ")]) al ++ p_ident n ++ p_opt p_arguments args ++ sp_dirs ds
      ++ match sel with Some ss => W (s " ") :: p_selset ss | None => [] end
  | SSpread _ n ds => W (s "... ") :: p_ident n ++ sp_dirs ds
  | SInline _ c ds ss =>
      W (s "... ") :: p_opt (fun t => W (s "on ") :: p_ident t ++ [W (s " ")]) c ++ sp_dirs ds ++ p_selset ss
  end
with p_selset (ss : selset) : list wop :=
  match ss with
  | SelSet _ l =>
      W (s "{" ++ [LF]) :: Indent :: flat_map (fun x => p_selection x ++ [W [LF]]) l ++ [Dedent; W (s "}")]
  end.

Definition p_variable (n : str) (p : pos) : list wop := [WF (s "$") p (Some n); W n].

Definition p_vardef (v : vardef) : list wop :=
  p_variable (vd_name v) (vd_name_pos v) ++ W (s ": ") :: p_type (vd_type v)
  ++ p_opt (fun d => W (s " = ") :: p_value d) (vd_default v) ++ sp_dirs (vd_dirs v).

Definition p_vardefs (v : vardefs) : list wop :=
  W (s "(") ::
  (match vds_list v with
   | [] | [_] => flat_map p_vardef (vds_list v)
   | _ => W [LF] :: Indent :: sep_by [W (s "," ++ [LF])] (map p_vardef (vds_list v)) ++ [Dedent; W [LF]]
   end) ++ [W (s ")")].

Definition p_opdef (o : opdef) : list wop :=
  W (optype_str (op_type o)) :: p_opt (fun n => W (s " ") :: p_ident n) (op_name o)
  ++ p_opt p_vardefs (op_vars o) ++ sp_dirs (op_dirs o) ++ W (s " ") :: p_selset (op_sel o) ++ [W [LF]].

Definition p_fragdef (f : fragdef) : list wop :=
  W (s "fragment ") :: p_ident (fr_name f) ++ W (s " on ") :: p_ident (fr_cond f) ++ sp_dirs (fr_dirs f)
  ++ W (s " ") :: p_selset (fr_sel f) ++ [W [LF]].

(** graphql_printer/ext.rs *)
Definition p_import_target (t : import_target) : list wop :=
  match t with ImpWildcard => [W (s "*")] | ImpName n => [W (iname n)] end.

Definition p_importdef (i : importdef) : list wop :=
  W (s "#import ") :: sep_by [W (s ", ")] (map p_import_target (im_targets i))
  ++ W (s " from ") :: p_string (im_path i) ++ [W [LF]].

Definition p_execdef (d : execdef) : list wop :=
  match d with DOp o => p_opdef o | DFrag f => p_fragdef f | DImport i => p_importdef i end.

(** [OperationDocument] and [OperationDocumentExt] print their definitions one after the other *)
Definition print_opdoc (d : opdoc) : list wop := flat_map p_execdef (od_defs d).

(** type system *)
Definition p_desc (d : option desc) : list wop :=
  match d with Some x => p_string (desc_value x) ++ [W [LF]] | None => [] end.

Definition p_inputval (i : inputvaldef) : list wop :=
  p_desc (iv_desc i) ++ p_ident (iv_name i) ++ W (s ": ") :: p_type (iv_type i)
  ++ p_opt (fun d => W (s " = ") :: p_value d) (iv_default i) ++ sp_dirs (iv_dirs i).

Definition p_argsdef (l : list inputvaldef) : list wop :=
  W (s "(") :: sep_by [W (s ", ")] (map p_inputval l) ++ [W (s ")")].

Definition p_fielddef (f : fielddef) : list wop :=
  p_desc (fd_desc f) ++ p_ident (fd_name f) ++ p_opt p_argsdef (fd_args f) ++ W (s ": ") :: p_type (fd_type f)
  ++ sp_dirs (fd_dirs f).

Definition p_enumval (e : enumvaldef) : list wop :=
  p_desc (ev_desc e) ++ p_ident (ev_name e) ++ sp_dirs (ev_dirs e).

Definition p_implements (l : list ident) : list wop :=
  match l with
  | [] => []
  | _ => W (s " implements") :: flat_map (fun i => W (s " & ") :: p_ident i) l
  end.

(** if the list is not empty: space, open brace, LF, indent, (x LF)*, dedent, close brace *)
Definition p_body {A} (f : A -> list wop) (l : list A) : list wop :=
  match l with
  | [] => []
  | _ => W (s " {" ++ [LF]) :: Indent :: flat_map (fun x => f x ++ [W [LF]]) l ++ [Dedent; W (s "}")]
  end.

Definition p_members (l : list ident) : list wop :=
  W (s " =") :: flat_map (fun i => W (s " | ") :: p_ident i) l.

(** a union type *definition* without members has no equals sign (since /repo cb17160); the
    extension printer still writes it *)
Definition p_members_def (l : list ident) : list wop := match l with [] => [] | _ => p_members l end.

Definition p_rootops (l : list (optype * ident)) : list wop :=
  W (s "{" ++ [LF]) :: Indent ::
  flat_map (fun kv => W (optype_str (fst kv)) :: W (s ": ") :: p_ident (snd kv) ++ [W [LF]]) l
  ++ [Dedent; W (s "}" ++ [LF])].

Definition p_schemadef (d : schemadef) : list wop :=
  p_desc (sd_desc d) ++ W (s "schema ") :: glued_dirs (sd_dirs d) ++ p_rootops (sd_ops d).

Definition p_typedef (t : typedef) : list wop :=
  match t with
  | TDScalar d _ n ds _ => p_desc d ++ W (s "scalar ") :: p_ident n ++ sp_dirs ds ++ [W [LF]]
  | TDObject d _ n im ds fs kw =>
      p_desc d ++ WF (s "type ") (kw_pos kw) (Some (kw_name kw)) :: p_ident n ++ p_implements im ++ sp_dirs ds
      ++ p_body p_fielddef fs ++ [W [LF]]
  | TDInterface d _ n im ds fs _ =>
      p_desc d ++ W (s "interface ") :: p_ident n ++ p_implements im ++ sp_dirs ds
      ++ p_body p_fielddef fs ++ [W [LF]]
  | TDUnion d _ n ds ms _ => p_desc d ++ W (s "union ") :: p_ident n ++ sp_dirs ds ++ p_members_def ms ++ [W [LF]]
  | TDEnum d _ n ds vs _ => p_desc d ++ W (s "enum ") :: p_ident n ++ sp_dirs ds ++ p_body p_enumval vs ++ [W [LF]]
  | TDInput d _ n ds fs _ => p_desc d ++ W (s "input ") :: p_ident n ++ sp_dirs ds ++ p_body p_inputval fs ++ [W [LF]]
  end.

Definition p_directivedef (d : directivedef) : list wop :=
  p_desc (dd_desc d) ++ W (s "directive @") :: p_ident (dd_name d) ++ p_opt p_argsdef (dd_args d)
  ++ p_opt (fun t => W (s " ") :: p_ident t) (dd_repeatable d)
  ++ W (s " on") :: flat_map (fun l => W (s " | ") :: p_ident l) (dd_locs d) ++ [W [LF]].

(** since /repo 6472a53: without root operations no braces are written, only a line feed *)
Definition p_schemaext (e : schemaext) : list wop :=
  W (s "extend schema ") :: glued_dirs (se_dirs e)
  ++ match se_ops e with [] => [W [LF]] | _ => p_rootops (se_ops e) end.

Definition p_typeext (t : typeext) : list wop :=
  match t with
  | TEScalar _ n ds => W (s "extend scalar ") :: p_ident n ++ sp_dirs ds ++ [W [LF]]
  | TEObject _ n im ds fs =>
      W (s "extend type ") :: p_ident n ++ p_implements im ++ sp_dirs ds ++ p_body p_fielddef fs ++ [W [LF]]
  | TEInterface _ n im ds fs =>
      W (s "extend interface ") :: p_ident n ++ p_implements im ++ sp_dirs ds ++ p_body p_fielddef fs ++ [W [LF]]
  | TEUnion _ n ds ms => W (s "extend union ") :: p_ident n ++ sp_dirs ds ++ p_members ms ++ [W [LF]]
  | TEEnum _ n ds vs => W (s "extend enum ") :: p_ident n ++ sp_dirs ds ++ p_body p_enumval vs ++ [W [LF]]
  | TEInput _ n ds fs => W (s "extend input ") :: p_ident n ++ sp_dirs ds ++ p_body p_inputval fs ++ [W [LF]]
  end.

Definition p_tsdef (d : tsdef) : list wop :=
  match d with
  | TSSchema x => p_schemadef x
  | TSType x => p_typedef x
  | TSDirective x => p_directivedef x
  | TSSchemaExt x => p_schemaext x
  | TSTypeExt x => p_typeext x
  end.

(** [TypeSystemOrExtensionDocument]: every definition is followed by an empty line *)
Definition print_tsdoc_ext (d : tsdoc) : list wop := flat_map (fun x => p_tsdef x ++ [W [LF]]) d.
(** [TypeSystemDocument] (the resolved schema): definitions one after the other *)
Definition print_tsdoc (d : tsdoc) : list wop := flat_map p_tsdef d.

(** ** the writers *)

(** Rust [str::split('\n')]: never empty *)
Fixpoint split_lf (x : str) : list str :=
  match x with
  | [] => [[]]
  | c :: r =>
      if c =? LF then [] :: split_lf r
      else match split_lf r with l :: ls => (c :: l) :: ls | [] => [[c]] end
  end.

Definition spaces (n : N) : str := repeat SP (N.to_nat n).

(** the body of [write]: one iteration per line; [flag] = has_indent_flag; returns the text
    appended to the buffer and the new flag.  [esc] is what is done to a non-empty line. *)
Fixpoint write_lines (esc : str -> str) (first : bool) (lines : list str) (ind : N) (flag : bool)
  : str * bool :=
  match lines with
  | [] => ([], flag)
  | l :: r =>
      let pre := if first then [] else [LF] in
      let flag1 := if first then flag else true in
      match l with
      | [] => let '(o, f) := write_lines esc false r ind flag1 in (pre ++ o, f)
      | _ => let '(o, f) := write_lines esc false r ind false in
             (pre ++ (if flag1 then spaces ind else []) ++ esc l ++ o, f)
      end
  end.

Definition write_chunk (esc : str -> str) (c : str) (ind : N) (flag : bool) : str * bool :=
  write_lines esc true (split_lf c) ind flag.

(** interpretation of an operation list; [indent] adds 2, [dedent] is [saturating_sub(2)] *)
Fixpoint run_ops (esc : str -> str) (ops : list wop) (ind : N) (flag : bool) : str :=
  match ops with
  | [] => []
  | Indent :: r => run_ops esc r (ind + 2) flag
  | Dedent :: r => run_ops esc r (ind - 2) flag          (* N subtraction truncates at 0 *)
  | W c :: r | WF c _ _ :: r =>
      let '(o, f) := write_chunk esc c ind flag in o ++ run_ops esc r ind f
  end.

(** JustWriter *)
Definition just_run (ops : list wop) : str := run_ops (fun l => l) ops 0 false.

(** JsStringWriter: per line, [dollar_flag] starts false *)
Fixpoint js_esc (dollar : bool) (l : str) : str :=
  match l with
  | [] => []
  | c :: r =>
      (if c =? BS then [BS; BS]
       else if c =? BT then [BS; BT]
       else if (c =? LBRACE) && dollar then [BS; LBRACE]
       else [c]) ++ js_esc (c =? DOLLAR) r
  end.

(** [JsStringWriter::new] pushes a backtick and a line feed, [drop] pushes a backtick *)
Definition js_run (ops : list wop) : str := BT :: LF :: run_ops (js_esc false) ops 0 false ++ [BT].

(** ** cli/src/builtins.rs : remove_builtins *)
Definition ts_type_name : str := s "nitrogql_ts_type".
Definition dir_named (n : str) (d : directive) : bool := str_eqb (iname (dir_name d)) n.
Definition drop_dirs (n : str) (ds : list directive) : list directive := filter (fun d => negb (dir_named n d)) ds.

Definition remove_builtins_def (x : tsdef) : list tsdef :=
  match x with
  | TSDirective dd => if str_eqb (iname (dd_name dd)) ts_type_name then [] else [x]
  | TSType (TDScalar de p n ds kw) => [TSType (TDScalar de p n (drop_dirs ts_type_name ds) kw)]
  | _ => [x]
  end.
Definition remove_builtins (d : tsdoc) : tsdoc := flat_map remove_builtins_def d.

(** ** plugin/src/model_plugin/mod.rs : transform_document_for_runtime_server *)
Definition model_name : str := s "model".
Definition strip_model_field (f : fielddef) : fielddef :=
  mkFieldDef (fd_desc f) (fd_name f) (fd_args f) (fd_type f) (drop_dirs model_name (fd_dirs f)).
Definition strip_model_def (x : tsdef) : list tsdef :=
  match x with
  | TSDirective dd => if str_eqb (iname (dd_name dd)) model_name then [] else [x]
  | TSType (TDObject de p n im ds fs kw) =>
      [TSType (TDObject de p n im (drop_dirs model_name ds) (map strip_model_field fs) kw)]
  | _ => [x]
  end.
Definition strip_model (d : tsdoc) : tsdoc := flat_map strip_model_def d.

(** ** cli/src/generate.rs : text of the serverGraphqlOutput module for a resolved schema
    ([model_plugin] = the model plugin is configured) *)
Definition server_schema (model_plugin : bool) (d : tsdoc) : tsdoc :=
  let d1 := remove_builtins d in if model_plugin then strip_model d1 else d1.

Definition server_module (model_plugin : bool) (d : tsdoc) : str :=
  s "// generated by nitrogql" ++ [LF] ++ s "export const schema = "
  ++ js_run (print_tsdoc (server_schema model_plugin d)) ++ s ";" ++ [LF].

(** ** computable guards of the theorems (Proofs*.v); [starts3] of Spec.v is repeated here so that
    the model does not depend on the specification side *)

(** *** template theorem *)
Definition no_cr (x : str) : bool := forallb (fun c => negb (c =? CR)) x.
Definition chunk_of (o : wop) : option str :=
  match o with W c | WF c _ _ => Some c | _ => None end.
Definition no_cr_ops (ops : list wop) : bool :=
  forallb (fun o => match chunk_of o with Some c => no_cr c | None => true end) ops.

Fixpoint ends_dollar (x : str) : bool :=
  match x with
  | [] => false
  | [c] => c =? DOLLAR
  | _ :: r => ends_dollar r
  end.
(** the first non-empty chunk written by [ops] starts with an opening brace *)
Fixpoint next_starts_brace (ops : list wop) : bool :=
  match ops with
  | [] => false
  | Indent :: r | Dedent :: r => next_starts_brace r
  | W c :: r | WF c _ _ :: r => match c with [] => next_starts_brace r | x :: _ => x =? LBRACE end
  end.
(** no write ends in a dollar sign while the next thing written is an opening brace *)
Fixpoint no_split_dollar (ops : list wop) : bool :=
  match ops with
  | [] => true
  | Indent :: r | Dedent :: r => no_split_dollar r
  | W c :: r | WF c _ _ :: r => negb (ends_dollar c && next_starts_brace r) && no_split_dollar r
  end.


(** *** string theorem *)
Definition triple_quote_at (x : str) : bool :=
  match x with a :: b :: c :: _ => (a =? DQ) && (b =? DQ) && (c =? DQ) | _ => false end.
Fixpoint ends_with (c : N) (x : str) : bool :=
  match x with
  | [] => false
  | [d] => d =? c
  | _ :: r => ends_with c r
  end.
(** no three double quotes in a row *)
Fixpoint no_triple (x : str) : bool :=
  match x with [] => true | _ :: r => negb (triple_quote_at x) && no_triple r end.

Definition plain_line (x : str) : bool := forallb (fun c => negb (c =? DQ) && negb (c =? BS)) x.
Definition plain_block (x : str) : bool := no_triple x && negb (ends_with DQ x) && negb (ends_with BS x).
(** single-line values: no double quote, no backslash; multi-line values: no three quotes in a
    row, not ending in a quote or a backslash *)
Definition plain (x : str) : bool := if is_multiline x then plain_block x else plain_line x.

Definition starts_quote (k : str) : bool := match k with c :: _ => c =? DQ | [] => false end.


(** *** document theorem: every name / lexeme written as it is must not be empty, start with an
    opening brace, end in a dollar sign or contain a carriage return (GraphQL names and numbers
    never do); a string value may contain a carriage return only if it is printed on one line *)
Definition atom_ok (x : str) : bool :=
  match x with [] => false | c :: _ => negb (c =? LBRACE) end && negb (ends_dollar x) && no_cr x.
Definition lit_ok (x : str) : bool := negb (is_multiline x) || no_cr x.
Definition id_ok (i : ident) : bool := atom_ok (iname i).

Fixpoint ty_ok (t : ty) : bool :=
  match t with TNamed n => id_ok n | TNonNull t' => ty_ok t' | TList _ t' => ty_ok t' end.

Fixpoint value_ok (v : value) : bool :=
  match v with
  | VVar n _ => atom_ok n
  | VInt _ l => atom_ok l
  | VFloat _ l => atom_ok l
  | VString _ x => lit_ok x
  | VBool _ _ => true
  | VNull _ => true
  | VEnum _ x => atom_ok x
  | VList _ vs => forallb value_ok vs
  | VObject _ fs => forallb (fun kv => id_ok (fst kv) && value_ok (snd kv)) fs
  end.

Definition arg_ok (kv : ident * value) : bool := id_ok (fst kv) && value_ok (snd kv).
Definition args_ok (a : arguments) : bool := forallb arg_ok (args_list a).
Definition oargs_ok (a : option arguments) : bool := match a with Some x => args_ok x | None => true end.
Definition dir_ok (d : directive) : bool := id_ok (dir_name d) && oargs_ok (dir_args d).
Definition dirs_ok (ds : list directive) : bool := forallb dir_ok ds.
Definition oid_ok (i : option ident) : bool := match i with Some x => id_ok x | None => true end.

Fixpoint sel_ok (x : selection) : bool :=
  match x with
  | SField al n args ds sel =>
      oid_ok al && id_ok n && oargs_ok args && dirs_ok ds
      && match sel with Some ss => selset_ok ss | None => true end
  | SSpread _ n ds => id_ok n && dirs_ok ds
  | SInline _ c ds ss => oid_ok c && dirs_ok ds && selset_ok ss
  end
with selset_ok (ss : selset) : bool :=
  match ss with SelSet _ l => forallb sel_ok l end.

Definition ovalue_ok (v : option value) : bool := match v with Some x => value_ok x | None => true end.
Definition vardef_ok (v : vardef) : bool :=
  atom_ok (vd_name v) && ty_ok (vd_type v) && ovalue_ok (vd_default v) && dirs_ok (vd_dirs v).
Definition opdef_ok (o : opdef) : bool :=
  oid_ok (op_name o) && match op_vars o with Some vs => forallb vardef_ok (vds_list vs) | None => true end
  && dirs_ok (op_dirs o) && selset_ok (op_sel o).
Definition fragdef_ok (f : fragdef) : bool :=
  id_ok (fr_name f) && id_ok (fr_cond f) && dirs_ok (fr_dirs f) && selset_ok (fr_sel f).
Definition importdef_ok (i : importdef) : bool :=
  forallb (fun t => match t with ImpWildcard => true | ImpName n => id_ok n end) (im_targets i)
  && lit_ok (im_path i).
Definition execdef_ok (d : execdef) : bool :=
  match d with DOp o => opdef_ok o | DFrag f => fragdef_ok f | DImport i => importdef_ok i end.
Definition opdoc_ok (d : opdoc) : bool := forallb execdef_ok (od_defs d).

Definition desc_ok (d : option desc) : bool := match d with Some x => lit_ok (desc_value x) | None => true end.
Definition inputval_ok (i : inputvaldef) : bool :=
  desc_ok (iv_desc i) && id_ok (iv_name i) && ty_ok (iv_type i) && ovalue_ok (iv_default i) && dirs_ok (iv_dirs i).
Definition oargsdef_ok (a : option (list inputvaldef)) : bool :=
  match a with Some l => forallb inputval_ok l | None => true end.
Definition fielddef_ok (f : fielddef) : bool :=
  desc_ok (fd_desc f) && id_ok (fd_name f) && oargsdef_ok (fd_args f) && ty_ok (fd_type f) && dirs_ok (fd_dirs f).
Definition enumval_ok (e : enumvaldef) : bool := desc_ok (ev_desc e) && id_ok (ev_name e) && dirs_ok (ev_dirs e).
Definition ids_ok (l : list ident) : bool := forallb id_ok l.
Definition typedef_ok (t : typedef) : bool :=
  match t with
  | TDScalar d _ n ds _ => desc_ok d && id_ok n && dirs_ok ds
  | TDObject d _ n im ds fs _ | TDInterface d _ n im ds fs _ =>
      desc_ok d && id_ok n && ids_ok im && dirs_ok ds && forallb fielddef_ok fs
  | TDUnion d _ n ds ms _ => desc_ok d && id_ok n && dirs_ok ds && ids_ok ms
  | TDEnum d _ n ds vs _ => desc_ok d && id_ok n && dirs_ok ds && forallb enumval_ok vs
  | TDInput d _ n ds fs _ => desc_ok d && id_ok n && dirs_ok ds && forallb inputval_ok fs
  end.
Definition typeext_ok (t : typeext) : bool :=
  match t with
  | TEScalar _ n ds => id_ok n && dirs_ok ds
  | TEObject _ n im ds fs | TEInterface _ n im ds fs => id_ok n && ids_ok im && dirs_ok ds && forallb fielddef_ok fs
  | TEUnion _ n ds ms => id_ok n && dirs_ok ds && ids_ok ms
  | TEEnum _ n ds vs => id_ok n && dirs_ok ds && forallb enumval_ok vs
  | TEInput _ n ds fs => id_ok n && dirs_ok ds && forallb inputval_ok fs
  end.
Definition rootops_ok (l : list (optype * ident)) : bool := forallb (fun kv => id_ok (snd kv)) l.
Definition tsdef_ok (x : tsdef) : bool :=
  match x with
  | TSSchema d => desc_ok (sd_desc d) && dirs_ok (sd_dirs d) && rootops_ok (sd_ops d)
  | TSType t => typedef_ok t
  | TSDirective d =>
      desc_ok (dd_desc d) && id_ok (dd_name d) && oargsdef_ok (dd_args d) && oid_ok (dd_repeatable d)
      && ids_ok (dd_locs d)
  | TSSchemaExt e => dirs_ok (se_dirs e) && rootops_ok (se_ops e)
  | TSTypeExt t => typeext_ok t
  end.
Definition tsdoc_ok (d : tsdoc) : bool := forallb tsdef_ok d.
