(** C16 — the template literal written by JsStringWriter evaluates to what JustWriter writes. *)
From V Require Import Base.Util Gql.Ast Writer.Wop C16.Model C16.Spec.
Local Open Scope N_scope.

(** ** one step of [cook] *)
Lemma cook_plain c r :
  (c =? 96) = false -> (c =? 36) = false -> (c =? 13) = false -> (c =? 92) = false ->
  cook (c :: r) = omap (cons c) (cook r).
Proof. intros H1 H2 H3 H4. cbn [cook]. rewrite H1, H2, H3, H4. reflexivity. Qed.

Lemma cook_bs_bs r : cook (92 :: 92 :: r) = omap (cons 92) (cook r).
Proof. reflexivity. Qed.
Lemma cook_bs_bt r : cook (92 :: 96 :: r) = omap (cons 96) (cook r).
Proof. reflexivity. Qed.
Lemma cook_bs_lbrace r : cook (92 :: 123 :: r) = omap (cons 123) (cook r).
Proof. reflexivity. Qed.
Lemma cook_dollar c2 r :
  cook (36 :: c2 :: r) = if c2 =? 123 then None else omap (cons 36) (cook (c2 :: r)).
Proof. reflexivity. Qed.
Lemma cook_end : cook [96] = Some [].
Proof. reflexivity. Qed.

Definition starts_brace (k : str) : bool := match k with c :: _ => c =? LBRACE | [] => false end.

(** ** one escaped line *)
Lemma cook_js_esc : forall l d k v,
  no_cr l = true -> cook k = Some v ->
  (ends_dollar l = true -> starts_brace k = false) ->
  cook (js_esc d l ++ k) = Some (l ++ v).
Proof.
  induction l as [|c r IH]; intros d k v Hcr Hk Hd.
  - exact Hk.
  - cbn [no_cr forallb] in Hcr. apply andb_true_iff in Hcr as [Hc Hcr].
    apply negb_true_iff in Hc. unfold CR in Hc.
    assert (Hd' : ends_dollar r = true -> starts_brace k = false).
    { intro H. apply Hd. destruct r; [discriminate | exact H]. }
    cbn [js_esc]. unfold BS, BT, LBRACE, DOLLAR.
    destruct (c =? 92) eqn:E92.
    { apply N.eqb_eq in E92; subst c. cbn [app]. rewrite cook_bs_bs.
      rewrite (IH _ k v Hcr Hk Hd'). reflexivity. }
    destruct (c =? 96) eqn:E96.
    { apply N.eqb_eq in E96; subst c. cbn [app]. rewrite cook_bs_bt.
      rewrite (IH _ k v Hcr Hk Hd'). reflexivity. }
    destruct (c =? 123) eqn:E123.
    { apply N.eqb_eq in E123; subst c. destruct d; cbn [andb app].
      - rewrite cook_bs_lbrace. rewrite (IH _ k v Hcr Hk Hd'). reflexivity.
      - rewrite cook_plain by reflexivity. rewrite (IH _ k v Hcr Hk Hd'). reflexivity. }
    cbn [andb app].
    destruct (c =? 36) eqn:E36.
    { apply N.eqb_eq in E36; subst c.
      (* the character after the dollar sign *)
      destruct r as [|c2 r2].
      - cbn [js_esc app]. destruct k as [|k0 k']; [discriminate|].
        rewrite cook_dollar.
        assert (Hb : (k0 =? 123) = false) by (apply (Hd eq_refl)).
        rewrite Hb, Hk. reflexivity.
      - pose proof (IH true k v Hcr Hk Hd') as IHr.
        (* the first character written for c2 is never a bare opening brace *)
        cbn [js_esc] in IHr |- *. unfold BS, BT, LBRACE, DOLLAR in IHr |- *.
        destruct (c2 =? 92) eqn:F92; [cbn [app] in IHr |- *; rewrite cook_dollar; cbn [N.eqb Pos.eqb]; rewrite IHr; reflexivity|].
        destruct (c2 =? 96) eqn:F96; [cbn [app] in IHr |- *; rewrite cook_dollar; cbn [N.eqb Pos.eqb]; rewrite IHr; reflexivity|].
        destruct (c2 =? 123) eqn:F123; cbn [andb app] in IHr |- *.
        + rewrite cook_dollar. cbn [N.eqb Pos.eqb]. rewrite IHr. reflexivity.
        + rewrite cook_dollar. rewrite F123. rewrite IHr. reflexivity. }
    rewrite cook_plain by assumption.
    rewrite (IH _ k v Hcr Hk Hd'). reflexivity.
Qed.

Lemma cook_spaces : forall n k v,
  cook k = Some v -> cook (repeat SP n ++ k) = Some (repeat SP n ++ v).
Proof.
  induction n as [|n IH]; intros k v Hk; [exact Hk|].
  cbn [repeat app]. unfold SP. rewrite cook_plain by reflexivity.
  fold SP. rewrite (IH k v Hk). reflexivity.
Qed.

Lemma cook_lf k v : cook k = Some v -> cook (LF :: k) = Some (LF :: v).
Proof. intro H. unfold LF. rewrite cook_plain by reflexivity. rewrite H. reflexivity. Qed.

(** ** a whole chunk *)
Lemma split_lf_no_cr : forall c, no_cr c = true -> forallb no_cr (split_lf c) = true.
Proof.
  induction c as [|x r IH]; intro H; [reflexivity|].
  cbn [no_cr forallb] in H. apply andb_true_iff in H as [Hx Hr].
  specialize (IH Hr). cbn [split_lf].
  destruct (x =? LF); [cbn [forallb]; rewrite IH; reflexivity|].
  destruct (split_lf r) as [|l ls]; cbn [forallb no_cr] in *.
  - rewrite Hx. reflexivity.
  - apply andb_true_iff in IH as [Hl Hls]. unfold no_cr in Hl. rewrite Hx, Hl, Hls. reflexivity.
Qed.

Lemma split_lf_nonempty c : split_lf c <> [].
Proof.
  destruct c as [|x r]; cbn [split_lf]; [discriminate|].
  destruct (x =? LF); [discriminate|]. destruct (split_lf r); discriminate.
Qed.

Lemma split_lf_single : forall r l, split_lf r = [l] -> l = r.
Proof.
  induction r as [|y r' IH]; intros l H.
  - cbn in H. congruence.
  - cbn [split_lf] in H. destruct (y =? LF).
    + exfalso. pose proof (split_lf_nonempty r'). destruct (split_lf r'); [contradiction|discriminate].
    + destruct (split_lf r') as [|l1 ls] eqn:E; [exfalso; exact (split_lf_nonempty r' E)|].
      injection H as H1 H2. subst ls l. f_equal. apply IH. reflexivity.
Qed.

Lemma ends_dollar_cons x r : r <> [] -> ends_dollar (x :: r) = ends_dollar r.
Proof. destruct r; [contradiction|reflexivity]. Qed.

(** the last line of the split ends in a dollar sign iff the chunk does *)
Lemma ends_dollar_last_line : forall c,
  ends_dollar (last (split_lf c) []) = ends_dollar c.
Proof.
  induction c as [|x r IH]; [reflexivity|].
  cbn [split_lf]. destruct (x =? LF) eqn:E.
  - apply N.eqb_eq in E; subst x.
    pose proof (split_lf_nonempty r) as Hne.
    destruct (split_lf r) as [|l ls] eqn:Es; [contradiction|].
    change (last ([] :: l :: ls) []) with (last (l :: ls) []). rewrite IH.
    destruct r; reflexivity.
  - destruct (split_lf r) as [|l ls] eqn:Es; [exfalso; exact (split_lf_nonempty r Es)|].
    destruct ls as [|l2 ls2].
    + apply split_lf_single in Es. subst l. reflexivity.
    + change (last ((x :: l) :: l2 :: ls2) []) with (last (l :: l2 :: ls2) []). rewrite IH.
      symmetry. apply ends_dollar_cons. intros ->. discriminate Es.
Qed.

Lemma cook_write_lines : forall lines first ind flag k v,
  forallb no_cr lines = true -> cook k = Some v ->
  (ends_dollar (last lines []) = true -> starts_brace k = false) ->
  snd (write_lines (js_esc false) first lines ind flag) = snd (write_lines (fun l => l) first lines ind flag)
  /\ cook (fst (write_lines (js_esc false) first lines ind flag) ++ k)
     = Some (fst (write_lines (fun l => l) first lines ind flag) ++ v).
Proof.
  induction lines as [|l r IH]; intros first ind flag k v Hcr Hk Hd.
  - cbn. split; [reflexivity|exact Hk].
  - cbn [forallb] in Hcr. apply andb_true_iff in Hcr as [Hl Hr].
    cbn [write_lines].
    assert (Hd' : r <> [] -> ends_dollar (last r []) = true -> starts_brace k = false).
    { intros Hne H. apply Hd. destruct r; [contradiction|exact H]. }
    destruct l as [|l0 l'].
    + (* empty line *)
      set (fl := if first then flag else true).
      destruct r as [|l2 r2].
      * cbn [write_lines]. cbn [fst snd]. split; [reflexivity|].
        destruct first; cbn [app]; [exact Hk|apply cook_lf; exact Hk].
      * assert (Hne : l2 :: r2 <> []) by discriminate.
        destruct (IH false ind fl k v Hr Hk (Hd' Hne)) as [IHs IHc].
        destruct (write_lines (js_esc false) false (l2 :: r2) ind fl) as [o f] eqn:E1.
        destruct (write_lines (fun l => l) false (l2 :: r2) ind fl) as [o' f'] eqn:E2.
        cbn [fst snd] in *. split; [exact IHs|].
        destruct first; cbn [app].
        -- exact IHc.
        -- apply cook_lf. exact IHc.
    + (* non-empty line *)
      set (fl := if first then flag else true).
      set (line := l0 :: l') in *.
      destruct r as [|l2 r2].
      * cbn [write_lines]. cbn [fst snd]. split; [reflexivity|].
        rewrite !app_nil_r.
        assert (Hline : cook (js_esc false line ++ k) = Some (line ++ v)).
        { apply cook_js_esc; [exact Hl|exact Hk|]. intro H. apply Hd. exact H. }
        assert (Hsp : cook ((if fl then spaces ind else []) ++ js_esc false line ++ k)
                      = Some ((if fl then spaces ind else []) ++ line ++ v)).
        { destruct fl; [unfold spaces; apply cook_spaces; exact Hline|exact Hline]. }
        destruct first; cbn [app]; rewrite <- !app_assoc.
        -- exact Hsp.
        -- cbn [app]. apply cook_lf. exact Hsp.
      * assert (Hne : l2 :: r2 <> []) by discriminate.
        destruct (IH false ind false k v Hr Hk (Hd' Hne)) as [IHs IHc].
        destruct (write_lines (js_esc false) false (l2 :: r2) ind false) as [o f] eqn:E1.
        destruct (write_lines (fun l => l) false (l2 :: r2) ind false) as [o' f'] eqn:E2.
        cbn [fst snd] in *. split; [exact IHs|].
        (* what follows this line starts with a line feed *)
        assert (Ho : exists o1, o = LF :: o1).
        { cbn [write_lines] in E1. destruct l2; destruct (write_lines (js_esc false) false r2 ind _) in E1;
            injection E1 as <- _; cbn [app]; eexists; reflexivity. }
        destruct Ho as [o1 ->].
        assert (Hline : cook (js_esc false line ++ (LF :: o1) ++ k) = Some (line ++ o' ++ v)).
        { apply cook_js_esc; [exact Hl|exact IHc|]. intros _. reflexivity. }
        assert (Hsp : cook ((if fl then spaces ind else []) ++ js_esc false line ++ (LF :: o1) ++ k)
                      = Some ((if fl then spaces ind else []) ++ line ++ o' ++ v)).
        { destruct fl; [unfold spaces; apply cook_spaces; exact Hline|exact Hline]. }
        destruct first; cbn [app]; rewrite <- !app_assoc.
        -- exact Hsp.
        -- cbn [app]. apply cook_lf. exact Hsp.
Qed.

Lemma head_js_esc x l k : starts_brace (js_esc false (x :: l) ++ k) = (x =? LBRACE).
Proof.
  cbn [js_esc]. unfold BS, BT, LBRACE.
  destruct (x =? 92) eqn:E1; [apply N.eqb_eq in E1; subst x; reflexivity|].
  destruct (x =? 96) eqn:E2; [apply N.eqb_eq in E2; subst x; reflexivity|].
  destruct (x =? 123) eqn:E3; cbn [andb app starts_brace]; unfold LBRACE; rewrite E3; reflexivity.
Qed.

Lemma head_spaces n k : starts_brace (spaces n ++ k) = true -> starts_brace k = true.
Proof. unfold spaces. destruct (N.to_nat n); cbn; [auto|discriminate]. Qed.

(** the text written by [ops] starts with an opening brace only if the first non-empty chunk does *)
Lemma run_ops_head_brace : forall ops ind flag tail,
  starts_brace tail = false ->
  starts_brace (run_ops (js_esc false) ops ind flag ++ tail) = true -> next_starts_brace ops = true.
Proof.
  induction ops as [|o r IH]; intros ind flag tail Ht H.
  - cbn in H. congruence.
  - assert (Hchunk : forall c, starts_brace (run_ops (js_esc false) (W c :: r) ind flag ++ tail) = true ->
                       match c with [] => next_starts_brace r | x :: _ => x =? LBRACE end = true).
    { intros c Hc. cbn [run_ops] in Hc. unfold write_chunk in Hc.
      destruct c as [|x c'].
      - cbn [split_lf write_lines] in Hc. cbn [app] in Hc. exact (IH _ _ _ Ht Hc).
      - cbn [split_lf] in Hc. destruct (x =? LF) eqn:ELF.
        + (* first line empty: a line feed is written first *)
          exfalso. cbn [write_lines] in Hc.
          pose proof (split_lf_nonempty c') as Hne.
          destruct (split_lf c') as [|l2 ls2]; [contradiction|].
          cbn [write_lines] in Hc.
          destruct l2; destruct (write_lines (js_esc false) false ls2 ind _) in Hc; cbn in Hc; discriminate.
        + assert (Hgen : forall ls, starts_brace (fst (write_lines (js_esc false) true ((x :: hd [] ls) :: tl ls) ind flag)
                           ++ run_ops (js_esc false) r ind (snd (write_lines (js_esc false) true ((x :: hd [] ls) :: tl ls) ind flag)) ++ tail) = true ->
                         (x =? LBRACE) = true).
          { intros ls Hg. cbn [write_lines] in Hg.
            destruct (write_lines (js_esc false) false (tl ls) ind false) as [o2 f2].
            cbn [fst snd app] in Hg. rewrite <- !app_assoc in Hg.
            destruct flag.
            - apply head_spaces in Hg. rewrite head_js_esc in Hg. exact Hg.
            - cbn [app] in Hg. rewrite head_js_esc in Hg. exact Hg. }
          destruct (split_lf c') as [|l ls].
          * apply (Hgen []). cbn [hd tl].
            destruct (write_lines (js_esc false) true [[x]] ind flag) as [o1 f1] eqn:E1 in Hc |- *.
            cbn [fst snd]. rewrite <- app_assoc in Hc. exact Hc.
          * apply (Hgen (l :: ls)). cbn [hd tl].
            destruct (write_lines (js_esc false) true ((x :: l) :: ls) ind flag) as [o1 f1] eqn:E1 in Hc |- *.
            cbn [fst snd]. rewrite <- app_assoc in Hc. exact Hc. }
    destruct o as [c|c p n| |]; cbn [next_starts_brace].
    + exact (Hchunk c H).
    + exact (Hchunk c H).
    + cbn [run_ops] in H. exact (IH _ _ _ Ht H).
    + cbn [run_ops] in H. exact (IH _ _ _ Ht H).
Qed.

(** ** the whole operation list *)
Lemma cook_run_ops : forall ops ind flag,
  no_cr_ops ops = true -> no_split_dollar ops = true ->
  cook (run_ops (js_esc false) ops ind flag ++ [BT]) = Some (run_ops (fun l => l) ops ind flag).
Proof.
  induction ops as [|o r IH]; intros ind flag Hcr Hsd.
  - cbn. reflexivity.
  - cbn [no_cr_ops forallb] in Hcr. apply andb_true_iff in Hcr as [Ho Hcr].
    assert (Hchunk : forall c, no_cr c = true ->
              negb (ends_dollar c && next_starts_brace r) && no_split_dollar r = true ->
              cook (run_ops (js_esc false) (W c :: r) ind flag ++ [BT])
              = Some (run_ops (fun l => l) (W c :: r) ind flag)).
    { intros c Hc Hs. apply andb_true_iff in Hs as [Hs1 Hs2].
      cbn [run_ops]. unfold write_chunk.
      pose proof (cook_write_lines (split_lf c) true ind flag) as CW.
      destruct (write_lines (js_esc false) true (split_lf c) ind flag) as [o1 f1] eqn:E1.
      destruct (write_lines (fun l => l) true (split_lf c) ind flag) as [o2 f2] eqn:E2.
      cbn [fst snd] in CW.
      specialize (CW (run_ops (js_esc false) r ind f1 ++ [BT]) (run_ops (fun l => l) r ind f1)
                     (split_lf_no_cr c Hc) (IH ind f1 Hcr Hs2)).
      destruct CW as [Hf Hcook].
      { rewrite ends_dollar_last_line. intro Hed. rewrite Hed in Hs1. cbn [andb] in Hs1.
        apply negb_true_iff in Hs1.
        destruct (starts_brace (run_ops (js_esc false) r ind f1 ++ [BT])) eqn:Hsb; [|reflexivity].
        apply run_ops_head_brace in Hsb; [congruence|reflexivity]. }
      subst f2. rewrite <- app_assoc. exact Hcook. }
    destruct o as [c|c p n| |].
    + cbn [no_split_dollar] in Hsd. exact (Hchunk c Ho Hsd).
    + cbn [no_split_dollar] in Hsd. exact (Hchunk c Ho Hsd).
    + cbn [run_ops no_split_dollar] in *. exact (IH _ _ Hcr Hsd).
    + cbn [run_ops no_split_dollar] in *. exact (IH _ _ Hcr Hsd).
Qed.

Theorem template_roundtrip : forall ops,
  no_cr_ops ops = true -> no_split_dollar ops = true ->
  eval_template (js_run ops) = Some (LF :: just_run ops).
Proof.
  intros ops Hcr Hsd. unfold js_run, just_run, eval_template, BT.
  cbn [N.eqb Pos.eqb]. change 96 with BT.
  change (cook (LF :: run_ops (js_esc false) ops 0 false ++ [BT])
          = Some (LF :: run_ops (fun l => l) ops 0 false)).
  apply cook_lf. apply cook_run_ops; assumption.
Qed.
