(** C16 — specification side, continued: a lexer for GraphQL source text (GraphQL specification,
    2.1 Source Text: ignored tokens, punctuators, names, numbers with their lookahead restrictions,
    string values) and the token sequence of a document ([tokens_of_*]: the document written out by
    the grammar of the specification, production by production, without any white space).
    Definitions only; nothing here looks at nitrogql's printer. *)
From V Require Import Base.Util Gql.Ast C16.Spec.
Local Open Scope N_scope.

Inductive tok :=
| TP (c : N)        (* punctuator; the spread punctuator is a word, see below *)
| TW (w : str)      (* Name, IntValue, FloatValue or "..." : a maximal run of word characters *)
| TS (v : str)      (* StringValue, by its value *)
| TR (t : strtok).  (* StringValue as the lexer finds it, before a reading ([Spec.value_spec] or
                       [Spec.value_nitrogql]) is applied: see [read] *)

Definition tok_eqb (a b0 : tok) : bool :=
  match a, b0 with
  | TP x, TP y => x =? y
  | TW x, TW y => str_eqb x y
  | TS x, TS y => str_eqb x y
  | TR (TNormal x), TR (TNormal y) => str_eqb x y
  | TR (TBlock x), TR (TBlock y) => str_eqb x y
  | _, _ => false
  end.

(** Ignored: white space (tab, space), line terminators, Unicode BOM, commas. *)
Definition ignored (c : N) : bool := (c =? 32) || (c =? 9) || (c =? 10) || (c =? 13) || (c =? 65279) || (c =? 44).
(** single-character punctuators: ! $ & ( ) : = @ [ ] { | } *)
Definition punct (c : N) : bool :=
  (c =? 33) || (c =? 36) || (c =? 38) || (c =? 40) || (c =? 41) || (c =? 58) || (c =? 61) || (c =? 64)
  || (c =? 91) || (c =? 93) || (c =? 123) || (c =? 124) || (c =? 125).
(** characters of names and numbers, and the dot of the spread punctuator.  A Name / IntValue /
    FloatValue must not be followed by a NameStart, a digit or a dot (2.1.9, 2.9.1, 2.9.2): lexing a
    maximal run of these characters as one word and classifying the word afterwards enforces
    exactly that (it is stricter only in rejecting a sign directly after a number or name). *)
Definition wordc (c : N) : bool :=
  ((48 <=? c) && (c <=? 57)) || ((65 <=? c) && (c <=? 90)) || ((97 <=? c) && (c <=? 122))
  || (c =? 95) || (c =? 46) || (c =? 45) || (c =? 43).

Fixpoint span_word (x : str) : str * str :=
  match x with
  | c :: r => if wordc c then let p := span_word r in (c :: fst p, snd p) else ([], x)
  | [] => ([], [])
  end.
(** a comment runs to the next line terminator (which is left in place) *)
Fixpoint skip_comment (x : str) : str :=
  match x with
  | c :: r => if (c =? 10) || (c =? 13) then x else skip_comment r
  | [] => []
  end.

(** [fuel]: every step consumes at least one character, so [length x] steps suffice *)
Fixpoint lexf (fuel : nat) (x : str) : option (list tok) :=
  match x with
  | [] => Some []
  | c :: r =>
      match fuel with
      | O => None
      | S f =>
          if ignored c then lexf f r
          else if c =? 35 then lexf f (skip_comment r)
          else if punct c then omap (cons (TP c)) (lexf f r)
          else if c =? 34 then
            match lex_string x with
            | Some (t, rest) => omap (cons (TR t)) (lexf f rest)
            | None => None
            end
          else if wordc c then let p := span_word x in omap (cons (TW (fst p))) (lexf f (snd p))
          else None
      end
  end.
(** a reading of string tokens: the specification's value, or nitrogql's *)
Definition read (val : strtok -> str) (t : tok) : tok := match t with TR k => TS (val k) | _ => t end.
Definition lex_with (val : strtok -> str) (x : str) : option (list tok) := omap (map (read val)) (lexf (length x) x).
(** nitrogql's reading (block strings raw) / the specification's (BlockStringValue) *)
Definition lex (x : str) : option (list tok) := lex_with value_nitrogql x.
Definition lex_spec (x : str) : option (list tok) := lex_with value_spec x.

(** *** classification of words *)
Definition is_digit_c (c : N) : bool := (48 <=? c) && (c <=? 57).
Definition is_name_start (c : N) : bool := ((65 <=? c) && (c <=? 90)) || ((97 <=? c) && (c <=? 122)) || (c =? 95).
Definition is_name (w : str) : bool :=
  match w with c :: r => is_name_start c && forallb (fun d => is_name_start d || is_digit_c d) r | [] => false end.
(** IntegerPart: optional minus, then 0 or a non-zero digit followed by digits; returns the rest *)
Fixpoint skip_digits (x : str) : str := match x with c :: r => if is_digit_c c then skip_digits r else x | [] => [] end.
Definition integer_part (w : str) : option str :=
  let w1 := match w with c :: r => if c =? 45 then r else w | [] => w end in
  match w1 with
  | c :: r => if c =? 48 then Some r else if is_digit_c c then Some (skip_digits r) else None
  | [] => None
  end.
Definition exponent_part (x : str) : option str :=   (* e|E, optional sign, digits+ *)
  match x with
  | e :: r =>
      if (e =? 101) || (e =? 69) then
        let r1 := match r with c :: r' => if (c =? 43) || (c =? 45) then r' else r | [] => r end in
        match r1 with c :: r2 => if is_digit_c c then Some (skip_digits r2) else None | [] => None end
      else None
  | [] => None
  end.
Definition is_int (w : str) : bool := match integer_part w with Some [] => true | _ => false end.
(** FloatValue: IntegerPart then FractionalPart and/or ExponentPart (nitrogql's grammar lets the
    fractional part have no digits; the specification wants at least one) *)
Definition is_float (w : str) : bool :=
  match integer_part w with
  | Some (c :: r) =>
      if c =? 46 then
        match r with
        | d :: _ => if is_digit_c d then
                      match skip_digits r with [] => true | r2 => match exponent_part r2 with Some [] => true | _ => false end end
                    else false
        | [] => false
        end
      else match exponent_part (c :: r) with Some [] => true | _ => false end
  | _ => false
  end.
Definition word_ok (w : str) : bool := is_name w || is_int w || is_float w || str_eqb w [46; 46; 46].
Definition toks_ok (ts : list tok) : bool := forallb (fun t => match t with TW w => word_ok w | _ => true end) ts.

(** the GraphQL lexer: [None] = not a sequence of lexical tokens *)
Definition gql_lex (x : str) : option (list tok) :=
  match lex x with Some ts => if toks_ok ts then Some ts else None | None => None end.

(** ** the token sequence of a document, by the grammar (2.2 - 3.13).  Optional leading separators
    of ImplementsInterfaces, UnionMemberTypes and DirectiveLocations are written (the grammar
    allows them); productions whose list part is empty take the list-free alternative. *)
Definition tw (x : String.string) : tok := TW (s x).
Arguments tw x%string_scope.
Definition t_id (i : ident) : list tok := [TW (iname i)].
Definition t_opt {A} (f : A -> list tok) (x : option A) : list tok := match x with Some a => f a | None => [] end.

(** [sn]: how the string values of the document are read (as they are, or normalised) *)
Section Tokens.
Variable sn : str -> str.

Fixpoint t_type (t : ty) : list tok :=
  match t with
  | TNamed n => t_id n
  | TNonNull t' => t_type t' ++ [TP 33]
  | TList _ t' => TP 91 :: t_type t' ++ [TP 93]
  end.

Fixpoint t_value (v : value) : list tok :=
  match v with
  | VVar n _ => [TP 36; TW n]
  | VInt _ l => [TW l]
  | VFloat _ l => [TW l]
  | VString _ x => [TS (sn x)]
  | VBool _ b0 => [if b0 then tw "true" else tw "false"]
  | VNull _ => [tw "null"]
  | VEnum _ x => [TW x]
  | VList _ vs => TP 91 :: flat_map t_value vs ++ [TP 93]
  | VObject _ fs => TP 123 :: flat_map (fun kv => t_id (fst kv) ++ TP 58 :: t_value (snd kv)) fs ++ [TP 125]
  end.

Definition t_args (a : arguments) : list tok :=
  TP 40 :: flat_map (fun kv => t_id (fst kv) ++ TP 58 :: t_value (snd kv)) (args_list a) ++ [TP 41].
Definition t_dir (d : directive) : list tok := TP 64 :: t_id (dir_name d) ++ t_opt t_args (dir_args d).
Definition t_dirs (ds : list directive) : list tok := flat_map t_dir ds.

Fixpoint t_sel (x : selection) : list tok :=
  match x with
  | SField al n args ds sel =>
      t_opt (fun a => t_id a ++ [TP 58]) al ++ t_id n ++ t_opt t_args args ++ t_dirs ds
      ++ match sel with Some ss => t_selset ss | None => [] end
  | SSpread _ n ds => tw "..." :: t_id n ++ t_dirs ds
  | SInline _ c ds ss => tw "..." :: t_opt (fun t => tw "on" :: t_id t) c ++ t_dirs ds ++ t_selset ss
  end
with t_selset (ss : selset) : list tok :=
  match ss with SelSet _ l => TP 123 :: flat_map t_sel l ++ [TP 125] end.

Definition t_optype (t : optype) : tok :=
  match t with Query => tw "query" | Mutation => tw "mutation" | Subscription => tw "subscription" end.
Definition t_default (v : option value) : list tok := t_opt (fun d => TP 61 :: t_value d) v.
Definition t_vardef (v : vardef) : list tok :=
  TP 36 :: TW (vd_name v) :: TP 58 :: t_type (vd_type v) ++ t_default (vd_default v) ++ t_dirs (vd_dirs v).
Definition t_vardefs (v : vardefs) : list tok := TP 40 :: flat_map t_vardef (vds_list v) ++ [TP 41].
Definition t_opdef (o : opdef) : list tok :=
  t_optype (op_type o) :: t_opt t_id (op_name o) ++ t_opt t_vardefs (op_vars o) ++ t_dirs (op_dirs o) ++ t_selset (op_sel o).
Definition t_fragdef (f : fragdef) : list tok :=
  tw "fragment" :: t_id (fr_name f) ++ tw "on" :: t_id (fr_cond f) ++ t_dirs (fr_dirs f) ++ t_selset (fr_sel f).
(** an #import line is a comment to a GraphQL lexer *)
Definition t_execdef (d : execdef) : list tok :=
  match d with DOp o => t_opdef o | DFrag f => t_fragdef f | DImport _ => [] end.
Definition tokens_opdoc (d : opdoc) : list tok := flat_map t_execdef (od_defs d).

Definition t_desc (d : option desc) : list tok := match d with Some x => [TS (sn (desc_value x))] | None => [] end.
Definition t_inputval (i : inputvaldef) : list tok :=
  t_desc (iv_desc i) ++ t_id (iv_name i) ++ TP 58 :: t_type (iv_type i) ++ t_default (iv_default i) ++ t_dirs (iv_dirs i).
Definition t_argsdef (l : list inputvaldef) : list tok := TP 40 :: flat_map t_inputval l ++ [TP 41].
Definition t_fielddef (f : fielddef) : list tok :=
  t_desc (fd_desc f) ++ t_id (fd_name f) ++ t_opt t_argsdef (fd_args f) ++ TP 58 :: t_type (fd_type f) ++ t_dirs (fd_dirs f).
Definition t_enumval (e : enumvaldef) : list tok := t_desc (ev_desc e) ++ t_id (ev_name e) ++ t_dirs (ev_dirs e).
Definition t_implements (l : list ident) : list tok :=
  match l with [] => [] | _ => tw "implements" :: flat_map (fun i => TP 38 :: t_id i) l end.
Definition t_body {A} (f : A -> list tok) (l : list A) : list tok :=
  match l with [] => [] | _ => TP 123 :: flat_map f l ++ [TP 125] end.
Definition t_members (l : list ident) : list tok :=
  match l with [] => [] | _ => TP 61 :: flat_map (fun i => TP 124 :: t_id i) l end.
Definition t_rootops (l : list (optype * ident)) : list tok :=
  match l with
  | [] => []
  | _ => TP 123 :: flat_map (fun kv => t_optype (fst kv) :: TP 58 :: t_id (snd kv)) l ++ [TP 125]
  end.

Definition t_typedef (t : typedef) : list tok :=
  match t with
  | TDScalar d _ n ds _ => t_desc d ++ tw "scalar" :: t_id n ++ t_dirs ds
  | TDObject d _ n im ds fs _ => t_desc d ++ tw "type" :: t_id n ++ t_implements im ++ t_dirs ds ++ t_body t_fielddef fs
  | TDInterface d _ n im ds fs _ =>
      t_desc d ++ tw "interface" :: t_id n ++ t_implements im ++ t_dirs ds ++ t_body t_fielddef fs
  | TDUnion d _ n ds ms _ => t_desc d ++ tw "union" :: t_id n ++ t_dirs ds ++ t_members ms
  | TDEnum d _ n ds vs _ => t_desc d ++ tw "enum" :: t_id n ++ t_dirs ds ++ t_body t_enumval vs
  | TDInput d _ n ds fs _ => t_desc d ++ tw "input" :: t_id n ++ t_dirs ds ++ t_body t_inputval fs
  end.
Definition t_typeext (t : typeext) : list tok :=
  tw "extend" ::
  match t with
  | TEScalar _ n ds => tw "scalar" :: t_id n ++ t_dirs ds
  | TEObject _ n im ds fs => tw "type" :: t_id n ++ t_implements im ++ t_dirs ds ++ t_body t_fielddef fs
  | TEInterface _ n im ds fs => tw "interface" :: t_id n ++ t_implements im ++ t_dirs ds ++ t_body t_fielddef fs
  | TEUnion _ n ds ms => tw "union" :: t_id n ++ t_dirs ds ++ t_members ms
  | TEEnum _ n ds vs => tw "enum" :: t_id n ++ t_dirs ds ++ t_body t_enumval vs
  | TEInput _ n ds fs => tw "input" :: t_id n ++ t_dirs ds ++ t_body t_inputval fs
  end.
Definition t_tsdef (x : tsdef) : list tok :=
  match x with
  | TSSchema d => t_desc (sd_desc d) ++ tw "schema" :: t_dirs (sd_dirs d) ++ t_rootops (sd_ops d)
  | TSType t => t_typedef t
  | TSDirective d =>
      t_desc (dd_desc d) ++ tw "directive" :: TP 64 :: t_id (dd_name d) ++ t_opt t_argsdef (dd_args d)
      ++ t_opt t_id (dd_repeatable d) ++ tw "on" :: flat_map (fun l => TP 124 :: t_id l) (dd_locs d)
  | TSSchemaExt e => tw "extend" :: tw "schema" :: t_dirs (se_dirs e) ++ t_rootops (se_ops e)
  | TSTypeExt t => t_typeext t
  end.
Definition tokens_tsdoc (d : tsdoc) : list tok := flat_map t_tsdef d.

End Tokens.

(** string values as nitrogql holds them *)
Definition tokens_of_tsdoc : tsdoc -> list tok := tokens_tsdoc (fun x => x).
Definition tokens_of_opdoc : opdoc -> list tok := tokens_opdoc (fun x => x).
(** string values as a GraphQL implementation reads them from the text the value came from:
    nitrogql keeps the raw text of a block string (and prints every value with a line feed as a
    block string), so a multi-line value stands for its BlockStringValue *)
Definition snorm (v : str) : str := if existsb (N.eqb 10) v then block_string_value v else v.
Definition tokens_spec_tsdoc : tsdoc -> list tok := tokens_tsdoc snorm.
Definition tokens_spec_opdoc : opdoc -> list tok := tokens_opdoc snorm.
