(** C16 — token level, part 2 (the generic half): lexing the text JustWriter writes for a list of
    operations whose chunks do not glue ([ProofsGlue.G]) gives the concatenation of the chunks'
    own token lists, whatever the indentation. *)
From V Require Import Base.Util Gql.Ast Writer.Wop C16.Model C16.Spec C16.SpecLex
  C16.ProofsString C16.ProofsGlue C16.ProofsLex1 C16.ProofsBlock.
Local Open Scope N_scope.

(** chunks made of ignored characters, punctuators and word characters only *)
Definition simplec (c : N) : bool := ignored c || punct c || wordc c.
Definition simple (x : str) : bool := forallb simplec x.

Definition last_wordc (x : str) : bool := match lastc x with Some a => wordc a | None => false end.

Lemma lastc_cons c r : r <> [] -> lastc (c :: r) = lastc r.
Proof. destruct r; [contradiction|reflexivity]. Qed.
Lemma lastc_app : forall a b0, b0 <> [] -> lastc (a ++ b0) = lastc b0.
Proof.
  induction a as [|c r IH]; intros b0 H; [reflexivity|].
  cbn [app]. rewrite lastc_cons; [apply IH; exact H|]. destruct r; [exact H|discriminate].
Qed.
Lemma last_wordc_all a : a <> [] -> forallb wordc a = true -> last_wordc a = true.
Proof.
  unfold last_wordc. induction a as [|c r IH]; intros Hne H; [contradiction|].
  cbn [forallb] in H. apply andb_true_iff in H as [Hc Hr].
  destruct r as [|d r']; [exact Hc|]. rewrite lastc_cons by discriminate. apply IH; [discriminate|exact Hr].
Qed.

Lemma wordc_not_lf c : wordc c = true -> (c =? LF) = false.
Proof.
  intro H. destruct (c =? LF) eqn:E; [|reflexivity]. apply N.eqb_eq in E; subst c. discriminate H.
Qed.

(** a run of word characters is written as it is, after the pending indentation *)
Lemma ins_word : forall a b0 ind flag,
  a <> [] -> forallb wordc a = true ->
  ins ind flag (a ++ b0) = (if flag then spaces ind else []) ++ a ++ ins ind false b0.
Proof.
  intros a b0 ind flag Hne Ha. destruct a as [|c r]; [contradiction|].
  cbn [forallb] in Ha. apply andb_true_iff in Ha as [Hc Hr].
  cbn [app ins]. rewrite (wordc_not_lf c Hc). f_equal. f_equal.
  clear Hne Hc. induction r as [|d r IH]; [reflexivity|].
  cbn [forallb] in Hr. apply andb_true_iff in Hr as [Hd Hr].
  cbn [app ins]. rewrite (wordc_not_lf d Hd). cbn [app]. f_equal. exact (IH Hr).
Qed.

Lemma hd_ins_false x ind : hd_wordc x = false -> hd_wordc (ins ind false x) = false.
Proof.
  destruct x as [|c r]; [reflexivity|]. cbn [hd_wordc ins]. intro H.
  destruct (c =? LF); [reflexivity|]. cbn [app hd_wordc]. exact H.
Qed.

Lemma L_pre ind (flag : bool) k ts : L k ts -> L ((if flag then spaces ind else []) ++ k) ts.
Proof. intro H. destruct flag; [unfold spaces, SP; apply L_spaces; exact H|exact H]. Qed.

(** ** a simple chunk, as JustWriter writes it, followed by text that does not continue its last word *)
Lemma L_simple_ins : forall f x tx,
  lexf f x = Some tx -> simple x = true ->
  forall ind flag k tk, L k tk -> (last_wordc x = true -> hd_wordc k = false) ->
  L (ins ind flag x ++ k) (tx ++ tk).
Proof.
  induction f as [|f IH]; intros x tx H Hs ind flag k tk Hk Hb.
  - destruct x; [|discriminate H]. injection H as <-. exact Hk.
  - destruct x as [|c r]; [injection H as <-; exact Hk|].
    rewrite lexf_S in H. cbn [simple forallb] in Hs. apply andb_true_iff in Hs as [Hc Hr].
    fold (simple r) in Hr.
    assert (Hb' : last_wordc r = true -> hd_wordc k = false).
    { intro Hl. apply Hb. unfold last_wordc in *. destruct r as [|d r']; [discriminate Hl|].
      rewrite lastc_cons by discriminate. exact Hl. }
    destruct (ignored c) eqn:Ei.
    { (* ignored *)
      cbn [ins]. destruct (c =? LF) eqn:El.
      - cbn [app]. apply N.eqb_eq in El. rewrite <- El. apply L_ign; [exact Ei|].
        exact (IH r tx H Hr ind true k tk Hk Hb').
      - rewrite <- app_assoc. apply L_pre. cbn [app]. apply L_ign; [exact Ei|].
        exact (IH r tx H Hr ind false k tk Hk Hb'). }
    destruct (c =? 35) eqn:E35.
    { apply N.eqb_eq in E35; subst c. discriminate Hc. }
    destruct (punct c) eqn:Ep.
    { destruct (lexf f r) as [tx'|] eqn:E; [|discriminate H]. injection H as <-.
      assert (El : (c =? LF) = false).
      { destruct (c =? LF) eqn:El; [|reflexivity]. apply N.eqb_eq in El; subst c. discriminate Ei. }
      cbn [ins]. rewrite El. rewrite <- app_assoc. apply L_pre. cbn [app].
      apply L_punct; [exact Ep|]. exact (IH r tx' E Hr ind false k tk Hk Hb'). }
    destruct (c =? 34) eqn:E34.
    { apply N.eqb_eq in E34; subst c. discriminate Hc. }
    destruct (wordc c) eqn:Ew; [|discriminate H].
    set (w' := fst (span_word (c :: r))) in *. set (rest' := snd (span_word (c :: r))) in *.
    destruct (lexf f rest') as [tx'|] eqn:E; [|discriminate H]. injection H as <-.
    assert (Hx : c :: r = w' ++ rest') by apply span_word_split.
    assert (Hw : forallb wordc w' = true) by apply span_word_all.
    assert (Hne : w' <> []).
    { unfold w'. cbn [span_word]. rewrite Ew. discriminate. }
    assert (Hrest : hd_wordc rest' = false) by apply span_word_rest.
    assert (Hsr : simple rest' = true).
    { assert (Hs : simple (c :: r) = true) by (cbn [simple forallb]; rewrite Hc; exact Hr).
      rewrite Hx in Hs. unfold simple in Hs. rewrite forallb_app in Hs. apply andb_true_iff in Hs as [_ Hs]. exact Hs. }
    assert (Hbr : last_wordc rest' = true -> hd_wordc k = false).
    { intro Hl. apply Hb. unfold last_wordc in *. rewrite Hx.
      destruct rest' as [|d r'] eqn:Er; [discriminate Hl|]. rewrite lastc_app by discriminate. exact Hl. }
    rewrite Hx. rewrite (ins_word w' rest' ind flag Hne Hw).
    rewrite <- !app_assoc. apply L_pre.
    set (K := ins ind false rest' ++ k).
    assert (HK : hd_wordc K = false).
    { unfold K. destruct rest' as [|d r'] eqn:Er.
      - cbn [ins app]. apply Hb. rewrite Hx, app_nil_r. apply last_wordc_all; assumption.
      - pose proof (hd_ins_false (d :: r') ind Hrest) as Hh.
        destruct (ins ind false (d :: r')) as [|h t] eqn:Ei2.
        + exfalso. cbn [ins] in Ei2. destruct (d =? LF); discriminate Ei2.
        + exact Hh. }
    destruct w' as [|c0 w''] eqn:Ew'; [contradiction|].
    pose proof (span_word_app (c0 :: w'') K Hw HK) as Hsp.
    cbn [app] in Hsp |- *.
    pose proof (L_word c0 (w'' ++ K) (tx' ++ tk)) as LW.
    rewrite Hsp in LW. cbn [fst snd] in LW.
    cbn [forallb] in Hw. apply andb_true_iff in Hw as [Hc0 _].
    apply LW; [exact Hc0|]. unfold K.
    exact (IH rest' tx' E Hsr ind false k tk Hk Hbr).
Qed.

(** ** a single-line string literal, as JustWriter writes it *)
Lemma ins_no_lf : forall y ind flag,
  y <> [] -> forallb (fun c => negb (c =? LF)) y = true ->
  ins ind flag y = (if flag then spaces ind else []) ++ y /\ insf flag y = false.
Proof.
  intros y ind flag Hne Hy. destruct y as [|c r]; [contradiction|].
  cbn [forallb] in Hy. apply andb_true_iff in Hy as [Hc Hr]. apply negb_true_iff in Hc.
  cbn [ins insf]. rewrite Hc.
  assert (A : ins ind false r = r /\ insf false r = false).
  { clear Hne Hc. induction r as [|d r IH]; [split; reflexivity|].
    cbn [forallb] in Hr. apply andb_true_iff in Hr as [Hd Hr]. apply negb_true_iff in Hd.
    cbn [ins insf]. rewrite Hd. destruct (IH Hr) as [I1 I2]. cbn [app]. rewrite I1. split; [reflexivity|exact I2]. }
  destruct A as [A1 A2]. rewrite A1. split; [reflexivity|exact A2].
Qed.

Definition no_lf (y : str) : bool := forallb (fun c => negb (c =? LF)) y.

Lemma no_lf_hex_fuel : forall f n, no_lf (hex_fuel f n) = true.
Proof.
  induction f as [|f IH]; intro n; [reflexivity|]. cbn [hex_fuel].
  assert (Hd : forall d, no_lf [hex_digit d] = true).
  { intro d. unfold hex_digit, no_lf. cbn [forallb]. rewrite andb_true_r. apply negb_true_iff.
    apply N.eqb_neq. unfold LF. destruct (d <? 10) eqn:E; [|lia]. apply N.ltb_lt in E. lia. }
  destruct (n <? 16); [apply Hd|]. unfold no_lf in *. rewrite forallb_app, IH. apply Hd.
Qed.

Lemma no_lf_esc_char c : no_lf (esc_char c) = true.
Proof.
  unfold esc_char. destruct (c =? CR); [reflexivity|]. destruct (c =? LF) eqn:E; [reflexivity|].
  destruct (is_control c).
  - unfold no_lf. cbn [app forallb]. rewrite forallb_app. fold (no_lf (hex c)). unfold hex.
    rewrite no_lf_hex_fuel. reflexivity.
  - unfold no_lf. cbn [forallb]. rewrite E. reflexivity.
Qed.

Lemma no_lf_print_string v : is_multiline v = false -> no_lf (print_string v) = true.
Proof.
  intro H. unfold print_string. rewrite H. unfold no_lf. cbn [forallb]. rewrite forallb_app.
  cbn [forallb andb negb]. rewrite andb_true_r.
  induction v as [|c r IH]; [reflexivity|]. cbn [flat_map]. rewrite forallb_app.
  fold (no_lf (esc_char c)). rewrite no_lf_esc_char. cbn [andb]. apply IH.
  unfold is_multiline in *. cbn [existsb] in H. apply orb_false_iff in H as [_ H]. exact H.
Qed.

Lemma L_literal : forall v ind flag k tk,
  is_multiline v = false -> plain_line v = true ->
  L k tk -> starts_quote k = false ->
  L (ins ind flag (print_string v) ++ k) (TR (TNormal v) :: tk) /\ insf flag (print_string v) = false.
Proof.
  intros v ind flag k tk Hm Hp Hk Hq.
  assert (Hne : print_string v <> []) by (unfold print_string; rewrite Hm; discriminate).
  destruct (ins_no_lf (print_string v) ind flag Hne (no_lf_print_string v Hm)) as [E1 E2].
  split; [|exact E2]. rewrite E1, <- app_assoc. apply L_pre.
  pose proof (print_string_lex_line v k Hm Hp Hq) as Hl.
  assert (Hshape : exists r, print_string v ++ k = 34 :: r).
  { unfold print_string. rewrite Hm. eexists. reflexivity. }
  destruct Hshape as [r Hr]. rewrite Hr in *.
  apply (L_string r (TNormal v) k tk Hl); [|exact Hk].
  assert (Hlen : length (print_string v ++ k) = S (length r)) by (rewrite Hr; reflexivity).
  rewrite app_length in Hlen.
  assert (2 <= length (print_string v))%nat.
  { unfold print_string. rewrite Hm. cbn [length]. rewrite app_length. cbn [length]. lia. }
  lia.
Qed.

(** ** a multi-line string literal, as JustWriter writes it at any indentation *)
Lemma L_block_literal : forall v ind flag k tk,
  is_multiline v = true -> plain_block v = true ->
  L k tk -> starts_quote k = false ->
  L (ins ind flag (print_string v) ++ k) (TR (TBlock (rawb ind v)) :: tk) /\ insf flag (print_string v) = false.
Proof.
  intros v ind flag k tk Hm Hp Hk Hq.
  assert (Hps : print_string v = QQQ ++ v ++ QQQ).
  { unfold print_string. rewrite Hm. unfold plain_block in Hp.
    apply andb_true_iff in Hp as [Hp _]. apply andb_true_iff in Hp as [Hn _].
    rewrite (block_body_id v 0) by (try lia; exact Hn). reflexivity. }
  rewrite Hps. destruct (ins_literal ind flag v) as [E1 E2]. split; [|exact E2].
  rewrite E1, <- app_assoc. apply L_pre. rewrite <- !app_assoc.
  pose proof (lex_string_written_block v ind k Hp) as Hl.
  assert (Hlen : (length k <= length ([DQ; DQ] ++ rawb ind v ++ QQQ ++ k))%nat).
  { rewrite !app_length. lia. }
  exact (L_string ([DQ; DQ] ++ rawb ind v ++ QQQ ++ k) (TBlock (rawb ind v)) k tk Hl Hlen Hk).
Qed.

Lemma lastc_print_string v : lastc (print_string v) = Some 34.
Proof.
  unfold print_string. destruct (is_multiline v).
  - change ([DQ; DQ; DQ] ++ block_body 0 v ++ [DQ; DQ; DQ]) with ([DQ; DQ; DQ] ++ block_body 0 v ++ [DQ; DQ] ++ [DQ]).
    rewrite !app_assoc. rewrite lastc_app by discriminate. reflexivity.
  - change (DQ :: flat_map esc_char v ++ [DQ]) with ((DQ :: flat_map esc_char v) ++ [DQ]).
    rewrite lastc_app by discriminate. reflexivity.
Qed.

(** the first character JustWriter writes for the rest is a space of the indentation, or the first
    character of the first non-empty chunk *)
Lemma hd_jrun : forall r ind flag,
  match jrun r ind flag with [] => True | h :: _ => h = 32 \/ first_char r = Some h end.
Proof.
  induction r as [|o r IH]; intros ind flag; [exact I|].
  assert (Hc : forall c, match ins ind flag c ++ jrun r ind (insf flag c) with
                         | [] => True
                         | h :: _ => h = 32 \/ match c with x :: _ => Some x | [] => first_char r end = Some h
                         end).
  { intro c. destruct c as [|x c'].
    - cbn [ins app insf]. apply IH.
    - cbn [ins]. destruct (x =? LF) eqn:E.
      + cbn [app]. right. apply N.eqb_eq in E. rewrite E. reflexivity.
      + destruct flag; cbn [app].
        * unfold spaces. destruct (N.to_nat ind); cbn [repeat app]; [right; reflexivity|left; reflexivity].
        * right. reflexivity. }
  destruct o as [c|c p n| |]; cbn [jrun first_char chunk_of].
  - specialize (Hc c). destruct c; exact Hc.
  - specialize (Hc c). destruct c; exact Hc.
  - apply IH.
  - apply IH.
Qed.

Lemma wordy_wordc c : wordy c = wordc c.
Proof. reflexivity. Qed.

(** ** token lists of chunks and of operation lists, under a reading of string tokens.
    [val]: the reading of a string token; [sn]: what a string value of the document stands for;
    [blk]: the multi-line values covered.  Two instances are used (Properties.v): nitrogql's raw
    reading ([value_nitrogql], identity, no multi-line value) and the specification's
    ([value_spec], [snorm], [block_lit]). *)
Section Reading.
Variable val : strtok -> str.
Variable sn : str -> str.
Variable blk : str -> bool.
Hypothesis val_line : forall v, is_multiline v = false -> val (TNormal v) = sn v.
Hypothesis val_blk : forall v, blk v = true ->
  is_multiline v = true /\ plain_block v = true /\ forall ind, val (TBlock (rawb ind v)) = sn v.

Inductive CK : str -> list tok -> Prop :=
| CK_simple c tc tc' : simple c = true -> L c tc -> map (read val) tc = tc' -> CK c tc'
| CK_lit v : is_multiline v = false -> plain_line v = true -> CK (print_string v) [TS (sn v)]
| CK_blk v : blk v = true -> CK (print_string v) [TS (sn v)].

Inductive TK : list wop -> list tok -> Prop :=
| TK_nil : TK [] []
| TK_I r ts : TK r ts -> TK (Indent :: r) ts
| TK_D r ts : TK r ts -> TK (Dedent :: r) ts
| TK_W c r tc ts : CK c tc -> TK r ts -> TK (W c :: r) (tc ++ ts)
| TK_WF c p n r tc ts : CK c tc -> TK r ts -> TK (WF c p n :: r) (tc ++ ts).

Lemma TK_app : forall a ta b0 tb, TK a ta -> TK b0 tb -> TK (a ++ b0) (ta ++ tb).
Proof.
  intros a ta b0 tb Ha Hb. induction Ha; cbn [app]; try rewrite <- app_assoc; try constructor; assumption.
Qed.

(** one chunk in front of text that lexes *)
Lemma chunk_lex : forall c tc, CK c tc ->
  forall r ind flag rts ts,
  L (jrun r ind (insf flag c)) rts -> map (read val) rts = ts ->
  glue_o (lastc c) (first_char r) = false ->
  exists rts', L (ins ind flag c ++ jrun r ind (insf flag c)) rts' /\ map (read val) rts' = tc ++ ts.
Proof.
  intros c tc Hc r ind flag rts ts HL Hm Hg.
  pose proof (hd_jrun r ind (insf flag c)) as Hh.
  assert (Hquote : lastc c = Some 34 -> starts_quote (jrun r ind (insf flag c)) = false).
  { intro Hlast. rewrite Hlast in Hg.
    destruct (jrun r ind (insf flag c)) as [|h t]; [reflexivity|]. cbn [starts_quote].
    destruct Hh as [->|Hf]; [reflexivity|].
    rewrite Hf in Hg. cbn [glue_o] in Hg. unfold glue in Hg. apply orb_false_iff in Hg as [_ Hg].
    change (34 =? DQ) with true in Hg. cbn [andb] in Hg. exact Hg. }
  destruct Hc as [c tc tc' Hs [f [_ Hl]] Hmap|v Hml Hp|v Hb].
  - exists (tc ++ rts). split.
    + apply (L_simple_ins f c tc Hl Hs ind flag _ rts HL).
      intro Hlw. unfold last_wordc in Hlw. destruct (lastc c) as [a|]; [|discriminate Hlw].
      destruct (jrun r ind (insf flag c)) as [|h t]; [reflexivity|]. cbn [hd_wordc].
      destruct Hh as [->|Hf]; [reflexivity|].
      rewrite Hf in Hg. cbn [glue_o] in Hg. unfold glue in Hg. apply orb_false_iff in Hg as [Hg _].
      rewrite wordy_wordc, Hlw in Hg. cbn [andb] in Hg. exact Hg.
    + rewrite map_app, Hmap, Hm. reflexivity.
  - exists (TR (TNormal v) :: rts). split.
    + destruct (L_literal v ind flag _ rts Hml Hp HL (Hquote (lastc_print_string v))) as [H _]. exact H.
    + cbn [map read app]. rewrite (val_line v Hml), Hm. reflexivity.
  - destruct (val_blk v Hb) as [Hml [Hp Hv]].
    exists (TR (TBlock (rawb ind v)) :: rts). split.
    + destruct (L_block_literal v ind flag _ rts Hml Hp HL (Hquote (lastc_print_string v))) as [H _]. exact H.
    + cbn [map read app]. rewrite (Hv ind), Hm. reflexivity.
Qed.

Theorem TK_lex : forall ops ts, TK ops ts -> G ops = true ->
  forall ind flag, exists rts, L (jrun ops ind flag) rts /\ map (read val) rts = ts.
Proof.
  intros ops ts H. induction H as [|r ts H IH|r ts H IH|c r tc ts Hc H IH|c p n r tc ts Hc H IH]; intros HG ind flag.
  - exists []. split; [apply L_nil|reflexivity].
  - cbn [jrun]. apply IH. exact HG.
  - cbn [jrun]. apply IH. exact HG.
  - cbn [G chunk_of] in HG. apply andb_true_iff in HG as [Hg HGr]. apply negb_true_iff in Hg.
    cbn [jrun]. destruct (IH HGr ind (insf flag c)) as [rts [HL Hm]].
    exact (chunk_lex c tc Hc r ind flag rts ts HL Hm Hg).
  - cbn [G chunk_of] in HG. apply andb_true_iff in HG as [Hg HGr]. apply negb_true_iff in Hg.
    cbn [jrun]. destruct (IH HGr ind (insf flag c)) as [rts [HL Hm]].
    exact (chunk_lex c tc Hc r ind flag rts ts HL Hm Hg).
Qed.

(** for the text [just_run] writes, with the executable lexer *)
Corollary TK_lex_just_run ops ts : TK ops ts -> G ops = true -> lex_with val (just_run ops) = Some ts.
Proof.
  intros H HG. rewrite just_run_jrun. destruct (TK_lex ops ts H HG 0 false) as [rts [HL Hm]].
  rewrite (L_lex_with val _ rts HL), Hm. reflexivity.
Qed.

End Reading.
