(** C16 — the literal written by [print_string] lexes back (GraphQL StringValue) to the value, for
    [plain] values; the values outside [plain] are exactly where it does not (see Proofs.v). *)
From V Require Import Base.Util Gql.Ast Writer.Wop C16.Model C16.Spec.
Local Open Scope N_scope.

Lemma triple_quote_at_starts3 x : triple_quote_at x = starts3 x.
Proof. reflexivity. Qed.

(** ** single-line strings *)
Definition cons_fst (c : N) (p : str * str) : str * str := (c :: fst p, snd p).

Lemma lex_normal_plain c r :
  (c =? 34) = false -> is_gql_line_terminator c = false -> (c =? 92) = false ->
  lex_normal (c :: r) = omap (cons_fst c) (lex_normal r).
Proof. intros H1 H2 H3. cbn [lex_normal]. rewrite H1, H2, H3. reflexivity. Qed.
Lemma lex_normal_close r : lex_normal (34 :: r) = Some ([], r).
Proof. reflexivity. Qed.
Lemma lex_normal_cr r : lex_normal (92 :: 114 :: r) = omap (cons_fst 13) (lex_normal r).
Proof. reflexivity. Qed.
Lemma lex_normal_lf r : lex_normal (92 :: 110 :: r) = omap (cons_fst 10) (lex_normal r).
Proof. reflexivity. Qed.
Lemma lex_normal_ub r : lex_normal (92 :: 117 :: 123 :: r) = lex_ub 0 0 r.
Proof. reflexivity. Qed.

Lemma hexval_not_close c v : hexval c = Some v -> (c =? 125) = false.
Proof.
  intro H. destruct (c =? 125) eqn:E; [|reflexivity].
  apply N.eqb_eq in E; subst c. discriminate H.
Qed.

Lemma lex_ub_digit acc n c v r :
  hexval c = Some v -> acc * 16 + v <= 1114111 ->
  lex_ub acc n (c :: r) = lex_ub (acc * 16 + v) (n + 1) r.
Proof.
  intros Hv Hle. cbn [lex_ub]. rewrite (hexval_not_close c v Hv), Hv.
  apply N.leb_le in Hle. rewrite Hle. reflexivity.
Qed.

Lemma lex_ub_close acc n r :
  0 < n -> scalar_ok acc = true ->
  lex_ub acc n (125 :: r) = omap (cons_fst acc) (lex_normal r).
Proof.
  intros Hn Hs. cbn [lex_ub]. change (125 =? 125) with true. cbv iota.
  apply N.ltb_lt in Hn. rewrite Hn, Hs. reflexivity.
Qed.

Lemma hexval_digit d : d < 16 -> hexval (hex_digit d) = Some d.
Proof.
  intro H.
  assert (E : d = 0 \/ d = 1 \/ d = 2 \/ d = 3 \/ d = 4 \/ d = 5 \/ d = 6 \/ d = 7 \/ d = 8 \/ d = 9
              \/ d = 10 \/ d = 11 \/ d = 12 \/ d = 13 \/ d = 14 \/ d = 15) by lia.
  repeat (destruct E as [->|E]; [reflexivity|]). subst d. reflexivity.
Qed.

Lemma hex_small c : c < 16 -> hex c = [hex_digit c].
Proof. intro H. unfold hex. cbn [hex_fuel]. apply N.ltb_lt in H. rewrite H. reflexivity. Qed.
Lemma hex_two c : 16 <= c -> c < 256 -> hex c = [hex_digit (c / 16); hex_digit (c mod 16)].
Proof.
  intros H1 H2. unfold hex. cbn [hex_fuel].
  assert (E1 : (c <? 16) = false) by (apply N.ltb_ge; exact H1). rewrite E1.
  assert (E2 : (c / 16 <? 16) = true).
  { apply N.ltb_lt. apply N.div_lt_upper_bound; lia. }
  rewrite E2. reflexivity.
Qed.

Lemma lex_ub_hex c r :
  c < 256 -> lex_ub 0 0 (hex c ++ 125 :: r) = omap (cons_fst c) (lex_normal r).
Proof.
  intro Hc. destruct (N.lt_ge_cases c 16) as [Hs|Hb].
  - rewrite (hex_small c Hs). cbn [app].
    rewrite (lex_ub_digit 0 0 _ c _ (hexval_digit c Hs)) by lia.
    cbn [N.mul N.add]. apply lex_ub_close; [lia|].
    unfold scalar_ok. assert (E : (c <? 55296) = true) by (apply N.ltb_lt; lia). rewrite E. reflexivity.
  - rewrite (hex_two c Hb Hc). cbn [app].
    assert (Hq : c / 16 < 16) by (apply N.div_lt_upper_bound; lia).
    assert (Hm : c mod 16 < 16) by (apply N.mod_lt; lia).
    rewrite (lex_ub_digit 0 0 _ (c / 16) _ (hexval_digit _ Hq)) by lia.
    rewrite (lex_ub_digit _ _ _ (c mod 16) _ (hexval_digit _ Hm)) by lia.
    assert (E : (0 * 16 + c / 16) * 16 + c mod 16 = c).
    { pose proof (N.div_mod c 16). lia. }
    rewrite E. apply lex_ub_close; [lia|].
    unfold scalar_ok. assert (E' : (c <? 55296) = true) by (apply N.ltb_lt; lia). rewrite E'. reflexivity.
Qed.

Lemma is_control_small c : is_control c = true -> c < 256.
Proof.
  unfold is_control. intro H. apply orb_true_iff in H as [H|H].
  - apply N.ltb_lt in H. lia.
  - apply andb_true_iff in H as [_ H]. apply N.ltb_lt in H. lia.
Qed.

(** one character of the value, escaped and read back *)
Lemma lex_normal_esc_char c r :
  (c =? DQ) = false -> (c =? BS) = false ->
  lex_normal (esc_char c ++ r) = omap (cons_fst c) (lex_normal r).
Proof.
  intros Hq Hb. unfold esc_char, CR, LF, BS, LBRACE.
  destruct (c =? 13) eqn:E13; [apply N.eqb_eq in E13; subst c; apply lex_normal_cr|].
  destruct (c =? 10) eqn:E10; [apply N.eqb_eq in E10; subst c; apply lex_normal_lf|].
  destruct (is_control c) eqn:Ec.
  - cbn [app]. rewrite <- app_assoc. cbn [app]. rewrite lex_normal_ub.
    apply lex_ub_hex. apply is_control_small. exact Ec.
  - cbn [app]. apply lex_normal_plain; [exact Hq| |exact Hb].
    unfold is_gql_line_terminator. rewrite E10, E13. reflexivity.
Qed.

Lemma lex_normal_flat_map : forall x rest,
  plain_line x = true ->
  lex_normal (flat_map esc_char x ++ DQ :: rest) = Some (x, rest).
Proof.
  induction x as [|c r IH]; intros rest H.
  - apply lex_normal_close.
  - cbn [plain_line forallb] in H. apply andb_true_iff in H as [Hc Hr].
    apply andb_true_iff in Hc as [Hq Hb]. apply negb_true_iff in Hq, Hb.
    cbn [flat_map]. rewrite <- app_assoc.
    rewrite (lex_normal_esc_char c _ Hq Hb). rewrite (IH rest Hr). reflexivity.
Qed.

Lemma esc_char_head c : (c =? DQ) = false -> starts_quote (esc_char c) = false.
Proof.
  intro H. unfold esc_char. destruct (c =? CR); [reflexivity|]. destruct (c =? LF); [reflexivity|].
  destruct (is_control c); [reflexivity|]. cbn. exact H.
Qed.

Lemma esc_char_nonempty c : esc_char c <> [].
Proof.
  unfold esc_char. destruct (c =? CR); [discriminate|]. destruct (c =? LF); [discriminate|].
  destruct (is_control c); discriminate.
Qed.

Theorem print_string_lex_line : forall x rest,
  is_multiline x = false -> plain_line x = true -> starts_quote rest = false ->
  lex_string (print_string x ++ rest) = Some (TNormal x, rest).
Proof.
  intros x rest Hm Hp Hr. unfold print_string. rewrite Hm.
  cbn [app]. rewrite <- app_assoc. cbn [app].
  unfold lex_string. change (DQ =? 34) with true. cbv iota.
  assert (Hs : starts3 (DQ :: flat_map esc_char x ++ DQ :: rest) = false).
  { destruct x as [|c r].
    - cbn [flat_map app starts3]. destruct rest as [|k0 k]; [reflexivity|].
      cbn in Hr. unfold DQ in Hr. rewrite Hr. rewrite andb_false_r. reflexivity.
    - cbn [plain_line forallb] in Hp. apply andb_true_iff in Hp as [Hc _].
      apply andb_true_iff in Hc as [Hq _]. apply negb_true_iff in Hq.
      cbn [flat_map]. pose proof (esc_char_head c Hq) as Hh. pose proof (esc_char_nonempty c) as Hne.
      destruct (esc_char c) as [|e0 e]; [contradiction|]. cbn in Hh. cbn [app starts3].
      unfold DQ in Hh. destruct ((e ++ flat_map esc_char r) ++ DQ :: rest); [reflexivity|].
      rewrite Hh. rewrite andb_false_r. reflexivity. }
  rewrite Hs. rewrite (lex_normal_flat_map x rest Hp). reflexivity.
Qed.

(** ** block strings *)
Lemma starts3_app y k : (3 <= length y)%nat -> starts3 (y ++ k) = starts3 y.
Proof.
  intro H. destruct y as [|a [|b [|c y']]]; cbn in H; try lia. reflexivity.
Qed.

Lemma no_triple_app_r : forall a b0, no_triple (a ++ b0) = true -> no_triple b0 = true.
Proof.
  induction a as [|x a IH]; intros b0 H; [exact H|].
  cbn [app no_triple] in H. apply andb_true_iff in H as [_ H]. exact (IH _ H).
Qed.

Lemma repeat_snoc {A} (a : A) n l : repeat a (S n) ++ l = repeat a n ++ a :: l.
Proof.
  induction n as [|n IH]; [reflexivity|].
  change (repeat a (S (S n)) ++ l) with (a :: (repeat a (S n) ++ l)). rewrite IH. reflexivity.
Qed.

Lemma block_body_id : forall x dq,
  (dq <= 2)%nat -> no_triple (repeat DQ dq ++ x) = true -> block_body dq x = repeat DQ dq ++ x.
Proof.
  induction x as [|c r IH]; intros dq Hdq H.
  - cbn [block_body]. rewrite app_nil_r. reflexivity.
  - cbn [block_body]. destruct (c =? DQ) eqn:E.
    + apply N.eqb_eq in E; subst c.
      destruct dq as [|[|[|dq]]]; try lia.
      * rewrite (IH 1%nat) by (try lia; exact H). reflexivity.
      * rewrite (IH 2%nat) by (try lia; exact H). reflexivity.
      * exfalso. cbn in H. discriminate H.
    + rewrite (IH 0%nat); [reflexivity|lia|].
      cbn [repeat app]. apply (no_triple_app_r (repeat DQ dq ++ [c])). rewrite <- app_assoc. exact H.
Qed.

(** every non-empty suffix, followed by the closing delimiter, does not start with three quotes *)
Fixpoint sfx_ok (x : str) : bool :=
  match x with [] => true | _ :: r => negb (starts3 (x ++ [DQ; DQ; DQ])) && sfx_ok r end.

Lemma sfx_ok_of : forall x, no_triple x = true -> ends_with DQ x = false -> sfx_ok x = true.
Proof.
  induction x as [|c r IH]; intros Hn He; [reflexivity|].
  cbn [no_triple] in Hn. apply andb_true_iff in Hn as [Hs Hn].
  cbn [sfx_ok]. apply andb_true_iff. split.
  - destruct r as [|c2 [|c3 r3]].
    + cbn in He |- *. unfold DQ in He. rewrite He. reflexivity.
    + cbn in He |- *. unfold DQ in He. rewrite He. rewrite andb_false_r. reflexivity.
    + rewrite starts3_app by (cbn; lia). exact Hs.
  - apply IH; [exact Hn|]. destruct r; [reflexivity|exact He].
Qed.

Lemma lex_block_ok : forall x rest,
  sfx_ok x = true -> ends_with BS x = false ->
  lex_block (x ++ DQ :: DQ :: DQ :: rest) = Some (x, rest).
Proof.
  induction x as [|c r IH]; intros rest Hs He.
  - reflexivity.
  - cbn [sfx_ok] in Hs. apply andb_true_iff in Hs as [H1 Hs]. apply negb_true_iff in H1.
    assert (E1 : starts3 ((c :: r) ++ DQ :: DQ :: DQ :: rest) = false).
    { change (DQ :: DQ :: DQ :: rest) with ([DQ; DQ; DQ] ++ rest). rewrite app_assoc.
      rewrite starts3_app; [exact H1|]. rewrite app_length. cbn. lia. }
    assert (E2 : (c =? 92) && starts3 (r ++ DQ :: DQ :: DQ :: rest) = false).
    { destruct (c =? 92) eqn:Ec; [|reflexivity]. cbn [andb].
      destruct r as [|c2 r2].
      - cbn in He. unfold BS in He. congruence.
      - cbn [sfx_ok] in Hs. apply andb_true_iff in Hs as [H2 _]. apply negb_true_iff in H2.
        change (DQ :: DQ :: DQ :: rest) with ([DQ; DQ; DQ] ++ rest). rewrite app_assoc.
        rewrite starts3_app; [exact H2|]. rewrite app_length. cbn. lia. }
    assert (He' : ends_with BS r = false) by (destruct r; [reflexivity|exact He]).
    specialize (IH rest Hs He').
    change ((c :: r) ++ DQ :: DQ :: DQ :: rest) with (c :: (r ++ DQ :: DQ :: DQ :: rest)) in *.
    cbn [lex_block]. rewrite E1, E2, IH. reflexivity.
Qed.

Theorem print_string_lex_block : forall x rest,
  is_multiline x = true -> plain_block x = true ->
  lex_string (print_string x ++ rest) = Some (TBlock x, rest).
Proof.
  intros x rest Hm Hp. unfold plain_block in Hp.
  apply andb_true_iff in Hp as [Hp Hb]. apply andb_true_iff in Hp as [Hn Hq].
  apply negb_true_iff in Hb, Hq.
  unfold print_string. rewrite Hm.
  rewrite (block_body_id x 0) by (try lia; exact Hn). cbn [repeat app].
  rewrite <- app_assoc. cbn [app].
  unfold lex_string. change (DQ =? 34) with true. cbv iota.
  change (starts3 (DQ :: DQ :: DQ :: x ++ DQ :: DQ :: DQ :: rest)) with true. cbv iota.
  cbn [skipn]. rewrite (lex_block_ok x rest (sfx_ok_of x Hn Hq) Hb). reflexivity.
Qed.

(** the statement of DESIGN section 4 (C16): for plain values the literal reads back to the value,
    under nitrogql's reading of the token; for single-line values also under the specification's *)
Theorem print_string_lex_partial : forall x rest,
  plain x = true -> starts_quote rest = false ->
  exists t, lex_string (print_string x ++ rest) = Some (t, rest) /\ value_nitrogql t = x.
Proof.
  intros x rest Hp Hr. unfold plain in Hp. destruct (is_multiline x) eqn:Hm.
  - exists (TBlock x). split; [apply print_string_lex_block; assumption|reflexivity].
  - exists (TNormal x). split; [apply print_string_lex_line; assumption|reflexivity].
Qed.

(** under the specification's reading a multi-line value must also be its own BlockStringValue *)
Definition block_normal (x : str) : bool := str_eqb (block_string_value (unescape_triple x)) x.

Theorem print_string_lex_spec : forall x rest,
  plain x = true -> starts_quote rest = false ->
  (is_multiline x = true -> block_normal x = true) ->
  exists t, lex_string (print_string x ++ rest) = Some (t, rest) /\ value_spec t = x.
Proof.
  intros x rest Hp Hr Hn. unfold plain in Hp. destruct (is_multiline x) eqn:Hm.
  - exists (TBlock x). split; [apply print_string_lex_block; assumption|].
    cbn [value_spec]. specialize (Hn eq_refl). unfold block_normal in Hn.
    destruct (str_eqb_spec (block_string_value (unescape_triple x)) x); congruence.
  - exists (TNormal x). split; [apply print_string_lex_line; assumption|reflexivity].
Qed.
